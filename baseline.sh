#!/bin/sh
# runs the repository's pinned test-suite command with the hooks guard OFF and prints pass/fail counts
unset DIMARRAY_VERIF
cd /repo && /venv/bin/python -m pytest -ra -q -p no:cacheprovider --timeout=900 --continue-on-collection-errors "$@"

/-
C04 - property theorems: arithmetic aligns operands by dimension name and by label.
-/
import DimModel.Lib.Operation
import DimModel.Gen.TableC04
import DimModel.Props.C06
import DimModel.Proofs.C04
import DimModel.Proofs.C04General
import DimModel.Proofs.C04Vals
namespace DimModel
open Lib

/-! ### the operator table of the implementation (regenerated on every run) -/

/-- exact results of `8 op 2` and `2 op 8` for the six operators -/
def expectedOp (o : Op) (rev : Bool) : Int × Nat :=
  match o, rev with
  | .add, _ => (10, 1)
  | .sub, false => (6, 1)
  | .sub, true => (-6, 1)
  | .mul, _ => (16, 1)
  | .truediv, false => (4, 1)
  | .truediv, true => (1, 4)
  | .floordiv, false => (4, 1)
  | .floordiv, true => (0, 1)
  | .pow, false => (64, 1)
  | .pow, true => (256, 1)

/-- every operator exists in every operand form (array-array, array-scalar, scalar-array,
array-ndarray), returns a DimArray, and computes the matching ufunc with the operands in the
right order (the twelve probe results are pairwise distinguishable, so a missing reflected method, a
swapped operand order or a wrong ufunc changes a row) -/
theorem opTable_complete :
    ∀ r ∈ Gen.opTable, r.2.2.1 = true ∧ (r.2.2.2.1, r.2.2.2.2) = expectedOp r.1 (r.2.1 == "arr_arr_rev") := by
  decide

/-- all 6 × 5 forms are present -/
theorem opTable_all_forms :
    ∀ o ∈ [Op.add, .sub, .mul, .truediv, .floordiv, .pow],
      ∀ f ∈ ["arr_arr", "arr_scalar", "scalar_arr", "arr_nd", "arr_arr_rev"],
        (Gen.opTable.any fun r => r.1 == o && r.2.1 == f) = true := by
  decide

/-! ### NumPy broadcasting of the aligned operands -/

/-- two shapes broadcast exactly when, dimension by dimension, the sizes are equal or one of them is 1 -/
theorem bcastShape_isSome : ∀ (s t : List Nat),
    (bcastShape s t).isSome = true ↔ (s.length = t.length ∧ ∀ p ∈ s.zip t, p.1 = p.2 ∨ p.1 = 1 ∨ p.2 = 1)
  | [], [] => by simp [bcastShape]
  | [], _ :: _ => by simp [bcastShape]
  | _ :: _, [] => by simp [bcastShape]
  | x :: xs, y :: ys => by
    have ih := bcastShape_isSome xs ys
    simp only [bcastShape, List.length_cons, List.zip_cons_cons, List.mem_cons, forall_eq_or_imp]
    cases h : bcastShape xs ys with
    | none =>
      simp only [h, Option.isSome_none, Bool.false_eq_true, false_iff] at ih ⊢
      rintro ⟨hl, _, hr⟩
      exact ih ⟨by omega, hr⟩
    | some r =>
      simp only [h, Option.isSome_some, true_iff] at ih
      have ih2 : ∀ (a b : Nat), (a, b) ∈ xs.zip ys → a = b ∨ a = 1 ∨ b = 1 := fun a b hab => ih.2 (a, b) hab
      have hl : xs.length + 1 = ys.length + 1 := by rw [ih.1]
      by_cases h1 : x = y
      · subst h1
        simp only [beq_self_eq_true, if_true, Option.isSome_some, true_iff]
        exact ⟨hl, by simp, fun p hp => ih.2 p hp⟩
      · have e1 : (x == y) = false := by simpa using h1
        by_cases h2 : x = 1
        · subst h2
          simp only [e1, Bool.false_eq_true, if_false, beq_self_eq_true, if_true, Option.isSome_some, true_iff]
          exact ⟨hl, by simp, fun p hp => ih.2 p hp⟩
        · have e2 : (x == 1) = false := by simpa using h2
          by_cases h3 : y = 1
          · subst h3
            simp only [e1, e2, Bool.false_eq_true, if_false, beq_self_eq_true, if_true, Option.isSome_some, true_iff]
            exact ⟨hl, by simp, fun p hp => ih.2 p hp⟩
          · have e3 : (y == 1) = false := by simpa using h3
            simp only [e1, e2, e3, Bool.false_eq_true, if_false, Option.isSome_none, false_iff]
            rintro ⟨_, hh, _⟩
            rcases hh with h | h | h
            · exact h1 h
            · exact h2 h
            · exact h3 h

/-- the value at every index of the result is `f` of the operands' values, each read at the same
index except along its singleton dimensions (read at 0): operands lacking a dimension are
replicated along it -/
theorem zipBroadcast_get {α : Type} (f : α → α → α) (x y r : NDArr α) (h : zipBroadcast f x y = .ok r)
    (j : List Nat) : r.get j = f (x.get (bcastIdx x.shape j)) (y.get (bcastIdx y.shape j)) := by
  unfold zipBroadcast at h
  cases hs : bcastShape x.shape y.shape with
  | none => simp [hs] at h
  | some s => simp [hs] at h; subst h; rfl

/-- `bcastIdx` reads a full-size dimension at the result's own position and a singleton at 0 -/
theorem bcastIdx_get (s j : List Nat) (k : Nat) (hk : k < s.length) (hj : k < j.length) :
    (bcastIdx s j)[k]'(by simp [bcastIdx]; omega) = if s[k] = 1 then 0 else j[k] := by
  simp [bcastIdx]

/-! ### result dimensions -/

theorem getDims_step_prefix (dims : List String) (axes : List Axis) :
    ∃ extra, axes.foldl (fun ds ax => if ds.contains ax.name then ds else ds ++ [ax.name]) dims = dims ++ extra := by
  induction axes generalizing dims with
  | nil => exact ⟨[], by simp⟩
  | cons ax rest ih =>
    simp only [List.foldl_cons]
    split
    · exact ih dims
    · obtain ⟨e, he⟩ := ih (dims ++ [ax.name])
      exact ⟨ax.name :: e, by rw [he]; simp⟩

/-- the result's dimensions start with the first operand's dimensions, in their order -/
theorem getDims_first_prefix (a : List Axis) (rest : List (List Axis)) (hn : (a.map (·.name)).Nodup) :
    ∃ extra, getDims (a :: rest) = a.map (·.name) ++ extra := by
  unfold getDims
  simp only [List.foldl_cons]
  -- first array: starting from [] the fold lists its (distinct) names in order
  have h1 : ∀ (pre : List String) (l : List Axis), (pre ++ l.map (·.name)).Nodup →
      l.foldl (fun ds ax => if ds.contains ax.name then ds else ds ++ [ax.name]) pre = pre ++ l.map (·.name) := by
    intro pre l
    induction l generalizing pre with
    | nil => intro _; simp
    | cons x xs ih =>
      intro hnd
      simp only [List.foldl_cons, List.map_cons]
      have hx : x.name ∉ pre := by
        intro hm
        have := (List.nodup_append.mp hnd).2.2 x.name hm x.name (by simp)
        exact this rfl
      have : pre.contains x.name = false := by simpa using hx
      simp only [this, Bool.false_eq_true, if_false]
      have := ih (pre ++ [x.name]) (by simpa [List.append_assoc] using hnd)
      simpa [List.append_assoc] using this
  rw [h1 [] a (by simpa using hn)]
  simp only [List.nil_append]
  -- the remaining arrays only append
  have h2 : ∀ (arrs : List (List Axis)) (dims : List String), ∃ extra,
      arrs.foldl (fun dims axes => axes.foldl (fun ds ax => if ds.contains ax.name then ds else ds ++ [ax.name]) dims) dims
        = dims ++ extra := by
    intro arrs
    induction arrs with
    | nil => intro dims; exact ⟨[], by simp⟩
    | cons x xs ih =>
      intro dims
      simp only [List.foldl_cons]
      obtain ⟨e1, he1⟩ := getDims_step_prefix dims x
      rw [he1]
      obtain ⟨e2, he2⟩ := ih (dims ++ e1)
      exact ⟨e1 ++ e2, by rw [he2]; simp⟩
  exact h2 rest _

/-- arithmetic returns an array without the operands' metadata -/
theorem operation_attrs_dropped {α : Type} (nan : α) (f : α → α → α) (a b : DimArray α)
    (r : DimArray α × Kind × Kind) (h : operation nan f a b = .ok r) : r.1.attrs = [] := by
  unfold operation at h
  simp only [bind, Except.bind] at h
  cases h1 : align nan [a, b] Join.outer none false false with
  | error e => simp [h1] at h
  | ok al =>
    simp only [h1] at h
    cases h2 : alignDims al with
    | error e => simp [h2] at h
    | ok ad =>
      simp only [h2] at h
      split at h
      · cases h
      · split at h
        · cases h
        · split at h
          · cases h
          · simp only [pure, Except.pure] at h
            cases h
            rfl


/-! ### end-to-end (round 2): `a op b` for two arrays over the same dimensions

Statement history (round-2 drafts, validated on instances with `#eval` before proving): the three drafts are TRUE
as they were written and are proved UNCHANGED.  The points that were to be checked:
* the common axes come in the order of `a.dims` (`getDims [a.axes, b.axes] = a.dims` when `b.dims = a.dims` and
  the names are distinct: `getDims_pair_same`), so `r.axes.map (·.labels) = commons.map (·.labels)` holds
  position by position;
* `getAlignedAxes [a.axes, b.axes]` is `getAlignedAxes ([a, b].map (·.axes))` by `rfl`;
* `newaxes.map (fun ax => { ax with })` is `newaxes` (structure eta, `List.map_id'`);
* `operation` compares `Axis.size` (which looks at `members`) with the broadcast shape: `align` returns plain
  axes when it is given plain axes (`align_members`, new), so the sizes are the numbers of labels;
* `alignDims` returns the aligned pair unchanged (`eraseDups [d, d] = [d]`), no aligned axis carries `Label.none`
  (its labels are labels of the operands), both aligned operands have the same shape, `bcastShape s s = some s`,
  and inside the shape `bcastIdx s j = j` (a dimension of size 1 has the only index 0).
The helper lemmas are in `DimModel/Proofs/C04.lean`. -/

/-- LABEL-WISE COMPUTATION.  For two arrays that list the same dimensions in the same order (labels in any order,
label sets equal, overlapping, nested or disjoint), `a op b` has those dimensions, carries on every dimension the
common (union) labels, and its value at every label coordinate is `f` of `a`'s value at that coordinate and `b`'s
value at that coordinate, where an operand that does not have the coordinate contributes `nan`
(`alignVals`); the result carries no metadata -/
theorem operation_same_dims_spec {α : Type} (nan : α) (f : α → α → α) (a b r : DimArray α) (k1 k2 : Kind)
    (ha : AlignInput a) (hb : AlignInput b) (hd : a.dims = b.dims)
    (h : operation nan f a b = .ok (r, k1, k2)) :
    r.dims = a.dims ∧ r.attrs = [] ∧
    (∃ commons : List Axis,
      getAlignedAxes [a.axes, b.axes] .outer none false false = .ok commons ∧
      r.axes.map (·.labels) = commons.map (·.labels)) ∧
    r.vals.shape = r.axes.map (·.labels.length) ∧
    ∀ j, InRange r.vals.shape j →
      r.vals.get j = f ((alignVals a (r.axes.map (·.labels)) nan).get j) ((alignVals b (r.axes.map (·.labels)) nan).get j) := by
  obtain ⟨o1, o2, commons, hg, _, hd1, hl1, hl2, hv1, hv2, hop⟩ :=
    operation_same_dims_core nan f a b ha hb hd
  rw [hop] at h
  simp only [Except.ok.injEq, Prod.mk.injEq] at h
  obtain ⟨rfl, _, _⟩ := h
  refine ⟨hd1, rfl, ⟨commons, hg, hl1⟩, hv1.1, ?_⟩
  intro j hj
  have hj0 : InRange o1.vals.shape j := hj
  have hj1 : InRange (o1.axes.map (·.labels.length)) j := hv1.1 ▸ hj0
  have hj2 : InRange (o2.axes.map (·.labels.length)) j := by
    rw [map_labels_length, hl2, ← hl1, ← map_labels_length]; exact hj1
  show f (o1.vals.get (bcastIdx o1.vals.shape j)) (o2.vals.get (bcastIdx o1.vals.shape j)) = _
  rw [bcastIdx_inRange _ _ hj0, hv1.2 j hj1, hv2.2 j hj2, hl2, ← hl1]

/-- every label of the result comes from an operand and every operand label is in the result, each once -/
theorem operation_same_dims_labels {α : Type} (nan : α) (f : α → α → α) (a b r : DimArray α) (k1 k2 : Kind)
    (ha : AlignInput a) (hb : AlignInput b) (hd : a.dims = b.dims)
    (h : operation nan f a b = .ok (r, k1, k2)) (k : Nat) (hk : k < a.axes.length) (v : Label) :
    ((r.axes.getD k default).labels).Nodup ∧
    (v ∈ (r.axes.getD k default).labels ↔ v ∈ (a.axes.getD k default).labels ∨ v ∈ (b.axes.getD k default).labels) := by
  obtain ⟨o1, o2, commons, hg, hnames, hd1, hl1, _, _, _, hop⟩ :=
    operation_same_dims_core nan f a b ha hb hd
  rw [hop] at h
  simp only [Except.ok.injEq, Prod.mk.injEq] at h
  obtain ⟨rfl, _, _⟩ := h
  have hk1 : k < o1.axes.length := by
    have := congrArg List.length hd1
    simp only [DimArray.dims, List.length_map] at this
    omega
  have hkc : k < commons.length := by
    have := congrArg List.length hl1
    simp only [List.length_map] at this
    omega
  have e : (o1.axes.getD k default).labels = (commons.getD k default).labels := by
    have := congrArg (fun l => l[k]?) hl1
    simp only [List.getElem?_map, List.getElem?_eq_getElem hk1, List.getElem?_eq_getElem hkc,
      Option.map_some, Option.some.injEq] at this
    rw [axes_getD_eq_getElem _ _ hk1, axes_getD_eq_getElem _ _ hkc]
    exact this
  show ((o1.axes.getD k default).labels).Nodup ∧ (v ∈ (o1.axes.getD k default).labels ↔ _)
  rw [e]
  exact commons_pair_labels a b ha hb hd commons hg hnames k hk v

/-- on such operands the operation does not fail -/
theorem operation_same_dims_succeeds {α : Type} (nan : α) (f : α → α → α) (a b : DimArray α)
    (ha : AlignInput a) (hb : AlignInput b) (hd : a.dims = b.dims) :
    ∃ r k1 k2, operation nan f a b = .ok (r, k1, k2) := by
  obtain ⟨o1, o2, _, _, _, _, _, _, _, _, hop⟩ := operation_same_dims_core nan f a b ha hb hd
  exact ⟨_, _, _, hop⟩

/-! non-vacuity: two 2-D arrays over `x`, `y` with integer labels in different orders and overlapping label sets.
`decide` cannot evaluate `operation` (`align` re-indexes with `locate_many`, which sorts with `mergeSort`), so
success comes from `operation_same_dims_succeeds`; evaluated with `#eval`, `a + b` with `nan = -1` has the labels
`x = [3, 1, 2]`, `y = [7, 5, 9]` and the values `[[-1, 0, -2], [111, 111, 101], [110, 109, 111]]`. -/
def exOpA : DimArray Int :=
  { axes := [{ name := "x", labels := [.num 3, .num 1], kind := .i },
             { name := "y", labels := [.num 7, .num 5], kind := .i }],
    vals := ⟨[2, 2], fun j => 10 * j.getD 0 0 + j.getD 1 0⟩ }
def exOpB : DimArray Int :=
  { axes := [{ name := "x", labels := [.num 1, .num 2], kind := .i },
             { name := "y", labels := [.num 5, .num 7, .num 9], kind := .i }],
    vals := ⟨[2, 3], fun j => 100 + 10 * j.getD 0 0 + j.getD 1 0⟩ }

theorem exOpA_input : AlignInput exOpA := by unfold AlignInput exOpA; decide
theorem exOpB_input : AlignInput exOpB := by unfold AlignInput exOpB; decide

example : ∃ (r : DimArray Int) (k1 k2 : Kind),
    operation (-1) (· + ·) exOpA exOpB = .ok (r, k1, k2) ∧
    r.dims = ["x", "y"] ∧ r.attrs = [] ∧ r.vals.shape = [3, 3] ∧
    (r.axes.getD 0 default).labels.Nodup ∧ (r.axes.getD 1 default).labels.Nodup ∧
    (∀ v, v ∈ (r.axes.getD 0 default).labels ↔ v = .num 3 ∨ v = .num 1 ∨ v = .num 2) ∧
    (∀ v, v ∈ (r.axes.getD 1 default).labels ↔ v = .num 7 ∨ v = .num 5 ∨ v = .num 9) := by
  obtain ⟨r, k1, k2, h⟩ :=
    operation_same_dims_succeeds (-1) (· + ·) exOpA exOpB exOpA_input exOpB_input (by decide)
  have hs := operation_same_dims_spec (-1) (· + ·) exOpA exOpB r k1 k2 exOpA_input exOpB_input (by decide) h
  have h0 := fun v => operation_same_dims_labels (-1) (· + ·) exOpA exOpB r k1 k2 exOpA_input exOpB_input
    (by decide) h 0 (by decide) v
  have h1 := fun v => operation_same_dims_labels (-1) (· + ·) exOpA exOpB r k1 k2 exOpA_input exOpB_input
    (by decide) h 1 (by decide) v
  have m0 : ∀ v, v ∈ (r.axes.getD 0 default).labels ↔ v = .num 3 ∨ v = .num 1 ∨ v = .num 2 := by
    intro v
    rw [(h0 v).2]
    simp only [exOpA, exOpB, List.getD_cons_zero, List.mem_cons, List.not_mem_nil, or_false]
    constructor
    · rintro ((h | h) | (h | h)) <;> simp [h]
    · rintro (h | h | h) <;> simp [h]
  have m1 : ∀ v, v ∈ (r.axes.getD 1 default).labels ↔ v = .num 7 ∨ v = .num 5 ∨ v = .num 9 := by
    intro v
    rw [(h1 v).2]
    simp only [exOpA, exOpB, List.getD_cons_succ, List.getD_cons_zero, List.mem_cons, List.not_mem_nil, or_false]
    constructor
    · rintro ((h | h) | (h | h | h)) <;> simp [h]
    · rintro (h | h | h) <;> simp [h]
  refine ⟨r, k1, k2, h, hs.1, hs.2.1, ?_, (h0 Label.none).1, (h1 Label.none).1, m0, m1⟩
  -- a duplicate-free list with exactly three members has three elements
  have len3 : ∀ (L : List Label) (x y z : Label), [x, y, z].Nodup → L.Nodup →
      (∀ v, v ∈ L ↔ v = x ∨ v = y ∨ v = z) → L.length = 3 := by
    intro L x y z hxyz hL hm
    have : L.Perm [x, y, z] := (List.perm_ext_iff_of_nodup hL hxyz).mpr (fun v => by rw [hm v]; simp)
    simpa using this.length_eq
  have hlen : r.axes.length = 2 := by
    have := congrArg List.length hs.1
    simpa [DimArray.dims, exOpA] using this
  rw [hs.2.2.2.1]
  match hr : r.axes, hlen with
  | [x0, x1], _ =>
    simp only [hr, List.getD_cons_zero, List.getD_cons_succ] at h0 h1 m0 m1
    simp only [List.map_cons, List.map_nil, len3 _ _ _ _ (by decide) (h0 Label.none).1 m0,
      len3 _ _ _ _ (by decide) (h1 Label.none).1 m1]


/-! ### end-to-end (round 4): `a op b` IN GENERAL - operands over arbitrary dimensions

The operands may share all, some or none of their dimensions, list them in any order, and carry on each shared
dimension label sets that are equal, overlapping, nested or disjoint, stored in any order.  Hypotheses, all
decidable: both operands are `AlignInput` (distinct dimension names, unique labels, no `None` label, plain axes,
no empty axis, values of the announced shape) and NO DIMENSION NAME CONTAINS A COMMA (`reshape`, which
`align_dims` calls, reads a comma in a name as a request to group dimensions; see
`operation_comma_name_counterexample` at the end of the file).  `operation` then
* never fails (`operation_succeeds`),
* returns the first operand's dimensions followed by those of the second that the first lacks, in the second's
  order (`operation_dims`),
* carries on every dimension the union of the labels the operands have on it, each once
  (`operation_general_labels`; a dimension only one operand has keeps that operand's labels in their order,
  `operation_unshared_labels`),
* and holds at every coordinate `f` of the two operands' values at the labels found at this coordinate on each
  operand's OWN dimensions, `nan` for an operand that lacks one of these labels (`operation_general_spec`):
  an operand is replicated along the dimensions it lacks, by name, never by position.
Special cases: disjoint dimensions give the outer product (`operation_disjoint_dims`); a second operand whose
dimensions are among the first's is broadcast along the others (`operation_broadcast_sub`).
The helper lemmas are in `DimModel/Proofs/C04String.lean` (comma-free names and `String.splitOn`),
`DimModel/Proofs/C04Reshape.lean` (`reshape` towards more dimensions) and `DimModel/Proofs/C04General.lean`. -/

/-- a well-formed pair can always be combined -/
theorem operation_succeeds {α : Type} (nan : α) (f : α → α → α) (a b : DimArray α)
    (ha : AlignInput a) (hb : AlignInput b)
    (hca : ∀ d ∈ a.dims, ',' ∉ d.toList) (hcb : ∀ d ∈ b.dims, ',' ∉ d.toList) :
    ∃ r k1 k2, operation nan f a b = .ok (r, k1, k2) := by
  obtain ⟨r, k1, k2, _, hop, _⟩ := operation_general_full nan f a b ha hb hca hcb
  exact ⟨r, k1, k2, hop⟩

/-- RESULT DIMENSIONS: the first operand's dimensions in their order, then those of the second operand that the
first lacks, in the second's order -/
theorem operation_dims {α : Type} (nan : α) (f : α → α → α) (a b r : DimArray α) (k1 k2 : Kind)
    (ha : AlignInput a) (hb : AlignInput b)
    (hca : ∀ d ∈ a.dims, ',' ∉ d.toList) (hcb : ∀ d ∈ b.dims, ',' ∉ d.toList)
    (h : operation nan f a b = .ok (r, k1, k2)) :
    r.dims = a.dims ++ b.dims.filter (fun d => !a.dims.contains d) := by
  obtain ⟨r', k1', k2', _, hop, _, _, hd, _⟩ := operation_general_full nan f a b ha hb hca hcb
  rw [hop] at h
  simp only [Except.ok.injEq, Prod.mk.injEq] at h
  obtain ⟨rfl, _, _⟩ := h
  exact hd

/-- every dimension of an operand is a dimension of the result, each dimension once: the positions
`r.dims.idxOf d` used by `restrictTo` below are in range -/
theorem operation_dims_cover {α : Type} (nan : α) (f : α → α → α) (a b r : DimArray α) (k1 k2 : Kind)
    (ha : AlignInput a) (hb : AlignInput b)
    (hca : ∀ d ∈ a.dims, ',' ∉ d.toList) (hcb : ∀ d ∈ b.dims, ',' ∉ d.toList)
    (h : operation nan f a b = .ok (r, k1, k2)) :
    r.dims.Nodup ∧ (∀ d, d ∈ r.dims ↔ d ∈ a.dims ∨ d ∈ b.dims) ∧
    (∀ d ∈ a.dims, r.dims.idxOf d < r.axes.length) ∧ (∀ d ∈ b.dims, r.dims.idxOf d < r.axes.length) := by
  have hd := operation_dims nan f a b r k1 k2 ha hb hca hcb h
  have hd' : r.dims = opDims a b := hd
  have hlen : r.axes.length = r.dims.length := by simp [DimArray.dims]
  refine ⟨hd' ▸ opDims_nodup a b ha.1 hb.1, fun d => hd' ▸ mem_opDims a b d, ?_, ?_⟩
  · intro d hda
    rw [hlen]
    exact List.idxOf_lt_length_of_mem (hd' ▸ (mem_opDims a b d).mpr (Or.inl hda))
  · intro d hdb
    rw [hlen]
    exact List.idxOf_lt_length_of_mem (hd' ▸ (mem_opDims a b d).mpr (Or.inr hdb))

/-- LABEL-WISE COMPUTATION, IN GENERAL.  `restrictTo a.dims r.dims xs z` picks, for every dimension of `a` in
`a`'s order, the entry of `xs` at the position of that dimension in the result.  The value of the result at
index `j` is `f` of
* `a`'s value at the labels found at `j` on `a`'s own dimensions (`alignVals`: the position of each label on
  `a`'s axis; `nan` as soon as `a` lacks one of them), and
* `b`'s value at the labels found at `j` on `b`'s own dimensions.
The result has the dimensions of `operation_dims`, the common (union) labels on every dimension, a value array
of the announced shape and no metadata -/
theorem operation_general_spec {α : Type} (nan : α) (f : α → α → α) (a b r : DimArray α) (k1 k2 : Kind)
    (ha : AlignInput a) (hb : AlignInput b)
    (hca : ∀ d ∈ a.dims, ',' ∉ d.toList) (hcb : ∀ d ∈ b.dims, ',' ∉ d.toList)
    (h : operation nan f a b = .ok (r, k1, k2)) :
    r.dims = a.dims ++ b.dims.filter (fun d => !a.dims.contains d) ∧ r.attrs = [] ∧
    (∃ commons : List Axis,
      getAlignedAxes [a.axes, b.axes] .outer none false false = .ok commons ∧
      commons.map (·.name) = r.dims ∧
      r.axes.map (·.labels) = commons.map (·.labels)) ∧
    r.vals.shape = r.axes.map (·.labels.length) ∧
    ∀ j, InRange r.vals.shape j →
      r.vals.get j =
        f ((alignVals a (restrictTo a.dims r.dims (r.axes.map (·.labels)) []) nan).get (restrictTo a.dims r.dims j 0))
          ((alignVals b (restrictTo b.dims r.dims (r.axes.map (·.labels)) []) nan).get (restrictTo b.dims r.dims j 0)) := by
  obtain ⟨r', k1', k2', commons, hop, hg, hnames, hd, hat, hlab, hsh, hval⟩ :=
    operation_general_full nan f a b ha hb hca hcb
  rw [hop] at h
  simp only [Except.ok.injEq, Prod.mk.injEq] at h
  obtain ⟨rfl, _, _⟩ := h
  exact ⟨hd, hat, ⟨commons, hg, hnames.trans hd.symm, hlab⟩, hsh, hval⟩

/-- UNION OF LABELS: the axis of the result at every position carries each label once, and a label is there iff
one of the operands has it on its axis of that name -/
theorem operation_general_labels {α : Type} (nan : α) (f : α → α → α) (a b r : DimArray α) (k1 k2 : Kind)
    (ha : AlignInput a) (hb : AlignInput b)
    (hca : ∀ d ∈ a.dims, ',' ∉ d.toList) (hcb : ∀ d ∈ b.dims, ',' ∉ d.toList)
    (h : operation nan f a b = .ok (r, k1, k2)) (k : Nat) (hk : k < r.axes.length) (v : Label) :
    r.axes[k].labels.Nodup ∧
    (v ∈ r.axes[k].labels ↔
      (∃ ax ∈ a.axes, ax.name = r.axes[k].name ∧ v ∈ ax.labels) ∨
      (∃ ax ∈ b.axes, ax.name = r.axes[k].name ∧ v ∈ ax.labels)) := by
  obtain ⟨_, _, ⟨commons, hg, hnames, hlab⟩, _, _⟩ := operation_general_spec nan f a b r k1 k2 ha hb hca hcb h
  have hin := alignInput_pair a b ha hb
  have hkc : k < commons.length := by
    have := congrArg List.length hlab
    simp only [List.length_map] at this
    omega
  have e1 : r.axes[k].labels = commons[k].labels := by
    have := congrArg (fun l => l[k]?) hlab
    simpa [hk, hkc] using this
  have e2 : commons[k].name = r.axes[k].name := by
    have := congrArg (fun l => l[k]?) hnames
    simpa [DimArray.dims, hk, hkc] using this
  obtain ⟨hn, hout, _⟩ := (align_all_labels [a, b] .outer false hin commons hg).2.2 commons[k]
    (List.getElem_mem hkc) v
  rw [e1, ← e2]
  refine ⟨hn, ?_⟩
  rw [hout rfl]
  constructor
  · rintro ⟨x, hx, ax, hax, hname, hv⟩
    simp only [List.mem_cons, List.not_mem_nil, or_false] at hx
    rcases hx with rfl | rfl
    · exact Or.inl ⟨ax, hax, hname, hv⟩
    · exact Or.inr ⟨ax, hax, hname, hv⟩
  · rintro (⟨ax, hax, hname, hv⟩ | ⟨ax, hax, hname, hv⟩)
    · exact ⟨a, by simp, ax, hax, hname, hv⟩
    · exact ⟨b, by simp, ax, hax, hname, hv⟩


/-- a dimension that only ONE operand has keeps that operand's labels, in their stored order (the other operand is
replicated along it) -/
theorem operation_unshared_labels {α : Type} (nan : α) (f : α → α → α) (a b r : DimArray α) (k1 k2 : Kind)
    (ha : AlignInput a) (hb : AlignInput b)
    (hca : ∀ d ∈ a.dims, ',' ∉ d.toList) (hcb : ∀ d ∈ b.dims, ',' ∉ d.toList)
    (h : operation nan f a b = .ok (r, k1, k2)) (k : Nat) (hk : k < r.axes.length) :
    (∀ ax ∈ a.axes, ax.name = r.axes[k].name → r.axes[k].name ∉ b.dims → r.axes[k].labels = ax.labels) ∧
    (∀ ax ∈ b.axes, ax.name = r.axes[k].name → r.axes[k].name ∉ a.dims → r.axes[k].labels = ax.labels) := by
  obtain ⟨hd, _, ⟨commons, hg, hnames, hlab⟩, _, _⟩ := operation_general_spec nan f a b r k1 k2 ha hb hca hcb h
  have hin := alignInput_pair a b ha hb
  have hcn : (commons.map (·.name)).Nodup := (align_all_labels [a, b] .outer false hin commons hg).1
  have hkc : k < commons.length := by
    have := congrArg List.length hlab
    simp only [List.length_map] at this
    omega
  have e1 : r.axes[k].labels = commons[k].labels := by
    have := congrArg (fun l => l[k]?) hlab
    simpa [hk, hkc] using this
  have e2 : commons[k].name = r.axes[k].name := by
    have := congrArg (fun l => l[k]?) hnames
    simpa [DimArray.dims, hk, hkc] using this
  have e3 : r.axes[k].labels = comLabels commons r.axes[k].name := by
    rw [e1, ← e2, comLabels_of_mem commons hcn _ (List.getElem_mem hkc)]
  constructor
  · intro ax hax hname hnb
    have hda : r.axes[k].name ∈ a.dims := hname ▸ List.mem_map.mpr ⟨ax, hax, rfl⟩
    rw [e3, comLabels_only_first a b ha hb commons hg _ hda hnb]
    have := axis_eq_of_name a.axes ha.1 ax hax _ (axisOf_mem a _ hda) (by rw [hname, axisOf_name a _ hda])
    rw [← this]
  · intro ax hax hname hna
    have hdb : r.axes[k].name ∈ b.dims := hname ▸ List.mem_map.mpr ⟨ax, hax, rfl⟩
    rw [e3, comLabels_only_second a b ha hb commons hg _ hna hdb]
    have := axis_eq_of_name b.axes hb.1 ax hax _ (axisOf_mem b _ hdb) (by rw [hname, axisOf_name b _ hdb])
    rw [← this]

/-- OUTER PRODUCT: operands WITHOUT a common dimension.  The operation succeeds; the result lists `a`'s dimensions
then `b`'s, with the operands' own labels (in their stored order) and the concatenated shape, and its value at
`i ++ j` is `f (a[i]) (b[j])`: each operand is replicated along the other's dimensions, nothing is filled -/
theorem operation_disjoint_dims {α : Type} (nan : α) (f : α → α → α) (a b : DimArray α)
    (ha : AlignInput a) (hb : AlignInput b)
    (hca : ∀ d ∈ a.dims, ',' ∉ d.toList) (hcb : ∀ d ∈ b.dims, ',' ∉ d.toList)
    (hdis : ∀ d ∈ a.dims, d ∉ b.dims) :
    ∃ r k1 k2, operation nan f a b = .ok (r, k1, k2) ∧
      r.dims = a.dims ++ b.dims ∧
      r.axes.map (·.labels) = a.axes.map (·.labels) ++ b.axes.map (·.labels) ∧
      r.vals.shape = a.vals.shape ++ b.vals.shape ∧
      ∀ i j, InRange a.vals.shape i → InRange b.vals.shape j →
        r.vals.get (i ++ j) = f (a.vals.get i) (b.vals.get j) := by
  obtain ⟨r, k1, k2, commons, hop, hg, hnames, hd, _, hlab, hsh, hval⟩ :=
    operation_general_full nan f a b ha hb hca hcb
  have hin := alignInput_pair a b ha hb
  have hcn : (commons.map (·.name)).Nodup := (align_all_labels [a, b] .outer false hin commons hg).1
  have hdis' : ∀ d ∈ b.dims, d ∉ a.dims := fun d hdb hda => hdis d hda hdb
  have hD : opDims a b = a.dims ++ b.dims := by
    unfold opDims
    congr 1
    rw [List.filter_eq_self]
    intro d hdb
    simpa using hdis' d hdb
  have hd' : r.dims = a.dims ++ b.dims := hd.trans hD
  have hlab' : r.axes.map (·.labels) = a.axes.map (·.labels) ++ b.axes.map (·.labels) := by
    rw [hlab, ← map_comLabels commons hcn, hnames, hD, List.map_append,
      ← labels_eq_map_axisOf a ha.1, ← labels_eq_map_axisOf b hb.1]
    congr 1
    · apply List.map_congr_left
      intro d hda
      exact comLabels_only_first a b ha hb commons hg d hda (hdis d hda)
    · apply List.map_congr_left
      intro d hdb
      exact comLabels_only_second a b ha hb commons hg d (hdis' d hdb) hdb
  have hsh' : r.vals.shape = a.vals.shape ++ b.vals.shape := by
    rw [hsh, map_labels_length, hlab', List.map_append, ← map_labels_length, ← map_labels_length,
      ← alignInput_shape a ha, ← alignInput_shape b hb]
  refine ⟨r, k1, k2, hop, hd', hlab', hsh', ?_⟩
  intro i j hi hj
  have hij : InRange r.vals.shape (i ++ j) := hsh' ▸ inRange_append_c04 _ _ _ _ hi hj
  have hla : (a.axes.map (·.labels)).length = a.dims.length := by simp [DimArray.dims]
  have hlb : (b.axes.map (·.labels)).length = b.dims.length := by simp [DimArray.dims]
  have hil : i.length = a.dims.length := by
    rw [inRange_length_c04 _ _ hi, ha.2.1]; simp [DimArray.dims]
  have hjl : j.length = b.dims.length := by
    rw [inRange_length_c04 _ _ hj, hb.2.1]; simp [DimArray.dims]
  rw [hval _ hij, hd', hlab',
    restrictTo_append_left a.dims b.dims ha.1 _ _ hla [],
    restrictTo_append_left a.dims b.dims ha.1 _ _ hil 0,
    restrictTo_append_right a.dims b.dims hb.1 hdis' _ _ hla hlb [],
    restrictTo_append_right a.dims b.dims hb.1 hdis' _ _ hil hjl 0,
    ← (alignInput_valsInv nan a ha).2 i (alignInput_shape a ha ▸ hi),
    ← (alignInput_valsInv nan b hb).2 j (alignInput_shape b hb ▸ hj)]

/-- BROADCASTING ALONG MISSING DIMENSIONS: every dimension of `b` is a dimension of `a` (in any order).  The
result has `a`'s dimensions, and its value at `j` is `f` of `a`'s value at the labels of `j` and `b`'s value at
the labels found at `j` on `b`'s dimensions only: `b` is replicated along the dimensions it lacks -/
theorem operation_broadcast_sub {α : Type} (nan : α) (f : α → α → α) (a b r : DimArray α) (k1 k2 : Kind)
    (ha : AlignInput a) (hb : AlignInput b)
    (hca : ∀ d ∈ a.dims, ',' ∉ d.toList) (hsub : ∀ d ∈ b.dims, d ∈ a.dims)
    (h : operation nan f a b = .ok (r, k1, k2)) :
    r.dims = a.dims ∧ r.vals.shape = r.axes.map (·.labels.length) ∧
    ∀ j, InRange r.vals.shape j →
      r.vals.get j =
        f ((alignVals a (r.axes.map (·.labels)) nan).get j)
          ((alignVals b (restrictTo b.dims a.dims (r.axes.map (·.labels)) []) nan).get (restrictTo b.dims a.dims j 0)) := by
  obtain ⟨hd, _, _, hsh, hval⟩ :=
    operation_general_spec nan f a b r k1 k2 ha hb hca (fun d hd => hca d (hsub d hd)) h
  have hf : b.dims.filter (fun d => !a.dims.contains d) = [] := by
    rw [List.filter_eq_nil_iff]
    intro d hdb
    simpa using hsub d hdb
  have hd' : r.dims = a.dims := by rw [hd, hf, List.append_nil]
  refine ⟨hd', hsh, ?_⟩
  intro j hj
  have hjl : j.length = a.dims.length := by
    rw [inRange_length_c04 _ _ hj, hsh, ← hd']; simp [DimArray.dims]
  have hll : (r.axes.map (·.labels)).length = a.dims.length := by
    rw [← hd']; simp [DimArray.dims]
  rw [hval j hj, hd', restrictTo_self a.dims ha.1 _ hll [], restrictTo_self a.dims ha.1 _ hjl 0]


/-! non-vacuity of the general theorems: `exOpA` over (`x`, `y`) and `exOpC` over (`z`, `y`) - one shared dimension
with overlapping labels stored in different orders, one private dimension each, the second operand listing the
shared dimension LAST.  (`decide` cannot evaluate `operation`, see above; evaluated with `#eval`, `a + b` with
`nan = -1` has the dims `x, y, z`, the labels `x = [3, 1]`, `y = [7, 5, 9]`, `z = [u, v]`.) -/
def exOpC : DimArray Int :=
  { axes := [{ name := "z", labels := [.str "u", .str "v"], kind := .U },
             { name := "y", labels := [.num 5, .num 9], kind := .i }],
    vals := ⟨[2, 2], fun j => 100 + 10 * j.getD 0 0 + j.getD 1 0⟩ }

theorem exOpC_input : AlignInput exOpC := by unfold AlignInput exOpC; decide
theorem exOpA_names : ∀ d ∈ exOpA.dims, ',' ∉ d.toList := by decide
theorem exOpC_names : ∀ d ∈ exOpC.dims, ',' ∉ d.toList := by decide

example : ∃ (r : DimArray Int) (k1 k2 : Kind),
    operation (-1) (· + ·) exOpA exOpC = .ok (r, k1, k2) ∧
    r.dims = ["x", "y", "z"] ∧ r.attrs = [] ∧
    (r.axes.getD 0 default).labels = [.num 3, .num 1] ∧
    (r.axes.getD 2 default).labels = [.str "u", .str "v"] ∧
    (r.axes.getD 1 default).labels.Nodup ∧
    (∀ v, v ∈ (r.axes.getD 1 default).labels ↔ v = .num 7 ∨ v = .num 5 ∨ v = .num 9) := by
  obtain ⟨r, k1, k2, h⟩ :=
    operation_succeeds (-1) (· + ·) exOpA exOpC exOpA_input exOpC_input exOpA_names exOpC_names
  have hs := operation_general_spec (-1) (· + ·) exOpA exOpC r k1 k2 exOpA_input exOpC_input exOpA_names exOpC_names h
  have hd : r.dims = ["x", "y", "z"] := by rw [hs.1]; decide
  have hlen : r.axes.length = 3 := by
    have := congrArg List.length hd
    simpa [DimArray.dims] using this
  have hl := fun k hk v => operation_general_labels (-1) (· + ·) exOpA exOpC r k1 k2 exOpA_input exOpC_input
    exOpA_names exOpC_names h k hk v
  have hu := fun k hk => operation_unshared_labels (-1) (· + ·) exOpA exOpC r k1 k2 exOpA_input exOpC_input
    exOpA_names exOpC_names h k hk
  refine ⟨r, k1, k2, h, hd, hs.2.1, ?_⟩
  match hr : r.axes, hlen with
  | [x0, x1, x2], _ =>
    simp only [hr, List.length_cons, List.length_nil] at hl hu
    simp only [DimArray.dims, hr, List.map_cons, List.map_nil, List.cons.injEq, and_true] at hd
    obtain ⟨n0, n1, n2⟩ := hd
    have u0 := (hu 0 (by omega)).1 { name := "x", labels := [.num 3, .num 1], kind := .i } (by simp [exOpA])
      (by simp [n0]) (by simp [n0, exOpC, DimArray.dims])
    have u2 := (hu 2 (by omega)).2 { name := "z", labels := [.str "u", .str "v"], kind := .U } (by simp [exOpC])
      (by simp [n2]) (by simp [n2, exOpA, DimArray.dims])
    have l1 := fun v => hl 1 (by omega) v
    simp only [List.getElem_cons_zero, List.getElem_cons_succ] at u0 u2 l1
    refine ⟨u0, u2, (l1 Label.none).1, ?_⟩
    intro v
    simp only [List.getD_cons_succ, List.getD_cons_zero]
    rw [(l1 v).2, n1]
    simp only [exOpA, exOpC, List.mem_cons, List.not_mem_nil, or_false]
    constructor
    · rintro (⟨ax, (rfl | rfl), hn, hv⟩ | ⟨ax, (rfl | rfl), hn, hv⟩)
      · simp at hn
      · simp only [List.mem_cons, List.not_mem_nil, or_false] at hv
        rcases hv with h | h <;> simp [h]
      · simp at hn
      · simp only [List.mem_cons, List.not_mem_nil, or_false] at hv
        rcases hv with h | h <;> simp [h]
    · rintro (h | h | h)
      · exact Or.inl ⟨_, Or.inr rfl, rfl, by simp [h]⟩
      · exact Or.inl ⟨_, Or.inr rfl, rfl, by simp [h]⟩
      · exact Or.inr ⟨_, Or.inr rfl, rfl, by simp [h]⟩

/-! non-vacuity of `operation_disjoint_dims`: `x` against `z` - the outer product, cell by cell -/
def exOpX : DimArray Int :=
  { axes := [{ name := "x", labels := [.num 3, .num 1], kind := .i }], vals := ⟨[2], fun j => 10 * j.getD 0 0⟩ }
def exOpZ : DimArray Int :=
  { axes := [{ name := "z", labels := [.str "u", .str "v", .str "w"], kind := .U }],
    vals := ⟨[3], fun j => 1 + j.getD 0 0⟩ }

example : ∃ (r : DimArray Int) (k1 k2 : Kind),
    operation (-1) (· + ·) exOpX exOpZ = .ok (r, k1, k2) ∧
    r.dims = ["x", "z"] ∧ r.vals.shape = [2, 3] ∧
    r.axes.map (·.labels) = [[.num 3, .num 1], [.str "u", .str "v", .str "w"]] ∧
    r.vals.get [1, 2] = 13 ∧ r.vals.get [0, 1] = 2 := by
  obtain ⟨r, k1, k2, h, hd, hl, hs, hv⟩ := operation_disjoint_dims (-1) (· + ·) exOpX exOpZ
    (by unfold AlignInput exOpX; decide) (by unfold AlignInput exOpZ; decide) (by decide) (by decide) (by decide)
  refine ⟨r, k1, k2, h, hd, hs, hl, ?_, ?_⟩
  · exact hv [1] [2] (by decide) (by decide)
  · exact hv [0] [1] (by decide) (by decide)


/-! ### why the names must be comma-free

Without the hypothesis on the names the success theorem is FALSE for the model: a plain dimension called `x,y`
combined with an array over another dimension makes `align_dims` call `reshape` with the target `("x,y", "z")`,
which the mirror of `reshape` reads as "group `x` and `y`" and refuses (`ValueError`: the axis `x,y` is not among
`x, y, z`, so it is squeezed, and it is not a singleton).  NOTE for the correspondence: the Python `reshape` renames
such an EXISTING dimension (`,` to `;`) before it splits the names, a branch the mirror does not have, so on names
with a comma the mirror and the implementation differ (Python: `a + b` succeeds, `b + a` raises
"mismatch between values and axes"); such names are outside the generated inputs. -/

def exOpComma : DimArray Int :=
  { axes := [{ name := "x,y", labels := [.num 3, .num 1], kind := .i }], vals := ⟨[2], fun j => 10 * j.getD 0 0⟩ }

/-- the operand is well formed, only its dimension name contains a comma ... -/
theorem exOpComma_input : AlignInput exOpComma ∧ AlignInput exOpZ ∧ ¬ (∀ d ∈ exOpComma.dims, ',' ∉ d.toList) := by
  refine ⟨by unfold AlignInput exOpComma; decide, by unfold AlignInput exOpZ; decide, by decide⟩

/-- ... and the operation with an array over another dimension fails (in the model) -/
theorem operation_comma_name_counterexample : operation (-1) (· + ·) exOpComma exOpZ = .error .value := by
  have t1 : align (-1) [exOpComma, exOpZ] .outer none false false = .ok [exOpComma, exOpZ] := by rfl
  have t2 : getDims [exOpComma.axes, exOpZ.axes] = ["x,y", "z"] := by decide
  have t3 : reshape exOpComma ["x,y", "z"] = .error .value := by
    rw [reshape_eq]
    have h0 : (["x,y", "z"] == exOpComma.dims) = false := by decide
    have h1 : (["x,y", "z"].eraseDups.length != ["x,y", "z"].length) = false := by decide
    have hf : ["x,y", "z"].flatMap splitOnComma = ["x", "y", "z"] := by
      simp only [List.flatMap_cons, List.flatMap_nil, splitOnComma_xy, splitOnComma_no_comma "z" (by decide)]
      rfl
    have h2 : (["x", "y", "z"].eraseDups.length != ["x", "y", "z"].length) = false := by decide
    rw [hf, unflattenAll_plain exOpComma (by decide)]
    simp only [h0, h1, h2, Bool.false_eq_true, if_false]
    rfl
  have t4 : alignDims [exOpComma, exOpZ] = .error .value := by
    unfold alignDims
    have h : ¬ (([exOpComma, exOpZ].map (·.dims)).eraseDups.length ≤ 1) := by decide
    simp only [h, if_false]
    have e : List.map (fun x => x.axes) [exOpComma, exOpZ] = [exOpComma.axes, exOpZ.axes] := rfl
    rw [e, t2, List.mapM_cons, t3]
    rfl
  rw [operation_eq, t1, ex_bind_ok, t4]
  rfl

/-! ## What the operator computes in a cell (concrete float cells, `Lib/OpVals.lean`)

The statement says "NaN elsewhere".  `operation` fills the operand that lacks a coordinate with NaN and applies the ufunc, so
the sentence holds exactly for the operators that are NaN-ABSORBING (`NanAbsorbing`, Proofs/C04Vals.lean): `+ - * / //`
(`add_nanAbsorbing` ... `floordiv_nanAbsorbing`), and fails for `**` (`pow_not_nanAbsorbing`: IEEE 1 ** NaN = 1, NaN ** 0 = 1,
the open finding K01), with the exact characterisation `pow_nan_right_iff` / `pow_nan_left_iff`.  The comparisons are not
aligned at all by the library (`compareNd`); inside a cell they are False at a NaN, `!=` True (`cmpX_nan`).
`operation_cell_spec` instantiates `operation_general_spec` on float cells; `operation_missing_is_nan` is the end-to-end
sentence of the property; `operation_pow_missing_not_nan` shows that its hypothesis is needed. -/

theorem add_nanAbsorbing : NanAbsorbing XVal.add := fun x => ⟨XVal.add_nan_left x, XVal.add_nan_right x⟩
theorem sub_nanAbsorbing : NanAbsorbing XVal.sub := fun x =>
  ⟨XVal.add_nan_left _, by show XVal.add x (XVal.neg .nan) = .nan; exact XVal.add_nan_right x⟩
theorem mul_nanAbsorbing : NanAbsorbing XVal.mul := fun x => ⟨XVal.mul_nan_left x, XVal.mul_nan_right x⟩
theorem truediv_nanAbsorbing : NanAbsorbing XVal.div := fun x => ⟨XVal.div_nan_left x, XVal.div_nan_right x⟩
theorem floordiv_nanAbsorbing : NanAbsorbing XVal.floordiv := fun x =>
  ⟨XVal.floordiv_nan_left x, XVal.floordiv_nan_right x⟩

/-- x ** NaN is NaN exactly when x is not 1 -/
theorem pow_nan_right_iff (x : XVal) : XVal.pow x .nan = .nan ↔ x ≠ .fin 1 := by
  constructor
  · intro h hx
    rw [hx, XVal.one_pow] at h
    exact XVal.noConfusion h
  · exact XVal.pow_nan_right_of_ne x

/-- NaN ** y is NaN exactly when y is not 0 -/
theorem pow_nan_left_iff (y : XVal) : XVal.pow .nan y = .nan ↔ y ≠ .fin 0 := by
  constructor
  · intro h hy
    rw [hy, XVal.pow_zero] at h
    exact XVal.noConfusion h
  · exact XVal.pow_nan_left_of_ne y

/-- K01 as a theorem about the model: `**` is not NaN-absorbing (1 ** NaN = 1) -/
theorem pow_not_nanAbsorbing : ¬ NanAbsorbing XVal.pow := by
  intro h
  have := (h (.fin 1)).2
  rw [XVal.one_pow] at this
  exact XVal.noConfusion this

/-- of the six operators of the table, exactly `**` is not NaN-absorbing -/
theorem opX_nanAbsorbing_iff (o : Op) : NanAbsorbing (opX o) ↔ o ≠ .pow := by
  cases o
  · exact ⟨fun _ => by decide, fun _ => add_nanAbsorbing⟩
  · exact ⟨fun _ => by decide, fun _ => sub_nanAbsorbing⟩
  · exact ⟨fun _ => by decide, fun _ => mul_nanAbsorbing⟩
  · exact ⟨fun _ => by decide, fun _ => truediv_nanAbsorbing⟩
  · exact ⟨fun _ => by decide, fun _ => floordiv_nanAbsorbing⟩
  · exact ⟨fun h => absurd h pow_not_nanAbsorbing, fun h => absurd rfl h⟩

/-- a comparison with a NaN operand is False, `!=` is True (a Boolean, never NaN) -/
theorem cmpX_nan (c : Cmp) (x : XVal) :
    cmpX c .nan x = (c == .ne) ∧ cmpX c x .nan = (c == .ne) := by
  cases c <;> cases x <;> exact ⟨rfl, rfl⟩

/-- the labels of the result restricted to the dimensions of the operand `a`, in `a`'s order -/
def opLabels {α : Type} (a r : DimArray α) : List (List Label) :=
  restrictTo a.dims r.dims (r.axes.map (·.labels)) []
/-- the index `j` of the result restricted to the dimensions of the operand `a` -/
def opIdx {α : Type} (a r : DimArray α) (j : List Nat) : List Nat := restrictTo a.dims r.dims j 0

/-- EVERY CELL, for any cell function: `f` of the operands' cells at the labels of the coordinate, an operand that lacks
one of the labels on its axes (`MissingAt`) contributing NaN -/
theorem operation_cell_spec (f : XVal → XVal → XVal) (a b r : DimArray XVal) (k1 k2 : Kind)
    (ha : AlignInput a) (hb : AlignInput b)
    (hca : ∀ d ∈ a.dims, ',' ∉ d.toList) (hcb : ∀ d ∈ b.dims, ',' ∉ d.toList)
    (h : operation XVal.nan f a b = .ok (r, k1, k2)) (j : List Nat) (hj : InRange r.vals.shape j) :
    (¬ MissingAt a (opLabels a r) (opIdx a r j) → ¬ MissingAt b (opLabels b r) (opIdx b r j) →
      r.vals.get j = f (cellAt a (opLabels a r) (opIdx a r j)) (cellAt b (opLabels b r) (opIdx b r j))) ∧
    (MissingAt a (opLabels a r) (opIdx a r j) → ¬ MissingAt b (opLabels b r) (opIdx b r j) →
      r.vals.get j = f .nan (cellAt b (opLabels b r) (opIdx b r j))) ∧
    (¬ MissingAt a (opLabels a r) (opIdx a r j) → MissingAt b (opLabels b r) (opIdx b r j) →
      r.vals.get j = f (cellAt a (opLabels a r) (opIdx a r j)) .nan) ∧
    (MissingAt a (opLabels a r) (opIdx a r j) → MissingAt b (opLabels b r) (opIdx b r j) →
      r.vals.get j = f .nan .nan) := by
  obtain ⟨_, _, _, _, hval⟩ := operation_general_spec XVal.nan f a b r k1 k2 ha hb hca hcb h
  have hv := hval j hj
  refine ⟨fun h1 h2 => ?_, fun h1 h2 => ?_, fun h1 h2 => ?_, fun h1 h2 => ?_⟩
  · rw [hv]; unfold opLabels opIdx at *
    rw [alignVals_get_present a _ _ _ h1, alignVals_get_present b _ _ _ h2]
  · rw [hv]; unfold opLabels opIdx at *
    rw [alignVals_get_missing a _ _ _ h1, alignVals_get_present b _ _ _ h2]
  · rw [hv]; unfold opLabels opIdx at *
    rw [alignVals_get_present a _ _ _ h1, alignVals_get_missing b _ _ _ h2]
  · rw [hv]; unfold opLabels opIdx at *
    rw [alignVals_get_missing a _ _ _ h1, alignVals_get_missing b _ _ _ h2]

/-- THE SENTENCE OF THE PROPERTY, END TO END: for a NaN-absorbing operator (`+ - * / //`), every cell of `a op b` whose
coordinate is missing from one operand (a label of the coordinate is not on that operand's axis) is NaN, and every other cell
is `f (a at the labels) (b at the labels)` -/
theorem operation_missing_is_nan (f : XVal → XVal → XVal) (hf : NanAbsorbing f) (a b r : DimArray XVal) (k1 k2 : Kind)
    (ha : AlignInput a) (hb : AlignInput b)
    (hca : ∀ d ∈ a.dims, ',' ∉ d.toList) (hcb : ∀ d ∈ b.dims, ',' ∉ d.toList)
    (h : operation XVal.nan f a b = .ok (r, k1, k2)) (j : List Nat) (hj : InRange r.vals.shape j) :
    (MissingAt a (opLabels a r) (opIdx a r j) ∨ MissingAt b (opLabels b r) (opIdx b r j) → r.vals.get j = .nan) ∧
    (¬ MissingAt a (opLabels a r) (opIdx a r j) → ¬ MissingAt b (opLabels b r) (opIdx b r j) →
      r.vals.get j = f (cellAt a (opLabels a r) (opIdx a r j)) (cellAt b (opLabels b r) (opIdx b r j))) := by
  obtain ⟨h00, h10, h01, h11⟩ := operation_cell_spec f a b r k1 k2 ha hb hca hcb h j hj
  refine ⟨fun hm => ?_, h00⟩
  by_cases h1 : MissingAt a (opLabels a r) (opIdx a r j) <;> by_cases h2 : MissingAt b (opLabels b r) (opIdx b r j)
  · rw [h11 h1 h2]; exact (hf _).1
  · rw [h10 h1 h2]; exact (hf _).1
  · rw [h01 h1 h2]; exact (hf _).2
  · exact absurd hm (by simp [h1, h2])

/-- the six operators: the sentence holds for the five NaN-absorbing ones -/
theorem operation_missing_is_nan_op (o : Op) (ho : o ≠ .pow) (a b r : DimArray XVal) (k1 k2 : Kind)
    (ha : AlignInput a) (hb : AlignInput b)
    (hca : ∀ d ∈ a.dims, ',' ∉ d.toList) (hcb : ∀ d ∈ b.dims, ',' ∉ d.toList)
    (h : operation XVal.nan (opX o) a b = .ok (r, k1, k2)) (j : List Nat) (hj : InRange r.vals.shape j)
    (hm : MissingAt a (opLabels a r) (opIdx a r j) ∨ MissingAt b (opLabels b r) (opIdx b r j)) :
    r.vals.get j = .nan :=
  (operation_missing_is_nan (opX o) ((opX_nanAbsorbing_iff o).mpr ho) a b r k1 k2 ha hb hca hcb h j hj).1 hm

/-- THE HYPOTHESIS IS NEEDED (K01, end to end): in `a ** b`, a cell whose coordinate is missing from `b` only is NaN exactly
when `a`'s cell there is not 1; one missing from `a` only is NaN exactly when `b`'s cell is not 0 -/
theorem operation_pow_missing_not_nan (a b r : DimArray XVal) (k1 k2 : Kind)
    (ha : AlignInput a) (hb : AlignInput b)
    (hca : ∀ d ∈ a.dims, ',' ∉ d.toList) (hcb : ∀ d ∈ b.dims, ',' ∉ d.toList)
    (h : operation XVal.nan XVal.pow a b = .ok (r, k1, k2)) (j : List Nat) (hj : InRange r.vals.shape j) :
    (¬ MissingAt a (opLabels a r) (opIdx a r j) → MissingAt b (opLabels b r) (opIdx b r j) →
      (r.vals.get j = .nan ↔ cellAt a (opLabels a r) (opIdx a r j) ≠ .fin 1)) ∧
    (MissingAt a (opLabels a r) (opIdx a r j) → ¬ MissingAt b (opLabels b r) (opIdx b r j) →
      (r.vals.get j = .nan ↔ cellAt b (opLabels b r) (opIdx b r j) ≠ .fin 0)) := by
  obtain ⟨_, h10, h01, _⟩ := operation_cell_spec XVal.pow a b r k1 k2 ha hb hca hcb h j hj
  exact ⟨fun h1 h2 => by rw [h01 h1 h2]; exact pow_nan_right_iff _,
         fun h1 h2 => by rw [h10 h1 h2]; exact pow_nan_left_iff _⟩

/-- the hypotheses are satisfiable: `+` is NaN-absorbing and not trivial (2 + inf = inf, inf + -inf = NaN) -/
example : NanAbsorbing XVal.add ∧ XVal.add (.fin 2) .pinf = .pinf ∧ XVal.add .pinf .ninf = .nan :=
  ⟨add_nanAbsorbing, rfl, rfl⟩

end DimModel

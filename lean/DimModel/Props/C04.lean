/-
C04 - property theorems: arithmetic aligns operands by dimension name and by label.
-/
import DimModel.Lib.Operation
import DimModel.Gen.TableC04
import DimModel.Props.C06
import DimModel.Proofs.C04
namespace DimModel
open Lib

/-! ### the operator table of the implementation (regenerated on every run) -/

/-- exact results of `8 op 2` and `2 op 8` for the six operators -/
def expectedOp (o : Op) (rev : Bool) : Int × Nat :=
  match o, rev with
  | .add, _ => (10, 1)
  | .sub, false => (6, 1)
  | .sub, true => (-6, 1)
  | .mul, _ => (16, 1)
  | .truediv, false => (4, 1)
  | .truediv, true => (1, 4)
  | .floordiv, false => (4, 1)
  | .floordiv, true => (0, 1)
  | .pow, false => (64, 1)
  | .pow, true => (256, 1)

/-- every operator exists in every operand form (array-array, array-scalar, scalar-array,
array-ndarray), returns a DimArray, and computes the matching ufunc with the operands in the
right order (the twelve probe results are pairwise distinguishable, so a missing reflected method, a
swapped operand order or a wrong ufunc changes a row) -/
theorem opTable_complete :
    ∀ r ∈ Gen.opTable, r.2.2.1 = true ∧ (r.2.2.2.1, r.2.2.2.2) = expectedOp r.1 (r.2.1 == "arr_arr_rev") := by
  decide

/-- all 6 × 5 forms are present -/
theorem opTable_all_forms :
    ∀ o ∈ [Op.add, .sub, .mul, .truediv, .floordiv, .pow],
      ∀ f ∈ ["arr_arr", "arr_scalar", "scalar_arr", "arr_nd", "arr_arr_rev"],
        (Gen.opTable.any fun r => r.1 == o && r.2.1 == f) = true := by
  decide

/-! ### NumPy broadcasting of the aligned operands -/

/-- two shapes broadcast exactly when, dimension by dimension, the sizes are equal or one of them is 1 -/
theorem bcastShape_isSome : ∀ (s t : List Nat),
    (bcastShape s t).isSome = true ↔ (s.length = t.length ∧ ∀ p ∈ s.zip t, p.1 = p.2 ∨ p.1 = 1 ∨ p.2 = 1)
  | [], [] => by simp [bcastShape]
  | [], _ :: _ => by simp [bcastShape]
  | _ :: _, [] => by simp [bcastShape]
  | x :: xs, y :: ys => by
    have ih := bcastShape_isSome xs ys
    simp only [bcastShape, List.length_cons, List.zip_cons_cons, List.mem_cons, forall_eq_or_imp]
    cases h : bcastShape xs ys with
    | none =>
      simp only [h, Option.isSome_none, Bool.false_eq_true, false_iff] at ih ⊢
      rintro ⟨hl, _, hr⟩
      exact ih ⟨by omega, hr⟩
    | some r =>
      simp only [h, Option.isSome_some, true_iff] at ih
      have ih2 : ∀ (a b : Nat), (a, b) ∈ xs.zip ys → a = b ∨ a = 1 ∨ b = 1 := fun a b hab => ih.2 (a, b) hab
      have hl : xs.length + 1 = ys.length + 1 := by rw [ih.1]
      by_cases h1 : x = y
      · subst h1
        simp only [beq_self_eq_true, if_true, Option.isSome_some, true_iff]
        exact ⟨hl, by simp, fun p hp => ih.2 p hp⟩
      · have e1 : (x == y) = false := by simpa using h1
        by_cases h2 : x = 1
        · subst h2
          simp only [e1, Bool.false_eq_true, if_false, beq_self_eq_true, if_true, Option.isSome_some, true_iff]
          exact ⟨hl, by simp, fun p hp => ih.2 p hp⟩
        · have e2 : (x == 1) = false := by simpa using h2
          by_cases h3 : y = 1
          · subst h3
            simp only [e1, e2, Bool.false_eq_true, if_false, beq_self_eq_true, if_true, Option.isSome_some, true_iff]
            exact ⟨hl, by simp, fun p hp => ih.2 p hp⟩
          · have e3 : (y == 1) = false := by simpa using h3
            simp only [e1, e2, e3, Bool.false_eq_true, if_false, Option.isSome_none, false_iff]
            rintro ⟨_, hh, _⟩
            rcases hh with h | h | h
            · exact h1 h
            · exact h2 h
            · exact h3 h

/-- the value at every index of the result is `f` of the operands' values, each read at the same
index except along its singleton dimensions (read at 0): operands lacking a dimension are
replicated along it -/
theorem zipBroadcast_get {α : Type} (f : α → α → α) (x y r : NDArr α) (h : zipBroadcast f x y = .ok r)
    (j : List Nat) : r.get j = f (x.get (bcastIdx x.shape j)) (y.get (bcastIdx y.shape j)) := by
  unfold zipBroadcast at h
  cases hs : bcastShape x.shape y.shape with
  | none => simp [hs] at h
  | some s => simp [hs] at h; subst h; rfl

/-- `bcastIdx` reads a full-size dimension at the result's own position and a singleton at 0 -/
theorem bcastIdx_get (s j : List Nat) (k : Nat) (hk : k < s.length) (hj : k < j.length) :
    (bcastIdx s j)[k]'(by simp [bcastIdx]; omega) = if s[k] = 1 then 0 else j[k] := by
  simp [bcastIdx]

/-! ### result dimensions -/

theorem getDims_step_prefix (dims : List String) (axes : List Axis) :
    ∃ extra, axes.foldl (fun ds ax => if ds.contains ax.name then ds else ds ++ [ax.name]) dims = dims ++ extra := by
  induction axes generalizing dims with
  | nil => exact ⟨[], by simp⟩
  | cons ax rest ih =>
    simp only [List.foldl_cons]
    split
    · exact ih dims
    · obtain ⟨e, he⟩ := ih (dims ++ [ax.name])
      exact ⟨ax.name :: e, by rw [he]; simp⟩

/-- the result's dimensions start with the first operand's dimensions, in their order -/
theorem getDims_first_prefix (a : List Axis) (rest : List (List Axis)) (hn : (a.map (·.name)).Nodup) :
    ∃ extra, getDims (a :: rest) = a.map (·.name) ++ extra := by
  unfold getDims
  simp only [List.foldl_cons]
  -- first array: starting from [] the fold lists its (distinct) names in order
  have h1 : ∀ (pre : List String) (l : List Axis), (pre ++ l.map (·.name)).Nodup →
      l.foldl (fun ds ax => if ds.contains ax.name then ds else ds ++ [ax.name]) pre = pre ++ l.map (·.name) := by
    intro pre l
    induction l generalizing pre with
    | nil => intro _; simp
    | cons x xs ih =>
      intro hnd
      simp only [List.foldl_cons, List.map_cons]
      have hx : x.name ∉ pre := by
        intro hm
        have := (List.nodup_append.mp hnd).2.2 x.name hm x.name (by simp)
        exact this rfl
      have : pre.contains x.name = false := by simpa using hx
      simp only [this, Bool.false_eq_true, if_false]
      have := ih (pre ++ [x.name]) (by simpa [List.append_assoc] using hnd)
      simpa [List.append_assoc] using this
  rw [h1 [] a (by simpa using hn)]
  simp only [List.nil_append]
  -- the remaining arrays only append
  have h2 : ∀ (arrs : List (List Axis)) (dims : List String), ∃ extra,
      arrs.foldl (fun dims axes => axes.foldl (fun ds ax => if ds.contains ax.name then ds else ds ++ [ax.name]) dims) dims
        = dims ++ extra := by
    intro arrs
    induction arrs with
    | nil => intro dims; exact ⟨[], by simp⟩
    | cons x xs ih =>
      intro dims
      simp only [List.foldl_cons]
      obtain ⟨e1, he1⟩ := getDims_step_prefix dims x
      rw [he1]
      obtain ⟨e2, he2⟩ := ih (dims ++ e1)
      exact ⟨e1 ++ e2, by rw [he2]; simp⟩
  exact h2 rest _

/-- arithmetic returns an array without the operands' metadata -/
theorem operation_attrs_dropped {α : Type} (nan : α) (f : α → α → α) (a b : DimArray α)
    (r : DimArray α × Kind × Kind) (h : operation nan f a b = .ok r) : r.1.attrs = [] := by
  unfold operation at h
  simp only [bind, Except.bind] at h
  cases h1 : align nan [a, b] Join.outer none false false with
  | error e => simp [h1] at h
  | ok al =>
    simp only [h1] at h
    cases h2 : alignDims al with
    | error e => simp [h2] at h
    | ok ad =>
      simp only [h2] at h
      split at h
      · cases h
      · split at h
        · cases h
        · split at h
          · cases h
          · simp only [pure, Except.pure] at h
            cases h
            rfl


/-! ### end-to-end (round 2): `a op b` for two arrays over the same dimensions

Statement history (round-2 drafts, validated on instances with `#eval` before proving): the three drafts are TRUE
as they were written and are proved UNCHANGED.  The points that were to be checked:
* the common axes come in the order of `a.dims` (`getDims [a.axes, b.axes] = a.dims` when `b.dims = a.dims` and
  the names are distinct: `getDims_pair_same`), so `r.axes.map (·.labels) = commons.map (·.labels)` holds
  position by position;
* `getAlignedAxes [a.axes, b.axes]` is `getAlignedAxes ([a, b].map (·.axes))` by `rfl`;
* `newaxes.map (fun ax => { ax with })` is `newaxes` (structure eta, `List.map_id'`);
* `operation` compares `Axis.size` (which looks at `members`) with the broadcast shape: `align` returns plain
  axes when it is given plain axes (`align_members`, new), so the sizes are the numbers of labels;
* `alignDims` returns the aligned pair unchanged (`eraseDups [d, d] = [d]`), no aligned axis carries `Label.none`
  (its labels are labels of the operands), both aligned operands have the same shape, `bcastShape s s = some s`,
  and inside the shape `bcastIdx s j = j` (a dimension of size 1 has the only index 0).
The helper lemmas are in `DimModel/Proofs/C04.lean`. -/

/-- LABEL-WISE COMPUTATION.  For two arrays that list the same dimensions in the same order (labels in any order,
label sets equal, overlapping, nested or disjoint), `a op b` has those dimensions, carries on every dimension the
common (union) labels, and its value at every label coordinate is `f` of `a`'s value at that coordinate and `b`'s
value at that coordinate, where an operand that does not have the coordinate contributes `nan`
(`alignVals`); the result carries no metadata -/
theorem operation_same_dims_spec {α : Type} (nan : α) (f : α → α → α) (a b r : DimArray α) (k1 k2 : Kind)
    (ha : AlignInput a) (hb : AlignInput b) (hd : a.dims = b.dims)
    (h : operation nan f a b = .ok (r, k1, k2)) :
    r.dims = a.dims ∧ r.attrs = [] ∧
    (∃ commons : List Axis,
      getAlignedAxes [a.axes, b.axes] .outer none false false = .ok commons ∧
      r.axes.map (·.labels) = commons.map (·.labels)) ∧
    r.vals.shape = r.axes.map (·.labels.length) ∧
    ∀ j, InRange r.vals.shape j →
      r.vals.get j = f ((alignVals a (r.axes.map (·.labels)) nan).get j) ((alignVals b (r.axes.map (·.labels)) nan).get j) := by
  obtain ⟨o1, o2, commons, hg, _, hd1, hl1, hl2, hv1, hv2, hop⟩ :=
    operation_same_dims_core nan f a b ha hb hd
  rw [hop] at h
  simp only [Except.ok.injEq, Prod.mk.injEq] at h
  obtain ⟨rfl, _, _⟩ := h
  refine ⟨hd1, rfl, ⟨commons, hg, hl1⟩, hv1.1, ?_⟩
  intro j hj
  have hj0 : InRange o1.vals.shape j := hj
  have hj1 : InRange (o1.axes.map (·.labels.length)) j := hv1.1 ▸ hj0
  have hj2 : InRange (o2.axes.map (·.labels.length)) j := by
    rw [map_labels_length, hl2, ← hl1, ← map_labels_length]; exact hj1
  show f (o1.vals.get (bcastIdx o1.vals.shape j)) (o2.vals.get (bcastIdx o1.vals.shape j)) = _
  rw [bcastIdx_inRange _ _ hj0, hv1.2 j hj1, hv2.2 j hj2, hl2, ← hl1]

/-- every label of the result comes from an operand and every operand label is in the result, each once -/
theorem operation_same_dims_labels {α : Type} (nan : α) (f : α → α → α) (a b r : DimArray α) (k1 k2 : Kind)
    (ha : AlignInput a) (hb : AlignInput b) (hd : a.dims = b.dims)
    (h : operation nan f a b = .ok (r, k1, k2)) (k : Nat) (hk : k < a.axes.length) (v : Label) :
    ((r.axes.getD k default).labels).Nodup ∧
    (v ∈ (r.axes.getD k default).labels ↔ v ∈ (a.axes.getD k default).labels ∨ v ∈ (b.axes.getD k default).labels) := by
  obtain ⟨o1, o2, commons, hg, hnames, hd1, hl1, _, _, _, hop⟩ :=
    operation_same_dims_core nan f a b ha hb hd
  rw [hop] at h
  simp only [Except.ok.injEq, Prod.mk.injEq] at h
  obtain ⟨rfl, _, _⟩ := h
  have hk1 : k < o1.axes.length := by
    have := congrArg List.length hd1
    simp only [DimArray.dims, List.length_map] at this
    omega
  have hkc : k < commons.length := by
    have := congrArg List.length hl1
    simp only [List.length_map] at this
    omega
  have e : (o1.axes.getD k default).labels = (commons.getD k default).labels := by
    have := congrArg (fun l => l[k]?) hl1
    simp only [List.getElem?_map, List.getElem?_eq_getElem hk1, List.getElem?_eq_getElem hkc,
      Option.map_some, Option.some.injEq] at this
    rw [axes_getD_eq_getElem _ _ hk1, axes_getD_eq_getElem _ _ hkc]
    exact this
  show ((o1.axes.getD k default).labels).Nodup ∧ (v ∈ (o1.axes.getD k default).labels ↔ _)
  rw [e]
  exact commons_pair_labels a b ha hb hd commons hg hnames k hk v

/-- on such operands the operation does not fail -/
theorem operation_same_dims_succeeds {α : Type} (nan : α) (f : α → α → α) (a b : DimArray α)
    (ha : AlignInput a) (hb : AlignInput b) (hd : a.dims = b.dims) :
    ∃ r k1 k2, operation nan f a b = .ok (r, k1, k2) := by
  obtain ⟨o1, o2, _, _, _, _, _, _, _, _, hop⟩ := operation_same_dims_core nan f a b ha hb hd
  exact ⟨_, _, _, hop⟩

/-! non-vacuity: two 2-D arrays over `x`, `y` with integer labels in different orders and overlapping label sets.
`decide` cannot evaluate `operation` (`align` re-indexes with `locate_many`, which sorts with `mergeSort`), so
success comes from `operation_same_dims_succeeds`; evaluated with `#eval`, `a + b` with `nan = -1` has the labels
`x = [3, 1, 2]`, `y = [7, 5, 9]` and the values `[[-1, 0, -2], [111, 111, 101], [110, 109, 111]]`. -/
def exOpA : DimArray Int :=
  { axes := [{ name := "x", labels := [.num 3, .num 1], kind := .i },
             { name := "y", labels := [.num 7, .num 5], kind := .i }],
    vals := ⟨[2, 2], fun j => 10 * j.getD 0 0 + j.getD 1 0⟩ }
def exOpB : DimArray Int :=
  { axes := [{ name := "x", labels := [.num 1, .num 2], kind := .i },
             { name := "y", labels := [.num 5, .num 7, .num 9], kind := .i }],
    vals := ⟨[2, 3], fun j => 100 + 10 * j.getD 0 0 + j.getD 1 0⟩ }

theorem exOpA_input : AlignInput exOpA := by unfold AlignInput exOpA; decide
theorem exOpB_input : AlignInput exOpB := by unfold AlignInput exOpB; decide

example : ∃ (r : DimArray Int) (k1 k2 : Kind),
    operation (-1) (· + ·) exOpA exOpB = .ok (r, k1, k2) ∧
    r.dims = ["x", "y"] ∧ r.attrs = [] ∧ r.vals.shape = [3, 3] ∧
    (r.axes.getD 0 default).labels.Nodup ∧ (r.axes.getD 1 default).labels.Nodup ∧
    (∀ v, v ∈ (r.axes.getD 0 default).labels ↔ v = .num 3 ∨ v = .num 1 ∨ v = .num 2) ∧
    (∀ v, v ∈ (r.axes.getD 1 default).labels ↔ v = .num 7 ∨ v = .num 5 ∨ v = .num 9) := by
  obtain ⟨r, k1, k2, h⟩ :=
    operation_same_dims_succeeds (-1) (· + ·) exOpA exOpB exOpA_input exOpB_input (by decide)
  have hs := operation_same_dims_spec (-1) (· + ·) exOpA exOpB r k1 k2 exOpA_input exOpB_input (by decide) h
  have h0 := fun v => operation_same_dims_labels (-1) (· + ·) exOpA exOpB r k1 k2 exOpA_input exOpB_input
    (by decide) h 0 (by decide) v
  have h1 := fun v => operation_same_dims_labels (-1) (· + ·) exOpA exOpB r k1 k2 exOpA_input exOpB_input
    (by decide) h 1 (by decide) v
  have m0 : ∀ v, v ∈ (r.axes.getD 0 default).labels ↔ v = .num 3 ∨ v = .num 1 ∨ v = .num 2 := by
    intro v
    rw [(h0 v).2]
    simp only [exOpA, exOpB, List.getD_cons_zero, List.mem_cons, List.not_mem_nil, or_false]
    constructor
    · rintro ((h | h) | (h | h)) <;> simp [h]
    · rintro (h | h | h) <;> simp [h]
  have m1 : ∀ v, v ∈ (r.axes.getD 1 default).labels ↔ v = .num 7 ∨ v = .num 5 ∨ v = .num 9 := by
    intro v
    rw [(h1 v).2]
    simp only [exOpA, exOpB, List.getD_cons_succ, List.getD_cons_zero, List.mem_cons, List.not_mem_nil, or_false]
    constructor
    · rintro ((h | h) | (h | h | h)) <;> simp [h]
    · rintro (h | h | h) <;> simp [h]
  refine ⟨r, k1, k2, h, hs.1, hs.2.1, ?_, (h0 Label.none).1, (h1 Label.none).1, m0, m1⟩
  -- a duplicate-free list with exactly three members has three elements
  have len3 : ∀ (L : List Label) (x y z : Label), [x, y, z].Nodup → L.Nodup →
      (∀ v, v ∈ L ↔ v = x ∨ v = y ∨ v = z) → L.length = 3 := by
    intro L x y z hxyz hL hm
    have : L.Perm [x, y, z] := (List.perm_ext_iff_of_nodup hL hxyz).mpr (fun v => by rw [hm v]; simp)
    simpa using this.length_eq
  have hlen : r.axes.length = 2 := by
    have := congrArg List.length hs.1
    simpa [DimArray.dims, exOpA] using this
  rw [hs.2.2.2.1]
  match hr : r.axes, hlen with
  | [x0, x1], _ =>
    simp only [hr, List.getD_cons_zero, List.getD_cons_succ] at h0 h1 m0 m1
    simp only [List.map_cons, List.map_nil, len3 _ _ _ _ (by decide) (h0 Label.none).1 m0,
      len3 _ _ _ _ (by decide) (h1 Label.none).1 m1]

end DimModel

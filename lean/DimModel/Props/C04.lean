/-
C04 - property theorems: arithmetic aligns operands by dimension name and by label.
-/
import DimModel.Lib.Operation
import DimModel.Gen.TableC04
namespace DimModel
open Lib

/-! ### the operator table of the implementation (regenerated on every run) -/

/-- exact results of `8 op 2` and `2 op 8` for the six operators -/
def expectedOp (o : Op) (rev : Bool) : Int × Nat :=
  match o, rev with
  | .add, _ => (10, 1)
  | .sub, false => (6, 1)
  | .sub, true => (-6, 1)
  | .mul, _ => (16, 1)
  | .truediv, false => (4, 1)
  | .truediv, true => (1, 4)
  | .floordiv, false => (4, 1)
  | .floordiv, true => (0, 1)
  | .pow, false => (64, 1)
  | .pow, true => (256, 1)

/-- every operator exists in every operand form (array-array, array-scalar, scalar-array,
array-ndarray), returns a DimArray, and computes the matching ufunc with the operands in the
right order (the twelve probe results are pairwise distinguishable, so a missing reflected method, a
swapped operand order or a wrong ufunc changes a row) -/
theorem opTable_complete :
    ∀ r ∈ Gen.opTable, r.2.2.1 = true ∧ (r.2.2.2.1, r.2.2.2.2) = expectedOp r.1 (r.2.1 == "arr_arr_rev") := by
  decide

/-- all 6 × 5 forms are present -/
theorem opTable_all_forms :
    ∀ o ∈ [Op.add, .sub, .mul, .truediv, .floordiv, .pow],
      ∀ f ∈ ["arr_arr", "arr_scalar", "scalar_arr", "arr_nd", "arr_arr_rev"],
        (Gen.opTable.any fun r => r.1 == o && r.2.1 == f) = true := by
  decide

/-! ### NumPy broadcasting of the aligned operands -/

/-- two shapes broadcast exactly when, dimension by dimension, the sizes are equal or one of them is 1 -/
theorem bcastShape_isSome : ∀ (s t : List Nat),
    (bcastShape s t).isSome = true ↔ (s.length = t.length ∧ ∀ p ∈ s.zip t, p.1 = p.2 ∨ p.1 = 1 ∨ p.2 = 1)
  | [], [] => by simp [bcastShape]
  | [], _ :: _ => by simp [bcastShape]
  | _ :: _, [] => by simp [bcastShape]
  | x :: xs, y :: ys => by
    have ih := bcastShape_isSome xs ys
    simp only [bcastShape, List.length_cons, List.zip_cons_cons, List.mem_cons, forall_eq_or_imp]
    cases h : bcastShape xs ys with
    | none =>
      simp only [h, Option.isSome_none, Bool.false_eq_true, false_iff] at ih ⊢
      rintro ⟨hl, _, hr⟩
      exact ih ⟨by omega, hr⟩
    | some r =>
      simp only [h, Option.isSome_some, true_iff] at ih
      have ih2 : ∀ (a b : Nat), (a, b) ∈ xs.zip ys → a = b ∨ a = 1 ∨ b = 1 := fun a b hab => ih.2 (a, b) hab
      have hl : xs.length + 1 = ys.length + 1 := by rw [ih.1]
      by_cases h1 : x = y
      · subst h1
        simp only [beq_self_eq_true, if_true, Option.isSome_some, true_iff]
        exact ⟨hl, by simp, fun p hp => ih.2 p hp⟩
      · have e1 : (x == y) = false := by simpa using h1
        by_cases h2 : x = 1
        · subst h2
          simp only [e1, Bool.false_eq_true, if_false, beq_self_eq_true, if_true, Option.isSome_some, true_iff]
          exact ⟨hl, by simp, fun p hp => ih.2 p hp⟩
        · have e2 : (x == 1) = false := by simpa using h2
          by_cases h3 : y = 1
          · subst h3
            simp only [e1, e2, Bool.false_eq_true, if_false, beq_self_eq_true, if_true, Option.isSome_some, true_iff]
            exact ⟨hl, by simp, fun p hp => ih.2 p hp⟩
          · have e3 : (y == 1) = false := by simpa using h3
            simp only [e1, e2, e3, Bool.false_eq_true, if_false, Option.isSome_none, false_iff]
            rintro ⟨_, hh, _⟩
            rcases hh with h | h | h
            · exact h1 h
            · exact h2 h
            · exact h3 h

/-- the value at every index of the result is `f` of the operands' values, each read at the same
index except along its singleton dimensions (read at 0): operands lacking a dimension are
replicated along it -/
theorem zipBroadcast_get {α : Type} (f : α → α → α) (x y r : NDArr α) (h : zipBroadcast f x y = .ok r)
    (j : List Nat) : r.get j = f (x.get (bcastIdx x.shape j)) (y.get (bcastIdx y.shape j)) := by
  unfold zipBroadcast at h
  cases hs : bcastShape x.shape y.shape with
  | none => simp [hs] at h
  | some s => simp [hs] at h; subst h; rfl

/-- `bcastIdx` reads a full-size dimension at the result's own position and a singleton at 0 -/
theorem bcastIdx_get (s j : List Nat) (k : Nat) (hk : k < s.length) (hj : k < j.length) :
    (bcastIdx s j)[k]'(by simp [bcastIdx]; omega) = if s[k] = 1 then 0 else j[k] := by
  simp [bcastIdx]

/-! ### result dimensions -/

theorem getDims_step_prefix (dims : List String) (axes : List Axis) :
    ∃ extra, axes.foldl (fun ds ax => if ds.contains ax.name then ds else ds ++ [ax.name]) dims = dims ++ extra := by
  induction axes generalizing dims with
  | nil => exact ⟨[], by simp⟩
  | cons ax rest ih =>
    simp only [List.foldl_cons]
    split
    · exact ih dims
    · obtain ⟨e, he⟩ := ih (dims ++ [ax.name])
      exact ⟨ax.name :: e, by rw [he]; simp⟩

/-- the result's dimensions start with the first operand's dimensions, in their order -/
theorem getDims_first_prefix (a : List Axis) (rest : List (List Axis)) (hn : (a.map (·.name)).Nodup) :
    ∃ extra, getDims (a :: rest) = a.map (·.name) ++ extra := by
  unfold getDims
  simp only [List.foldl_cons]
  -- first array: starting from [] the fold lists its (distinct) names in order
  have h1 : ∀ (pre : List String) (l : List Axis), (pre ++ l.map (·.name)).Nodup →
      l.foldl (fun ds ax => if ds.contains ax.name then ds else ds ++ [ax.name]) pre = pre ++ l.map (·.name) := by
    intro pre l
    induction l generalizing pre with
    | nil => intro _; simp
    | cons x xs ih =>
      intro hnd
      simp only [List.foldl_cons, List.map_cons]
      have hx : x.name ∉ pre := by
        intro hm
        have := (List.nodup_append.mp hnd).2.2 x.name hm x.name (by simp)
        exact this rfl
      have : pre.contains x.name = false := by simpa using hx
      simp only [this, Bool.false_eq_true, if_false]
      have := ih (pre ++ [x.name]) (by simpa [List.append_assoc] using hnd)
      simpa [List.append_assoc] using this
  rw [h1 [] a (by simpa using hn)]
  simp only [List.nil_append]
  -- the remaining arrays only append
  have h2 : ∀ (arrs : List (List Axis)) (dims : List String), ∃ extra,
      arrs.foldl (fun dims axes => axes.foldl (fun ds ax => if ds.contains ax.name then ds else ds ++ [ax.name]) dims) dims
        = dims ++ extra := by
    intro arrs
    induction arrs with
    | nil => intro dims; exact ⟨[], by simp⟩
    | cons x xs ih =>
      intro dims
      simp only [List.foldl_cons]
      obtain ⟨e1, he1⟩ := getDims_step_prefix dims x
      rw [he1]
      obtain ⟨e2, he2⟩ := ih (dims ++ e1)
      exact ⟨e1 ++ e2, by rw [he2]; simp⟩
  exact h2 rest _

/-- arithmetic returns an array without the operands' metadata -/
theorem operation_attrs_dropped {α : Type} (nan : α) (f : α → α → α) (a b : DimArray α)
    (r : DimArray α × Kind × Kind) (h : operation nan f a b = .ok r) : r.1.attrs = [] := by
  unfold operation at h
  simp only [bind, Except.bind] at h
  cases h1 : align nan [a, b] Join.outer none false false with
  | error e => simp [h1] at h
  | ok al =>
    simp only [h1] at h
    cases h2 : alignDims al with
    | error e => simp [h2] at h
    | ok ad =>
      simp only [h2] at h
      split at h
      · cases h
      · split at h
        · cases h
        · split at h
          · cases h
          · simp only [pure, Except.pure] at h
            cases h
            rfl

end DimModel

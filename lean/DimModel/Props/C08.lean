/-
C08 - property theorems: reductions drop exactly the reduced axis, keep the others in their order
with their labels and the metadata, reduce exactly the fibre along that axis; the NaN policy of the
function-family table of the implementation (regenerated on every run).
-/
import DimModel.Lib.Transform
import DimModel.Gen.TableC08
namespace DimModel
open Lib

/-- **axes**: reducing along position `pos` of an array of rank ≥ 2 returns the remaining axes in
their original order (each with its labels and metadata), the array's metadata, and every result
cell is the reduction of the 1-D fibre through it -/
theorem reduce_axes_spec {α : Type} (red : List α → α) (a : DimArray α) (k : DimKey) (pos : Nat) (r : DimArray α)
    (hpos : dealWithAxis a (.one k) = .ok (a, some pos)) (hrank : a.ndim ≠ 1)
    (h : reduceAxis red a (.one k) = .ok (.inr r)) :
    r.axes = a.axes.eraseIdx pos ∧ r.attrs = a.attrs ∧ r.vals.shape = a.vals.shape.eraseIdx pos ∧
    ∀ j, r.vals.get j = red (fibre a pos j) := by
  unfold reduceAxis at h
  simp only [hpos, bind, Except.bind] at h
  have : (a.ndim == 1) = false := by simpa using hrank
  simp only [this, Bool.false_eq_true, if_false, pure, Except.pure] at h
  cases h
  exact ⟨rfl, rfl, rfl, fun _ => rfl⟩

/-- the fibre through result index `j` consists of the cells at `j` with every position inserted
along the reduced dimension, in axis order -/
theorem fibre_get {α : Type} (a : DimArray α) (pos : Nat) (j : List Nat) (i : Nat)
    (hi : i < a.vals.shape.getD pos 0) :
    (fibre a pos j)[i]'(by simpa [fibre] using hi) = a.vals.get (j.insertIdx pos i) := by
  simp [fibre]

theorem fibre_length {α : Type} (a : DimArray α) (pos : Nat) (j : List Nat) :
    (fibre a pos j).length = a.vals.shape.getD pos 0 := by simp [fibre]

/-- a dimension may be given by name or by (possibly negative) position interchangeably -/
theorem dealWithAxis_name_pos {α : Type} (a : DimArray α) (pos : Nat) (hpos : pos < a.dims.length)
    (hn : a.dims.Nodup) :
    dealWithAxis a (.one (.name (a.dims[pos]))) = dealWithAxis a (.one (.pos pos)) ∧
    dealWithAxis a (.one (.pos ((pos : Int) - a.ndim))) = dealWithAxis a (.one (.pos pos)) := by
  have hnd : a.ndim = a.dims.length := by simp [DimArray.ndim, DimArray.dims]
  constructor
  · simp only [dealWithAxis, pure, Except.pure, bind, Except.bind]
    have h1 : a.dims.idxOf a.dims[pos] = pos := List.Nodup.idxOf_getElem hn pos hpos
    have h2 : ¬ ((pos : Int) < 0) := by omega
    have h3 : ¬ ((pos : Int) ≥ (a.ndim : Int)) := by omega
    simp [h1, hpos, h2, h3]
  · simp only [dealWithAxis, pure, Except.pure, bind, Except.bind]
    have h1 : ((pos : Int) - (a.ndim : Int)) < 0 := by omega
    have h2 : ¬ ((pos : Int) < 0) := by omega
    have h3 : ¬ ((pos : Int) ≥ (a.ndim : Int)) := by omega
    have h4 : (pos : Int) - (a.ndim : Int) + (a.ndim : Int) = pos := by omega
    simp [h1, h2, h3, h4]

/-- axis=None reduces the whole array to one scalar -/
theorem reduce_none_scalar {α : Type} (red : List α → α) (a : DimArray α) :
    reduceAxis red a .none = .ok (.inl (red a.vals.toList)) := by
  simp [reduceAxis, dealWithAxis, bind, Except.bind, pure, Except.pure]

/-- a tuple of dimensions is reduced over the flattened group (C11): same object as reducing axis 0
of `flatten(dims, insert=0)` -/
theorem reduce_tuple_eq_flatten {α : Type} (red : List α → α) (a o : DimArray α) (names : List String)
    (hall : ∀ s ∈ names, a.dims.contains s = true) (hf : flatten a names (some 0) = .ok o) :
    reduceAxis red a (.many (names.map DimKey.name)) = reduceAxis red o (.one (.pos 0)) ∨
    o.ndim = 0 := by
  by_cases h0 : o.ndim = 0
  · exact Or.inr h0
  · left
    have hm : (names.map DimKey.name).mapM (keyName a) = .ok names := by
      clear hf
      induction names with
      | nil => rfl
      | cons s rest ih =>
        have hs := hall s (by simp)
        have ih' := ih (fun t ht => hall t (by simp [ht]))
        have h1 : keyName a (DimKey.name s) = .ok s := by simp only [keyName, hs, if_true]
        simp only [List.map_cons, List.mapM_cons, h1, ih', bind, Except.bind, pure, Except.pure]
    have hpos : (0 : Int) < (o.ndim : Int) := by omega
    simp only [reduceAxis, dealWithAxis, bind, Except.bind, hm, hf, pure, Except.pure]
    have h1 : ¬ ((0 : Int) < 0) := by omega
    have h2 : ¬ ((0 : Int) ≥ (o.ndim : Int)) := by omega
    simp only [h1, h2, if_false, decide_false, Bool.or_false, Bool.false_eq_true, Int.toNat_zero]

/-! ### the function-family table of the implementation (regenerated on every run) -/

/-- **NaN policy**: with skipna=False `_get_func` never selects a NaN-skipping family (median goes
through the wrapper that restores NaN), with skipna=True it always selects one -/
theorem getFunc_table_policy :
    ∀ r ∈ Gen.getFuncTable,
      (r.2.1 = false → (r.2.2 = "plain" ∨ (r.1 = "median" ∧ r.2.2 = "mediannan"))) ∧
      (r.2.1 = true → (r.2.2 = "nanfunc" ∨ r.2.2 = "masked")) := by decide

theorem getFunc_table_covers :
    ∀ f ∈ ["sum", "prod", "mean", "var", "std", "min", "max", "ptp", "all", "any", "median"],
      ∀ s ∈ [false, true], (Gen.getFuncTable.any fun r => r.1 == f && r.2.1 == s) = true := by decide

end DimModel

/-
C08 - property theorems: reductions drop exactly the reduced axis, keep the others in their order
with their labels and the metadata, reduce exactly the fibre along that axis; the NaN policy of the
function-family table of the implementation (regenerated on every run).
-/
import DimModel.Lib.Transform
import DimModel.Gen.TableC08
import DimModel.Proofs.C08
import DimModel.Proofs.C08Pct
import DimModel.Proofs.C08Red
import DimModel.Proofs.C08Red2
namespace DimModel
open Lib

/-- **axes**: reducing along position `pos` of an array of rank ≥ 2 returns the remaining axes in
their original order (each with its labels and metadata), the array's metadata, and every result
cell is the reduction of the 1-D fibre through it -/
theorem reduce_axes_spec {α : Type} (red : List α → α) (a : DimArray α) (k : DimKey) (pos : Nat) (r : DimArray α)
    (hpos : dealWithAxis a (.one k) = .ok (a, some pos)) (hrank : a.ndim ≠ 1)
    (h : reduceAxis red a (.one k) = .ok (.inr r)) :
    r.axes = a.axes.eraseIdx pos ∧ r.attrs = a.attrs ∧ r.vals.shape = a.vals.shape.eraseIdx pos ∧
    ∀ j, r.vals.get j = red (fibre a pos j) := by
  unfold reduceAxis at h
  simp only [hpos, bind, Except.bind] at h
  have : (a.ndim == 1) = false := by simpa using hrank
  simp only [this, Bool.false_eq_true, if_false, pure, Except.pure] at h
  cases h
  exact ⟨rfl, rfl, rfl, fun _ => rfl⟩

/-- the fibre through result index `j` consists of the cells at `j` with every position inserted
along the reduced dimension, in axis order -/
theorem fibre_get {α : Type} (a : DimArray α) (pos : Nat) (j : List Nat) (i : Nat)
    (hi : i < a.vals.shape.getD pos 0) :
    (fibre a pos j)[i]'(by simpa [fibre] using hi) = a.vals.get (j.insertIdx pos i) := by
  simp [fibre]

theorem fibre_length {α : Type} (a : DimArray α) (pos : Nat) (j : List Nat) :
    (fibre a pos j).length = a.vals.shape.getD pos 0 := by simp [fibre]

/-- a dimension may be given by name or by (possibly negative) position interchangeably -/
theorem dealWithAxis_name_pos {α : Type} (a : DimArray α) (pos : Nat) (hpos : pos < a.dims.length)
    (hn : a.dims.Nodup) :
    dealWithAxis a (.one (.name (a.dims[pos]))) = dealWithAxis a (.one (.pos pos)) ∧
    dealWithAxis a (.one (.pos ((pos : Int) - a.ndim))) = dealWithAxis a (.one (.pos pos)) := by
  have hnd : a.ndim = a.dims.length := by simp [DimArray.ndim, DimArray.dims]
  constructor
  · simp only [dealWithAxis, pure, Except.pure, bind, Except.bind]
    have h1 : a.dims.idxOf a.dims[pos] = pos := List.Nodup.idxOf_getElem hn pos hpos
    have h2 : ¬ ((pos : Int) < 0) := by omega
    have h3 : ¬ ((pos : Int) ≥ (a.ndim : Int)) := by omega
    simp [h1, hpos, h2, h3]
  · simp only [dealWithAxis, pure, Except.pure, bind, Except.bind]
    have h1 : ((pos : Int) - (a.ndim : Int)) < 0 := by omega
    have h2 : ¬ ((pos : Int) < 0) := by omega
    have h3 : ¬ ((pos : Int) ≥ (a.ndim : Int)) := by omega
    have h4 : (pos : Int) - (a.ndim : Int) + (a.ndim : Int) = pos := by omega
    simp [h1, h2, h3, h4]

/-- axis=None reduces the whole array to one scalar -/
theorem reduce_none_scalar {α : Type} (red : List α → α) (a : DimArray α) :
    reduceAxis red a .none = .ok (.inl (red a.vals.toList)) := by
  simp [reduceAxis, dealWithAxis, bind, Except.bind, pure, Except.pure]

/-- a tuple of dimensions is reduced over the flattened group (C11): same object as reducing axis 0
of `flatten(dims, insert=0)` -/
theorem reduce_tuple_eq_flatten {α : Type} (red : List α → α) (a o : DimArray α) (names : List String)
    (hall : ∀ s ∈ names, a.dims.contains s = true) (hf : flatten a names (some 0) = .ok o) :
    reduceAxis red a (.many (names.map DimKey.name)) = reduceAxis red o (.one (.pos 0)) ∨
    o.ndim = 0 := by
  by_cases h0 : o.ndim = 0
  · exact Or.inr h0
  · left
    have hm : (names.map DimKey.name).mapM (keyName a) = .ok names := by
      clear hf
      induction names with
      | nil => rfl
      | cons s rest ih =>
        have hs := hall s (by simp)
        have ih' := ih (fun t ht => hall t (by simp [ht]))
        have h1 : keyName a (DimKey.name s) = .ok s := by simp only [keyName, hs, if_true]
        simp only [List.map_cons, List.mapM_cons, h1, ih', bind, Except.bind, pure, Except.pure]
    have hpos : (0 : Int) < (o.ndim : Int) := by omega
    simp only [reduceAxis, dealWithAxis, bind, Except.bind, hm, hf, pure, Except.pure]
    have h1 : ¬ ((0 : Int) < 0) := by omega
    have h2 : ¬ ((0 : Int) ≥ (o.ndim : Int)) := by omega
    simp only [h1, h2, if_false, decide_false, Bool.or_false, Bool.false_eq_true, Int.toNat_zero]

/-! ### the function-family table of the implementation (regenerated on every run) -/

/-- **NaN policy**: with skipna=False `_get_func` never selects a NaN-skipping family (median goes
through the wrapper that restores NaN), with skipna=True it always selects one -/
theorem getFunc_table_policy :
    ∀ r ∈ Gen.getFuncTable,
      (r.2.1 = false → (r.2.2 = "plain" ∨ (r.1 = "median" ∧ r.2.2 = "mediannan"))) ∧
      (r.2.1 = true → (r.2.2 = "nanfunc" ∨ r.2.2 = "masked")) := by decide

theorem getFunc_table_covers :
    ∀ f ∈ ["sum", "prod", "mean", "var", "std", "min", "max", "ptp", "all", "any", "median"],
      ∀ s ∈ [false, true], (Gen.getFuncTable.any fun r => r.1 == f && r.2.1 == s) = true := by decide

/-- **the concrete model follows the implementation's selection, row by row**: for every row `(name, skipna, family)` of the
table tabulated from `_get_func` (except `std`, which needs a square root) the concrete model `Lib/Reduce.lean` has a
function (`selectRed` or `selectScan`) and that function mirrors exactly the family the implementation selects (`familyOf`).
A change of `_get_func` that switches a family (a plain function where a NaN-skipping one is due, `np.median` instead of
`_median_with_nan`, `np.nan<name>` instead of the masked switcher, ...) breaks this theorem when the table is regenerated. -/
theorem selectRed_covers_table :
    ∀ r ∈ Gen.getFuncTable, r.1 ≠ "std" → hasModel r.1 r.2.1 = true ∧ familyOf r.1 r.2.1 = some r.2.2 := by decide

/-- ... and conversely every function of the concrete model is a row of the tabulated table (no model function without a
selection of the implementation behind it), with its family -/
theorem selectRed_within_table :
    ∀ name ∈ ["sum", "prod", "mean", "var", "min", "max", "ptp", "all", "any", "median", "argmin", "argmax", "cumsum", "cumprod"],
      ∀ s ∈ [false, true], ∃ fam, familyOf name s = some fam ∧ (name, s, fam) ∈ Gen.getFuncTable := by decide

/-- `familyOf` names a family exactly where the model has a function (all names, listed or not) -/
theorem familyOf_isSome_iff_hasModel (name : String) (s : Bool) : (familyOf name s).isSome = hasModel name s := by
  unfold familyOf hasModel selectRed selectScan
  split <;> simp_all

/-! ## end-to-end statements about `reduceAxis` (scalar results, names vs storage order, positions) -/

open AxisLemmas

/-- **axis=None, any rank**: the result is a scalar - the reduction of ALL cells in row-major
order: the reduced list has one entry per cell and the cell with index `j` sits at the row-major
position of `j` -/
theorem reduce_none_row_major {α : Type} (red : List α → α) (a : DimArray α) :
    reduceAxis red a .none = .ok (.inl (red a.vals.toList)) ∧
    a.vals.toList.length = prod a.vals.shape ∧
    ∀ j, InRange a.vals.shape j → a.vals.toList[ravel a.vals.shape j]? = some (a.vals.get j) :=
  ⟨reduce_none_scalar red a, toList_length a.vals, toList_getElem?_ravel a.vals⟩

/-- **rank 1**: reducing a 1-D array along its only axis (however the axis is designated) returns
a scalar, never an array with a stale axis: the reduction of all its cells in order -/
theorem reduce_rank1_scalar {α : Type} (red : List α → α) (a : DimArray α) (k : DimKey) (pos : Nat)
    (hpos : dealWithAxis a (.one k) = .ok (a, some pos)) (hrank : a.ndim = 1)
    (hshape : a.vals.shape.length = 1) :
    reduceAxis red a (.one k) = .ok (.inl (red a.vals.toList)) := by
  have hp0 : pos = 0 := by have := (dealWithAxis_one_ok a a k pos hpos).2; omega
  subst hp0
  obtain ⟨n, hn⟩ : ∃ n, a.vals.shape = [n] := by
    match hs : a.vals.shape, hshape with
    | [n], _ => exact ⟨n, rfl⟩
  unfold reduceAxis
  simp only [hpos, bind, Except.bind, hrank, beq_self_eq_true, if_true, pure, Except.pure,
    fibre_rank1 a n hn]

/-- the only axis of a 1-D array can be designated by its name, by `0` or by `-1` -/
theorem dealWithAxis_rank1 {α : Type} (a : DimArray α) (hrank : a.ndim = 1) :
    dealWithAxis a (.one (.name (a.dims[0]'(by rw [← ndim_eq_dims_length]; omega)))) = .ok (a, some 0) ∧
    dealWithAxis a (.one (.pos 0)) = .ok (a, some 0) ∧
    dealWithAxis a (.one (.pos (-1))) = .ok (a, some 0) := by
  have hl : a.dims.length = 1 := by rw [← ndim_eq_dims_length]; exact hrank
  refine ⟨?_, ?_, ?_⟩
  · have hnd : a.dims.Nodup := by
      match hd : a.dims, hl with
      | [x], _ => simp
    exact dealWithAxis_name a 0 (by omega) hnd
  · simp [dealWithAxis, hrank, pure, Except.pure]
  · simp [dealWithAxis, hrank, pure, Except.pure]

example : reduceAxis (fun l => l.foldl (· + ·) 0)
    ({ axes := [{ name := "t", labels := [.num 1, .num 2, .num 3], kind := .i }],
       vals := { shape := [3], get := fun j => j.getD 0 0 + 1 } } : DimArray Nat) (.one (.pos (-1)))
    = .ok (.inl 6) := by rfl

/-- **positions, negative included**: position `i` designates dimension `i` for `0 ≤ i < rank`,
dimension `rank + i` for `-rank ≤ i < 0`, and is an IndexError otherwise -/
theorem dealWithAxis_pos_spec {α : Type} (a : DimArray α) (i : Int) :
    dealWithAxis a (.one (.pos i)) =
      if 0 ≤ i ∧ i < (a.ndim : Int) then .ok (a, some i.toNat)
      else if -(a.ndim : Int) ≤ i ∧ i < 0 then .ok (a, some (i + (a.ndim : Int)).toNat)
      else .error .index := by
  simp only [dealWithAxis, pure, Except.pure]
  by_cases h0 : i < 0
  · have hn : ¬ (0 ≤ i ∧ i < (a.ndim : Int)) := by omega
    simp only [h0, if_true, hn, if_false]
    by_cases h1 : -(a.ndim : Int) ≤ i
    · have h2 : ¬ (i + (a.ndim : Int) < 0) := by omega
      have h3 : ¬ (i + (a.ndim : Int) ≥ (a.ndim : Int)) := by omega
      simp [h1, h2, h3]
    · have h2 : i + (a.ndim : Int) < 0 := by omega
      simp [h1, h2]
  · simp only [h0, if_false]
    by_cases h1 : i < (a.ndim : Int)
    · have h2 : 0 ≤ i := by omega
      have h3 : ¬ (i ≥ (a.ndim : Int)) := by omega
      simp [h1, h2, h3]
    · have h3 : i ≥ (a.ndim : Int) := by omega
      simp [h1, h3]

/-- `-k` designates dimension `rank - k` (`1 ≤ k ≤ rank`) -/
theorem dealWithAxis_neg {α : Type} (a : DimArray α) (k : Nat) (hk1 : 1 ≤ k) (hk2 : k ≤ a.ndim) :
    dealWithAxis a (.one (.pos (-(k : Int)))) = .ok (a, some (a.ndim - k)) := by
  rw [dealWithAxis_pos_spec]
  have h1 : ¬ (0 ≤ -(k : Int) ∧ -(k : Int) < (a.ndim : Int)) := by omega
  have h2 : -(a.ndim : Int) ≤ -(k : Int) ∧ -(k : Int) < 0 := by omega
  have h3 : (-(k : Int) + (a.ndim : Int)).toNat = a.ndim - k := by omega
  simp only [h1, h2, if_false, if_true, and_self, h3]

/-- a position outside `-rank .. rank-1` is an IndexError, an unknown name a ValueError -/
theorem dealWithAxis_out_of_range {α : Type} (a : DimArray α) (i : Int)
    (h : i ≥ (a.ndim : Int) ∨ i < -(a.ndim : Int)) :
    dealWithAxis a (.one (.pos i)) = .error .index := by
  rw [dealWithAxis_pos_spec]
  have h1 : ¬ (0 ≤ i ∧ i < (a.ndim : Int)) := by omega
  have h2 : ¬ (-(a.ndim : Int) ≤ i ∧ i < 0) := by omega
  simp only [h1, h2, if_false]

theorem dealWithAxis_unknown_name {α : Type} (a : DimArray α) (s : String) (h : s ∉ a.dims) :
    dealWithAxis a (.one (.name s)) = .error .value := by
  have : ¬ (a.dims.idxOf s < a.dims.length) := fun hlt => h (List.idxOf_lt_length_iff.mp hlt)
  simp [dealWithAxis, this]

/-- reducing by position (negative or not) is reducing by the name at that position -/
theorem reduce_neg_eq_name {α : Type} (red : List α → α) (a : DimArray α) (k : Nat) (hk1 : 1 ≤ k)
    (hk2 : k ≤ a.ndim) (hn : a.dims.Nodup) :
    reduceAxis red a (.one (.pos (-(k : Int)))) =
      reduceAxis red a (.one (.name (a.dims[a.ndim - k]'(by rw [← ndim_eq_dims_length]; omega)))) := by
  have h1 := dealWithAxis_neg a k hk1 hk2
  have h2 := dealWithAxis_name a (a.ndim - k) (by rw [← ndim_eq_dims_length]; omega) hn
  unfold reduceAxis
  rw [h1, h2]

/-- **reduction by NAME**: reducing a rank ≥ 2 array along the dimension named `d` drops exactly
that dimension and every result cell, addressed by the names of the remaining dimensions, is the
reduction of the cells at the same coordinates with `d` running over its positions in order -/
theorem reduce_name_spec {α : Type} (red : List α → α) (a : DimArray α) (pos : Nat)
    (hpos : pos < a.dims.length) (hn : a.dims.Nodup) (hrank : a.ndim ≠ 1) :
    ∃ r, reduceAxis red a (.one (.name a.dims[pos])) = .ok (.inr r) ∧
      r.axes = a.axes.eraseIdx pos ∧ r.dims = a.dims.eraseIdx pos ∧ r.attrs = a.attrs ∧
      r.vals.shape = a.vals.shape.eraseIdx pos ∧
      (∀ j, r.vals.get j = red (fibre a pos j)) ∧
      ∀ c, r.at c = red ((List.range (a.vals.shape.getD pos 0)).map
                          fun k => a.at (setCoord c a.dims[pos] k)) := by
  have hd := dealWithAxis_name a pos hpos hn
  have hr : (a.ndim == 1) = false := by simpa using hrank
  refine ⟨{ axes := a.axes.eraseIdx pos,
             vals := { shape := a.vals.shape.eraseIdx pos, get := fun j => red (fibre a pos j) },
             vkind := a.vkind, attrs := a.attrs }, ?_, rfl, ?_, rfl, rfl, fun _ => rfl, ?_⟩
  · unfold reduceAxis
    simp only [hd, bind, Except.bind, hr, Bool.false_eq_true, if_false, pure, Except.pure]
  · exact dims_eraseIdx a.axes pos
  · intro c
    show red (fibre a pos ((List.map (·.name) (a.axes.eraseIdx pos)).map c)) = _
    rw [dims_eraseIdx, ← fibre_at a pos hpos hn c]
    rfl

/-- **storage order is irrelevant**: reducing along the dimension named `d` commutes with
transposing the array first. Both reductions succeed; the results have the same axes up to the
transposition, the same metadata, and for every choice of coordinates of the remaining dimensions
the reduced fibre is the very same list of cells, hence the result cells agree. -/
theorem reduce_commute_transpose {α : Type} (red : List α → α) (a : DimArray α) (p : List Nat)
    (hp : IsPerm p a.axes.length) (hs : a.vals.shape.length = a.axes.length) (hn : a.dims.Nodup)
    (d : String) (hd : d ∈ a.dims) (hrank : a.ndim ≠ 1) :
    ∃ ra rb, reduceAxis red a (.one (.name d)) = .ok (.inr ra) ∧
      reduceAxis red (transposeBy a p) (.one (.name d)) = .ok (.inr rb) ∧
      rb.axes.Perm ra.axes ∧ rb.attrs = ra.attrs ∧
      (∀ c, fibre (transposeBy a p) ((transposeBy a p).dims.idxOf d) (rb.dims.map c) =
            fibre a (a.dims.idxOf d) (ra.dims.map c)) ∧
      ∀ c, rb.at c = ra.at c := by
  -- positions of `d` in both arrays
  have hpa : a.dims.idxOf d < a.dims.length := List.idxOf_lt_length_of_mem hd
  have hperm := transposeBy_dims_perm a p hp
  have hnb : (transposeBy a p).dims.Nodup := hperm.nodup_iff.mpr hn
  have hdb : d ∈ (transposeBy a p).dims := hperm.mem_iff.mpr hd
  have hpb : (transposeBy a p).dims.idxOf d < (transposeBy a p).dims.length :=
    List.idxOf_lt_length_of_mem hdb
  have hlenb : (transposeBy a p).dims.length = p.length := by
    simp [transposeBy, DimArray.dims]
  have hrankb : (transposeBy a p).ndim ≠ 1 := by
    have : (transposeBy a p).ndim = a.ndim := by
      simp [transposeBy, DimArray.ndim, hp.1]
    rw [this]; exact hrank
  have ea : a.dims[a.dims.idxOf d] = d := List.getElem_idxOf hpa
  have eb : (transposeBy a p).dims[(transposeBy a p).dims.idxOf d] = d := List.getElem_idxOf hpb
  obtain ⟨ra, hra, hra_axes, hra_dims, hra_attrs, _, _, hra_at⟩ :=
    reduce_name_spec red a (a.dims.idxOf d) hpa hn hrank
  obtain ⟨rb, hrb, hrb_axes, hrb_dims, hrb_attrs, _, _, hrb_at⟩ :=
    reduce_name_spec red (transposeBy a p) ((transposeBy a p).dims.idxOf d) hpb hnb hrankb
  rw [ea] at hra hra_at
  rw [eb] at hrb hrb_at
  -- the position of `d` in the transposed array is sent by `p` to its position in `a`
  have hpb' : (transposeBy a p).dims.idxOf d < p.length := hlenb ▸ hpb
  have hpp : p[(transposeBy a p).dims.idxOf d] = a.dims.idxOf d := by
    have h1 := transposeBy_dims_getElem a p hp _ hpb'
    rw [eb] at h1
    exact (List.getElem_inj hn).mp (h1.symm.trans ea.symm)
  have hsize : (transposeBy a p).vals.shape.getD ((transposeBy a p).dims.idxOf d) 0 =
      a.vals.shape.getD (a.dims.idxOf d) 0 := by
    have hgen : ∀ q (hq : q < p.length),
        (transposeBy a p).vals.shape.getD q 0 = a.vals.shape.getD p[q] 0 := by
      intro q hq
      simp only [transposeBy, NDArr.transpose]
      rw [List.getD_eq_getElem?_getD, List.getElem?_map, List.getElem?_eq_getElem hq]
      rfl
    rw [hgen _ hpb', hpp]
  have hfib : ∀ c, fibre (transposeBy a p) ((transposeBy a p).dims.idxOf d) (rb.dims.map c) =
      fibre a (a.dims.idxOf d) (ra.dims.map c) := by
    intro c
    rw [hrb_dims, hra_dims, fibre_at _ _ hpb hnb c, fibre_at a _ hpa hn c, hsize, ea, eb]
    apply List.map_congr_left
    intro k _
    exact transposeBy_at a p hp hs _
  refine ⟨ra, rb, hra, hrb, ?_, ?_, hfib, ?_⟩
  · -- axes: the same set of (distinct) axes
    have haxn : a.axes.Nodup := nodup_of_map_nodup (·.name) (show (a.axes.map (·.name)).Nodup from hn)
    have hbperm := transposeBy_axes_perm a p hp
    have hbxn : (transposeBy a p).axes.Nodup := hbperm.nodup_iff.mpr haxn
    have hpa' : a.dims.idxOf d < a.axes.length := by simpa [DimArray.dims] using hpa
    have hpb'' : (transposeBy a p).dims.idxOf d < (transposeBy a p).axes.length := by
      simpa [DimArray.dims] using hpb
    have hsame : (transposeBy a p).axes[(transposeBy a p).dims.idxOf d] = a.axes[a.dims.idxOf d] := by
      have := transposeBy_axes a p _ hpb'
      rw [this, hpp, List.getD_eq_getElem?_getD, List.getElem?_eq_getElem hpa']; rfl
    rw [hrb_axes, hra_axes]
    rw [List.perm_ext_iff_of_nodup (hbxn.sublist (List.eraseIdx_sublist ..))
      (haxn.sublist (List.eraseIdx_sublist ..))]
    intro x
    rw [mem_eraseIdx_nodup hbxn _ hpb'', mem_eraseIdx_nodup haxn _ hpa', hsame, hbperm.mem_iff]
  · rw [hrb_attrs, hra_attrs]; rfl
  · intro c
    rw [hrb_at, hra_at, hsize]
    congr 1
    apply List.map_congr_left
    intro k _
    exact transposeBy_at a p hp hs _

/-- **a tuple of dimensions, cell level**: with `o = flatten(names, insert=0)` (C11 describes its
cells: position `g` of the leading grouped axis is the `g`-th combination of member positions in
row-major order of the listed names), the reduction over the tuple drops the grouped axis, keeps the
remaining axes of `o` in order and the metadata, and every result cell is the reduction of the cells
`o[0, j], o[1, j], ...` over ALL grouped positions in order; when no dimension remains the result is
a scalar, the reduction of all cells of `o`. -/
theorem reduce_tuple_cells {α : Type} (red : List α → α) (a o : DimArray α) (names : List String)
    (hall : ∀ s ∈ names, a.dims.contains s = true) (hf : flatten a names (some 0) = .ok o) :
    (o.ndim = 1 →
      reduceAxis red a (.many (names.map DimKey.name)) =
        .ok (.inl (red ((List.range (o.vals.shape.getD 0 0)).map fun g => o.vals.get [g])))) ∧
    (o.ndim ≠ 1 → ∃ r, reduceAxis red a (.many (names.map DimKey.name)) = .ok (.inr r) ∧
      r.axes = o.axes.tail ∧ r.attrs = o.attrs ∧ r.vals.shape = o.vals.shape.tail ∧
      ∀ j, r.vals.get j = red ((List.range (o.vals.shape.getD 0 0)).map fun g => o.vals.get (g :: j))) := by
  have hd := dealWithAxis_many a o names hall hf
  constructor
  · intro h1
    unfold reduceAxis
    simp only [hd, bind, Except.bind, h1, beq_self_eq_true, if_true, pure, Except.pure]
    rfl
  · intro h1
    have hr : (o.ndim == 1) = false := by simpa using h1
    refine ⟨{ axes := o.axes.eraseIdx 0,
              vals := { shape := o.vals.shape.eraseIdx 0, get := fun j => red (fibre o 0 j) },
              vkind := o.vkind, attrs := o.attrs }, ?_, ?_, rfl, ?_, fun j => rfl⟩
    · unfold reduceAxis
      simp only [hd, bind, Except.bind, hr, Bool.false_eq_true, if_false, pure, Except.pure]
    · exact List.eraseIdx_zero
    · exact List.eraseIdx_zero

/-! ### the hypotheses are satisfiable: a 2 x 3 example -/

/-- a 2 x 3 array with the cells 0..5 in row-major order -/
def C08.ex23 : DimArray Int :=
  { axes := [{ name := "x", labels := [.num 1, .num 2], kind := .i },
             { name := "y", labels := [.str "a", .str "b", .str "c"], kind := .U }],
    vals := { shape := [2, 3], get := fun j => 3 * (j.getD 0 0 : Int) + j.getD 1 0 } }

def C08.isum (l : List Int) : Int := l.foldl (· + ·) 0

open C08 in
/-- hypotheses of `reduce_name_spec` -/
example : 1 < ex23.dims.length ∧ ex23.dims.Nodup ∧ ex23.ndim ≠ 1 := by decide

open C08 in
/-- hypotheses of `reduce_commute_transpose` -/
example : IsPerm [1, 0] ex23.axes.length ∧ ex23.vals.shape.length = ex23.axes.length ∧ ex23.dims.Nodup ∧
    "y" ∈ ex23.dims ∧ ex23.ndim ≠ 1 := ⟨⟨rfl, by decide, by decide⟩, by decide⟩

open C08 in
/-- ... and the two reductions on this input: the row sums `0+1+2`, `3+4+5`, whichever way the array is stored -/
example :
    (match reduceAxis isum ex23 (.one (.name "y")) with
      | .ok (.inr r) => r.vals.toList | _ => []) = [3, 12] ∧
    (match reduceAxis isum (transposeBy ex23 [1, 0]) (.one (.name "y")) with
      | .ok (.inr r) => r.vals.toList | _ => []) = [3, 12] := by decide

open C08 in
/-- hypotheses of `reduce_rank1_scalar` / `dealWithAxis_neg` / `reduce_neg_eq_name` -/
example : dealWithAxis ex23 (.one (.pos (-1))) = .ok (ex23, some 1) :=
  dealWithAxis_neg ex23 1 (by decide) (by decide)

open C08 in
/-- hypotheses of `reduce_tuple_cells` (all dimensions, listed in reverse order: a scalar) -/
example : (∀ s ∈ ["y", "x"], ex23.dims.contains s = true) ∧
    (match flatten ex23 ["y", "x"] (some 0) with | .ok o => o.ndim | _ => 7) = 1 ∧
    (match reduceAxis isum ex23 (.many [.name "y", .name "x"]) with | .ok (.inl v) => v | _ => 7) = 15 := by
  decide

open C08 in
example : reduceAxis isum ex23 .none = .ok (.inl 15) := (reduce_none_row_major isum ex23).1

/-! ## `lib.stats.percentile` / `quantile`: end-to-end statements about the mirrors `Lib.percentile`, `Lib.quantile`

`redq q cells` is NumPy's `q`-th percentile of a 1-D list of cells (trusted, evaluated by NumPy in the correspondence
check); everything else - which cells form a fibre, which axes remain, how the percentile dimension is named and
labelled, the metadata - is proved. -/

open PctLemmas

/-- **one percentile along one dimension (rank ≥ 2)**: `percentile(a, q, axis=d)` with `d` a name or a position,
`0 ≤ q ≤ 100`, on an array whose values have the shape its axes announce, with distinct dimension names and a non-empty
dimension `d`, SUCCEEDS and returns an array
* over the remaining axes in their original order, each with its labels and metadata (`a.axes.eraseIdx pos`),
* with the array's metadata,
* whose cell `j` is the `q`-th percentile of exactly the fibre of `a` through `j` along `d` (`fibre_get`: the cells at
  `j` with every position of `d` inserted, in axis order);
it is the array the generic reduction `apply_along_axis` (`reduceAxis`) returns for `f = q-th percentile`, with float
values. `newaxis=` is not used for a single percentile. -/
theorem percentile_scalar_spec {α : Type} [Inhabited α] (nan : α) (redq : Rat → List α → α) (a : DimArray α)
    (k : DimKey) (pos : Nat) (q : Rat) (newaxis : Option String)
    (hpos : dealWithAxis a (.one k) = .ok (a, some pos))
    (hs : a.vals.shape = a.axes.map (·.size)) (hn : a.dims.Nodup) (hrank : a.ndim ≠ 1)
    (hq : 0 ≤ q ∧ q ≤ 100) (hne : 0 < a.vals.shape.getD pos 0) :
    ∃ r, percentile nan redq a (.scalar q) (.one k) newaxis = .ok (.inr r) ∧
      r.axes = a.axes.eraseIdx pos ∧ r.attrs = a.attrs ∧ r.vals.shape = a.vals.shape.eraseIdx pos ∧
      (∀ j, r.vals.get j = redq q (fibre a pos j)) ∧
      reduceAxis (redq q) a (.one k) = .ok (.inr { r with vkind := a.vkind }) := by
  have hp := (dealWithAxis_one_ok a a k pos hpos).2
  refine ⟨_, percentile_scalar_pos nan redq a a (.one k) pos q newaxis hpos hp hs hn hrank hq hne,
    rfl, rfl, rfl, fun _ => rfl, ?_⟩
  have hr : (a.ndim == 1) = false := by simpa using hrank
  unfold reduceAxis
  simp only [hpos, bind, Except.bind, hr, Bool.false_eq_true, if_false, pure, Except.pure]
  rfl

/-- **a list of percentiles along one dimension (any rank ≥ 1)**: `percentile(a, [q_0, ..., q_{m-1}], axis=d,
newaxis=n)` with `m ≥ 1` percentiles in [0, 100] (a list, a tuple or an array; repeats allowed, any order), on an array
whose values have the shape its axes announce, with distinct dimension names, plain remaining axes and a non-empty
dimension `d`, SUCCEEDS as soon as the name of the percentile dimension - `n` when given, else `<name of d>_percentile` -
is not the name of a remaining dimension, and returns an array
* whose FIRST dimension is new: it carries that name, the requested percentiles as labels, in the requested order (label
  kind = the kind of the list), no metadata;
* followed by the remaining axes of `a` in their original order, each with its labels and metadata;
* with the array's metadata;
* of shape `m :: (shape without d)`, whose cell `(i, j)` is the `q_i`-th percentile of exactly the fibre of `a` through
  `j` along `d`. -/
theorem percentile_spec {α : Type} [Inhabited α] (nan : α) (redq : Rat → List α → α) (a : DimArray α)
    (k : DimKey) (pos : Nat) (qs : List Rat) (kind : Kind) (newaxis : Option String) (name : String)
    (hpos : dealWithAxis a (.one k) = .ok (a, some pos))
    (hs : a.vals.shape = a.axes.map (·.size)) (hn : a.dims.Nodup)
    (hplain : ∀ ax ∈ a.axes.eraseIdx pos, ax.members = [])
    (hqs : qs ≠ []) (hq : ∀ q ∈ qs, 0 ≤ q ∧ q ≤ 100) (hne : 0 < a.vals.shape.getD pos 0)
    (hname : name = newaxis.getD ((a.axes.getD pos default).name ++ "_percentile"))
    (hfresh : name ∉ a.dims.eraseIdx pos) :
    ∃ r, percentile nan redq a (.many qs kind) (.one k) newaxis = .ok (.inr r) ∧
      r.axes = { name := name, labels := qs.map Label.num, kind := kind } :: a.axes.eraseIdx pos ∧
      r.dims = name :: a.dims.eraseIdx pos ∧
      r.attrs = a.attrs ∧
      r.vals.shape = qs.length :: a.vals.shape.eraseIdx pos ∧
      ∀ (i : Nat) (hi : i < qs.length) (j : List Nat), r.vals.get (i :: j) = redq qs[i] (fibre a pos j) := by
  have hp := (dealWithAxis_one_ok a a k pos hpos).2
  obtain ⟨q0, qt, rfl⟩ : ∃ q0 qt, qs = q0 :: qt := by
    cases qs with
    | nil => exact absurd rfl hqs
    | cons q0 qt => exact ⟨q0, qt, rfl⟩
  have hfresh' : name ∉ (a.axes.eraseIdx pos).map (·.name) := by rw [dims_eraseIdx]; exact hfresh
  refine ⟨_, percentile_many_pos nan redq a a (.one k) pos q0 qt kind newaxis name hpos hp hs hn hplain hq hne hname
    hfresh', rfl, ?_, rfl, ?_, ?_⟩
  · show name :: (a.axes.eraseIdx pos).map (·.name) = _
    rw [dims_eraseIdx]; rfl
  · simp [NDArr.stackNew, pctBlock]
  · intro i hi j
    simp only [NDArr.stackNew]
    rw [List.getD_eq_getElem?_getD, List.getElem?_map, List.getElem?_eq_getElem hi]
    rfl

/-- **rank 1, one percentile**: the percentile of a 1-D array along its only axis (however designated) is a scalar,
never an array with a stale axis: the `q`-th percentile of all its cells in order -/
theorem percentile_rank1_spec {α : Type} [Inhabited α] (nan : α) (redq : Rat → List α → α) (a : DimArray α)
    (k : DimKey) (pos : Nat) (q : Rat) (newaxis : Option String)
    (hpos : dealWithAxis a (.one k) = .ok (a, some pos)) (hrank : a.ndim = 1)
    (hshape : a.vals.shape.length = 1) (hq : 0 ≤ q ∧ q ≤ 100) (hne : a.vals.toList ≠ []) :
    percentile nan redq a (.scalar q) (.one k) newaxis = .ok (.inl (redq q a.vals.toList)) := by
  have hp0 : pos = 0 := by have := (dealWithAxis_one_ok a a k pos hpos).2; omega
  subst hp0
  obtain ⟨n, hn⟩ : ∃ n, a.vals.shape = [n] := by
    match hsh : a.vals.shape, hshape with
    | [n], _ => exact ⟨n, rfl⟩
  have hn0 : 0 < a.vals.shape.getD 0 0 := by
    have hl := toList_length a.vals
    rw [hn] at hl ⊢
    have : a.vals.toList.length ≠ 0 := fun h => hne (List.length_eq_zero_iff.mp h)
    simp [prod] at hl
    simp; omega
  rw [percentile_scalar_rank1 nan redq a a (.one k) 0 q newaxis hpos hshape hq hn0, fibre_rank1 a n hn]

/-- **axis=None, one percentile**: the whole array is reduced to one scalar - the `q`-th percentile of ALL cells in
row-major order (`reduce_none_row_major` describes that list) -/
theorem percentile_none_scalar {α : Type} [Inhabited α] (nan : α) (redq : Rat → List α → α) (a : DimArray α)
    (q : Rat) (newaxis : Option String) (hq : 0 ≤ q ∧ q ≤ 100) (hne : a.vals.toList ≠ []) :
    percentile nan redq a (.scalar q) .none newaxis = .ok (.inl (redq q a.vals.toList)) ∧
    reduceAxis (redq q) a .none = .ok (.inl (redq q a.vals.toList)) := by
  have hany := any_out_of_range_false [q] (by intro x hx; simp at hx; subst hx; exact hq)
  have hext : (a.vals.toList.length == 0) = false := by
    rw [beq_eq_false_iff_ne]; exact fun h => hne (List.length_eq_zero_iff.mp h)
  refine ⟨?_, reduce_none_scalar _ a⟩
  unfold percentile
  simp only [dealWithAxis, bind, Except.bind, pure, Except.pure, PctArg.qs, hany, Bool.false_eq_true, if_false, hext,
    List.isEmpty_nil, if_true]

/-- **what is refused**: a percentile outside [0, 100] is NumPy's ValueError (whatever the rest of the call, once the
axis resolves); an empty reduced dimension its IndexError; a list of percentiles over the whole array (axis=None)
without `newaxis=` a TypeError (there is no dimension to name the percentile dimension after); an unknown dimension
name a ValueError and a position outside the rank an IndexError, as for every reduction. -/
theorem percentile_refuses {α : Type} [Inhabited α] (nan : α) (redq : Rat → List α → α) (a : DimArray α)
    (newaxis : Option String) :
    (∀ (ax : AxisArg) (o : DimArray α) (idx : Option Nat) (pct : PctArg), dealWithAxis a ax = .ok (o, idx) →
      (∃ q ∈ pct.qs, q < 0 ∨ 100 < q) → percentile nan redq a pct ax newaxis = .error .value) ∧
    (∀ (k : DimKey) (pos : Nat) (pct : PctArg), dealWithAxis a (.one k) = .ok (a, some pos) →
      (∀ q ∈ pct.qs, 0 ≤ q ∧ q ≤ 100) → a.vals.shape.getD pos 0 = 0 →
      percentile nan redq a pct (.one k) newaxis = .error .index) ∧
    (∀ (qs : List Rat) (kind : Kind), (∀ q ∈ qs, 0 ≤ q ∧ q ≤ 100) → a.vals.toList ≠ [] →
      percentile nan redq a (.many qs kind) .none none = .error .type) ∧
    (∀ (pct : PctArg) (s : String), s ∉ a.dims → percentile nan redq a pct (.one (.name s)) newaxis = .error .value) ∧
    (∀ (pct : PctArg) (i : Int), (i ≥ (a.ndim : Int) ∨ i < -(a.ndim : Int)) →
      percentile nan redq a pct (.one (.pos i)) newaxis = .error .index) := by
  refine ⟨?_, ?_, ?_, ?_, ?_⟩
  · intro ax o idx pct hd ⟨q, hq, hbad⟩
    have hany : pct.qs.any (fun q => decide (q < 0) || decide (q > 100)) = true := by
      rw [List.any_eq_true]
      refine ⟨q, hq, ?_⟩
      rcases hbad with h | h <;> simp [h]
    unfold percentile
    simp only [hd, bind, Except.bind, hany, if_true]
  · intro k pos pct hd hq h0
    have hany := any_out_of_range_false pct.qs hq
    unfold percentile
    simp only [hd, bind, Except.bind, hany, Bool.false_eq_true, if_false, h0, beq_self_eq_true, if_true]
  · intro qs kind hq hne
    have hany := any_out_of_range_false qs hq
    have hext : (a.vals.toList.length == 0) = false := by
      rw [beq_eq_false_iff_ne]; exact fun h => hne (List.length_eq_zero_iff.mp h)
    unfold percentile
    simp only [dealWithAxis, bind, Except.bind, pure, Except.pure, PctArg.qs, hany, Bool.false_eq_true, if_false, hext,
      Option.map_none]
  · intro pct s hs
    unfold percentile
    simp only [dealWithAxis_unknown_name a s hs, bind, Except.bind]
  · intro pct i hi
    unfold percentile
    simp only [dealWithAxis_out_of_range a i hi, bind, Except.bind]

/-- **a tuple of dimensions** (`percentile(a, pct, axis=(d1, d2, ...))`, the names in any order): for a well-formed
array with plain axes, a non-empty list of distinct names of its dimensions with non-empty product of sizes, whose joined
name `"d1,d2,..."` is not the name of a remaining dimension: with `o = flatten(names, insert=0)` (C11 describes its
cells: position `g` of the leading grouped axis is the `g`-th combination of member positions in row-major order of the
listed names) and `rest` the remaining dimensions in their original order,
* ONE percentile: when no dimension remains the result is a scalar, the percentile of all cells of `o`; otherwise an
  array over the remaining axes (labels and metadata) with the array's metadata whose cell `j` is the percentile of
  `o[0, j], o[1, j], ...` over ALL grouped positions;
* a LIST of `m ≥ 1` percentiles: the percentile dimension comes first - named `newaxis` when given, else
  `"d1,d2,..._percentile"`, which must not be the name of a remaining dimension - labelled with the requested
  percentiles, then the remaining axes; the array's metadata; cell `(i, j)` is the `q_i`-th percentile of
  `o[0, j], o[1, j], ...`. -/
theorem percentile_tuple_spec {α : Type} [Inhabited α] (nan : α) (redq : Rat → List α → α) (a : DimArray α)
    (names : List String) (newaxis : Option String)
    (hwf : a.WF) (hne : names ≠ []) (hnd : names.Nodup) (hsub : ∀ d ∈ names, d ∈ a.dims)
    (hplain : ∀ ax ∈ a.axes, ax.members = [])
    (hjoin : ",".intercalate names ∉ a.dims.filter (fun d => !names.contains d))
    (hprod : 0 < prod (names.map (fun d => (a.axisOf d).size))) :
    ∃ o, flatten a names (some 0) = .ok o ∧
      o.axes.tail = (a.dims.filter (fun d => !names.contains d)).map a.axisOf ∧
      o.vals.shape.getD 0 0 = prod (names.map (fun d => (a.axisOf d).size)) ∧
      (∀ q, 0 ≤ q ∧ q ≤ 100 →
        (o.ndim = 1 → percentile nan redq a (.scalar q) (.many (names.map DimKey.name)) newaxis =
          .ok (.inl (redq q ((List.range (o.vals.shape.getD 0 0)).map fun g => o.vals.get [g])))) ∧
        (o.ndim ≠ 1 → ∃ r, percentile nan redq a (.scalar q) (.many (names.map DimKey.name)) newaxis = .ok (.inr r) ∧
          r.axes = o.axes.tail ∧ r.attrs = a.attrs ∧ r.vals.shape = o.vals.shape.tail ∧
          ∀ j, r.vals.get j = redq q ((List.range (o.vals.shape.getD 0 0)).map fun g => o.vals.get (g :: j)))) ∧
      (∀ (qs : List Rat) (kind : Kind) (name : String), qs ≠ [] → (∀ q ∈ qs, 0 ≤ q ∧ q ≤ 100) →
        name = newaxis.getD (",".intercalate names ++ "_percentile") →
        name ∉ a.dims.filter (fun d => !names.contains d) →
        ∃ r, percentile nan redq a (.many qs kind) (.many (names.map DimKey.name)) newaxis = .ok (.inr r) ∧
          r.axes = { name := name, labels := qs.map Label.num, kind := kind } :: o.axes.tail ∧
          r.attrs = a.attrs ∧ r.vals.shape = qs.length :: o.vals.shape.tail ∧
          ∀ (i : Nat) (hi : i < qs.length) (j : List Nat),
            r.vals.get (i :: j) = redq qs[i] ((List.range (o.vals.shape.getD 0 0)).map fun g => o.vals.get (g :: j))) := by
  obtain ⟨o, hf, hd, haxes, hnm, hshape, hno, hpl, hsz, hrest, hattrs⟩ :=
    flatten0_facts a names hwf hne hnd hsub hplain hjoin
  have hpos : 0 < o.axes.length := by rw [haxes]; simp
  have hext : 0 < o.vals.shape.getD 0 0 := by rw [hsz]; exact hprod
  refine ⟨o, hf, by rw [haxes]; rfl, hsz, ?_, ?_⟩
  · intro q hq
    constructor
    · intro h1
      have hlen : o.vals.shape.length = 1 := by rw [hshape, List.length_map]; exact h1
      rw [percentile_scalar_rank1 nan redq a o _ 0 q newaxis hd hlen hq hext]
      rfl
    · intro h1
      refine ⟨_, percentile_scalar_pos nan redq a o _ 0 q newaxis hd hpos hshape hno h1 hq hext,
        List.eraseIdx_zero, hattrs, List.eraseIdx_zero, fun _ => rfl⟩
  · intro qs kind name hqs hq hname hfresh
    obtain ⟨q0, qt, rfl⟩ : ∃ q0 qt, qs = q0 :: qt := by
      cases qs with
      | nil => exact absurd rfl hqs
      | cons q0 qt => exact ⟨q0, qt, rfl⟩
    refine ⟨_, percentile_many_pos nan redq a o _ 0 q0 qt kind newaxis name hd hpos hshape hno hpl hq hext
      (by rw [hnm]; exact hname) (by rw [hrest]; exact hfresh), ?_, hattrs, ?_, ?_⟩
    · show _ :: o.axes.eraseIdx 0 = _
      rw [List.eraseIdx_zero]
    · simp [NDArr.stackNew, pctBlock]
    · intro i hi j
      simp only [NDArr.stackNew]
      rw [List.getD_eq_getElem?_getD, List.getElem?_map, List.getElem?_eq_getElem hi]
      rfl

/-- **quantile** (`quantile(a, [p_0, ..., p_{m-1}], axis=d, newaxis=n)`, levels in [0, 1] given as floats): under the
hypotheses of `percentile_spec`, it SUCCEEDS and returns the array `percentile` returns for the percentiles `100 p_i` -
same remaining axes, metadata and cells: cell `(i, j)` is the `100 p_i`-th percentile of the fibre of `a` through `j`
along `d` - except that the new first dimension is named `n` when given, else `<name of d>_quantile`, and is labelled
with the requested LEVELS `p_i` themselves (float labels). -/
theorem quantile_spec {α : Type} [Inhabited α] (nan : α) (redq : Rat → List α → α) (a : DimArray α)
    (k : DimKey) (pos : Nat) (ps : List Rat) (newaxis : Option String) (name : String)
    (hpos : dealWithAxis a (.one k) = .ok (a, some pos))
    (hs : a.vals.shape = a.axes.map (·.size)) (hn : a.dims.Nodup)
    (hplain : ∀ ax ∈ a.axes.eraseIdx pos, ax.members = [])
    (hps : ps ≠ []) (hp : ∀ p ∈ ps, 0 ≤ p ∧ p ≤ 1) (hne : 0 < a.vals.shape.getD pos 0)
    (hname : name = newaxis.getD ((a.axes.getD pos default).name ++ "_quantile"))
    (hfresh : name ∉ a.dims.eraseIdx pos) :
    ∃ r, quantile nan redq a ps .f (.one k) newaxis = .ok (.inr r) ∧
      r.axes = { name := name, labels := ps.map Label.num, kind := .f } :: a.axes.eraseIdx pos ∧
      r.attrs = a.attrs ∧
      r.vals.shape = ps.length :: a.vals.shape.eraseIdx pos ∧
      ∀ (i : Nat) (hi : i < ps.length) (j : List Nat), r.vals.get (i :: j) = redq (ps[i] * 100) (fibre a pos j) := by
  have hq : ∀ q ∈ ps.map (· * 100), 0 ≤ q ∧ q ≤ 100 := by
    intro q hq
    obtain ⟨p, hpm, rfl⟩ := List.mem_map.mp hq
    have := hp p hpm
    constructor
    · exact Rat.mul_nonneg this.1 (by decide)
    · have h := Rat.mul_le_mul_of_nonneg_right this.2 (show (0 : Rat) ≤ 100 by decide)
      simpa using h
  obtain ⟨r, hr, haxes, _, hattrs, hshape, hcells⟩ :=
    percentile_spec nan redq a k pos (ps.map (· * 100)) .f (some name) name hpos hs hn hplain (by simpa using hps) hq
      hne rfl hfresh
  have hlab : (List.map Label.num (List.map (· * 100) ps)).map
      (fun l => match l with | .num v => Label.num (v / 100) | l => l) = ps.map Label.num := by
    rw [List.map_map, List.map_map]
    apply List.map_congr_left
    intro p _
    show Label.num (p * 100 / 100) = Label.num p
    congr 1
    rw [Rat.mul_div_cancel (by decide)]
  refine ⟨{ r with axes := r.axes.modifyHead fun x =>
      { x with labels := x.labels.map fun l => match l with | .num v => .num (v / 100) | l => l } }, ?_, ?_, hattrs,
    by rw [hshape, List.length_map], ?_⟩
  · unfold quantile
    simp only [hpos, bind, Except.bind, pure, Except.pure, Option.map_some]
    cases newaxis with
    | none =>
      simp only [Option.getD_none] at hname
      subst hname
      simp only [hr]
      rfl
    | some n =>
      simp only [Option.getD_some] at hname
      subst hname
      simp only [hr]
      rfl
  · show r.axes.modifyHead _ = _
    rw [haxes]
    simp only [List.modifyHead_cons, hlab]
  · intro i hi j
    have := hcells i (by rw [List.length_map]; exact hi) j
    rw [this]
    simp only [List.getElem_map]

/-! ### the hypotheses are satisfiable: the 2 x 3 example, percentiles along "y" -/

/-- a stand-in for NumPy's percentile on the examples: the entry at `⌊q (n-1) / 100⌋` of the list (the "lower"
percentile of a sorted list) -/
def C08.lowerPct (q : Rat) (l : List Int) : Int := l.getD (q * ((l.length - 1 : Nat) : Rat) / 100).floor.toNat 0

open C08 in
/-- hypotheses of `percentile_scalar_spec`, `percentile_spec` and `quantile_spec` (dimension "y", default name of the
percentile dimension) -/
example : dealWithAxis ex23 (.one (.name "y")) = .ok (ex23, some 1) ∧
    ex23.vals.shape = ex23.axes.map (·.size) ∧ ex23.dims.Nodup ∧ ex23.ndim ≠ 1 ∧
    (∀ ax ∈ ex23.axes.eraseIdx 1, ax.members = []) ∧ 0 < ex23.vals.shape.getD 1 0 ∧
    (none : Option String).getD ((ex23.axes.getD 1 default).name ++ "_percentile") = "y_percentile" ∧
    "y_percentile" ∉ ex23.dims.eraseIdx 1 ∧ "y_quantile" ∉ ex23.dims.eraseIdx 1 ∧
    (∀ q ∈ [(50 : Rat), 100], 0 ≤ q ∧ q ≤ 100) ∧ (∀ p ∈ [(1 / 2 : Rat), 1], 0 ≤ p ∧ p ≤ 1) :=
  ⟨dealWithAxis_name ex23 1 (by decide) (by decide), by decide, by decide, by decide, by decide, by decide, by decide,
   by decide, by decide, by decide +kernel, by decide +kernel⟩

open C08 in
/-- ... and the mirror on this input: the medians and maxima of the rows `[0,1,2]`, `[3,4,5]`, under a new first
dimension "y_percentile" labelled 50, 100, followed by "x" -/
example :
    (match percentile 0 lowerPct ex23 (.many [50, 100] .i) (.one (.name "y")) none with
      | .ok (.inr r) => (r.dims, (r.axes.getD 0 default).labels, r.vals.shape, r.vals.toList)
      | _ => ([], [], [], [])) =
    (["y_percentile", "x"], [.num 50, .num 100], [2, 2], [1, 4, 2, 5]) := by decide +kernel

open C08 in
/-- one percentile: the remaining axis "x" only; over the whole array: a scalar -/
example :
    (match percentile 0 lowerPct ex23 (.scalar 50) (.one (.pos (-1))) none with
      | .ok (.inr r) => (r.dims, r.vals.toList) | _ => ([], [])) = (["x"], [1, 4]) ∧
    (match percentile 0 lowerPct ex23 (.scalar 100) .none none with
      | .ok (.inl v) => v | _ => 7) = 5 := by decide +kernel

open C08 in
/-- hypotheses of `percentile_tuple_spec` (both dimensions, listed in reverse order) and the mirror on them: the
grouped dimension is named "y,x", no dimension remains, the maximum over all cells under "y,x_percentile" -/
example : ex23.WF ∧ ["y", "x"] ≠ [] ∧ ["y", "x"].Nodup ∧ (∀ d ∈ ["y", "x"], d ∈ ex23.dims) ∧
    (∀ ax ∈ ex23.axes, ax.members = []) ∧
    ",".intercalate ["y", "x"] ∉ ex23.dims.filter (fun d => !["y", "x"].contains d) ∧
    0 < prod (["y", "x"].map (fun d => (ex23.axisOf d).size)) ∧
    (match percentile 0 lowerPct ex23 (.many [100] .i) (.many [.name "y", .name "x"]) none with
      | .ok (.inr r) => (r.dims, r.vals.toList) | _ => ([], [])) = (["y,x_percentile"], [5]) := by
  refine ⟨by decide, by decide, by decide, by decide, by decide, by decide, by decide, by decide +kernel⟩

open C08 in
/-- what is refused (`percentile_refuses`): a percentile above 100, a list over the whole array without `newaxis=` -/
example : (match percentile 0 lowerPct ex23 (.scalar 101) (.one (.name "y")) none with | .error e => e | _ => .other) = .value ∧
    (match percentile 0 lowerPct ex23 (.many [50] .i) .none none with | .error e => e | _ => .other) = .type := by
  decide +kernel

/-! ## what a reduction computes inside a fibre (Lib/Reduce.lean): NaN, the infinities, empty fibres -/

open Lib.XVal in
/-- **skipna=False propagates NaN**: for sum, prod, mean, min, max, ptp, median and var the function `_get_func` selects
for `skipna=False` returns NaN on every fibre (of any length) that holds a NaN -/
theorem red_plain_nan (name : String) (hname : name ∈ ["sum", "prod", "mean", "min", "max", "ptp", "median", "var"])
    (f : List XVal → Except Err XVal) (hf : selectRed name false = some f) (l : List XVal) (h : XVal.nan ∈ l) :
    f l = .ok XVal.nan := by
  simp only [List.mem_cons, List.not_mem_nil, or_false] at hname
  rcases hname with rfl | rfl | rfl | rfl | rfl | rfl | rfl | rfl <;>
    simp only [selectRed, Option.some.injEq] at hf <;> subst hf <;>
    simp [xsum_nan h, xprod_nan h, xmean_nan h, xmin_nan h, xmax_nan h, xptp_nan h, xmedian_nan h, xvar_nan h]

/-- **skipna=True = the plain function on the fibre without its NaNs** (order kept), whenever something is left:
for every reduction of the table (sum prod mean var min max ptp all any median) and every fibre length -/
theorem red_skipna_eq_plain_filter (name : String)
    (hname : name ∈ ["sum", "prod", "mean", "var", "min", "max", "ptp", "all", "any", "median"])
    (f g : List XVal → Except Err XVal) (hf : selectRed name false = some f) (hg : selectRed name true = some g)
    (l : List XVal) (h : dropNan l ≠ []) : g l = f (dropNan l) := by
  simp only [List.mem_cons, List.not_mem_nil, or_false] at hname
  rcases hname with rfl | rfl | rfl | rfl | rfl | rfl | rfl | rfl | rfl | rfl <;>
    simp only [selectRed, Option.some.injEq] at hf hg <;> subst hf <;> subst hg <;>
    simp [xnansum_eq, xnanprod_eq, xnanmean, xnanvar, xnanmin_eq h, xnanmax_eq h, xmaptp_eq h, xmaall, xmaany, xnanmedian_eq]

/-- **nothing left once the NaNs are skipped** (an all-NaN, non-empty fibre): nansum 0, nanprod 1, nanmean / nanvar /
nanmedian / nanmin / nanmax / masked ptp NaN, all True, any False, nanargmin / nanargmax ValueError -/
theorem red_skipna_all_nan (l : List XVal) (hne : l ≠ []) (h : dropNan l = []) :
    xnansum l = .fin 0 ∧ xnanprod l = .fin 1 ∧ xnanmean l = .nan ∧ xnanvar l = .nan ∧ xnanmedian l = .nan ∧
    xnanmin l = .ok .nan ∧ xnanmax l = .ok .nan ∧ xmaptp l = .ok .nan ∧ xmaall l = .fin 1 ∧ xmaany l = .fin 0 ∧
    xnanargmin l = .error .value ∧ xnanargmax l = .error .value := by
  have he : l.isEmpty = false := by cases l <;> simp_all
  refine ⟨by rw [xnansum_eq, h]; rfl, by rw [xnanprod_eq, h]; rfl, ?_, ?_, ?_, ?_, ?_, ?_, ?_, ?_, ?_, ?_⟩ <;>
    simp [xnanmean, xnanvar, xnanmedian, xnanmin, xnanmax, xmaptp, xmaall, xmaany, xnanargmin, xnanargmax, h, he,
      xmean, xvar, medianSorted, xall, xany, XVal.ofBool]

/-- the empty fibre: sum 0, prod 1, mean / var / median NaN, all True, any False in both variants; min, max, ptp,
argmin, argmax raise ValueError in both variants -/
theorem red_empty_fibre :
    xsum [] = .fin 0 ∧ xnansum [] = .fin 0 ∧ xprod [] = .fin 1 ∧ xnanprod [] = .fin 1 ∧ xmean [] = .nan ∧ xnanmean [] = .nan ∧
    xmin [] = .error .value ∧ xnanmin [] = .error .value ∧ xmax [] = .error .value ∧ xnanmax [] = .error .value ∧
    xptp [] = .error .value ∧ xmaptp [] = .error .value ∧ xargmin [] = .error .value ∧ xnanargmin [] = .error .value ∧
    xargmax [] = .error .value ∧ xnanargmax [] = .error .value := by
  refine ⟨rfl, rfl, rfl, rfl, rfl, rfl, rfl, rfl, rfl, rfl, rfl, rfl, rfl, rfl, rfl, rfl⟩

/-- **on a NaN-free fibre skipna makes no difference** (every function of the table, argmin / argmax and the cumulative
functions included; every fibre length, the empty fibre included) -/
theorem red_skipna_no_nan (l : List XVal) (h : XVal.nan ∉ l) :
    (∀ name f g, selectRed name false = some f → selectRed name true = some g → g l = f l) ∧
    (∀ name f g, selectScan name false = some f → selectScan name true = some g → g l = f l) := by
  have hd := dropNan_eq_self h
  have hm1 : (l.map fun x => if x.isNan then XVal.pinf else x) = l := by
    rw [List.map_congr_left (g := id)]; · simp
    intro x hx; cases x <;> simp_all [XVal.isNan]
  have hm2 : (l.map fun x => if x.isNan then XVal.ninf else x) = l := by
    rw [List.map_congr_left (g := id)]; · simp
    intro x hx; cases x <;> simp_all [XVal.isNan]
  constructor
  · intro name f g hf hg
    unfold selectRed at hf hg
    split at hf <;> simp_all [xnansum_eq, xnanprod_eq, xnanmean, xnanvar, xnanmedian_eq, xmaall, xmaany] <;>
      subst hf <;> subst hg <;> cases l <;> simp_all [xnanmin, xnanmax, xmaptp, xnanargmin, xnanargmax, xargmin, xargmax, xmin, xmax, xptp, bind, Except.bind]
  · intro name f g hf hg
    unfold selectScan at hf hg
    split at hf <;> simp_all
    all_goals (subst hf; subst hg; simp [xnansum_eq, xnanprod_eq, hd])

/-- **+-inf is never skipped**: `dropNan` keeps every non-NaN cell; nanmax of a fibre holding +inf is +inf, nanmin of a
fibre holding -inf is -inf, nansum of a fibre holding +inf and no -inf is +inf -/
theorem red_inf_not_missing (l : List XVal) :
    (∀ x, x ∈ dropNan l ↔ x ∈ l ∧ x ≠ .nan) ∧
    (XVal.pinf ∈ l → xnanmax l = .ok .pinf) ∧ (XVal.ninf ∈ l → xnanmin l = .ok .ninf) ∧
    (XVal.pinf ∈ l → XVal.ninf ∉ l → xnansum l = .pinf) := by
  refine ⟨fun x => mem_dropNan, ?_, ?_, ?_⟩
  · intro h
    have hm : XVal.pinf ∈ dropNan l := mem_dropNan.mpr ⟨h, by simp⟩
    have hne : dropNan l ≠ [] := List.ne_nil_of_mem hm
    rw [xnanmax_eq hne, xmax_eq_foldl hne, foldl_max_pinf _ _ (dropNan_no_nan l) (by simp) (Or.inr hm)]
  · intro h
    have hm : XVal.ninf ∈ dropNan l := mem_dropNan.mpr ⟨h, by simp⟩
    have hne : dropNan l ≠ [] := List.ne_nil_of_mem hm
    rw [xnanmin_eq hne, xmin_eq_foldl hne, foldl_min_ninf _ _ (dropNan_no_nan l) (by simp) (Or.inr hm)]
  · intro h h'
    have hm : XVal.pinf ∈ dropNan l := mem_dropNan.mpr ⟨h, by simp⟩
    rw [xnansum_eq]
    exact foldl_add_pinf _ _ (dropNan_no_nan l) (fun e => h' (mem_dropNan.mp e).1) (by simp) (by simp) (Or.inr hm)

/-- **order independence** (exact arithmetic): sum, min and max of a fibre do not depend on the order of its cells - for
every fibre, NaN and infinite cells included -/
theorem sum_perm {l₁ l₂ : List XVal} (p : l₁.Perm l₂) : xsum l₁ = xsum l₂ := xsum_perm' p

/-- the last cell of cumsum / cumprod along a fibre is its sum / product (both NaN policies) -/
theorem cumsum_last_eq_sum (s : Bool) (l : List XVal) :
    (∀ scan f, selectScan "cumsum" s = some scan → selectRed "sum" s = some f → f l = .ok (scan (l.take l.length))) ∧
    (∀ scan f, selectScan "cumprod" s = some scan → selectRed "prod" s = some f → f l = .ok (scan (l.take l.length))) := by
  cases s <;> simp [selectScan, selectRed]

/-- **argmin / argmax return the FIRST position of the extremum** `m = np.min(fibre)` (NaN counts as the extremum, as in
NumPy: then it is the first NaN position): the position is inside the fibre, holds `m`, no earlier cell does, and - on a
NaN-free fibre - `m` really is the extremum: every cell is `>= m` (argmax: `<= m`) -/
theorem argmin_spec (l : List XVal) (hne : l ≠ []) :
    ∃ m p, xmin l = .ok m ∧ xargmin l = .ok (XVal.ofNat p) ∧ ∃ hp : p < l.length, l[p] = m ∧ (∀ i (hi : i < p), l[i] ≠ m) ∧
      (XVal.nan ∉ l → ∀ i (hi : i < l.length), XVal.le m l[i] = true) := by
  cases hm : xmin l with
  | error e => cases l <;> simp_all [xmin]
  | ok m =>
    have hmem := xmin_mem hm
    have hp := List.idxOf_lt_length_of_mem hmem
    refine ⟨m, l.idxOf m, rfl, by simp [xargmin, hm, bind, Except.bind, pure, Except.pure], hp, List.getElem_idxOf hp, ?_,
      fun hn i hi => (xmin_le hm hn).2 _ (List.getElem_mem hi)⟩
    intro i hi h
    have := List.not_of_lt_findIdx (p := (· == m)) (xs := l) (i := i) (by simpa [List.idxOf] using hi)
    simp [h] at this

theorem argmax_spec (l : List XVal) (hne : l ≠ []) :
    ∃ m p, xmax l = .ok m ∧ xargmax l = .ok (XVal.ofNat p) ∧ ∃ hp : p < l.length, l[p] = m ∧ (∀ i (hi : i < p), l[i] ≠ m) ∧
      (XVal.nan ∉ l → ∀ i (hi : i < l.length), XVal.le l[i] m = true) := by
  cases hm : xmax l with
  | error e => cases l <;> simp_all [xmax]
  | ok m =>
    have hmem := xmax_mem hm
    have hp := List.idxOf_lt_length_of_mem hmem
    refine ⟨m, l.idxOf m, rfl, by simp [xargmax, hm, bind, Except.bind, pure, Except.pure], hp, List.getElem_idxOf hp, ?_,
      fun hn i hi => (xmax_ge hm hn).2 _ (List.getElem_mem hi)⟩
    intro i hi h
    have := List.not_of_lt_findIdx (p := (· == m)) (xs := l) (i := i) (by simpa [List.idxOf] using hi)
    simp [h] at this

/-- `np.nanargmin` replaces NaN by +inf before `np.argmin`: when every non-NaN cell is +inf and a NaN comes first, the
position returned is the NaN's (NumPy's behaviour, mirrored; the hypothesis "some non-NaN cell is below +inf" is needed
for "the position of the minimum among the non-NaN cells") -/
theorem nanargmin_inf_counterexample : xnanargmin [.nan, .pinf] = .ok (XVal.ofNat 0) := by
  simp [xnanargmin, dropNan, XVal.isNan, xargmin, xmin, XVal.min, XVal.le, bind, Except.bind, pure, Except.pure, List.idxOf, List.findIdx, List.findIdx.go]

/-- **END TO END**: every cell of `a.<fn>(axis=name, skipna=s)` on concrete data is the fibre function `f` (for instance
`selectRed fn s = some f`) of exactly that cell's fibre: the call succeeds only if no fibre raises, the result keeps the
other axes (labels, metadata, order) and the array's metadata, and cell `j` is `f` of `fibre a pos j` -/
theorem reduceX_name_spec (f : List XVal → Except Err XVal) (a : DimArray XVal) (pos : Nat)
    (hpos : pos < a.dims.length) (hn : a.dims.Nodup) (hrank : a.ndim ≠ 1) (r : DimArray XVal)
    (h : reduceX f a (.one (.name a.dims[pos])) = .ok (.inr r)) :
    r.axes = a.axes.eraseIdx pos ∧ r.dims = a.dims.eraseIdx pos ∧ r.attrs = a.attrs ∧
    r.vals.shape = a.vals.shape.eraseIdx pos ∧
    (∀ j, r.vals.get j = totalize f (fibre a pos j)) ∧
    (∀ j ∈ allIdx (a.vals.shape.eraseIdx pos), f (fibre a pos j) = .ok (r.vals.get j)) := by
  obtain ⟨h1, h2⟩ := reduceX_ok h
  obtain ⟨r', hr', hax, hdims, hat, hsh, hget, _⟩ := reduce_name_spec (totalize f) a pos hpos hn hrank
  rw [hr'] at h1
  simp only [Except.ok.injEq, Sum.inr.injEq] at h1
  subst h1
  refine ⟨hax, hdims, hat, hsh, hget, ?_⟩
  intro j hj
  rw [hget j]
  apply h2 a (some pos) (dealWithAxis_name a pos hpos hn)
  simp only [fibresOf, List.mem_append, List.mem_map]
  exact Or.inr ⟨j, hj, rfl⟩

/-- the hypotheses of `reduceX_name_spec` are satisfiable by a non-trivial input: nanmax along "y" of [[1, NaN], [+inf, -inf]] -/
example : (match reduceX xnanmax
      { axes := [{ name := "x", labels := [.num 0, .num 1], kind := .i }, { name := "y", labels := [.num 0, .num 1], kind := .i }],
        vals := NDArr.ofFlat [2, 2] [.fin 1, .nan, .pinf, .ninf] } (.one (.name "y")) with
    | .ok (.inr r) => r.vals.toList | _ => []) = [.fin 1, .pinf] := by
  decide +kernel

/-- **order independence** (exact arithmetic), every fibre, NaN and infinite cells included: min, max, prod (0 * inf = NaN
whatever the order), mean and var do not depend on the order of the cells -/
theorem min_perm {l₁ l₂ : List XVal} (p : l₁.Perm l₂) : xmin l₁ = xmin l₂ := xmin_perm' p
theorem max_perm {l₁ l₂ : List XVal} (p : l₁.Perm l₂) : xmax l₁ = xmax l₂ := xmax_perm' p
theorem prod_perm {l₁ l₂ : List XVal} (p : l₁.Perm l₂) : xprod l₁ = xprod l₂ := xprod_perm' p
theorem mean_perm {l₁ l₂ : List XVal} (p : l₁.Perm l₂) : xmean l₁ = xmean l₂ := xmean_perm' p
theorem var_perm {l₁ l₂ : List XVal} (p : l₁.Perm l₂) : xvar l₁ = xvar l₂ := xvar_perm' p

/-- **argmin(skipna=True)**: when the minimum `m` of the non-NaN cells is below +inf (needed:
`nanargmin_inf_counterexample`), `np.nanargmin` returns the FIRST position of `m`: it is inside the fibre, holds `m`
(not a NaN), no earlier cell holds `m`, and every non-NaN cell is `>= m` -/
theorem nanargmin_spec (l : List XVal) (m : XVal) (hm : xmin (dropNan l) = .ok m) (hlt : m ≠ XVal.pinf) :
    ∃ p, xnanargmin l = .ok (XVal.ofNat p) ∧ ∃ hp : p < l.length, l[p] = m ∧ m ≠ XVal.nan ∧ (∀ i (hi : i < p), l[i] ≠ m) ∧
      ∀ i (hi : i < l.length), l[i] ≠ XVal.nan → XVal.le m l[i] = true := by
  obtain ⟨h1, hmem, hnn, hle⟩ := xnanargmin_spec' hm hlt
  have hp := List.idxOf_lt_length_of_mem hmem
  refine ⟨l.idxOf m, h1, hp, List.getElem_idxOf hp, hnn, ?_, fun i hi h => hle _ (List.getElem_mem hi) h⟩
  intro i hi h
  have := List.not_of_lt_findIdx (p := (· == m)) (xs := l) (i := i) (by simpa [List.idxOf] using hi)
  simp [h] at this

/-- **argmax(skipna=True)**: the same with the maximum of the non-NaN cells, above -inf -/
theorem nanargmax_spec (l : List XVal) (m : XVal) (hm : xmax (dropNan l) = .ok m) (hlt : m ≠ XVal.ninf) :
    ∃ p, xnanargmax l = .ok (XVal.ofNat p) ∧ ∃ hp : p < l.length, l[p] = m ∧ m ≠ XVal.nan ∧ (∀ i (hi : i < p), l[i] ≠ m) ∧
      ∀ i (hi : i < l.length), l[i] ≠ XVal.nan → XVal.le l[i] m = true := by
  obtain ⟨h1, hmem, hnn, hle⟩ := xnanargmax_spec' hm hlt
  have hp := List.idxOf_lt_length_of_mem hmem
  refine ⟨l.idxOf m, h1, hp, List.getElem_idxOf hp, hnn, ?_, fun i hi h => hle _ (List.getElem_mem hi) h⟩
  intro i hi h
  have := List.not_of_lt_findIdx (p := (· == m)) (xs := l) (i := i) (by simpa [List.idxOf] using hi)
  simp [h] at this

/-- the mirror case of `nanargmin_inf_counterexample` for argmax -/
theorem nanargmax_inf_counterexample : xnanargmax [.nan, .ninf] = .ok (XVal.ofNat 0) := by
  simp [xnanargmax, dropNan, XVal.isNan, xargmax, xmax, XVal.max, XVal.le, bind, Except.bind, pure, Except.pure, List.idxOf, List.findIdx, List.findIdx.go]

/-- the hypotheses of `nanargmin_spec` / `nanargmax_spec` are satisfiable: [NaN, 3, -inf, 1, -inf] and [NaN, 3, +inf, 3] -/
example : totalize xmin (dropNan [.nan, .fin 3, .ninf, .fin 1, .ninf]) = .ninf ∧ XVal.ninf ≠ XVal.pinf ∧
    totalize xnanargmin [.nan, .fin 3, .ninf, .fin 1, .ninf] = XVal.ofNat 2 ∧
    totalize xmax (dropNan [.nan, .fin 3, .pinf, .fin 3]) = .pinf ∧ totalize xnanargmax [.nan, .fin 3, .pinf, .fin 3] = XVal.ofNat 2 := by
  decide +kernel

/-- **cumulative functions, inside a fibre**: NumPy's running accumulation (`xcumsum`, `xcumprod`; `xnancumsum`,
`xnancumprod` replace NaN by 0 / 1 first) has one cell per cell of the fibre, and cell `k` is the sum / product of the first
`k + 1` cells - with skipna: of the first `k + 1` cells without their NaNs; and that is the function `selectScan` hands to
`cumAxis` -/
theorem cumsum_prefix_spec (l : List XVal) :
    (xcumsum l).length = l.length ∧ (xcumprod l).length = l.length ∧
    (xnancumsum l).length = l.length ∧ (xnancumprod l).length = l.length ∧
    ∀ k, k < l.length →
      (xcumsum l)[k]? = some (xsum (l.take (k + 1))) ∧ (xcumprod l)[k]? = some (xprod (l.take (k + 1))) ∧
      (xnancumsum l)[k]? = some (xsum (dropNan (l.take (k + 1)))) ∧
      (xnancumprod l)[k]? = some (xprod (dropNan (l.take (k + 1)))) ∧
      (∀ name s cum scan, selectCum name s = some cum → selectScan name s = some scan →
        (cum l)[k]? = some (scan (l.take (k + 1)))) := by
  refine ⟨cumFrom_length _ _ _, cumFrom_length _ _ _, by simp [xnancumsum, xcumsum, cumFrom_length],
    by simp [xnancumprod, xcumprod, cumFrom_length], ?_⟩
  intro k hk
  have h1 : (xcumsum l)[k]? = some (xsum (l.take (k + 1))) := cumFrom_getElem? _ l _ k hk
  have h2 : (xcumprod l)[k]? = some (xprod (l.take (k + 1))) := cumFrom_getElem? _ l _ k hk
  have h3 : (xnancumsum l)[k]? = some (xnansum (l.take (k + 1))) := by
    unfold xnancumsum xcumsum
    rw [cumFrom_getElem? _ _ _ k (by simpa using hk), map_take_replace]; rfl
  have h4 : (xnancumprod l)[k]? = some (xnanprod (l.take (k + 1))) := by
    unfold xnancumprod xcumprod
    rw [cumFrom_getElem? _ _ _ k (by simpa using hk), map_take_replace]; rfl
  refine ⟨h1, h2, by rw [h3, xnansum_eq], by rw [h4, xnanprod_eq], ?_⟩
  intro name s cum scan hc hs
  unfold selectCum at hc
  unfold selectScan at hs
  split at hc <;> simp_all
  all_goals (subst hc; subst hs; assumption)

/-- **END TO END, cumulative**: `a.<cumsum|cumprod>(axis=name, skipna=s)` on concrete data keeps all axes (labels, metadata,
order), the array's metadata and the shape, and along every fibre of the named dimension it IS NumPy's cumulative function
`cum` of that fibre (`selectCum name s = some cum`): cell `j` is cell `j[pos]` of `cum (fibre through j)`, i.e. the sum /
product of the cells up to and including `j[pos]` (without their NaNs for skipna) -/
theorem cumX_name_spec (fn : String) (s : Bool) (cum : List XVal → List XVal) (scan : List XVal → XVal)
    (hc : selectCum fn s = some cum) (hs : selectScan fn s = some scan)
    (a : DimArray XVal) (pos : Nat) (hpos : pos < a.dims.length) (hn : a.dims.Nodup) :
    ∃ r, cumAxis scan a (.one (.name a.dims[pos])) = .ok (.inr r) ∧
      r.axes = a.axes ∧ r.attrs = a.attrs ∧ r.vals.shape = a.vals.shape ∧
      ∀ j, j.getD pos 0 < a.vals.shape.getD pos 0 →
        (cum (fibre a pos (j.eraseIdx pos)))[j.getD pos 0]? = some (r.vals.get j) ∧
        r.vals.get j = scan ((fibre a pos (j.eraseIdx pos)).take (j.getD pos 0 + 1)) := by
  have hd := dealWithAxis_name a pos hpos hn
  refine ⟨{ axes := a.axes,
            vals := { shape := a.vals.shape,
                      get := fun j => scan ((fibre a pos (j.eraseIdx pos)).take (j.getD pos 0 + 1)) },
            vkind := a.vkind, attrs := a.attrs }, by simp only [cumAxis, hd, bind, Except.bind, pure, Except.pure], rfl, rfl, rfl, ?_⟩
  intro j hj
  refine ⟨?_, rfl⟩
  have hlen : j.getD pos 0 < (fibre a pos (j.eraseIdx pos)).length := by rw [fibre_length]; exact hj
  exact (cumsum_prefix_spec (fibre a pos (j.eraseIdx pos))).2.2.2.2 _ hlen |>.2.2.2.2 fn s cum scan hc hs

/-- the hypotheses of `cumX_name_spec` on a non-trivial input: nancumsum along "y" of [[1, NaN, 2], [+inf, -inf, 1]] -/
example : (match cumAxis xnansum
      { axes := [{ name := "x", labels := [.num 0, .num 1], kind := .i }, { name := "y", labels := [.num 0, .num 1, .num 2], kind := .i }],
        vals := NDArr.ofFlat [2, 3] [.fin 1, .nan, .fin 2, .pinf, .ninf, .fin 1] } (.one (.name "y")) with
    | .ok (.inr r) => r.vals.toList | _ => []) = [.fin 1, .fin 1, .fin 3, .pinf, .nan, .nan] ∧
    xnancumsum [.pinf, .ninf, .fin 1] = [.pinf, .nan, .nan] ∧ xnancumsum [.fin 1, .nan, .fin 2] = [.fin 1, .fin 1, .fin 3] := by
  decide +kernel

end DimModel

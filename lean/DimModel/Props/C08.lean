/-
C08 - property theorems: reductions drop exactly the reduced axis, keep the others in their order
with their labels and the metadata, reduce exactly the fibre along that axis; the NaN policy of the
function-family table of the implementation (regenerated on every run).
-/
import DimModel.Lib.Transform
import DimModel.Gen.TableC08
import DimModel.Proofs.C08
namespace DimModel
open Lib

/-- **axes**: reducing along position `pos` of an array of rank ≥ 2 returns the remaining axes in
their original order (each with its labels and metadata), the array's metadata, and every result
cell is the reduction of the 1-D fibre through it -/
theorem reduce_axes_spec {α : Type} (red : List α → α) (a : DimArray α) (k : DimKey) (pos : Nat) (r : DimArray α)
    (hpos : dealWithAxis a (.one k) = .ok (a, some pos)) (hrank : a.ndim ≠ 1)
    (h : reduceAxis red a (.one k) = .ok (.inr r)) :
    r.axes = a.axes.eraseIdx pos ∧ r.attrs = a.attrs ∧ r.vals.shape = a.vals.shape.eraseIdx pos ∧
    ∀ j, r.vals.get j = red (fibre a pos j) := by
  unfold reduceAxis at h
  simp only [hpos, bind, Except.bind] at h
  have : (a.ndim == 1) = false := by simpa using hrank
  simp only [this, Bool.false_eq_true, if_false, pure, Except.pure] at h
  cases h
  exact ⟨rfl, rfl, rfl, fun _ => rfl⟩

/-- the fibre through result index `j` consists of the cells at `j` with every position inserted
along the reduced dimension, in axis order -/
theorem fibre_get {α : Type} (a : DimArray α) (pos : Nat) (j : List Nat) (i : Nat)
    (hi : i < a.vals.shape.getD pos 0) :
    (fibre a pos j)[i]'(by simpa [fibre] using hi) = a.vals.get (j.insertIdx pos i) := by
  simp [fibre]

theorem fibre_length {α : Type} (a : DimArray α) (pos : Nat) (j : List Nat) :
    (fibre a pos j).length = a.vals.shape.getD pos 0 := by simp [fibre]

/-- a dimension may be given by name or by (possibly negative) position interchangeably -/
theorem dealWithAxis_name_pos {α : Type} (a : DimArray α) (pos : Nat) (hpos : pos < a.dims.length)
    (hn : a.dims.Nodup) :
    dealWithAxis a (.one (.name (a.dims[pos]))) = dealWithAxis a (.one (.pos pos)) ∧
    dealWithAxis a (.one (.pos ((pos : Int) - a.ndim))) = dealWithAxis a (.one (.pos pos)) := by
  have hnd : a.ndim = a.dims.length := by simp [DimArray.ndim, DimArray.dims]
  constructor
  · simp only [dealWithAxis, pure, Except.pure, bind, Except.bind]
    have h1 : a.dims.idxOf a.dims[pos] = pos := List.Nodup.idxOf_getElem hn pos hpos
    have h2 : ¬ ((pos : Int) < 0) := by omega
    have h3 : ¬ ((pos : Int) ≥ (a.ndim : Int)) := by omega
    simp [h1, hpos, h2, h3]
  · simp only [dealWithAxis, pure, Except.pure, bind, Except.bind]
    have h1 : ((pos : Int) - (a.ndim : Int)) < 0 := by omega
    have h2 : ¬ ((pos : Int) < 0) := by omega
    have h3 : ¬ ((pos : Int) ≥ (a.ndim : Int)) := by omega
    have h4 : (pos : Int) - (a.ndim : Int) + (a.ndim : Int) = pos := by omega
    simp [h1, h2, h3, h4]

/-- axis=None reduces the whole array to one scalar -/
theorem reduce_none_scalar {α : Type} (red : List α → α) (a : DimArray α) :
    reduceAxis red a .none = .ok (.inl (red a.vals.toList)) := by
  simp [reduceAxis, dealWithAxis, bind, Except.bind, pure, Except.pure]

/-- a tuple of dimensions is reduced over the flattened group (C11): same object as reducing axis 0
of `flatten(dims, insert=0)` -/
theorem reduce_tuple_eq_flatten {α : Type} (red : List α → α) (a o : DimArray α) (names : List String)
    (hall : ∀ s ∈ names, a.dims.contains s = true) (hf : flatten a names (some 0) = .ok o) :
    reduceAxis red a (.many (names.map DimKey.name)) = reduceAxis red o (.one (.pos 0)) ∨
    o.ndim = 0 := by
  by_cases h0 : o.ndim = 0
  · exact Or.inr h0
  · left
    have hm : (names.map DimKey.name).mapM (keyName a) = .ok names := by
      clear hf
      induction names with
      | nil => rfl
      | cons s rest ih =>
        have hs := hall s (by simp)
        have ih' := ih (fun t ht => hall t (by simp [ht]))
        have h1 : keyName a (DimKey.name s) = .ok s := by simp only [keyName, hs, if_true]
        simp only [List.map_cons, List.mapM_cons, h1, ih', bind, Except.bind, pure, Except.pure]
    have hpos : (0 : Int) < (o.ndim : Int) := by omega
    simp only [reduceAxis, dealWithAxis, bind, Except.bind, hm, hf, pure, Except.pure]
    have h1 : ¬ ((0 : Int) < 0) := by omega
    have h2 : ¬ ((0 : Int) ≥ (o.ndim : Int)) := by omega
    simp only [h1, h2, if_false, decide_false, Bool.or_false, Bool.false_eq_true, Int.toNat_zero]

/-! ### the function-family table of the implementation (regenerated on every run) -/

/-- **NaN policy**: with skipna=False `_get_func` never selects a NaN-skipping family (median goes
through the wrapper that restores NaN), with skipna=True it always selects one -/
theorem getFunc_table_policy :
    ∀ r ∈ Gen.getFuncTable,
      (r.2.1 = false → (r.2.2 = "plain" ∨ (r.1 = "median" ∧ r.2.2 = "mediannan"))) ∧
      (r.2.1 = true → (r.2.2 = "nanfunc" ∨ r.2.2 = "masked")) := by decide

theorem getFunc_table_covers :
    ∀ f ∈ ["sum", "prod", "mean", "var", "std", "min", "max", "ptp", "all", "any", "median"],
      ∀ s ∈ [false, true], (Gen.getFuncTable.any fun r => r.1 == f && r.2.1 == s) = true := by decide

/-! ## end-to-end statements about `reduceAxis` (scalar results, names vs storage order, positions) -/

open AxisLemmas

/-- **axis=None, any rank**: the result is a scalar - the reduction of ALL cells in row-major
order: the reduced list has one entry per cell and the cell with index `j` sits at the row-major
position of `j` -/
theorem reduce_none_row_major {α : Type} (red : List α → α) (a : DimArray α) :
    reduceAxis red a .none = .ok (.inl (red a.vals.toList)) ∧
    a.vals.toList.length = prod a.vals.shape ∧
    ∀ j, InRange a.vals.shape j → a.vals.toList[ravel a.vals.shape j]? = some (a.vals.get j) :=
  ⟨reduce_none_scalar red a, toList_length a.vals, toList_getElem?_ravel a.vals⟩

/-- **rank 1**: reducing a 1-D array along its only axis (however the axis is designated) returns
a scalar, never an array with a stale axis: the reduction of all its cells in order -/
theorem reduce_rank1_scalar {α : Type} (red : List α → α) (a : DimArray α) (k : DimKey) (pos : Nat)
    (hpos : dealWithAxis a (.one k) = .ok (a, some pos)) (hrank : a.ndim = 1)
    (hshape : a.vals.shape.length = 1) :
    reduceAxis red a (.one k) = .ok (.inl (red a.vals.toList)) := by
  have hp0 : pos = 0 := by have := (dealWithAxis_one_ok a a k pos hpos).2; omega
  subst hp0
  obtain ⟨n, hn⟩ : ∃ n, a.vals.shape = [n] := by
    match hs : a.vals.shape, hshape with
    | [n], _ => exact ⟨n, rfl⟩
  unfold reduceAxis
  simp only [hpos, bind, Except.bind, hrank, beq_self_eq_true, if_true, pure, Except.pure,
    fibre_rank1 a n hn]

/-- the only axis of a 1-D array can be designated by its name, by `0` or by `-1` -/
theorem dealWithAxis_rank1 {α : Type} (a : DimArray α) (hrank : a.ndim = 1) :
    dealWithAxis a (.one (.name (a.dims[0]'(by rw [← ndim_eq_dims_length]; omega)))) = .ok (a, some 0) ∧
    dealWithAxis a (.one (.pos 0)) = .ok (a, some 0) ∧
    dealWithAxis a (.one (.pos (-1))) = .ok (a, some 0) := by
  have hl : a.dims.length = 1 := by rw [← ndim_eq_dims_length]; exact hrank
  refine ⟨?_, ?_, ?_⟩
  · have hnd : a.dims.Nodup := by
      match hd : a.dims, hl with
      | [x], _ => simp
    exact dealWithAxis_name a 0 (by omega) hnd
  · simp [dealWithAxis, hrank, pure, Except.pure]
  · simp [dealWithAxis, hrank, pure, Except.pure]

example : reduceAxis (fun l => l.foldl (· + ·) 0)
    ({ axes := [{ name := "t", labels := [.num 1, .num 2, .num 3], kind := .i }],
       vals := { shape := [3], get := fun j => j.getD 0 0 + 1 } } : DimArray Nat) (.one (.pos (-1)))
    = .ok (.inl 6) := by rfl

/-- **positions, negative included**: position `i` designates dimension `i` for `0 ≤ i < rank`,
dimension `rank + i` for `-rank ≤ i < 0`, and is an IndexError otherwise -/
theorem dealWithAxis_pos_spec {α : Type} (a : DimArray α) (i : Int) :
    dealWithAxis a (.one (.pos i)) =
      if 0 ≤ i ∧ i < (a.ndim : Int) then .ok (a, some i.toNat)
      else if -(a.ndim : Int) ≤ i ∧ i < 0 then .ok (a, some (i + (a.ndim : Int)).toNat)
      else .error .index := by
  simp only [dealWithAxis, pure, Except.pure]
  by_cases h0 : i < 0
  · have hn : ¬ (0 ≤ i ∧ i < (a.ndim : Int)) := by omega
    simp only [h0, if_true, hn, if_false]
    by_cases h1 : -(a.ndim : Int) ≤ i
    · have h2 : ¬ (i + (a.ndim : Int) < 0) := by omega
      have h3 : ¬ (i + (a.ndim : Int) ≥ (a.ndim : Int)) := by omega
      simp [h1, h2, h3]
    · have h2 : i + (a.ndim : Int) < 0 := by omega
      simp [h1, h2]
  · simp only [h0, if_false]
    by_cases h1 : i < (a.ndim : Int)
    · have h2 : 0 ≤ i := by omega
      have h3 : ¬ (i ≥ (a.ndim : Int)) := by omega
      simp [h1, h2, h3]
    · have h3 : i ≥ (a.ndim : Int) := by omega
      simp [h1, h3]

/-- `-k` designates dimension `rank - k` (`1 ≤ k ≤ rank`) -/
theorem dealWithAxis_neg {α : Type} (a : DimArray α) (k : Nat) (hk1 : 1 ≤ k) (hk2 : k ≤ a.ndim) :
    dealWithAxis a (.one (.pos (-(k : Int)))) = .ok (a, some (a.ndim - k)) := by
  rw [dealWithAxis_pos_spec]
  have h1 : ¬ (0 ≤ -(k : Int) ∧ -(k : Int) < (a.ndim : Int)) := by omega
  have h2 : -(a.ndim : Int) ≤ -(k : Int) ∧ -(k : Int) < 0 := by omega
  have h3 : (-(k : Int) + (a.ndim : Int)).toNat = a.ndim - k := by omega
  simp only [h1, h2, if_false, if_true, and_self, h3]

/-- a position outside `-rank .. rank-1` is an IndexError, an unknown name a ValueError -/
theorem dealWithAxis_out_of_range {α : Type} (a : DimArray α) (i : Int)
    (h : i ≥ (a.ndim : Int) ∨ i < -(a.ndim : Int)) :
    dealWithAxis a (.one (.pos i)) = .error .index := by
  rw [dealWithAxis_pos_spec]
  have h1 : ¬ (0 ≤ i ∧ i < (a.ndim : Int)) := by omega
  have h2 : ¬ (-(a.ndim : Int) ≤ i ∧ i < 0) := by omega
  simp only [h1, h2, if_false]

theorem dealWithAxis_unknown_name {α : Type} (a : DimArray α) (s : String) (h : s ∉ a.dims) :
    dealWithAxis a (.one (.name s)) = .error .value := by
  have : ¬ (a.dims.idxOf s < a.dims.length) := fun hlt => h (List.idxOf_lt_length_iff.mp hlt)
  simp [dealWithAxis, this]

/-- reducing by position (negative or not) is reducing by the name at that position -/
theorem reduce_neg_eq_name {α : Type} (red : List α → α) (a : DimArray α) (k : Nat) (hk1 : 1 ≤ k)
    (hk2 : k ≤ a.ndim) (hn : a.dims.Nodup) :
    reduceAxis red a (.one (.pos (-(k : Int)))) =
      reduceAxis red a (.one (.name (a.dims[a.ndim - k]'(by rw [← ndim_eq_dims_length]; omega)))) := by
  have h1 := dealWithAxis_neg a k hk1 hk2
  have h2 := dealWithAxis_name a (a.ndim - k) (by rw [← ndim_eq_dims_length]; omega) hn
  unfold reduceAxis
  rw [h1, h2]

/-- **reduction by NAME**: reducing a rank ≥ 2 array along the dimension named `d` drops exactly
that dimension and every result cell, addressed by the names of the remaining dimensions, is the
reduction of the cells at the same coordinates with `d` running over its positions in order -/
theorem reduce_name_spec {α : Type} (red : List α → α) (a : DimArray α) (pos : Nat)
    (hpos : pos < a.dims.length) (hn : a.dims.Nodup) (hrank : a.ndim ≠ 1) :
    ∃ r, reduceAxis red a (.one (.name a.dims[pos])) = .ok (.inr r) ∧
      r.axes = a.axes.eraseIdx pos ∧ r.dims = a.dims.eraseIdx pos ∧ r.attrs = a.attrs ∧
      r.vals.shape = a.vals.shape.eraseIdx pos ∧
      (∀ j, r.vals.get j = red (fibre a pos j)) ∧
      ∀ c, r.at c = red ((List.range (a.vals.shape.getD pos 0)).map
                          fun k => a.at (setCoord c a.dims[pos] k)) := by
  have hd := dealWithAxis_name a pos hpos hn
  have hr : (a.ndim == 1) = false := by simpa using hrank
  refine ⟨{ axes := a.axes.eraseIdx pos,
             vals := { shape := a.vals.shape.eraseIdx pos, get := fun j => red (fibre a pos j) },
             vkind := a.vkind, attrs := a.attrs }, ?_, rfl, ?_, rfl, rfl, fun _ => rfl, ?_⟩
  · unfold reduceAxis
    simp only [hd, bind, Except.bind, hr, Bool.false_eq_true, if_false, pure, Except.pure]
  · exact dims_eraseIdx a.axes pos
  · intro c
    show red (fibre a pos ((List.map (·.name) (a.axes.eraseIdx pos)).map c)) = _
    rw [dims_eraseIdx, ← fibre_at a pos hpos hn c]
    rfl

/-- **storage order is irrelevant**: reducing along the dimension named `d` commutes with
transposing the array first. Both reductions succeed; the results have the same axes up to the
transposition, the same metadata, and for every choice of coordinates of the remaining dimensions
the reduced fibre is the very same list of cells, hence the result cells agree. -/
theorem reduce_commute_transpose {α : Type} (red : List α → α) (a : DimArray α) (p : List Nat)
    (hp : IsPerm p a.axes.length) (hs : a.vals.shape.length = a.axes.length) (hn : a.dims.Nodup)
    (d : String) (hd : d ∈ a.dims) (hrank : a.ndim ≠ 1) :
    ∃ ra rb, reduceAxis red a (.one (.name d)) = .ok (.inr ra) ∧
      reduceAxis red (transposeBy a p) (.one (.name d)) = .ok (.inr rb) ∧
      rb.axes.Perm ra.axes ∧ rb.attrs = ra.attrs ∧
      (∀ c, fibre (transposeBy a p) ((transposeBy a p).dims.idxOf d) (rb.dims.map c) =
            fibre a (a.dims.idxOf d) (ra.dims.map c)) ∧
      ∀ c, rb.at c = ra.at c := by
  -- positions of `d` in both arrays
  have hpa : a.dims.idxOf d < a.dims.length := List.idxOf_lt_length_of_mem hd
  have hperm := transposeBy_dims_perm a p hp
  have hnb : (transposeBy a p).dims.Nodup := hperm.nodup_iff.mpr hn
  have hdb : d ∈ (transposeBy a p).dims := hperm.mem_iff.mpr hd
  have hpb : (transposeBy a p).dims.idxOf d < (transposeBy a p).dims.length :=
    List.idxOf_lt_length_of_mem hdb
  have hlenb : (transposeBy a p).dims.length = p.length := by
    simp [transposeBy, DimArray.dims]
  have hrankb : (transposeBy a p).ndim ≠ 1 := by
    have : (transposeBy a p).ndim = a.ndim := by
      simp [transposeBy, DimArray.ndim, hp.1]
    rw [this]; exact hrank
  have ea : a.dims[a.dims.idxOf d] = d := List.getElem_idxOf hpa
  have eb : (transposeBy a p).dims[(transposeBy a p).dims.idxOf d] = d := List.getElem_idxOf hpb
  obtain ⟨ra, hra, hra_axes, hra_dims, hra_attrs, _, _, hra_at⟩ :=
    reduce_name_spec red a (a.dims.idxOf d) hpa hn hrank
  obtain ⟨rb, hrb, hrb_axes, hrb_dims, hrb_attrs, _, _, hrb_at⟩ :=
    reduce_name_spec red (transposeBy a p) ((transposeBy a p).dims.idxOf d) hpb hnb hrankb
  rw [ea] at hra hra_at
  rw [eb] at hrb hrb_at
  -- the position of `d` in the transposed array is sent by `p` to its position in `a`
  have hpb' : (transposeBy a p).dims.idxOf d < p.length := hlenb ▸ hpb
  have hpp : p[(transposeBy a p).dims.idxOf d] = a.dims.idxOf d := by
    have h1 := transposeBy_dims_getElem a p hp _ hpb'
    rw [eb] at h1
    exact (List.getElem_inj hn).mp (h1.symm.trans ea.symm)
  have hsize : (transposeBy a p).vals.shape.getD ((transposeBy a p).dims.idxOf d) 0 =
      a.vals.shape.getD (a.dims.idxOf d) 0 := by
    have hgen : ∀ q (hq : q < p.length),
        (transposeBy a p).vals.shape.getD q 0 = a.vals.shape.getD p[q] 0 := by
      intro q hq
      simp only [transposeBy, NDArr.transpose]
      rw [List.getD_eq_getElem?_getD, List.getElem?_map, List.getElem?_eq_getElem hq]
      rfl
    rw [hgen _ hpb', hpp]
  have hfib : ∀ c, fibre (transposeBy a p) ((transposeBy a p).dims.idxOf d) (rb.dims.map c) =
      fibre a (a.dims.idxOf d) (ra.dims.map c) := by
    intro c
    rw [hrb_dims, hra_dims, fibre_at _ _ hpb hnb c, fibre_at a _ hpa hn c, hsize, ea, eb]
    apply List.map_congr_left
    intro k _
    exact transposeBy_at a p hp hs _
  refine ⟨ra, rb, hra, hrb, ?_, ?_, hfib, ?_⟩
  · -- axes: the same set of (distinct) axes
    have haxn : a.axes.Nodup := nodup_of_map_nodup (·.name) (show (a.axes.map (·.name)).Nodup from hn)
    have hbperm := transposeBy_axes_perm a p hp
    have hbxn : (transposeBy a p).axes.Nodup := hbperm.nodup_iff.mpr haxn
    have hpa' : a.dims.idxOf d < a.axes.length := by simpa [DimArray.dims] using hpa
    have hpb'' : (transposeBy a p).dims.idxOf d < (transposeBy a p).axes.length := by
      simpa [DimArray.dims] using hpb
    have hsame : (transposeBy a p).axes[(transposeBy a p).dims.idxOf d] = a.axes[a.dims.idxOf d] := by
      have := transposeBy_axes a p _ hpb'
      rw [this, hpp, List.getD_eq_getElem?_getD, List.getElem?_eq_getElem hpa']; rfl
    rw [hrb_axes, hra_axes]
    rw [List.perm_ext_iff_of_nodup (hbxn.sublist (List.eraseIdx_sublist ..))
      (haxn.sublist (List.eraseIdx_sublist ..))]
    intro x
    rw [mem_eraseIdx_nodup hbxn _ hpb'', mem_eraseIdx_nodup haxn _ hpa', hsame, hbperm.mem_iff]
  · rw [hrb_attrs, hra_attrs]; rfl
  · intro c
    rw [hrb_at, hra_at, hsize]
    congr 1
    apply List.map_congr_left
    intro k _
    exact transposeBy_at a p hp hs _

/-- **a tuple of dimensions, cell level**: with `o = flatten(names, insert=0)` (C11 describes its
cells: position `g` of the leading grouped axis is the `g`-th combination of member positions in
row-major order of the listed names), the reduction over the tuple drops the grouped axis, keeps the
remaining axes of `o` in order and the metadata, and every result cell is the reduction of the cells
`o[0, j], o[1, j], ...` over ALL grouped positions in order; when no dimension remains the result is
a scalar, the reduction of all cells of `o`. -/
theorem reduce_tuple_cells {α : Type} (red : List α → α) (a o : DimArray α) (names : List String)
    (hall : ∀ s ∈ names, a.dims.contains s = true) (hf : flatten a names (some 0) = .ok o) :
    (o.ndim = 1 →
      reduceAxis red a (.many (names.map DimKey.name)) =
        .ok (.inl (red ((List.range (o.vals.shape.getD 0 0)).map fun g => o.vals.get [g])))) ∧
    (o.ndim ≠ 1 → ∃ r, reduceAxis red a (.many (names.map DimKey.name)) = .ok (.inr r) ∧
      r.axes = o.axes.tail ∧ r.attrs = o.attrs ∧ r.vals.shape = o.vals.shape.tail ∧
      ∀ j, r.vals.get j = red ((List.range (o.vals.shape.getD 0 0)).map fun g => o.vals.get (g :: j))) := by
  have hd := dealWithAxis_many a o names hall hf
  constructor
  · intro h1
    unfold reduceAxis
    simp only [hd, bind, Except.bind, h1, beq_self_eq_true, if_true, pure, Except.pure]
    rfl
  · intro h1
    have hr : (o.ndim == 1) = false := by simpa using h1
    refine ⟨{ axes := o.axes.eraseIdx 0,
              vals := { shape := o.vals.shape.eraseIdx 0, get := fun j => red (fibre o 0 j) },
              vkind := o.vkind, attrs := o.attrs }, ?_, ?_, rfl, ?_, fun j => rfl⟩
    · unfold reduceAxis
      simp only [hd, bind, Except.bind, hr, Bool.false_eq_true, if_false, pure, Except.pure]
    · exact List.eraseIdx_zero
    · exact List.eraseIdx_zero

/-! ### the hypotheses are satisfiable: a 2 x 3 example -/

/-- a 2 x 3 array with the cells 0..5 in row-major order -/
def C08.ex23 : DimArray Int :=
  { axes := [{ name := "x", labels := [.num 1, .num 2], kind := .i },
             { name := "y", labels := [.str "a", .str "b", .str "c"], kind := .U }],
    vals := { shape := [2, 3], get := fun j => 3 * (j.getD 0 0 : Int) + j.getD 1 0 } }

def C08.isum (l : List Int) : Int := l.foldl (· + ·) 0

open C08 in
/-- hypotheses of `reduce_name_spec` -/
example : 1 < ex23.dims.length ∧ ex23.dims.Nodup ∧ ex23.ndim ≠ 1 := by decide

open C08 in
/-- hypotheses of `reduce_commute_transpose` -/
example : IsPerm [1, 0] ex23.axes.length ∧ ex23.vals.shape.length = ex23.axes.length ∧ ex23.dims.Nodup ∧
    "y" ∈ ex23.dims ∧ ex23.ndim ≠ 1 := ⟨⟨rfl, by decide, by decide⟩, by decide⟩

open C08 in
/-- ... and the two reductions on this input: the row sums `0+1+2`, `3+4+5`, whichever way the array is stored -/
example :
    (match reduceAxis isum ex23 (.one (.name "y")) with
      | .ok (.inr r) => r.vals.toList | _ => []) = [3, 12] ∧
    (match reduceAxis isum (transposeBy ex23 [1, 0]) (.one (.name "y")) with
      | .ok (.inr r) => r.vals.toList | _ => []) = [3, 12] := by decide

open C08 in
/-- hypotheses of `reduce_rank1_scalar` / `dealWithAxis_neg` / `reduce_neg_eq_name` -/
example : dealWithAxis ex23 (.one (.pos (-1))) = .ok (ex23, some 1) :=
  dealWithAxis_neg ex23 1 (by decide) (by decide)

open C08 in
/-- hypotheses of `reduce_tuple_cells` (all dimensions, listed in reverse order: a scalar) -/
example : (∀ s ∈ ["y", "x"], ex23.dims.contains s = true) ∧
    (match flatten ex23 ["y", "x"] (some 0) with | .ok o => o.ndim | _ => 7) = 1 ∧
    (match reduceAxis isum ex23 (.many [.name "y", .name "x"]) with | .ok (.inl v) => v | _ => 7) = 15 := by
  decide

open C08 in
example : reduceAxis isum ex23 .none = .ok (.inl 15) := (reduce_none_row_major isum ex23).1

end DimModel

import DimModel.Lib.Transform
namespace DimModel
end DimModel

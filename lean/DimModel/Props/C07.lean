/-
C07 - property theorems: reindexing moves data together with its labels.
-/
import DimModel.Spec.C07
import DimModel.Proofs.C01
import DimModel.Proofs.C07
import DimModel.Proofs.C07Like
namespace DimModel
open Lib

/-- entry `k` of `locate_many`, as used by `reindex_axis` (method None ⇒ side left) -/
def rxIndex (L newL : List Label) (k : Nat) : Nat := (locateMany L newL .left).getD k 0

theorem locateMany_length (L vs : List Label) (s : Side) : (locateMany L vs s).length = vs.length := by
  simp [locateMany]

theorem rxIndex_eq (L newL : List Label) (k : Nat) (hk : k < newL.length) :
    rxIndex L newL k = takeClip (argsortBy Label.le L) (searchSide Label.lt .left (sortBy Label.le L) newL[k]) := by
  unfold rxIndex locateMany
  simp [List.getD_eq_getElem?_getD, hk]

/-- a requested label that is on the axis is found at its (unique) position -/
theorem rxIndex_present (L newL : List Label) (hn : L.Nodup) (k : Nat) (hk : k < newL.length)
    (hv : newL[k] ∈ L) :
    rxIndex L newL k = firstIdx L newL[k] ∧ L.getD (rxIndex L newL k) Label.none = newL[k] := by
  rw [rxIndex_eq L newL k hk]
  have hf := locateMany_entry_found L newL[k] hv
  have hlt : takeClip (argsortBy Label.le L) (searchSide Label.lt .left (sortBy Label.le L) newL[k]) < L.length := by
    by_cases h : takeClip (argsortBy Label.le L) (searchSide Label.lt .left (sortBy Label.le L) newL[k]) < L.length
    · exact h
    · simp [List.getElem?_eq_none (Nat.le_of_not_lt h)] at hf
  rw [List.getElem?_eq_getElem hlt] at hf
  have hf' := Option.some.inj hf
  have h2 := firstIdx_getElem (firstIdx_lt_iff.mpr hv)
  refine ⟨(List.getElem_inj hn).mp (hf'.trans h2.symm), ?_⟩
  simp [List.getD_eq_getElem?_getD, List.getElem?_eq_getElem hlt, hf']

/-- a requested label that is not on the axis is flagged by the mismatch mask -/
theorem rxIndex_absent (L newL : List Label) (hL : L ≠ []) (k : Nat) (hk : k < newL.length)
    (hv : newL[k] ∉ L) : L.getD (rxIndex L newL k) Label.none ≠ newL[k] := by
  rw [rxIndex_eq L newL k hk]
  have hlt := takeClip_argsort_lt L hL (searchSide Label.lt .left (sortBy Label.le L) newL[k])
  simp only [List.getD_eq_getElem?_getD, List.getElem?_eq_getElem hlt, Option.getD_some]
  intro heq
  exact hv (heq ▸ List.getElem_mem hlt)

/-- the mismatch mask of `reindex_axis` -/
def rxMask (L newL : List Label) : List Bool := mismatchMask L (locateMany L newL .left) newL

theorem rxMask_getD (L newL : List Label) (k : Nat) (hk : k < newL.length) :
    (rxMask L newL).getD k false = (L.getD (rxIndex L newL k) Label.none != newL[k]) := by
  unfold rxMask rxIndex mismatchMask
  have h1 : k < (locateMany L newL .left).length := by rw [locateMany_length]; exact hk
  have hz : k < ((locateMany L newL .left).zip newL).length := by
    rw [List.length_zip, locateMany_length]; omega
  rw [List.getD_eq_getElem?_getD, List.getD_eq_getElem?_getD (l := locateMany L newL .left)]
  rw [List.getElem?_map, List.getElem?_eq_getElem hz, List.getElem?_eq_getElem h1]
  simp only [Option.map_some, Option.getD_some, List.getElem_zip]

theorem rxMask_iff (L newL : List Label) (hn : L.Nodup) (hL : L ≠ [] ∨ newL = []) (k : Nat)
    (hk : k < newL.length) : (rxMask L newL).getD k false = true ↔ newL[k] ∉ L := by
  rw [rxMask_getD L newL k hk]
  have hL' : L ≠ [] := by
    rcases hL with h | h
    · exact h
    · subst h; simp at hk
  by_cases hv : newL[k] ∈ L
  · have := (rxIndex_present L newL hn k hk hv).2
    rw [this]
    simp [hv]
  · have := bne_iff_ne.mpr (rxIndex_absent L newL hL' k hk hv)
    rw [this]
    simp [hv]

theorem rxMask_any_iff (L newL : List Label) (hn : L.Nodup) (hL : L ≠ [] ∨ newL = []) :
    (rxMask L newL).any id = true ↔ ∃ v ∈ newL, v ∉ L := by
  have hlen : (rxMask L newL).length = newL.length := by
    simp [rxMask, mismatchMask, locateMany_length]
  constructor
  · intro h
    rw [List.any_eq_true] at h
    obtain ⟨b, hb, hbt⟩ := h
    obtain ⟨k, hk, rfl⟩ := List.getElem_of_mem hb
    have hk' : k < newL.length := hlen ▸ hk
    have : (rxMask L newL).getD k false = true := by
      simp [List.getD_eq_getElem?_getD, List.getElem?_eq_getElem hk]; exact hbt
    exact ⟨newL[k], List.getElem_mem hk', (rxMask_iff L newL hn hL k hk').mp this⟩
  · rintro ⟨v, hv, hvL⟩
    obtain ⟨k, hk, rfl⟩ := List.getElem_of_mem hv
    have := (rxMask_iff L newL hn hL k hk).mpr hvL
    rw [List.any_eq_true]
    have hk' : k < (rxMask L newL).length := hlen ▸ hk
    refine ⟨(rxMask L newL)[k], List.getElem_mem hk', ?_⟩
    simpa [List.getD_eq_getElem?_getD, List.getElem?_eq_getElem hk'] using this

/-- **C07 main theorem (values).**  For labels stored in any order (unique), any requested label
sequence (subset, superset, disjoint, permuted, repeated, empty) and any fill value, the slice of
the result at requested position `k` is the original slice at the position of that label when the
label existed and the fill value otherwise. -/
theorem reindex_spec {α : Type} (a : DimArray α) (axis : DimKey) (pos : Nat) (newL : List Label)
    (newKind fillKind : Kind) (fill : α) (r : DimArray α)
    (hpos : axisPos a.axes axis = .ok pos)
    (hn : (a.axes.getD pos default).labels.Nodup)
    (hL : (a.axes.getD pos default).labels ≠ [] ∨ newL = [])
    (hr : reindexAxis a axis newL newKind fill fillKind false none = .ok r)
    (j : List Nat) (hj : j.getD pos 0 < newL.length) :
    r.vals.get j = (Spec.reindexVals a pos newL fill).get j := by
  unfold reindexAxis at hr
  simp only [hpos, bind, Except.bind] at hr
  have hemp : ((a.axes.getD pos default).labels.isEmpty && !newL.isEmpty) = false := by
    rcases hL with h | h
    · cases hl : (a.axes.getD pos default).labels with
      | nil => exact absurd hl h
      | cons _ _ => simp
    · subst h; simp
  simp only [hemp, Bool.false_eq_true, if_false, Option.getD_none, Option.isNone_none, if_true] at hr
  -- name the pieces
  have hmask := rxMask_iff (a.axes.getD pos default).labels newL hn hL (j.getD pos 0) hj
  have hmaskD := rxMask_getD (a.axes.getD pos default).labels newL (j.getD pos 0) hj
  unfold Spec.reindexVals
  simp only
  have hget : newL.getD (j.getD pos 0) Label.none = newL[j.getD pos 0] := by
    rw [List.getD_eq_getElem?_getD, List.getElem?_eq_getElem hj]; rfl
  rw [hget]
  by_cases hany : (rxMask (a.axes.getD pos default).labels newL).any id = true
  · -- some label is missing: fill where masked
    have hany' : (mismatchMask (a.axes.getD pos default).labels
        (locateMany (a.axes.getD pos default).labels newL Side.left) newL).any id = true := hany
    simp only [hany', if_true, pure, Except.pure] at hr
    cases hr
    simp only [NDArr.putWhere, takeAxisPos, NDArr.takeAxis]
    by_cases hv : newL[j.getD pos 0] ∈ (a.axes.getD pos default).labels
    · have hm : (rxMask (a.axes.getD pos default).labels newL).getD (j.getD pos 0) false = false := by
        cases h : (rxMask (a.axes.getD pos default).labels newL).getD (j.getD pos 0) false
        · rfl
        · exact absurd hv (hmask.mp h)
      have hm' : (mismatchMask (a.axes.getD pos default).labels
        (locateMany (a.axes.getD pos default).labels newL Side.left) newL).getD (j.getD pos 0) false = false := hm
      simp only [hm', Bool.false_eq_true, if_false, hv, if_true]
      have := (rxIndex_present (a.axes.getD pos default).labels newL hn (j.getD pos 0) hj hv).1
      unfold rxIndex at this
      rw [this]
    · have hm := hmask.mpr hv
      have hm' : (mismatchMask (a.axes.getD pos default).labels
        (locateMany (a.axes.getD pos default).labels newL Side.left) newL).getD (j.getD pos 0) false = true := hm
      simp only [hm', if_true, hv, if_false]
  · -- every requested label exists
    have hany' : ¬ ((mismatchMask (a.axes.getD pos default).labels
        (locateMany (a.axes.getD pos default).labels newL Side.left) newL).any id = true) := hany
    simp only [hany', if_false, pure, Except.pure] at hr
    cases hr
    have hv : newL[j.getD pos 0] ∈ (a.axes.getD pos default).labels := by
      by_cases hv : newL[j.getD pos 0] ∈ (a.axes.getD pos default).labels
      · exact hv
      · exfalso
        apply hany
        exact (rxMask_any_iff _ newL hn hL).mpr ⟨_, List.getElem_mem hj, hv⟩
    simp only [takeAxisPos, NDArr.takeAxis, hv, if_true]
    have := (rxIndex_present (a.axes.getD pos default).labels newL hn (j.getD pos 0) hj hv).1
    unfold rxIndex at this
    rw [this]

/-- `raise_error=True` raises `IndexError` exactly when some requested label is absent. -/
theorem reindex_raise_iff {α : Type} (a : DimArray α) (axis : DimKey) (pos : Nat) (newL : List Label)
    (newKind fillKind : Kind) (fill : α) (method : Option Side)
    (hpos : axisPos a.axes axis = .ok pos)
    (hn : (a.axes.getD pos default).labels.Nodup)
    (hL : (a.axes.getD pos default).labels ≠ []) (hm : method = none) :
    reindexAxis a axis newL newKind fill fillKind true method = .error .index ↔
      ∃ v ∈ newL, v ∉ (a.axes.getD pos default).labels := by
  subst hm
  unfold reindexAxis
  simp only [hpos, bind, Except.bind]
  have hemp : ((a.axes.getD pos default).labels.isEmpty && !newL.isEmpty) = false := by
    cases hl : (a.axes.getD pos default).labels with
    | nil => exact absurd hl hL
    | cons _ _ => simp
  simp only [hemp, Bool.false_eq_true, if_false, Option.getD_none]
  rw [← rxMask_any_iff _ newL hn (Or.inl hL)]
  by_cases h : (rxMask (a.axes.getD pos default).labels newL).any id = true
  · have h' : (mismatchMask (a.axes.getD pos default).labels
        (locateMany (a.axes.getD pos default).labels newL Side.left) newL).any id = true := h
    simp only [h', if_true]
    exact ⟨fun _ => h, fun _ => trivial⟩
  · have h' : ¬ ((mismatchMask (a.axes.getD pos default).labels
        (locateMany (a.axes.getD pos default).labels newL Side.left) newL).any id = true) := h
    simp only [h', if_false]
    constructor
    · intro hh; cases hh
    · intro hh; exact absurd hh h

theorem getD_mapIdx_self {β : Type} [Inhabited β] (l : List β) (pos : Nat) (hlt : pos < l.length) (x : β) :
    (l.mapIdx (fun i y => if i == pos then x else y)).getD pos default = x := by
  simp [List.getD_eq_getElem?_getD, List.getElem?_mapIdx, List.getElem?_eq_getElem hlt]

theorem getD_mapIdx_fun {β : Type} [Inhabited β] (l : List β) (pos : Nat) (hlt : pos < l.length) (g : β → β) :
    (l.mapIdx (fun i y => if i == pos then g y else y)).getD pos default = g (l.getD pos default) := by
  simp [List.getD_eq_getElem?_getD, List.getElem?_mapIdx, List.getElem?_eq_getElem hlt]

/-- the reindexed axis carries exactly the requested labels (same order, repeats included) -/
theorem reindex_labels {α : Type} (a : DimArray α) (axis : DimKey) (pos : Nat) (newL : List Label)
    (newKind fillKind : Kind) (fill : α) (r : DimArray α)
    (hpos : axisPos a.axes axis = .ok pos) (hlt : pos < a.axes.length)
    (hn : (a.axes.getD pos default).labels.Nodup)
    (hL : (a.axes.getD pos default).labels ≠ [] ∨ newL = [])
    (hr : reindexAxis a axis newL newKind fill fillKind false none = .ok r) :
    (r.axes.getD pos default).labels = newL := by
  unfold reindexAxis at hr
  simp only [hpos, bind, Except.bind] at hr
  generalize hA : a.axes.getD pos default = ax at hr hn hL
  have hemp : (ax.labels.isEmpty && !newL.isEmpty) = false := by
    rcases hL with h | h
    · cases hl : ax.labels with
      | nil => exact absurd hl h
      | cons _ _ => simp
    · subst h; simp
  simp only [hemp, Bool.false_eq_true, if_false, Option.getD_none, Option.isNone_none, if_true] at hr
  have hlen : (locateMany ax.labels newL Side.left).length = newL.length := locateMany_length _ _ _
  by_cases hany : (rxMask ax.labels newL).any id = true
  · have hany' : (mismatchMask ax.labels (locateMany ax.labels newL Side.left) newL).any id = true := hany
    simp only [hany', if_true, pure, Except.pure] at hr
    cases hr
    rw [getD_mapIdx_self a.axes pos hlt]
    apply List.ext_getElem
    · simp
    · intro k h1 h2
      simp only [List.getElem_map, List.getElem_zipIdx, Nat.zero_add]
      split
      · rfl
      · rename_i hm
        have hmk : (rxMask ax.labels newL).getD k false = false := by
          cases h : (rxMask ax.labels newL).getD k false
          · rfl
          · exact absurd h hm
        have hv : newL[k] ∈ ax.labels := by
          by_cases hv : newL[k] ∈ ax.labels
          · exact hv
          · have := (rxMask_iff _ newL hn hL k h2).mpr hv
            rw [hmk] at this; cases this
        exact (rxIndex_present ax.labels newL hn k h2 hv).2
  · have hany' : ¬ ((mismatchMask ax.labels (locateMany ax.labels newL Side.left) newL).any id = true) := hany
    simp only [hany', if_false, pure, Except.pure] at hr
    cases hr
    simp only [takeAxisPos]
    rw [getD_mapIdx_fun a.axes pos hlt, hA]
    simp only [axisTake]
    apply List.ext_getElem
    · simp [hlen]
    · intro k h1 h2
      have hv : newL[k] ∈ ax.labels := by
        by_cases hv : newL[k] ∈ ax.labels
        · exact hv
        · exfalso
          apply hany
          exact (rxMask_any_iff _ newL hn hL).mpr ⟨_, List.getElem_mem h2, hv⟩
      have := (rxIndex_present ax.labels newL hn k h2 hv).2
      have hk' : k < (locateMany ax.labels newL Side.left).length := hlen ▸ h2
      simp only [List.getElem_map]
      have e : rxIndex ax.labels newL k = (locateMany ax.labels newL Side.left)[k] := by
        simp [rxIndex, List.getD_eq_getElem?_getD, hk']
      rw [← e]; exact this

/-- all other axes are untouched -/
theorem reindex_other_axes {α : Type} (a : DimArray α) (axis : DimKey) (pos : Nat) (newL : List Label)
    (newKind fillKind : Kind) (fill : α) (raiseErr : Bool) (method : Option Side) (r : DimArray α)
    (hpos : axisPos a.axes axis = .ok pos)
    (hr : reindexAxis a axis newL newKind fill fillKind raiseErr method = .ok r)
    (i : Nat) (hi : i ≠ pos) : r.axes[i]? = a.axes[i]? := by
  unfold reindexAxis at hr
  simp only [hpos, bind, Except.bind] at hr
  split at hr
  · cases hr
  · split at hr
    · split at hr
      · cases hr
      · simp only [pure, Except.pure] at hr
        cases hr
        simp only [List.getElem?_mapIdx]
        cases h : a.axes[i]? with
        | none => rfl
        | some x => simp [hi]
    · simp only [pure, Except.pure] at hr
      cases hr
      simp only [takeAxisPos, List.getElem?_mapIdx]
      cases h : a.axes[i]? with
      | none => rfl
      | some x => simp [hi]

/-- reindexing keeps the array's metadata and the metadata of the reindexed axis -/
theorem reindex_attrs {α : Type} (a : DimArray α) (axis : DimKey) (newL : List Label)
    (newKind fillKind : Kind) (fill : α) (raiseErr : Bool) (method : Option Side) (r : DimArray α)
    (hr : reindexAxis a axis newL newKind fill fillKind raiseErr method = .ok r) : r.attrs = a.attrs := by
  unfold reindexAxis at hr
  simp only [bind, Except.bind] at hr
  split at hr
  · cases hr
  · split at hr
    · cases hr
    · split at hr
      · split at hr
        · cases hr
        · simp only [pure, Except.pure] at hr; cases hr; rfl
      · simp only [pure, Except.pure] at hr; cases hr; rfl

/-- reindexing an axis onto its own labels is the identity on the values -/
theorem reindex_self_id {α : Type} (a : DimArray α) (axis : DimKey) (pos : Nat)
    (newKind fillKind : Kind) (fill : α) (r : DimArray α)
    (hpos : axisPos a.axes axis = .ok pos)
    (hn : (a.axes.getD pos default).labels.Nodup)
    (hr : reindexAxis a axis (a.axes.getD pos default).labels newKind fill fillKind false none = .ok r)
    (j : List Nat) (hjp : pos < j.length) (hj : j.getD pos 0 < (a.axes.getD pos default).labels.length) :
    r.vals.get j = a.vals.get j := by
  have hL : (a.axes.getD pos default).labels ≠ [] ∨ (a.axes.getD pos default).labels = [] := by
    cases h : (a.axes.getD pos default).labels with
    | nil => exact Or.inr rfl
    | cons _ _ => exact Or.inl (by simp)
  rw [reindex_spec a axis pos _ newKind fillKind fill r hpos hn hL hr j hj]
  unfold Spec.reindexVals
  simp only
  have hget : (a.axes.getD pos default).labels.getD (j.getD pos 0) Label.none
      = (a.axes.getD pos default).labels[j.getD pos 0] := by
    rw [List.getD_eq_getElem?_getD, List.getElem?_eq_getElem hj]; rfl
  rw [hget]
  have hmem : (a.axes.getD pos default).labels[j.getD pos 0] ∈ (a.axes.getD pos default).labels :=
    List.getElem_mem hj
  simp only [hmem, if_true]
  rw [firstIdx_unique hn hj]
  congr 1
  have : j.getD pos 0 = j[pos] := by
    rw [List.getD_eq_getElem?_getD, List.getElem?_eq_getElem hjp]; rfl
  rw [this, List.set_getElem_self]

/-- non-vacuity: a shuffled axis, a request with a repeat and an absent label -/
example :
    let L : List Label := [.num 3, .num 1, .num 2]
    L.Nodup ∧ L ≠ [] ∧
    (rxMask L [.num 2, .num 9, .num 2]).any id = true := by
  refine ⟨by decide, by decide, ?_⟩
  rw [rxMask_any_iff _ _ (by decide) (Or.inl (by decide))]
  exact ⟨.num 9, by decide, by decide⟩

/-! ## `method='left'` / `method='right'`  (the only methods `reindex_axis` accepts besides `None`)

`Spec.IsNeighbour side L v w` (see `DimModel/Spec/C07.lean`) says: `w` is the LEAST label of the axis with
`v ≤ w` (left) resp. `v < w` (right), and the GREATEST label of the axis when no label qualifies.
So both methods look FORWARD in sorted order (next label at or after / strictly after the requested value),
clipped to the last label beyond the range; they differ only when the requested value is itself a label. -/

/-- the neighbour exists on a non-empty axis -/
theorem neighbour_exists (s : Side) (L : List Label) (v : Label) (hL : L ≠ []) : ∃ w, Spec.IsNeighbour s L v w := by
  obtain ⟨_, hn⟩ := locateMany_neighbour L [v] s hL 0 (by simp)
  exact ⟨_, hn⟩

/-- ... and is unique -/
theorem neighbour_unique {s : Side} {L : List Label} {v w w' : Label}
    (h : Spec.IsNeighbour s L v w) (h' : Spec.IsNeighbour s L v w') : w = w' := h.unique h'

/-- **C07, `method=side` (values).**  For an axis stored in ANY order (unique labels), any requested labels
(present or absent, inside or outside the range) and any `raise_error`/`fill_value` (no fill is ever written when a
method is given), the slice of the result at requested position `k` is the original slice at the neighbour label
of the `k`-th requested value. -/
theorem reindex_method_spec {α : Type} (a : DimArray α) (axis : DimKey) (pos : Nat) (newL : List Label)
    (newKind fillKind : Kind) (fill : α) (raiseErr : Bool) (s : Side) (r : DimArray α)
    (hpos : axisPos a.axes axis = .ok pos)
    (hn : (a.axes.getD pos default).labels.Nodup)
    (hr : reindexAxis a axis newL newKind fill fillKind raiseErr (some s) = .ok r)
    (j : List Nat) (hj : j.getD pos 0 < newL.length)
    (w : Label) (hw : Spec.IsNeighbour s (a.axes.getD pos default).labels newL[j.getD pos 0] w) :
    r.vals.get j = a.vals.get (j.set pos (firstIdx (a.axes.getD pos default).labels w)) := by
  rw [reindexAxis_vals_raw a axis pos newL newKind fillKind fill raiseErr (some s) r hpos hr]
  simp only [rxStep, Option.isNone_some, Bool.false_and, Bool.false_eq_true, if_false, Option.getD_some]
  have hL : (a.axes.getD pos default).labels ≠ [] := List.ne_nil_of_mem hw.1
  obtain ⟨hlt, hnb⟩ := locateMany_neighbour (a.axes.getD pos default).labels newL s hL _ hj
  rw [← hnb.unique hw, firstIdx_unique hn hlt]

/-- `method=side` on an axis that is stored in increasing order: exactly `numpy.searchsorted(labels, v, side)`
clipped to the last position. -/
theorem reindex_method_sorted {α : Type} (a : DimArray α) (axis : DimKey) (pos : Nat) (newL : List Label)
    (newKind fillKind : Kind) (fill : α) (raiseErr : Bool) (s : Side) (r : DimArray α)
    (hpos : axisPos a.axes axis = .ok pos)
    (hs : (a.axes.getD pos default).labels.Pairwise (fun x y => Label.le x y = true))
    (hr : reindexAxis a axis newL newKind fill fillKind raiseErr (some s) = .ok r)
    (j : List Nat) (hj : j.getD pos 0 < newL.length) :
    r.vals.get j = a.vals.get (j.set pos
      (min (searchSide Label.lt s (a.axes.getD pos default).labels newL[j.getD pos 0])
           ((a.axes.getD pos default).labels.length - 1))) := by
  rw [reindexAxis_vals_raw a axis pos newL newKind fillKind fill raiseErr (some s) r hpos hr]
  simp only [rxStep, Option.isNone_some, Bool.false_and, Bool.false_eq_true, if_false, Option.getD_some]
  rw [locateMany_sorted _ newL s hs]
  rw [List.getD_eq_getElem?_getD, List.getElem?_map, List.getElem?_eq_getElem hj]
  rfl

/-- with a method the data kind is never widened and the metadata is kept; the labels are the requested ones -/
theorem reindex_method_meta {α : Type} (a : DimArray α) (axis : DimKey) (pos : Nat) (newL : List Label)
    (newKind fillKind : Kind) (fill : α) (raiseErr : Bool) (s : Side) (r : DimArray α)
    (hpos : axisPos a.axes axis = .ok pos)
    (hr : reindexAxis a axis newL newKind fill fillKind raiseErr (some s) = .ok r) :
    r.vkind = a.vkind ∧ r.attrs = a.attrs ∧ (r.axes.getD pos default).labels = newL ∧
    (r.axes.getD pos default).name = (a.axes.getD pos default).name ∧
    r.vals.shape = a.vals.shape.set pos newL.length := by
  obtain ⟨nax, hax, hname, hlab, _, _, _, hvk, hat⟩ :=
    reindexAxis_axes_raw a axis pos newL newKind fillKind fill raiseErr (some s) r hpos hr
  have hlt := axisPos_lt hpos
  have hg : r.axes.getD pos default = nax := by
    rw [hax]; simp [List.getD_eq_getElem?_getD, hlt]
  refine ⟨by simpa using hvk, hat, by rw [hg, hlab], by rw [hg, hname], ?_⟩
  rw [reindexAxis_vals_raw a axis pos newL newKind fillKind fill raiseErr (some s) r hpos hr]
  rfl

/-- `method='left'`: a requested label that exists gets its own slice -/
theorem neighbour_left_present (L : List Label) (v : Label) (hv : v ∈ L) : Spec.IsNeighbour .left L v v :=
  ⟨hv, Or.inl ⟨Label.le_refl v, fun _ _ hx => hx⟩⟩

/-- `method='right'`: a requested label that exists and is not the largest gets the slice of a strictly LARGER
label (the next one), NOT its own -/
theorem neighbour_right_present_next (L : List Label) (v w : Label) (hw : Spec.IsNeighbour .right L v w)
    (hex : ∃ x ∈ L, Label.lt v x = true) : Label.lt v w = true := by
  obtain ⟨_, h | h⟩ := hw
  · exact h.1
  · obtain ⟨x, hx, hlt⟩ := hex
    have := h.1 x hx
    simp only [Spec.sideCond] at this
    rw [hlt] at this; cases this

/-- `method='right'`: only the largest label of the axis gets its own slice -/
theorem neighbour_right_present_last (L : List Label) (v w : Label) (hw : Spec.IsNeighbour .right L v w)
    (hv : v ∈ L) (hmax : ∀ x ∈ L, Label.le x v = true) : w = v := by
  obtain ⟨hwL, h | h⟩ := hw
  · have h1 := h.1
    simp only [Spec.sideCond, Label.lt] at h1
    rw [hmax w hwL] at h1; cases h1
  · exact Label.le_antisymm _ _ (hmax w hwL) (h.2 v hv)

theorem IsNeighbour_congr {s s' : Side} {L : List Label} {v w : Label}
    (hc : ∀ x ∈ L, Spec.sideCond s v x = Spec.sideCond s' v x) (h : Spec.IsNeighbour s L v w) :
    Spec.IsNeighbour s' L v w := by
  obtain ⟨hw, h | h⟩ := h
  · exact ⟨hw, Or.inl ⟨by rw [← hc w hw]; exact h.1, fun x hx hcx => h.2 x hx (by rw [hc x hx]; exact hcx)⟩⟩
  · exact ⟨hw, Or.inr ⟨fun x hx => by rw [← hc x hx]; exact h.1 x hx, h.2⟩⟩

/-- tie rule: for a requested value that is NOT a label, `left` and `right` agree -/
theorem neighbour_absent_side_irrelevant (L : List Label) (v w : Label) (hv : v ∉ L) :
    Spec.IsNeighbour .left L v w ↔ Spec.IsNeighbour .right L v w := by
  have hc : ∀ x ∈ L, Spec.sideCond .left v x = Spec.sideCond .right v x := by
    intro x hx
    simp only [Spec.sideCond, Label.lt]
    cases h1 : Label.le v x <;> cases h2 : Label.le x v <;> simp
    · have := Label.le_total v x; simp [h1, h2] at this
    · exact hv (Label.le_antisymm v x h1 h2 ▸ hx)
  exact ⟨IsNeighbour_congr hc, IsNeighbour_congr (fun x hx => (hc x hx).symm)⟩

/-- below the range: the neighbour is the smallest label -/
theorem neighbour_below (s : Side) (L : List Label) (v w : Label) (hw : Spec.IsNeighbour s L v w)
    (hlo : ∀ x ∈ L, Label.lt v x = true) : ∀ x ∈ L, Label.le w x = true := by
  have hc : ∀ x ∈ L, Spec.sideCond s v x = true := by
    intro x hx
    cases s
    · exact Label.le_of_lt (hlo x hx)
    · exact hlo x hx
  obtain ⟨hwL, h | h⟩ := hw
  · exact fun x hx => h.2 x hx (hc x hx)
  · have := h.1 w hwL; rw [hc w hwL] at this; cases this

/-- beyond the range: the neighbour is the largest label (`take(mode='clip')`) -/
theorem neighbour_beyond (s : Side) (L : List Label) (v w : Label) (hw : Spec.IsNeighbour s L v w)
    (hhi : ∀ x ∈ L, Label.lt x v = true) : ∀ x ∈ L, Label.le x w = true := by
  have hc : ∀ x ∈ L, Spec.sideCond s v x = false := by
    intro x hx
    have h1 := hhi x hx
    cases s
    · simpa [Spec.sideCond, Label.lt] using h1
    · simp only [Spec.sideCond]; exact Label.not_lt_of_le (Label.le_of_lt h1)
  obtain ⟨hwL, h | h⟩ := hw
  · have := h.1; rw [hc w hwL] at this; cases this
  · exact h.2

/-- the statement "a present label keeps its own slice" is FALSE for `method='right'`: on the axis `1,2,3`
the requested label `2` is served from label `3` -/
theorem reindex_right_present_counterexample :
    Spec.IsNeighbour .right [.num 1, .num 2, .num 3] (.num 2) (.num 3) ∧
    ¬ Spec.IsNeighbour .right [.num 1, .num 2, .num 3] (.num 2) (.num 2) := by
  have h : Spec.IsNeighbour .right [.num 1, .num 2, .num 3] (.num 2) (.num 3) := by
    refine ⟨by decide, Or.inl ⟨by decide, ?_⟩⟩
    intro x hx hc
    simp only [List.mem_cons, List.not_mem_nil, or_false] at hx
    rcases hx with rfl | rfl | rfl
    · revert hc; decide
    · revert hc; decide
    · decide
  exact ⟨h, fun h' => absurd (h'.unique h) (by decide)⟩

/-! ## kind widening (`put(..., cast=True)` / `_maybe_cast_type`) -/

/-- **C07 kinds.**  Without method, the data kind is widened by `_maybe_cast_type(data, fill_value)` EXACTLY when a
fill is written, i.e. when some requested label is absent; otherwise it is unchanged.  The same holds for the
kind of the axis labels w.r.t. the kind of the requested labels. -/
theorem reindex_kind {α : Type} (a : DimArray α) (axis : DimKey) (pos : Nat) (newL : List Label)
    (newKind fillKind : Kind) (fill : α) (r : DimArray α)
    (hpos : axisPos a.axes axis = .ok pos)
    (hn : (a.axes.getD pos default).labels.Nodup)
    (hr : reindexAxis a axis newL newKind fill fillKind false none = .ok r) :
    ((∃ v ∈ newL, v ∉ (a.axes.getD pos default).labels) →
        r.vkind = maybeCastKind a.vkind fillKind ∧
        (r.axes.getD pos default).kind = maybeCastKind (a.axes.getD pos default).kind newKind) ∧
    ((∀ v ∈ newL, v ∈ (a.axes.getD pos default).labels) →
        r.vkind = a.vkind ∧ (r.axes.getD pos default).kind = (a.axes.getD pos default).kind) := by
  obtain ⟨nax, hax, _, _, _, _, hk, hvk, _⟩ :=
    reindexAxis_axes_raw a axis pos newL newKind fillKind fill false none r hpos hr
  have hL := reindexAxis_nonempty a axis pos newL newKind fillKind fill false none r hpos hr
  have hlt := axisPos_lt hpos
  have hg : r.axes.getD pos default = nax := by
    rw [hax]; simp [List.getD_eq_getElem?_getD, hlt]
  have hiff := rxMask_any_iff (a.axes.getD pos default).labels newL hn hL
  unfold rxMask at hiff
  simp only [Option.getD_none, Option.isNone_none, Bool.true_and] at hk hvk
  rw [hg]
  constructor
  · intro hex
    have := hiff.mpr hex
    rw [hvk, hk, if_pos this, if_pos this]; exact ⟨rfl, rfl⟩
  · intro hall
    have : ¬ ((mismatchMask (a.axes.getD pos default).labels
        (locateMany (a.axes.getD pos default).labels newL .left) newL).any id = true) := by
      intro h
      obtain ⟨v, hv, hvL⟩ := hiff.mp h
      exact hvL (hall v hv)
    rw [hvk, hk, if_neg this, if_neg this]; exact ⟨rfl, rfl⟩

/-- the default `fill_value=nan` promotes integer data to float and leaves float data alone -/
example : maybeCastKind .i .f = .f ∧ maybeCastKind .f .f = .f ∧ maybeCastKind .f .i = .f := ⟨rfl, rfl, rfl⟩

/-! ## composition -/

/-- **C07 composition.**  Reindexing onto `newL` and then onto labels `sub` all taken from `newL` gives the same
values as reindexing directly onto `sub` (axis labels and `newL` duplicate-free; `sub` may repeat / permute). -/
theorem reindex_reindex_sub {α : Type} (a : DimArray α) (axis : DimKey) (pos : Nat) (newL sub : List Label)
    (k1 k2 k3 fillKind : Kind) (fill : α) (r1 r2 rd : DimArray α)
    (hpos : axisPos a.axes axis = .ok pos)
    (hn : (a.axes.getD pos default).labels.Nodup) (hn2 : newL.Nodup)
    (hsub : ∀ v ∈ sub, v ∈ newL)
    (h1 : reindexAxis a axis newL k1 fill fillKind false none = .ok r1)
    (h2 : reindexAxis r1 axis sub k2 fill fillKind false none = .ok r2)
    (hd : reindexAxis a axis sub k3 fill fillKind false none = .ok rd)
    (j : List Nat) (hjp : pos < j.length) (hj : j.getD pos 0 < sub.length) :
    r2.vals.get j = rd.vals.get j := by
  have hnames := reindexAxis_names a axis pos newL k1 fillKind fill false none r1 hpos h1
  have hpos1 : axisPos r1.axes axis = .ok pos := by rw [axisPos_congr hnames]; exact hpos
  have hlab1 := (reindexAxis_getD_pos a axis pos newL k1 fillKind fill false none r1 hpos h1).1
  have hL1 := reindexAxis_nonempty r1 axis pos sub k2 fillKind fill false none r2 hpos1 h2
  have hL0 := reindexAxis_nonempty a axis pos newL k1 fillKind fill false none r1 hpos h1
  have hLd := reindexAxis_nonempty a axis pos sub k3 fillKind fill false none rd hpos hd
  rw [reindex_spec r1 axis pos sub k2 fillKind fill r2 hpos1 (by rw [hlab1]; exact hn2) hL1 h2 j hj,
      reindex_spec a axis pos sub k3 fillKind fill rd hpos hn hLd hd j hj]
  unfold Spec.reindexVals
  simp only [hlab1]
  have hget : sub.getD (j.getD pos 0) Label.none = sub[j.getD pos 0] := by
    rw [List.getD_eq_getElem?_getD, List.getElem?_eq_getElem hj]; rfl
  rw [hget]
  have hv : sub[j.getD pos 0] ∈ newL := hsub _ (List.getElem_mem hj)
  simp only [hv, if_true]
  have hq := firstIdx_lt_iff.mpr hv
  have hjq : (j.set pos (firstIdx newL sub[j.getD pos 0])).getD pos 0 = firstIdx newL sub[j.getD pos 0] := by
    simp [List.getD_eq_getElem?_getD, hjp]
  rw [reindex_spec a axis pos newL k1 fillKind fill r1 hpos hn hL0 h1 _ (by rw [hjq]; exact hq)]
  unfold Spec.reindexVals
  simp only [hjq]
  have hget2 : newL.getD (firstIdx newL sub[j.getD pos 0]) Label.none = sub[j.getD pos 0] := by
    rw [List.getD_eq_getElem?_getD, List.getElem?_eq_getElem hq]
    exact firstIdx_getElem hq
  rw [hget2, List.set_set]

/-! ## `reindex_like` -/

open Spec (tmplFor)

/-- **C07 `reindex_like` (axes).**  Same dimensions in the same order; every axis whose name occurs in the template
carries exactly the template's labels (own metadata kept), every other axis is untouched; array metadata kept.
Any method, any `raise_error`. -/
theorem reindex_like_axes {α : Type} (a : DimArray α) (tmpl : List Axis) (fill : α) (fillKind : Kind)
    (raiseErr : Bool) (method : Option Side) (r : DimArray α)
    (hnames : (a.axes.map (·.name)).Nodup)
    (hr : reindexLike a tmpl fill fillKind raiseErr method = .ok r) :
    r.axes.map (·.name) = a.axes.map (·.name) ∧ r.attrs = a.attrs ∧
    ∀ i, i < a.axes.length →
      match tmplFor a.axes tmpl i with
      | some t => (r.axes.getD i default).labels = t.labels ∧
                  (r.axes.getD i default).attrs = (a.axes.getD i default).attrs
      | none => r.axes[i]? = a.axes[i]? := by
  obtain ⟨hnm, _, hlt, _, _, hat⟩ := reindexLike_inv a tmpl fill fillKind raiseErr method hnames r hr
  refine ⟨hnm, hat, fun i hi => ?_⟩
  have := hlt i hi
  cases h : tmplFor a.axes tmpl i with
  | none => rw [h] at this; exact this
  | some t => rw [h] at this; exact ⟨this.1, this.2.1⟩

/-- **C07 `reindex_like` (values), end to end.**  For an array with distinct dimension names and duplicate-free
labels on the shared axes, any template (axes in any order, extra axes, missing axes), any fill value:
an in-range cell of the result holds the fill value as soon as, along SOME shared axis, the template label at
that coordinate is absent from the array's axis; otherwise it holds the original cell found by replacing, along
EVERY shared axis, the coordinate by the position of the template label (`Spec.reindexLikeIdx`), the coordinates
along non-shared axes being unchanged. -/
theorem reindex_like_spec {α : Type} (a : DimArray α) (tmpl : List Axis) (fill : α) (fillKind : Kind)
    (r : DimArray α)
    (hnames : (a.axes.map (·.name)).Nodup)
    (hn : ∀ i t, i < a.axes.length → tmplFor a.axes tmpl i = some t → (a.axes.getD i default).labels.Nodup)
    (hr : reindexLike a tmpl fill fillKind false none = .ok r)
    (j : List Nat) (hjl : j.length = a.axes.length)
    (hj : ∀ i t, i < a.axes.length → tmplFor a.axes tmpl i = some t → j.getD i 0 < t.labels.length) :
    ((∀ i t, i < a.axes.length → tmplFor a.axes tmpl i = some t →
        t.labels.getD (j.getD i 0) Label.none ∈ (a.axes.getD i default).labels) →
      r.vals.get j = a.vals.get (Spec.reindexLikeIdx a.axes tmpl j)) ∧
    ((∃ i t, i < a.axes.length ∧ tmplFor a.axes tmpl i = some t ∧
        t.labels.getD (j.getD i 0) Label.none ∉ (a.axes.getD i default).labels) →
      r.vals.get j = fill) := by
  obtain ⟨_, _, hlt, hval, _, _⟩ := reindexLike_inv a tmpl fill fillKind false none hnames r hr
  -- the raw miss flag, axis by axis
  have hmiss1 : ∀ i t, i < a.axes.length → tmplFor a.axes tmpl i = some t →
      (rlMiss1 a.axes tmpl none i (j.getD i 0) = true ↔
        t.labels.getD (j.getD i 0) Label.none ∉ (a.axes.getD i default).labels) := by
    intro i t hi ht
    have hL := hlt i hi
    rw [ht] at hL
    have hx := hj i t hi ht
    have := rxMask_iff (a.axes.getD i default).labels t.labels (hn i t hi ht) hL.2.2 (j.getD i 0) hx
    have hget : t.labels.getD (j.getD i 0) Label.none = t.labels[j.getD i 0] := by
      rw [List.getD_eq_getElem?_getD, List.getElem?_eq_getElem hx]; rfl
    rw [hget, ← this]
    simp only [rlMiss1, ht, Option.isNone_none, Bool.true_and, Option.getD_none, rxMask]
  constructor
  · intro hall
    have hm : rlMiss a.axes tmpl none a.axes.length j = false := by
      cases hc : rlMiss a.axes tmpl none a.axes.length j with
      | false => rfl
      | true =>
        exfalso
        simp only [rlMiss, List.any_eq_true, List.mem_range] at hc
        obtain ⟨i, hi, h⟩ := hc
        cases ht : tmplFor a.axes tmpl i with
        | none => simp [rlMiss1, ht] at h
        | some t => exact (hmiss1 i t hi ht).mp h (hall i t hi ht)
    rw [hval j, hm]
    simp only [Bool.false_eq_true, if_false]
    congr 1
    unfold rlIdx Spec.reindexLikeIdx
    apply List.ext_getElem?
    intro i
    rw [List.getElem?_mapIdx, List.getElem?_mapIdx]
    by_cases hi : i < j.length
    · rw [List.getElem?_eq_getElem hi]
      simp only [Option.map_some]
      have hi' : i < a.axes.length := hjl ▸ hi
      simp only [hi', if_true]
      congr 1
      unfold rlIdx1
      cases ht : tmplFor a.axes tmpl i with
      | none => rfl
      | some t =>
        simp only [Option.getD_none]
        have hji : j.getD i 0 = j[i] := by
          rw [List.getD_eq_getElem?_getD, List.getElem?_eq_getElem hi]; rfl
        have hx := hj i t hi' ht
        have hp := hall i t hi' ht
        rw [hji] at hx hp
        have hget : t.labels.getD j[i] Label.none = t.labels[j[i]] := by
          rw [List.getD_eq_getElem?_getD, List.getElem?_eq_getElem hx]; rfl
        rw [hget] at hp ⊢
        exact (rxIndex_present (a.axes.getD i default).labels t.labels (hn i t hi' ht) j[i] hx hp).1
    · rw [List.getElem?_eq_none (Nat.le_of_not_lt hi)]; rfl
  · rintro ⟨i, t, hi, ht, habs⟩
    have hm : rlMiss a.axes tmpl none a.axes.length j = true := by
      simp only [rlMiss, List.any_eq_true, List.mem_range]
      exact ⟨i, hi, (hmiss1 i t hi ht).mpr habs⟩
    rw [hval j, hm]
    simp

/-- **C07 `reindex_like` with `method=side` (values).**  No fill is written; along every shared axis the coordinate
is replaced by the position of the neighbour label (`w i`) of the template label. -/
theorem reindex_like_method_spec {α : Type} (a : DimArray α) (tmpl : List Axis) (fill : α) (fillKind : Kind)
    (raiseErr : Bool) (s : Side) (r : DimArray α)
    (hnames : (a.axes.map (·.name)).Nodup)
    (hn : ∀ i t, i < a.axes.length → tmplFor a.axes tmpl i = some t → (a.axes.getD i default).labels.Nodup)
    (hr : reindexLike a tmpl fill fillKind raiseErr (some s) = .ok r)
    (j : List Nat) (hjl : j.length = a.axes.length)
    (hj : ∀ i t, i < a.axes.length → tmplFor a.axes tmpl i = some t → j.getD i 0 < t.labels.length)
    (w : Nat → Label)
    (hw : ∀ i t, i < a.axes.length → tmplFor a.axes tmpl i = some t →
      Spec.IsNeighbour s (a.axes.getD i default).labels (t.labels.getD (j.getD i 0) Label.none) (w i)) :
    r.vals.get j = a.vals.get (j.mapIdx fun i x =>
      match tmplFor a.axes tmpl i with
      | some _ => firstIdx (a.axes.getD i default).labels (w i)
      | none => x) := by
  obtain ⟨_, _, _, hval, _, _⟩ := reindexLike_inv a tmpl fill fillKind raiseErr (some s) hnames r hr
  have hm : rlMiss a.axes tmpl (some s) a.axes.length j = false := by
    cases hc : rlMiss a.axes tmpl (some s) a.axes.length j with
    | false => rfl
    | true =>
      exfalso
      simp only [rlMiss, List.any_eq_true, List.mem_range] at hc
      obtain ⟨i, _, h⟩ := hc
      cases ht : tmplFor a.axes tmpl i <;> simp [rlMiss1, ht] at h
  rw [hval j, hm]
  simp only [Bool.false_eq_true, if_false]
  congr 1
  unfold rlIdx
  apply List.ext_getElem?
  intro i
  rw [List.getElem?_mapIdx, List.getElem?_mapIdx]
  by_cases hi : i < j.length
  · rw [List.getElem?_eq_getElem hi]
    simp only [Option.map_some]
    have hi' : i < a.axes.length := hjl ▸ hi
    simp only [hi', if_true]
    congr 1
    unfold rlIdx1
    cases ht : tmplFor a.axes tmpl i with
    | none => rfl
    | some t =>
      simp only [Option.getD_some]
      have hji : j.getD i 0 = j[i] := by
        rw [List.getD_eq_getElem?_getD, List.getElem?_eq_getElem hi]; rfl
      have hx := hj i t hi' ht
      have hwi := hw i t hi' ht
      rw [hji] at hx hwi
      have hget : t.labels.getD j[i] Label.none = t.labels[j[i]] := by
        rw [List.getD_eq_getElem?_getD, List.getElem?_eq_getElem hx]; rfl
      rw [hget] at hwi
      have hL : (a.axes.getD i default).labels ≠ [] := List.ne_nil_of_mem hwi.1
      obtain ⟨hlt, hnb⟩ := locateMany_neighbour (a.axes.getD i default).labels t.labels s hL j[i] hx
      rw [← hnb.unique hwi, firstIdx_unique (hn i t hi' ht) hlt]
  · rw [List.getElem?_eq_none (Nat.le_of_not_lt hi)]; rfl

/-- **C07 `reindex_like` (data kind).**  Widened by `_maybe_cast_type(data, fill_value)` exactly when a fill is
written along some shared axis; never with a method. -/
theorem reindex_like_vkind {α : Type} (a : DimArray α) (tmpl : List Axis) (fill : α) (fillKind : Kind)
    (r : DimArray α)
    (hnames : (a.axes.map (·.name)).Nodup)
    (hn : ∀ i t, i < a.axes.length → tmplFor a.axes tmpl i = some t → (a.axes.getD i default).labels.Nodup)
    (hr : reindexLike a tmpl fill fillKind false none = .ok r) :
    ((∃ i t, i < a.axes.length ∧ tmplFor a.axes tmpl i = some t ∧
        ∃ v ∈ t.labels, v ∉ (a.axes.getD i default).labels) → r.vkind = maybeCastKind a.vkind fillKind) ∧
    ((∀ i t, i < a.axes.length → tmplFor a.axes tmpl i = some t →
        ∀ v ∈ t.labels, v ∈ (a.axes.getD i default).labels) → r.vkind = a.vkind) := by
  obtain ⟨_, _, hlt, _, hvk, _⟩ := reindexLike_inv a tmpl fill fillKind false none hnames r hr
  have hhit : ∀ i t, i < a.axes.length → tmplFor a.axes tmpl i = some t →
      (rlHit1 a.axes tmpl none i = true ↔ ∃ v ∈ t.labels, v ∉ (a.axes.getD i default).labels) := by
    intro i t hi ht
    have hL := hlt i hi
    rw [ht] at hL
    rw [← rxMask_any_iff (a.axes.getD i default).labels t.labels (hn i t hi ht) hL.2.2]
    simp only [rlHit1, ht, Option.getD_none, rxMask]
  simp only [Option.isNone_none, Bool.true_and] at hvk
  constructor
  · rintro ⟨i, t, hi, ht, hex⟩
    have : (List.range a.axes.length).any (rlHit1 a.axes tmpl none) = true := by
      simp only [List.any_eq_true, List.mem_range]
      exact ⟨i, hi, (hhit i t hi ht).mpr hex⟩
    rw [hvk, if_pos this]
  · intro hall
    have : ¬ ((List.range a.axes.length).any (rlHit1 a.axes tmpl none) = true) := by
      simp only [List.any_eq_true, List.mem_range]
      rintro ⟨i, hi, h⟩
      cases ht : tmplFor a.axes tmpl i with
      | none => simp [rlHit1, ht] at h
      | some t =>
        obtain ⟨v, hv, hvL⟩ := (hhit i t hi ht).mp h
        exact hvL (hall i t hi ht v hv)
    rw [hvk, if_neg this]

theorem reindex_like_method_vkind {α : Type} (a : DimArray α) (tmpl : List Axis) (fill : α) (fillKind : Kind)
    (raiseErr : Bool) (s : Side) (r : DimArray α)
    (hnames : (a.axes.map (·.name)).Nodup)
    (hr : reindexLike a tmpl fill fillKind raiseErr (some s) = .ok r) : r.vkind = a.vkind := by
  obtain ⟨_, _, _, _, hvk, _⟩ := reindexLike_inv a tmpl fill fillKind raiseErr (some s) hnames r hr
  simpa using hvk

/-! ## non-vacuity: the hypotheses of the theorems above are satisfiable on concrete inputs, and the theorems
compute the expected cells (`decide` cannot run `locate_many` itself, whose sort is defined by well-founded
recursion, so the results are obtained THROUGH the theorems) -/

/-- 1-D array on the shuffled axis `x = [4,1,2]`; the cell at position `i` holds `10*i + 7` -/
def exRxA : DimArray Int :=
  { axes := [{ name := "x", labels := [.num 4, .num 1, .num 2], kind := .i }]
    vals := { shape := [3], get := fun j => 10 * (j.getD 0 0 : Int) + 7 } }

theorem exRxA_pos : axisPos exRxA.axes (.name "x") = .ok 0 := by rfl

/-- non-vacuity of `reindex_method_spec`, `method='right'`, requests `3` (absent, inside), `2` (PRESENT), `9`
(beyond), `0` (below): the present label `2` (own cell `27`) is served from label `4` (cell `7`), as in Python:
`a.reindex_axis([3,2,9,0], method='right').values == [7, 7, 7, 17]` -/
example : ∃ r, reindexAxis exRxA (.name "x") [.num 3, .num 2, .num 9, .num 0] .i 0 .i false (some .right) = .ok r ∧
    r.vals.get [0] = 7 ∧ r.vals.get [1] = 7 ∧ r.vals.get [2] = 7 ∧ r.vals.get [3] = 17 := by
  obtain ⟨r, hr⟩ := reindexAxis_succeeds exRxA (.name "x") 0 [.num 3, .num 2, .num 9, .num 0] .i .i 0 (some .right)
    exRxA_pos (Or.inl (by decide))
  have hs := fun j hj w hw => reindex_method_spec exRxA (.name "x") 0 [.num 3, .num 2, .num 9, .num 0] .i .i 0 false .right r
    exRxA_pos (by decide) hr j hj w hw
  refine ⟨r, hr, ?_, ?_, ?_, ?_⟩
  · rw [hs [0] (by decide) (.num 4) (by unfold Spec.IsNeighbour; decide)]; decide
  · rw [hs [1] (by decide) (.num 4) (by unfold Spec.IsNeighbour; decide)]; decide
  · rw [hs [2] (by decide) (.num 4) (by unfold Spec.IsNeighbour; decide)]; decide
  · rw [hs [3] (by decide) (.num 1) (by unfold Spec.IsNeighbour; decide)]; decide

/-- non-vacuity of `reindex_method_sorted` (axis `1,2,4` stored in order; requests inside, on, beyond, below) -/
example :
    let a : DimArray Int := { axes := [{ name := "x", labels := [.num 1, .num 2, .num 4], kind := .i }]
                              vals := { shape := [3], get := fun j => 10 * (j.getD 0 0 : Int) + 7 } }
    ∃ r, reindexAxis a (.pos 0) [.num 3, .num 2, .num 9, .num 0] .i 0 .i false (some .left) = .ok r ∧
      r.vals.get [0] = 27 ∧ r.vals.get [1] = 17 ∧ r.vals.get [2] = 27 ∧ r.vals.get [3] = 7 := by
  intro a
  have hpos : axisPos a.axes (.pos 0) = .ok 0 := by rfl
  obtain ⟨r, hr⟩ := reindexAxis_succeeds a (.pos 0) 0 [.num 3, .num 2, .num 9, .num 0] .i .i 0 (some .left)
    hpos (Or.inl (by decide))
  have hs := fun j hj => reindex_method_sorted a (.pos 0) 0 [.num 3, .num 2, .num 9, .num 0] .i .i 0 false .left r
    hpos (by decide) hr j hj
  refine ⟨r, hr, ?_, ?_, ?_, ?_⟩
  · rw [hs [0] (by decide)]; decide
  · rw [hs [1] (by decide)]; decide
  · rw [hs [2] (by decide)]; decide
  · rw [hs [3] (by decide)]; decide

/-- non-vacuity of `reindex_kind` and `reindex_reindex_sub` -/
example : ∃ r1 r2 rd,
    reindexAxis exRxA (.name "x") [.num 2, .num 3, .num 4] .i 0 .f false none = .ok r1 ∧
    reindexAxis r1 (.name "x") [.num 3, .num 4, .num 3] .i 0 .f false none = .ok r2 ∧
    reindexAxis exRxA (.name "x") [.num 3, .num 4, .num 3] .i 0 .f false none = .ok rd ∧
    r1.vkind = .f ∧ (∀ k, k < 3 → r2.vals.get [k] = rd.vals.get [k]) := by
  obtain ⟨r1, h1⟩ := reindexAxis_succeeds exRxA (.name "x") 0 [.num 2, .num 3, .num 4] .i .f 0 none
    exRxA_pos (Or.inl (by decide))
  have hnames := reindexAxis_names exRxA (.name "x") 0 _ .i .f 0 false none r1 exRxA_pos h1
  have hpos1 : axisPos r1.axes (.name "x") = .ok 0 := by rw [axisPos_congr hnames]; exact exRxA_pos
  have hlab1 := (reindexAxis_getD_pos exRxA (.name "x") 0 _ .i .f 0 false none r1 exRxA_pos h1).1
  obtain ⟨r2, h2⟩ := reindexAxis_succeeds r1 (.name "x") 0 [.num 3, .num 4, .num 3] .i .f 0 none
    hpos1 (Or.inl (by rw [hlab1]; decide))
  obtain ⟨rd, hd⟩ := reindexAxis_succeeds exRxA (.name "x") 0 [.num 3, .num 4, .num 3] .i .f 0 none
    exRxA_pos (Or.inl (by decide))
  refine ⟨r1, r2, rd, h1, h2, hd, ?_, ?_⟩
  · exact ((reindex_kind exRxA (.name "x") 0 _ .i .f 0 r1 exRxA_pos (by decide) h1).1
      ⟨.num 3, by decide, by decide⟩).1
  · intro k hk
    exact reindex_reindex_sub exRxA (.name "x") 0 [.num 2, .num 3, .num 4] [.num 3, .num 4, .num 3] .i .i .i .f 0
      r1 r2 rd exRxA_pos (by decide) (by decide) (by decide) h1 h2 hd [k] (by simp) (by simpa using hk)

/-- 2-D array `x = [4,1,2]` (shuffled), `y = ["a","b"]`; the cell at `(i,k)` holds `10*i + k` -/
def exRlA : DimArray Int :=
  { axes := [{ name := "x", labels := [.num 4, .num 1, .num 2], kind := .i },
             { name := "y", labels := [.str "a", .str "b"], kind := .U }]
    vals := { shape := [3, 2], get := fun j => 10 * (j.getD 0 0 : Int) + (j.getD 1 0 : Int) } }

/-- template: axes in another order, `x` permuted/extended, one axis (`z`) that the array does not have -/
def exRlT : List Axis :=
  [{ name := "z", labels := [.num 0], kind := .i },
   { name := "x", labels := [.num 2, .num 3, .num 4, .num 2], kind := .i }]

theorem exRl_t0 : tmplFor exRlA.axes exRlT 0 = some { name := "x", labels := [.num 2, .num 3, .num 4, .num 2], kind := .i } := by
  decide
theorem exRl_t1 : tmplFor exRlA.axes exRlT 1 = none := by decide

example : ∃ r, reindexLike exRlA exRlT (-1) .i false none = .ok r ∧
    r.vals.get [0, 1] = 21 ∧ r.vals.get [1, 1] = -1 ∧ r.vals.get [2, 0] = 0 ∧ r.vals.get [3, 1] = 21 := by
  have hnames : (exRlA.axes.map (·.name)).Nodup := by decide
  have hcases : ∀ (P : Nat → Axis → Prop), P 0 { name := "x", labels := [.num 2, .num 3, .num 4, .num 2], kind := .i } →
      ∀ i t, i < exRlA.axes.length → tmplFor exRlA.axes exRlT i = some t → P i t := by
    intro P h0 i t hi ht
    have : i = 0 ∨ i = 1 := by simp [exRlA] at hi; omega
    rcases this with rfl | rfl
    · rw [exRl_t0] at ht; cases ht; exact h0
    · rw [exRl_t1] at ht; cases ht
  obtain ⟨r, hr⟩ := reindexLike_succeeds exRlA exRlT (-1) .i none hnames
    (hcases (fun i t => (exRlA.axes.getD i default).labels ≠ [] ∨ t.labels = []) (Or.inl (by decide)))
  have hs := fun j hjl hj => reindex_like_spec exRlA exRlT (-1) .i r hnames
    (hcases (fun i _ => (exRlA.axes.getD i default).labels.Nodup) (by decide)) hr j hjl hj
  refine ⟨r, hr, ?_, ?_, ?_, ?_⟩
  · rw [(hs [0, 1] rfl (hcases (fun i t => [0, 1].getD i 0 < t.labels.length) (by decide))).1
      (hcases (fun i t => t.labels.getD ([0, 1].getD i 0) Label.none ∈ (exRlA.axes.getD i default).labels) (by decide))]
    decide
  · rw [(hs [1, 1] rfl (hcases (fun i t => [1, 1].getD i 0 < t.labels.length) (by decide))).2
      ⟨0, _, by decide, exRl_t0, by decide⟩]
  · rw [(hs [2, 0] rfl (hcases (fun i t => [2, 0].getD i 0 < t.labels.length) (by decide))).1
      (hcases (fun i t => t.labels.getD ([2, 0].getD i 0) Label.none ∈ (exRlA.axes.getD i default).labels) (by decide))]
    decide
  · rw [(hs [3, 1] rfl (hcases (fun i t => [3, 1].getD i 0 < t.labels.length) (by decide))).1
      (hcases (fun i t => t.labels.getD ([3, 1].getD i 0) Label.none ∈ (exRlA.axes.getD i default).labels) (by decide))]
    decide

end DimModel

/-
C07 - property theorems: reindexing moves data together with its labels.
-/
import DimModel.Spec.C07
import DimModel.Proofs.C01
namespace DimModel
open Lib

/-- entry `k` of `locate_many`, as used by `reindex_axis` (method None ⇒ side left) -/
def rxIndex (L newL : List Label) (k : Nat) : Nat := (locateMany L newL .left).getD k 0

theorem locateMany_length (L vs : List Label) (s : Side) : (locateMany L vs s).length = vs.length := by
  simp [locateMany]

theorem rxIndex_eq (L newL : List Label) (k : Nat) (hk : k < newL.length) :
    rxIndex L newL k = takeClip (argsortBy Label.le L) (searchSide Label.lt .left (sortBy Label.le L) newL[k]) := by
  unfold rxIndex locateMany
  simp [List.getD_eq_getElem?_getD, hk]

/-- a requested label that is on the axis is found at its (unique) position -/
theorem rxIndex_present (L newL : List Label) (hn : L.Nodup) (k : Nat) (hk : k < newL.length)
    (hv : newL[k] ∈ L) :
    rxIndex L newL k = firstIdx L newL[k] ∧ L.getD (rxIndex L newL k) Label.none = newL[k] := by
  rw [rxIndex_eq L newL k hk]
  have hf := locateMany_entry_found L newL[k] hv
  have hlt : takeClip (argsortBy Label.le L) (searchSide Label.lt .left (sortBy Label.le L) newL[k]) < L.length := by
    by_cases h : takeClip (argsortBy Label.le L) (searchSide Label.lt .left (sortBy Label.le L) newL[k]) < L.length
    · exact h
    · simp [List.getElem?_eq_none (Nat.le_of_not_lt h)] at hf
  rw [List.getElem?_eq_getElem hlt] at hf
  have hf' := Option.some.inj hf
  have h2 := firstIdx_getElem (firstIdx_lt_iff.mpr hv)
  refine ⟨(List.getElem_inj hn).mp (hf'.trans h2.symm), ?_⟩
  simp [List.getD_eq_getElem?_getD, List.getElem?_eq_getElem hlt, hf']

/-- a requested label that is not on the axis is flagged by the mismatch mask -/
theorem rxIndex_absent (L newL : List Label) (hL : L ≠ []) (k : Nat) (hk : k < newL.length)
    (hv : newL[k] ∉ L) : L.getD (rxIndex L newL k) Label.none ≠ newL[k] := by
  rw [rxIndex_eq L newL k hk]
  have hlt := takeClip_argsort_lt L hL (searchSide Label.lt .left (sortBy Label.le L) newL[k])
  simp only [List.getD_eq_getElem?_getD, List.getElem?_eq_getElem hlt, Option.getD_some]
  intro heq
  exact hv (heq ▸ List.getElem_mem hlt)

/-- the mismatch mask of `reindex_axis` -/
def rxMask (L newL : List Label) : List Bool := mismatchMask L (locateMany L newL .left) newL

theorem rxMask_getD (L newL : List Label) (k : Nat) (hk : k < newL.length) :
    (rxMask L newL).getD k false = (L.getD (rxIndex L newL k) Label.none != newL[k]) := by
  unfold rxMask rxIndex mismatchMask
  have h1 : k < (locateMany L newL .left).length := by rw [locateMany_length]; exact hk
  have hz : k < ((locateMany L newL .left).zip newL).length := by
    rw [List.length_zip, locateMany_length]; omega
  rw [List.getD_eq_getElem?_getD, List.getD_eq_getElem?_getD (l := locateMany L newL .left)]
  rw [List.getElem?_map, List.getElem?_eq_getElem hz, List.getElem?_eq_getElem h1]
  simp only [Option.map_some, Option.getD_some, List.getElem_zip]

theorem rxMask_iff (L newL : List Label) (hn : L.Nodup) (hL : L ≠ [] ∨ newL = []) (k : Nat)
    (hk : k < newL.length) : (rxMask L newL).getD k false = true ↔ newL[k] ∉ L := by
  rw [rxMask_getD L newL k hk]
  have hL' : L ≠ [] := by
    rcases hL with h | h
    · exact h
    · subst h; simp at hk
  by_cases hv : newL[k] ∈ L
  · have := (rxIndex_present L newL hn k hk hv).2
    rw [this]
    simp [hv]
  · have := bne_iff_ne.mpr (rxIndex_absent L newL hL' k hk hv)
    rw [this]
    simp [hv]

theorem rxMask_any_iff (L newL : List Label) (hn : L.Nodup) (hL : L ≠ [] ∨ newL = []) :
    (rxMask L newL).any id = true ↔ ∃ v ∈ newL, v ∉ L := by
  have hlen : (rxMask L newL).length = newL.length := by
    simp [rxMask, mismatchMask, locateMany_length]
  constructor
  · intro h
    rw [List.any_eq_true] at h
    obtain ⟨b, hb, hbt⟩ := h
    obtain ⟨k, hk, rfl⟩ := List.getElem_of_mem hb
    have hk' : k < newL.length := hlen ▸ hk
    have : (rxMask L newL).getD k false = true := by
      simp [List.getD_eq_getElem?_getD, List.getElem?_eq_getElem hk]; exact hbt
    exact ⟨newL[k], List.getElem_mem hk', (rxMask_iff L newL hn hL k hk').mp this⟩
  · rintro ⟨v, hv, hvL⟩
    obtain ⟨k, hk, rfl⟩ := List.getElem_of_mem hv
    have := (rxMask_iff L newL hn hL k hk).mpr hvL
    rw [List.any_eq_true]
    have hk' : k < (rxMask L newL).length := hlen ▸ hk
    refine ⟨(rxMask L newL)[k], List.getElem_mem hk', ?_⟩
    simpa [List.getD_eq_getElem?_getD, List.getElem?_eq_getElem hk'] using this

/-- **C07 main theorem (values).**  For labels stored in any order (unique), any requested label
sequence (subset, superset, disjoint, permuted, repeated, empty) and any fill value, the slice of
the result at requested position `k` is the original slice at the position of that label when the
label existed and the fill value otherwise. -/
theorem reindex_spec {α : Type} (a : DimArray α) (axis : DimKey) (pos : Nat) (newL : List Label)
    (newKind fillKind : Kind) (fill : α) (r : DimArray α)
    (hpos : axisPos a.axes axis = .ok pos)
    (hn : (a.axes.getD pos default).labels.Nodup)
    (hL : (a.axes.getD pos default).labels ≠ [] ∨ newL = [])
    (hr : reindexAxis a axis newL newKind fill fillKind false none = .ok r)
    (j : List Nat) (hj : j.getD pos 0 < newL.length) :
    r.vals.get j = (Spec.reindexVals a pos newL fill).get j := by
  unfold reindexAxis at hr
  simp only [hpos, bind, Except.bind] at hr
  have hemp : ((a.axes.getD pos default).labels.isEmpty && !newL.isEmpty) = false := by
    rcases hL with h | h
    · cases hl : (a.axes.getD pos default).labels with
      | nil => exact absurd hl h
      | cons _ _ => simp
    · subst h; simp
  simp only [hemp, Bool.false_eq_true, if_false, Option.getD_none, Option.isNone_none, if_true] at hr
  -- name the pieces
  have hmask := rxMask_iff (a.axes.getD pos default).labels newL hn hL (j.getD pos 0) hj
  have hmaskD := rxMask_getD (a.axes.getD pos default).labels newL (j.getD pos 0) hj
  unfold Spec.reindexVals
  simp only
  have hget : newL.getD (j.getD pos 0) Label.none = newL[j.getD pos 0] := by
    rw [List.getD_eq_getElem?_getD, List.getElem?_eq_getElem hj]; rfl
  rw [hget]
  by_cases hany : (rxMask (a.axes.getD pos default).labels newL).any id = true
  · -- some label is missing: fill where masked
    have hany' : (mismatchMask (a.axes.getD pos default).labels
        (locateMany (a.axes.getD pos default).labels newL Side.left) newL).any id = true := hany
    simp only [hany', if_true, pure, Except.pure] at hr
    cases hr
    simp only [NDArr.putWhere, takeAxisPos, NDArr.takeAxis]
    by_cases hv : newL[j.getD pos 0] ∈ (a.axes.getD pos default).labels
    · have hm : (rxMask (a.axes.getD pos default).labels newL).getD (j.getD pos 0) false = false := by
        cases h : (rxMask (a.axes.getD pos default).labels newL).getD (j.getD pos 0) false
        · rfl
        · exact absurd hv (hmask.mp h)
      have hm' : (mismatchMask (a.axes.getD pos default).labels
        (locateMany (a.axes.getD pos default).labels newL Side.left) newL).getD (j.getD pos 0) false = false := hm
      simp only [hm', Bool.false_eq_true, if_false, hv, if_true]
      have := (rxIndex_present (a.axes.getD pos default).labels newL hn (j.getD pos 0) hj hv).1
      unfold rxIndex at this
      rw [this]
    · have hm := hmask.mpr hv
      have hm' : (mismatchMask (a.axes.getD pos default).labels
        (locateMany (a.axes.getD pos default).labels newL Side.left) newL).getD (j.getD pos 0) false = true := hm
      simp only [hm', if_true, hv, if_false]
  · -- every requested label exists
    have hany' : ¬ ((mismatchMask (a.axes.getD pos default).labels
        (locateMany (a.axes.getD pos default).labels newL Side.left) newL).any id = true) := hany
    simp only [hany', if_false, pure, Except.pure] at hr
    cases hr
    have hv : newL[j.getD pos 0] ∈ (a.axes.getD pos default).labels := by
      by_cases hv : newL[j.getD pos 0] ∈ (a.axes.getD pos default).labels
      · exact hv
      · exfalso
        apply hany
        exact (rxMask_any_iff _ newL hn hL).mpr ⟨_, List.getElem_mem hj, hv⟩
    simp only [takeAxisPos, NDArr.takeAxis, hv, if_true]
    have := (rxIndex_present (a.axes.getD pos default).labels newL hn (j.getD pos 0) hj hv).1
    unfold rxIndex at this
    rw [this]

/-- `raise_error=True` raises `IndexError` exactly when some requested label is absent. -/
theorem reindex_raise_iff {α : Type} (a : DimArray α) (axis : DimKey) (pos : Nat) (newL : List Label)
    (newKind fillKind : Kind) (fill : α) (method : Option Side)
    (hpos : axisPos a.axes axis = .ok pos)
    (hn : (a.axes.getD pos default).labels.Nodup)
    (hL : (a.axes.getD pos default).labels ≠ []) (hm : method = none) :
    reindexAxis a axis newL newKind fill fillKind true method = .error .index ↔
      ∃ v ∈ newL, v ∉ (a.axes.getD pos default).labels := by
  subst hm
  unfold reindexAxis
  simp only [hpos, bind, Except.bind]
  have hemp : ((a.axes.getD pos default).labels.isEmpty && !newL.isEmpty) = false := by
    cases hl : (a.axes.getD pos default).labels with
    | nil => exact absurd hl hL
    | cons _ _ => simp
  simp only [hemp, Bool.false_eq_true, if_false, Option.getD_none]
  rw [← rxMask_any_iff _ newL hn (Or.inl hL)]
  by_cases h : (rxMask (a.axes.getD pos default).labels newL).any id = true
  · have h' : (mismatchMask (a.axes.getD pos default).labels
        (locateMany (a.axes.getD pos default).labels newL Side.left) newL).any id = true := h
    simp only [h', if_true]
    exact ⟨fun _ => h, fun _ => trivial⟩
  · have h' : ¬ ((mismatchMask (a.axes.getD pos default).labels
        (locateMany (a.axes.getD pos default).labels newL Side.left) newL).any id = true) := h
    simp only [h', if_false]
    constructor
    · intro hh; cases hh
    · intro hh; exact absurd hh h

theorem getD_mapIdx_self {β : Type} [Inhabited β] (l : List β) (pos : Nat) (hlt : pos < l.length) (x : β) :
    (l.mapIdx (fun i y => if i == pos then x else y)).getD pos default = x := by
  simp [List.getD_eq_getElem?_getD, List.getElem?_mapIdx, List.getElem?_eq_getElem hlt]

theorem getD_mapIdx_fun {β : Type} [Inhabited β] (l : List β) (pos : Nat) (hlt : pos < l.length) (g : β → β) :
    (l.mapIdx (fun i y => if i == pos then g y else y)).getD pos default = g (l.getD pos default) := by
  simp [List.getD_eq_getElem?_getD, List.getElem?_mapIdx, List.getElem?_eq_getElem hlt]

/-- the reindexed axis carries exactly the requested labels (same order, repeats included) -/
theorem reindex_labels {α : Type} (a : DimArray α) (axis : DimKey) (pos : Nat) (newL : List Label)
    (newKind fillKind : Kind) (fill : α) (r : DimArray α)
    (hpos : axisPos a.axes axis = .ok pos) (hlt : pos < a.axes.length)
    (hn : (a.axes.getD pos default).labels.Nodup)
    (hL : (a.axes.getD pos default).labels ≠ [] ∨ newL = [])
    (hr : reindexAxis a axis newL newKind fill fillKind false none = .ok r) :
    (r.axes.getD pos default).labels = newL := by
  unfold reindexAxis at hr
  simp only [hpos, bind, Except.bind] at hr
  generalize hA : a.axes.getD pos default = ax at hr hn hL
  have hemp : (ax.labels.isEmpty && !newL.isEmpty) = false := by
    rcases hL with h | h
    · cases hl : ax.labels with
      | nil => exact absurd hl h
      | cons _ _ => simp
    · subst h; simp
  simp only [hemp, Bool.false_eq_true, if_false, Option.getD_none, Option.isNone_none, if_true] at hr
  have hlen : (locateMany ax.labels newL Side.left).length = newL.length := locateMany_length _ _ _
  by_cases hany : (rxMask ax.labels newL).any id = true
  · have hany' : (mismatchMask ax.labels (locateMany ax.labels newL Side.left) newL).any id = true := hany
    simp only [hany', if_true, pure, Except.pure] at hr
    cases hr
    rw [getD_mapIdx_self a.axes pos hlt]
    apply List.ext_getElem
    · simp
    · intro k h1 h2
      simp only [List.getElem_map, List.getElem_zipIdx, Nat.zero_add]
      split
      · rfl
      · rename_i hm
        have hmk : (rxMask ax.labels newL).getD k false = false := by
          cases h : (rxMask ax.labels newL).getD k false
          · rfl
          · exact absurd h hm
        have hv : newL[k] ∈ ax.labels := by
          by_cases hv : newL[k] ∈ ax.labels
          · exact hv
          · have := (rxMask_iff _ newL hn hL k h2).mpr hv
            rw [hmk] at this; cases this
        exact (rxIndex_present ax.labels newL hn k h2 hv).2
  · have hany' : ¬ ((mismatchMask ax.labels (locateMany ax.labels newL Side.left) newL).any id = true) := hany
    simp only [hany', if_false, pure, Except.pure] at hr
    cases hr
    simp only [takeAxisPos]
    rw [getD_mapIdx_fun a.axes pos hlt, hA]
    simp only [axisTake]
    apply List.ext_getElem
    · simp [hlen]
    · intro k h1 h2
      have hv : newL[k] ∈ ax.labels := by
        by_cases hv : newL[k] ∈ ax.labels
        · exact hv
        · exfalso
          apply hany
          exact (rxMask_any_iff _ newL hn hL).mpr ⟨_, List.getElem_mem h2, hv⟩
      have := (rxIndex_present ax.labels newL hn k h2 hv).2
      have hk' : k < (locateMany ax.labels newL Side.left).length := hlen ▸ h2
      simp only [List.getElem_map]
      have e : rxIndex ax.labels newL k = (locateMany ax.labels newL Side.left)[k] := by
        simp [rxIndex, List.getD_eq_getElem?_getD, hk']
      rw [← e]; exact this

/-- all other axes are untouched -/
theorem reindex_other_axes {α : Type} (a : DimArray α) (axis : DimKey) (pos : Nat) (newL : List Label)
    (newKind fillKind : Kind) (fill : α) (raiseErr : Bool) (method : Option Side) (r : DimArray α)
    (hpos : axisPos a.axes axis = .ok pos)
    (hr : reindexAxis a axis newL newKind fill fillKind raiseErr method = .ok r)
    (i : Nat) (hi : i ≠ pos) : r.axes[i]? = a.axes[i]? := by
  unfold reindexAxis at hr
  simp only [hpos, bind, Except.bind] at hr
  split at hr
  · cases hr
  · split at hr
    · split at hr
      · cases hr
      · simp only [pure, Except.pure] at hr
        cases hr
        simp only [List.getElem?_mapIdx]
        cases h : a.axes[i]? with
        | none => rfl
        | some x => simp [hi]
    · simp only [pure, Except.pure] at hr
      cases hr
      simp only [takeAxisPos, List.getElem?_mapIdx]
      cases h : a.axes[i]? with
      | none => rfl
      | some x => simp [hi]

/-- reindexing keeps the array's metadata and the metadata of the reindexed axis -/
theorem reindex_attrs {α : Type} (a : DimArray α) (axis : DimKey) (newL : List Label)
    (newKind fillKind : Kind) (fill : α) (raiseErr : Bool) (method : Option Side) (r : DimArray α)
    (hr : reindexAxis a axis newL newKind fill fillKind raiseErr method = .ok r) : r.attrs = a.attrs := by
  unfold reindexAxis at hr
  simp only [bind, Except.bind] at hr
  split at hr
  · cases hr
  · split at hr
    · cases hr
    · split at hr
      · split at hr
        · cases hr
        · simp only [pure, Except.pure] at hr; cases hr; rfl
      · simp only [pure, Except.pure] at hr; cases hr; rfl

/-- reindexing an axis onto its own labels is the identity on the values -/
theorem reindex_self_id {α : Type} (a : DimArray α) (axis : DimKey) (pos : Nat)
    (newKind fillKind : Kind) (fill : α) (r : DimArray α)
    (hpos : axisPos a.axes axis = .ok pos)
    (hn : (a.axes.getD pos default).labels.Nodup)
    (hr : reindexAxis a axis (a.axes.getD pos default).labels newKind fill fillKind false none = .ok r)
    (j : List Nat) (hjp : pos < j.length) (hj : j.getD pos 0 < (a.axes.getD pos default).labels.length) :
    r.vals.get j = a.vals.get j := by
  have hL : (a.axes.getD pos default).labels ≠ [] ∨ (a.axes.getD pos default).labels = [] := by
    cases h : (a.axes.getD pos default).labels with
    | nil => exact Or.inr rfl
    | cons _ _ => exact Or.inl (by simp)
  rw [reindex_spec a axis pos _ newKind fillKind fill r hpos hn hL hr j hj]
  unfold Spec.reindexVals
  simp only
  have hget : (a.axes.getD pos default).labels.getD (j.getD pos 0) Label.none
      = (a.axes.getD pos default).labels[j.getD pos 0] := by
    rw [List.getD_eq_getElem?_getD, List.getElem?_eq_getElem hj]; rfl
  rw [hget]
  have hmem : (a.axes.getD pos default).labels[j.getD pos 0] ∈ (a.axes.getD pos default).labels :=
    List.getElem_mem hj
  simp only [hmem, if_true]
  rw [firstIdx_unique hn hj]
  congr 1
  have : j.getD pos 0 = j[pos] := by
    rw [List.getD_eq_getElem?_getD, List.getElem?_eq_getElem hjp]; rfl
  rw [this, List.set_getElem_self]

/-- non-vacuity: a shuffled axis, a request with a repeat and an absent label -/
example :
    let L : List Label := [.num 3, .num 1, .num 2]
    L.Nodup ∧ L ≠ [] ∧
    (rxMask L [.num 2, .num 9, .num 2]).any id = true := by
  refine ⟨by decide, by decide, ?_⟩
  rw [rxMask_any_iff _ _ (by decide) (Or.inl (by decide))]
  exact ⟨.num 9, by decide, by decide⟩

end DimModel

/-
C02 - property theorems: label slices are inclusive bounding boxes on monotonic numeric axes
(bounds need not be labels), first-to-second label on other axes; no wrap-around.
-/
import DimModel.Proofs.C02
namespace DimModel
open Lib

/-! ### order facts lifted to labels -/

theorem Label.lt_trans (a b c : Label) : Label.lt a b = true → Label.lt b c = true → Label.lt a c = true := by
  intro h1 h2
  simp only [Label.lt, Bool.not_eq_eq_eq_not, Bool.not_true] at *
  cases h : Label.le c a
  · rfl
  · have hab : Label.le a b = true := by
      have := Label.le_total a b
      simpa [h1] using this
    have := Label.le_trans c a b h hab
    simp [h2] at this

theorem chainB_pairwise {β : Type} (r : β → β → Bool)
    (htr : ∀ a b c, r a b = true → r b c = true → r a c = true) :
    ∀ l : List β, chainB r l = true → l.Pairwise (fun a b => r a b = true)
  | [] => fun _ => List.Pairwise.nil
  | [_] => fun _ => by simp
  | x :: y :: rest => fun h => by
    simp only [chainB, Bool.and_eq_true] at h
    have ih := chainB_pairwise r htr (y :: rest) h.2
    rw [List.pairwise_cons] at ih ⊢
    refine ⟨?_, List.pairwise_cons.mpr ih⟩
    intro z hz
    rcases List.mem_cons.mp hz with rfl | hz'
    · exact h.1
    · exact htr _ _ _ h.1 (ih.1 z hz')

theorem pairwise_chainB {β : Type} (r : β → β → Bool) :
    ∀ l : List β, l.Pairwise (fun a b => r a b = true) → chainB r l = true
  | [] => fun _ => rfl
  | [_] => fun _ => rfl
  | x :: y :: rest => fun h => by
    rw [List.pairwise_cons] at h
    simp only [chainB, Bool.and_eq_true]
    exact ⟨h.1 y (by simp), pairwise_chainB r (y :: rest) h.2⟩

/-- a strictly increasing axis is sorted for `searchsorted` -/
theorem increasing_pairwise_le (L : List Label) (h : isIncreasing L = true) :
    L.Pairwise (fun a b => Label.le a b = true) := by
  have := chainB_pairwise (fun a b => Label.lt a b) Label.lt_trans L h
  exact this.imp (fun h => Label.le_of_lt h)

theorem increasing_isMonotonicEq (L : List Label) (h : isIncreasing L = true) : isMonotonicEq L = true := by
  have := pairwise_chainB (fun a b => Label.le a b) L (increasing_pairwise_le L h)
  simp [isMonotonicEq, isIncreasingEq, this]

theorem increasing_head_le_last (L : List Label) (h : isIncreasing L = true) :
    headLeLast L = true := by
  unfold headLeLast
  cases L with
  | nil => rfl
  | cons x xs =>
    simp only [List.head?_cons]
    cases hl : (x :: xs).getLast? with
    | none => rfl
    | some z =>
      simp only
      have hz : z ∈ x :: xs := List.mem_of_getLast? hl
      rcases List.mem_cons.mp hz with rfl | hz'
      · exact Label.le_refl _
      · have := increasing_pairwise_le (x :: xs) h
        rw [List.pairwise_cons] at this
        exact this.1 z hz'

/-- **positive (or no) step, increasing numeric axis**: the selected positions are exactly those
whose label lies in the closed interval `[start, stop]`, in axis order; neither bound needs to be
an existing label; an interval containing no label gives the empty selection. -/
theorem locateSlice_increasing_spec (L : List Label) (kind : Kind) (start stop : Option Label)
    (hk : kind.isNumeric = true) (hinc : isIncreasing L = true)
    (hs : ∀ v, start = some v → v.isNum = true) (he : ∀ v, stop = some v → v.isNum = true) :
    (locateSlice L kind start stop none).bind (fun ab => slicePositions ab.1 ab.2 none L.length)
      = .ok (Spec.bbox L start stop) := by
  have hmono := increasing_isMonotonicEq L hinc
  have hsorted := increasing_head_le_last L hinc
  have hpw := increasing_pairwise_le L hinc
  have hsn : ((start.map Label.isNum).getD true == false) = false := by
    cases start with
    | none => rfl
    | some v => simp [hs v rfl]
  have hen : ((stop.map Label.isNum).getD true == false) = false := by
    cases stop with
    | none => rfl
    | some v => simp [he v rfl]
  unfold locateSlice
  simp only [hk, Bool.not_true, Bool.false_eq_true, if_false, hmono, hsorted, Bool.and_self, hsn, hen,
    stepPos, Bool.not_false]
  simp only [Except.bind, searchSide, if_true]
  have e1 : (start.map fun v => ((searchLeft Label.lt L v : Nat) : Int)) =
      (start.map (searchLeft Label.lt L)).map Int.ofNat := by cases start <;> rfl
  have e2 : (stop.bind fun v => some ((searchRight Label.lt L v : Nat) : Int)) =
      (stop.map (searchRight Label.lt L)).map Int.ofNat := by cases stop <;> rfl
  have hne : ((start.map fun v => ((searchLeft Label.lt L v : Nat) : Int)) == some (-1)) = false := by
    cases start with
    | none => rfl
    | some v => simp
  simp only [Bool.false_and, Bool.false_eq_true, if_false]
  rw [e1, e2]
  rw [slicePositions_nat]
  · congr 1
    unfold Spec.bbox
    apply List.filter_congr
    intro p hp
    have hp' : p < L.length := List.mem_range.mp hp
    have hget : L.getD p Label.none = L[p] := by
      simp [List.getD_eq_getElem?_getD, List.getElem?_eq_getElem hp']
    rw [hget]
    congr 1
    · cases start with
      | none => simp [Spec.leOpt]
      | some v =>
        simp only [Option.map_some, Option.getD_some, Spec.leOpt]
        have := searchLeft_partition Label.le Label.le_trans Label.le_total L hpw v p hp'
        rw [← label_lt_eq] at this
        cases hle : Label.le v L[p]
        · have := this.mpr hle
          simp; omega
        · have hnot : ¬ (p < searchLeft Label.lt L v) := fun h => by simp [this.mp h] at hle
          simp; omega
    · cases stop with
      | none => simp [Spec.geOpt, hp']
      | some w =>
        simp only [Option.map_some, Option.getD_some, Spec.geOpt]
        have := searchRight_partition Label.le Label.le_trans Label.le_total L hpw w p hp'
        rw [← label_lt_eq] at this
        cases hle : Label.le L[p] w
        · have hnot : ¬ (p < searchRight Label.lt L w) := fun h => by simp [this.mp h] at hle
          simp; omega
        · have := this.mpr hle
          simp; omega
  · intro x hx
    cases start with
    | none => simp at hx
    | some v => simp at hx; subst hx; exact searchLeft_le_length _ _ _
  · intro x hx
    cases stop with
    | none => simp at hx
    | some v => simp at hx; subst hx; exact searchRight_le_length _ _ _

/-! ### decreasing axes -/

theorem decreasing_reverse_pairwise_le (L : List Label) (h : isDecreasing L = true) :
    L.reverse.Pairwise (fun a b => Label.le a b = true) := by
  have h1 := chainB_pairwise (fun a b => Label.lt b a)
    (fun a b c hab hbc => Label.lt_trans c b a hbc hab) L h
  rw [List.pairwise_reverse]
  exact h1.imp (fun h => Label.le_of_lt h)

theorem decreasing_isMonotonicEq (L : List Label) (h : isDecreasing L = true) : isMonotonicEq L = true := by
  have h1 := chainB_pairwise (fun a b => Label.lt b a)
    (fun a b c hab hbc => Label.lt_trans c b a hbc hab) L h
  have := pairwise_chainB (fun a b => Label.le b a) L (h1.imp (fun h => Label.le_of_lt h))
  simp [isMonotonicEq, isDecreasingEq, this]

theorem decreasing_headLeLast (L : List Label) (h : isDecreasing L = true) (hlen : 2 ≤ L.length) :
    headLeLast L = false := by
  have h1 := chainB_pairwise (fun a b => Label.lt b a)
    (fun a b c hab hbc => Label.lt_trans c b a hbc hab) L h
  unfold headLeLast
  cases L with
  | nil => simp at hlen
  | cons x xs =>
    cases xs with
    | nil => simp at hlen
    | cons y ys =>
      simp only [List.head?_cons]
      have hl : (x :: y :: ys).getLast? = some ((y :: ys).getLast (by simp)) := by
        simp [List.getLast?_eq_getLast]
      rw [hl]
      simp only
      rw [List.pairwise_cons] at h1
      have := h1.1 ((y :: ys).getLast (by simp)) (List.getLast_mem _)
      simpa [Label.lt] using this

/-- **positive (or no) step, decreasing numeric axis**: the selected positions are exactly those
whose label lies in the closed interval `[stop, start]` (the first bound is the larger one on a
decreasing axis), in axis order. -/
theorem locateSlice_decreasing_spec (L : List Label) (kind : Kind) (start stop : Option Label)
    (hk : kind.isNumeric = true) (hdec : isDecreasing L = true) (hlen : 2 ≤ L.length)
    (hs : ∀ v, start = some v → v.isNum = true) (he : ∀ v, stop = some v → v.isNum = true) :
    (locateSlice L kind start stop none).bind (fun ab => slicePositions ab.1 ab.2 none L.length)
      = .ok (Spec.bbox L stop start) := by
  have hmono := decreasing_isMonotonicEq L hdec
  have hsorted := decreasing_headLeLast L hdec hlen
  have hpw := decreasing_reverse_pairwise_le L hdec
  have hsn : ((start.map Label.isNum).getD true == false) = false := by
    cases start with
    | none => rfl
    | some v => simp [hs v rfl]
  have hen : ((stop.map Label.isNum).getD true == false) = false := by
    cases stop with
    | none => rfl
    | some v => simp [he v rfl]
  have hR : L.reverse.length = L.length := List.length_reverse
  have hsr : ∀ v, searchRight Label.lt L.reverse v ≤ L.length := fun v => hR ▸ searchRight_le_length _ _ _
  have hsl : ∀ v, searchLeft Label.lt L.reverse v ≤ L.length := fun v => hR ▸ searchLeft_le_length _ _ _
  unfold locateSlice
  simp only [hk, Bool.not_true, Bool.false_eq_true, if_false, hmono, hsorted, Bool.and_false, hsn, hen,
    stepPos, Bool.not_false]
  simp only [Except.bind, searchSide, if_true]
  have e1 : (start.map fun v => ((L.length : Int) - ((searchRight Label.lt L.reverse v : Nat) : Int))) =
      (start.map (fun v => L.length - searchRight Label.lt L.reverse v)).map Int.ofNat := by
    cases start with
    | none => rfl
    | some v => have := hsr v; simp; omega
  have e2 : (stop.bind fun v => some ((L.length : Int) - ((searchLeft Label.lt L.reverse v : Nat) : Int))) =
      (stop.map (fun v => L.length - searchLeft Label.lt L.reverse v)).map Int.ofNat := by
    cases stop with
    | none => rfl
    | some v => have := hsl v; simp; omega
  have hne : ((start.map fun v => ((L.length : Int) - ((searchRight Label.lt L.reverse v : Nat) : Int))) == some (-1)) = false := by
    cases start with
    | none => rfl
    | some v => have := hsr v; simp; omega
  simp only [Bool.false_and, Bool.false_eq_true, if_false]
  rw [e1, e2]
  rw [slicePositions_nat]
  · congr 1
    unfold Spec.bbox
    apply List.filter_congr
    intro p hp
    have hp' : p < L.length := List.mem_range.mp hp
    have hget : L.getD p Label.none = L[p] := by
      simp [List.getD_eq_getElem?_getD, List.getElem?_eq_getElem hp']
    rw [hget, Bool.and_comm]
    have hq : L.length - 1 - p < L.reverse.length := by rw [hR]; omega
    have hrev : L.reverse[L.length - 1 - p] = L[p] := by
      rw [List.getElem_reverse]; congr 1; omega
    congr 1
    · cases stop with
      | none => simp [Spec.leOpt, hp']
      | some w =>
        simp only [Option.map_some, Option.getD_some, Spec.leOpt]
        have := searchLeft_partition Label.le Label.le_trans Label.le_total L.reverse hpw w _ hq
        rw [← label_lt_eq, hrev] at this
        have hb := hsl w
        cases hle : Label.le w L[p]
        · have := this.mpr hle
          simp; omega
        · have hnot : ¬ (L.length - 1 - p < searchLeft Label.lt L.reverse w) := fun h => by simp [this.mp h] at hle
          simp; omega
    · cases start with
      | none => simp [Spec.geOpt]
      | some v =>
        simp only [Option.map_some, Option.getD_some, Spec.geOpt]
        have := searchRight_partition Label.le Label.le_trans Label.le_total L.reverse hpw v _ hq
        rw [← label_lt_eq, hrev] at this
        have hb := hsr v
        cases hle : Label.le L[p] v
        · have hnot : ¬ (L.length - 1 - p < searchRight Label.lt L.reverse v) := fun h => by simp [this.mp h] at hle
          simp; omega
        · have := this.mpr hle
          simp; omega
  · intro x hx
    cases start with
    | none => simp at hx
    | some v => simp at hx; omega
  · intro x hx
    cases stop with
    | none => simp at hx
    | some v => simp at hx; omega

/-! ### other axes: both bounds must be existing labels -/

/-- **non-numeric or non-monotonic axis, positive (or no) step**: the slice runs from the position
of the first bound to the position of the second, inclusive; an open bound extends to the end;
an absent bound is an `IndexError`. -/
theorem locateSlice_strict_spec (L : List Label) (kind : Kind) (start stop : Option Label)
    (hstrict : kind.isNumeric = false ∨ isMonotonicEq L = false)
    (hs : ∀ v, start = some v → v ∈ L) (he : ∀ v, stop = some v → v ∈ L) :
    (locateSlice L kind start stop none).bind (fun ab => slicePositions ab.1 ab.2 none L.length)
      = .ok (Spec.posRange L.length (start.map (firstIdx L)) (stop.map (firstIdx L))) := by
  have hstr : locateSlice L kind start stop none = locateSliceStrict L start stop none := by
    unfold locateSlice
    rcases hstrict with h | h
    · simp [h]
    · cases hk : kind.isNumeric <;> simp [h]
  rw [hstr]
  have hval : locateSliceStrict L start stop none =
      .ok ((start.map (firstIdx L)).map Int.ofNat, (stop.map (fun v => firstIdx L v + 1)).map Int.ofNat) := by
    unfold locateSliceStrict
    cases start with
    | none =>
      cases stop with
      | none => rfl
      | some w =>
        simp [locateOne_none, he w rfl, stepPos, bind, Except.bind, pure, Except.pure]
    | some v =>
      cases stop with
      | none => simp [locateOne_none, hs v rfl, bind, Except.bind, pure, Except.pure]
      | some w =>
        simp [locateOne_none, hs v rfl, he w rfl, stepPos, bind, Except.bind, pure, Except.pure]
  rw [hval]
  simp only [Except.bind]
  rw [slicePositions_nat]
  · congr 1
    unfold Spec.posRange
    apply List.filter_congr
    intro p hp
    have hp' : p < L.length := List.mem_range.mp hp
    congr 1
    · cases start <;> simp
    · cases stop with
      | none => simp [hp']
      | some w => simp; omega
  · intro x hx
    cases start with
    | none => simp at hx
    | some v =>
      simp at hx; subst hx
      exact Nat.le_of_lt (firstIdx_lt_iff.mpr (hs v rfl))
  · intro x hx
    cases stop with
    | none => simp at hx
    | some v =>
      simp at hx; subst hx
      exact firstIdx_lt_iff.mpr (he v rfl)

/-- an absent bound on such an axis raises `IndexError` -/
theorem locateSlice_strict_absent (L : List Label) (kind : Kind) (start stop : Option Label)
    (step : Option Int) (hstrict : kind.isNumeric = false) (v : Label) (hv : v ∉ L)
    (h : start = some v) : locateSlice L kind start stop step = .error .index := by
  subst h
  unfold locateSlice locateSliceStrict
  simp [hstrict, locateOne_none, hv, bind, Except.bind]

/-- **never a wrapped-around selection** (positive or no step, monotonic numeric axis): when no
label lies between the bounds the result is empty, and in general every selected position carries
a label inside the closed interval. -/
theorem slice_never_wraps (L : List Label) (lo hi : Option Label) (p : Nat) (hp : p ∈ Spec.bbox L lo hi) :
    p < L.length ∧ Spec.leOpt lo (L.getD p Label.none) = true ∧ Spec.geOpt hi (L.getD p Label.none) = true := by
  unfold Spec.bbox at hp
  have := List.mem_filter.mp hp
  simp only [Bool.and_eq_true] at this
  exact ⟨List.mem_range.mp this.1, this.2.1, this.2.2⟩

/-- non-vacuity: an increasing axis and bounds that are not labels -/
example : isIncreasing [.num 10, .num 20, .num 40] = true ∧
    Spec.bbox [.num 10, .num 20, .num 40] (some (.num 15)) (some (.num 50)) = [1, 2] ∧
    Spec.bbox [.num 10, .num 20, .num 40] (some (.num 25)) (some (.num 30)) = [] := by
  refine ⟨by decide, by decide, by decide⟩

end DimModel

/-
C02 - property theorems: label slices are inclusive bounding boxes on monotonic numeric axes
(bounds need not be labels), first-to-second label on other axes; no wrap-around.
-/
import DimModel.Proofs.C02
namespace DimModel
open Lib

/-! ### order facts lifted to labels -/

theorem Label.lt_trans (a b c : Label) : Label.lt a b = true → Label.lt b c = true → Label.lt a c = true := by
  intro h1 h2
  simp only [Label.lt, Bool.not_eq_eq_eq_not, Bool.not_true] at *
  cases h : Label.le c a
  · rfl
  · have hab : Label.le a b = true := by
      have := Label.le_total a b
      simpa [h1] using this
    have := Label.le_trans c a b h hab
    simp [h2] at this

theorem chainB_pairwise {β : Type} (r : β → β → Bool)
    (htr : ∀ a b c, r a b = true → r b c = true → r a c = true) :
    ∀ l : List β, chainB r l = true → l.Pairwise (fun a b => r a b = true)
  | [] => fun _ => List.Pairwise.nil
  | [_] => fun _ => by simp
  | x :: y :: rest => fun h => by
    simp only [chainB, Bool.and_eq_true] at h
    have ih := chainB_pairwise r htr (y :: rest) h.2
    rw [List.pairwise_cons] at ih ⊢
    refine ⟨?_, List.pairwise_cons.mpr ih⟩
    intro z hz
    rcases List.mem_cons.mp hz with rfl | hz'
    · exact h.1
    · exact htr _ _ _ h.1 (ih.1 z hz')

theorem pairwise_chainB {β : Type} (r : β → β → Bool) :
    ∀ l : List β, l.Pairwise (fun a b => r a b = true) → chainB r l = true
  | [] => fun _ => rfl
  | [_] => fun _ => rfl
  | x :: y :: rest => fun h => by
    rw [List.pairwise_cons] at h
    simp only [chainB, Bool.and_eq_true]
    exact ⟨h.1 y (by simp), pairwise_chainB r (y :: rest) h.2⟩

/-- a strictly increasing axis is sorted for `searchsorted` -/
theorem increasing_pairwise_le (L : List Label) (h : isIncreasing L = true) :
    L.Pairwise (fun a b => Label.le a b = true) := by
  have := chainB_pairwise (fun a b => Label.lt a b) Label.lt_trans L h
  exact this.imp (fun h => Label.le_of_lt h)

theorem increasing_isMonotonicEq (L : List Label) (h : isIncreasing L = true) : isMonotonicEq L = true := by
  have := pairwise_chainB (fun a b => Label.le a b) L (increasing_pairwise_le L h)
  simp [isMonotonicEq, isIncreasingEq, this]

theorem increasing_head_le_last (L : List Label) (h : isIncreasing L = true) :
    headLeLast L = true := by
  unfold headLeLast
  cases L with
  | nil => rfl
  | cons x xs =>
    simp only [List.head?_cons]
    cases hl : (x :: xs).getLast? with
    | none => rfl
    | some z =>
      simp only
      have hz : z ∈ x :: xs := List.mem_of_getLast? hl
      rcases List.mem_cons.mp hz with rfl | hz'
      · exact Label.le_refl _
      · have := increasing_pairwise_le (x :: xs) h
        rw [List.pairwise_cons] at this
        exact this.1 z hz'

/-- **positive (or no) step, increasing numeric axis**: the selected positions are exactly those
whose label lies in the closed interval `[start, stop]`, in axis order; neither bound needs to be
an existing label; an interval containing no label gives the empty selection. -/
theorem locateSlice_increasing_spec (L : List Label) (kind : Kind) (start stop : Option Label)
    (hk : kind.isNumeric = true) (hinc : isIncreasing L = true)
    (hs : ∀ v, start = some v → v.isNum = true) (he : ∀ v, stop = some v → v.isNum = true) :
    (locateSlice L kind start stop none).bind (fun ab => slicePositions ab.1 ab.2 none L.length)
      = .ok (Spec.bbox L start stop) := by
  have hmono := increasing_isMonotonicEq L hinc
  have hsorted := increasing_head_le_last L hinc
  have hpw := increasing_pairwise_le L hinc
  have hsn : ((start.map Label.isNum).getD true == false) = false := by
    cases start with
    | none => rfl
    | some v => simp [hs v rfl]
  have hen : ((stop.map Label.isNum).getD true == false) = false := by
    cases stop with
    | none => rfl
    | some v => simp [he v rfl]
  unfold locateSlice
  simp only [hk, Bool.not_true, Bool.false_eq_true, if_false, hmono, hsorted, Bool.and_self, hsn, hen,
    stepPos, Bool.not_false]
  simp only [Except.bind, searchSide, if_true]
  have e1 : (start.map fun v => ((searchLeft Label.lt L v : Nat) : Int)) =
      (start.map (searchLeft Label.lt L)).map Int.ofNat := by cases start <;> rfl
  have e2 : (stop.bind fun v => some ((searchRight Label.lt L v : Nat) : Int)) =
      (stop.map (searchRight Label.lt L)).map Int.ofNat := by cases stop <;> rfl
  have hne : ((start.map fun v => ((searchLeft Label.lt L v : Nat) : Int)) == some (-1)) = false := by
    cases start with
    | none => rfl
    | some v => simp
  simp only [Bool.false_and, Bool.false_eq_true, if_false]
  rw [e1, e2]
  rw [slicePositions_nat]
  · congr 1
    unfold Spec.bbox
    apply List.filter_congr
    intro p hp
    have hp' : p < L.length := List.mem_range.mp hp
    have hget : L.getD p Label.none = L[p] := by
      simp [List.getD_eq_getElem?_getD, List.getElem?_eq_getElem hp']
    rw [hget]
    congr 1
    · cases start with
      | none => simp [Spec.leOpt]
      | some v =>
        simp only [Option.map_some, Option.getD_some, Spec.leOpt]
        have := searchLeft_partition Label.le Label.le_trans Label.le_total L hpw v p hp'
        rw [← label_lt_eq] at this
        cases hle : Label.le v L[p]
        · have := this.mpr hle
          simp; omega
        · have hnot : ¬ (p < searchLeft Label.lt L v) := fun h => by simp [this.mp h] at hle
          simp; omega
    · cases stop with
      | none => simp [Spec.geOpt, hp']
      | some w =>
        simp only [Option.map_some, Option.getD_some, Spec.geOpt]
        have := searchRight_partition Label.le Label.le_trans Label.le_total L hpw w p hp'
        rw [← label_lt_eq] at this
        cases hle : Label.le L[p] w
        · have hnot : ¬ (p < searchRight Label.lt L w) := fun h => by simp [this.mp h] at hle
          simp; omega
        · have := this.mpr hle
          simp; omega
  · intro x hx
    cases start with
    | none => simp at hx
    | some v => simp at hx; subst hx; exact searchLeft_le_length _ _ _
  · intro x hx
    cases stop with
    | none => simp at hx
    | some v => simp at hx; subst hx; exact searchRight_le_length _ _ _

/-! ### decreasing axes -/

theorem decreasing_reverse_pairwise_le (L : List Label) (h : isDecreasing L = true) :
    L.reverse.Pairwise (fun a b => Label.le a b = true) := by
  have h1 := chainB_pairwise (fun a b => Label.lt b a)
    (fun a b c hab hbc => Label.lt_trans c b a hbc hab) L h
  rw [List.pairwise_reverse]
  exact h1.imp (fun h => Label.le_of_lt h)

theorem decreasing_isMonotonicEq (L : List Label) (h : isDecreasing L = true) : isMonotonicEq L = true := by
  have h1 := chainB_pairwise (fun a b => Label.lt b a)
    (fun a b c hab hbc => Label.lt_trans c b a hbc hab) L h
  have := pairwise_chainB (fun a b => Label.le b a) L (h1.imp (fun h => Label.le_of_lt h))
  simp [isMonotonicEq, isDecreasingEq, this]

theorem decreasing_headLeLast (L : List Label) (h : isDecreasing L = true) (hlen : 2 ≤ L.length) :
    headLeLast L = false := by
  have h1 := chainB_pairwise (fun a b => Label.lt b a)
    (fun a b c hab hbc => Label.lt_trans c b a hbc hab) L h
  unfold headLeLast
  cases L with
  | nil => simp at hlen
  | cons x xs =>
    cases xs with
    | nil => simp at hlen
    | cons y ys =>
      simp only [List.head?_cons]
      have hl : (x :: y :: ys).getLast? = some ((y :: ys).getLast (by simp)) := by
        simp [List.getLast?_eq_getLast]
      rw [hl]
      simp only
      rw [List.pairwise_cons] at h1
      have := h1.1 ((y :: ys).getLast (by simp)) (List.getLast_mem _)
      simpa [Label.lt] using this

/-- **positive (or no) step, decreasing numeric axis**: the selected positions are exactly those
whose label lies in the closed interval `[stop, start]` (the first bound is the larger one on a
decreasing axis), in axis order. -/
theorem locateSlice_decreasing_spec (L : List Label) (kind : Kind) (start stop : Option Label)
    (hk : kind.isNumeric = true) (hdec : isDecreasing L = true) (hlen : 2 ≤ L.length)
    (hs : ∀ v, start = some v → v.isNum = true) (he : ∀ v, stop = some v → v.isNum = true) :
    (locateSlice L kind start stop none).bind (fun ab => slicePositions ab.1 ab.2 none L.length)
      = .ok (Spec.bbox L stop start) := by
  have hmono := decreasing_isMonotonicEq L hdec
  have hsorted := decreasing_headLeLast L hdec hlen
  have hpw := decreasing_reverse_pairwise_le L hdec
  have hsn : ((start.map Label.isNum).getD true == false) = false := by
    cases start with
    | none => rfl
    | some v => simp [hs v rfl]
  have hen : ((stop.map Label.isNum).getD true == false) = false := by
    cases stop with
    | none => rfl
    | some v => simp [he v rfl]
  have hR : L.reverse.length = L.length := List.length_reverse
  have hsr : ∀ v, searchRight Label.lt L.reverse v ≤ L.length := fun v => hR ▸ searchRight_le_length _ _ _
  have hsl : ∀ v, searchLeft Label.lt L.reverse v ≤ L.length := fun v => hR ▸ searchLeft_le_length _ _ _
  unfold locateSlice
  simp only [hk, Bool.not_true, Bool.false_eq_true, if_false, hmono, hsorted, Bool.and_false, hsn, hen,
    stepPos, Bool.not_false]
  simp only [Except.bind, searchSide, if_true]
  have e1 : (start.map fun v => ((L.length : Int) - ((searchRight Label.lt L.reverse v : Nat) : Int))) =
      (start.map (fun v => L.length - searchRight Label.lt L.reverse v)).map Int.ofNat := by
    cases start with
    | none => rfl
    | some v => have := hsr v; simp; omega
  have e2 : (stop.bind fun v => some ((L.length : Int) - ((searchLeft Label.lt L.reverse v : Nat) : Int))) =
      (stop.map (fun v => L.length - searchLeft Label.lt L.reverse v)).map Int.ofNat := by
    cases stop with
    | none => rfl
    | some v => have := hsl v; simp; omega
  have hne : ((start.map fun v => ((L.length : Int) - ((searchRight Label.lt L.reverse v : Nat) : Int))) == some (-1)) = false := by
    cases start with
    | none => rfl
    | some v => have := hsr v; simp; omega
  simp only [Bool.false_and, Bool.false_eq_true, if_false]
  rw [e1, e2]
  rw [slicePositions_nat]
  · congr 1
    unfold Spec.bbox
    apply List.filter_congr
    intro p hp
    have hp' : p < L.length := List.mem_range.mp hp
    have hget : L.getD p Label.none = L[p] := by
      simp [List.getD_eq_getElem?_getD, List.getElem?_eq_getElem hp']
    rw [hget, Bool.and_comm]
    have hq : L.length - 1 - p < L.reverse.length := by rw [hR]; omega
    have hrev : L.reverse[L.length - 1 - p] = L[p] := by
      rw [List.getElem_reverse]; congr 1; omega
    congr 1
    · cases stop with
      | none => simp [Spec.leOpt, hp']
      | some w =>
        simp only [Option.map_some, Option.getD_some, Spec.leOpt]
        have := searchLeft_partition Label.le Label.le_trans Label.le_total L.reverse hpw w _ hq
        rw [← label_lt_eq, hrev] at this
        have hb := hsl w
        cases hle : Label.le w L[p]
        · have := this.mpr hle
          simp; omega
        · have hnot : ¬ (L.length - 1 - p < searchLeft Label.lt L.reverse w) := fun h => by simp [this.mp h] at hle
          simp; omega
    · cases start with
      | none => simp [Spec.geOpt]
      | some v =>
        simp only [Option.map_some, Option.getD_some, Spec.geOpt]
        have := searchRight_partition Label.le Label.le_trans Label.le_total L.reverse hpw v _ hq
        rw [← label_lt_eq, hrev] at this
        have hb := hsr v
        cases hle : Label.le L[p] v
        · have hnot : ¬ (L.length - 1 - p < searchRight Label.lt L.reverse v) := fun h => by simp [this.mp h] at hle
          simp; omega
        · have := this.mpr hle
          simp; omega
  · intro x hx
    cases start with
    | none => simp at hx
    | some v => simp at hx; omega
  · intro x hx
    cases stop with
    | none => simp at hx
    | some v => simp at hx; omega

/-! ### other axes: both bounds must be existing labels -/

/-- **non-numeric or non-monotonic axis, positive (or no) step**: the slice runs from the position
of the first bound to the position of the second, inclusive; an open bound extends to the end;
an absent bound is an `IndexError`. -/
theorem locateSlice_strict_spec (L : List Label) (kind : Kind) (start stop : Option Label)
    (hstrict : kind.isNumeric = false ∨ isMonotonicEq L = false)
    (hs : ∀ v, start = some v → v ∈ L) (he : ∀ v, stop = some v → v ∈ L) :
    (locateSlice L kind start stop none).bind (fun ab => slicePositions ab.1 ab.2 none L.length)
      = .ok (Spec.posRange L.length (start.map (firstIdx L)) (stop.map (firstIdx L))) := by
  have hstr : locateSlice L kind start stop none = locateSliceStrict L start stop none := by
    unfold locateSlice
    rcases hstrict with h | h
    · simp [h]
    · cases hk : kind.isNumeric <;> simp [h]
  rw [hstr]
  have hval : locateSliceStrict L start stop none =
      .ok ((start.map (firstIdx L)).map Int.ofNat, (stop.map (fun v => firstIdx L v + 1)).map Int.ofNat) := by
    unfold locateSliceStrict
    cases start with
    | none =>
      cases stop with
      | none => rfl
      | some w =>
        simp [locateOne_none, he w rfl, stepPos, bind, Except.bind, pure, Except.pure]
    | some v =>
      cases stop with
      | none => simp [locateOne_none, hs v rfl, bind, Except.bind, pure, Except.pure]
      | some w =>
        simp [locateOne_none, hs v rfl, he w rfl, stepPos, bind, Except.bind, pure, Except.pure]
  rw [hval]
  simp only [Except.bind]
  rw [slicePositions_nat]
  · congr 1
    unfold Spec.posRange
    apply List.filter_congr
    intro p hp
    have hp' : p < L.length := List.mem_range.mp hp
    congr 1
    · cases start <;> simp
    · cases stop with
      | none => simp [hp']
      | some w => simp; omega
  · intro x hx
    cases start with
    | none => simp at hx
    | some v =>
      simp at hx; subst hx
      exact Nat.le_of_lt (firstIdx_lt_iff.mpr (hs v rfl))
  · intro x hx
    cases stop with
    | none => simp at hx
    | some v =>
      simp at hx; subst hx
      exact firstIdx_lt_iff.mpr (he v rfl)

/-- an absent bound on such an axis raises `IndexError` -/
theorem locateSlice_strict_absent (L : List Label) (kind : Kind) (start stop : Option Label)
    (step : Option Int) (hstrict : kind.isNumeric = false) (v : Label) (hv : v ∉ L)
    (h : start = some v) : locateSlice L kind start stop step = .error .index := by
  subst h
  unfold locateSlice locateSliceStrict
  simp [hstrict, locateOne_none, hv, bind, Except.bind]

/-- **never a wrapped-around selection** (positive or no step, monotonic numeric axis): when no
label lies between the bounds the result is empty, and in general every selected position carries
a label inside the closed interval. -/
theorem slice_never_wraps (L : List Label) (lo hi : Option Label) (p : Nat) (hp : p ∈ Spec.bbox L lo hi) :
    p < L.length ∧ Spec.leOpt lo (L.getD p Label.none) = true ∧ Spec.geOpt hi (L.getD p Label.none) = true := by
  unfold Spec.bbox at hp
  have := List.mem_filter.mp hp
  simp only [Bool.and_eq_true] at this
  exact ⟨List.mem_range.mp this.1, this.2.1, this.2.2⟩

/-- non-vacuity: an increasing axis and bounds that are not labels -/
example : isIncreasing [.num 10, .num 20, .num 40] = true ∧
    Spec.bbox [.num 10, .num 20, .num 40] (some (.num 15)) (some (.num 50)) = [1, 2] ∧
    Spec.bbox [.num 10, .num 20, .num 40] (some (.num 25)) (some (.num 30)) = [] := by
  refine ⟨by decide, by decide, by decide⟩


/-! ### helper lemmas for the all-steps theorems -/

theorem label_getD_eq_getElem (L : List Label) (p : Nat) (hp : p < L.length) : L.getD p Label.none = L[p] := by
  simp [List.getD_eq_getElem?_getD, List.getElem?_eq_getElem hp]

/-- on an increasing axis the bounding box is an interval of positions -/
theorem bbox_increasing (L : List Label) (hinc : isIncreasing L = true) (lo hi : Option Label) :
    Spec.bbox L lo hi =
      List.range' ((lo.map (searchLeft Label.lt L)).getD 0)
        ((hi.map (searchRight Label.lt L)).getD L.length - (lo.map (searchLeft Label.lt L)).getD 0) := by
  have hpw := increasing_pairwise_le L hinc
  have hB : (hi.map (searchRight Label.lt L)).getD L.length ≤ L.length := by
    cases hi with
    | none => simp
    | some w => exact searchRight_le_length _ _ _
  rw [← filter_range_interval L.length _ _ hB]
  unfold Spec.bbox
  apply List.filter_congr
  intro p hp
  have hp' : p < L.length := List.mem_range.mp hp
  rw [label_getD_eq_getElem L p hp']
  congr 1
  · cases lo with
    | none => simp [Spec.leOpt]
    | some v =>
      simp only [Option.map_some, Option.getD_some, Spec.leOpt]
      have := searchLeft_partition Label.le Label.le_trans Label.le_total L hpw v p hp'
      rw [← label_lt_eq] at this
      cases hle : Label.le v L[p]
      · have := this.mpr hle
        simp; omega
      · have hnot : ¬ (p < searchLeft Label.lt L v) := fun h => by simp [this.mp h] at hle
        simp; omega
  · cases hi with
    | none => simp [Spec.geOpt, hp']
    | some w =>
      simp only [Option.map_some, Option.getD_some, Spec.geOpt]
      have := searchRight_partition Label.le Label.le_trans Label.le_total L hpw w p hp'
      rw [← label_lt_eq] at this
      cases hle : Label.le L[p] w
      · have hnot : ¬ (p < searchRight Label.lt L w) := fun h => by simp [this.mp h] at hle
        simp; omega
      · have := this.mpr hle
        simp; omega

/-- on a decreasing axis too (positions counted from the far end of the reversed axis) -/
theorem bbox_decreasing (L : List Label) (hdec : isDecreasing L = true) (lo hi : Option Label) :
    Spec.bbox L lo hi =
      List.range' ((hi.map fun v => L.length - searchRight Label.lt L.reverse v).getD 0)
        ((lo.map fun w => L.length - searchLeft Label.lt L.reverse w).getD L.length
          - (hi.map fun v => L.length - searchRight Label.lt L.reverse v).getD 0) := by
  have hpw := decreasing_reverse_pairwise_le L hdec
  have hR : L.reverse.length = L.length := List.length_reverse
  have hsr : ∀ v, searchRight Label.lt L.reverse v ≤ L.length := fun v => hR ▸ searchRight_le_length _ _ _
  have hsl : ∀ v, searchLeft Label.lt L.reverse v ≤ L.length := fun v => hR ▸ searchLeft_le_length _ _ _
  have hB : (lo.map fun w => L.length - searchLeft Label.lt L.reverse w).getD L.length ≤ L.length := by
    cases lo with
    | none => simp
    | some w => simp
  rw [← filter_range_interval L.length _ _ hB]
  unfold Spec.bbox
  apply List.filter_congr
  intro p hp
  have hp' : p < L.length := List.mem_range.mp hp
  rw [label_getD_eq_getElem L p hp', Bool.and_comm]
  have hq : L.length - 1 - p < L.reverse.length := by rw [hR]; omega
  have hrev : L.reverse[L.length - 1 - p] = L[p] := by
    rw [List.getElem_reverse]; congr 1; omega
  congr 1
  · cases hi with
    | none => simp [Spec.geOpt]
    | some v =>
      simp only [Option.map_some, Option.getD_some, Spec.geOpt]
      have := searchRight_partition Label.le Label.le_trans Label.le_total L.reverse hpw v _ hq
      rw [← label_lt_eq, hrev] at this
      have hb := hsr v
      cases hle : Label.le L[p] v
      · have hnot : ¬ (L.length - 1 - p < searchRight Label.lt L.reverse v) := fun h => by simp [this.mp h] at hle
        simp; omega
      · have := this.mpr hle
        simp; omega
  · cases lo with
    | none => simp [Spec.leOpt, hp']
    | some w =>
      simp only [Option.map_some, Option.getD_some, Spec.leOpt]
      have := searchLeft_partition Label.le Label.le_trans Label.le_total L.reverse hpw w _ hq
      rw [← label_lt_eq, hrev] at this
      have hb := hsl w
      cases hle : Label.le w L[p]
      · have := this.mpr hle
        simp; omega
      · have hnot : ¬ (L.length - 1 - p < searchLeft Label.lt L.reverse w) := fun h => by simp [this.mp h] at hle
        simp; omega



theorem numBound_ok (b : Option Label) (h : ∀ v, b = some v → v.isNum = true) :
    ((b.map Label.isNum).getD true == false) = false := by
  cases b with
  | none => rfl
  | some v => simp [h v rfl]

theorem step_getD_ne (step : Option Int) (hstep : step ≠ some 0) : (step.getD 1 == 0) = false := by
  rw [beq_eq_false_iff_ne]
  cases step with
  | none => decide
  | some k => simp at hstep ⊢; exact hstep

theorem sliceSel_bbox_pos (L : List Label) (kind : Kind) (start stop : Option Label) (step : Option Int)
    (hk : kind.isNumeric = true) (hmono : isMonotonicEq L = true)
    (hs : ∀ v, start = some v → v.isNum = true) (he : ∀ v, stop = some v → v.isNum = true)
    (hpos : 0 < step.getD 1) :
    Spec.sliceSel L kind start stop step = some (Spec.everyKth (step.getD 1).natAbs
      (if headLeLast L then Spec.bbox L start stop else Spec.bbox L stop start)) := by
  have h0 : (step.getD 1 == 0) = false := by rw [beq_eq_false_iff_ne]; omega
  unfold Spec.sliceSel Spec.isBBoxAxis Spec.isIncreasingAxis
  simp only [h0, hk, hmono, numBound_ok start hs, numBound_ok stop he, Bool.false_eq_true, if_false,
    Bool.and_self, if_true, Bool.or_self, gt_iff_lt, hpos]
  cases headLeLast L <;> rfl

theorem sliceSel_bbox_neg (L : List Label) (kind : Kind) (start stop : Option Label) (step : Option Int)
    (hk : kind.isNumeric = true) (hmono : isMonotonicEq L = true)
    (hs : ∀ v, start = some v → v.isNum = true) (he : ∀ v, stop = some v → v.isNum = true)
    (hneg : step.getD 1 < 0) :
    Spec.sliceSel L kind start stop step = some (Spec.everyKth (step.getD 1).natAbs
      (if headLeLast L then Spec.bbox L stop start else Spec.bbox L start stop).reverse) := by
  have h0 : (step.getD 1 == 0) = false := by rw [beq_eq_false_iff_ne]; omega
  have h1 : ¬ (0 < step.getD 1) := by omega
  unfold Spec.sliceSel Spec.isBBoxAxis Spec.isIncreasingAxis
  simp only [h0, hk, hmono, numBound_ok start hs, numBound_ok stop he, Bool.false_eq_true, if_false,
    Bool.and_self, if_true, Bool.or_self, gt_iff_lt, h1]
  cases headLeLast L <;> rfl


theorem locateSlice_inc_pos (L : List Label) (kind : Kind) (start stop : Option Label) (step : Option Int)
    (hk : kind.isNumeric = true) (hinc : isIncreasing L = true)
    (hs : ∀ v, start = some v → v.isNum = true) (he : ∀ v, stop = some v → v.isNum = true)
    (hpos : 0 < step.getD 1) :
    (locateSlice L kind start stop step).bind (fun ab => slicePositions ab.1 ab.2 step L.length)
      = .ok (Spec.everyKth (step.getD 1).natAbs (Spec.bbox L start stop)) := by
  have hmono := increasing_isMonotonicEq L hinc
  have hsorted := increasing_head_le_last L hinc
  have hsp : stepPos step = true := by rw [stepPos_eq]; simpa using hpos
  unfold locateSlice
  simp only [hk, Bool.not_true, Bool.false_eq_true, if_false, hmono, hsorted, Bool.and_self,
    numBound_ok start hs, numBound_ok stop he, hsp, Bool.false_and]
  simp only [Except.bind, searchSide, if_true]
  rw [bbox_increasing L hinc]
  apply slicePositions_step_pos _ _ _ _ _ _ hpos
  · cases start with
    | none => simp
    | some v => exact searchLeft_le_length _ _ _
  · cases stop with
    | none => simp
    | some v => exact searchRight_le_length _ _ _
  · cases start with
    | none => exact Or.inl ⟨rfl, rfl⟩
    | some v => exact Or.inr rfl
  · cases stop with
    | none => exact Or.inl ⟨rfl, rfl⟩
    | some v => exact Or.inr rfl

theorem locateSlice_inc_neg (L : List Label) (kind : Kind) (start stop : Option Label) (step : Option Int)
    (hk : kind.isNumeric = true) (hinc : isIncreasing L = true)
    (hs : ∀ v, start = some v → v.isNum = true) (he : ∀ v, stop = some v → v.isNum = true)
    (hneg : step.getD 1 < 0) :
    (locateSlice L kind start stop step).bind (fun ab => slicePositions ab.1 ab.2 step L.length)
      = .ok (Spec.everyKth (step.getD 1).natAbs (Spec.bbox L stop start).reverse) := by
  have hmono := increasing_isMonotonicEq L hinc
  have hsorted := increasing_head_le_last L hinc
  have hsp : stepPos step = false := by rw [stepPos_eq]; simp; omega
  have hstep : step ≠ some 0 := by intro h; rw [h] at hneg; simp at hneg
  unfold locateSlice
  simp only [hk, Bool.not_true, Bool.false_eq_true, if_false, hmono, hsorted, Bool.and_self,
    numBound_ok start hs, numBound_ok stop he, hsp, Bool.not_false, Bool.true_and]
  simp only [searchSide]
  rw [bbox_increasing L hinc]
  exact slice_assemble_neg start stop step L.length
    (fun v => ((searchLeft Label.lt L v : Nat) : Int)) (fun v => ((searchRight Label.lt L v : Nat) : Int))
    (searchLeft Label.lt L) (searchRight Label.lt L) (fun _ => rfl) (fun _ => rfl)
    (fun v => searchLeft_le_length _ _ _) (fun v => searchRight_le_length _ _ _) hneg

theorem locateSlice_dec_pos (L : List Label) (kind : Kind) (start stop : Option Label) (step : Option Int)
    (hk : kind.isNumeric = true) (hdec : isDecreasing L = true) (hlen : 2 ≤ L.length)
    (hs : ∀ v, start = some v → v.isNum = true) (he : ∀ v, stop = some v → v.isNum = true)
    (hpos : 0 < step.getD 1) :
    (locateSlice L kind start stop step).bind (fun ab => slicePositions ab.1 ab.2 step L.length)
      = .ok (Spec.everyKth (step.getD 1).natAbs (Spec.bbox L stop start)) := by
  have hmono := decreasing_isMonotonicEq L hdec
  have hsorted := decreasing_headLeLast L hdec hlen
  have hsp : stepPos step = true := by rw [stepPos_eq]; simpa using hpos
  have hR : L.reverse.length = L.length := List.length_reverse
  have hsr : ∀ v, searchRight Label.lt L.reverse v ≤ L.length := fun v => hR ▸ searchRight_le_length _ _ _
  have hsl : ∀ v, searchLeft Label.lt L.reverse v ≤ L.length := fun v => hR ▸ searchLeft_le_length _ _ _
  unfold locateSlice
  simp only [hk, Bool.not_true, Bool.false_eq_true, if_false, hmono, hsorted, Bool.and_false,
    numBound_ok start hs, numBound_ok stop he, hsp, Bool.false_and, Bool.not_false]
  simp only [Except.bind, searchSide, if_true]
  rw [bbox_decreasing L hdec]
  exact slice_assemble_pos start stop step L.length
    (fun v => (L.length : Int) - ((searchRight Label.lt L.reverse v : Nat) : Int))
    (fun v => (L.length : Int) - ((searchLeft Label.lt L.reverse v : Nat) : Int))
    (fun v => L.length - searchRight Label.lt L.reverse v) (fun v => L.length - searchLeft Label.lt L.reverse v)
    (fun v => by have := hsr v; omega) (fun v => by have := hsl v; omega)
    (fun v => Nat.sub_le _ _) (fun v => Nat.sub_le _ _) hpos

theorem locateSlice_dec_neg (L : List Label) (kind : Kind) (start stop : Option Label) (step : Option Int)
    (hk : kind.isNumeric = true) (hdec : isDecreasing L = true) (hlen : 2 ≤ L.length)
    (hs : ∀ v, start = some v → v.isNum = true) (he : ∀ v, stop = some v → v.isNum = true)
    (hneg : step.getD 1 < 0) :
    (locateSlice L kind start stop step).bind (fun ab => slicePositions ab.1 ab.2 step L.length)
      = .ok (Spec.everyKth (step.getD 1).natAbs (Spec.bbox L start stop).reverse) := by
  have hmono := decreasing_isMonotonicEq L hdec
  have hsorted := decreasing_headLeLast L hdec hlen
  have hsp : stepPos step = false := by rw [stepPos_eq]; simp; omega
  have hR : L.reverse.length = L.length := List.length_reverse
  have hsr : ∀ v, searchRight Label.lt L.reverse v ≤ L.length := fun v => hR ▸ searchRight_le_length _ _ _
  have hsl : ∀ v, searchLeft Label.lt L.reverse v ≤ L.length := fun v => hR ▸ searchLeft_le_length _ _ _
  unfold locateSlice
  simp only [hk, Bool.not_true, Bool.false_eq_true, if_false, hmono, hsorted, Bool.and_false,
    numBound_ok start hs, numBound_ok stop he, hsp, Bool.not_false, Bool.true_and]
  simp only [searchSide, if_true]
  rw [bbox_decreasing L hdec]
  exact slice_assemble_neg start stop step L.length
    (fun v => (L.length : Int) - ((searchRight Label.lt L.reverse v : Nat) : Int))
    (fun v => (L.length : Int) - ((searchLeft Label.lt L.reverse v : Nat) : Int))
    (fun v => L.length - searchRight Label.lt L.reverse v) (fun v => L.length - searchLeft Label.lt L.reverse v)
    (fun v => by have := hsr v; omega) (fun v => by have := hsl v; omega)
    (fun v => Nat.sub_le _ _) (fun v => Nat.sub_le _ _) hneg


theorem posRange_interval (n : Nat) (i j : Option Nat) (hj : ∀ b, j = some b → b < n) :
    Spec.posRange n i j = List.range' (i.getD 0) ((j.map (· + 1)).getD n - i.getD 0) := by
  have hB : (j.map (· + 1)).getD n ≤ n := by
    cases j with
    | none => simp
    | some b => have := hj b rfl; simp; omega
  rw [← filter_range_interval n _ _ hB]
  unfold Spec.posRange
  apply List.filter_congr
  intro p hp
  have hp' : p < n := List.mem_range.mp hp
  congr 1
  · cases i <;> simp
  · cases j with
    | none => simp [hp']
    | some b => simp; omega

theorem locateSlice_eq_strict (L : List Label) (kind : Kind) (start stop : Option Label) (step : Option Int)
    (hstrict : (kind.isNumeric && isMonotonicEq L) = false) :
    locateSlice L kind start stop step = locateSliceStrict L start stop step := by
  unfold locateSlice
  cases hk : kind.isNumeric
  · simp
  · rw [hk] at hstrict
    simp at hstrict
    simp [hstrict]

theorem locateSliceStrict_pos (L : List Label) (start stop : Option Label) (step : Option Int)
    (hs : ∀ v, start = some v → v ∈ L) (he : ∀ v, stop = some v → v ∈ L) (hsp : stepPos step = true) :
    locateSliceStrict L start stop step =
      .ok (start.map (fun v => ((firstIdx L v : Nat) : Int)), stop.map (fun v => ((firstIdx L v : Nat) : Int) + 1)) := by
  unfold locateSliceStrict
  cases start with
  | none =>
    cases stop with
    | none => rfl
    | some w => simp [locateOne_none, he w rfl, hsp, bind, Except.bind, pure, Except.pure]
  | some v =>
    cases stop with
    | none => simp [locateOne_none, hs v rfl, bind, Except.bind, pure, Except.pure]
    | some w => simp [locateOne_none, hs v rfl, he w rfl, hsp, bind, Except.bind, pure, Except.pure]

theorem locateSliceStrict_neg (L : List Label) (start stop : Option Label) (step : Option Int)
    (hs : ∀ v, start = some v → v ∈ L) (he : ∀ v, stop = some v → v ∈ L) (hsp : stepPos step = false) :
    locateSliceStrict L start stop step =
      .ok (start.map (fun v => ((firstIdx L v : Nat) : Int)),
        stop.bind (fun v => if (((firstIdx L v : Nat) : Int) == 0) = true then none
          else some (((firstIdx L v : Nat) : Int) - 1))) := by
  unfold locateSliceStrict
  cases start with
  | none =>
    cases stop with
    | none => rfl
    | some w =>
      simp only [locateOne_none, he w rfl, hsp, bind, Except.bind, pure, Except.pure, if_true,
        Bool.false_eq_true, if_false, Option.bind_some]
      split <;> rfl
  | some v =>
    cases stop with
    | none => simp [locateOne_none, hs v rfl, bind, Except.bind, pure, Except.pure]
    | some w =>
      simp only [locateOne_none, hs v rfl, he w rfl, hsp, bind, Except.bind, pure, Except.pure, if_true,
        Bool.false_eq_true, if_false, Option.bind_some, Option.map_some]
      split <;> rfl


theorem sliceSel_strict_eq (L : List Label) (kind : Kind) (start stop : Option Label) (step : Option Int)
    (hstrict : (kind.isNumeric && isMonotonicEq L) = false)
    (hs : ∀ v, start = some v → v ∈ L) (he : ∀ v, stop = some v → v ∈ L)
    (hstep0 : (step.getD 1 == 0) = false) :
    Spec.sliceSel L kind start stop step = some (Spec.everyKth (step.getD 1).natAbs
      (if step.getD 1 > 0 then Spec.posRange L.length (start.map (firstIdx L)) (stop.map (firstIdx L))
       else (Spec.posRange L.length (stop.map (firstIdx L)) (start.map (firstIdx L))).reverse)) := by
  unfold Spec.sliceSel Spec.isBBoxAxis
  simp only [hstep0, hstrict, Bool.false_eq_true, if_false]
  cases start with
  | none =>
    cases stop with
    | none => simp
    | some w => simp [he w rfl]
  | some v =>
    cases stop with
    | none => simp [hs v rfl]
    | some w => simp [hs v rfl, he w rfl]

/-! ### all steps (round 2): the model's `locate_slice` followed by Python's `slice.indices` equals the
definitional spec `Spec.sliceSel` - bounding box in axis order, or in reverse order for a negative step,
keeping every |step|-th element - on every monotonic numeric axis -/

/-- FULL STATEMENT of C02's first sentence: for every strictly monotonic numeric axis (any length, both
directions), any numeric bounds (labels or not, or open) and any non-zero step, the positions selected
are `Spec.sliceSel` -/
theorem locateSlice_sliceSel_monotonic (L : List Label) (kind : Kind) (start stop : Option Label) (step : Option Int)
    (hk : kind.isNumeric = true) (hmono : isIncreasing L = true ∨ isDecreasing L = true)
    (hs : ∀ v, start = some v → v.isNum = true) (he : ∀ v, stop = some v → v.isNum = true)
    (hstep : step ≠ some 0) :
    ∃ ps, Spec.sliceSel L kind start stop step = some ps ∧
      (locateSlice L kind start stop step).bind (fun ab => slicePositions ab.1 ab.2 step L.length) = .ok ps := by
  have hstep0 := step_getD_ne step hstep
  have hdir : isIncreasing L = true ∨ (isDecreasing L = true ∧ 2 ≤ L.length) := by
    rcases hmono with h | h
    · exact Or.inl h
    · by_cases hl : 2 ≤ L.length
      · exact Or.inr ⟨h, hl⟩
      · left
        match L, hl with
        | [], _ => rfl
        | [_], _ => rfl
        | _ :: _ :: _, hl => simp at hl
  by_cases hpos : 0 < step.getD 1
  · rcases hdir with hinc | ⟨hdec, hlen⟩
    · refine ⟨_, ?_, locateSlice_inc_pos L kind start stop step hk hinc hs he hpos⟩
      rw [sliceSel_bbox_pos L kind start stop step hk (increasing_isMonotonicEq L hinc) hs he hpos,
        increasing_head_le_last L hinc]
      rfl
    · refine ⟨_, ?_, locateSlice_dec_pos L kind start stop step hk hdec hlen hs he hpos⟩
      rw [sliceSel_bbox_pos L kind start stop step hk (decreasing_isMonotonicEq L hdec) hs he hpos,
        decreasing_headLeLast L hdec hlen]
      rfl
  · have hneg : step.getD 1 < 0 := by
      have := beq_eq_false_iff_ne.mp hstep0
      omega
    rcases hdir with hinc | ⟨hdec, hlen⟩
    · refine ⟨_, ?_, locateSlice_inc_neg L kind start stop step hk hinc hs he hneg⟩
      rw [sliceSel_bbox_neg L kind start stop step hk (increasing_isMonotonicEq L hinc) hs he hneg,
        increasing_head_le_last L hinc]
      rfl
    · refine ⟨_, ?_, locateSlice_dec_neg L kind start stop step hk hdec hlen hs he hneg⟩
      rw [sliceSel_bbox_neg L kind start stop step hk (decreasing_isMonotonicEq L hdec) hs he hneg,
        decreasing_headLeLast L hdec hlen]
      rfl

/-- ... and on non-numeric or non-monotonic axes with both bounds existing labels (or open): from the first
to the second, inclusive, every |step|-th element, reversed for a negative step -/
theorem locateSlice_sliceSel_strict (L : List Label) (kind : Kind) (start stop : Option Label) (step : Option Int)
    (hstrict : (kind.isNumeric && isMonotonicEq L) = false) (hn : L.Nodup)
    (hs : ∀ v, start = some v → v ∈ L) (he : ∀ v, stop = some v → v ∈ L)
    (hstep : step ≠ some 0) :
    ∃ ps, Spec.sliceSel L kind start stop step = some ps ∧
      (locateSlice L kind start stop step).bind (fun ab => slicePositions ab.1 ab.2 step L.length) = .ok ps := by
  have _ := hn  -- not needed: `firstIdx` is the first occurrence in model and spec alike, duplicates or not
  have hstep0 := step_getD_ne step hstep
  refine ⟨_, sliceSel_strict_eq L kind start stop step hstrict hs he hstep0, ?_⟩
  rw [locateSlice_eq_strict L kind start stop step hstrict]
  have hfi : ∀ v, v ∈ L → firstIdx L v < L.length := fun v hv => firstIdx_lt_iff.mpr hv
  by_cases hpos : 0 < step.getD 1
  · have hsp : stepPos step = true := by rw [stepPos_eq]; simpa using hpos
    rw [locateSliceStrict_pos L start stop step hs he hsp, if_pos hpos]
    simp only [Except.bind]
    rw [posRange_interval]
    · apply slicePositions_step_pos _ _ _ _ _ _ hpos
      · cases start with
        | none => simp
        | some v => have := hfi v (hs v rfl); simp; omega
      · cases stop with
        | none => simp
        | some w => have := hfi w (he w rfl); simp; omega
      · cases start with
        | none => exact Or.inl ⟨rfl, rfl⟩
        | some v => exact Or.inr rfl
      · cases stop with
        | none => exact Or.inl ⟨rfl, rfl⟩
        | some w => exact Or.inr (by simp)
    · intro b hb
      cases stop with
      | none => simp at hb
      | some w => simp at hb; subst hb; exact hfi w (he w rfl)
  · have hneg : step.getD 1 < 0 := by
      have := beq_eq_false_iff_ne.mp hstep0
      omega
    have hsp : stepPos step = false := by rw [stepPos_eq]; simp; omega
    rw [locateSliceStrict_neg L start stop step hs he hsp, if_neg hpos]
    simp only [Except.bind]
    rw [posRange_interval]
    · apply slicePositions_step_neg _ _ _ _ _ _ hneg
      · cases stop with
        | none => simp
        | some w => have := hfi w (he w rfl); simp; omega
      · cases start with
        | none => simp
        | some v => have := hfi v (hs v rfl); simp; omega
      · cases start with
        | none => exact Or.inl ⟨rfl, rfl⟩
        | some v => exact Or.inr ⟨by simp, by simp⟩
      · cases stop with
        | none => exact Or.inl ⟨rfl, rfl⟩
        | some w =>
          by_cases h2 : (((firstIdx L w : Nat) : Int) == 0) = true
          · left
            simp at h2
            simp [h2]
          · right
            simp at h2
            simp [h2]
            omega
    · intro b hb
      cases start with
      | none => simp at hb
      | some v => simp at hb; subst hb; exact hfi v (hs v rfl)

/-- a bound that is not an existing label is refused on such axes -/
theorem locateSlice_sliceSel_strict_absent (L : List Label) (kind : Kind) (start stop : Option Label) (step : Option Int)
    (hstrict : (kind.isNumeric && isMonotonicEq L) = false)
    (habs : (∃ v, start = some v ∧ v ∉ L) ∨ (∃ v, stop = some v ∧ v ∉ L)) (hstep : step ≠ some 0) :
    Spec.sliceSel L kind start stop step = none ∧
      ∃ e, (locateSlice L kind start stop step).bind (fun ab => slicePositions ab.1 ab.2 step L.length) = .error e := by
  have hstep0 := step_getD_ne step hstep
  constructor
  · unfold Spec.sliceSel Spec.isBBoxAxis
    simp only [hstep0, hstrict, Bool.false_eq_true, if_false]
    rcases habs with ⟨v, rfl, hv⟩ | ⟨w, rfl, hw⟩
    · simp [hv]
    · cases start with
      | none => simp [hw]
      | some v => by_cases hv : v ∈ L <;> simp [hv, hw]
  · rw [locateSlice_eq_strict L kind start stop step hstrict]
    refine ⟨.index, ?_⟩
    unfold locateSliceStrict
    rcases habs with ⟨v, rfl, hv⟩ | ⟨w, rfl, hw⟩
    · simp [locateOne_none, hv, bind, Except.bind]
    · cases start with
      | none => simp [locateOne_none, hw, bind, Except.bind, pure, Except.pure]
      | some v => by_cases hv : v ∈ L <;> simp [locateOne_none, hv, hw, bind, Except.bind, pure, Except.pure]

end DimModel

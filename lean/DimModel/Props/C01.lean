/-
C01 - property theorems (label indexing returns exactly the data stored at those labels).
Only statements and their proofs from helper lemmas; helper lemmas live in Proofs/.
-/
import DimModel.Proofs.C01
namespace DimModel
open Lib

/-! ### locate_one / locate_many / loc -/

/-- A present label is found at its first position; an absent label is an `IndexError`, never
a neighbour. -/
theorem locateOne_spec (L : List Label) (v : Label) (p : Nat) :
    locateOne L v none = .ok p ↔ (v ∈ L ∧ p = firstIdx L v) := by
  rw [locateOne_none]
  by_cases h : v ∈ L
  · simp [h, eq_comm]
  · simp [h]

theorem locateOne_absent (L : List Label) (v : Label) (h : v ∉ L) :
    locateOne L v none = .error .index := by
  rw [locateOne_none]; simp [h]

/-- `locate_many` (argsort + searchsorted + clip) lands on the requested label whenever it is on
the axis, for labels stored in *any* order. -/
theorem locateMany_found (L vs : List Label) (k : Nat) (hk : k < vs.length) (hv : vs[k] ∈ L) :
    L[(locateMany L vs .left)[k]'(by simpa [locateMany] using hk)]? = some vs[k] := by
  simp only [locateMany, List.getElem_map]
  exact locateMany_entry_found L vs[k] hv

/-- list indexing on a duplicate-free axis: the positions of the requested labels, in the
requested order (repeats allowed) -/
theorem loc_list_spec (L : List Label) (kind : Kind) (vs : List Label) (hn : L.Nodup)
    (hall : ∀ v ∈ vs, v ∈ L) :
    loc L kind (.list vs) none false = .ok (.ints ((vs.map (firstIdx L)).map Int.ofNat)) := by
  rw [loc_list L kind vs hn]
  have : vs.all (fun v => decide (v ∈ L)) = true := by simpa using hall
  simp [this]

/-- a label that is not on the axis raises `IndexError` instead of returning another element -/
theorem loc_list_absent (L : List Label) (kind : Kind) (vs : List Label) (hn : L.Nodup)
    (v : Label) (hv : v ∈ vs) (hvL : v ∉ L) :
    loc L kind (.list vs) none false = .error .index := by
  rw [loc_list L kind vs hn]
  have : vs.all (fun v => decide (v ∈ L)) = false := by
    rw [List.all_eq_false]; exact ⟨v, hv, by simpa using hvL⟩
  simp [this]

/-! ### the N-d read -/

/-- the per-dimension step of `_get_indices` in label mode without tolerance / keepdims -/
def giLabel (cfg : IndexCfg) : Ix × Axis → Except Err RawIx := fun (ix, ax) => do
  let r ← match ix with
    | .mask m => pure (RawIx.mask m)
    | _ =>
      if cfg.mode != .position && !ix.isFull then loc ax.labels ax.kind ix cfg.tol
      else ixToRaw ix
  match r with
  | .int i => pure (if cfg.keepdims then RawIx.ints [i] else r)
  | _ => pure r

theorem slicePositions_full (n : Nat) : slicePositions none none none n = .ok (List.range n) := by
  unfold slicePositions sliceIndices
  simp only [Option.getD_none]
  have h1 : ((1 : Int) == 0) = false := by decide
  simp only [h1, Bool.false_eq_true, if_false]
  have h2 : ¬ ((1 : Int) < 0) := by decide
  simp only [h2, if_false]
  show Except.ok (rangeList 0 (n : Int) 1) = Except.ok (List.range n)
  congr 1
  unfold rangeList rangeLen
  have h3 : (1 : Int) > 0 := by decide
  simp only [h3, if_true]
  by_cases hn : (0 : Int) < n
  · simp only [hn, if_true]
    have : ((n : Int) - 0 - 1) / 1 + 1 = n := by omega
    rw [this]
    simp only [Int.toNat_natCast]
    apply List.ext_getElem
    · simp
    · intro i h1 h2
      simp
  · have : n = 0 := by omega
    subst this
    simp

theorem nodup_range_map_getD (L : List Label) :
    (List.range L.length).map (fun p => L.getD p Label.none) = L := by
  apply List.ext_getElem
  · simp
  · intro i h1 h2
    simp at h1
    simp [List.getD_eq_getElem?_getD, List.getElem?_eq_getElem h1]

theorem axisSelect_range (ax : Axis) (hp : ax.members = []) :
    axisSelect ax (List.range ax.labels.length) = ax := by
  unfold axisSelect
  rw [nodup_range_map_getD]
  cases ax
  simp_all

theorem axis_size_plain (ax : Axis) (hp : ax.members = []) : ax.size = ax.labels.length := by
  simp [Axis.size, hp]

theorem resolve_ints_nat (n : Nat) (ps : List Nat) (h : ∀ p ∈ ps, p < n) :
    resolveRaw (.ints (ps.map Int.ofNat)) n = .ok (.list ps) := by
  have : (ps.map Int.ofNat).mapM (fun (i : Int) =>
      (let j := if i < 0 then i + (n : Int) else i
       if j < 0 || j ≥ (n : Int) then Except.error Err.index else Except.ok j.toNat : Except Err Nat))
      = .ok ps := by
    induction ps with
    | nil => rfl
    | cons p ps ih =>
      have hp : p < n := h p (by simp)
      have ih' := ih (fun w hw => h w (by simp [hw]))
      simp only [List.map_cons, List.mapM_cons, ih']
      have h1 : ¬ ((p : Int) < 0) := by omega
      have h2 : ¬ ((n : Int) ≤ (p : Int)) := by omega
      simp [h1, h2, bind, Except.bind, pure, Except.pure]
  simp only [resolveRaw, this, bind, Except.bind, pure, Except.pure]

/-- per-dimension refinement: `_get_indices` followed by NumPy's resolution of the index gives
exactly the positions the spec names, or `IndexError` -/
theorem perDim_spec (cfg : IndexCfg) (hm : cfg.mode = .label) (ht : cfg.tol = none)
    (hk : cfg.keepdims = false) (ix : Ix) (ax : Axis) (hs : Spec.SimpleIx ix)
    (hn : ax.labels.Nodup) (hp : ax.members = []) :
    (∃ r p, giLabel cfg (ix, ax) = .ok r ∧ resolveRaw r ax.size = .ok p ∧
        Spec.positions ax.labels ix = some p ∧
        (∀ ps, p = .list ps → r = RawIx.slice none none none → axisSelect ax ps = ax)) ∨
    (giLabel cfg (ix, ax) = .error .index ∧ Spec.positions ax.labels ix = none) ∨
    (∃ r, giLabel cfg (ix, ax) = .ok r ∧ resolveRaw r ax.size = .error .index ∧
        Spec.positions ax.labels ix = none) := by
  have hsize := axis_size_plain ax hp
  have hmode : (cfg.mode != Mode.position) = true := by rw [hm]; decide
  cases ix with
  | ellipsis => exact absurd hs (by simp [Spec.SimpleIx])
  | scalar v =>
    have hv : v ≠ Label.none := hs
    have hloc : loc ax.labels ax.kind (.scalar v) none false =
        (locateOne ax.labels v none).map RawIx.int := by
      have htol : (if ax.kind.isNumeric then (none : Option Tol) else none) = none := by split <;> rfl
      cases v with
      | none => exact absurd rfl hv
      | num q => simp [loc, htol, Except.map, bind, Except.bind, pure, Except.pure]; cases locateOne ax.labels (Label.num q) none <;> rfl
      | str s => simp [loc, htol, Except.map, bind, Except.bind, pure, Except.pure]; cases locateOne ax.labels (Label.str s) none <;> rfl
    by_cases hmem : v ∈ ax.labels
    · left
      refine ⟨.int (firstIdx ax.labels v), .scalar (firstIdx ax.labels v), ?_, ?_, ?_, ?_⟩
      · simp only [giLabel, hmode, Ix.isFull, ht, hloc, locateOne_none, hmem, hk]
        simp [Except.map, bind, Except.bind, pure, Except.pure]
      · have hlt := firstIdx_lt_iff.mpr hmem
        simp only [resolveRaw, hsize]
        have h1 : ¬ ((firstIdx ax.labels v : Int) < 0) := by omega
        have h2 : ¬ ((firstIdx ax.labels v : Int) ≥ (ax.labels.length : Int)) := by omega
        simp [h1, h2, bind, Except.bind, pure, Except.pure]
      · simp [Spec.positions, hmem]
      · intro ps h; cases h
    · right; left
      refine ⟨?_, ?_⟩
      · simp only [giLabel, hmode, Ix.isFull, ht, hloc, locateOne_none, hmem]
        simp [Except.map, bind, Except.bind]
      · simp [Spec.positions, hmem]
  | list vs =>
    have hloc := loc_list ax.labels ax.kind vs hn
    by_cases hall : vs.all (fun v => decide (v ∈ ax.labels)) = true
    · left
      refine ⟨.ints ((vs.map (firstIdx ax.labels)).map Int.ofNat), .list (vs.map (firstIdx ax.labels)), ?_, ?_, ?_, ?_⟩
      · simp only [giLabel, hmode, Ix.isFull, ht, hloc, hall]
        simp [bind, Except.bind, pure, Except.pure]
      · rw [hsize]
        apply resolve_ints_nat
        intro p hp'
        obtain ⟨v, hv, rfl⟩ := List.mem_map.mp hp'
        have hmem : ∀ v ∈ vs, v ∈ ax.labels := by simpa using hall
        exact firstIdx_lt_iff.mpr (hmem v hv)
      · simp [Spec.positions, hall]
      · intro ps _ h; cases h
    · right; left
      refine ⟨?_, ?_⟩
      · simp only [giLabel, hmode, Ix.isFull, ht, hloc, hall]
        simp [bind, Except.bind]
      · simp [Spec.positions, hall]
  | mask m =>
    by_cases hlen : m.length = ax.labels.length
    · left
      refine ⟨.mask m, .list (nonzero m), ?_, ?_, ?_, ?_⟩
      · simp [giLabel, bind, Except.bind, pure, Except.pure]
      · simp [resolveRaw, hsize, hlen]
      · simp [Spec.positions, hlen]
      · intro ps _ h; cases h
    · right; right
      refine ⟨.mask m, ?_, ?_, ?_⟩
      · simp [giLabel, bind, Except.bind, pure, Except.pure]
      · simp [resolveRaw, hsize, hlen]
      · simp [Spec.positions, hlen]
  | slice s e st =>
    cases s with
    | some _ => exact absurd hs (by simp [Spec.SimpleIx])
    | none =>
      cases e with
      | some _ => exact absurd hs (by simp [Spec.SimpleIx])
      | none =>
        cases st with
        | some _ => exact absurd hs (by simp [Spec.SimpleIx])
        | none =>
          left
          refine ⟨.slice none none none, .list (List.range ax.labels.length), ?_, ?_, ?_, ?_⟩
          · simp [giLabel, Ix.isFull, ixToRaw, bind, Except.bind, pure, Except.pure]
          · simp [resolveRaw, hsize, slicePositions_full, bind, Except.bind, pure, Except.pure]
          · simp [Spec.positions]
          · intro ps h _
            cases h
            exact axisSelect_range ax hp

/-- the two stages of a read (`_get_indices` for all dimensions, then NumPy's resolution and the
result axes) fused and compared with the spec, by induction over the dimensions -/
theorem stages_spec (cfg : IndexCfg) (hm : cfg.mode = .label) (ht : cfg.tol = none)
    (hk : cfg.keepdims = false) :
    ∀ (axes : List Axis) (ixs : List Ix), ixs.length = axes.length →
      (∀ ix ∈ ixs, Spec.SimpleIx ix) → (∀ ax ∈ axes, ax.labels.Nodup ∧ ax.members = []) →
      (do let raw ← (ixs.zip axes).mapM (giLabel cfg)
          let pix ← (raw.zip axes).mapM (fun (r, ax) => resolveRaw r ax.size)
          pure (getAxesOrtho axes raw pix, pix) : Except Err (List Axis × List PosIx)) =
      match (ixs.zip axes).mapM (fun (ix, ax) => Spec.positions ax.labels ix) with
      | none => .error .index
      | some ps => .ok (Spec.takeAxes axes ps, ps) := by
  intro axes
  induction axes with
  | nil =>
    intro ixs hlen _ _
    have : ixs = [] := List.length_eq_zero_iff.mp (by simpa using hlen)
    subst this
    rfl
  | cons ax axes ih =>
    intro ixs hlen hs hax
    cases ixs with
    | nil => simp at hlen
    | cons ix ixs =>
      have hlen' : ixs.length = axes.length := by simpa using hlen
      have ih' := ih ixs hlen' (fun i hi => hs i (by simp [hi])) (fun a ha => hax a (by simp [ha]))
      have hd := perDim_spec cfg hm ht hk ix ax (hs ix (by simp)) (hax ax (by simp)).1 (hax ax (by simp)).2
      simp only [List.zip_cons_cons, List.mapM_cons]
      rcases hd with ⟨r, p, h1, h2, h3, h4⟩ | ⟨h1, h3⟩ | ⟨r, h1, h2, h3⟩
      · -- this dimension resolves
        rw [h1]
        simp only [h3]
        cases hM1 : (ixs.zip axes).mapM (giLabel cfg) with
        | error e =>
          rw [hM1] at ih'
          cases hS : (ixs.zip axes).mapM (fun (x : Ix × Axis) => Spec.positions x.2.labels x.1) with
          | none => rw [hS] at ih'; simp [bind, Except.bind] at ih' ⊢; exact ih'
          | some ps => rw [hS] at ih'; simp [bind, Except.bind] at ih'
        | ok raws =>
          rw [hM1] at ih'
          simp only [bind, Except.bind, pure, Except.pure, List.zip_cons_cons, List.mapM_cons, h2] at ih' ⊢
          cases hM2 : (raws.zip axes).mapM (fun (x : RawIx × Axis) => resolveRaw x.1 x.2.size) with
          | error e =>
            rw [hM2] at ih'
            cases hS : (ixs.zip axes).mapM (fun (x : Ix × Axis) => Spec.positions x.2.labels x.1) with
            | none => rw [hS] at ih'; simp at ih' ⊢; exact ih'
            | some ps => rw [hS] at ih'; simp at ih'
          | ok ps =>
            rw [hM2] at ih'
            cases hS : (ixs.zip axes).mapM (fun (x : Ix × Axis) => Spec.positions x.2.labels x.1) with
            | none => rw [hS] at ih'; simp at ih'
            | some ps' =>
              rw [hS] at ih'
              simp at ih'
              obtain ⟨hax', hps⟩ := ih'
              subst hps
              simp only [Option.bind, hS, Option.pure_def, Option.bind_eq_bind, Option.bind_some]
              congr 1
              congr 1
              cases p with
              | scalar k => simp [getAxesOrtho, Spec.takeAxes] at hax' ⊢; exact hax'
              | list q =>
                simp only [getAxesOrtho, Spec.takeAxes, List.zip_cons_cons, List.filterMap_cons] at hax' ⊢
                by_cases hr : r = RawIx.slice none none none
                · have := h4 q rfl hr
                  simp [hr, this]; simpa using hax'
                · have : (r == RawIx.slice none none none) = false := by simpa using hr
                  simp [this]; simpa using hax'
      · -- the label is absent
        rw [h1]
        simp [bind, Except.bind, h3, Option.bind]
      · -- NumPy rejects the index (mask of the wrong length)
        rw [h1]
        simp only [h3]
        cases hM1 : (ixs.zip axes).mapM (giLabel cfg) with
        | error e =>
          rw [hM1] at ih'
          cases hS : (ixs.zip axes).mapM (fun (x : Ix × Axis) => Spec.positions x.2.labels x.1) with
          | none => rw [hS] at ih'; simp [bind, Except.bind] at ih' ⊢; exact ih'
          | some ps => rw [hS] at ih'; simp [bind, Except.bind] at ih'
        | ok raws =>
          simp [bind, Except.bind, pure, Except.pure, h2, Option.bind]

theorem expandedIndexer_go_simple (key : List Ix) (ndim : Nat) (found : Bool) :
    ∀ ixs : List Ix, (∀ ix ∈ ixs, Spec.SimpleIx ix) → expandedIndexer.go key ndim found ixs = ixs := by
  intro ixs
  induction ixs with
  | nil => intro _; rfl
  | cons ix ixs ih =>
    intro h
    have hix := h ix (by simp)
    have ih' := ih (fun i hi => h i (by simp [hi]))
    cases ix with
    | ellipsis => exact absurd hix (by simp [Spec.SimpleIx])
    | scalar v => simp [expandedIndexer.go, ih']
    | list vs => simp [expandedIndexer.go, ih']
    | mask m => simp [expandedIndexer.go, ih']
    | slice a b c => simp [expandedIndexer.go, ih']

theorem expandedIndexer_simple (ixs : List Ix) (ndim : Nat) (hlen : ixs.length = ndim)
    (hs : ∀ ix ∈ ixs, Spec.SimpleIx ix) : expandedIndexer ixs ndim = .ok ixs := by
  unfold expandedIndexer
  simp only [expandedIndexer_go_simple ixs ndim false ixs hs, hlen]
  simp

/-- **C01, main theorem.** In label mode, indexing a well-formed array whose axes carry unique
labels with one simple index per dimension (label scalar, list of labels with repeats or empty,
boolean mask, full slice) is exactly the spec: every dimension is sampled independently at the
positions of the requested labels (outer selection on the values), scalar indices drop their
dimension, the other axes carry the selected labels in the requested order, metadata is kept, and
an absent label (or a mask of the wrong length) is an `IndexError`. -/
theorem take_spec {α : Type} (a : DimArray α) (ixs : List Ix) (cfg : IndexCfg)
    (hm : cfg.mode = .label) (ht : cfg.tol = none) (hk : cfg.keepdims = false)
    (hlen : ixs.length = a.axes.length) (hs : ∀ ix ∈ ixs, Spec.SimpleIx ix)
    (hax : ∀ ax ∈ a.axes, ax.labels.Nodup ∧ ax.members = []) :
    Lib.take a (.tuple ixs) cfg = Spec.take a ixs := by
  have hst := stages_spec cfg hm ht hk a.axes ixs hlen hs hax
  have hgi : getIndices a.axes (.tuple ixs) cfg = (ixs.zip a.axes).mapM (giLabel cfg) := by
    unfold getIndices normalizeIndex
    simp only [bind, Except.bind, pure, Except.pure, List.length_map]
    rw [expandedIndexer_simple ixs a.axes.length hlen hs]
    rfl
  unfold Lib.take Spec.take
  rw [hgi]
  cases hS : (ixs.zip a.axes).mapM (fun (x : Ix × Axis) => Spec.positions x.2.labels x.1) with
  | none =>
    rw [hS] at hst
    cases hM1 : (ixs.zip a.axes).mapM (giLabel cfg) with
    | error e =>
      rw [hM1] at hst
      simp [bind, Except.bind] at hst ⊢
      exact hst
    | ok raws =>
      rw [hM1] at hst
      simp only [bind, Except.bind, pure, Except.pure] at hst ⊢
      cases hM2 : (raws.zip a.axes).mapM (fun (x : RawIx × Axis) => resolveRaw x.1 x.2.size) with
      | error e => rw [hM2] at hst; simp at hst ⊢; exact hst
      | ok ps => rw [hM2] at hst; simp at hst
  | some ps =>
    rw [hS] at hst
    cases hM1 : (ixs.zip a.axes).mapM (giLabel cfg) with
    | error e => rw [hM1] at hst; simp [bind, Except.bind] at hst
    | ok raws =>
      rw [hM1] at hst
      simp only [bind, Except.bind, pure, Except.pure] at hst ⊢
      cases hM2 : (raws.zip a.axes).mapM (fun (x : RawIx × Axis) => resolveRaw x.1 x.2.size) with
      | error e => rw [hM2] at hst; simp at hst
      | ok ps' =>
        rw [hM2] at hst
        simp at hst
        obtain ⟨h1, h2⟩ := hst
        subst h2
        simp [h1]

/-- Orthogonality, read off the spec: the element at result coordinate `j` is the element of the
input at the per-dimension selected positions. -/
theorem take_get {α : Type} (a : DimArray α) (ixs : List Ix) (ps : List PosIx) (r : DimArray α)
    (hps : (ixs.zip a.axes).mapM (fun (x : Ix × Axis) => Spec.positions x.2.labels x.1) = some ps)
    (hr : Spec.take a ixs = .ok r) (j : List Nat) :
    r.vals.get j = a.vals.get (expandIx ps j) := by
  unfold Spec.take at hr
  rw [hps] at hr
  cases hr
  rfl

/-- The labels of a list-indexed dimension are the requested labels, in the requested order. -/
theorem take_list_labels (L : List Label) (vs : List Label) (h : ∀ v ∈ vs, v ∈ L) :
    (vs.map (firstIdx L)).map (fun p => L.getD p Label.none) = vs := by
  rw [List.map_map]
  conv => rhs; rw [← List.map_id vs]
  apply List.map_congr_left
  intro v hv
  have hlt := firstIdx_lt_iff.mpr (h v hv)
  simp [List.getD_eq_getElem?_getD, List.getElem?_eq_getElem hlt, firstIdx_getElem hlt]

/-- non-vacuity: a 2-d array with shuffled labels, a scalar and a list index with a repeat satisfy
the hypotheses of `take_spec`, and the spec selects cells 5, 3, 5 along dimension `y`. -/
def exArr : DimArray Nat :=
  { axes := [{ name := "x", labels := [.str "b", .str "a"], kind := .O },
             { name := "y", labels := [.num 3, .num 1, .num 2], kind := .i }]
    vals := { shape := [2, 3], get := fun i => ravel [2, 3] i } }

def exIx : List Ix := [.scalar (.str "a"), .list [.num 2, .num 3, .num 2]]

example : (∀ ax ∈ exArr.axes, ax.labels.Nodup ∧ ax.members = []) ∧ exIx.length = exArr.axes.length ∧
    (∀ ix ∈ exIx, Spec.SimpleIx ix) := by
  refine ⟨?_, rfl, ?_⟩
  · intro ax hax
    simp [exArr] at hax
    rcases hax with rfl | rfl <;> simp
  · intro ix hix
    simp [exIx] at hix
    rcases hix with rfl | rfl <;> simp [Spec.SimpleIx]

example : (Lib.take exArr (.tuple exIx) {}).toOption.map (fun r => (r.dims, r.vals.toList))
    = some (["y"], [5, 3, 5]) := by
  rw [take_spec exArr exIx {} rfl rfl rfl rfl]
  · simp [Spec.take, exArr, exIx, Spec.positions, firstIdx, Except.toOption, DimArray.dims, Spec.takeAxes,
      axisSelect, NDArr.toList, NDArr.outer, outerShape, allIdx, expandIx, ravel, prod]
    decide
  · intro ix hix
    simp [exIx] at hix
    rcases hix with rfl | rfl <;> simp [Spec.SimpleIx]
  · intro ax hax
    simp [exArr] at hax
    rcases hax with rfl | rfl <;> simp


/-! ### tolerance (round 2): "the nearest label is used if and only if it lies within the tolerance" -/

/-- distance of the request `q` to the label at position `i` -/
def tolDist (qs : List Rat) (q : Rat) (i : Nat) : Rat := ratAbs (qs.getD i 0 - q)

/-- TOLERANCE, success: the position returned is the first of the nearest labels, and that label lies within
the tolerance -/
theorem locateOne_tol_ok (L : List Label) (v : Label) (t : Tol) (q : Rat) (qs : List Rat) (m : Nat)
    (hv : v.toRat? = some q) (hL : L.mapM Label.toRat? = some qs)
    (h : locateOne L v (some t) = .ok m) :
    m < qs.length ∧ (∀ i, i < qs.length → tolDist qs q m ≤ tolDist qs q i) ∧
      (∀ i, i < m → tolDist qs q m < tolDist qs q i) ∧ t.ge (tolDist qs q m) = true := by
  by_cases hne : qs = []
  · subst hne
    rw [locateOne_tol_empty L v t q hv hL] at h
    cases h
  · rw [locateOne_tol_unfold L v t q qs hv hL hne] at h
    obtain ⟨h1, h2, h3⟩ := argminRat_dist_spec qs q hne
    split at h
    · rename_i hge
      cases h
      exact ⟨h1, h2, h3, hge⟩
    · cases h

/-- TOLERANCE, refusal: IndexError exactly when no label lies within the tolerance (on a non-empty axis) -/
theorem locateOne_tol_error (L : List Label) (v : Label) (t : Tol) (q : Rat) (qs : List Rat)
    (hv : v.toRat? = some q) (hL : L.mapM Label.toRat? = some qs) (hne : qs ≠ []) :
    (locateOne L v (some t) = .error .index ↔ ∀ i, i < qs.length → t.ge (tolDist qs q i) = false) ∧
    ((∃ m, locateOne L v (some t) = .ok m) ∨ locateOne L v (some t) = .error .index) := by
  rw [locateOne_tol_unfold L v t q qs hv hL hne]
  obtain ⟨h1, h2, _⟩ := argminRat_dist_spec qs q hne
  by_cases hge : t.ge (tolDist qs q (argminRat (qs.map (fun x => ratAbs (x - q))))) = true
  · have hge' := hge
    unfold tolDist at hge'
    rw [if_pos hge']
    refine ⟨⟨fun h => (by cases h), fun h => ?_⟩, Or.inl ⟨_, rfl⟩⟩
    have := h _ h1
    rw [hge] at this
    cases this
  · have hge' := hge
    unfold tolDist at hge'
    rw [if_neg hge']
    refine ⟨⟨fun _ i hi => ?_, fun _ => rfl⟩, Or.inr rfl⟩
    cases hgi : t.ge (tolDist qs q i) with
    | false => rfl
    | true => exact absurd (Tol.ge_mono t (h2 i hi) hgi) hge

/-- with an infinite tolerance (`.nloc`) a numeric request on a non-empty numeric axis is never refused -/
theorem locateOne_tol_inf (L : List Label) (v : Label) (q : Rat) (qs : List Rat)
    (hv : v.toRat? = some q) (hL : L.mapM Label.toRat? = some qs) (hne : qs ≠ []) :
    ∃ m, locateOne L v (some .inf) = .ok m := by
  rw [locateOne_tol_unfold L v .inf q qs hv hL hne]
  exact ⟨_, if_pos rfl⟩

/-- an exact request is found at its own position whatever the tolerance (labels unique) -/
theorem locateOne_tol_exact (L : List Label) (v : Label) (t : Tol) (q : Rat) (qs : List Rat)
    (hv : v.toRat? = some q) (hL : L.mapM Label.toRat? = some qs) (hn : qs.Nodup) (hmem : q ∈ qs)
    (ht : t.ge 0 = true) :
    locateOne L v (some t) = .ok (qs.idxOf q) := by
  have hne : qs ≠ [] := List.ne_nil_of_mem hmem
  rw [locateOne_tol_unfold L v t q qs hv hL hne]
  obtain ⟨h1, h2, _⟩ := argminRat_dist_spec qs q hne
  have hk : qs.idxOf q < qs.length := List.idxOf_lt_length_of_mem hmem
  have hdk : ratAbs (qs.getD (qs.idxOf q) 0 - q) = 0 := by
    rw [List.getD_eq_getElem?_getD, List.getElem?_eq_getElem hk, Option.getD_some,
      List.getElem_idxOf hk]
    exact ratAbs_sub_self q
  have hle := h2 _ hk
  rw [hdk] at hle
  have hqm : qs.getD (argminRat (qs.map (fun x => ratAbs (x - q)))) 0 = q := ratAbs_sub_le_zero hle
  have hmk : argminRat (qs.map (fun x => ratAbs (x - q))) = qs.idxOf q := by
    rw [List.getD_eq_getElem?_getD, List.getElem?_eq_getElem h1, Option.getD_some] at hqm
    apply (List.getElem_inj hn).mp
    rw [hqm, List.getElem_idxOf hk]
  have hz : ratAbs (qs.getD (argminRat (qs.map (fun x => ratAbs (x - q)))) 0 - q) = 0 := by
    rw [hqm]; exact ratAbs_sub_self q
  rw [hz, ht, hmk]
  rfl

/-- lists under a tolerance are located element by element (requested order, repeats allowed), and refused as
soon as one element has no label within the tolerance -/
theorem loc_list_tol (L : List Label) (kind : Kind) (vs : List Label) (t : Tol) (hk : kind.isNumeric = true) :
    loc L kind (.list vs) (some t) =
      (vs.mapM (fun v => locateOne L v (some t))).map (fun ps => RawIx.ints (ps.map Int.ofNat)) := by
  unfold loc
  simp only [hk, if_true]
  cases vs.mapM (fun v => locateOne L v (some t)) <;> rfl

/-! non-vacuity: axis labels `10, 3, 7` (unsorted). -/

/-- request `6` with tolerance `1`: label `7` at position 2 is the nearest (distances `4, 3, 1`) and
lies within the tolerance; the hypotheses of `locateOne_tol_ok` hold and give its conclusion. -/
example : locateOne [.num 10, .num 3, .num 7] (.num 6) (some (.fin 1)) = .ok 2 ∧
    (2 < ([10, 3, 7] : List Rat).length ∧
      (∀ i, i < ([10, 3, 7] : List Rat).length → tolDist [10, 3, 7] 6 2 ≤ tolDist [10, 3, 7] 6 i) ∧
      (∀ i, i < 2 → tolDist [10, 3, 7] 6 2 < tolDist [10, 3, 7] 6 i) ∧
      (Tol.fin 1).ge (tolDist [10, 3, 7] 6 2) = true) := by
  have h : locateOne [.num 10, .num 3, .num 7] (.num 6) (some (.fin 1)) = .ok 2 := by
    rw [locateOne_tol_unfold _ _ _ 6 [10, 3, 7] rfl rfl (by simp)]
    simp only [argminRat, argminRat.go, ratAbs, List.map, Tol.ge]
    grind
  exact ⟨h, locateOne_tol_ok _ _ _ 6 [10, 3, 7] 2 rfl rfl h⟩

/-- request `5` with tolerance `2`: labels `3` and `7` tie (distances `5, 2, 2`); the first one wins
(`np.argmin`). -/
example : locateOne [.num 10, .num 3, .num 7] (.num 5) (some (.fin 2)) = .ok 1 := by
  rw [locateOne_tol_unfold _ _ _ 5 [10, 3, 7] rfl rfl (by simp)]
  simp only [argminRat, argminRat.go, ratAbs, List.map, Tol.ge]
  grind

/-- request `5` with tolerance `1`: no label within the tolerance, `IndexError`; the hypotheses of
`locateOne_tol_error` hold and its first conjunct says that every label is out of tolerance. -/
example : locateOne [.num 10, .num 3, .num 7] (.num 5) (some (.fin 1)) = .error .index ∧
    (∀ i, i < ([10, 3, 7] : List Rat).length → (Tol.fin 1).ge (tolDist [10, 3, 7] 5 i) = false) := by
  have h : locateOne [.num 10, .num 3, .num 7] (.num 5) (some (.fin 1)) = .error .index := by
    rw [locateOne_tol_unfold _ _ _ 5 [10, 3, 7] rfl rfl (by simp)]
    simp only [argminRat, argminRat.go, ratAbs, List.map, Tol.ge]
    grind
  exact ⟨h, (locateOne_tol_error _ _ (.fin 1) 5 [10, 3, 7] rfl rfl (by simp)).1.mp h⟩

end DimModel

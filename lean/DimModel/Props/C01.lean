/-
C01 - property theorems (label indexing returns exactly the data stored at those labels).
Only statements and their proofs from helper lemmas; helper lemmas live in Proofs/.
-/
import DimModel.Proofs.C01
import DimModel.Proofs.C01Take
import DimModel.Proofs.C01Nd
namespace DimModel
open Lib

/-! ### locate_one / locate_many / loc -/

/-- A present label is found at its first position; an absent label is an `IndexError`, never
a neighbour. -/
theorem locateOne_spec (L : List Label) (v : Label) (p : Nat) :
    locateOne L v none = .ok p ↔ (v ∈ L ∧ p = firstIdx L v) := by
  rw [locateOne_none]
  by_cases h : v ∈ L
  · simp [h, eq_comm]
  · simp [h]

theorem locateOne_absent (L : List Label) (v : Label) (h : v ∉ L) :
    locateOne L v none = .error .index := by
  rw [locateOne_none]; simp [h]

/-- `locate_many` (argsort + searchsorted + clip) lands on the requested label whenever it is on
the axis, for labels stored in *any* order. -/
theorem locateMany_found (L vs : List Label) (k : Nat) (hk : k < vs.length) (hv : vs[k] ∈ L) :
    L[(locateMany L vs .left)[k]'(by simpa [locateMany] using hk)]? = some vs[k] := by
  simp only [locateMany, List.getElem_map]
  exact locateMany_entry_found L vs[k] hv

/-- list indexing on a duplicate-free axis: the positions of the requested labels, in the
requested order (repeats allowed) -/
theorem loc_list_spec (L : List Label) (kind : Kind) (vs : List Label) (hn : L.Nodup)
    (hall : ∀ v ∈ vs, v ∈ L) :
    loc L kind (.list vs) none false = .ok (.ints ((vs.map (firstIdx L)).map Int.ofNat)) := by
  rw [loc_list L kind vs hn]
  have : vs.all (fun v => decide (v ∈ L)) = true := by simpa using hall
  simp [this]

/-- a label that is not on the axis raises `IndexError` instead of returning another element -/
theorem loc_list_absent (L : List Label) (kind : Kind) (vs : List Label) (hn : L.Nodup)
    (v : Label) (hv : v ∈ vs) (hvL : v ∉ L) :
    loc L kind (.list vs) none false = .error .index := by
  rw [loc_list L kind vs hn]
  have : vs.all (fun v => decide (v ∈ L)) = false := by
    rw [List.all_eq_false]; exact ⟨v, hv, by simpa using hvL⟩
  simp [this]

/-! ### the N-d read -/

/-- the per-dimension step of `_get_indices` in label mode without tolerance / keepdims -/
def giLabel (cfg : IndexCfg) : Ix × Axis → Except Err RawIx := fun (ix, ax) => do
  let r ← match ix with
    | .mask m => if m.length == ax.size then pure (RawIx.mask m) else .error .index
    | _ =>
      if cfg.mode != .position && !ix.isFull then loc ax.labels ax.kind ix cfg.tol
      else ixToRaw ix
  match r with
  | .int i => pure (if cfg.keepdims then RawIx.ints [i] else r)
  | _ => pure r

theorem slicePositions_full (n : Nat) : slicePositions none none none n = .ok (List.range n) := by
  unfold slicePositions sliceIndices
  simp only [Option.getD_none]
  have h1 : ((1 : Int) == 0) = false := by decide
  simp only [h1, Bool.false_eq_true, if_false]
  have h2 : ¬ ((1 : Int) < 0) := by decide
  simp only [h2, if_false]
  show Except.ok (rangeList 0 (n : Int) 1) = Except.ok (List.range n)
  congr 1
  unfold rangeList rangeLen
  have h3 : (1 : Int) > 0 := by decide
  simp only [h3, if_true]
  by_cases hn : (0 : Int) < n
  · simp only [hn, if_true]
    have : ((n : Int) - 0 - 1) / 1 + 1 = n := by omega
    rw [this]
    simp only [Int.toNat_natCast]
    apply List.ext_getElem
    · simp
    · intro i h1 h2
      simp
  · have : n = 0 := by omega
    subst this
    simp

theorem nodup_range_map_getD (L : List Label) :
    (List.range L.length).map (fun p => L.getD p Label.none) = L := by
  apply List.ext_getElem
  · simp
  · intro i h1 h2
    simp at h1
    simp [List.getD_eq_getElem?_getD, List.getElem?_eq_getElem h1]

theorem axisSelect_range (ax : Axis) (hp : ax.members = []) :
    axisSelect ax (List.range ax.labels.length) = ax := by
  unfold axisSelect
  rw [nodup_range_map_getD]
  cases ax
  simp_all

theorem axis_size_plain (ax : Axis) (hp : ax.members = []) : ax.size = ax.labels.length := by
  simp [Axis.size, hp]

theorem resolve_ints_nat (n : Nat) (ps : List Nat) (h : ∀ p ∈ ps, p < n) :
    resolveRaw (.ints (ps.map Int.ofNat)) n = .ok (.list ps) := by
  have : (ps.map Int.ofNat).mapM (fun (i : Int) =>
      (let j := if i < 0 then i + (n : Int) else i
       if j < 0 || j ≥ (n : Int) then Except.error Err.index else Except.ok j.toNat : Except Err Nat))
      = .ok ps := by
    induction ps with
    | nil => rfl
    | cons p ps ih =>
      have hp : p < n := h p (by simp)
      have ih' := ih (fun w hw => h w (by simp [hw]))
      simp only [List.map_cons, List.mapM_cons, ih']
      have h1 : ¬ ((p : Int) < 0) := by omega
      have h2 : ¬ ((n : Int) ≤ (p : Int)) := by omega
      simp [h1, h2, bind, Except.bind, pure, Except.pure]
  simp only [resolveRaw, this, bind, Except.bind, pure, Except.pure]

/-- per-dimension refinement: `_get_indices` followed by NumPy's resolution of the index gives
exactly the positions the spec names, or `IndexError` -/
theorem perDim_spec (cfg : IndexCfg) (hm : cfg.mode = .label) (ht : cfg.tol = none)
    (hk : cfg.keepdims = false) (ix : Ix) (ax : Axis) (hs : Spec.SimpleIx ix)
    (hn : ax.labels.Nodup) (hp : ax.members = []) :
    (∃ r p, giLabel cfg (ix, ax) = .ok r ∧ resolveRaw r ax.size = .ok p ∧
        Spec.positions ax.labels ix = some p ∧
        (∀ ps, p = .list ps → r = RawIx.slice none none none → axisSelect ax ps = ax)) ∨
    (giLabel cfg (ix, ax) = .error .index ∧ Spec.positions ax.labels ix = none) ∨
    (∃ r, giLabel cfg (ix, ax) = .ok r ∧ resolveRaw r ax.size = .error .index ∧
        Spec.positions ax.labels ix = none) := by
  have hsize := axis_size_plain ax hp
  have hmode : (cfg.mode != Mode.position) = true := by rw [hm]; decide
  cases ix with
  | ellipsis => exact absurd hs (by simp [Spec.SimpleIx])
  | scalar v =>
    have hv : v ≠ Label.none := hs
    have hloc : loc ax.labels ax.kind (.scalar v) none false =
        (locateOne ax.labels v none).map RawIx.int := by
      have htol : (if ax.kind.isNumeric then (none : Option Tol) else none) = none := by split <;> rfl
      cases v with
      | none => exact absurd rfl hv
      | num q => simp [loc, htol, Except.map, bind, Except.bind, pure, Except.pure]; cases locateOne ax.labels (Label.num q) none <;> rfl
      | str s => simp [loc, htol, Except.map, bind, Except.bind, pure, Except.pure]; cases locateOne ax.labels (Label.str s) none <;> rfl
    by_cases hmem : v ∈ ax.labels
    · left
      refine ⟨.int (firstIdx ax.labels v), .scalar (firstIdx ax.labels v), ?_, ?_, ?_, ?_⟩
      · simp only [giLabel, hmode, Ix.isFull, ht, hloc, locateOne_none, hmem, hk]
        simp [Except.map, bind, Except.bind, pure, Except.pure]
      · have hlt := firstIdx_lt_iff.mpr hmem
        simp only [resolveRaw, hsize]
        have h1 : ¬ ((firstIdx ax.labels v : Int) < 0) := by omega
        have h2 : ¬ ((firstIdx ax.labels v : Int) ≥ (ax.labels.length : Int)) := by omega
        simp [h1, h2, bind, Except.bind, pure, Except.pure]
      · simp [Spec.positions, hmem]
      · intro ps h; cases h
    · right; left
      refine ⟨?_, ?_⟩
      · simp only [giLabel, hmode, Ix.isFull, ht, hloc, locateOne_none, hmem]
        simp [Except.map, bind, Except.bind]
      · simp [Spec.positions, hmem]
  | list vs =>
    have hloc := loc_list ax.labels ax.kind vs hn
    by_cases hall : vs.all (fun v => decide (v ∈ ax.labels)) = true
    · left
      refine ⟨.ints ((vs.map (firstIdx ax.labels)).map Int.ofNat), .list (vs.map (firstIdx ax.labels)), ?_, ?_, ?_, ?_⟩
      · simp only [giLabel, hmode, Ix.isFull, ht, hloc, hall]
        simp [bind, Except.bind, pure, Except.pure]
      · rw [hsize]
        apply resolve_ints_nat
        intro p hp'
        obtain ⟨v, hv, rfl⟩ := List.mem_map.mp hp'
        have hmem : ∀ v ∈ vs, v ∈ ax.labels := by simpa using hall
        exact firstIdx_lt_iff.mpr (hmem v hv)
      · simp [Spec.positions, hall]
      · intro ps _ h; cases h
    · right; left
      refine ⟨?_, ?_⟩
      · simp only [giLabel, hmode, Ix.isFull, ht, hloc, hall]
        simp [bind, Except.bind]
      · simp [Spec.positions, hall]
  | mask m =>
    by_cases hlen : m.length = ax.labels.length
    · left
      refine ⟨.mask m, .list (nonzero m), ?_, ?_, ?_, ?_⟩
      · simp [giLabel, hsize, hlen, bind, Except.bind, pure, Except.pure]
      · simp [resolveRaw, hsize, hlen]
      · simp [Spec.positions, hlen]
      · intro ps _ h; cases h
    · right; left
      refine ⟨?_, ?_⟩
      · simp [giLabel, hsize, hlen, bind, Except.bind, pure, Except.pure]
      · simp [Spec.positions, hlen]
  | slice s e st =>
    cases s with
    | some _ => exact absurd hs (by simp [Spec.SimpleIx])
    | none =>
      cases e with
      | some _ => exact absurd hs (by simp [Spec.SimpleIx])
      | none =>
        cases st with
        | some _ => exact absurd hs (by simp [Spec.SimpleIx])
        | none =>
          left
          refine ⟨.slice none none none, .list (List.range ax.labels.length), ?_, ?_, ?_, ?_⟩
          · simp [giLabel, Ix.isFull, ixToRaw, bind, Except.bind, pure, Except.pure]
          · simp [resolveRaw, hsize, slicePositions_full, bind, Except.bind, pure, Except.pure]
          · simp [Spec.positions]
          · intro ps h _
            cases h
            exact axisSelect_range ax hp

/-- the two stages of a read (`_get_indices` for all dimensions, then NumPy's resolution and the
result axes) fused and compared with the spec, by induction over the dimensions -/
theorem stages_spec (cfg : IndexCfg) (hm : cfg.mode = .label) (ht : cfg.tol = none)
    (hk : cfg.keepdims = false) :
    ∀ (axes : List Axis) (ixs : List Ix), ixs.length = axes.length →
      (∀ ix ∈ ixs, Spec.SimpleIx ix) → (∀ ax ∈ axes, ax.labels.Nodup ∧ ax.members = []) →
      (do let raw ← (ixs.zip axes).mapM (giLabel cfg)
          let pix ← (raw.zip axes).mapM (fun (r, ax) => resolveRaw r ax.size)
          pure (getAxesOrtho axes raw pix, pix) : Except Err (List Axis × List PosIx)) =
      match (ixs.zip axes).mapM (fun (ix, ax) => Spec.positions ax.labels ix) with
      | none => .error .index
      | some ps => .ok (Spec.takeAxes axes ps, ps) := by
  intro axes
  induction axes with
  | nil =>
    intro ixs hlen _ _
    have : ixs = [] := List.length_eq_zero_iff.mp (by simpa using hlen)
    subst this
    rfl
  | cons ax axes ih =>
    intro ixs hlen hs hax
    cases ixs with
    | nil => simp at hlen
    | cons ix ixs =>
      have hlen' : ixs.length = axes.length := by simpa using hlen
      have ih' := ih ixs hlen' (fun i hi => hs i (by simp [hi])) (fun a ha => hax a (by simp [ha]))
      have hd := perDim_spec cfg hm ht hk ix ax (hs ix (by simp)) (hax ax (by simp)).1 (hax ax (by simp)).2
      simp only [List.zip_cons_cons, List.mapM_cons]
      rcases hd with ⟨r, p, h1, h2, h3, h4⟩ | ⟨h1, h3⟩ | ⟨r, h1, h2, h3⟩
      · -- this dimension resolves
        rw [h1]
        simp only [h3]
        cases hM1 : (ixs.zip axes).mapM (giLabel cfg) with
        | error e =>
          rw [hM1] at ih'
          cases hS : (ixs.zip axes).mapM (fun (x : Ix × Axis) => Spec.positions x.2.labels x.1) with
          | none => rw [hS] at ih'; simp [bind, Except.bind] at ih' ⊢; exact ih'
          | some ps => rw [hS] at ih'; simp [bind, Except.bind] at ih'
        | ok raws =>
          rw [hM1] at ih'
          simp only [bind, Except.bind, pure, Except.pure, List.zip_cons_cons, List.mapM_cons, h2] at ih' ⊢
          cases hM2 : (raws.zip axes).mapM (fun (x : RawIx × Axis) => resolveRaw x.1 x.2.size) with
          | error e =>
            rw [hM2] at ih'
            cases hS : (ixs.zip axes).mapM (fun (x : Ix × Axis) => Spec.positions x.2.labels x.1) with
            | none => rw [hS] at ih'; simp at ih' ⊢; exact ih'
            | some ps => rw [hS] at ih'; simp at ih'
          | ok ps =>
            rw [hM2] at ih'
            cases hS : (ixs.zip axes).mapM (fun (x : Ix × Axis) => Spec.positions x.2.labels x.1) with
            | none => rw [hS] at ih'; simp at ih'
            | some ps' =>
              rw [hS] at ih'
              simp at ih'
              obtain ⟨hax', hps⟩ := ih'
              subst hps
              simp only [Option.bind, hS, Option.pure_def, Option.bind_eq_bind, Option.bind_some]
              congr 1
              congr 1
              cases p with
              | scalar k => simp [getAxesOrtho, Spec.takeAxes] at hax' ⊢; exact hax'
              | list q =>
                simp only [getAxesOrtho, Spec.takeAxes, List.zip_cons_cons, List.filterMap_cons] at hax' ⊢
                by_cases hr : r = RawIx.slice none none none
                · have := h4 q rfl hr
                  simp [hr, this]; simpa using hax'
                · have : (r == RawIx.slice none none none) = false := by simpa using hr
                  simp [this]; simpa using hax'
      · -- the label is absent
        rw [h1]
        simp [bind, Except.bind, h3, Option.bind]
      · -- NumPy rejects the index (mask of the wrong length)
        rw [h1]
        simp only [h3]
        cases hM1 : (ixs.zip axes).mapM (giLabel cfg) with
        | error e =>
          rw [hM1] at ih'
          cases hS : (ixs.zip axes).mapM (fun (x : Ix × Axis) => Spec.positions x.2.labels x.1) with
          | none => rw [hS] at ih'; simp [bind, Except.bind] at ih' ⊢; exact ih'
          | some ps => rw [hS] at ih'; simp [bind, Except.bind] at ih'
        | ok raws =>
          simp [bind, Except.bind, pure, Except.pure, h2, Option.bind]

theorem expandedIndexer_go_simple (key : List Ix) (ndim : Nat) (found : Bool) :
    ∀ ixs : List Ix, (∀ ix ∈ ixs, Spec.SimpleIx ix) → expandedIndexer.go key ndim found ixs = ixs := by
  intro ixs
  induction ixs with
  | nil => intro _; rfl
  | cons ix ixs ih =>
    intro h
    have hix := h ix (by simp)
    have ih' := ih (fun i hi => h i (by simp [hi]))
    cases ix with
    | ellipsis => exact absurd hix (by simp [Spec.SimpleIx])
    | scalar v => simp [expandedIndexer.go, ih']
    | list vs => simp [expandedIndexer.go, ih']
    | mask m => simp [expandedIndexer.go, ih']
    | slice a b c => simp [expandedIndexer.go, ih']

theorem expandedIndexer_simple (ixs : List Ix) (ndim : Nat) (hlen : ixs.length = ndim)
    (hs : ∀ ix ∈ ixs, Spec.SimpleIx ix) : expandedIndexer ixs ndim = .ok ixs := by
  unfold expandedIndexer
  simp only [expandedIndexer_go_simple ixs ndim false ixs hs, hlen]
  simp

/-- **C01, main theorem.** In label mode, indexing a well-formed array whose axes carry unique
labels with one simple index per dimension (label scalar, list of labels with repeats or empty,
boolean mask, full slice) is exactly the spec: every dimension is sampled independently at the
positions of the requested labels (outer selection on the values), scalar indices drop their
dimension, the other axes carry the selected labels in the requested order, metadata is kept, and
an absent label (or a mask of the wrong length) is an `IndexError`. -/
theorem take_spec {α : Type} (a : DimArray α) (ixs : List Ix) (cfg : IndexCfg)
    (hm : cfg.mode = .label) (ht : cfg.tol = none) (hk : cfg.keepdims = false)
    (hlen : ixs.length = a.axes.length) (hs : ∀ ix ∈ ixs, Spec.SimpleIx ix)
    (hax : ∀ ax ∈ a.axes, ax.labels.Nodup ∧ ax.members = []) :
    Lib.take a (.tuple ixs) cfg = Spec.take a ixs := by
  have hst := stages_spec cfg hm ht hk a.axes ixs hlen hs hax
  have hgi : getIndices a.axes (.tuple ixs) cfg = (ixs.zip a.axes).mapM (giLabel cfg) := by
    unfold getIndices normalizeIndex
    simp only [bind, Except.bind, pure, Except.pure, List.length_map]
    rw [expandedIndexer_simple ixs a.axes.length hlen hs]
    rfl
  unfold Lib.take Spec.take
  rw [hgi]
  cases hS : (ixs.zip a.axes).mapM (fun (x : Ix × Axis) => Spec.positions x.2.labels x.1) with
  | none =>
    rw [hS] at hst
    cases hM1 : (ixs.zip a.axes).mapM (giLabel cfg) with
    | error e =>
      rw [hM1] at hst
      simp [bind, Except.bind] at hst ⊢
      exact hst
    | ok raws =>
      rw [hM1] at hst
      simp only [bind, Except.bind, pure, Except.pure] at hst ⊢
      cases hM2 : (raws.zip a.axes).mapM (fun (x : RawIx × Axis) => resolveRaw x.1 x.2.size) with
      | error e => rw [hM2] at hst; simp at hst ⊢; exact hst
      | ok ps => rw [hM2] at hst; simp at hst
  | some ps =>
    rw [hS] at hst
    cases hM1 : (ixs.zip a.axes).mapM (giLabel cfg) with
    | error e => rw [hM1] at hst; simp [bind, Except.bind] at hst
    | ok raws =>
      rw [hM1] at hst
      simp only [bind, Except.bind, pure, Except.pure] at hst ⊢
      cases hM2 : (raws.zip a.axes).mapM (fun (x : RawIx × Axis) => resolveRaw x.1 x.2.size) with
      | error e => rw [hM2] at hst; simp at hst
      | ok ps' =>
        rw [hM2] at hst
        simp at hst
        obtain ⟨h1, h2⟩ := hst
        subst h2
        simp [h1]

/-- Orthogonality, read off the spec: the element at result coordinate `j` is the element of the
input at the per-dimension selected positions. -/
theorem take_get {α : Type} (a : DimArray α) (ixs : List Ix) (ps : List PosIx) (r : DimArray α)
    (hps : (ixs.zip a.axes).mapM (fun (x : Ix × Axis) => Spec.positions x.2.labels x.1) = some ps)
    (hr : Spec.take a ixs = .ok r) (j : List Nat) :
    r.vals.get j = a.vals.get (expandIx ps j) := by
  unfold Spec.take at hr
  rw [hps] at hr
  cases hr
  rfl

/-- The labels of a list-indexed dimension are the requested labels, in the requested order. -/
theorem take_list_labels (L : List Label) (vs : List Label) (h : ∀ v ∈ vs, v ∈ L) :
    (vs.map (firstIdx L)).map (fun p => L.getD p Label.none) = vs := by
  rw [List.map_map]
  conv => rhs; rw [← List.map_id vs]
  apply List.map_congr_left
  intro v hv
  have hlt := firstIdx_lt_iff.mpr (h v hv)
  simp [List.getD_eq_getElem?_getD, List.getElem?_eq_getElem hlt, firstIdx_getElem hlt]

/-- non-vacuity: a 2-d array with shuffled labels, a scalar and a list index with a repeat satisfy
the hypotheses of `take_spec`, and the spec selects cells 5, 3, 5 along dimension `y`. -/
def exArr : DimArray Nat :=
  { axes := [{ name := "x", labels := [.str "b", .str "a"], kind := .O },
             { name := "y", labels := [.num 3, .num 1, .num 2], kind := .i }]
    vals := { shape := [2, 3], get := fun i => ravel [2, 3] i } }

def exIx : List Ix := [.scalar (.str "a"), .list [.num 2, .num 3, .num 2]]

example : (∀ ax ∈ exArr.axes, ax.labels.Nodup ∧ ax.members = []) ∧ exIx.length = exArr.axes.length ∧
    (∀ ix ∈ exIx, Spec.SimpleIx ix) := by
  refine ⟨?_, rfl, ?_⟩
  · intro ax hax
    simp [exArr] at hax
    rcases hax with rfl | rfl <;> simp
  · intro ix hix
    simp [exIx] at hix
    rcases hix with rfl | rfl <;> simp [Spec.SimpleIx]

example : (Lib.take exArr (.tuple exIx) {}).toOption.map (fun r => (r.dims, r.vals.toList))
    = some (["y"], [5, 3, 5]) := by
  rw [take_spec exArr exIx {} rfl rfl rfl rfl]
  · simp [Spec.take, exArr, exIx, Spec.positions, firstIdx, Except.toOption, DimArray.dims, Spec.takeAxes,
      axisSelect, NDArr.toList, NDArr.outer, outerShape, allIdx, expandIx, ravel, prod]
    decide
  · intro ix hix
    simp [exIx] at hix
    rcases hix with rfl | rfl <;> simp [Spec.SimpleIx]
  · intro ax hax
    simp [exArr] at hax
    rcases hax with rfl | rfl <;> simp


/-! ### tolerance (round 2): "the nearest label is used if and only if it lies within the tolerance" -/

/-- distance of the request `q` to the label at position `i` -/
def tolDist (qs : List Rat) (q : Rat) (i : Nat) : Rat := ratAbs (qs.getD i 0 - q)

/-- TOLERANCE, success: the position returned is the first of the nearest labels, and that label lies within
the tolerance -/
theorem locateOne_tol_ok (L : List Label) (v : Label) (t : Tol) (q : Rat) (qs : List Rat) (m : Nat)
    (hv : v.toRat? = some q) (hL : L.mapM Label.toRat? = some qs)
    (h : locateOne L v (some t) = .ok m) :
    m < qs.length ∧ (∀ i, i < qs.length → tolDist qs q m ≤ tolDist qs q i) ∧
      (∀ i, i < m → tolDist qs q m < tolDist qs q i) ∧ t.ge (tolDist qs q m) = true := by
  by_cases hne : qs = []
  · subst hne
    rw [locateOne_tol_empty L v t q hv hL] at h
    cases h
  · rw [locateOne_tol_unfold L v t q qs hv hL hne] at h
    obtain ⟨h1, h2, h3⟩ := argminRat_dist_spec qs q hne
    split at h
    · rename_i hge
      cases h
      exact ⟨h1, h2, h3, hge⟩
    · cases h

/-- TOLERANCE, refusal: IndexError exactly when no label lies within the tolerance (on a non-empty axis) -/
theorem locateOne_tol_error (L : List Label) (v : Label) (t : Tol) (q : Rat) (qs : List Rat)
    (hv : v.toRat? = some q) (hL : L.mapM Label.toRat? = some qs) (hne : qs ≠ []) :
    (locateOne L v (some t) = .error .index ↔ ∀ i, i < qs.length → t.ge (tolDist qs q i) = false) ∧
    ((∃ m, locateOne L v (some t) = .ok m) ∨ locateOne L v (some t) = .error .index) := by
  rw [locateOne_tol_unfold L v t q qs hv hL hne]
  obtain ⟨h1, h2, _⟩ := argminRat_dist_spec qs q hne
  by_cases hge : t.ge (tolDist qs q (argminRat (qs.map (fun x => ratAbs (x - q))))) = true
  · have hge' := hge
    unfold tolDist at hge'
    rw [if_pos hge']
    refine ⟨⟨fun h => (by cases h), fun h => ?_⟩, Or.inl ⟨_, rfl⟩⟩
    have := h _ h1
    rw [hge] at this
    cases this
  · have hge' := hge
    unfold tolDist at hge'
    rw [if_neg hge']
    refine ⟨⟨fun _ i hi => ?_, fun _ => rfl⟩, Or.inr rfl⟩
    cases hgi : t.ge (tolDist qs q i) with
    | false => rfl
    | true => exact absurd (Tol.ge_mono t (h2 i hi) hgi) hge

/-- with an infinite tolerance (`.nloc`) a numeric request on a non-empty numeric axis is never refused -/
theorem locateOne_tol_inf (L : List Label) (v : Label) (q : Rat) (qs : List Rat)
    (hv : v.toRat? = some q) (hL : L.mapM Label.toRat? = some qs) (hne : qs ≠ []) :
    ∃ m, locateOne L v (some .inf) = .ok m := by
  rw [locateOne_tol_unfold L v .inf q qs hv hL hne]
  exact ⟨_, if_pos rfl⟩

/-- an exact request is found at its own position whatever the tolerance (labels unique) -/
theorem locateOne_tol_exact (L : List Label) (v : Label) (t : Tol) (q : Rat) (qs : List Rat)
    (hv : v.toRat? = some q) (hL : L.mapM Label.toRat? = some qs) (hn : qs.Nodup) (hmem : q ∈ qs)
    (ht : t.ge 0 = true) :
    locateOne L v (some t) = .ok (qs.idxOf q) := by
  have hne : qs ≠ [] := List.ne_nil_of_mem hmem
  rw [locateOne_tol_unfold L v t q qs hv hL hne]
  obtain ⟨h1, h2, _⟩ := argminRat_dist_spec qs q hne
  have hk : qs.idxOf q < qs.length := List.idxOf_lt_length_of_mem hmem
  have hdk : ratAbs (qs.getD (qs.idxOf q) 0 - q) = 0 := by
    rw [List.getD_eq_getElem?_getD, List.getElem?_eq_getElem hk, Option.getD_some,
      List.getElem_idxOf hk]
    exact ratAbs_sub_self q
  have hle := h2 _ hk
  rw [hdk] at hle
  have hqm : qs.getD (argminRat (qs.map (fun x => ratAbs (x - q)))) 0 = q := ratAbs_sub_le_zero hle
  have hmk : argminRat (qs.map (fun x => ratAbs (x - q))) = qs.idxOf q := by
    rw [List.getD_eq_getElem?_getD, List.getElem?_eq_getElem h1, Option.getD_some] at hqm
    apply (List.getElem_inj hn).mp
    rw [hqm, List.getElem_idxOf hk]
  have hz : ratAbs (qs.getD (argminRat (qs.map (fun x => ratAbs (x - q)))) 0 - q) = 0 := by
    rw [hqm]; exact ratAbs_sub_self q
  rw [hz, ht, hmk]
  rfl

/-- lists under a tolerance are located element by element (requested order, repeats allowed), and refused as
soon as one element has no label within the tolerance -/
theorem loc_list_tol (L : List Label) (kind : Kind) (vs : List Label) (t : Tol) (hk : kind.isNumeric = true) :
    loc L kind (.list vs) (some t) =
      (vs.mapM (fun v => locateOne L v (some t))).map (fun ps => RawIx.ints (ps.map Int.ofNat)) := by
  unfold loc
  simp only [hk, if_true]
  cases vs.mapM (fun v => locateOne L v (some t)) <;> rfl

/-! non-vacuity: axis labels `10, 3, 7` (unsorted). -/

/-- request `6` with tolerance `1`: label `7` at position 2 is the nearest (distances `4, 3, 1`) and
lies within the tolerance; the hypotheses of `locateOne_tol_ok` hold and give its conclusion. -/
example : locateOne [.num 10, .num 3, .num 7] (.num 6) (some (.fin 1)) = .ok 2 ∧
    (2 < ([10, 3, 7] : List Rat).length ∧
      (∀ i, i < ([10, 3, 7] : List Rat).length → tolDist [10, 3, 7] 6 2 ≤ tolDist [10, 3, 7] 6 i) ∧
      (∀ i, i < 2 → tolDist [10, 3, 7] 6 2 < tolDist [10, 3, 7] 6 i) ∧
      (Tol.fin 1).ge (tolDist [10, 3, 7] 6 2) = true) := by
  have h : locateOne [.num 10, .num 3, .num 7] (.num 6) (some (.fin 1)) = .ok 2 := by
    rw [locateOne_tol_unfold _ _ _ 6 [10, 3, 7] rfl rfl (by simp)]
    simp only [argminRat, argminRat.go, ratAbs, List.map, Tol.ge]
    grind
  exact ⟨h, locateOne_tol_ok _ _ _ 6 [10, 3, 7] 2 rfl rfl h⟩

/-- request `5` with tolerance `2`: labels `3` and `7` tie (distances `5, 2, 2`); the first one wins
(`np.argmin`). -/
example : locateOne [.num 10, .num 3, .num 7] (.num 5) (some (.fin 2)) = .ok 1 := by
  rw [locateOne_tol_unfold _ _ _ 5 [10, 3, 7] rfl rfl (by simp)]
  simp only [argminRat, argminRat.go, ratAbs, List.map, Tol.ge]
  grind

/-- request `5` with tolerance `1`: no label within the tolerance, `IndexError`; the hypotheses of
`locateOne_tol_error` hold and its first conjunct says that every label is out of tolerance. -/
example : locateOne [.num 10, .num 3, .num 7] (.num 5) (some (.fin 1)) = .error .index ∧
    (∀ i, i < ([10, 3, 7] : List Rat).length → (Tol.fin 1).ge (tolDist [10, 3, 7] 5 i) = false) := by
  have h : locateOne [.num 10, .num 3, .num 7] (.num 5) (some (.fin 1)) = .error .index := by
    rw [locateOne_tol_unfold _ _ _ 5 [10, 3, 7] rfl rfl (by simp)]
    simp only [argminRat, argminRat.go, ratAbs, List.map, Tol.ge]
    grind
  exact ⟨h, (locateOne_tol_error _ _ (.fin 1) 5 [10, 3, 7] rfl rfl (by simp)).1.mp h⟩

/-! ## Round 4: the read END TO END under every spelling

The theorems below are about `Lib.take`, the function the driver calls for every read
(`a[...]`, `.loc`, `.sel`, `.ix`, `.iloc`, `.isel`, `.nloc`, `take(indices, axis=, indexing=, tol=,
keepdims=)`): position mode, dict / `axis=` forms, short tuples and `Ellipsis`, `keepdims`, masks
under any mode, tolerance. Helper lemmas are in `Proofs/C01Take.lean`. -/

/-! ### the spellings select the mode -/

/-- `.loc` / `.sel` / `indexing='label'`: label mode whatever the option was at construction -/
theorem mode_loc (c : IndexCfg) (h : c.toggle = false) (hi : c.indexing = some .label) :
    c.mode = .label := by simp [IndexCfg.mode, h, hi]

/-- `.iloc` / `.isel` / `indexing='position'`: position mode whatever the option was -/
theorem mode_iloc (c : IndexCfg) (h : c.toggle = false) (hi : c.indexing = some .position) :
    c.mode = .position := by simp [IndexCfg.mode, h, hi]

/-- `a[...]` / `take(...)` without `indexing=`: the mode captured from `indexing.by` -/
theorem mode_default (c : IndexCfg) (h : c.toggle = false) (hi : c.indexing = none) :
    c.mode = c.captured := by simp [IndexCfg.mode, h, hi]

/-- `.ix` toggles the captured mode -/
theorem mode_ix (c : IndexCfg) (h : c.toggle = true) :
    c.mode = (if c.captured = .position then .label else .position) := by
  cases hc : c.captured <;> simp [IndexCfg.mode, h, hc]

/-! ### position mode (`.ix`, `.iloc`, `.isel`, `indexing='position'`) -/

/-- some index is a slice with step 0 (`ValueError` in Python) -/
def Spec.ZeroStep (ixs : List Ix) : Prop := ∃ s e, Ix.slice s e (some 0) ∈ ixs

/-- **C01, position mode.** With one positional index per dimension - an integer (negative: from
the end), a list of integers, a boolean mask or a slice - the read is the outer (orthogonal)
selection at the positions `Spec.posPositions` names for each dimension independently: scalar
indices drop their dimension, the other axes carry the labels found at the selected positions, in
the selected order (`Spec.takeAxes`), the values are `a[selected positions]` (`NDArr.outer`),
metadata is kept. Otherwise (integer out of range, non-integer, mask of the wrong length, zero
step) the read fails: with `IndexError`, or `ValueError` which only a zero slice step can cause. -/
theorem take_position_spec {α : Type} (a : DimArray α) (ixs : List Ix) (cfg : IndexCfg)
    (hm : cfg.mode = .position) (hk : cfg.keepdims = false)
    (hlen : ixs.length = a.axes.length) (hs : ∀ ix ∈ ixs, ix ≠ .ellipsis)
    (hax : ∀ ax ∈ a.axes, ax.members = []) :
    (∀ ps, (ixs.zip a.axes).mapM (fun x => Spec.posPositions x.2.labels.length x.1) = some ps →
      Lib.take a (.tuple ixs) cfg =
        .ok { axes := Spec.takeAxes a.axes ps, vals := a.vals.outer ps, vkind := a.vkind,
              attrs := a.attrs }) ∧
    ((ixs.zip a.axes).mapM (fun x => Spec.posPositions x.2.labels.length x.1) = none →
      ∃ e, Lib.take a (.tuple ixs) cfg = .error e ∧
        (e = .index ∨ (e = .value ∧ Spec.ZeroStep ixs))) := by
  apply C01T.take_of_spec a (.tuple ixs) ixs cfg (C01T.PosErr (Spec.ZeroStep ixs))
    (fun ix ax => Spec.posPositions ax.labels.length ix)
    (C01T.normalize_tuple _ ixs (by simpa using hlen) hs) hlen
  intro x hx
  have hx' := List.of_mem_zip hx
  exact C01T.perDim_position cfg hm hk x.1 x.2 (hax x.2 hx'.2) (hs x.1 hx'.1) _
    (fun s e h => ⟨s, e, h ▸ hx'.1⟩)


/-- read off `take_position_spec`: result axes, shape, and the value at every result index `j` -/
theorem take_position_get {α : Type} (a : DimArray α) (ixs : List Ix) (cfg : IndexCfg)
    (hm : cfg.mode = .position) (hk : cfg.keepdims = false)
    (hlen : ixs.length = a.axes.length) (hs : ∀ ix ∈ ixs, ix ≠ .ellipsis)
    (hax : ∀ ax ∈ a.axes, ax.members = []) (ps : List PosIx) (r : DimArray α)
    (hps : (ixs.zip a.axes).mapM (fun x => Spec.posPositions x.2.labels.length x.1) = some ps)
    (hr : Lib.take a (.tuple ixs) cfg = .ok r) (j : List Nat) :
    r.axes = Spec.takeAxes a.axes ps ∧ r.vals.shape = outerShape ps ∧
      r.vals.get j = a.vals.get (expandIx ps j) := by
  rw [(take_position_spec a ixs cfg hm hk hlen hs hax).1 ps hps] at hr
  cases hr
  exact ⟨rfl, rfl, rfl⟩

/-- an integer outside `[-n, n)` is an `IndexError`, never a wrapped or clipped position -/
theorem take_position_out_of_range {α : Type} (a : DimArray α) (ixs : List Ix) (cfg : IndexCfg)
    (hm : cfg.mode = .position) (hk : cfg.keepdims = false)
    (hlen : ixs.length = a.axes.length) (hs : ∀ ix ∈ ixs, ix ≠ .ellipsis)
    (hax : ∀ ax ∈ a.axes, ax.members = []) (hz : ¬ Spec.ZeroStep ixs)
    (k : Nat) (hk1 : k < ixs.length) (i : Int) (hix : ixs[k] = .scalar (.num (i : Rat)))
    (hout : i < -((a.axes[k]'(by omega)).labels.length : Int) ∨
      ((a.axes[k]'(by omega)).labels.length : Int) ≤ i) :
    Lib.take a (.tuple ixs) cfg = .error .index := by
  have hnone : (ixs.zip a.axes).mapM (fun x => Spec.posPositions x.2.labels.length x.1) = none := by
    apply C01T.optMapM_none_of_mem _ _ (ixs[k], a.axes[k]'(by omega))
    · apply List.mem_iff_getElem.mpr
      exact ⟨k, by simp; omega, by simp⟩
    · simp only [hix, Spec.posPositions, C01T.intOf_int, Option.bind_some, Spec.normPos]
      have h1 : ¬ (0 ≤ i ∧ i < ((a.axes[k]'(by omega)).labels.length : Int)) := by omega
      have h2 : ¬ (i < 0 ∧ 0 ≤ i + ((a.axes[k]'(by omega)).labels.length : Int)) := by omega
      simp [h1, h2]
  obtain ⟨e, he, h | ⟨_, h⟩⟩ := (take_position_spec a ixs cfg hm hk hlen hs hax).2 hnone
  · rw [he, h]
  · exact absurd h hz


/-- non-vacuity: `.ix[-1, [2, -3]]` on the 2x3 array of `exArr` (option `indexing.by = 'label'`):
row 1, columns 2 and 0; the result axis carries the labels found there (`2`, `3`). -/
def exPosIx : List Ix := [.scalar (.num (-1)), .list [.num 2, .num (-3)]]
def exPosCfg : IndexCfg := { toggle := true }

example : (Lib.take exArr (.tuple exPosIx) exPosCfg).toOption.map
      (fun r => (r.dims, r.axes.map (·.labels), r.vals.toList))
    = some (["y"], [[.num 2, .num 3]], [5, 3]) := by
  rw [(take_position_spec exArr exPosIx exPosCfg (by decide) (by decide) (by decide) (by decide)
    (by decide)).1 [.scalar 1, .list [2, 0]] (by decide)]
  decide

/-- a slice with a negative step and a mask: `.ix[::-1, [True, False, True]]` -/
example : (([.slice none none (some (-1)), .mask [true, false, true]] : List Ix).zip exArr.axes).mapM
      (fun x => Spec.posPositions x.2.labels.length x.1) = some [.list [1, 0], .list [0, 2]] := by
  decide

/-- `.ix[2, :]` on a dimension of length 2: out of range, `IndexError` -/
example : Lib.take exArr (.tuple [.scalar (.num ((2 : Int) : Rat)), fullIx]) exPosCfg = .error .index :=
  take_position_out_of_range exArr _ exPosCfg (by decide) (by decide) (by decide) (by decide)
    (by decide) (by intro ⟨s, e, h⟩; simp [fullIx] at h) 0 (by decide) 2 rfl (by decide)

/-! ### short tuples and `Ellipsis` -/

/-- a tuple shorter than the number of dimensions indexes the leading dimensions; the trailing
ones get a full slice -/
theorem take_tuple_pad {α : Type} (a : DimArray α) (ixs : List Ix) (cfg : IndexCfg)
    (hlen : ixs.length ≤ a.axes.length) (hs : ∀ ix ∈ ixs, ix ≠ .ellipsis) :
    Lib.take a (.tuple ixs) cfg =
      Lib.take a (.tuple (ixs ++ List.replicate (a.axes.length - ixs.length) fullIx)) cfg := by
  rw [C01T.take_eq, C01T.take_eq]
  have h1 : ∀ l, normalizeIndex (a.axes.map (·.name)) (.tuple l) =
      expandedIndexer l (a.axes.map (·.name)).length := fun _ => rfl
  have hs' : ∀ ix ∈ ixs ++ List.replicate (a.axes.length - ixs.length) fullIx, ix ≠ .ellipsis := by
    intro ix hix
    simp only [List.mem_append, List.mem_replicate] at hix
    rcases hix with h | ⟨_, h⟩
    · exact hs ix h
    · rw [h]; simp [fullIx]
  rw [h1, h1, C01T.expandedIndexer_noEll _ _ (by simpa using hlen) hs,
    C01T.expandedIndexer_noEll _ _ (by simp; omega) hs']
  simp only [List.length_map, List.length_append, List.length_replicate]
  have : a.axes.length - (ixs.length + (a.axes.length - ixs.length)) = 0 := by omega
  rw [this]
  simp

/-- more indices than dimensions: `IndexError` -/
theorem take_tuple_too_long {α : Type} (a : DimArray α) (ixs : List Ix) (cfg : IndexCfg)
    (hlen : a.axes.length < ixs.length) (hs : ∀ ix ∈ ixs, ix ≠ .ellipsis) :
    Lib.take a (.tuple ixs) cfg = .error .index := by
  rw [C01T.take_eq]
  have h1 : normalizeIndex (a.axes.map (·.name)) (.tuple ixs) =
      expandedIndexer ixs (a.axes.map (·.name)).length := rfl
  rw [h1, C01T.expandedIndexer_tooLong _ _ (by simpa using hlen) hs]
  rfl

/-- one `Ellipsis` stands for the full slices needed to reach the number of dimensions -/
theorem take_ellipsis {α : Type} (a : DimArray α) (pre post : List Ix) (cfg : IndexCfg)
    (hpre : ∀ ix ∈ pre, ix ≠ .ellipsis) (hpost : ∀ ix ∈ post, ix ≠ .ellipsis)
    (hlen : pre.length + post.length ≤ a.axes.length) :
    Lib.take a (.tuple (pre ++ .ellipsis :: post)) cfg =
      Lib.take a (.tuple (pre ++ List.replicate (a.axes.length - pre.length - post.length) fullIx
        ++ post)) cfg := by
  rw [C01T.take_eq, C01T.take_eq]
  have h1 : ∀ l, normalizeIndex (a.axes.map (·.name)) (.tuple l) =
      expandedIndexer l (a.axes.map (·.name)).length := fun _ => rfl
  have hs' : ∀ ix ∈ pre ++ List.replicate (a.axes.length - pre.length - post.length) fullIx ++ post,
      ix ≠ .ellipsis := by
    intro ix hix
    simp only [List.mem_append, List.mem_replicate] at hix
    rcases hix with (h | ⟨_, h⟩) | h
    · exact hpre ix h
    · rw [h]; simp [fullIx]
    · exact hpost ix h
  rw [h1, h1, C01T.expandedIndexer_ellipsis pre post _ hpre hpost (by simpa using hlen),
    C01T.expandedIndexer_noEll _ _ (by simp; omega) hs']
  simp only [List.length_map, List.length_append, List.length_replicate]
  have : a.axes.length - (pre.length + (a.axes.length - pre.length - post.length) + post.length) = 0 := by
    omega
  rw [this]
  simp

/-! ### dict form `{dim: index}` (also `.sel(**kw)` / `.isel(**kw)`) and `take(index, axis=)` -/

/-- **dict form = tuple form.** If the keys name the dimensions `ds` (`Spec.KeyDim`: by name, by
position, by negative position), indexing by the mapping is indexing by the tuple that has, for
each dimension, the index given for it and a full slice elsewhere (`Spec.dictKey`) - in every mode
and configuration, errors included. (When two keys name the same dimension the model keeps the
later one; see `dictKey_mem` for the reading under distinct keys.) -/
theorem take_dict_eq_tuple {α : Type} (a : DimArray α) (l : List (DimKey × Ix)) (ds : List String)
    (cfg : IndexCfg) (hlen : ds.length = l.length)
    (hds : ∀ i (h : i < l.length), Spec.KeyDim a.dims l[i].1 (ds[i]'(by omega))) :
    Lib.take a (.dict l) cfg =
      Lib.take a (.tuple (Spec.dictKey a.dims (ds.zip (l.map (·.2))))) cfg := by
  have hkv : C01T.dictKV a.dims l = .ok (ds.zip (l.map (·.2))) := by
    apply C01T.dictKV_ok
    apply C01T.all2_of_getElem
    · intro i h
      refine ⟨?_, ?_⟩
      · simpa using hds i h
      · simp
    · simp [hlen]
  rw [C01T.take_eq, C01T.take_eq]
  have h1 := C01T.normalize_dict a.dims l
  rw [hkv] at h1
  unfold DimArray.dims at h1
  rw [h1]
  rfl

/-- a key naming no dimension is an error (`ValueError` for a name, `IndexError` for a position) -/
theorem take_dict_badkey {α : Type} (a : DimArray α) (l : List (DimKey × Ix)) (cfg : IndexCfg)
    (hbad : ∃ x ∈ l, ∀ d, ¬ Spec.KeyDim a.dims x.1 d) :
    ∃ e, Lib.take a (.dict l) cfg = .error e ∧ (e = .value ∨ e = .index) := by
  obtain ⟨e, he, hE⟩ := C01T.dictKV_err a.dims l hbad
  refine ⟨e, ?_, hE⟩
  rw [C01T.take_eq]
  have h1 := C01T.normalize_dict a.dims l
  rw [he] at h1
  unfold DimArray.dims at h1
  rw [h1]
  rfl

/-- reading of `Spec.dictKey` when every dimension is named at most once: the dimension gets the
index paired with it -/
theorem dictKey_mem (dims : List String) (kv : List (String × Ix)) (hn : (kv.map (·.1)).Nodup)
    (j : Nat) (hj : j < dims.length) (ix : Ix) (hmem : (dims[j], ix) ∈ kv) :
    (Spec.dictKey dims kv)[j]'(by simpa [Spec.dictKey] using hj) = ix := by
  rw [C01T.dictKey_getElem dims kv j hj]
  rw [C01T.find?_unique (fun x => x.1 == dims[j]) kv.reverse (dims[j], ix) (by simpa using hmem) (by simp)]
  · rfl
  · intro y hy hpy
    have hy' : y ∈ kv := by simpa using hy
    have hy1 : y.1 = dims[j] := by simpa using hpy
    exact C01T.nodup_map_inj (·.1) kv hn y hy' _ hmem (by simpa using hy1)

/-- ... and a dimension that is not named gets the full slice -/
theorem dictKey_not_mem (dims : List String) (kv : List (String × Ix))
    (j : Nat) (hj : j < dims.length) (hmem : dims[j] ∉ kv.map (·.1)) :
    (Spec.dictKey dims kv)[j]'(by simpa [Spec.dictKey] using hj) = fullIx := by
  rw [C01T.dictKey_getElem dims kv j hj]
  have : kv.reverse.find? (·.1 == dims[j]) = none := by
    rw [List.find?_eq_none]
    intro x hx hpx
    apply hmem
    have hx' : x ∈ kv := by simpa using hx
    have hx1 : x.1 = dims[j] := by simpa using hpx
    exact List.mem_map.mpr ⟨x, hx', hx1⟩
  rw [this]
  rfl


/-- `take(ix, axis=k)` is the tuple form with `ix` on the dimension `k` names (by name, by position
or by negative position) and full slices on the others -/
theorem take_axis_eq_tuple {α : Type} (a : DimArray α) (ix : Ix) (k : DimKey) (d : String)
    (cfg : IndexCfg) (hd : Spec.KeyDim a.dims k d) (hnd : a.dims.Nodup) (hix : ix ≠ .ellipsis) :
    Lib.take a (.axisArg ix k) cfg = Lib.take a (.tuple (Spec.axisKey a.dims d ix)) cfg := by
  have hne : ∀ x ∈ Spec.axisKey a.dims d ix, x ≠ .ellipsis := by
    intro x hx
    unfold Spec.axisKey at hx
    obtain ⟨d', _, rfl⟩ := List.mem_map.mp hx
    split
    · exact hix
    · simp [fullIx]
  rw [C01T.take_eq, C01T.take_eq]
  have h1 := C01T.normalize_axisArg a.dims ix k d hd hnd hix
  have h2 := C01T.normalize_tuple a.dims (Spec.axisKey a.dims d ix) (by simp [Spec.axisKey]) hne
  unfold DimArray.dims at h1 h2 ⊢
  rw [h1, h2]

theorem take_axis_badkey {α : Type} (a : DimArray α) (ix : Ix) (k : DimKey) (cfg : IndexCfg)
    (hk : k ≠ .pos 0) (hbad : ∀ d, ¬ Spec.KeyDim a.dims k d) :
    ∃ e, Lib.take a (.axisArg ix k) cfg = .error e ∧ (e = .value ∨ e = .index) := by
  obtain ⟨e, he, hE⟩ := C01T.dictKV_err a.dims [(k, ix)] ⟨(k, ix), by simp, hbad⟩
  refine ⟨e, ?_, hE⟩
  rw [C01T.take_eq]
  have h1 := C01T.normalize_axisArg_ne a.dims ix k hk
  rw [C01T.normalize_dict, he] at h1
  unfold DimArray.dims at h1
  rw [h1]
  rfl


/-- non-vacuity: `{-1: 1, 'x': ['a']}` on dims `("x", "y")`: key `-1` names `y`; the mapping stands
for the tuple `(['a'], 1)` -/
example : Lib.take exArr (.dict [(.pos (-1), .scalar (.num 1)), (.name "x", .list [.str "a"])]) {} =
    Lib.take exArr (.tuple [.list [.str "a"], .scalar (.num 1)]) {} := by
  apply take_dict_eq_tuple exArr _ ["y", "x"] {} rfl
  intro i h
  rcases i with _ | _ | i
  · simp [Spec.KeyDim, exArr, DimArray.dims]
  · simp [Spec.KeyDim, exArr, DimArray.dims]
  · simp at h; omega

/-- the model's reading of a mapping that names the same dimension twice: the later entry wins.
(Python differs in one corner: an int key always wins over a str key for the same dimension,
whatever their order, because int keys are rewritten in place; two int keys behave as here.) -/
example : Spec.dictKey ["x", "y"] [("x", .scalar (.num 1)), ("x", .scalar (.num 2))] =
    [.scalar (.num 2), fullIx] := by decide

/-- a name that is no dimension: `ValueError`; a position out of range: `IndexError` -/
example : Lib.take exArr (.dict [(.name "z", fullIx)]) {} = .error .value ∧
    Lib.take exArr (.dict [(.pos 2, fullIx)]) {} = .error .index ∧
    Lib.take exArr (.axisArg fullIx (.pos (-3))) {} = .error .index := ⟨rfl, rfl, rfl⟩

/-! ### `keepdims=True` -/

/-- **keepdims.** With `keepdims=True` a scalar index means the list of that one label / position:
the dimension is kept as a singleton carrying that label. In every mode, with or without
tolerance, errors included (labels unique; `None` is not a requested label). -/
theorem take_keepdims_spec {α : Type} (a : DimArray α) (ixs : List Ix) (cfg : IndexCfg)
    (hk : cfg.keepdims = true) (hs : ∀ ix ∈ ixs, ix ≠ .scalar .none)
    (hax : cfg.mode ≠ .position → ∀ ax ∈ a.axes, ax.labels.Nodup) :
    Lib.take a (.tuple ixs) cfg =
      Lib.take a (.tuple (ixs.map Ix.keep)) { cfg with keepdims := false } := by
  rw [C01T.take_eq, C01T.take_eq]
  have h1 : ∀ l, normalizeIndex (a.axes.map (·.name)) (.tuple l) =
      expandedIndexer l (a.axes.map (·.name)).length := fun _ => rfl
  rw [h1, h1, C01T.expandedIndexer_map_keep]
  cases hE : expandedIndexer ixs (a.axes.map (·.name)).length with
  | error e => rfl
  | ok key =>
    have hkey : ∀ ix ∈ key, ix ≠ .scalar .none := by
      intro ix hix
      rcases C01T.expandedIndexer_mem ixs _ key hE ix hix with h | h
      · exact hs ix h
      · rw [h]; simp [fullIx]
    have := C01T.mapM_giStep_keep cfg hk key a.axes hkey (fun ax h hm => hax hm ax h)
    simp only [Except.map, bind, Except.bind]
    rw [this]

theorem SimpleIx_keep (ix : Ix) (h : Spec.SimpleIx ix) : Spec.SimpleIx ix.keep := by
  cases ix with
  | scalar v => simp [Ix.keep, Spec.SimpleIx]
  | list vs => exact h
  | mask m => exact h
  | ellipsis => exact h
  | slice a b c => exact h

/-- `keepdims=True` in label mode: a scalar label keeps its dimension as a singleton -/
theorem take_keepdims_label {α : Type} (a : DimArray α) (ixs : List Ix) (cfg : IndexCfg)
    (hm : cfg.mode = .label) (ht : cfg.tol = none) (hk : cfg.keepdims = true)
    (hlen : ixs.length = a.axes.length) (hs : ∀ ix ∈ ixs, Spec.SimpleIx ix)
    (hax : ∀ ax ∈ a.axes, ax.labels.Nodup ∧ ax.members = []) :
    Lib.take a (.tuple ixs) cfg = Spec.take a (ixs.map Ix.keep) := by
  rw [take_keepdims_spec a ixs cfg hk ?_ (fun _ ax h => (hax ax h).1)]
  · apply take_spec a (ixs.map Ix.keep) { cfg with keepdims := false } hm ht rfl (by simpa using hlen) ?_ hax
    intro ix hix
    obtain ⟨ix', h', rfl⟩ := List.mem_map.mp hix
    exact SimpleIx_keep ix' (hs ix' h')
  · intro ix hix h
    have := hs ix hix
    rw [h] at this
    exact this rfl


/-- non-vacuity: `a.take(('a', 2), keepdims=True)` keeps both dimensions as singletons -/
example : (Lib.take exArr (.tuple [.scalar (.str "a"), .scalar (.num 2)]) { keepdims := true }).toOption.map
      (fun r => (r.dims, r.axes.map (·.labels), r.vals.toList))
    = some (["x", "y"], [[.str "a"], [.num 2]], [5]) := by
  rw [take_keepdims_label exArr _ { keepdims := true } rfl rfl rfl rfl
    (by intro ix hix; simp at hix; rcases hix with rfl | rfl <;> simp [Spec.SimpleIx])
    (by intro ax hax; simp [exArr] at hax; rcases hax with rfl | rfl <;> simp)]
  decide

/-- why `take_keepdims_spec` excludes `None` as a requested label: `values.tolist().index(None)` (the
scalar path) raises `ValueError`, the list path `IndexError` -/
theorem take_keepdims_none_counterexample :
    Lib.take exArr (.tuple [.scalar .none, fullIx]) { keepdims := true } = .error .value ∧
    Lib.take exArr (.tuple ([.scalar .none, fullIx].map Ix.keep)) { keepdims := false } = .error .index := by
  constructor
  · rfl
  · rw [take_spec exArr _ { keepdims := false } rfl rfl rfl rfl
      (by intro ix hix; simp [Ix.keep, fullIx] at hix; rcases hix with rfl | rfl <;> simp [Spec.SimpleIx])
      (by intro ax hax; simp [exArr] at hax; rcases hax with rfl | rfl <;> simp)]
    rfl

/-! ### boolean masks, under every spelling -/

/-- **masks.** A boolean mask per dimension (full slices elsewhere) selects the same thing in every
mode and configuration (`.loc`, `.ix`, tolerance, keepdims): the positions where the mask is true
(`mask_positions`), and a mask whose length is not the dimension's is an `IndexError`
(`Spec.take` / `Spec.positions`). -/
theorem take_mask_any_cfg {α : Type} (a : DimArray α) (ixs : List Ix) (cfg : IndexCfg)
    (hlen : ixs.length = a.axes.length)
    (hs : ∀ ix ∈ ixs, (∃ m, ix = .mask m) ∨ ix = fullIx)
    (hax : ∀ ax ∈ a.axes, ax.members = []) :
    Lib.take a (.tuple ixs) cfg = Spec.take a ixs := by
  have hne : ∀ ix ∈ ixs, ix ≠ .ellipsis := by
    intro ix hix
    rcases hs ix hix with ⟨m, rfl⟩ | rfl
    · simp
    · simp [fullIx]
  obtain ⟨hok, herr⟩ := C01T.take_of_spec a (.tuple ixs) ixs cfg (fun e => e = .index)
    (fun ix ax => Spec.positions ax.labels ix)
    (C01T.normalize_tuple _ ixs (by simpa using hlen) hne) hlen
    (fun x hx => C01T.perDim_maskfull cfg x.1 x.2 (hax x.2 (List.of_mem_zip hx).2)
      (hs x.1 (List.of_mem_zip hx).1))
  unfold Spec.take
  cases hS : (ixs.zip a.axes).mapM (fun (x : Ix × Axis) => Spec.positions x.2.labels x.1) with
  | some ps => exact hok ps hS
  | none =>
    obtain ⟨e, he, rfl⟩ := herr hS
    exact he

/-- the positions a mask selects: in ascending order, exactly those where the mask is true -/
theorem mask_positions (m : List Bool) :
    nonzero m = (List.range m.length).filter (fun i => m[i]? = some true) :=
  C01T.nonzero_eq_filter m


/-! ### tolerance, end to end (`tol=`, `.nloc`) -/

/-- `m` is the position of the label nearest to `q` (the first one among equally near labels), and
that label lies within the tolerance -/
def Spec.Nearest (qs : List Rat) (q : Rat) (t : Tol) (m : Nat) : Prop :=
  m < qs.length ∧ (∀ i, i < qs.length → tolDist qs q m ≤ tolDist qs q i) ∧
    (∀ i, i < m → tolDist qs q m < tolDist qs q i) ∧ t.ge (tolDist qs q m) = true

/-- `locate_one(values, v, tol=t)` on numeric operands returns `m` exactly when `m` is the nearest
label (first among ties) and lies within the tolerance -/
theorem locateOne_tol_iff (L : List Label) (v : Label) (t : Tol) (q : Rat) (qs : List Rat) (m : Nat)
    (hv : v.toRat? = some q) (hL : L.mapM Label.toRat? = some qs) :
    locateOne L v (some t) = .ok m ↔ Spec.Nearest qs q t m := by
  constructor
  · exact locateOne_tol_ok L v t q qs m hv hL
  · intro ⟨h1, h2, h3, h4⟩
    have hne : qs ≠ [] := by
      intro h; subst h; simp at h1
    obtain ⟨hiff, hor⟩ := locateOne_tol_error L v t q qs hv hL hne
    rcases hor with ⟨m', hm'⟩ | herr
    · obtain ⟨g1, g2, g3, _⟩ := locateOne_tol_ok L v t q qs m' hv hL hm'
      have : m' = m := by
        rcases Nat.lt_trichotomy m m' with h | h | h
        · have a1 := g3 m h
          have a2 := h2 m' g1
          grind
        · exact h.symm
        · have a1 := h3 m' h
          have a2 := g2 m h1
          grind
      rw [hm', this]
    · have := hiff.mp herr m h1
      rw [h4] at this
      cases this

/-- the per-dimension meaning of an index under a tolerance: nearest-within-tolerance on a numeric
axis, exact label lookup on the others (where the library ignores the tolerance) -/
def Spec.tolDim (t : Tol) (ix : Ix) (ax : Axis) : Option PosIx :=
  if ax.kind.isNumeric then Spec.tolPositions t ax.labels ix else Spec.positions ax.labels ix

/-- **C01, tolerance.** In label mode with a tolerance `t`, every numeric dimension is sampled at
the positions of the nearest labels within `t` (`Spec.tolPositions`, each position characterised
by `locateOne_tol_iff`), every non-numeric dimension at the exact labels; the result axes carry the
AXIS'S OWN labels at the selected positions (`Spec.takeAxes` / `axisSelect`), not the requested
values. If some request has no label within the tolerance (or is not numeric, or the axis is
empty) the read fails with `IndexError` (`TypeError`, `ValueError`). -/
theorem take_tol_spec {α : Type} (a : DimArray α) (ixs : List Ix) (cfg : IndexCfg) (t : Tol)
    (hm : cfg.mode = .label) (ht : cfg.tol = some t) (hk : cfg.keepdims = false)
    (hlen : ixs.length = a.axes.length) (hs : ∀ ix ∈ ixs, Spec.SimpleIx ix)
    (hax : ∀ ax ∈ a.axes, ax.members = [] ∧ (ax.kind.isNumeric = false → ax.labels.Nodup)) :
    (∀ ps, (ixs.zip a.axes).mapM (fun x => Spec.tolDim t x.1 x.2) = some ps →
      Lib.take a (.tuple ixs) cfg =
        .ok { axes := Spec.takeAxes a.axes ps, vals := a.vals.outer ps, vkind := a.vkind,
              attrs := a.attrs }) ∧
    ((ixs.zip a.axes).mapM (fun x => Spec.tolDim t x.1 x.2) = none →
      ∃ e, Lib.take a (.tuple ixs) cfg = .error e ∧ (e = .index ∨ e = .type ∨ e = .value)) := by
  have hne : ∀ ix ∈ ixs, ix ≠ .ellipsis := by
    intro ix hix h
    have := hs ix hix
    rw [h] at this
    exact this
  apply C01T.take_of_spec a (.tuple ixs) ixs cfg C01T.TolErr (Spec.tolDim t)
    (C01T.normalize_tuple _ ixs (by simpa using hlen) hne) hlen
  intro x hx
  have hx' := List.of_mem_zip hx
  obtain ⟨hp, hnd⟩ := hax x.2 hx'.2
  unfold Spec.tolDim
  by_cases hnum : x.2.kind.isNumeric = true
  · simp only [hnum, if_true]
    exact C01T.perDim_tol cfg t hm ht hk x.1 x.2 hnum (hs x.1 hx'.1) hp
  · have hnum' : x.2.kind.isNumeric = false := by simpa using hnum
    simp only [hnum', Bool.false_eq_true, if_false]
    have hgi : C01T.giStep cfg (x.1, x.2) = giLabel { cfg with tol := none } (x.1, x.2) :=
      C01T.giStep_tol_nonnumeric cfg x.1 x.2 hnum'
    rcases perDim_spec { cfg with tol := none } hm rfl hk x.1 x.2 (hs x.1 hx'.1) (hnd hnum') hp with
      ⟨r, p, h1, h2, h3, h4⟩ | ⟨h1, h3⟩ | ⟨r, h1, h2, h3⟩
    · rw [h3]
      exact ⟨r, hgi.trans h1, h2, h4⟩
    · rw [h3]
      exact Or.inl ⟨.index, hgi.trans h1, Or.inl rfl⟩
    · rw [h3]
      exact Or.inr ⟨r, .index, hgi.trans h1, h2, Or.inl rfl⟩


/-- non-vacuity: axis `y` has labels `3, 1, 2`; requesting `[4, 0]` with tolerance `1` selects
positions `0, 1`, and the result axis carries the labels `3, 1` found there (not `4, 0`). -/
def exTolIx : List Ix := [fullIx, .list [.num 4, .num 0]]
def exTolCfg : IndexCfg := { tol := some (.fin 1) }

theorem exTol_4 : locateOne [.num 3, .num 1, .num 2] (.num 4) (some (.fin 1)) = .ok 0 := by
  rw [locateOne_tol_unfold _ _ _ 4 [3, 1, 2] rfl rfl (by simp)]
  simp only [argminRat, argminRat.go, ratAbs, List.map, Tol.ge]
  grind

theorem exTol_0 : locateOne [.num 3, .num 1, .num 2] (.num 0) (some (.fin 1)) = .ok 1 := by
  rw [locateOne_tol_unfold _ _ _ 0 [3, 1, 2] rfl rfl (by simp)]
  simp only [argminRat, argminRat.go, ratAbs, List.map, Tol.ge]
  grind

example : (Lib.take exArr (.tuple exTolIx) exTolCfg).toOption.map
      (fun r => (r.dims, r.axes.map (·.labels), r.vals.toList))
    = some (["x", "y"], [[.str "b", .str "a"], [.num 3, .num 1]], [0, 1, 3, 4]) := by
  rw [(take_tol_spec exArr exTolIx exTolCfg (.fin 1) rfl rfl rfl rfl
    (by intro ix hix; simp [exTolIx] at hix; rcases hix with rfl | rfl <;> simp [Spec.SimpleIx, fullIx])
    (by intro ax hax; simp [exArr] at hax; rcases hax with rfl | rfl <;> simp)).1
    [.list [0, 1], .list [0, 1]]
    (by simp [exTolIx, exArr, Spec.tolDim, Spec.tolPositions, Spec.positions, fullIx, Kind.isNumeric,
          exTol_4, exTol_0, Except.toOption]; rfl)]
  decide

/-! ### a boolean array of the array's shape as index (`a[mask]`, `.loc[mask]`, `take(mask, ...)`; mirror `Lib.takeMaskNd`) -/

/-- every accessor and configuration reads a rank > 1 boolean array the same way: `compress` -/
theorem take_mask_nd_any_cfg {α : Type} (a : DimArray α) (mask : NDArr Bool) (cfg cfg' : IndexCfg)
    (h : 1 < mask.shape.length) : takeMaskNd a mask cfg = takeMaskNd a mask cfg' ∧ takeMaskNd a mask cfg = compressNd a mask := by
  unfold takeMaskNd
  simp [h]

/-- **full-shape boolean read, end to end (rank ≥ 2).** With a boolean array of the array's shape, in every spelling / mode /
tolerance, the read succeeds and returns the 1-D array over an axis of label TUPLES; `sel`, the list of result cells, is the
row-major enumeration of all indices of the shape (`allIdx`, which has `j` at offset `ravel shape j`: `allIdx_getElem?`)
filtered by the mask - so it holds exactly the in-range indices where the mask is true, each once, in row-major order - and
result position `k` holds the input cell at `sel[k]` together with its tuple of labels: one component per dimension,
component `i` being the label of axis `i` at the cell's coordinate along it. Metadata and dtype kind are kept.
(The C01-shaped reading of C17's `compressNd_spec` / `_complete` / `_coord`, for the read accessors; proved from the same
equation `compressNd_eq_tuple`, restated in Proofs/C01Nd.lean because Props/C17 sits above this file in the import graph.) -/
theorem take_mask_nd_spec {α : Type} (a : DimArray α) (mask : NDArr Bool) (cfg : IndexCfg) (hwf : a.WF) (hrank : 2 ≤ a.ndim)
    (hshape : mask.shape = a.vals.shape) :
    ∃ (t : TupleArr α) (sel : List (List Nat)), takeMaskNd a mask cfg = .ok (.inr t) ∧
      sel = (allIdx a.vals.shape).filter mask.get ∧ sel.Sublist (allIdx a.vals.shape) ∧ sel.Nodup ∧
      (∀ j, j ∈ sel ↔ (InRange a.vals.shape j ∧ mask.get j = true)) ∧
      t.name = ",".intercalate a.dims ∧ t.vkind = a.vkind ∧ t.attrs = a.attrs ∧
      t.cells.length = sel.length ∧ t.coords.length = sel.length ∧
      ∀ (k : Nat) (j : List Nat), sel[k]? = some j →
        t.cells[k]? = some (a.vals.get j) ∧
        ∃ c, t.coords[k]? = some c ∧ c.length = a.axes.length ∧
          ∀ (i : Nat) (ax : Axis) (p : Nat), a.axes[i]? = some ax → j[i]? = some p →
            c[i]? = some (ax.labels.getD p Label.none) := by
  have hnd : a.vals.shape.length = a.ndim := by rw [hwf.1, List.length_map]; rfl
  have hm : 1 < mask.shape.length := by rw [hshape, hnd]; omega
  have hne : a.ndim ≠ 1 := by omega
  have hEq := C01Nd.compressNd_eq_tuple a mask hne hshape hnd
  rw [← (take_mask_nd_any_cfg a mask cfg cfg hm).2] at hEq
  refine ⟨_, (allIdx a.vals.shape).filter mask.get, hEq, rfl, List.filter_sublist,
    List.Nodup.sublist List.filter_sublist (C01Nd.allIdx_nodup _), ?_, rfl, rfl, rfl, by simp, by simp, ?_⟩
  · intro j
    constructor
    · intro h
      rw [List.mem_filter] at h
      exact ⟨C01Nd.mem_allIdx _ _ h.1, h.2⟩
    · intro h
      exact List.mem_filter.mpr ⟨C01Nd.inRange_mem_allIdx _ _ h.1, h.2⟩
  · intro k j hk
    have hmem := List.mem_of_getElem? hk
    rw [List.mem_filter] at hmem
    have hj := C01Nd.mem_allIdx _ _ hmem.1
    refine ⟨by simp only [List.getElem?_map, hk, Option.map_some], coordLabels a.axes j,
      by simp only [List.getElem?_map, hk, Option.map_some], ?_⟩
    refine ⟨C01Nd.coordLabels_length _ _ ?_, fun i ax p => C01Nd.coordLabels_getElem? _ _ i ax p⟩
    rw [C01Nd.inRange_length _ _ hj, hwf.1, List.length_map]

/-- a boolean array of another shape is refused (never a silent mis-selection): another rank is a ValueError, the right rank
with another shape an IndexError -/
theorem take_mask_nd_refuses {α : Type} (a : DimArray α) (mask : NDArr Bool) (cfg : IndexCfg)
    (h : 1 < mask.shape.length) :
    (mask.shape.length ≠ a.ndim → takeMaskNd a mask cfg = .error .value) ∧
    (mask.shape.length = a.ndim → mask.shape ≠ a.vals.shape → takeMaskNd a mask cfg = .error .index) := by
  rw [(take_mask_nd_any_cfg a mask cfg cfg h).2]
  exact ⟨C01Nd.compressNd_err_rank a mask, C01Nd.compressNd_err_shape a mask⟩

/-- the hypothesis `2 ≤ ndim` of `take_mask_nd_spec` is needed: a rank-1 boolean array is the ordinary 1-D mask and the
result keeps the plain axis (no tuples) -/
theorem take_mask_nd_rank1_counterexample :
    let a : DimArray Nat := { axes := [{ name := "x", labels := [.num 1, .num 2], kind := .i }],
                              vals := { shape := [2], get := fun j => j.getD 0 0 } }
    ∀ cfg t, takeMaskNd a { shape := [2], get := fun _ => true } cfg ≠ .ok (.inr t) := by
  intro a cfg t h
  unfold takeMaskNd at h
  simp only [List.length_singleton, Nat.lt_irrefl, if_false] at h
  cases h' : take a (.tuple [.mask (maskBits { shape := [2], get := fun _ => true })]) cfg <;> rw [h'] at h <;> cases h

/-- a 3 x 2 array: x = [2, 0, 1], y = ["b", "a"], cells 10 .. 60 in row-major order -/
def exNd : DimArray Nat :=
  { axes := [{ name := "x", labels := [.num 2, .num 0, .num 1], kind := .i },
             { name := "y", labels := [.str "b", .str "a"], kind := .O }],
    vals := { shape := [3, 2], get := fun j => 10 * (2 * j.getD 0 0 + j.getD 1 0 + 1) } }

/-- `take_mask_nd_spec` on it: `.loc[mask]` with the mask true at (0,0) and (1,1) returns the cells 10 and 40 with the tuple
labels (2, "b") and (0, "a") -/
example : ∃ t, takeMaskNd exNd { shape := [3, 2], get := fun j => j == [0, 0] || j == [1, 1] }
      { indexing := some .label } = .ok (.inr t) ∧
    t.name = "x,y" ∧ t.cells = [10, 40] ∧ t.coords = [[.num 2, .str "b"], [.num 0, .str "a"]] := by
  have hEq := C01Nd.compressNd_eq_tuple exNd { shape := [3, 2], get := fun j => j == [0, 0] || j == [1, 1] } (by decide) rfl rfl
  rw [← (take_mask_nd_any_cfg exNd _ { indexing := some .label } {} (by decide)).2] at hEq
  refine ⟨_, hEq, by decide, ?_, ?_⟩ <;> rfl

/-! ### an `Axes` object as index (`a[other.axes]`, `a.take(axes)`; mirror `Lib.takeAxesIndex`) -/

/-- **an Axes object as index = the tuple of its label arrays.** When every held axis names a dimension of the array, the read
is the read by the tuple that has, on each dimension the object holds an axis for, the LIST of that axis' labels (of the last
such axis if there are several) and a full slice on the others (`Spec.dictKey`; see `dictKey_mem` / `dictKey_not_mem`) - in
every mode and configuration, errors included; the order of the axes inside the object plays no role. -/
theorem take_axes_index_eq_labels {α : Type} (a : DimArray α) (idx : List Axis) (cfg : IndexCfg)
    (hin : ∀ ax ∈ idx, ax.name ∈ a.dims) :
    takeAxesIndex a idx cfg =
      Lib.take a (.tuple (Spec.dictKey a.dims (idx.map fun ax => (ax.name, Ix.list ax.labels)))) cfg := by
  unfold takeAxesIndex axesIndex
  rw [take_dict_eq_tuple a _ (idx.map (·.name)) cfg (by simp)]
  · congr 3
    simp [List.zip_map', List.map_map, Function.comp_def]
  · intro i h
    simp only [List.getElem_map]
    refine ⟨rfl, hin _ (List.getElem_mem _)⟩

/-- with axes of distinct names: dimension `j` is read at the labels of the held axis of that name, in the order the axis
lists them (repeats allowed) ... -/
theorem take_axes_index_dim {α : Type} (a : DimArray α) (idx : List Axis) (hn : (idx.map (·.name)).Nodup)
    (j : Nat) (hj : j < a.dims.length) (ax : Axis) (hax : ax ∈ idx) (hname : ax.name = a.dims[j]) :
    (Spec.dictKey a.dims (idx.map fun ax => (ax.name, Ix.list ax.labels)))[j]'(by simpa [Spec.dictKey] using hj) =
      .list ax.labels := by
  apply dictKey_mem
  · simpa [List.map_map, Function.comp_def] using hn
  · rw [← hname]
    exact List.mem_map.mpr ⟨ax, hax, rfl⟩

/-- ... and an axis naming no dimension of the array is an error (ValueError), whatever else the object holds -/
theorem take_axes_index_badname {α : Type} (a : DimArray α) (idx : List Axis) (cfg : IndexCfg)
    (hbad : ∃ ax ∈ idx, ax.name ∉ a.dims) :
    ∃ e, takeAxesIndex a idx cfg = .error e ∧ (e = .value ∨ e = .index) := by
  unfold takeAxesIndex axesIndex
  apply take_dict_badkey
  obtain ⟨ax, hax, hnot⟩ := hbad
  refine ⟨(.name ax.name, .list ax.labels), List.mem_map.mpr ⟨ax, hax, rfl⟩, ?_⟩
  intro d hd
  exact hnot (hd.1 ▸ hd.2)

/-- `take_axes_index_eq_labels` on the 2 x 3 example: the Axes object holding y = [2, 3, 2] reads like `a[:, [2, 3, 2]]` -/
example : takeAxesIndex exArr [{ name := "y", labels := [.num 2, .num 3, .num 2], kind := .i }] {} =
    Lib.take exArr (.tuple [fullIx, .list [.num 2, .num 3, .num 2]]) {} :=
  take_axes_index_eq_labels exArr _ {} (by decide)

end DimModel

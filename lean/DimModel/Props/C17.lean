/-
C17 - property theorems: axis-wise selection and missing-value handling keep slices with their
labels.
-/
import DimModel.Lib.Missing
import DimModel.Proofs.Order
namespace DimModel
open Lib

/-! ### helpers -/

private theorem getD_set_self' {β : Type} (l : List β) (i : Nat) (x d : β) (h : i < l.length) :
    (l.set i x).getD i d = x := by
  rw [List.getD_eq_getElem?_getD, List.getElem?_set_self h]; rfl

private theorem takeAxisPos_axis {α : Type} (a : DimArray α) (pos : Nat) (ps : List Nat)
    (hpos : pos < a.axes.length) :
    (takeAxisPos a pos ps).axes.getD pos default = axisTake (a.axes.getD pos default) ps := by
  unfold takeAxisPos
  simp only [List.getD_eq_getElem?_getD, List.getElem?_mapIdx, List.getElem?_eq_getElem hpos,
    Option.map_some, Option.getD_some, beq_self_eq_true, if_true]

/-- the labels read at the argsort positions are the sorted labels -/
private theorem argsort_labels (L : List Label) :
    (argsortBy Label.le L).map (fun p => L.getD p Label.none) = sortBy Label.le L := by
  rw [argsortBy_eq, sortBy_eq, List.map_map]
  apply List.map_congr_left
  intro p hp
  have := sortedPairs_mem Label.le hp
  simp only [Function.comp, List.getD_eq_getElem?_getD, this, Option.getD_some]

private theorem zipIdx_map_fst' {β : Type} (l : List β) (n : Nat) : (l.zipIdx n).map (·.1) = l := by
  induction l generalizing n with
  | nil => rfl
  | cons x xs ih => simp only [List.zipIdx_cons, List.map_cons, ih]

private theorem sortBy_perm {β : Type} (le : β → β → Bool) (l : List β) : (sortBy le l).Perm l := by
  rw [sortBy_eq]
  have := (sortedPairs_perm le l).map (·.1)
  rwa [zipIdx_map_fst'] at this

/-- selecting the `nonzero` positions of a mask (no longer than the labels) keeps the labels paired
with `true` -/
private theorem nonzero_select_aux (f : Nat → Label) (L : List Label) (mask : List Bool) (n : Nat)
    (hlen : mask.length ≤ L.length) (hf : ∀ i (h : i < L.length), f (n + i) = L[i]) :
    ((mask.zipIdx n).filter (·.1)).map (fun p => f p.2) =
      (L.zip mask).filterMap (fun (l, m) => if m then some l else none) := by
  induction mask generalizing L n with
  | nil => simp
  | cons m ms ih =>
    cases L with
    | nil => simp at hlen
    | cons x xs =>
      have hx : f n = x := hf 0 (Nat.zero_lt_succ _)
      have ih' := ih xs (n + 1) (by simpa using hlen) (by
        intro i h
        have := hf (i + 1) (by simpa using h)
        simpa [Nat.add_assoc, Nat.add_comm 1 i] using this)
      cases m
      · simp only [List.zipIdx_cons, List.zip_cons_cons, List.filterMap_cons]
        rw [List.filter_cons_of_neg (by simp)]
        simpa using ih'
      · simp only [List.zipIdx_cons, List.zip_cons_cons, List.filterMap_cons]
        rw [List.filter_cons_of_pos (by simp)]
        simp only [List.map_cons, hx, if_true]
        rw [ih']

private theorem nonzero_select (L : List Label) (mask : List Bool) (hlen : mask.length ≤ L.length) :
    (nonzero mask).map (fun p => L.getD p Label.none) =
      (L.zip mask).filterMap (fun (l, m) => if m then some l else none) := by
  unfold nonzero
  rw [List.map_map]
  exact nonzero_select_aux (fun p => L.getD p Label.none) L mask 0 hlen (by
    intro i h
    simp only [Nat.zero_add, List.getD_eq_getElem?_getD, List.getElem?_eq_getElem h, Option.getD_some])

/-- positional take along an axis: the slice at result position `k` is the input slice at `ps[k]`,
and its label is the input label at `ps[k]` - each slice moves together with its label -/
theorem takeAxisPos_get {α : Type} (a : DimArray α) (pos : Nat) (ps : List Nat) (j : List Nat) :
    (takeAxisPos a pos ps).vals.get j = a.vals.get (j.set pos (ps.getD (j.getD pos 0) 0)) := by
  rfl

theorem takeAxisPos_labels {α : Type} (a : DimArray α) (pos : Nat) (ps : List Nat) (hpos : pos < a.axes.length) :
    ((takeAxisPos a pos ps).axes.getD pos default).labels =
      ps.map (fun p => (a.axes.getD pos default).labels.getD p Label.none) := by
  rw [takeAxisPos_axis a pos ps hpos]
  rfl

theorem takeAxisPos_other_axes {α : Type} (a : DimArray α) (pos : Nat) (ps : List Nat) (i : Nat) (hi : i ≠ pos) :
    (takeAxisPos a pos ps).axes[i]? = a.axes[i]? ∧ (takeAxisPos a pos ps).attrs = a.attrs := by
  refine ⟨?_, rfl⟩
  unfold takeAxisPos
  simp only [List.getElem?_mapIdx]
  have : (i == pos) = false := by simpa using hi
  cases h : a.axes[i]? with
  | none => rfl
  | some x => simp only [Option.map_some, this, Bool.false_eq_true, if_false]

private theorem sortAxis_eq {α : Type} (a r : DimArray α) (k : DimKey) (pos : Nat)
    (hpos : axisPos a.axes k = .ok pos) (h : sortAxis a k = .ok r) :
    r = takeAxisPos a pos (argsortBy Label.le (a.axes.getD pos default).labels) := by
  unfold sortAxis at h
  rw [hpos] at h
  simp only [bind, Except.bind, pure, Except.pure] at h
  injection h with h
  exact h.symm

/-- `sort_axis`: the labels of the sorted axis are in ascending order ... -/
theorem sortAxis_sorted {α : Type} (a r : DimArray α) (k : DimKey) (pos : Nat)
    (hpos : axisPos a.axes k = .ok pos) (hlt : pos < a.axes.length)
    (h : sortAxis a k = .ok r) :
    ((r.axes.getD pos default).labels).Pairwise (fun x y => Label.le x y = true) := by
  rw [sortAxis_eq a r k pos hpos h, takeAxisPos_labels a pos _ hlt, argsort_labels]
  exact sortBy_pairwise Label.le Label.le_trans Label.le_total _

/-- ... and are a permutation of the original labels (no label lost or duplicated) -/
theorem sortAxis_perm {α : Type} (a r : DimArray α) (k : DimKey) (pos : Nat)
    (hpos : axisPos a.axes k = .ok pos) (hlt : pos < a.axes.length)
    (h : sortAxis a k = .ok r) :
    ((r.axes.getD pos default).labels).Perm (a.axes.getD pos default).labels := by
  rw [sortAxis_eq a r k pos hpos h, takeAxisPos_labels a pos _ hlt, argsort_labels]
  exact sortBy_perm Label.le _

/-- `compress_axis`: the kept labels are those selected by the mask, in their original order -/
theorem compressAxis_labels {α : Type} (a r : DimArray α) (mask : List Bool) (k : DimKey) (pos : Nat)
    (hpos : axisPos a.axes k = .ok pos) (hlt : pos < a.axes.length)
    (hplain : (a.axes.getD pos default).members = [])
    (h : compressAxis a mask k = .ok r) :
    (r.axes.getD pos default).labels =
      ((a.axes.getD pos default).labels.zip mask).filterMap (fun (l, m) => if m then some l else none) := by
  unfold compressAxis at h
  rw [hpos] at h
  simp only [bind, Except.bind, pure, Except.pure] at h
  split at h
  · cases h
  · rename_i hne
    injection h with h
    subst h
    have hlen : mask.length = (a.axes.getD pos default).labels.length := by
      have : mask.length = (a.axes.getD pos default).size := by simpa using hne
      rw [this]
      unfold Axis.size
      simp only [hplain, List.isEmpty_nil, if_true]
    simp only [getD_set_self' _ _ _ _ hlt, axisSelect]
    exact nonzero_select _ _ (Nat.le_of_eq hlen)

/-- `fillna` replaces exactly the NaN cells -/
theorem fillna_spec {α : Type} (isnan : α → Bool) (a : DimArray α) (fill : α) (fk : Kind) (j : List Nat) :
    (fillna isnan a fill fk).vals.get j = (if isnan (a.vals.get j) then fill else a.vals.get j) ∧
    (fillna isnan a fill fk).axes = a.axes ∧ (fillna isnan a fill fk).attrs = a.attrs := by
  exact ⟨rfl, rfl, rfl⟩

/-- `setna` sets to NaN exactly the matching cells; integer data is promoted to float -/
theorem setna_spec {α : Type} (hit : List Nat → Bool) (nan : α) (a : DimArray α) (j : List Nat) :
    (setna hit nan a).vals.get j = (if hit j then nan else a.vals.get j) ∧
    (setna hit nan a).axes = a.axes ∧ (setna hit nan a).attrs = a.attrs ∧
    (a.vkind = .i → (setna hit nan a).vkind = .f) := by
  refine ⟨rfl, rfl, rfl, ?_⟩
  intro hk
  show maybeCastKind a.vkind .f = .f
  rw [hk]
  rfl

/-- `dropna` on an array of rank >= 2: the result is `compress_axis` with the mask "the slice at
this label has at most (slice size - minvalid) NaNs" (default: no NaN), evaluated label by label in
axis order -/
theorem dropna_mask_spec {α : Type} (isnan : α → Bool) (a : DimArray α) (k : DimKey) (pos : Nat) (minvalid : Option Nat)
    (hpos : axisPos a.axes k = .ok pos) (hrank : a.ndim ≠ 1) :
    dropna isnan a k minvalid =
      compressAxis a ((List.range (a.axes.getD pos default).size).map fun i =>
        decide ((((allIdx (a.vals.shape.eraseIdx pos)).filter fun j => isnan (a.vals.get (j.insertIdx pos i))).length : Int)
          ≤ (match minvalid with | none => (0 : Int) | some m => (prod (a.vals.shape.eraseIdx pos) : Int) - m))) (.pos pos) := by
  unfold dropna
  rw [hpos]
  have hr : (a.ndim == 1) = false := by simpa using hrank
  simp only [bind, Except.bind, hr, Bool.false_eq_true, if_false]
  cases minvalid <;> rfl

end DimModel

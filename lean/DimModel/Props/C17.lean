/-
C17 - property theorems: axis-wise selection and missing-value handling keep slices with their
labels.
-/
import DimModel.Lib.Missing
import DimModel.Proofs.Order
import DimModel.Proofs.C17
import DimModel.Proofs.C17Key
namespace DimModel
open Lib
open C17P

/-! ### helpers -/

private theorem getD_set_self' {β : Type} (l : List β) (i : Nat) (x d : β) (h : i < l.length) :
    (l.set i x).getD i d = x := by
  rw [List.getD_eq_getElem?_getD, List.getElem?_set_self h]; rfl

private theorem takeAxisPos_axis {α : Type} (a : DimArray α) (pos : Nat) (ps : List Nat)
    (hpos : pos < a.axes.length) :
    (takeAxisPos a pos ps).axes.getD pos default = axisTake (a.axes.getD pos default) ps := by
  unfold takeAxisPos
  simp only [List.getD_eq_getElem?_getD, List.getElem?_mapIdx, List.getElem?_eq_getElem hpos,
    Option.map_some, Option.getD_some, beq_self_eq_true, if_true]

/-- the labels read at the argsort positions are the sorted labels -/
private theorem argsort_labels (L : List Label) :
    (argsortBy Label.le L).map (fun p => L.getD p Label.none) = sortBy Label.le L := by
  rw [argsortBy_eq, sortBy_eq, List.map_map]
  apply List.map_congr_left
  intro p hp
  have := sortedPairs_mem Label.le hp
  simp only [Function.comp, List.getD_eq_getElem?_getD, this, Option.getD_some]

private theorem zipIdx_map_fst' {β : Type} (l : List β) (n : Nat) : (l.zipIdx n).map (·.1) = l := by
  induction l generalizing n with
  | nil => rfl
  | cons x xs ih => simp only [List.zipIdx_cons, List.map_cons, ih]

private theorem sortBy_perm {β : Type} (le : β → β → Bool) (l : List β) : (sortBy le l).Perm l := by
  rw [sortBy_eq]
  have := (sortedPairs_perm le l).map (·.1)
  rwa [zipIdx_map_fst'] at this

/-- selecting the `nonzero` positions of a mask (no longer than the labels) keeps the labels paired
with `true` -/
private theorem nonzero_select_aux (f : Nat → Label) (L : List Label) (mask : List Bool) (n : Nat)
    (hlen : mask.length ≤ L.length) (hf : ∀ i (h : i < L.length), f (n + i) = L[i]) :
    ((mask.zipIdx n).filter (·.1)).map (fun p => f p.2) =
      (L.zip mask).filterMap (fun (l, m) => if m then some l else none) := by
  induction mask generalizing L n with
  | nil => simp
  | cons m ms ih =>
    cases L with
    | nil => simp at hlen
    | cons x xs =>
      have hx : f n = x := hf 0 (Nat.zero_lt_succ _)
      have ih' := ih xs (n + 1) (by simpa using hlen) (by
        intro i h
        have := hf (i + 1) (by simpa using h)
        simpa [Nat.add_assoc, Nat.add_comm 1 i] using this)
      cases m
      · simp only [List.zipIdx_cons, List.zip_cons_cons, List.filterMap_cons]
        rw [List.filter_cons_of_neg (by simp)]
        simpa using ih'
      · simp only [List.zipIdx_cons, List.zip_cons_cons, List.filterMap_cons]
        rw [List.filter_cons_of_pos (by simp)]
        simp only [List.map_cons, hx, if_true]
        rw [ih']

private theorem nonzero_select (L : List Label) (mask : List Bool) (hlen : mask.length ≤ L.length) :
    (nonzero mask).map (fun p => L.getD p Label.none) =
      (L.zip mask).filterMap (fun (l, m) => if m then some l else none) := by
  unfold nonzero
  rw [List.map_map]
  exact nonzero_select_aux (fun p => L.getD p Label.none) L mask 0 hlen (by
    intro i h
    simp only [Nat.zero_add, List.getD_eq_getElem?_getD, List.getElem?_eq_getElem h, Option.getD_some])

/-- positional take along an axis: the slice at result position `k` is the input slice at `ps[k]`,
and its label is the input label at `ps[k]` - each slice moves together with its label -/
theorem takeAxisPos_get {α : Type} (a : DimArray α) (pos : Nat) (ps : List Nat) (j : List Nat) :
    (takeAxisPos a pos ps).vals.get j = a.vals.get (j.set pos (ps.getD (j.getD pos 0) 0)) := by
  rfl

theorem takeAxisPos_labels {α : Type} (a : DimArray α) (pos : Nat) (ps : List Nat) (hpos : pos < a.axes.length) :
    ((takeAxisPos a pos ps).axes.getD pos default).labels =
      ps.map (fun p => (a.axes.getD pos default).labels.getD p Label.none) := by
  rw [takeAxisPos_axis a pos ps hpos]
  rfl

theorem takeAxisPos_other_axes {α : Type} (a : DimArray α) (pos : Nat) (ps : List Nat) (i : Nat) (hi : i ≠ pos) :
    (takeAxisPos a pos ps).axes[i]? = a.axes[i]? ∧ (takeAxisPos a pos ps).attrs = a.attrs := by
  refine ⟨?_, rfl⟩
  unfold takeAxisPos
  simp only [List.getElem?_mapIdx]
  have : (i == pos) = false := by simpa using hi
  cases h : a.axes[i]? with
  | none => rfl
  | some x => simp only [Option.map_some, this, Bool.false_eq_true, if_false]

private theorem sortAxis_eq {α : Type} (a r : DimArray α) (k : DimKey) (pos : Nat)
    (hpos : axisPos a.axes k = .ok pos) (h : sortAxis a k = .ok r) :
    r = takeAxisPos a pos (argsortBy Label.le (a.axes.getD pos default).labels) := by
  unfold sortAxis at h
  rw [hpos] at h
  simp only [bind, Except.bind, pure, Except.pure] at h
  injection h with h
  exact h.symm

/-- `sort_axis`: the labels of the sorted axis are in ascending order ... -/
theorem sortAxis_sorted {α : Type} (a r : DimArray α) (k : DimKey) (pos : Nat)
    (hpos : axisPos a.axes k = .ok pos) (hlt : pos < a.axes.length)
    (h : sortAxis a k = .ok r) :
    ((r.axes.getD pos default).labels).Pairwise (fun x y => Label.le x y = true) := by
  rw [sortAxis_eq a r k pos hpos h, takeAxisPos_labels a pos _ hlt, argsort_labels]
  exact sortBy_pairwise Label.le Label.le_trans Label.le_total _

/-- ... and are a permutation of the original labels (no label lost or duplicated) -/
theorem sortAxis_perm {α : Type} (a r : DimArray α) (k : DimKey) (pos : Nat)
    (hpos : axisPos a.axes k = .ok pos) (hlt : pos < a.axes.length)
    (h : sortAxis a k = .ok r) :
    ((r.axes.getD pos default).labels).Perm (a.axes.getD pos default).labels := by
  rw [sortAxis_eq a r k pos hpos h, takeAxisPos_labels a pos _ hlt, argsort_labels]
  exact sortBy_perm Label.le _

/-- `compress_axis`: the kept labels are those selected by the mask, in their original order -/
theorem compressAxis_labels {α : Type} (a r : DimArray α) (mask : List Bool) (k : DimKey) (pos : Nat)
    (hpos : axisPos a.axes k = .ok pos) (hlt : pos < a.axes.length)
    (hplain : (a.axes.getD pos default).members = [])
    (h : compressAxis a mask k = .ok r) :
    (r.axes.getD pos default).labels =
      ((a.axes.getD pos default).labels.zip mask).filterMap (fun (l, m) => if m then some l else none) := by
  unfold compressAxis at h
  rw [hpos] at h
  simp only [bind, Except.bind, pure, Except.pure] at h
  split at h
  · cases h
  · rename_i hne
    injection h with h
    subst h
    have hlen : mask.length = (a.axes.getD pos default).labels.length := by
      have : mask.length = (a.axes.getD pos default).size := by simpa using hne
      rw [this]
      unfold Axis.size
      simp only [hplain, List.isEmpty_nil, if_true]
    simp only [getD_set_self' _ _ _ _ hlt, axisSelect]
    exact nonzero_select _ _ (Nat.le_of_eq hlen)

/-- `fillna` replaces exactly the NaN cells -/
theorem fillna_spec {α : Type} (isnan : α → Bool) (a : DimArray α) (fill : α) (fk : Kind) (j : List Nat) :
    (fillna isnan a fill fk).vals.get j = (if isnan (a.vals.get j) then fill else a.vals.get j) ∧
    (fillna isnan a fill fk).axes = a.axes ∧ (fillna isnan a fill fk).attrs = a.attrs := by
  exact ⟨rfl, rfl, rfl⟩

/-- `setna` sets to NaN exactly the matching cells; integer data is promoted to float -/
theorem setna_spec {α : Type} (hit : List Nat → Bool) (nan : α) (a : DimArray α) (j : List Nat) :
    (setna hit nan a).vals.get j = (if hit j then nan else a.vals.get j) ∧
    (setna hit nan a).axes = a.axes ∧ (setna hit nan a).attrs = a.attrs ∧
    (a.vkind = .i → (setna hit nan a).vkind = .f) := by
  refine ⟨rfl, rfl, rfl, ?_⟩
  intro hk
  show maybeCastKind a.vkind .f = .f
  rw [hk]
  rfl

/-- `dropna` on an array of rank >= 2: the result is `compress_axis` with the mask "the slice at
this label has at most (slice size - minvalid) NaNs" (default: no NaN), evaluated label by label in
axis order -/
theorem dropna_mask_spec {α : Type} (isnan : α → Bool) (a : DimArray α) (k : DimKey) (pos : Nat) (minvalid : Option Nat)
    (hpos : axisPos a.axes k = .ok pos) (hrank : a.ndim ≠ 1) :
    dropna isnan a k minvalid =
      compressAxis a ((List.range (a.axes.getD pos default).size).map fun i =>
        decide ((((allIdx (a.vals.shape.eraseIdx pos)).filter fun j => isnan (a.vals.get (j.insertIdx pos i))).length : Int)
          ≤ (match minvalid with | none => (0 : Int) | some m => (prod (a.vals.shape.eraseIdx pos) : Int) - m))) (.pos pos) := by
  unfold dropna
  rw [hpos]
  have hr : (a.ndim == 1) = false := by simpa using hrank
  simp only [bind, Except.bind, hr, Bool.false_eq_true, if_false]
  cases minvalid <;> rfl

/-! ## End-to-end statements about `sortAxis`, `compressAxis`, `dropna`, `fillna`, `setna`

The common shape of the results is `SelectsSlices a r pos ps`: the result `r` is the input `a` with the
slices along dimension `pos` selected / reordered by the list `ps` of source positions, every slice
travelling with its label, nothing else touched. -/

/-- Spec: `r` is `a` restricted / reordered along dimension `pos` by the source positions `ps`:
result position `i` along `pos` carries the label **and** the whole slice that `a` has at position
`ps[i]`. The other axes, the metadata of the axis (`name`, `kind`, `attrs`), the array metadata and the
dtype kind are unchanged, and the result is well formed (its shape is the list of its axis sizes). -/
structure SelectsSlices {α : Type} (a r : DimArray α) (pos : Nat) (ps : List Nat) : Prop where
  /-- the result is a well-formed DimArray -/
  wf : r.WF
  /-- same number of dimensions -/
  ndim : r.axes.length = a.axes.length
  /-- the shape changes only at `pos`, where it becomes the number of selected positions -/
  shape : r.vals.shape = a.vals.shape.set pos ps.length
  /-- every other axis is the very same axis -/
  others : ∀ i, i ≠ pos → r.axes[i]? = a.axes[i]?
  /-- the axis at `pos`: same name, kind and attributes, one label per selected position, every selected
  position is a valid position of the input axis, and the label at result position `i` is the
  input label at `ps[i]` -/
  axis : ∃ ax ax' : Axis, a.axes[pos]? = some ax ∧ r.axes[pos]? = some ax' ∧
    ax'.name = ax.name ∧ ax'.kind = ax.kind ∧ ax'.attrs = ax.attrs ∧ ax'.members = [] ∧
    ax'.labels.length = ps.length ∧ (∀ p ∈ ps, p < ax.labels.length) ∧
    ∀ i p : Nat, ps[i]? = some p → ax'.labels[i]? = ax.labels[p]?
  /-- the value equation: the cell at index `j` (coordinate `i` along `pos`) is the input cell at the
  same index with the coordinate along `pos` replaced by `ps[i]` -/
  value : ∀ (j : List Nat) (i p : Nat), j[pos]? = some i → ps[i]? = some p → r.vals.get j = a.vals.get (j.set pos p)
  attrs : r.attrs = a.attrs
  vkind : r.vkind = a.vkind

/-- the value equation of `SelectsSlices` covers every in-range index of the result -/
theorem SelectsSlices.covers {α : Type} {a r : DimArray α} {pos : Nat} {ps : List Nat}
    (h : SelectsSlices a r pos ps) (hwf : a.WF) (j : List Nat) (hj : InRange r.vals.shape j) :
    ∃ i p, j[pos]? = some i ∧ ps[i]? = some p := by
  obtain ⟨ax, ax', hax, -⟩ := h.axis
  have hlt : pos < a.vals.shape.length := by
    rw [hwf.1, List.length_map]
    rcases Nat.lt_or_ge pos a.axes.length with hl | hl
    · exact hl
    · rw [List.getElem?_eq_none hl] at hax; cases hax
  have hs : r.vals.shape[pos]? = some ps.length := by
    rw [h.shape, List.getElem?_set_self hlt]
  obtain ⟨i, hi, hil⟩ := inRange_getElem? _ _ _ _ hj hs
  exact ⟨i, ps[i], hi, List.getElem?_eq_getElem hil⟩

/-- slice form of the value equation: the slice of the result at position `i` is, cell by cell, the
slice of the input at position `ps[i]` -/
theorem SelectsSlices.slice {α : Type} {a r : DimArray α} {pos : Nat} {ps : List Nat}
    (h : SelectsSlices a r pos ps) (i p : Nat) (hp : ps[i]? = some p) (j : List Nat) (hj : pos ≤ j.length) :
    r.vals.get (j.insertIdx pos i) = a.vals.get (j.insertIdx pos p) := by
  have hlen : pos < (j.insertIdx pos i).length := by
    rw [List.length_insertIdx_of_le_length hj]; omega
  have hget : (j.insertIdx pos i)[pos]? = some i := by
    rw [List.getElem?_eq_getElem hlen, List.getElem_insertIdx_self]
  rw [h.value _ i p hget hp, set_eq_insertIdx_eraseIdx _ _ _ hlen, List.eraseIdx_insertIdx_self]

/-- positional take with valid positions selects the slices -/
theorem takeAxisPos_selects {α : Type} (a : DimArray α) (pos : Nat) (ps : List Nat) (ax : Axis)
    (hwf : a.WF) (hax : a.axes[pos]? = some ax) (hps : ∀ p ∈ ps, p < ax.labels.length) :
    SelectsSlices a (takeAxisPos a pos ps) pos ps := by
  have hax' : (takeAxisPos a pos ps).axes[pos]? = some (axisTake ax ps) := by
    rw [takeAxisPos_axes_getElem?, hax]; simp
  refine ⟨takeAxisPos_wf a pos ps hwf, takeAxisPos_length a pos ps, rfl,
    takeAxisPos_others a pos ps, ?_, takeAxisPos_value a pos ps, rfl, rfl⟩
  obtain ⟨h1, h2, h3, h4, h5⟩ := takeAxisPos_axis_meta a pos ps ax _ hax hax'
  refine ⟨ax, _, hax, hax', h1, h2, h3, h4, h5, hps, ?_⟩
  intro i p hp
  exact takeAxisPos_label a pos ps ax _ i p hax hax' hp (hps p (List.mem_of_getElem? hp))

/-! ### `sort_axis` -/

/-- Spec: `σ` is the stable ascending sorting permutation of the labels `L`: a permutation of the
positions `0 .. L.length-1` such that the labels read through `σ` ascend and equal labels keep their
original relative order -/
def IsStableArgsort (L : List Label) (σ : List Nat) : Prop :=
  σ.Perm (List.range L.length) ∧
  ∀ (i j p q : Nat) (x y : Label), i < j → σ[i]? = some p → σ[j]? = some q → L[p]? = some x → L[q]? = some y →
    Label.le x y = true ∧ (x = y → p < q)

/-- `np.argsort(kind='stable')` as modelled is the stable sorting permutation -/
theorem argsortBy_isStableArgsort (L : List Label) : IsStableArgsort L (argsortBy Label.le L) := by
  refine ⟨argsortBy_perm _ _, ?_⟩
  intro i j p q x y hij hp hq hx hy
  have := argsortBy_stable Label.le Label.le_trans Label.le_total L i j p q x y hij hp hq hx hy
  exact ⟨this.1, fun hxy => this.2 (by rw [hxy]; exact Label.le_refl y)⟩

/-- the stable sorting permutation is unique: `IsStableArgsort` pins `σ` down completely -/
theorem IsStableArgsort.unique {L : List Label} {σ τ : List Nat}
    (hσ : IsStableArgsort L σ) (hτ : IsStableArgsort L τ) : σ = τ := by
  let R : Nat → Nat → Prop := fun p q =>
    ∀ x y, L[p]? = some x → L[q]? = some y → Label.le x y = true ∧ (x = y → p < q)
  have hpw : ∀ ρ, IsStableArgsort L ρ → ρ.Pairwise R := by
    intro ρ hρ
    rw [List.pairwise_iff_getElem]
    intro i j hi hj hij x y hx hy
    exact hρ.2 i j _ _ x y hij (List.getElem?_eq_getElem hi) (List.getElem?_eq_getElem hj) hx hy
  have hlt : ∀ ρ, IsStableArgsort L ρ → ∀ p ∈ ρ, p < L.length := by
    intro ρ hρ p hp
    simpa using hρ.1.mem_iff.mp hp
  refine List.Perm.eq_of_pairwise (le := R) ?_ (hpw σ hσ) (hpw τ hτ) (hσ.1.trans hτ.1.symm)
  intro p q hp hq hpq hqp
  have hp' := hlt σ hσ p hp
  have hq' := hlt τ hτ q hq
  have h1 := hpq L[p] L[q] (List.getElem?_eq_getElem hp') (List.getElem?_eq_getElem hq')
  have h2 := hqp L[q] L[p] (List.getElem?_eq_getElem hq') (List.getElem?_eq_getElem hp')
  have he : L[p] = L[q] := Label.le_antisymm _ _ h1.1 h2.1
  have := h1.2 he
  have := h2.2 he.symm
  omega

/-- **`sort_axis`, end to end.** On a well-formed array, `sort_axis(axis)` succeeds exactly when the axis
exists and then returns the input with the slices along that axis reordered by the stable ascending
sorting permutation `σ` of the axis labels: result label `i` is input label `σ[i]` and result slice
`i` is input slice `σ[i]` (value equation `r[j] = a[j with j[pos] := σ[j[pos]]]`), the other axes,
the axis and array metadata and the dtype kind are unchanged, the result is well formed and (for a
plain axis) has the same shape. Stability: equal labels keep their original relative order. -/
theorem sortAxis_spec {α : Type} (a r : DimArray α) (k : DimKey) (pos : Nat) (ax : Axis)
    (hwf : a.WF) (hpos : axisPos a.axes k = .ok pos) (hax : a.axes[pos]? = some ax)
    (h : sortAxis a k = .ok r) :
    ∃ σ, IsStableArgsort ax.labels σ ∧ SelectsSlices a r pos σ ∧
      (ax.members = [] → r.vals.shape = a.vals.shape) := by
  have hlt := axisPos_lt _ _ _ hpos
  have hgetD : a.axes.getD pos default = ax := by
    rw [List.getD_eq_getElem?_getD, hax]; rfl
  have hr := sortAxis_eq a r k pos hpos h
  rw [hgetD] at hr
  subst hr
  refine ⟨_, argsortBy_isStableArgsort ax.labels, ?_, ?_⟩
  · exact takeAxisPos_selects a pos _ ax hwf hax (argsortBy_lt Label.le ax.labels)
  · intro hplain
    rw [takeAxisPos_shape, argsortBy_length, hwf.1]
    apply List.ext_getElem?
    intro i
    rw [List.getElem?_set, List.getElem?_map]
    by_cases hi : pos = i
    · subst hi
      rw [hax]
      simp [hlt, Axis.size, hplain]
    · simp [hi]

/-- `sort_axis` raises exactly the error of the axis lookup (an unknown name, a position out of range) -/
theorem sortAxis_ok_iff {α : Type} (a : DimArray α) (k : DimKey) :
    (∃ r, sortAxis a k = .ok r) ↔ ∃ pos, axisPos a.axes k = .ok pos := by
  unfold sortAxis
  cases h : axisPos a.axes k with
  | error e => simp [bind, Except.bind]
  | ok pos => simp [bind, Except.bind, pure, Except.pure]

private theorem take_range_labels (L : List Label) :
    (List.range L.length).map (fun p => L.getD p Label.none) = L := by
  apply List.ext_getElem?
  intro i
  rw [List.getElem?_map]
  rcases Nat.lt_or_ge i L.length with hi | hi
  · rw [List.getElem?_range hi]
    simp [List.getD_eq_getElem?_getD, hi]
  · rw [List.getElem?_eq_none (by simpa using hi), List.getElem?_eq_none hi]; rfl

private theorem set_self_of_getElem? : ∀ (j : List Nat) (pos i : Nat), j[pos]? = some i → j.set pos i = j
  | [], _, _, h => by simp at h
  | x :: xs, 0, i, h => by
    simp only [List.getElem?_cons_zero, Option.some.injEq] at h
    subst h; rfl
  | x :: xs, pos + 1, i, h => by
    simp only [List.getElem?_cons_succ] at h
    simp only [List.set_cons_succ, set_self_of_getElem? xs pos i h]

/-- **sorting an axis that is already in ascending order changes nothing**: same axes, same shape, same
metadata, same value at every in-range index -/
theorem sortAxis_of_sorted {α : Type} (a r : DimArray α) (k : DimKey) (pos : Nat) (ax : Axis)
    (hwf : a.WF) (hpos : axisPos a.axes k = .ok pos) (hax : a.axes[pos]? = some ax)
    (hplain : ax.members = [])
    (hsorted : ax.labels.Pairwise (fun x y => Label.le x y = true))
    (h : sortAxis a k = .ok r) :
    r.axes = a.axes ∧ r.vals.shape = a.vals.shape ∧ r.attrs = a.attrs ∧ r.vkind = a.vkind ∧
      ∀ j, InRange a.vals.shape j → r.vals.get j = a.vals.get j := by
  have hlt := axisPos_lt _ _ _ hpos
  obtain ⟨σ, -, hsel, hshape⟩ := sortAxis_spec a r k pos ax hwf hpos hax h
  have hgetD : a.axes.getD pos default = ax := by
    rw [List.getD_eq_getElem?_getD, hax]; rfl
  have hr := sortAxis_eq a r k pos hpos h
  rw [hgetD, argsortBy_of_pairwise Label.le ax.labels hsorted] at hr
  subst hr
  refine ⟨?_, hshape hplain, rfl, rfl, ?_⟩
  · apply List.ext_getElem?
    intro i
    rw [takeAxisPos_axes_getElem?]
    by_cases hi : i = pos
    · subst hi
      rw [hax]
      simp only [Option.map_some, if_true, Option.some.injEq]
      cases ax with
      | mk name labels kind attrs members =>
        simp only at hplain
        subst hplain
        simp only [axisTake, take_range_labels]
    · cases a.axes[i]? <;> simp [hi]
  · intro j hj
    have hs : a.vals.shape[pos]? = some ax.labels.length := by
      rw [hwf.1, List.getElem?_map, hax]
      simp [Axis.size, hplain]
    obtain ⟨i, hi, hil⟩ := inRange_getElem? _ _ _ _ hj hs
    rw [takeAxisPos_value a pos _ j i i hi (List.getElem?_range hil), set_self_of_getElem? j pos i hi]

/-- **`sort_axis` is idempotent**: sorting the sorted array returns the same axes, shape, metadata and
the same value at every in-range index -/
theorem sortAxis_idempotent {α : Type} (a r r' : DimArray α) (k : DimKey) (pos : Nat) (ax : Axis)
    (hwf : a.WF) (hpos : axisPos a.axes k = .ok pos) (hax : a.axes[pos]? = some ax)
    (h : sortAxis a k = .ok r) (h' : sortAxis r k = .ok r') :
    r'.axes = r.axes ∧ r'.vals.shape = r.vals.shape ∧ r'.attrs = r.attrs ∧ r'.vkind = r.vkind ∧
      ∀ j, InRange r.vals.shape j → r'.vals.get j = r.vals.get j := by
  have hlt := axisPos_lt _ _ _ hpos
  obtain ⟨σ, -, hsel, -⟩ := sortAxis_spec a r k pos ax hwf hpos hax h
  obtain ⟨ax0, ax', hax0, hax', -, -, -, hmem, -⟩ := hsel.axis
  have hnames : r.axes.map (·.name) = a.axes.map (·.name) := by
    rw [sortAxis_eq a r k pos hpos h]; exact takeAxisPos_names a pos _
  have hpos' : axisPos r.axes k = .ok pos := by rw [axisPos_congr _ _ k hnames]; exact hpos
  have hsorted := sortAxis_sorted a r k pos hpos hlt h
  have hgetD : r.axes.getD pos default = ax' := by
    rw [List.getD_eq_getElem?_getD, hax']; rfl
  rw [hgetD] at hsorted
  exact sortAxis_of_sorted r r' k pos ax' hsel.wf hpos' hax' hmem hsorted h'

/-! ### `compress_axis` -/

/-- **`compress_axis(mask, axis)`, end to end.** It succeeds exactly when the axis exists and the mask has
one entry per label; the result is the input restricted along the axis to the positions where the mask
is true, in ascending order: kept labels and kept slices are unchanged and stay paired (value equation
through the list of kept positions), nothing else changes. -/
theorem compressAxis_spec {α : Type} (a r : DimArray α) (mask : List Bool) (k : DimKey) (pos : Nat) (ax : Axis)
    (hwf : a.WF) (hpos : axisPos a.axes k = .ok pos) (hax : a.axes[pos]? = some ax)
    (hplain : ax.members = []) (h : compressAxis a mask k = .ok r) :
    mask.length = ax.labels.length ∧
    SelectsSlices a r pos ((List.range mask.length).filter (fun i => mask[i]? = some true)) := by
  have hgetD : a.axes.getD pos default = ax := by
    rw [List.getD_eq_getElem?_getD, hax]; rfl
  obtain ⟨hr, hlen⟩ := compressAxis_eq_take a r mask k pos hpos h
  rw [hgetD] at hlen
  have hlen' : mask.length = ax.labels.length := by
    rw [hlen]; simp [Axis.size, hplain]
  refine ⟨hlen', ?_⟩
  rw [hr, nonzero_eq_filter]
  apply takeAxisPos_selects a pos _ ax hwf hax
  intro p hp
  have := (List.mem_filter.mp hp).1
  rw [List.mem_range] at this
  omega

theorem compressAxis_ok_iff {α : Type} (a : DimArray α) (mask : List Bool) (k : DimKey) (pos : Nat) (ax : Axis)
    (hpos : axisPos a.axes k = .ok pos) (hax : a.axes[pos]? = some ax) :
    (∃ r, compressAxis a mask k = .ok r) ↔ mask.length = ax.size := by
  have hgetD : a.axes.getD pos default = ax := by
    rw [List.getD_eq_getElem?_getD, hax]; rfl
  constructor
  · rintro ⟨r, h⟩
    have := (compressAxis_eq_take a r mask k pos hpos h).2
    rwa [hgetD] at this
  · intro h
    exact compressAxis_ok a mask k pos hpos (by rw [hgetD]; exact h)

/-- the kept positions of a mask: strictly ascending, and exactly the positions holding `true` -/
theorem keptPositions_spec (mask : List Bool) :
    ((List.range mask.length).filter (fun i => mask[i]? = some true)).Pairwise (· < ·) ∧
    ∀ i, i ∈ (List.range mask.length).filter (fun i => mask[i]? = some true) ↔ mask[i]? = some true := by
  rw [← nonzero_eq_filter]
  exact ⟨nonzero_pairwise mask, fun i => mem_nonzero⟩

/-! ### `dropna` -/

/-- number of valid (non-NaN) cells in the slice at position `i` along dimension `pos` -/
def validCount {α : Type} (isnan : α → Bool) (a : DimArray α) (pos i : Nat) : Nat :=
  ((allIdx (a.vals.shape.eraseIdx pos)).filter fun j => !isnan (a.vals.get (j.insertIdx pos i))).length

/-- Spec: does `dropna(axis, minvalid)` keep position `i`?  1-D: the cell is not NaN. N-D, default: the
slice holds no NaN. N-D, `minvalid = m`: the slice holds at least `m` valid cells. -/
def dropnaKeeps {α : Type} (isnan : α → Bool) (a : DimArray α) (pos : Nat) (minvalid : Option Nat) (i : Nat) : Bool :=
  if a.ndim = 1 then !isnan (a.vals.get [i])
  else match minvalid with
    | none => (allIdx (a.vals.shape.eraseIdx pos)).all fun j => !isnan (a.vals.get (j.insertIdx pos i))
    | some m => decide (m ≤ validCount isnan a pos i)

/-- the enumeration in `dropnaKeeps` / `validCount` ranges over exactly the cells of the slice: the
indices of the other dimensions, completed by `i` along `pos`, are in-range indices of the array -/
theorem dropnaKeeps_none_iff {α : Type} (isnan : α → Bool) (a : DimArray α) (pos i : Nat) (hr : a.ndim ≠ 1) :
    dropnaKeeps isnan a pos none i = true ↔
      ∀ j, InRange (a.vals.shape.eraseIdx pos) j → isnan (a.vals.get (j.insertIdx pos i)) = false := by
  unfold dropnaKeeps
  simp only [if_neg hr]
  rw [all_allIdx_iff]
  constructor
  · intro h j hj; simpa using h j hj
  · intro h j hj; simpa using h j hj

theorem slice_cell_inRange {α : Type} (a : DimArray α) (pos n i : Nat) (j : List Nat)
    (hs : a.vals.shape[pos]? = some n) (hi : i < n) (hj : InRange (a.vals.shape.eraseIdx pos) j) :
    InRange a.vals.shape (j.insertIdx pos i) :=
  inRange_insertIdx _ _ _ _ _ hs hi hj

private theorem dropna_mask_eq {α : Type} (isnan : α → Bool) (a : DimArray α) (pos : Nat) (minvalid : Option Nat) :
    dropnaMaskFn isnan a pos minvalid =
      dropnaKeeps isnan a pos minvalid := by
  funext i
  unfold dropnaKeeps dropnaMaskFn
  by_cases hr : a.ndim = 1
  · simp only [if_pos hr]
  · simp only [if_neg hr]
    cases minvalid with
    | none => exact count_le_zero_iff _ _
    | some m =>
      simp only [validCount]
      rw [← allIdx_length]
      exact count_le_iff _ _ m

/-- **`dropna(axis, minvalid)`, end to end.** On a well-formed array and an existing plain axis it always
succeeds, and the result is the input restricted along the axis to the positions `i` with
`dropnaKeeps … i` (enough valid cells in slice `i`), in their original order: kept labels and kept slices
are unchanged and stay paired, nothing else changes. -/
theorem dropna_spec {α : Type} (isnan : α → Bool) (a : DimArray α) (k : DimKey) (pos : Nat) (ax : Axis)
    (minvalid : Option Nat)
    (hwf : a.WF) (hpos : axisPos a.axes k = .ok pos) (hax : a.axes[pos]? = some ax)
    (hplain : ax.members = []) :
    ∃ r, dropna isnan a k minvalid = .ok r ∧
      SelectsSlices a r pos ((List.range ax.labels.length).filter (dropnaKeeps isnan a pos minvalid)) := by
  have hlt := axisPos_lt _ _ _ hpos
  have hgetD : a.axes.getD pos default = ax := by
    rw [List.getD_eq_getElem?_getD, hax]; rfl
  have hsize : ax.size = ax.labels.length := by simp [Axis.size, hplain]
  have hpp := axisPos_pos a.axes pos hlt
  rw [dropna_eq_compress isnan a k pos minvalid hpos, dropna_mask_eq isnan a pos minvalid, hgetD, hsize]
  obtain ⟨r, hr⟩ := compressAxis_ok a ((List.range ax.labels.length).map (dropnaKeeps isnan a pos minvalid))
    (.pos pos) pos hpp (by rw [hgetD, hsize]; simp)
  refine ⟨r, hr, ?_⟩
  have hr' := (compressAxis_eq_take a r _ _ pos hpp hr).1
  rw [nonzero_map_range] at hr'
  rw [hr']
  apply takeAxisPos_selects a pos _ ax hwf hax
  intro p hp
  exact List.mem_range.mp (List.mem_filter.mp hp).1

/-- `dropna` raises exactly the error of the axis lookup -/
theorem dropna_error {α : Type} (isnan : α → Bool) (a : DimArray α) (k : DimKey) (minvalid : Option Nat) (e : Err)
    (hpos : axisPos a.axes k = .error e) : dropna isnan a k minvalid = .error e := by
  unfold dropna
  rw [hpos]; rfl

/-- **1-D `dropna`**: the result lists exactly the non-NaN cells with their labels, in order; `minvalid` is
ignored, as in the Python code -/
theorem dropna_rank1 {α : Type} (isnan : α → Bool) (a r : DimArray α) (k : DimKey) (pos : Nat) (ax : Axis)
    (minvalid : Option Nat)
    (hwf : a.WF) (hpos : axisPos a.axes k = .ok pos) (hax : a.axes[pos]? = some ax)
    (hplain : ax.members = []) (h1 : a.ndim = 1) (h : dropna isnan a k minvalid = .ok r) :
    pos = 0 ∧
    let kept := (List.range ax.labels.length).filter (fun i => !isnan (a.vals.get [i]))
    SelectsSlices a r 0 kept ∧
    (∀ i p, kept[i]? = some p → r.vals.get [i] = a.vals.get [p] ∧ isnan (r.vals.get [i]) = false) := by
  have hlt := axisPos_lt _ _ _ hpos
  have hp0 : pos = 0 := by unfold DimArray.ndim at h1; omega
  subst hp0
  obtain ⟨r0, hr0, hsel⟩ := dropna_spec isnan a k 0 ax minvalid hwf hpos hax hplain
  rw [h] at hr0
  injection hr0 with hr0
  subst hr0
  have hk : dropnaKeeps isnan a 0 minvalid = (fun i => !isnan (a.vals.get [i])) := by
    funext i; unfold dropnaKeeps; simp only [if_pos h1]
  rw [hk] at hsel
  refine ⟨rfl, hsel, ?_⟩
  intro i p hp
  have hv : r.vals.get [i] = a.vals.get [p] := hsel.value [i] i p rfl hp
  refine ⟨hv, ?_⟩
  rw [hv]
  have := (List.mem_filter.mp (List.mem_of_getElem? hp)).2
  simpa using this

/-- **default `dropna` leaves no NaN**: every in-range cell of the result is valid -/
theorem dropna_no_nan {α : Type} (isnan : α → Bool) (a r : DimArray α) (k : DimKey) (pos : Nat) (ax : Axis)
    (hwf : a.WF) (hpos : axisPos a.axes k = .ok pos) (hax : a.axes[pos]? = some ax)
    (hplain : ax.members = []) (h : dropna isnan a k none = .ok r)
    (j : List Nat) (hj : InRange r.vals.shape j) : isnan (r.vals.get j) = false := by
  obtain ⟨r0, hr0, hsel⟩ := dropna_spec isnan a k pos ax none hwf hpos hax hplain
  rw [h] at hr0
  injection hr0 with hr0
  subst hr0
  obtain ⟨i, p, hi, hp⟩ := hsel.covers hwf j hj
  rw [hsel.value j i p hi hp]
  have hkeep := (List.mem_filter.mp (List.mem_of_getElem? hp)).2
  have hjl : pos < j.length := by
    rcases Nat.lt_or_ge pos j.length with hl | hl
    · exact hl
    · rw [List.getElem?_eq_none hl] at hi; cases hi
  by_cases h1 : a.ndim = 1
  · have hlt := axisPos_lt _ _ _ hpos
    have hp0 : pos = 0 := by unfold DimArray.ndim at h1; omega
    subst hp0
    have hlen : j.length = 1 := by
      have := inRange_length _ _ hj
      rw [this, hsel.shape, List.length_set, hwf.1, List.length_map]
      exact h1
    have hjeq : j.set 0 p = [p] := by
      match j, hlen with
      | [x], _ => rfl
    rw [hjeq]
    unfold dropnaKeeps at hkeep
    simp only [if_pos h1] at hkeep
    simpa using hkeep
  · rw [dropnaKeeps_none_iff isnan a pos p h1] at hkeep
    rw [set_eq_insertIdx_eraseIdx j pos p hjl]
    apply hkeep
    have := inRange_eraseIdx _ _ pos hj
    rw [hsel.shape, List.eraseIdx_set_eq] at this
    exact this

/-! ### `fillna` / `setna` laws -/

/-- after `fillna` with a non-NaN value no cell is NaN -/
theorem fillna_no_nan {α : Type} (isnan : α → Bool) (a : DimArray α) (fill : α) (fk : Kind)
    (hfill : isnan fill = false) (j : List Nat) :
    isnan ((fillna isnan a fill fk).vals.get j) = false := by
  show isnan (if isnan (a.vals.get j) then fill else a.vals.get j) = false
  cases h : isnan (a.vals.get j)
  · simp [h]
  · simp [hfill]

private theorem maybeCastKind_idem (k fk : Kind) : maybeCastKind (maybeCastKind k fk) fk = maybeCastKind k fk := by
  cases k <;> cases fk <;> rfl

/-- `fillna` is idempotent (values, axes, metadata and dtype kind) -/
theorem fillna_idempotent {α : Type} (isnan : α → Bool) (a : DimArray α) (fill : α) (fk : Kind) :
    (∀ j, (fillna isnan (fillna isnan a fill fk) fill fk).vals.get j = (fillna isnan a fill fk).vals.get j) ∧
    (fillna isnan (fillna isnan a fill fk) fill fk).vals.shape = (fillna isnan a fill fk).vals.shape ∧
    (fillna isnan (fillna isnan a fill fk) fill fk).axes = (fillna isnan a fill fk).axes ∧
    (fillna isnan (fillna isnan a fill fk) fill fk).attrs = (fillna isnan a fill fk).attrs ∧
    (fillna isnan (fillna isnan a fill fk) fill fk).vkind = (fillna isnan a fill fk).vkind := by
  refine ⟨?_, rfl, rfl, rfl, maybeCastKind_idem _ _⟩
  intro j
  show (if isnan (if isnan (a.vals.get j) then fill else a.vals.get j) then fill
      else (if isnan (a.vals.get j) then fill else a.vals.get j)) = (if isnan (a.vals.get j) then fill else a.vals.get j)
  cases h : isnan (a.vals.get j)
  · simp [h]
  · simp

/-- `fillna` on an array without NaN changes no value -/
theorem fillna_of_no_nan {α : Type} (isnan : α → Bool) (a : DimArray α) (fill : α) (fk : Kind) (j : List Nat)
    (h : isnan (a.vals.get j) = false) : (fillna isnan a fill fk).vals.get j = a.vals.get j := by
  show (if isnan (a.vals.get j) then fill else a.vals.get j) = _
  simp [h]

/-- after `setna` the NaN cells are exactly the hit cells and the former NaN cells -/
theorem setna_isnan {α : Type} (isnan : α → Bool) (hit : List Nat → Bool) (nan : α) (a : DimArray α)
    (hnan : isnan nan = true) (j : List Nat) :
    isnan ((setna hit nan a).vals.get j) = (hit j || isnan (a.vals.get j)) := by
  show isnan (if hit j then nan else a.vals.get j) = _
  cases h : hit j <;> simp [hnan]

/-- `setna` then `fillna v`: `v` is written exactly at the hit cells and at the former NaN cells, every
other cell keeps its value -/
theorem setna_fillna {α : Type} (isnan : α → Bool) (hit : List Nat → Bool) (nan : α) (a : DimArray α)
    (fill : α) (fk : Kind) (hnan : isnan nan = true) (j : List Nat) :
    (fillna isnan (setna hit nan a) fill fk).vals.get j =
      (if hit j || isnan (a.vals.get j) then fill else a.vals.get j) := by
  show (if isnan (if hit j then nan else a.vals.get j) then fill else (if hit j then nan else a.vals.get j)) = _
  cases h : hit j
  · simp
  · simp [hnan]

/-- `fillna` then `setna` is the identity when the cells hit by `setna` are exactly the cells that were
NaN (e.g. `a.fillna(-99).setna(-99)` when `-99` occurs nowhere else) and NaN has a single
representation -/
theorem fillna_setna_inverse {α : Type} (isnan : α → Bool) (hit : List Nat → Bool) (nan : α) (a : DimArray α)
    (fill : α) (fk : Kind) (hnan : ∀ x, isnan x = true → x = nan)
    (hhit : ∀ j, hit j = isnan (a.vals.get j)) (j : List Nat) :
    (setna hit nan (fillna isnan a fill fk)).vals.get j = a.vals.get j := by
  show (if hit j then nan else (if isnan (a.vals.get j) then fill else a.vals.get j)) = _
  rw [hhit j]
  cases h : isnan (a.vals.get j)
  · simp
  · simp [hnan _ h]

/-! ### `take_axis` (top-level mirror `Lib.takeAxis`) -/

/-- **`take_axis(indices, axis, indexing='position')`, end to end.** When it succeeds every requested index is
an integer, resolved NumPy-style (`mode='raise'`: `q ≥ 0` is position `q`, `q < 0` is position `n + q`;
`mode='clip'`: clipped into `0 .. n-1`) to a valid position, and the result selects exactly those slices,
in the requested order (repeats allowed), each with its label. -/
theorem takeAxis_position_spec {α : Type} (a r : DimArray α) (ix : List Label) (k : DimKey) (pos : Nat) (ax : Axis)
    (clip : Bool) (hwf : a.WF) (hpos : axisPos a.axes k = .ok pos) (hax : a.axes[pos]? = some ax)
    (hplain : ax.members = []) (h : takeAxis a ix k .position clip = .ok r) :
    ∃ ps, SelectsSlices a r pos ps ∧ ps.length = ix.length ∧
      ∀ (i : Nat) (l : Label), ix[i]? = some l → ∃ (q : Rat) (p : Nat), l = Label.num q ∧ q.den = 1 ∧ ps[i]? = some p ∧
        (clip = false → (0 ≤ q.num → (p : Int) = q.num) ∧ (q.num < 0 → (p : Int) = q.num + ax.labels.length)) ∧
        (clip = true → (q.num < 0 → p = 0) ∧ (q.num ≥ ax.labels.length → p = ax.labels.length - 1) ∧
          (0 ≤ q.num → q.num < ax.labels.length → (p : Int) = q.num)) := by
  have hgetD : a.axes.getD pos default = ax := by
    rw [List.getD_eq_getElem?_getD, hax]; rfl
  have hsize : ax.size = ax.labels.length := by simp [Axis.size, hplain]
  unfold takeAxis at h
  rw [hpos] at h
  simp only [bind, Except.bind, hgetD, hsize] at h
  generalize hm : List.mapM (m := Except Err) (β := Nat) _ ix = res at h
  rw [mapM_congr_fun (g := posOne ax.labels.length clip) ix (fun l => by cases l <;> rfl)] at hm
  cases res with
  | error e => cases h
  | ok ps =>
    simp only at h
    split at h
    · cases h
    · rename_i hn
      injection h with h
      subst h
      have hpt : ∀ (i : Nat) (l : Label), ix[i]? = some l → ∃ p : Nat, ps[i]? = some p ∧ posOne ax.labels.length clip l = .ok p :=
        fun i l hl => mapM_ok_getElem? _ ix ps hm i l hl
      have hlen := mapM_ok_length _ ix ps hm
      have hlt : ∀ p ∈ ps, p < ax.labels.length := by
        intro p hp
        obtain ⟨i, hi, rfl⟩ := List.getElem_of_mem hp
        have hi' : i < ix.length := hlen ▸ hi
        obtain ⟨p', hp', hok⟩ := hpt i ix[i] (List.getElem?_eq_getElem hi')
        rw [List.getElem?_eq_getElem hi] at hp'
        injection hp' with hp'
        rw [← hp'] at hok
        obtain ⟨q, -, -, hraise, hclip⟩ := posOne_ok _ _ _ _ hok
        cases clip with
        | false => exact (hraise rfl).1
        | true =>
          have hne : ps ≠ [] := List.ne_nil_of_length_pos (by omega)
          have hn0 : ax.labels.length ≠ 0 := by
            intro h0
            apply hn
            simp [h0, hne]
          obtain ⟨h1, h2, h3⟩ := hclip rfl
          by_cases hneg : q.num < 0
          · have := h1 hneg; omega
          · by_cases hge : q.num ≥ (ax.labels.length : Int)
            · have := h2 hge; omega
            · have := h3 (by omega) (by omega); omega
      refine ⟨ps, takeAxisPos_selects a pos ps ax hwf hax hlt, hlen, ?_⟩
      intro i l hl
      obtain ⟨p, hp, hok⟩ := hpt i l hl
      obtain ⟨q, hq, hden, hraise, hclip⟩ := posOne_ok _ _ _ _ hok
      exact ⟨q, p, hq, hden, hp, fun hc => (hraise hc).2, hclip⟩

/-- **`take_axis(labels, axis)` (label indexing, `mode='raise'`), end to end.** When it succeeds, every
requested label is present on the axis, the result selects the slice at a position holding that label, in
the requested order (repeats allowed), and the labels of the resulting axis are exactly the requested
labels. -/
theorem takeAxis_label_spec {α : Type} (a r : DimArray α) (ix : List Label) (k : DimKey) (pos : Nat) (ax : Axis)
    (hwf : a.WF) (hpos : axisPos a.axes k = .ok pos) (hax : a.axes[pos]? = some ax)
    (h : takeAxis a ix k .label false = .ok r) :
    ∃ ps, SelectsSlices a r pos ps ∧ ps.length = ix.length ∧
      (∀ (i : Nat) (l : Label), ix[i]? = some l → ∃ p : Nat, ps[i]? = some p ∧ ax.labels[p]? = some l) ∧
      ∃ ax', r.axes[pos]? = some ax' ∧ ax'.labels = ix := by
  have hgetD : a.axes.getD pos default = ax := by
    rw [List.getD_eq_getElem?_getD, hax]; rfl
  unfold takeAxis at h
  rw [hpos] at h
  simp only [bind, Except.bind, hgetD] at h
  cases hloc : loc ax.labels ax.kind (.list ix) none false with
  | error e => rw [hloc] at h; cases h
  | ok raw =>
    rw [hloc] at h
    obtain ⟨hraw, hemp, hall⟩ := loc_list_ok _ _ _ _ hloc
    subst hraw
    simp only [pure, Except.pure] at h
    split at h
    · cases h
    · injection h with h
      subst h
      have hps : (List.map Int.ofNat (locateMany ax.labels ix Side.left)).map Int.toNat =
          locateMany ax.labels ix Side.left := by
        rw [List.map_map]
        conv => rhs; rw [← List.map_id (locateMany ax.labels ix Side.left)]
        apply List.map_congr_left
        intro x _
        simp
      rw [hps]
      have hlen : (locateMany ax.labels ix Side.left).length = ix.length := by
        unfold locateMany; simp
      have hlt : ∀ p ∈ locateMany ax.labels ix Side.left, p < ax.labels.length := by
        intro p hp
        by_cases hL : ax.labels = []
        · have := hemp hL
          subst this
          simp [locateMany] at hp
        · exact locateMany_lt _ _ _ hL p hp
      have hsel := takeAxisPos_selects a pos _ ax hwf hax hlt
      have hpt : ∀ (i : Nat) (l : Label), ix[i]? = some l →
          ∃ p : Nat, (locateMany ax.labels ix Side.left)[i]? = some p ∧ ax.labels[p]? = some l := by
        intro i l hl
        have hi : i < (locateMany ax.labels ix Side.left).length := by
          rw [hlen]
          rcases Nat.lt_or_ge i ix.length with hh | hh
          · exact hh
          · rw [List.getElem?_eq_none hh] at hl; cases hl
        refine ⟨_, List.getElem?_eq_getElem hi, ?_⟩
        have hp := hall i _ l (List.getElem?_eq_getElem hi) hl
        have hpl := hlt _ (List.getElem_mem hi)
        rw [List.getD_eq_getElem?_getD, List.getElem?_eq_getElem hpl] at hp
        rw [List.getElem?_eq_getElem hpl]
        exact congrArg some hp
      refine ⟨_, hsel, hlen, hpt, ?_⟩
      obtain ⟨ax0, ax', hax0, hax', -, -, -, -, hl', -, hlab⟩ := hsel.axis
      refine ⟨ax', hax', ?_⟩
      rw [hax] at hax0
      injection hax0 with hax0
      subst hax0
      apply List.ext_getElem?
      intro i
      rcases Nat.lt_or_ge i ix.length with hi | hi
      · obtain ⟨p, hp, hpl⟩ := hpt i ix[i] (List.getElem?_eq_getElem hi)
        rw [hlab i p hp, hpl, List.getElem?_eq_getElem hi]
      · rw [List.getElem?_eq_none hi, List.getElem?_eq_none (by omega)]

/-- `take_axis(labels, axis)` succeeds when every requested label is on the (plain) axis; together with
`takeAxis_label_spec` (success implies every requested label is on the axis): it succeeds exactly then -/
theorem takeAxis_label_ok {α : Type} (a : DimArray α) (ix : List Label) (k : DimKey) (pos : Nat) (ax : Axis)
    (hpos : axisPos a.axes k = .ok pos) (hax : a.axes[pos]? = some ax) (hplain : ax.members = [])
    (hmem : ∀ l ∈ ix, l ∈ ax.labels) :
    ∃ r, takeAxis a ix k .label false = .ok r := by
  have hgetD : a.axes.getD pos default = ax := by
    rw [List.getD_eq_getElem?_getD, hax]; rfl
  have hsize : ax.size = ax.labels.length := by simp [Axis.size, hplain]
  have hloc : loc ax.labels ax.kind (.list ix) none false =
      .ok (.ints ((locateMany ax.labels ix .left).map Int.ofNat)) := by
    unfold loc
    have htol : (if ax.kind.isNumeric = true then (none : Option Tol) else none) = none := by split <;> rfl
    simp only [htol, Bool.false_eq_true, if_false]
    have h1 : (ax.labels.isEmpty && !ix.isEmpty) = false := by
      cases hL : ax.labels with
      | nil =>
        cases hix : ix with
        | nil => rfl
        | cons l ls =>
          have := hmem l (by rw [hix]; simp)
          rw [hL] at this; cases this
      | cons x xs => rfl
    have h2 : ((locateMany ax.labels ix Side.left).zip ix).all
        (fun (p, v) => ax.labels.getD p Label.none == v) = true := by
      rw [List.all_eq_true]
      rintro ⟨p, v⟩ hpv
      obtain ⟨i, hi⟩ := List.mem_iff_getElem?.mp hpv
      rw [List.getElem?_zip_eq_some] at hi
      obtain ⟨hp, hv⟩ := hi
      unfold locateMany at hp
      rw [List.getElem?_map, hv] at hp
      simp only [Option.map_some, Option.some.injEq, searchSide] at hp
      have hfound := locateRaw_found Label.le Label.le_trans Label.le_total Label.le_antisymm
        ax.labels v (hmem v (List.mem_of_getElem? hv))
      rw [← label_lt_eq, hp] at hfound
      simp [List.getD_eq_getElem?_getD, hfound]
    simp only [h1, Bool.false_eq_true, if_false, h2, if_true]
  unfold takeAxis
  rw [hpos]
  simp only [bind, Except.bind, hgetD, hloc, pure, Except.pure, hsize]
  have h3 : (ax.labels.length == 0 &&
      !(List.map Int.toNat (List.map Int.ofNat (locateMany ax.labels ix Side.left))).isEmpty) = false := by
    cases hix : ix with
    | nil => simp [locateMany]
    | cons l ls =>
      have := hmem l (by rw [hix]; simp)
      have : ax.labels.length ≠ 0 := by
        intro h0
        rw [List.length_eq_zero_iff.mp h0] at this
        cases this
      simp [this]
  simp only [h3, Bool.false_eq_true, if_false]
  exact ⟨_, rfl⟩

/-! ### the hypotheses are satisfiable: a concrete 3 x 2 array with a repeated label and NaN cells -/

namespace C17Ex

def exX : Axis := { name := "x", labels := [.num 2, .num 0, .num 2], kind := .i }
def exY : Axis := { name := "y", labels := [.str "b", .str "a"], kind := .U }
/-- cells are `Option Nat`, `none` standing for NaN:  [[10, nan], [30, 40], [nan, nan]] -/
def exA : DimArray (Option Nat) :=
  { axes := [exX, exY], vals := NDArr.ofFlat [3, 2] [some 10, none, some 30, some 40, none, none], vkind := .f }
def isnanO : Option Nat → Bool := Option.isNone

theorem exA_wf : exA.WF := by
  simp [DimArray.WF, exA, exX, exY, NDArr.ofFlat, Axis.size]

theorem exA_pos : axisPos exA.axes (.name "x") = .ok 0 := by
  simp [axisPos, exA, exX, exY]

theorem exA_pos1 : axisPos exA.axes (.pos (-1)) = .ok 1 := by
  simp [axisPos, exA]

/-- `sortAxis_spec` applies -/
example : ∃ r σ, sortAxis exA (.name "x") = .ok r ∧ IsStableArgsort exX.labels σ ∧ SelectsSlices exA r 0 σ ∧
    r.vals.shape = exA.vals.shape := by
  obtain ⟨r, hr⟩ := (sortAxis_ok_iff exA (.name "x")).mpr ⟨0, exA_pos⟩
  obtain ⟨σ, h1, h2, h3⟩ := sortAxis_spec exA r (.name "x") 0 exX exA_wf exA_pos rfl hr
  exact ⟨r, σ, hr, h1, h2, h3 rfl⟩

/-- the stable sorting permutation of the labels `[2, 0, 2]` is `[1, 0, 2]`: the two labels `2` keep their
order -/
example : IsStableArgsort exX.labels [1, 0, 2] := by
  refine ⟨by decide, ?_⟩
  intro i j p q x y hij hp hq hx hy
  have hj : j < 3 := by
    rcases Nat.lt_or_ge j 3 with h | h
    · exact h
    · rw [List.getElem?_eq_none (by simpa using h)] at hq; cases hq
  have : (i = 0 ∧ j = 1) ∨ (i = 0 ∧ j = 2) ∨ (i = 1 ∧ j = 2) := by omega
  rcases this with ⟨rfl, rfl⟩ | ⟨rfl, rfl⟩ | ⟨rfl, rfl⟩ <;>
    simp only [List.getElem?_cons_zero, List.getElem?_cons_succ, Option.some.injEq] at hp hq <;>
    subst hp hq <;> simp [exX] at hx hy <;> subst hx hy <;> simp [Label.le] <;> decide

/-- `sortAxis_idempotent` applies -/
example : ∃ r r', sortAxis exA (.name "x") = .ok r ∧ sortAxis r (.name "x") = .ok r' ∧ r'.axes = r.axes := by
  obtain ⟨r, hr⟩ := (sortAxis_ok_iff exA (.name "x")).mpr ⟨0, exA_pos⟩
  have hnames : r.axes.map (·.name) = exA.axes.map (·.name) := by
    rw [sortAxis_eq exA r _ 0 exA_pos hr]; exact takeAxisPos_names exA 0 _
  obtain ⟨r', hr'⟩ := (sortAxis_ok_iff r (.name "x")).mpr ⟨0, by rw [axisPos_congr _ _ _ hnames]; exact exA_pos⟩
  exact ⟨r, r', hr, hr', (sortAxis_idempotent exA r r' _ 0 exX exA_wf exA_pos rfl hr hr').1⟩

/-- `compressAxis_spec` applies: mask `[true, false, true]` along `x` keeps positions `[0, 2]` -/
example : ∃ r, compressAxis exA [true, false, true] (.name "x") = .ok r ∧ SelectsSlices exA r 0 [0, 2] := by
  obtain ⟨r, hr⟩ := (compressAxis_ok_iff exA [true, false, true] (.name "x") 0 exX exA_pos rfl).mpr rfl
  exact ⟨r, hr, (compressAxis_spec exA r _ _ 0 exX exA_wf exA_pos rfl rfl hr).2⟩

/-- `dropna_spec` applies: along `x` with the default `minvalid` only the slice at position 1 is NaN-free -/
example : ∃ r, dropna isnanO exA (.name "x") none = .ok r ∧ SelectsSlices exA r 0 [1] :=
  dropna_spec isnanO exA (.name "x") 0 exX none exA_wf exA_pos rfl rfl

/-- ... with `minvalid = 1` the slices at positions 0 and 1 are kept -/
example : ∃ r, dropna isnanO exA (.name "x") (some 1) = .ok r ∧ SelectsSlices exA r 0 [0, 1] :=
  dropna_spec isnanO exA (.name "x") 0 exX (some 1) exA_wf exA_pos rfl rfl

/-- ... and along `y` (last axis) no column is NaN-free -/
example : ∃ r, dropna isnanO exA (.pos (-1)) none = .ok r ∧ SelectsSlices exA r 1 [] :=
  dropna_spec isnanO exA (.pos (-1)) 1 exY none exA_wf exA_pos1 rfl rfl

/-- `takeAxis_position_spec` applies: positions `[2, -3, 2]` along `x` (a repeat and a negative index) -/
example : ∃ r, takeAxis exA [.num 2, .num (-3), .num 2] (.name "x") .position false = .ok r ∧
    SelectsSlices exA r 0 [2, 0, 2] := by
  have h : takeAxis exA [.num 2, .num (-3), .num 2] (.name "x") .position false =
      .ok (takeAxisPos exA 0 [2, 0, 2]) := by
    unfold takeAxis
    rw [exA_pos]
    rfl
  exact ⟨_, h, takeAxisPos_selects exA 0 _ exX exA_wf rfl (by decide)⟩

/-- `takeAxis_label_spec` applies: labels `["a", "b", "a"]` along `y` -/
example : ∃ r, takeAxis exA [.str "a", .str "b", .str "a"] (.pos 1) .label false = .ok r ∧
    ∃ ax', r.axes[1]? = some ax' ∧ ax'.labels = [.str "a", .str "b", .str "a"] := by
  have hp : axisPos exA.axes (.pos 1) = .ok 1 := by simp [axisPos, exA]
  have h : ∃ r, takeAxis exA [.str "a", .str "b", .str "a"] (.pos 1) .label false = .ok r :=
    takeAxis_label_ok exA _ (.pos 1) 1 exY hp rfl rfl (by simp [exY])
  obtain ⟨r, hr⟩ := h
  obtain ⟨ps, -, -, -, h4⟩ := takeAxis_label_spec exA r _ (.pos 1) 1 exY exA_wf hp rfl hr
  exact ⟨r, hr, h4⟩

end C17Ex

/-! ## `sort_axis(axis, key=...)`: the key is a function on labels (mirror `Lib.sortAxisKey`, Lib/Missing2.lean)

The library has no `reverse=` parameter; a descending sort is `key=lambda x: -x` (theorem `sortAxis_key_neg_descending`). -/

/-- Spec: `σ` is the stable sorting permutation of the labels `L` **by the key `f`**: a permutation of the positions such
that the key values read through `σ` ascend and labels with equal key values keep their original relative order -/
def IsStableArgsortBy (f : Label → Label) (L : List Label) (σ : List Nat) : Prop :=
  σ.Perm (List.range L.length) ∧
  ∀ (i j p q : Nat) (x y : Label), i < j → σ[i]? = some p → σ[j]? = some q → L[p]? = some x → L[q]? = some y →
    Label.le (f x) (f y) = true ∧ (f x = f y → p < q)

/-- sorting by a key is sorting the list of key values -/
theorem isStableArgsortBy_iff_map (f : Label → Label) (L : List Label) (σ : List Nat) :
    IsStableArgsortBy f L σ ↔ IsStableArgsort (L.map f) σ := by
  unfold IsStableArgsortBy IsStableArgsort
  rw [List.length_map]
  constructor
  · rintro ⟨h1, h2⟩
    refine ⟨h1, ?_⟩
    intro i j p q x y hij hp hq hx hy
    rw [List.getElem?_map] at hx hy
    cases hxp : L[p]? with
    | none => rw [hxp] at hx; cases hx
    | some x0 =>
      cases hyq : L[q]? with
      | none => rw [hyq] at hy; cases hy
      | some y0 =>
        rw [hxp] at hx; rw [hyq] at hy
        simp only [Option.map_some, Option.some.injEq] at hx hy
        subst hx hy
        exact h2 i j p q x0 y0 hij hp hq hxp hyq
  · rintro ⟨h1, h2⟩
    refine ⟨h1, ?_⟩
    intro i j p q x y hij hp hq hx hy
    exact h2 i j p q (f x) (f y) hij hp hq (by rw [List.getElem?_map, hx]; rfl) (by rw [List.getElem?_map, hy]; rfl)

/-- with the identity key this is the plain stable argsort -/
theorem isStableArgsortBy_id (L : List Label) (σ : List Nat) : IsStableArgsortBy (fun l => l) L σ ↔ IsStableArgsort L σ := by
  rw [isStableArgsortBy_iff_map, List.map_id']

/-- the stable sorting permutation by a key is unique -/
theorem IsStableArgsortBy.unique {f : Label → Label} {L : List Label} {σ τ : List Nat}
    (hσ : IsStableArgsortBy f L σ) (hτ : IsStableArgsortBy f L τ) : σ = τ :=
  IsStableArgsort.unique ((isStableArgsortBy_iff_map f L σ).mp hσ) ((isStableArgsortBy_iff_map f L τ).mp hτ)

/-- **`sort_axis(axis, key=key)`, end to end.** When it succeeds on a well-formed array, the key evaluated without an
exception on every label of the axis (`keyOr key` is then the function it computes there), and the result is the input with
the slices along that axis reordered by THE stable sorting permutation `σ` of the labels w.r.t. the keyed order: result label
`i` is input label `σ[i]`, result slice `i` is input slice `σ[i]` (`SelectsSlices`: value equation, other axes, axis and array
metadata, dtype kind, well-formedness), and (for a plain axis) the shape is unchanged. -/
theorem sortAxis_key_spec {α : Type} (a r : DimArray α) (k : DimKey) (key : Label → Except Err Label) (pos : Nat) (ax : Axis)
    (hwf : a.WF) (hpos : axisPos a.axes k = .ok pos) (hax : a.axes[pos]? = some ax)
    (h : sortAxisKey a k key = .ok r) :
    (∀ l ∈ ax.labels, key l = .ok (keyOr key l)) ∧
    ∃ σ, IsStableArgsortBy (keyOr key) ax.labels σ ∧ SelectsSlices a r pos σ ∧
      (ax.members = [] → r.vals.shape = a.vals.shape) := by
  have hlt := axisPos_lt _ _ _ hpos
  have hgetD : a.axes.getD pos default = ax := by
    rw [List.getD_eq_getElem?_getD, hax]; rfl
  obtain ⟨ks, hks, -, hr⟩ := sortAxisKey_eq a r k key pos hpos h
  rw [hgetD] at hks
  obtain ⟨hmap, hall⟩ := evalKeys_ok key ax.labels ks hks
  subst hr
  subst hmap
  refine ⟨hall, _, (isStableArgsortBy_iff_map _ _ _).mpr (argsortBy_isStableArgsort _), ?_, ?_⟩
  · apply takeAxisPos_selects a pos _ ax hwf hax
    intro p hp
    have := argsortBy_lt Label.le _ p hp
    rwa [List.length_map] at this
  · intro hplain
    rw [takeAxisPos_shape, argsortBy_length, List.length_map, hwf.1]
    apply List.ext_getElem?
    intro i
    rw [List.getElem?_set, List.getElem?_map]
    by_cases hi : pos = i
    · subst hi
      rw [hax]
      simp [hlt, Axis.size, hplain]
    · simp [hi]

/-- the same for a key that never raises (`key = fun l => .ok (f l)`): the keyed order is that of `f` itself -/
theorem sortAxis_key_total_spec {α : Type} (a r : DimArray α) (k : DimKey) (f : Label → Label) (pos : Nat) (ax : Axis)
    (hwf : a.WF) (hpos : axisPos a.axes k = .ok pos) (hax : a.axes[pos]? = some ax)
    (h : sortAxisKey a k (fun l => .ok (f l)) = .ok r) :
    ∃ σ, IsStableArgsortBy f ax.labels σ ∧ SelectsSlices a r pos σ ∧ (ax.members = [] → r.vals.shape = a.vals.shape) :=
  (sortAxis_key_spec a r k _ pos ax hwf hpos hax h).2

/-- the key values of the result labels ascend -/
theorem sortAxis_key_sorted {α : Type} (a r : DimArray α) (k : DimKey) (key : Label → Except Err Label) (pos : Nat)
    (ax ax' : Axis) (hwf : a.WF) (hpos : axisPos a.axes k = .ok pos) (hax : a.axes[pos]? = some ax)
    (h : sortAxisKey a k key = .ok r) (hax' : r.axes[pos]? = some ax') :
    (ax'.labels.map (keyOr key)).Pairwise (fun x y => Label.le x y = true) := by
  obtain ⟨-, σ, hst, hsel, -⟩ := sortAxis_key_spec a r k key pos ax hwf hpos hax h
  obtain ⟨ax0, ax1, h0, h1, -, -, -, -, hlen, hin, hlab⟩ := hsel.axis
  rw [hax] at h0; rw [hax'] at h1
  cases h0; cases h1
  rw [List.pairwise_iff_getElem]
  intro i j hi hj hij
  rw [List.length_map] at hi hj
  rw [List.getElem_map, List.getElem_map]
  have hpi : σ[i]? = some σ[i] := List.getElem?_eq_getElem (by omega)
  have hqj : σ[j]? = some σ[j] := List.getElem?_eq_getElem (by omega)
  have hp := hin _ (List.mem_of_getElem? hpi)
  have hq := hin _ (List.mem_of_getElem? hqj)
  have e1 := hlab i _ hpi
  have e2 := hlab j _ hqj
  rw [List.getElem?_eq_getElem hi, List.getElem?_eq_getElem hp] at e1
  rw [List.getElem?_eq_getElem hj, List.getElem?_eq_getElem hq] at e2
  rw [Option.some.inj e1, Option.some.inj e2]
  exact (hst.2 i j _ _ _ _ hij hpi hqj (List.getElem?_eq_getElem hp) (List.getElem?_eq_getElem hq)).1

/-- **when does `sort_axis(key=...)` succeed**: the axis exists, the key evaluates on every label of it, and the key values
are mutually comparable (all numbers or all strings, or fewer than two of them) -/
theorem sortAxis_key_ok_iff {α : Type} (a : DimArray α) (k : DimKey) (key : Label → Except Err Label) :
    (∃ r, sortAxisKey a k key = .ok r) ↔
      ∃ pos ks, axisPos a.axes k = .ok pos ∧ evalKeys key (a.axes.getD pos default).labels = .ok ks ∧
        keysComparable ks = true := by
  constructor
  · rintro ⟨r, h⟩
    cases hpos : axisPos a.axes k with
    | error e => rw [sortAxisKey_error_pos a k key e hpos] at h; cases h
    | ok pos =>
      obtain ⟨ks, h1, h2, -⟩ := sortAxisKey_eq a r k key pos hpos h
      exact ⟨pos, ks, rfl, h1, h2⟩
  · rintro ⟨pos, ks, h1, h2, h3⟩
    exact ⟨_, sortAxisKey_of_parts a k key pos ks h1 h2 h3⟩

/-- **which error**: the error of the axis lookup; else the exception of the FIRST label (in axis order) on which the key
raises; else TypeError when two key values cannot be compared -/
theorem sortAxis_key_error {α : Type} (a : DimArray α) (k : DimKey) (key : Label → Except Err Label) (e : Err)
    (h : sortAxisKey a k key = .error e) :
    axisPos a.axes k = .error e ∨
    (∃ pos ax, axisPos a.axes k = .ok pos ∧ a.axes[pos]? = some ax ∧
      ((∃ (i : Nat) (l : Label), ax.labels[i]? = some l ∧ key l = .error e ∧
          ∀ i' l', i' < i → ax.labels[i']? = some l' → ∃ v, key l' = .ok v) ∨
       (e = .type ∧ ∃ ks, evalKeys key ax.labels = .ok ks ∧ keysComparable ks = false))) := by
  cases hpos : axisPos a.axes k with
  | error e' =>
    rw [sortAxisKey_error_pos a k key e' hpos] at h
    cases h; exact .inl rfl
  | ok pos =>
    right
    have hlt := axisPos_lt _ _ _ hpos
    have hax : a.axes[pos]? = some (a.axes.getD pos default) := by
      rw [List.getD_eq_getElem?_getD, List.getElem?_eq_getElem hlt]; rfl
    refine ⟨pos, _, rfl, hax, ?_⟩
    cases hk : evalKeys key (a.axes.getD pos default).labels with
    | error e' =>
      rw [sortAxisKey_error_key a k key pos e' hpos hk] at h
      cases h
      exact .inl (evalKeys_error key _ _ hk)
    | ok ks =>
      cases hc : keysComparable ks with
      | true => rw [sortAxisKey_of_parts a k key pos ks hpos hk hc] at h; cases h
      | false =>
        rw [sortAxisKey_error_cmp a k key pos ks hpos hk hc] at h
        cases h
        exact .inr ⟨rfl, ks, rfl, hc⟩

/-- with the identity key (`key=lambda x: x`) and mutually comparable labels, `sort_axis(key=...)` is `sort_axis()` -/
theorem sortAxis_key_ident {α : Type} (a : DimArray α) (k : DimKey)
    (hcmp : ∀ pos, axisPos a.axes k = .ok pos → keysComparable (a.axes.getD pos default).labels = true) :
    sortAxisKey a k (fun l => .ok l) = sortAxis a k := by
  cases hpos : axisPos a.axes k with
  | error e =>
    rw [sortAxisKey_error_pos a k _ e hpos]
    unfold sortAxis; rw [hpos]; rfl
  | ok pos =>
    have hk := evalKeys_of_forall (fun l => .ok l) (fun l => l) (a.axes.getD pos default).labels (fun _ _ => rfl)
    rw [List.map_id'] at hk
    rw [sortAxisKey_of_parts a k _ pos _ hpos hk (hcmp pos hpos)]
    unfold sortAxis; rw [hpos]; rfl

/-- **descending sort** (`key=lambda x: -x`, the docstring's example): on a numeric axis the result labels descend -/
theorem sortAxis_key_neg_descending {α : Type} (a r : DimArray α) (k : DimKey) (pos : Nat) (ax ax' : Axis)
    (hwf : a.WF) (hpos : axisPos a.axes k = .ok pos) (hax : a.axes[pos]? = some ax)
    (h : sortAxisKey a k KeyFn.neg.eval = .ok r) (hax' : r.axes[pos]? = some ax') :
    ax'.labels.Pairwise (fun x y => Label.le y x = true) := by
  obtain ⟨hall, σ, -, hsel, -⟩ := sortAxis_key_spec a r k _ pos ax hwf hpos hax h
  have hs := sortAxis_key_sorted a r k _ pos ax ax' hwf hpos hax h hax'
  rw [List.pairwise_map] at hs
  -- every result label is an input label, hence a number
  obtain ⟨ax0, ax1, h0, h1, -, -, -, -, hlen, hin, hlab⟩ := hsel.axis
  rw [hax] at h0; rw [hax'] at h1
  cases h0; cases h1
  have hnum : ∀ x ∈ ax'.labels, ∃ q, x = .num q := by
    intro x hx
    obtain ⟨i, hi, rfl⟩ := List.getElem_of_mem hx
    have hpi : σ[i]? = some σ[i] := List.getElem?_eq_getElem (by omega)
    have hp := hin _ (List.mem_of_getElem? hpi)
    have e1 := hlab i _ hpi
    rw [List.getElem?_eq_getElem hi, List.getElem?_eq_getElem hp] at e1
    rw [Option.some.inj e1]
    have := hall _ (List.getElem_mem hp)
    cases hl : ax.labels[σ[i]] with
    | num q => exact ⟨q, rfl⟩
    | str s => rw [hl] at this; simp [KeyFn.eval] at this
    | none => rw [hl] at this; simp [KeyFn.eval] at this
  refine List.Pairwise.imp_of_mem ?_ hs
  intro x y hx hy hxy
  obtain ⟨q1, rfl⟩ := hnum x hx
  obtain ⟨q2, rfl⟩ := hnum y hy
  simp only [keyOr, KeyFn.eval, Label.le, decide_eq_true_eq] at hxy ⊢
  exact Rat.neg_le_neg_iff.mp hxy

namespace C17Ex

/-- the stable sorting permutation of the labels `[2, 0, 2]` by the key `-x` is `[0, 2, 1]`: the two labels `2` first, in
their original order -/
theorem exX_neg_perm : IsStableArgsortBy (keyOr KeyFn.neg.eval) exX.labels [0, 2, 1] := by
  refine ⟨by decide, ?_⟩
  intro i j p q x y hij hp hq hx hy
  have hj : j < 3 := by
    rcases Nat.lt_or_ge j 3 with h | h
    · exact h
    · rw [List.getElem?_eq_none (by simpa using h)] at hq; cases hq
  have : (i = 0 ∧ j = 1) ∨ (i = 0 ∧ j = 2) ∨ (i = 1 ∧ j = 2) := by omega
  rcases this with ⟨rfl, rfl⟩ | ⟨rfl, rfl⟩ | ⟨rfl, rfl⟩ <;>
    simp only [List.getElem?_cons_zero, List.getElem?_cons_succ, Option.some.injEq] at hp hq <;>
    subst hp hq <;> simp [exX] at hx hy <;> subst hx hy <;> simp [Label.le, keyOr, KeyFn.eval] <;> decide

/-- `sortAxis_key_spec` applies to the key `-x` on the labels `[2, 0, 2]`, and pins the result down -/
example : ∃ r, sortAxisKey exA (.name "x") KeyFn.neg.eval = .ok r ∧ SelectsSlices exA r 0 [0, 2, 1] := by
  have hk : evalKeys KeyFn.neg.eval (exA.axes.getD 0 default).labels = .ok [.num (-2), .num (-0), .num (-2)] := rfl
  have h := sortAxisKey_of_parts exA (.name "x") KeyFn.neg.eval 0 _ exA_pos hk (by decide)
  obtain ⟨-, σ, h1, h2, -⟩ := sortAxis_key_spec exA _ (.name "x") _ 0 exX exA_wf exA_pos rfl h
  have hσ : σ = [0, 2, 1] := h1.unique exX_neg_perm
  subst hσ
  exact ⟨_, h, h2⟩

/-- a key that raises: `len` on a numeric label is a TypeError -/
example : sortAxisKey exA (.name "x") KeyFn.len.eval = .error .type := by
  have hk : evalKeys KeyFn.len.eval (exA.axes.getD 0 default).labels = .error .type := rfl
  exact sortAxisKey_error_key exA _ _ 0 _ exA_pos hk

/-- ... and a dict key: `{"a": 1, "b": 0}` on the axis `["b", "a"]` keeps the order -/
example : ∃ r, sortAxisKey exA (.pos (-1)) (KeyFn.table [(.str "a", .num 1), (.str "b", .num 0)]).eval = .ok r ∧
    r = takeAxisPos exA 1 [0, 1] := by
  have hk : evalKeys (KeyFn.table [(.str "a", .num 1), (.str "b", .num 0)]).eval (exA.axes.getD 1 default).labels =
      .ok [.num 0, .num 1] := by
    simp [evalKeys, KeyFn.eval, exA, exY, List.find?, show (Label.str "a" == Label.str "b") = false from by decide]
  refine ⟨_, sortAxisKey_of_parts exA (.pos (-1)) _ 1 [.num 0, .num 1] exA_pos1 hk (by decide), ?_⟩
  rw [argsortBy_of_pairwise Label.le _ (by simp [Label.le]; decide)]
  rfl

end C17Ex

/-! ## `compress(mask)` / `a[mask]` with a boolean mask of the full shape (mirror `Lib.compressNd`, Lib/Missing2.lean) -/

/-- **full-shape boolean selection on an array of rank ≠ 1, end to end.** With a mask of the shape of the array the call
succeeds and returns the 1-D array over an axis of label TUPLES named by the comma-joined dimension names; there is a list
`sel` of indices - a sublist of the row-major (C order) enumeration of all indices of the shape, without repeats - such that
result position `k` holds the cell of the input at index `sel[k]` together with that cell's own labels (one per dimension:
`compressNd_coord`), the mask is true at every `sel[k]`, and every in-range index where the mask is true occurs in `sel`
(`compressNd_complete`). Array metadata and dtype kind are kept. -/
theorem compressNd_spec {α : Type} (a : DimArray α) (mask : NDArr Bool) (hwf : a.WF) (hrank : a.ndim ≠ 1)
    (hshape : mask.shape = a.vals.shape) :
    ∃ (t : TupleArr α) (sel : List (List Nat)), compressNd a mask = .ok (.inr t) ∧
      sel.Sublist (allIdx a.vals.shape) ∧ sel.Nodup ∧
      t.name = ",".intercalate a.dims ∧ t.vkind = a.vkind ∧ t.attrs = a.attrs ∧
      t.cells.length = sel.length ∧ t.coords.length = sel.length ∧
      ∀ (k : Nat) (j : List Nat), sel[k]? = some j →
        InRange a.vals.shape j ∧ mask.get j = true ∧
        t.cells[k]? = some (a.vals.get j) ∧ t.coords[k]? = some (coordLabels a.axes j) := by
  have hnd : a.vals.shape.length = a.ndim := by rw [hwf.1, List.length_map]; rfl
  refine ⟨_, (allIdx a.vals.shape).filter mask.get, compressNd_eq_tuple a mask hrank hshape hnd,
    List.filter_sublist, List.Nodup.sublist List.filter_sublist (allIdx_nodup _), rfl, rfl, rfl,
    by simp, by simp, ?_⟩
  intro k j hk
  have hmem := List.mem_of_getElem? hk
  rw [List.mem_filter] at hmem
  refine ⟨mem_allIdx _ _ hmem.1, hmem.2, ?_, ?_⟩
  · simp only [List.getElem?_map, hk, Option.map_some]
  · simp only [List.getElem?_map, hk, Option.map_some]

/-- nothing selected is lost: with the `sel` of `compressNd_spec` (it is `filter mask (allIdx shape)`), every in-range index
at which the mask is true is in it -/
theorem compressNd_complete {α : Type} (a : DimArray α) (mask : NDArr Bool) (j : List Nat)
    (hj : InRange a.vals.shape j) (hm : mask.get j = true) :
    j ∈ (allIdx a.vals.shape).filter mask.get :=
  List.mem_filter.mpr ⟨inRange_mem_allIdx _ _ hj, hm⟩

/-- the tuple label of a selected cell: component `i` is the label of axis `i` at the cell's coordinate along it, and there
is one component per dimension -/
theorem compressNd_coord {α : Type} (a : DimArray α) (hwf : a.WF) (j : List Nat) (hj : InRange a.vals.shape j) :
    (coordLabels a.axes j).length = a.axes.length ∧
    ∀ (i : Nat) (ax : Axis) (p : Nat), a.axes[i]? = some ax → j[i]? = some p →
      (coordLabels a.axes j)[i]? = some (ax.labels.getD p Label.none) := by
  refine ⟨coordLabels_length _ _ ?_, fun i ax p => coordLabels_getElem? _ _ i ax p⟩
  rw [inRange_length _ _ hj, hwf.1, List.length_map]

/-- **rank 1**: the full-shape selection is `compress_axis` along the only axis, so `compressAxis_spec` applies: the result
is the input restricted to the positions where the mask is true, labels and cells staying paired -/
theorem compressNd_rank1 {α : Type} (a : DimArray α) (mask : NDArr Bool) (ax : Axis) (hwf : a.WF) (hax : a.axes = [ax])
    (hplain : ax.members = []) (hshape : mask.shape = a.vals.shape) :
    ∃ r, compressNd a mask = .ok (.inl r) ∧
      SelectsSlices a r 0 ((List.range ax.labels.length).filter (fun i => mask.get [i] = true)) := by
  have hrank : a.ndim = 1 := by simp [DimArray.ndim, hax]
  have hnd : a.vals.shape.length = a.ndim := by rw [hwf.1, List.length_map]; rfl
  have hsz : a.vals.shape = [ax.labels.length] := by rw [hwf.1, hax]; simp [Axis.size, hplain]
  have hpos : axisPos a.axes (.pos 0) = .ok 0 := axisPos_pos _ 0 (by rw [hax]; simp)
  have hax0 : a.axes[0]? = some ax := by rw [hax]; rfl
  rw [compressNd_eq_axis a mask hrank hshape hnd]
  have hm0 : mask.shape.getD 0 0 = ax.labels.length := by rw [hshape, hsz]; rfl
  rw [hm0]
  obtain ⟨r, hr⟩ := (compressAxis_ok_iff a ((List.range ax.labels.length).map fun i => mask.get [i]) (.pos 0) 0 ax hpos hax0).mpr
    (by simp [Axis.size, hplain])
  refine ⟨r, by rw [hr]; rfl, ?_⟩
  have hspec := (compressAxis_spec a r _ (.pos 0) 0 ax hwf hpos hax0 hplain hr).2
  have heq : (List.range ((List.range ax.labels.length).map fun i => mask.get [i]).length).filter
        (fun i => ((List.range ax.labels.length).map fun i => mask.get [i])[i]? = some true) =
      (List.range ax.labels.length).filter (fun i => mask.get [i] = true) := by
    rw [List.length_map, List.length_range]
    apply List.filter_congr
    intro i hi
    rw [List.mem_range] at hi
    simp [List.getElem?_map, List.getElem?_range hi]
  rw [heq] at hspec
  exact hspec

/-- **when does it succeed**: exactly when the mask has the shape of the array; a mask of another rank is a ValueError, a
mask of the right rank and another shape an IndexError (never a silent mis-selection) -/
theorem compressNd_ok_iff {α : Type} (a : DimArray α) (mask : NDArr Bool) (hwf : a.WF)
    (hplain : ∀ ax ∈ a.axes, ax.members = []) :
    ((∃ r, compressNd a mask = .ok r) ↔ mask.shape = a.vals.shape) ∧
    (mask.shape.length ≠ a.ndim → compressNd a mask = .error .value) ∧
    (mask.shape.length = a.ndim → mask.shape ≠ a.vals.shape → compressNd a mask = .error .index) := by
  have hnd : a.vals.shape.length = a.ndim := by rw [hwf.1, List.length_map]; rfl
  refine ⟨⟨?_, ?_⟩, compressNd_err_rank a mask, compressNd_err_shape a mask⟩
  · rintro ⟨r, hr⟩
    by_cases h1 : mask.shape.length = a.ndim
    · by_cases h2 : mask.shape = a.vals.shape
      · exact h2
      · rw [compressNd_err_shape a mask h1 h2] at hr; cases hr
    · rw [compressNd_err_rank a mask h1] at hr; cases hr
  · intro hshape
    by_cases hrank : a.ndim = 1
    · have hlen : a.axes.length = 1 := hrank
      obtain ⟨ax, hax⟩ : ∃ ax, a.axes = [ax] := by
        match h : a.axes, hlen with
        | [ax], _ => exact ⟨ax, rfl⟩
      obtain ⟨r, hr, -⟩ := compressNd_rank1 a mask ax hwf hax (hplain ax (by rw [hax]; simp)) hshape
      exact ⟨_, hr⟩
    · exact ⟨_, compressNd_eq_tuple a mask hrank hshape hnd⟩

namespace C17Ex

/-- `compressNd_spec` applies to the 3 x 2 example: the mask true at (0,0) and (1,1) selects the cells 10 and 40 with the
tuple labels (2, "b") and (0, "a") -/
example : ∃ t, compressNd exA { shape := [3, 2], get := fun j => j == [0, 0] || j == [1, 1] } = .ok (.inr t) ∧
    t.name = "x,y" ∧ t.cells = [some 10, some 40] ∧ t.coords = [[.num 2, .str "b"], [.num 0, .str "a"]] := by
  refine ⟨_, compressNd_eq_tuple exA _ (by decide) rfl rfl, by decide, ?_, ?_⟩ <;> rfl

end C17Ex

end DimModel

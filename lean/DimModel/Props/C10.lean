/-
C10 - property theorems: rearranging dimensions preserves every element's (name-addressed) label
coordinates; every axis travels with its data.
-/
import DimModel.Lib.Reshape
namespace DimModel
open Lib

/-- name-addressed access: the element at the position `c d` along every dimension `d`,
independent of the order in which dimensions are stored -/
def DimArray.at {α} (a : DimArray α) (c : String → Nat) : α := a.vals.get (a.dims.map c)

/-- `p` is a permutation of `0 .. n-1` -/
def IsPerm (p : List Nat) (n : Nat) : Prop := p.length = n ∧ p.Nodup ∧ ∀ k ∈ p, k < n

/-! ### list helpers (core only) -/

private theorem map_eraseIdx' {α β} (f : α → β) :
    ∀ (l : List α) (i : Nat), (l.eraseIdx i).map f = (l.map f).eraseIdx i
  | [], _ => rfl
  | _ :: _, 0 => rfl
  | x :: l, i + 1 => by
    simp only [List.eraseIdx_cons_succ, List.map_cons, map_eraseIdx' f l i]

private theorem map_insertIdx' {α β} (f : α → β) (a : α) :
    ∀ (l : List α) (i : Nat), (l.insertIdx i a).map f = (l.map f).insertIdx i (f a)
  | l, 0 => by simp only [List.insertIdx_zero, List.map_cons]
  | [], i + 1 => by simp only [List.insertIdx_succ_nil, List.map_nil]
  | x :: l, i + 1 => by
    simp only [List.insertIdx_succ_cons, List.map_cons, map_insertIdx' f a l i]

private theorem insertIdx_eraseIdx_same {α} (a : α) :
    ∀ (l : List α) (i : Nat), i < l.length → (l.eraseIdx i).insertIdx i a = l.set i a
  | [], _, h => absurd h (Nat.not_lt_zero _)
  | x :: l, 0, _ => by simp only [List.eraseIdx_cons_zero, List.insertIdx_zero, List.set_cons_zero]
  | x :: l, i + 1, h => by
    have h' : i < l.length := by simpa using h
    simp only [List.eraseIdx_cons_succ, List.insertIdx_succ_cons, List.set_cons_succ,
      insertIdx_eraseIdx_same a l i h']

/-- reading a mapped list at the first position of a member gives the image of that member -/
private theorem getD_map_idxOf {β} (p : List Nat) (f : Nat → β) (d : Nat) (hmem : d ∈ p) (z : β) :
    (p.map f).getD (p.idxOf d) z = f d := by
  have hidx : p.idxOf d < p.length := List.idxOf_lt_length_of_mem hmem
  rw [List.getD_eq_getElem?_getD, List.getElem?_map, List.getElem?_eq_getElem hidx,
    List.getElem_idxOf hidx]
  rfl

private theorem getD_of_lt {β} (l : List β) (i : Nat) (h : i < l.length) (z : β) :
    l.getD i z = l[i] := by
  rw [List.getD_eq_getElem?_getD, List.getElem?_eq_getElem h]; rfl

/-- in a duplicate-free list of names, overwriting position `pos` of the coordinates with 0 is
the same as sending the name at `pos` to 0 -/
private theorem set_map_eq {l : List String} (hn : l.Nodup) (pos : Nat) (hpos : pos < l.length)
    (c : String → Nat) :
    (l.map c).set pos 0 = l.map (fun d => if d = l[pos] then 0 else c d) := by
  apply List.ext_getElem
  · simp only [List.length_set, List.length_map]
  · intro i h1 h2
    have hi : i < l.length := by simpa using h2
    rw [List.getElem_set, List.getElem_map, List.getElem_map]
    by_cases hip : pos = i
    · subst hip; simp only [if_true]
    · have hne : ¬ (l[i] = l[pos]) := fun heq => hip ((List.getElem_inj hn).mp heq).symm
      simp only [hip, hne, if_false]

theorem isPerm_mem {p : List Nat} {n : Nat} (h : IsPerm p n) (d : Nat) (hd : d < n) : d ∈ p := by
  obtain ⟨hl, hn, hb⟩ := h
  -- a duplicate-free list of n numbers below n contains every number below n
  apply Classical.byContradiction
  intro hnot
  have hsub : p ⊆ (List.range n).erase d := by
    intro k hk
    have hkd : k ≠ d := fun e => hnot (e ▸ hk)
    exact (List.mem_erase_of_ne hkd).mpr (List.mem_range.mpr (hb k hk))
  have hle := List.Nodup.length_le_of_subset hn hsub
  rw [List.length_erase, if_pos (List.mem_range.mpr hd), List.length_range, hl] at hle
  omega

/-- the dims of a transposed array are the requested permutation of the dims -/
theorem transposeBy_dims {α} (a : DimArray α) (p : List Nat) :
    (transposeBy a p).dims = p.map (fun k => (a.axes.getD k default).name) := by
  simp only [transposeBy, DimArray.dims, List.map_map, Function.comp_def]

/-- every axis travels with its data: position `k` of the result holds the axis that was at `p[k]` -/
theorem transposeBy_axes {α} (a : DimArray α) (p : List Nat) (k : Nat) (hk : k < p.length) :
    (transposeBy a p).axes[k]'(by simpa [transposeBy] using hk) = a.axes.getD p[k] default := by
  simp only [transposeBy, List.getElem_map]

/-- **transpose preserves name-addressed coordinates**, for every permutation of any rank -/
theorem transposeBy_at {α} (a : DimArray α) (p : List Nat) (hp : IsPerm p a.axes.length)
    (hs : a.vals.shape.length = a.axes.length) (c : String → Nat) :
    (transposeBy a p).at c = a.at c := by
  unfold DimArray.at
  rw [transposeBy_dims]
  simp only [transposeBy, NDArr.transpose, hs]
  congr 1
  apply List.ext_getElem
  · simp only [DimArray.dims, List.length_map, List.length_range]
  · intro d h1 h2
    have hd : d < a.axes.length := by simpa using h1
    have hmem : d ∈ p := isPerm_mem hp d hd
    simp only [List.getElem_map, List.getElem_range, DimArray.dims, List.map_map]
    rw [getD_map_idxOf p _ d hmem 0]
    simp only [Function.comp_apply, getD_of_lt a.axes d hd]

/-- metadata and value kind are kept -/
theorem transposeBy_attrs {α} (a : DimArray α) (p : List Nat) :
    (transposeBy a p).attrs = a.attrs ∧ (transposeBy a p).vkind = a.vkind := ⟨rfl, rfl⟩

/-- the inverse permutation -/
def invPerm (p : List Nat) : List Nat := (List.range p.length).map (fun d => p.idxOf d)

/-- `a.transpose(p).transpose(inverse p)` has the axes of `a`, in the original order -/
theorem transpose_inv_axes {α} (a : DimArray α) (p : List Nat) (hp : IsPerm p a.axes.length) :
    (transposeBy (transposeBy a p) (invPerm p)).axes = a.axes := by
  simp only [transposeBy, invPerm, List.map_map]
  apply List.ext_getElem
  · simp only [List.length_map, List.length_range, hp.1]
  · intro d h1 h2
    have hd : d < a.axes.length := h2
    have hmem : d ∈ p := isPerm_mem hp d hd
    simp only [List.getElem_map, List.getElem_range, Function.comp_apply]
    rw [getD_map_idxOf p _ d hmem default]
    exact getD_of_lt a.axes d hd default

/-- ... and `a.transpose(p).transpose(inverse p)` addresses the same elements as `a` -/
theorem transpose_inv_at {α} (a : DimArray α) (p : List Nat) (hp : IsPerm p a.axes.length)
    (hs : a.vals.shape.length = a.axes.length) (c : String → Nat) :
    (transposeBy (transposeBy a p) (invPerm p)).at c = a.at c := by
  have hq : IsPerm (invPerm p) (transposeBy a p).axes.length := by
    have hl : (transposeBy a p).axes.length = p.length := by simp only [transposeBy, List.length_map]
    refine ⟨by simp only [invPerm, hl, List.length_map, List.length_range], ?_, ?_⟩
    · -- idxOf is injective on members
      unfold invPerm
      rw [List.Nodup, List.pairwise_map]
      refine List.Pairwise.imp_of_mem ?_ (List.nodup_range (n := p.length))
      intro x y hx hy hxy heq
      have hx' : x ∈ p := isPerm_mem hp x (by simpa [hp.1] using List.mem_range.mp hx)
      have hy' : y ∈ p := isPerm_mem hp y (by simpa [hp.1] using List.mem_range.mp hy)
      have e1 := List.getElem_idxOf (List.idxOf_lt_length_of_mem hx')
      have e2 := List.getElem_idxOf (List.idxOf_lt_length_of_mem hy')
      apply hxy
      rw [← e1, ← e2]
      simp only [heq]
    · intro k hk
      unfold invPerm at hk
      obtain ⟨d, hd, rfl⟩ := List.mem_map.mp hk
      have hd' : d ∈ p := isPerm_mem hp d (by simpa [hp.1] using List.mem_range.mp hd)
      rw [hl]; exact List.idxOf_lt_length_of_mem hd'
  have hs' : (transposeBy a p).vals.shape.length = (transposeBy a p).axes.length := by
    simp only [transposeBy, NDArr.transpose, List.length_map]
  rw [transposeBy_at (transposeBy a p) (invPerm p) hq hs' c, transposeBy_at a p hp hs c]

/-- **newaxis**: the element at any coordinate of the result is the element of the input at the
same coordinate (the new dimension is ignored: replication) -/
theorem newaxis_at {α} (a : DimArray α) (name : String) (pos : Nat) (hpos : pos ≤ a.axes.length)
    (c : String → Nat) :
    let ax : Axis := { name := name, labels := [Label.none], kind := .O }
    let o : DimArray α := { axes := a.axes.insertIdx pos ax, vals := a.vals.insertDim pos, vkind := a.vkind, attrs := a.attrs }
    o.at c = a.at c := by
  intro ax o
  have _ := hpos
  unfold DimArray.at
  simp only [o, NDArr.insertDim, DimArray.dims]
  congr 1
  rw [map_insertIdx', map_insertIdx']
  exact List.eraseIdx_insertIdx_self _

/-- **squeeze** of the singleton dimension at `pos`: the result at coordinate `c` is the input at
`c` with position 0 along the removed dimension -/
theorem squeezeDim_at {α} (a : DimArray α) (pos : Nat) (hpos : pos < a.axes.length)
    (hn : a.dims.Nodup) (c : String → Nat) :
    let o : DimArray α := { axes := a.axes.eraseIdx pos, vals := a.vals.dropDim pos, vkind := a.vkind, attrs := a.attrs }
    o.at c = a.at (fun d => if d = (a.axes.getD pos default).name then 0 else c d) := by
  intro o
  have hposd : pos < a.dims.length := by simpa [DimArray.dims] using hpos
  have hname : (a.axes.getD pos default).name = a.dims[pos] := by
    rw [getD_of_lt a.axes pos hpos]; simp only [DimArray.dims, List.getElem_map]
  unfold DimArray.at
  simp only [o, NDArr.dropDim, DimArray.dims]
  congr 1
  simp only [DimArray.dims] at hn hposd hname
  rw [map_eraseIdx', map_eraseIdx', insertIdx_eraseIdx_same 0 _ pos (by simpa using hposd), hname]
  exact set_map_eq hn pos hposd c

/-- **repeat** of the singleton dimension at `pos`: every position along the repeated dimension
holds the input's single slice -/
theorem repeatDim_at {α} (a : DimArray α) (pos n : Nat) (newax : Axis) (hpos : pos < a.axes.length)
    (hn : a.dims.Nodup) (hname : newax.name = (a.axes.getD pos default).name) (c : String → Nat) :
    let o : DimArray α := { axes := a.axes.set pos newax, vals := a.vals.repeatDim pos n, vkind := a.vkind, attrs := a.attrs }
    o.at c = a.at (fun d => if d = (a.axes.getD pos default).name then 0 else c d) := by
  intro o
  have _ := hname
  have hposd : pos < a.dims.length := by simpa [DimArray.dims] using hpos
  have hnm : (a.axes.getD pos default).name = a.dims[pos] := by
    rw [getD_of_lt a.axes pos hpos]; simp only [DimArray.dims, List.getElem_map]
  unfold DimArray.at
  simp only [o, NDArr.repeatDim, DimArray.dims]
  congr 1
  rw [List.map_set, List.map_set, List.set_set]
  have := set_map_eq hn pos hposd c
  simp only [DimArray.dims] at this hnm
  rw [hnm]
  exact this

/-- `np.rollaxis`'s permutation is a permutation (so `rollaxis` falls under `transposeBy_at`) -/
theorem rollPerm_isPerm (n : Nat) (axis start : Int) (p : List Nat) (h : rollPerm n axis start = .ok p) :
    IsPerm p n := by
  unfold rollPerm at h
  simp only at h
  generalize (if axis < 0 then axis + (n : Int) else axis) = ax at h
  generalize (if start < 0 then start + (n : Int) else start) = st at h
  by_cases c1 : (decide (ax < 0) || decide (ax ≥ (n : Int))) = true
  · rw [if_pos c1] at h; cases h
  rw [if_neg c1] at h
  by_cases c2 : (decide (st < 0) || decide (st > (n : Int))) = true
  · rw [if_pos c2] at h; cases h
  rw [if_neg c2] at h
  injection h with h
  subst h
  simp only [Bool.or_eq_true, decide_eq_true_eq, not_or, Int.not_lt, ge_iff_le, gt_iff_lt,
    Int.not_le] at c1 c2
  have hA : ax.toNat < n := by omega
  generalize hAe : ax.toNat = A at *
  have hS : (if st > ax then st - 1 else st).toNat ≤ n - 1 := by
    split <;> omega
  generalize (if st > ax then st - 1 else st).toNat = S at *
  have hfe : (List.range n).filter (· != A) = (List.range n).erase A :=
    (List.Nodup.erase_eq_filter List.nodup_range A).symm
  have hfl : ((List.range n).filter (· != A)).length = n - 1 := by
    rw [hfe, List.length_erase, if_pos (List.mem_range.mpr hA), List.length_range]
  have hSl : S ≤ ((List.range n).filter (· != A)).length := by rw [hfl]; exact hS
  have hperm := List.perm_insertIdx A ((List.range n).filter (· != A)) hSl
  refine ⟨?_, ?_, ?_⟩
  · rw [List.length_insertIdx_of_le_length hSl, hfl]; omega
  · rw [hperm.nodup_iff, List.nodup_cons]
    refine ⟨?_, List.Nodup.sublist List.filter_sublist List.nodup_range⟩
    intro hm
    have := (List.mem_filter.mp hm).2
    simp at this
  · intro k hk
    rcases List.mem_cons.mp (hperm.mem_iff.mp hk) with rfl | hk'
    · exact hA
    · exact List.mem_range.mp (List.mem_filter.mp hk').1

/-- non-vacuity: a concrete permutation satisfies `IsPerm` -/
example : IsPerm [2, 0, 1] 3 := by
  refine ⟨rfl, by decide, by decide⟩

end DimModel

/-
C10 - property theorems: rearranging dimensions preserves every element's (name-addressed) label
coordinates; every axis travels with its data.
-/
import DimModel.Lib.Reshape
import DimModel.Spec.C10
import DimModel.Proofs.C10
import DimModel.Proofs.C10Sq
import DimModel.Proofs.C10Bc
import DimModel.Proofs.C10Pos
namespace DimModel
open Lib
open C10

/-- name-addressed access: the element at the position `c d` along every dimension `d`,
independent of the order in which dimensions are stored -/
def DimArray.at {α} (a : DimArray α) (c : String → Nat) : α := a.vals.get (a.dims.map c)

-- `IsPerm p n` (`p` is a permutation of `0 .. n-1`) is defined in `DimModel/Spec/C10.lean`

/-! ### list helpers (core only) -/

/-- reading a mapped list at the first position of a member gives the image of that member -/
private theorem getD_map_idxOf {β} (p : List Nat) (f : Nat → β) (d : Nat) (hmem : d ∈ p) (z : β) :
    (p.map f).getD (p.idxOf d) z = f d := by
  have hidx : p.idxOf d < p.length := List.idxOf_lt_length_of_mem hmem
  rw [List.getD_eq_getElem?_getD, List.getElem?_map, List.getElem?_eq_getElem hidx,
    List.getElem_idxOf hidx]
  rfl

private theorem getD_of_lt {β} (l : List β) (i : Nat) (h : i < l.length) (z : β) :
    l.getD i z = l[i] := by
  rw [List.getD_eq_getElem?_getD, List.getElem?_eq_getElem h]; rfl

/-- in a duplicate-free list of names, overwriting position `pos` of the coordinates with 0 is
the same as sending the name at `pos` to 0 -/
private theorem set_map_eq {l : List String} (hn : l.Nodup) (pos : Nat) (hpos : pos < l.length)
    (c : String → Nat) :
    (l.map c).set pos 0 = l.map (fun d => if d = l[pos] then 0 else c d) := by
  apply List.ext_getElem
  · simp only [List.length_set, List.length_map]
  · intro i h1 h2
    have hi : i < l.length := by simpa using h2
    rw [List.getElem_set, List.getElem_map, List.getElem_map]
    by_cases hip : pos = i
    · subst hip; simp only [if_true]
    · have hne : ¬ (l[i] = l[pos]) := fun heq => hip ((List.getElem_inj hn).mp heq).symm
      simp only [hip, hne, if_false]

/-- the dims of a transposed array are the requested permutation of the dims -/
theorem transposeBy_dims {α} (a : DimArray α) (p : List Nat) :
    (transposeBy a p).dims = p.map (fun k => (a.axes.getD k default).name) := by
  simp only [transposeBy, DimArray.dims, List.map_map, Function.comp_def]

/-- every axis travels with its data: position `k` of the result holds the axis that was at `p[k]` -/
theorem transposeBy_axes {α} (a : DimArray α) (p : List Nat) (k : Nat) (hk : k < p.length) :
    (transposeBy a p).axes[k]'(by simpa [transposeBy] using hk) = a.axes.getD p[k] default := by
  simp only [transposeBy, List.getElem_map]

/-- **transpose preserves name-addressed coordinates**, for every permutation of any rank -/
theorem transposeBy_at {α} (a : DimArray α) (p : List Nat) (hp : IsPerm p a.axes.length)
    (hs : a.vals.shape.length = a.axes.length) (c : String → Nat) :
    (transposeBy a p).at c = a.at c := by
  unfold DimArray.at
  rw [transposeBy_dims]
  simp only [transposeBy, NDArr.transpose, hs]
  congr 1
  apply List.ext_getElem
  · simp only [DimArray.dims, List.length_map, List.length_range]
  · intro d h1 h2
    have hd : d < a.axes.length := by simpa using h1
    have hmem : d ∈ p := isPerm_mem hp d hd
    simp only [List.getElem_map, List.getElem_range, DimArray.dims, List.map_map]
    rw [getD_map_idxOf p _ d hmem 0]
    simp only [Function.comp_apply, getD_of_lt a.axes d hd]

/-- metadata and value kind are kept -/
theorem transposeBy_attrs {α} (a : DimArray α) (p : List Nat) :
    (transposeBy a p).attrs = a.attrs ∧ (transposeBy a p).vkind = a.vkind := ⟨rfl, rfl⟩

/-- the inverse permutation -/
def invPerm (p : List Nat) : List Nat := (List.range p.length).map (fun d => p.idxOf d)

/-- `a.transpose(p).transpose(inverse p)` has the axes of `a`, in the original order -/
theorem transpose_inv_axes {α} (a : DimArray α) (p : List Nat) (hp : IsPerm p a.axes.length) :
    (transposeBy (transposeBy a p) (invPerm p)).axes = a.axes := by
  simp only [transposeBy, invPerm, List.map_map]
  apply List.ext_getElem
  · simp only [List.length_map, List.length_range, hp.1]
  · intro d h1 h2
    have hd : d < a.axes.length := h2
    have hmem : d ∈ p := isPerm_mem hp d hd
    simp only [List.getElem_map, List.getElem_range, Function.comp_apply]
    rw [getD_map_idxOf p _ d hmem default]
    exact getD_of_lt a.axes d hd default

/-- ... and `a.transpose(p).transpose(inverse p)` addresses the same elements as `a` -/
theorem transpose_inv_at {α} (a : DimArray α) (p : List Nat) (hp : IsPerm p a.axes.length)
    (hs : a.vals.shape.length = a.axes.length) (c : String → Nat) :
    (transposeBy (transposeBy a p) (invPerm p)).at c = a.at c := by
  have hq : IsPerm (invPerm p) (transposeBy a p).axes.length := by
    have hl : (transposeBy a p).axes.length = p.length := by simp only [transposeBy, List.length_map]
    refine ⟨by simp only [invPerm, hl, List.length_map, List.length_range], ?_, ?_⟩
    · -- idxOf is injective on members
      unfold invPerm
      rw [List.Nodup, List.pairwise_map]
      refine List.Pairwise.imp_of_mem ?_ (List.nodup_range (n := p.length))
      intro x y hx hy hxy heq
      have hx' : x ∈ p := isPerm_mem hp x (by simpa [hp.1] using List.mem_range.mp hx)
      have hy' : y ∈ p := isPerm_mem hp y (by simpa [hp.1] using List.mem_range.mp hy)
      have e1 := List.getElem_idxOf (List.idxOf_lt_length_of_mem hx')
      have e2 := List.getElem_idxOf (List.idxOf_lt_length_of_mem hy')
      apply hxy
      rw [← e1, ← e2]
      simp only [heq]
    · intro k hk
      unfold invPerm at hk
      obtain ⟨d, hd, rfl⟩ := List.mem_map.mp hk
      have hd' : d ∈ p := isPerm_mem hp d (by simpa [hp.1] using List.mem_range.mp hd)
      rw [hl]; exact List.idxOf_lt_length_of_mem hd'
  have hs' : (transposeBy a p).vals.shape.length = (transposeBy a p).axes.length := by
    simp only [transposeBy, NDArr.transpose, List.length_map]
  rw [transposeBy_at (transposeBy a p) (invPerm p) hq hs' c, transposeBy_at a p hp hs c]

/-- **newaxis**: the element at any coordinate of the result is the element of the input at the
same coordinate (the new dimension is ignored: replication) -/
theorem newaxis_at {α} (a : DimArray α) (name : String) (pos : Nat) (hpos : pos ≤ a.axes.length)
    (c : String → Nat) :
    let ax : Axis := { name := name, labels := [Label.none], kind := .O }
    let o : DimArray α := { axes := a.axes.insertIdx pos ax, vals := a.vals.insertDim pos, vkind := a.vkind, attrs := a.attrs }
    o.at c = a.at c := by
  intro ax o
  have _ := hpos
  unfold DimArray.at
  simp only [o, NDArr.insertDim, DimArray.dims]
  congr 1
  rw [map_insertIdx', map_insertIdx']
  exact List.eraseIdx_insertIdx_self _

/-- **squeeze** of the singleton dimension at `pos`: the result at coordinate `c` is the input at
`c` with position 0 along the removed dimension -/
theorem squeezeDim_at {α} (a : DimArray α) (pos : Nat) (hpos : pos < a.axes.length)
    (hn : a.dims.Nodup) (c : String → Nat) :
    let o : DimArray α := { axes := a.axes.eraseIdx pos, vals := a.vals.dropDim pos, vkind := a.vkind, attrs := a.attrs }
    o.at c = a.at (fun d => if d = (a.axes.getD pos default).name then 0 else c d) := by
  intro o
  have hposd : pos < a.dims.length := by simpa [DimArray.dims] using hpos
  have hname : (a.axes.getD pos default).name = a.dims[pos] := by
    rw [getD_of_lt a.axes pos hpos]; simp only [DimArray.dims, List.getElem_map]
  unfold DimArray.at
  simp only [o, NDArr.dropDim, DimArray.dims]
  congr 1
  simp only [DimArray.dims] at hn hposd hname
  rw [map_eraseIdx', map_eraseIdx', insertIdx_eraseIdx_same 0 _ pos (by simpa using hposd), hname]
  exact set_map_eq hn pos hposd c

/-- **repeat** of the singleton dimension at `pos`: every position along the repeated dimension
holds the input's single slice -/
theorem repeatDim_at {α} (a : DimArray α) (pos n : Nat) (newax : Axis) (hpos : pos < a.axes.length)
    (hn : a.dims.Nodup) (hname : newax.name = (a.axes.getD pos default).name) (c : String → Nat) :
    let o : DimArray α := { axes := a.axes.set pos newax, vals := a.vals.repeatDim pos n, vkind := a.vkind, attrs := a.attrs }
    o.at c = a.at (fun d => if d = (a.axes.getD pos default).name then 0 else c d) := by
  intro o
  have _ := hname
  have hposd : pos < a.dims.length := by simpa [DimArray.dims] using hpos
  have hnm : (a.axes.getD pos default).name = a.dims[pos] := by
    rw [getD_of_lt a.axes pos hpos]; simp only [DimArray.dims, List.getElem_map]
  unfold DimArray.at
  simp only [o, NDArr.repeatDim, DimArray.dims]
  congr 1
  rw [List.map_set, List.map_set, List.set_set]
  have := set_map_eq hn pos hposd c
  simp only [DimArray.dims] at this hnm
  rw [hnm]
  exact this

/-- `np.rollaxis`'s permutation is a permutation (so `rollaxis` falls under `transposeBy_at`) -/
theorem rollPerm_isPerm (n : Nat) (axis start : Int) (p : List Nat) (h : rollPerm n axis start = .ok p) :
    IsPerm p n := by
  unfold rollPerm at h
  simp only at h
  generalize (if axis < 0 then axis + (n : Int) else axis) = ax at h
  generalize (if start < 0 then start + (n : Int) else start) = st at h
  by_cases c1 : (decide (ax < 0) || decide (ax ≥ (n : Int))) = true
  · rw [if_pos c1] at h; cases h
  rw [if_neg c1] at h
  by_cases c2 : (decide (st < 0) || decide (st > (n : Int))) = true
  · rw [if_pos c2] at h; cases h
  rw [if_neg c2] at h
  injection h with h
  subst h
  simp only [Bool.or_eq_true, decide_eq_true_eq, not_or, Int.not_lt, ge_iff_le, gt_iff_lt,
    Int.not_le] at c1 c2
  have hA : ax.toNat < n := by omega
  generalize hAe : ax.toNat = A at *
  have hS : (if st > ax then st - 1 else st).toNat ≤ n - 1 := by
    split <;> omega
  generalize (if st > ax then st - 1 else st).toNat = S at *
  have hfe : (List.range n).filter (· != A) = (List.range n).erase A :=
    (List.Nodup.erase_eq_filter List.nodup_range A).symm
  have hfl : ((List.range n).filter (· != A)).length = n - 1 := by
    rw [hfe, List.length_erase, if_pos (List.mem_range.mpr hA), List.length_range]
  have hSl : S ≤ ((List.range n).filter (· != A)).length := by rw [hfl]; exact hS
  have hperm := List.perm_insertIdx A ((List.range n).filter (· != A)) hSl
  refine ⟨?_, ?_, ?_⟩
  · rw [List.length_insertIdx_of_le_length hSl, hfl]; omega
  · rw [hperm.nodup_iff, List.nodup_cons]
    refine ⟨?_, List.Nodup.sublist List.filter_sublist List.nodup_range⟩
    intro hm
    have := (List.mem_filter.mp hm).2
    simp at this
  · intro k hk
    rcases List.mem_cons.mp (hperm.mem_iff.mp hk) with rfl | hk'
    · exact hA
    · exact List.mem_range.mp (List.mem_filter.mp hk').1

/-- non-vacuity: a concrete permutation satisfies `IsPerm` -/
example : IsPerm [2, 0, 1] 3 := by
  refine ⟨rfl, by decide, by decide⟩

/-! ## End-to-end theorems about the top-level functions, as the user calls them

Vocabulary (`DimModel/Spec/C10.lean`): `coordOf dims j name` is the coordinate of the index `j` along
the dimension called `name`; `SameByName a r` says that every in-range index `j` of `r` reads the
element of `a` at the in-range index `i` with `coordOf a.dims i name = coordOf r.dims j name` for
every dimension name of `a`; `Rearranged a r` adds: the axes of `r` are those of `a` in another
order (whole: name, labels, kind, metadata), attrs / value kind kept, `r` well formed, and the
correspondence is onto.  `Resolves a k d`: the key `k` (name, position or negative position)
designates dimension `d`.  Helper lemmas: `DimModel/Proofs/C10.lean`. -/

/-- the index `i` of `SameByName` is unique: an index is determined by its named coordinates -/
theorem sameByName_unique {dims : List String} (hn : dims.Nodup) {i i' : List Nat}
    (hi : i.length = dims.length) (hi' : i'.length = dims.length)
    (h : ∀ name ∈ dims, coordOf dims i name = coordOf dims i' name) : i = i' :=
  coordOf_ext hn hi hi' h

/-- `transposeBy` with any permutation is a rearrangement (the general fact behind all of the below) -/
theorem transposeBy_spec {α} (a : DimArray α) (hw : a.WF) (p : List Nat) (hp : IsPerm p a.ndim) :
    Rearranged a (transposeBy a p) := transposeBy_rearranged a p hp hw

/-- **transpose by names.**  `a.transpose(*names)` with a non-empty list of names succeeds exactly
when the names are a rearrangement of `a`'s dimension names (all of them, each once); otherwise it
raises `ValueError`.  On success the result lists the dimensions in the requested order, is a
rearrangement of `a` (each axis keeps its labels and metadata), and every element sits at the same
named coordinates. -/
theorem transpose_names_spec {α} (a : DimArray α) (hw : a.WF) (names : List String) (hne : names ≠ []) :
    (names.Perm a.dims →
      ∃ r, transpose a (some (names.map DimKey.name)) = .ok r ∧ r.dims = names ∧ Rearranged a r) ∧
    (¬ names.Perm a.dims → transpose a (some (names.map DimKey.name)) = .error .value) := by
  exact ⟨transpose_names_ok a hw names hne, transpose_names_error a hw.2.1 names hne⟩

/-- **transpose by any mix of names, positions and negative positions.**  If the `k`-th key
designates dimension `q[k]` and `q` is a permutation, the call succeeds, position `k` of the result
holds the axis that was at `q[k]` (whole), and the result is a rearrangement of `a`. -/
theorem transpose_keys_spec {α} (a : DimArray α) (hw : a.WF) (ks : List DimKey) (hne : ks ≠ [])
    (q : List Nat) (hq : IsPerm q a.ndim) (hl : ks.length = q.length)
    (h : ∀ k (h1 : k < ks.length) (h2 : k < q.length), Resolves a ks[k] q[k]) :
    ∃ r, transpose a (some ks) = .ok r ∧
      (∀ k (hk : k < q.length), r.axes[k]? = a.axes[q[k]]?) ∧
      r.dims = q.map (fun d => a.dims.getD d "") ∧
      Rearranged a r := by
  refine ⟨transposeBy a q, transpose_keys_ok a hw.2.1 ks hne q hq hl h, ?_, ?_,
    transposeBy_rearranged a q hq hw⟩
  · intro k hk
    have hlt : q[k] < a.axes.length := hq.2.2 _ (List.getElem_mem hk)
    rw [transposeBy_axes_getElem?, List.getElem?_eq_getElem hk, List.getElem?_eq_getElem hlt,
      Option.map_some, axis_getD_eq a _ hlt]
  · rw [transposeBy_dims]
    apply List.map_congr_left
    intro d hd
    have hlt : d < a.axes.length := hq.2.2 d hd
    rw [axis_getD_name a d hlt, List.getD_eq_getElem?_getD,
      List.getElem?_eq_getElem (by simpa [DimArray.dims] using hlt)]
    rfl

/-- **names and positions are interchangeable**: two key lists that designate the same dimensions
give the same result. -/
theorem transpose_keys_interchangeable {α} (a : DimArray α) (hw : a.WF) (ks ks' : List DimKey)
    (hne : ks ≠ []) (q : List Nat) (hq : IsPerm q a.ndim) (hl : ks.length = q.length) (hl' : ks'.length = q.length)
    (h : ∀ k (h1 : k < ks.length) (h2 : k < q.length), Resolves a ks[k] q[k])
    (h' : ∀ k (h1 : k < ks'.length) (h2 : k < q.length), Resolves a ks'[k] q[k]) :
    transpose a (some ks) = transpose a (some ks') := by
  have hne' : ks' ≠ [] := by
    intro e; subst e
    have : ks.length = 0 := by rw [hl, ← hl']; rfl
    exact hne (List.eq_nil_of_length_eq_zero this)
  rw [transpose_keys_ok a hw.2.1 ks hne q hq hl h, transpose_keys_ok a hw.2.1 ks' hne' q hq hl' h']

/-- **default transpose (`a.T`, `a.transpose()`)**: for up to two dimensions the dimensions are
reversed (axes travel whole, elements keep their named coordinates); for three and more dimensions
the library raises `ValueError` ("indicate dimensions to transpose"), it does not reverse.
`transpose([])` is the same call. -/
theorem transpose_default_spec {α} (a : DimArray α) (hw : a.WF) :
    transpose a (some []) = transpose a none ∧
    (a.ndim ≤ 2 → ∃ r, transpose a none = .ok r ∧ r.axes = a.axes.reverse ∧ Rearranged a r) ∧
    (2 < a.ndim → transpose a none = .error .value) := by
  refine ⟨transpose_nil_eq_none a, ?_, ?_⟩
  · intro h2
    rcases a with ⟨axes, vals, vkind, attrs⟩
    match axes, h2, hw with
    | [], _, hw =>
      refine ⟨_, rfl, rfl, ?_⟩
      have := transposeBy_rearranged (⟨[], vals, vkind, attrs⟩ : DimArray α) [] ⟨rfl, List.nodup_nil, by simp⟩ hw
      refine ⟨List.Perm.refl _, hw, rfl, rfl, ?_, ?_⟩ <;>
      · intro j hj
        refine ⟨j, hj, fun name hn => by simp [DimArray.dims] at hn, rfl⟩
    | [x], _, hw =>
      have hq : IsPerm [0] (⟨[x], vals, vkind, attrs⟩ : DimArray α).ndim := ⟨rfl, by simp, by simp [DimArray.ndim]⟩
      have hk := transpose_keys_ok (⟨[x], vals, vkind, attrs⟩ : DimArray α) hw.2.1 [.pos 0] (by simp) [0] hq rfl
        (by
          intro k h1 h2
          have : k = 0 := by simpa using h1
          subst this
          exact ⟨by simp [DimArray.ndim], Or.inl rfl⟩)
      exact ⟨_, hk, rfl, transposeBy_rearranged _ _ hq hw⟩
    | [x, y], _, hw =>
      have hq : IsPerm [1, 0] (⟨[x, y], vals, vkind, attrs⟩ : DimArray α).ndim :=
        ⟨rfl, by simp, by simp [DimArray.ndim]⟩
      have hk := transpose_keys_ok (⟨[x, y], vals, vkind, attrs⟩ : DimArray α) hw.2.1 [.pos 1, .pos 0] (by simp)
        [1, 0] hq rfl
        (by
          intro k h1 h2
          have : k = 0 ∨ k = 1 := by simp at h1; omega
          rcases this with rfl | rfl
          · exact ⟨by simp [DimArray.ndim], Or.inl rfl⟩
          · exact ⟨by simp [DimArray.ndim], Or.inl rfl⟩)
      exact ⟨_, hk, rfl, transposeBy_rearranged _ _ hq hw⟩
    | _ :: _ :: _ :: _, h2, _ => simp [DimArray.ndim] at h2
  · intro h3
    have e2 : (a.ndim == 2) = false := by simp; omega
    have e1 : (a.ndim == 1) = false := by simp; omega
    have e0 : (a.ndim == 0) = false := by simp; omega
    simp only [transpose, e2, e1, e0, Bool.false_eq_true, if_false, bind, Except.bind]

/-- **swapaxes** (names, positions, negative positions, mixed): exactly the two designated
dimensions are exchanged, all others stay in place, and the result is a rearrangement of `a`. -/
theorem swapaxes_spec {α} (a : DimArray α) (hw : a.WF) (k1 k2 : DimKey) (d1 d2 : Nat)
    (h1 : Resolves a k1 d1) (h2 : Resolves a k2 d2) :
    ∃ r, swapaxes a k1 k2 = .ok r ∧
      r.axes[d1]? = a.axes[d2]? ∧ r.axes[d2]? = a.axes[d1]? ∧
      (∀ k, k ≠ d1 → k ≠ d2 → r.axes[k]? = a.axes[k]?) ∧
      r.axes.length = a.axes.length ∧
      Rearranged a r := by
  have hq := isPerm_swap h1.1 h2.1 (d1 := d1) (d2 := d2)
  have key : ∀ k, (transposeBy a ((List.range a.ndim).map (swapFn d1 d2))).axes[k]? = a.axes[swapFn d1 d2 k]? := by
    intro k
    rw [transposeBy_axes_getElem?, List.getElem?_map]
    by_cases hk : k < a.ndim
    · have hlt := swapFn_lt h1.1 h2.1 hk (d1 := d1) (d2 := d2)
      rw [List.getElem?_eq_getElem (by simpa using hk), List.getElem_range, Option.map_some, Option.map_some,
        axis_getD_eq a _ hlt, List.getElem?_eq_getElem hlt]
    · have hge : a.axes.length ≤ k := Nat.le_of_not_lt hk
      have e : swapFn d1 d2 k = k := by
        have := h1.1; have := h2.1
        unfold swapFn; grind
      rw [e, List.getElem?_eq_none (by simpa [DimArray.ndim] using hge), List.getElem?_eq_none hge]; rfl
  refine ⟨_, swapaxes_ok a hw.2.1 k1 k2 d1 d2 h1 h2, ?_, ?_, ?_, ?_, transposeBy_rearranged a _ hq hw⟩
  · rw [key]; simp [swapFn]
  · rw [key]; congr 1; unfold swapFn; grind
  · intro k hk1 hk2; rw [key]; simp [swapFn, hk1, hk2]
  · simp [transposeBy, DimArray.ndim]

/-- names and positions are interchangeable for `swapaxes` as well -/
theorem swapaxes_keys_interchangeable {α} (a : DimArray α) (hw : a.WF) (k1 k2 k1' k2' : DimKey) (d1 d2 : Nat)
    (h1 : Resolves a k1 d1) (h2 : Resolves a k2 d2) (h1' : Resolves a k1' d1) (h2' : Resolves a k2' d2) :
    swapaxes a k1 k2 = swapaxes a k1' k2' := by
  rw [swapaxes_ok a hw.2.1 k1 k2 d1 d2 h1 h2, swapaxes_ok a hw.2.1 k1' k2' d1 d2 h1' h2']

/-- **rollaxis**: the designated axis `d` is taken out and put back at position `rollDest d s`
(`s` = `start`, possibly counted from the end; `np.rollaxis`'s rule: "rolled until it lies before
position `start`"), the other axes keep their relative order, and the result is a rearrangement. -/
theorem rollaxis_spec {α} (a : DimArray α) (hw : a.WF) (k : DimKey) (start : Int) (d s : Nat)
    (hk : Resolves a k d)
    (hst : (start = (s : Int) ∧ s ≤ a.ndim) ∨ (start = (s : Int) - (a.ndim : Int) ∧ s < a.ndim))
    (ax : Axis) (hax : a.axes[d]? = some ax) :
    ∃ r, rollaxis a k start = .ok r ∧
      r.axes = (a.axes.eraseIdx d).insertIdx (rollDest d s) ax ∧
      Rearranged a r := by
  have hax' : ax = a.axes.getD d default := by
    rw [List.getD_eq_getElem?_getD, hax]; rfl
  subst hax'
  have hs : s ≤ a.ndim := by rcases hst with ⟨_, h⟩ | ⟨_, h⟩ <;> omega
  have hrp := rollPerm_ok a.ndim (d : Int) (s : Int) d s hk.1 (Or.inl rfl) (Or.inl ⟨rfl, hs⟩)
  have hq := rollPerm_isPerm _ _ _ _ hrp
  refine ⟨_, rollaxis_ok a hw.2.1 k start d s hk hst, ?_, transposeBy_rearranged a _ hq hw⟩
  exact roll_axes a d _ hk.1

/-- `np.rollaxis`'s documented rule, read off the axes list above: the rolled axis sits at
`rollDest d s`, and when `start` designates another dimension `s` the rolled axis lies immediately
before the axis that was at `s` ("rolled until it lies before position `start`"). -/
theorem rollaxis_lands_before {α} (a : DimArray α) (d s : Nat) (hd : d < a.axes.length) (hs : s ≤ a.axes.length)
    (ax : Axis) (r : DimArray α) (hr : r.axes = (a.axes.eraseIdx d).insertIdx (rollDest d s) ax) :
    r.axes[rollDest d s]? = some ax ∧
    (s < a.axes.length → s ≠ d → r.axes[rollDest d s + 1]? = a.axes[s]?) := by
  have hle : rollDest d s ≤ (a.axes.eraseIdx d).length := by
    rw [List.length_eraseIdx_of_lt hd]; exact rollDest_le hd hs
  refine ⟨?_, ?_⟩
  · rw [hr, List.getElem?_insertIdx_self, if_pos hle]
  · intro hsl hsd
    rw [hr, List.getElem?_insertIdx_of_gt (Nat.lt_succ_self _), Nat.succ_sub_one, List.getElem?_eraseIdx]
    unfold rollDest
    by_cases c : s > d
    · rw [if_pos c, if_neg (by omega)]
      congr 1; omega
    · rw [if_neg c, if_pos (by omega)]

/-! ### squeeze / newaxis / repeat, end to end

`SameOn names a r`: every in-range index of `r` reads the element of `a` at the in-range index with
the same coordinate along every dimension in `names`.  For the dimensions of `a` that are *not*
listed the theorems below always say that they have a single position, so the index into `a` is
pinned there as well (to 0). -/

/-- **squeeze(axis)** (by name, position or negative position): if the designated dimension has a
single position it is removed - the other axes stay, whole and in order - and the elements are the
same, addressed by the remaining names (both ways: nothing lost); otherwise `ValueError`. -/
theorem squeeze_axis_spec {α} (a : DimArray α) (hw : a.WF) (k : DimKey) (d : Nat) (hk : Resolves a k d)
    (ax : Axis) (hax : a.axes[d]? = some ax) :
    (ax.size = 1 →
      ∃ r, squeeze a (some k) = .ok r ∧ r.axes = a.axes.eraseIdx d ∧
        r.WF ∧ r.attrs = a.attrs ∧ r.vkind = a.vkind ∧
        SameOn r.dims a r ∧ SameOn r.dims r a) ∧
    (ax.size ≠ 1 → squeeze a (some k) = .error .value) := by
  have hd : d < a.axes.length := hk.1
  have hax' : ax = a.axes.getD d default := by
    rw [List.getD_eq_getElem?_getD, hax]; rfl
  subst hax'
  refine ⟨?_, squeeze_some_error a hw.2.1 k d hk⟩
  intro h1
  have hdl : d < a.vals.shape.length := by rw [hw.1]; simpa using hd
  have hs1 : a.vals.shape[d]? = some 1 := by
    rw [hw.1, List.getElem?_map, List.getElem?_eq_getElem hd, Option.map_some, ← axis_getD_eq a d hd, h1]
  refine ⟨squeezeAt a d, squeeze_some_ok a hw.2.1 k d hk h1, rfl, squeezeAt_wf a d hw, rfl, rfl, ?_, ?_⟩
  · rw [squeezeAt_dims]; exact squeezeAt_sameOn a d hw.2.1 hdl hs1
  · rw [squeezeAt_dims]; exact squeezeAt_sameOn_rev a d hw.2.1 hdl hs1

/-- **squeeze()**: all dimensions with a single position are removed, the others stay (whole, in
order); the elements are the same, addressed by the remaining names (both ways). Never fails. -/
theorem squeeze_all_spec {α} (a : DimArray α) (hw : a.WF) :
    ∃ r, squeeze a none = .ok r ∧ r.axes = a.axes.filter (fun ax => ax.size != 1) ∧
      r.WF ∧ r.attrs = a.attrs ∧ r.vkind = a.vkind ∧
      SameOn r.dims a r ∧ SameOn r.dims r a := by
  obtain ⟨h1, h2, h3⟩ := squeezeAll_sameOn a _ hw (squeeze_none_eq a)
  obtain ⟨h4, h5, h6⟩ := squeezeAll_wf a _ hw (squeeze_none_eq a)
  exact ⟨_, squeeze_none_eq a, h1, h4, h5, h6, h2, h3⟩

/-- **repeat(values, axis)**: only a dimension with a single position can be repeated
(`ValueError` otherwise).  The designated axis is replaced by the new labels under the same
dimension name, the other axes stay; every element of the result is the element of `a` at the same
coordinates along the *other* dimensions - so the result is constant along the repeated dimension
(replication) - and, when there is at least one new label, every element of `a` is found in the result. -/
theorem repeat_spec {α} (a : DimArray α) (hw : a.WF) (newax : Axis) (hpl : newax.members = [])
    (k : DimKey) (d : Nat) (hk : Resolves a k d) (ax : Axis) (hax : a.axes[d]? = some ax) :
    (ax.size = 1 →
      ∃ r, repeatAxis a newax k = .ok r ∧
        r.axes = a.axes.set d { newax with name := ax.name } ∧
        r.WF ∧ r.attrs = a.attrs ∧ r.vkind = a.vkind ∧
        SameOn (a.dims.eraseIdx d) a r ∧
        (∀ j j', InRange r.vals.shape j → InRange r.vals.shape j' →
          (∀ name ∈ a.dims.eraseIdx d, coordOf r.dims j name = coordOf r.dims j' name) →
          r.vals.get j = r.vals.get j') ∧
        (newax.labels ≠ [] → SameOn a.dims r a)) ∧
    (ax.size ≠ 1 → repeatAxis a newax k = .error .value) := by
  have hd : d < a.axes.length := hk.1
  have hax' : ax = a.axes.getD d default := by
    rw [List.getD_eq_getElem?_getD, hax]; rfl
  subst hax'
  refine ⟨?_, repeatAxis_error a hw.2.1 newax k d hk⟩
  intro h1
  have hs1 : a.vals.shape[d]? = some 1 := by
    rw [hw.1, List.getElem?_map, List.getElem?_eq_getElem hd, Option.map_some, ← axis_getD_eq a d hd, h1]
  have hso := repeatAt_sameOn a d newax hw.2.1 hs1
  refine ⟨repeatAt a d newax, repeatAxis_ok a hw.2.1 newax k d hk h1, rfl, repeatAt_wf a d newax hw hpl,
    rfl, rfl, hso, ?_, repeatAt_sameOn_rev a d newax hs1⟩
  intro j j' hj hj' hag
  apply sameOn_replicated a _ _ hw hso _ j j' hj hj' hag
  intro ax hax hnot
  -- an axis whose name is not among the other dimensions is the repeated one
  obtain ⟨m, hm, rfl⟩ := List.getElem_of_mem hax
  by_cases hmd : m = d
  · subst hmd; rw [← axis_getD_eq a m hm]; exact h1
  · exfalso
    apply hnot
    apply List.mem_eraseIdx_iff_getElem?.mpr
    exact ⟨m, hmd, by simp [DimArray.dims, List.getElem?_eq_getElem hm]⟩

/-- **newaxis(name, pos)** (`pos` a position `0 .. ndim`, or `-1` for the end): a new dimension
with the single label `None` is inserted at `pos`, the other axes stay (whole, in order); the
elements are the same, addressed by the old names (both ways).  A name already present: `ValueError`. -/
theorem newaxis_spec {α} (a : DimArray α) (hw : a.WF) (name : String) (hne : name ≠ "") (pos : Int) (p : Nat)
    (hp : p ≤ a.ndim) (hpos : pos = (p : Int) ∨ (pos < 0 ∧ pos + (a.ndim : Int) + 1 = (p : Int))) :
    (name ∉ a.dims →
      ∃ r, newaxis a name pos none = .ok r ∧ r.axes = a.axes.insertIdx p (noneAxis name) ∧
        r.WF ∧ r.attrs = a.attrs ∧ r.vkind = a.vkind ∧
        SameOn a.dims a r ∧ SameOn a.dims r a) ∧
    (name ∈ a.dims → ∀ v, newaxis a name pos v = .error .value) := by
  refine ⟨?_, fun h v => newaxis_dup_error a name pos v h⟩
  intro hnew
  have hp' : p ≤ a.axes.length := hp
  have hpl : p ≤ a.vals.shape.length := by rw [hw.1]; simpa using hp'
  obtain ⟨s1, s2⟩ := insertAt_sameOn a p (noneAxis name) hw.2.1 hpl hnew
  exact ⟨insertAt a p (noneAxis name), newaxis_none_ok a name pos p hnew hp hpos, rfl,
    insertAt_wf a p (noneAxis name) hw hnew hne rfl, rfl, rfl, s1, s2⟩

/-- **newaxis(name, values, pos)**: the new dimension carries the given labels and the array is
replicated along it: every element of the result is the element of `a` at the same coordinates
along `a`'s dimensions, whatever the position along the new dimension. -/
theorem newaxis_values_spec {α} (a : DimArray α) (hw : a.WF) (name : String) (hne : name ≠ "") (pos : Int) (p : Nat)
    (v : Axis) (hpl : v.members = [])
    (hp : p ≤ a.ndim) (hpos : pos = (p : Int) ∨ (pos < 0 ∧ pos + (a.ndim : Int) + 1 = (p : Int))) (hnew : name ∉ a.dims) :
    ∃ r, newaxis a name pos (some v) = .ok r ∧ r.axes = a.axes.insertIdx p { v with name := name } ∧
      r.WF ∧ r.attrs = a.attrs ∧ r.vkind = a.vkind ∧
      SameOn a.dims a r ∧ (v.labels ≠ [] → SameOn a.dims r a) := by
  have hp' : p ≤ a.axes.length := hp
  have hpl' : p ≤ a.vals.shape.length := by rw [hw.1]; simpa using hp'
  obtain ⟨s1, s2⟩ := insertAt_sameOn a p (noneAxis name) hw.2.1 hpl' hnew
  have hwo := insertAt_wf a p (noneAxis name) hw hnew hne rfl
  have hres : Resolves (insertAt a p (noneAxis name)) (.pos p) p := by
    refine ⟨?_, Or.inl rfl⟩
    show p < (a.axes.insertIdx p (noneAxis name)).length
    rw [List.length_insertIdx_of_le_length hp']; omega
  have hax : (insertAt a p (noneAxis name)).axes.getD p default = noneAxis name := by
    show (a.axes.insertIdx p (noneAxis name)).getD p default = _
    rw [List.getD_eq_getElem?_getD, List.getElem?_insertIdx_self, if_pos hp']; rfl
  have hsz : ((insertAt a p (noneAxis name)).axes.getD p default).size = 1 := by rw [hax]; rfl
  have hs1 : (insertAt a p (noneAxis name)).vals.shape[p]? = some 1 := by
    show (a.vals.shape.insertIdx p 1)[p]? = some 1
    rw [List.getElem?_insertIdx_self, if_pos hpl']
  have he : (insertAt a p (noneAxis name)).dims.eraseIdx p = a.dims := by
    rw [insertAt_dims, List.eraseIdx_insertIdx_self]
  have r1 := repeatAt_sameOn (insertAt a p (noneAxis name)) p v hwo.2.1 hs1
  rw [he] at r1
  refine ⟨repeatAt (insertAt a p (noneAxis name)) p v, ?_, ?_, repeatAt_wf _ p v hwo hpl, rfl, rfl,
    s1.trans r1, ?_⟩
  · rw [newaxis_some_eq a name pos p v hnew hp hpos]
    exact repeatAxis_ok _ hwo.2.1 v (.pos p) p hres hsz
  · show (a.axes.insertIdx p (noneAxis name)).set p { v with name := ((insertAt a p (noneAxis name)).axes.getD p default).name } = _
    rw [hax, set_insertIdx_self]; rfl
  · intro hv
    have r2 := repeatAt_sameOn_rev (insertAt a p (noneAxis name)) p v hs1 hv
    have : ∀ x ∈ a.dims, x ∈ (insertAt a p (noneAxis name)).dims := by
      intro x hx
      rw [← he] at hx
      exact mem_of_mem_eraseIdx' hx
    exact (r2.mono this).trans s2

/-! ### broadcast, end to end

`a.broadcast(target)` with the target given as a list of axes.  Hypotheses: plain (ungrouped) axes on
both sides, distinct target names, and target names that the library does not read as grouped names
(`PlainName`: not empty, no comma).  `properDims a` are the names of `a`'s dimensions that do not
have exactly one position; `bcastAxis a t` (`DimModel/Spec/C10.lean`) is the axis the result gets
for the target axis `t`. -/

/-- **broadcast.**  It succeeds exactly when every dimension of `a` that the target lacks has a
single position (it is squeezed away); otherwise `ValueError`.  On success:
* the result's dimensions are the target's, in the target's order;
* the axis at the place of the target axis `t` is `bcastAxis a t`: a fresh axis with the target's name
  and labels (`t.bare` - the target's metadata is not taken over) when `a` has no dimension of that
  name, or when `a`'s has a single label and the target's has not; `a`'s own axis
  (whole: labels, kind, metadata - *not* compared with the target's labels) otherwise;
* metadata and value kind are kept, the result is well formed;
* every element of the result is the element of `a` at the same coordinate along each of `a`'s
  dimensions with more than one position (`a`'s other dimensions have a single position, so the
  index into `a` is fully determined);
* hence replication: two positions of the result that agree along those dimensions hold the same
  value - the result is constant along every dimension `a` lacks and along every repeated one. -/
theorem broadcast_spec {α} (a : DimArray α) (hw : a.WF) (hpa : PlainAxes a.axes) (target : List Axis)
    (hpt : PlainAxes target) (hnd : (target.map (·.name)).Nodup) (hpn : ∀ t ∈ target, PlainName t.name) :
    ((∀ ax ∈ a.axes, ax.name ∉ target.map (·.name) → ax.size = 1) →
      ∃ r, broadcast a target = .ok r ∧ r.dims = target.map (·.name) ∧
        (∀ (k : Nat) (t : Axis), target[k]? = some t → r.axes[k]? = some (bcastAxis a t)) ∧
        r.WF ∧ r.attrs = a.attrs ∧ r.vkind = a.vkind ∧
        SameOn (properDims a) a r ∧
        (∀ j j', InRange r.vals.shape j → InRange r.vals.shape j' →
          (∀ name ∈ properDims a, coordOf r.dims j name = coordOf r.dims j' name) →
          r.vals.get j = r.vals.get j')) ∧
    ((∃ ax ∈ a.axes, ax.name ∉ target.map (·.name) ∧ ax.size ≠ 1) → broadcast a target = .error .value) := by
  refine ⟨?_, broadcast_error a hw hpa target hnd hpn⟩
  intro hfit
  obtain ⟨r, h1, h2, h3, h4, h5, h6, h7⟩ := broadcast_ok a hw hpa target hpt hnd hpn hfit
  refine ⟨r, h1, h2, h3, h4, h5, h6, h7, ?_⟩
  intro j j' hj hj' hag
  apply sameOn_replicated a r _ hw h7 _ j j' hj hj' hag
  intro ax hax hnot
  exact Classical.byContradiction fun hne => hnot ((mem_properDims a _).mpr ⟨ax, hax, hne, rfl⟩)

/-- in `SameOn names a r` the index into `a` is unique as soon as the dimensions of `a` outside
`names` have a single position (used for squeeze / repeat / broadcast): the coordinates along
`names` are prescribed and the other in-range coordinates can only be 0. -/
theorem sameOn_unique {α} (a : DimArray α) (hw : a.WF) (names : List String)
    (hsing : ∀ ax ∈ a.axes, ax.name ∉ names → ax.size = 1) (i i' : List Nat)
    (hi : InRange a.vals.shape i) (hi' : InRange a.vals.shape i')
    (h : ∀ name ∈ names, coordOf a.dims i name = coordOf a.dims i' name) : i = i' := by
  -- instance of the replication argument with `r := a`
  obtain ⟨hs, hn, _⟩ := hw
  have hn : a.dims.Nodup := hn
  have hil := inRange_length' _ _ hi
  have hil' := inRange_length' _ _ hi'
  apply List.ext_getElem?
  intro k
  by_cases hk : k < a.axes.length
  · have hkd : k < a.dims.length := by simpa [DimArray.dims] using hk
    by_cases hN : a.dims[k] ∈ names
    · have e := h _ hN
      unfold coordOf at e
      rwa [idxOf_getElem_nodup hn k hkd] at e
    · have h1 : a.axes[k].size = 1 := by
        apply hsing _ (List.getElem_mem hk)
        have : a.axes[k].name = a.dims[k] := by simp [DimArray.dims]
        rw [this]; exact hN
      have hsk : a.vals.shape[k]? = some 1 := by
        rw [hs, List.getElem?_map, List.getElem?_eq_getElem hk, Option.map_some, h1]
      obtain ⟨x, hx, hxl⟩ := inRange_getElem? _ _ k 1 hi hsk
      obtain ⟨x', hx', hxl'⟩ := inRange_getElem? _ _ k 1 hi' hsk
      rw [hx, hx']
      congr 1; omega
  · have hsl : a.vals.shape.length = a.axes.length := by rw [hs]; simp
    rw [List.getElem?_eq_none (by omega), List.getElem?_eq_none (by omega)]

/-! ### non-vacuity: the hypotheses of the end-to-end theorems on a concrete 3-d array -/

/-- a 3-d test array: x (2 labels), y (3 labels, with axis metadata), z (1 label); the element at
`[i, j, k]` is its flat position -/
def exC10 : DimArray Nat :=
  { axes := [{ name := "x", labels := [.num 1, .num 2], kind := .i },
             { name := "y", labels := [.str "a", .str "b", .str "c"], kind := .U, attrs := [("units", 1)] },
             { name := "z", labels := [.num 7], kind := .f }]
    vals := { shape := [2, 3, 1], get := fun j => ravel [2, 3, 1] j }
    attrs := [("title", 5)] }

theorem exC10_wf : exC10.WF := ⟨rfl, by decide, by decide⟩

/-- transpose by names: a rearrangement of the names succeeds ... -/
example : ∃ r, transpose exC10 (some [.name "z", .name "x", .name "y"]) = .ok r ∧
    r.dims = ["z", "x", "y"] ∧ Rearranged exC10 r :=
  (transpose_names_spec exC10 exC10_wf ["z", "x", "y"] (by decide)).1 (by decide)

/-- ... and a list that is not a rearrangement of all names raises `ValueError` -/
example : transpose exC10 (some [.name "z", .name "x"]) = .error .value :=
  (transpose_names_spec exC10 exC10_wf ["z", "x"] (by decide)).2 (by decide)

example : transpose exC10 (some [.name "z", .name "x", .name "x"]) = .error .value :=
  (transpose_names_spec exC10 exC10_wf ["z", "x", "x"] (by decide)).2 (by decide)

/-- keys resolve: a name, a negative position, a position -/
example : Resolves exC10 (.name "z") 2 ∧ Resolves exC10 (.pos (-3)) 0 ∧ Resolves exC10 (.pos 1) 1 :=
  ⟨⟨by decide, rfl⟩, ⟨by decide, Or.inr (by decide)⟩, ⟨by decide, Or.inl rfl⟩⟩

/-- transpose by a mix of name / negative position / position -/
example : ∃ r, transpose exC10 (some [.name "z", .pos (-3), .pos 1]) = .ok r ∧
    (∀ k (hk : k < 3), r.axes[k]? = exC10.axes[[2, 0, 1][k]]?) ∧
    r.dims = ["z", "x", "y"] ∧ Rearranged exC10 r := by
  have h := transpose_keys_spec exC10 exC10_wf [.name "z", .pos (-3), .pos 1] (by decide) [2, 0, 1]
    ⟨rfl, by decide, by decide⟩ rfl (by
      intro k h1 h2
      have : k = 0 ∨ k = 1 ∨ k = 2 := by simp at h1; omega
      rcases this with rfl | rfl | rfl
      · show Resolves exC10 (.name "z") 2
        exact ⟨by decide, rfl⟩
      · show Resolves exC10 (.pos (-3)) 0
        exact ⟨by decide, Or.inr (by decide)⟩
      · show Resolves exC10 (.pos 1) 1
        exact ⟨by decide, Or.inl rfl⟩)
  exact h

/-- default transpose: the 3-d array is refused, its 2-d squeeze is reversed -/
example : transpose exC10 none = .error .value := (transpose_default_spec exC10 exC10_wf).2.2 (by decide)

/-- swapaxes by a name and a negative position -/
example : ∃ r, swapaxes exC10 (.name "x") (.pos (-1)) = .ok r ∧
    r.axes[0]? = exC10.axes[2]? ∧ r.axes[2]? = exC10.axes[0]? ∧
    (∀ k, k ≠ 0 → k ≠ 2 → r.axes[k]? = exC10.axes[k]?) ∧ r.axes.length = exC10.axes.length ∧
    Rearranged exC10 r :=
  swapaxes_spec exC10 exC10_wf (.name "x") (.pos (-1)) 0 2 ⟨by decide, rfl⟩ ⟨by decide, Or.inr (by decide)⟩

/-- rollaxis of `z` to the front, and to the position counted from the end -/
example : ∃ r, rollaxis exC10 (.name "z") 0 = .ok r ∧
    r.axes = (exC10.axes.eraseIdx 2).insertIdx (rollDest 2 0) { name := "z", labels := [.num 7], kind := .f } ∧
    Rearranged exC10 r :=
  rollaxis_spec exC10 exC10_wf (.name "z") 0 2 0 ⟨by decide, rfl⟩ (Or.inl ⟨rfl, by decide⟩) _ rfl

example : ∃ r, rollaxis exC10 (.pos 0) (-1) = .ok r ∧
    r.axes = (exC10.axes.eraseIdx 0).insertIdx (rollDest 0 2) { name := "x", labels := [.num 1, .num 2], kind := .i } ∧
    Rearranged exC10 r :=
  rollaxis_spec exC10 exC10_wf (.pos 0) (-1) 0 2 ⟨by decide, Or.inl rfl⟩ (Or.inr ⟨by decide, by decide⟩) _ rfl

/-- squeeze: `z` has a single position, `x` has not -/
example : ∃ r, squeeze exC10 (some (.name "z")) = .ok r ∧ r.axes = exC10.axes.eraseIdx 2 ∧
    r.WF ∧ r.attrs = exC10.attrs ∧ r.vkind = exC10.vkind ∧ SameOn r.dims exC10 r ∧ SameOn r.dims r exC10 :=
  (squeeze_axis_spec exC10 exC10_wf (.name "z") 2 ⟨by decide, rfl⟩ _ rfl).1 (by decide)

example : squeeze exC10 (some (.pos 0)) = .error .value :=
  (squeeze_axis_spec exC10 exC10_wf (.pos 0) 0 ⟨by decide, Or.inl rfl⟩ _ rfl).2 (by decide)

/-- repeat `z` three times -/
example : ∃ r, repeatAxis exC10 { name := "whatever", labels := [.num 1, .num 2, .num 3], kind := .i } (.pos (-1)) = .ok r ∧
    r.axes = exC10.axes.set 2 { name := "z", labels := [.num 1, .num 2, .num 3], kind := .i } := by
  obtain ⟨r, h1, h2, _⟩ := (repeat_spec exC10 exC10_wf
    { name := "whatever", labels := [.num 1, .num 2, .num 3], kind := .i } rfl (.pos (-1)) 2
    ⟨by decide, Or.inr (by decide)⟩ _ rfl).1 (by decide)
  exact ⟨r, h1, h2⟩

/-- newaxis in the middle and at the end (`pos = -1`) -/
example : ∃ r, newaxis exC10 "t" 1 none = .ok r ∧ r.axes = exC10.axes.insertIdx 1 (noneAxis "t") := by
  obtain ⟨r, h1, h2, _⟩ := (newaxis_spec exC10 exC10_wf "t" (by decide) 1 1 (by decide) (Or.inl rfl)).1 (by decide)
  exact ⟨r, h1, h2⟩

example : ∃ r, newaxis exC10 "t" (-1) none = .ok r ∧ r.axes = exC10.axes.insertIdx 3 (noneAxis "t") := by
  obtain ⟨r, h1, h2, _⟩ := (newaxis_spec exC10 exC10_wf "t" (by decide) (-1) 3 (by decide) (Or.inr ⟨by decide, by decide⟩)).1 (by decide)
  exact ⟨r, h1, h2⟩

/-- a negative position counts from the end of the result's dimensions: -2 inserts before the last one -/
example : ∃ r, newaxis exC10 "t" (-2) none = .ok r ∧ r.axes = exC10.axes.insertIdx 2 (noneAxis "t") := by
  obtain ⟨r, h1, h2, _⟩ := (newaxis_spec exC10 exC10_wf "t" (by decide) (-2) 2 (by decide) (Or.inr ⟨by decide, by decide⟩)).1 (by decide)
  exact ⟨r, h1, h2⟩

/-- broadcast onto (w, y, z, x): `w` is new, `z` is repeated (1 label in `exC10`, 2 in the target),
`x` and `y` keep `exC10`'s axes.  The only hypothesis that the kernel cannot evaluate is that the
library's `String.splitOn` leaves the comma-free names alone; it is checked by `#guard` below. -/
def exC10Target : List Axis :=
  [{ name := "w", labels := [.num 0, .num 1], kind := .i },
   { name := "y", labels := [.str "a", .str "b", .str "c"], kind := .U },
   { name := "z", labels := [.num 7, .num 8], kind := .f },
   { name := "x", labels := [.num 1, .num 2], kind := .i }]

#guard exC10Target.all (fun t => decide (PlainName t.name))

example (hsplit : ∀ t ∈ exC10Target, PlainName t.name) :
    ∃ r, broadcast exC10 exC10Target = .ok r ∧ r.dims = ["w", "y", "z", "x"] ∧
      SameOn ["x", "y"] exC10 r := by
  obtain ⟨r, h1, h2, _, _, _, _, h7, _⟩ :=
    (broadcast_spec exC10 exC10_wf (by decide) exC10Target (by decide) (by decide) hsplit).1 (by decide)
  exact ⟨r, h1, h2, h7⟩

/-- a target that lacks the 3-label dimension `y` is refused -/
example (hsplit : ∀ t ∈ exC10Target.eraseIdx 1, PlainName t.name) :
    broadcast exC10 (exC10Target.eraseIdx 1) = .error .value :=
  (broadcast_spec exC10 exC10_wf (by decide) _ (by decide) (by decide) hsplit).2 (by decide)

/-! ### integer positions are validated (`_get_axis_info`: `self.axes[idx]`), the first bad key decides the error class

`KeyGood a k` (Proofs/C10Pos.lean): `k` is the name of a dimension of `a` or a position in `[-ndim, ndim)`; by
`keyGood_resolves` this is `∃ d, Resolves a k d`.  `keyErr k` is `ValueError` for a name (`tuple.index`) and `IndexError`
for a position (`list.__getitem__`). -/

theorem keyGood_resolves {α} (a : DimArray α) (k : DimKey) : KeyGood a k ↔ ∃ d, Resolves a k d :=
  keyGood_iff_resolves a k

/-- a position outside `[-ndim, ndim)` designates no dimension, whatever the rank -/
theorem pos_out_of_range_not_good {α} (a : DimArray α) (i : Int)
    (hr : i < -(a.ndim : Int) ∨ i ≥ (a.ndim : Int)) : ¬ KeyGood a (.pos i) := by
  intro h
  have h' : -(a.ndim : Int) ≤ i ∧ i < (a.ndim : Int) := h
  omega

/-- **transpose, keys examined left to right**: when the keys before `k` designate dimensions and `k` does not, the
call is refused with `k`'s error class (whatever follows: further bad keys, too few / too many keys, repetitions). -/
theorem transpose_first_bad_key {α} (a : DimArray α) (pre : List DimKey) (k : DimKey) (post : List DimKey)
    (hpre : ∀ x ∈ pre, ∃ d, Resolves a x d) (hk : ¬ ∃ d, Resolves a k d) :
    transpose a (some (pre ++ k :: post)) = .error (keyErr k) :=
  transpose_first_bad a pre k post (fun x hx => (keyGood_iff_resolves a x).mpr (hpre x hx))
    (fun h => hk ((keyGood_iff_resolves a k).mp h))

/-- **transpose refuses a position out of range**, for every rank and every array: the call fails, with `IndexError`
unless an unknown name comes first (`ValueError`); with known names only it is `IndexError`. -/
theorem transpose_pos_out_of_range {α} (a : DimArray α) (ks : List DimKey) (i : Int) (hi : DimKey.pos i ∈ ks)
    (hr : i < -(a.ndim : Int) ∨ i ≥ (a.ndim : Int)) :
    (transpose a (some ks) = .error .index ∨ transpose a (some ks) = .error .value) ∧
    ((∀ s, DimKey.name s ∈ ks → s ∈ a.dims) → transpose a (some ks) = .error .index) := by
  obtain ⟨pre, k, post, e, h1, h2⟩ := split_first_bad (KeyGood a) ks ⟨_, hi, pos_out_of_range_not_good a i hr⟩
  have ht := transpose_first_bad a pre k post h1 h2
  rw [← e] at ht
  refine ⟨?_, ?_⟩
  · rw [ht]; cases k <;> simp [keyErr]
  · intro hn
    rw [ht]
    cases k with
    | name s => exact absurd (hn s (by rw [e]; simp)) h2
    | pos j => rfl

/-- **transpose succeeds IFF the keys resolve to a permutation of the dimensions** (names, positions, negative
positions, mixed), and then the result is the one `transpose_keys_spec` describes. -/
theorem transpose_ok_iff {α} (a : DimArray α) (hn : a.dims.Nodup) (ks : List DimKey) (hne : ks ≠ []) :
    (∃ r, transpose a (some ks) = .ok r) ↔
      ∃ q, IsPerm q a.ndim ∧ ks.length = q.length ∧
        ∀ k (h1 : k < ks.length) (h2 : k < q.length), Resolves a ks[k] q[k] := by
  constructor
  · rintro ⟨r, hr⟩
    obtain ⟨q, h1, h2, h3, _⟩ := transpose_ok_inv a ks hne r hr
    exact ⟨q, h1, h2, h3⟩
  · rintro ⟨q, h1, h2, h3⟩
    exact ⟨_, transpose_keys_ok a hn ks hne q h1 h2 h3⟩

/-- **swapaxes refuses a position out of range**: as first operand always with `IndexError`; as second operand with
`IndexError` when the first operand designates a dimension (else the first operand's error class). -/
theorem swapaxes_pos_out_of_range {α} (a : DimArray α) (k : DimKey) (i : Int)
    (hr : i < -(a.ndim : Int) ∨ i ≥ (a.ndim : Int)) :
    swapaxes a (.pos i) k = .error .index ∧
    ((∃ d, Resolves a k d) → swapaxes a k (.pos i) = .error .index) ∧
    ((¬ ∃ d, Resolves a k d) → swapaxes a k (.pos i) = .error (keyErr k)) := by
  have hb := pos_out_of_range_not_good a i hr
  refine ⟨(swapaxes_first_bad a (.pos i) k).1 hb, fun hk => ?_, fun hk => ?_⟩
  · exact (swapaxes_first_bad a k (.pos i)).2 ((keyGood_iff_resolves a k).mpr hk) hb
  · exact (swapaxes_first_bad a k (.pos i)).1 (fun h => hk ((keyGood_iff_resolves a k).mp h))

/-- **swapaxes succeeds IFF both keys designate dimensions** -/
theorem swapaxes_ok_iff {α} (a : DimArray α) (hn : a.dims.Nodup) (k1 k2 : DimKey) :
    (∃ r, swapaxes a k1 k2 = .ok r) ↔ (∃ d1, Resolves a k1 d1) ∧ (∃ d2, Resolves a k2 d2) := by
  constructor
  · rintro ⟨r, hr⟩
    by_cases h1 : KeyGood a k1
    · by_cases h2 : KeyGood a k2
      · exact ⟨(keyGood_iff_resolves a k1).mp h1, (keyGood_iff_resolves a k2).mp h2⟩
      · rw [(swapaxes_first_bad a k1 k2).2 h1 h2] at hr; cases hr
    · rw [(swapaxes_first_bad a k1 k2).1 h1] at hr; cases hr
  · rintro ⟨⟨d1, h1⟩, ⟨d2, h2⟩⟩
    exact ⟨_, swapaxes_ok a hn k1 k2 d1 d2 h1 h2⟩

/-- **rollaxis refuses a position out of range** with `IndexError`, whatever `start` is; and a `start` outside
`[-ndim, ndim]` with NumPy's `AxisError` (an `IndexError`) when the axis designates a dimension. -/
theorem rollaxis_pos_out_of_range {α} (a : DimArray α) (i : Int) (start : Int)
    (hr : i < -(a.ndim : Int) ∨ i ≥ (a.ndim : Int)) : rollaxis a (.pos i) start = .error .index :=
  rollaxis_bad_key a (.pos i) start (pos_out_of_range_not_good a i hr)

theorem rollaxis_start_out_of_range {α} (a : DimArray α) (k : DimKey) (start : Int) (hk : ∃ d, Resolves a k d)
    (hs : start < -(a.ndim : Int) ∨ start > (a.ndim : Int)) : rollaxis a k start = .error .index :=
  rollaxis_bad_start a k start ((keyGood_iff_resolves a k).mpr hk) hs

/-- **rollaxis succeeds IFF the key designates a dimension and `start` lies in `[-ndim, ndim]`** -/
theorem rollaxis_ok_iff {α} (a : DimArray α) (hn : a.dims.Nodup) (k : DimKey) (start : Int) :
    (∃ r, rollaxis a k start = .ok r) ↔
      (∃ d, Resolves a k d) ∧ -(a.ndim : Int) ≤ start ∧ start ≤ (a.ndim : Int) := by
  constructor
  · rintro ⟨r, hr⟩
    by_cases h1 : KeyGood a k
    · refine ⟨(keyGood_iff_resolves a k).mp h1, ?_⟩
      apply Classical.byContradiction
      intro hs
      rw [rollaxis_bad_start a k start h1 (by omega)] at hr
      cases hr
    · rw [rollaxis_bad_key a k start h1] at hr; cases hr
  · rintro ⟨⟨d, hd⟩, hs1, hs2⟩
    by_cases c : start < 0
    · exact ⟨_, rollaxis_ok a hn k start d (start + (a.ndim : Int)).toNat hd (Or.inr ⟨by omega, by omega⟩)⟩
    · exact ⟨_, rollaxis_ok a hn k start d start.toNat hd (Or.inl ⟨by omega, by omega⟩)⟩

/-- **squeeze(axis) / repeat(values, axis) refuse a position out of range** with `IndexError` -/
theorem squeeze_pos_out_of_range {α} (a : DimArray α) (i : Int)
    (hr : i < -(a.ndim : Int) ∨ i ≥ (a.ndim : Int)) : squeeze a (some (.pos i)) = .error .index := by
  have := axisPos_pos_out_of_range a.axes i hr
  simp only [squeeze, this, bind, Except.bind]

theorem repeat_pos_out_of_range {α} (a : DimArray α) (newax : Axis) (i : Int)
    (hr : i < -(a.ndim : Int) ∨ i ≥ (a.ndim : Int)) : repeatAxis a newax (.pos i) = .error .index := by
  have := axisPos_pos_out_of_range a.axes i hr
  simp only [repeatAxis, this, bind, Except.bind]

/-- **squeeze(axis) succeeds IFF the key designates a dimension with a single label** (otherwise: the key's error class
for a key that designates nothing, `ValueError` for a longer dimension) -/
theorem squeeze_ok_iff {α} (a : DimArray α) (hn : a.dims.Nodup) (k : DimKey) :
    (∃ r, squeeze a (some k) = .ok r) ↔ ∃ d, Resolves a k d ∧ (a.axes.getD d default).size = 1 := by
  by_cases hg : KeyGood a k
  · obtain ⟨d, hd⟩ := (keyGood_iff_resolves a k).mp hg
    have hp := axisPos_good a k d hd hn
    by_cases hs : (a.axes.getD d default).size = 1
    · have hs2 : (a.axes[d]?.getD default).size = 1 := by rw [← List.getD_eq_getElem?_getD]; exact hs
      refine ⟨fun _ => ⟨d, hd, hs⟩, fun _ => ?_⟩
      simp [squeeze, hp, bind, Except.bind, hs2, pure, Except.pure]
    · have hs2 : ¬ (a.axes[d]?.getD default).size = 1 := by rw [← List.getD_eq_getElem?_getD]; exact hs
      refine ⟨fun ⟨r, hr⟩ => ?_, fun ⟨d', hd', hs'⟩ => ?_⟩
      · simp [squeeze, hp, bind, Except.bind, hs2] at hr
      · have := axisPos_good a k d' hd' hn
        rw [hp] at this
        cases this
        exact absurd hs' hs
  · have hp := axisPos_bad a k hg
    refine ⟨fun ⟨r, hr⟩ => ?_, fun ⟨d, hd, _⟩ => absurd ((keyGood_iff_resolves a k).mpr ⟨d, hd⟩) hg⟩
    simp [squeeze, hp, bind, Except.bind] at hr

/-- **repeat succeeds IFF the key designates a dimension with a single label** -/
theorem repeat_ok_iff {α} (a : DimArray α) (hn : a.dims.Nodup) (newax : Axis) (k : DimKey) :
    (∃ r, repeatAxis a newax k = .ok r) ↔ ∃ d, Resolves a k d ∧ (a.axes.getD d default).size = 1 := by
  by_cases hg : KeyGood a k
  · obtain ⟨d, hd⟩ := (keyGood_iff_resolves a k).mp hg
    have hp := axisPos_good a k d hd hn
    by_cases hs : (a.axes.getD d default).size = 1
    · have hs2 : (a.axes[d]?.getD default).size = 1 := by rw [← List.getD_eq_getElem?_getD]; exact hs
      refine ⟨fun _ => ⟨d, hd, hs⟩, fun _ => ?_⟩
      simp [repeatAxis, hp, bind, Except.bind, hs2, pure, Except.pure]
    · have hs2 : ¬ (a.axes[d]?.getD default).size = 1 := by rw [← List.getD_eq_getElem?_getD]; exact hs
      refine ⟨fun ⟨r, hr⟩ => ?_, fun ⟨d', hd', hs'⟩ => ?_⟩
      · simp [repeatAxis, hp, bind, Except.bind, hs2] at hr
      · have := axisPos_good a k d' hd' hn
        rw [hp] at this
        cases this
        exact absurd hs' hs
  · have hp := axisPos_bad a k hg
    refine ⟨fun ⟨r, hr⟩ => ?_, fun ⟨d, hd, _⟩ => absurd ((keyGood_iff_resolves a k).mpr ⟨d, hd⟩) hg⟩
    simp [repeatAxis, hp, bind, Except.bind] at hr

/-- **the three spellings of a dimension**: dimension `d` (of `ndim`) named `s` is designated by the position `d`, by
the negative position `d - ndim` and by the name `s` -/
theorem resolves_spellings {α} (a : DimArray α) (d : Nat) (hd : d < a.ndim) (s : String) (hs : a.dims[d]? = some s) :
    Resolves a (.pos (d : Int)) d ∧ Resolves a (.pos ((d : Int) - (a.ndim : Int))) d ∧ Resolves a (.name s) d :=
  ⟨⟨hd, Or.inl rfl⟩, ⟨hd, Or.inr rfl⟩, ⟨hd, hs⟩⟩

/-- **a valid negative position `d - ndim` is interchangeable with `d` and with the dimension's name** in swapaxes
(either operand), rollaxis (every `start`, refused ones included), squeeze and repeat: the calls give the same outcome. -/
theorem neg_position_interchangeable {α} (a : DimArray α) (hw : a.WF) (d : Nat) (hd : d < a.ndim) (s : String)
    (hs : a.dims[d]? = some s) (k k' : DimKey)
    (hk : k = .pos (d : Int) ∨ k = .pos ((d : Int) - (a.ndim : Int)) ∨ k = .name s)
    (hk' : k' = .pos (d : Int) ∨ k' = .pos ((d : Int) - (a.ndim : Int)) ∨ k' = .name s) :
    (∀ k2 d2, Resolves a k2 d2 → swapaxes a k k2 = swapaxes a k' k2 ∧ swapaxes a k2 k = swapaxes a k2 k') ∧
    (∀ start, rollaxis a k start = rollaxis a k' start) ∧
    squeeze a (some k) = squeeze a (some k') ∧
    (∀ newax, repeatAxis a newax k = repeatAxis a newax k') := by
  obtain ⟨r1, r2, r3⟩ := resolves_spellings a d hd s hs
  have hr : Resolves a k d := by rcases hk with rfl | rfl | rfl <;> assumption
  have hr' : Resolves a k' d := by rcases hk' with rfl | rfl | rfl <;> assumption
  have hp := axisPos_good a k d hr hw.2.1
  have hp' := axisPos_good a k' d hr' hw.2.1
  refine ⟨fun k2 d2 h2 => ⟨swapaxes_keys_interchangeable a hw k k2 k' k2 d d2 hr h2 hr' h2,
    swapaxes_keys_interchangeable a hw k2 k k2 k' d2 d h2 hr h2 hr'⟩, fun start => ?_, ?_, fun newax => ?_⟩
  · by_cases c : -(a.ndim : Int) ≤ start ∧ start ≤ (a.ndim : Int)
    · by_cases c0 : start < 0
      · rw [rollaxis_ok a hw.2.1 k start d (start + (a.ndim : Int)).toNat hr (Or.inr ⟨by omega, by omega⟩),
          rollaxis_ok a hw.2.1 k' start d (start + (a.ndim : Int)).toNat hr' (Or.inr ⟨by omega, by omega⟩)]
      · rw [rollaxis_ok a hw.2.1 k start d start.toNat hr (Or.inl ⟨by omega, by omega⟩),
          rollaxis_ok a hw.2.1 k' start d start.toNat hr' (Or.inl ⟨by omega, by omega⟩)]
    · rw [rollaxis_bad_start a k start ((keyGood_iff_resolves a k).mpr ⟨d, hr⟩) (by omega),
        rollaxis_bad_start a k' start ((keyGood_iff_resolves a k').mpr ⟨d, hr'⟩) (by omega)]
  · simp only [squeeze, hp, hp']
  · simp only [repeatAxis, hp, hp']

/-- the same for transpose: in a request whose keys resolve to a permutation, any key may be respelled -/
theorem transpose_neg_position_interchangeable {α} (a : DimArray α) (hw : a.WF) (ks : List DimKey) (hne : ks ≠ [])
    (q : List Nat) (hq : IsPerm q a.ndim) (hl : ks.length = q.length)
    (h : ∀ k (h1 : k < ks.length) (h2 : k < q.length), Resolves a ks[k] q[k])
    (j : Nat) (hj : j < q.length) (s : String) (hs : a.dims[q[j]]? = some s) :
    transpose a (some ks) = transpose a (some (ks.set j (.pos (q[j] : Int)))) ∧
    transpose a (some ks) = transpose a (some (ks.set j (.pos ((q[j] : Int) - (a.ndim : Int))))) ∧
    transpose a (some ks) = transpose a (some (ks.set j (.name s))) := by
  have hd : q[j] < a.ndim := hq.2.2 _ (List.getElem_mem hj)
  obtain ⟨r1, r2, r3⟩ := resolves_spellings a q[j] hd s hs
  have key : ∀ k', Resolves a k' q[j] → transpose a (some ks) = transpose a (some (ks.set j k')) := by
    intro k' hk'
    apply transpose_keys_interchangeable a hw ks (ks.set j k') hne q hq hl (by simpa using hl) h
    intro k h1 h2
    rw [List.getElem_set]
    split
    · rename_i e; subst e; exact hk'
    · exact h k (by simpa using h1) h2
  exact ⟨key _ r1, key _ r2, key _ r3⟩

/-! ### positions out of range, on the concrete array -/

example : swapaxes exC10 (.pos 7) (.pos 9) = .error .index :=
  (swapaxes_pos_out_of_range exC10 (.pos 9) 7 (by decide)).1

example : transpose exC10 (some [.pos 7, .pos 0, .pos 1]) = .error .index :=
  (transpose_pos_out_of_range exC10 _ 7 (by simp) (by decide)).2 (by simp)

/-- the order of detection: an unknown name BEFORE the bad position gives `ValueError`, after it `IndexError` -/
example : transpose exC10 (some [.name "q", .pos 7, .pos 1]) = .error .value ∧
    transpose exC10 (some [.pos 7, .name "q", .pos 1]) = .error .index :=
  ⟨transpose_first_bad exC10 [] (.name "q") [.pos 7, .pos 1] (fun _ hx => by cases hx) (by decide),
   transpose_first_bad exC10 [] (.pos 7) [.name "q", .pos 1] (fun _ hx => by cases hx) (by decide)⟩

/-- `*_ok_iff` is not vacuous: a mixed request that resolves to the permutation `[2, 0, 1]` -/
example : ∃ r, transpose exC10 (some [.name "z", .pos (-3), .pos 1]) = .ok r :=
  (transpose_ok_iff exC10 exC10_wf.2.1 _ (by simp)).mpr ⟨[2, 0, 1], ⟨rfl, by decide, by decide⟩, rfl, by
    intro k h1 h2
    have : k = 0 ∨ k = 1 ∨ k = 2 := by simp at h1; omega
    rcases this with rfl | rfl | rfl
    · show Resolves exC10 (.name "z") 2
      exact ⟨by decide, rfl⟩
    · show Resolves exC10 (.pos (-3)) 0
      exact ⟨by decide, Or.inr (by decide)⟩
    · show Resolves exC10 (.pos 1) 1
      exact ⟨by decide, Or.inl rfl⟩⟩

/-- a request that designates the same dimension twice does not resolve to a permutation: refused -/
example : ¬ ∃ r, swapaxes exC10 (.pos 3) (.name "x") = .ok r := by
  rw [swapaxes_ok_iff exC10 exC10_wf.2.1]
  rintro ⟨⟨d, hd, h⟩, _⟩
  have h' : (3 : Int) = (d : Int) ∨ (3 : Int) = (d : Int) - (exC10.ndim : Int) := h
  have : exC10.ndim = 3 := rfl
  omega

/-- the hypothesis `a.dims.Nodup` of `swapaxes_ok` / the `*_ok_iff` theorems is needed: with a dimension name twice,
the name designates the second dimension too (`Resolves`) but the library takes the first one (`dims.index`), and
`squeeze_ok_iff` fails: dimension 1 is designated by "x" and has one label, yet the call is refused -/
theorem squeeze_ok_iff_counterexample :
    let a : DimArray Nat := { axes := [{ name := "x", labels := [.num 1, .num 2], kind := .i }, { name := "x", labels := [.num 1], kind := .i }],
                              vals := { shape := [2, 1], get := fun _ => 0 }, vkind := .i }
    (∃ d, Resolves a (.name "x") d ∧ (a.axes.getD d default).size = 1) ∧
    squeeze a (some (.name "x")) = .error .value := by
  exact ⟨⟨1, ⟨by decide, rfl⟩, rfl⟩, rfl⟩

end DimModel

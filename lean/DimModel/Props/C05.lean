/-
C05 - property theorems: every array the model's constructors and operations produce is
well-formed; all documented ways of specifying the same axes build the same axes; data whose
shape disagrees with the axes, and duplicate dimension names, are rejected.
-/
import DimModel.Lib.Init
import DimModel.Props.C01
import DimModel.Props.C07
import DimModel.Proofs.C05WF
import DimModel.Proofs.C05WFDs
import DimModel.Proofs.C04String
import DimModel.Props.C10
import DimModel.Props.C11
import DimModel.Proofs.C05Cache
import DimModel.Proofs.C05Bisim
import DimModel.Proofs.C05Grouped
namespace DimModel
open Lib

/-! ### constructors -/

theorem appendStep_ok (acc : List Axis) (ax : Axis) (h1 : ax.name ≠ "") (h2 : ∀ b ∈ acc, b.name ≠ ax.name) :
    appendStep acc ax = .ok (acc ++ [ax]) := by
  unfold appendStep
  have e1 : (ax.name == "") = false := by simpa using h1
  have e2 : acc.any (·.name == ax.name) = false := by
    rw [List.any_eq_false]; intro b hb; simpa using h2 b hb
  simp [e1, e2]

theorem appendStep_cases (acc : List Axis) (ax : Axis) :
    (appendStep acc ax = .ok (acc ++ [ax]) ∧ ax.name ≠ "" ∧ ∀ b ∈ acc, b.name ≠ ax.name) ∨
    (appendStep acc ax = .error .value ∧ (ax.name = "" ∨ ∃ b ∈ acc, b.name = ax.name)) := by
  by_cases h1 : ax.name = ""
  · right; exact ⟨by simp [appendStep, h1], Or.inl h1⟩
  · by_cases h2 : ∃ b ∈ acc, b.name = ax.name
    · right
      refine ⟨?_, Or.inr h2⟩
      obtain ⟨b, hb, hbn⟩ := h2
      have : acc.any (·.name == ax.name) = true := by
        rw [List.any_eq_true]; exact ⟨b, hb, by simpa using hbn⟩
      simp [appendStep, h1, this]
    · left
      have h2' : ∀ b ∈ acc, b.name ≠ ax.name := fun b hb hbn => h2 ⟨b, hb, hbn⟩
      exact ⟨appendStep_ok acc ax h1 h2', h1, h2'⟩

/-- the accumulator loop of `Axes.append` -/
theorem appendAll_go (axes acc : List Axis) :
    (axes.foldlM appendStep acc = .ok (acc ++ axes)) ↔
    ((axes.map (·.name)).Nodup ∧ (∀ ax ∈ axes, ax.name ≠ "") ∧ ∀ ax ∈ axes, ∀ b ∈ acc, b.name ≠ ax.name) := by
  induction axes generalizing acc with
  | nil => simp [List.foldlM, pure, Except.pure]
  | cons ax rest ih =>
    rw [List.foldlM_cons]
    rcases appendStep_cases acc ax with ⟨hs, hne, hacc⟩ | ⟨hs, hbad⟩
    · rw [hs]
      show (rest.foldlM appendStep (acc ++ [ax]) = _) ↔ _
      have := ih (acc ++ [ax])
      simp only [List.append_assoc, List.singleton_append] at this
      rw [this]
      simp only [List.map_cons, List.nodup_cons, List.mem_map, List.mem_cons, List.mem_append,
        List.mem_singleton, List.not_mem_nil, or_false]
      constructor
      · rintro ⟨hn, hne', h3⟩
        refine ⟨⟨?_, hn⟩, ?_, ?_⟩
        · rintro ⟨b, hb, hbn⟩
          exact h3 b hb ax (Or.inr rfl) hbn.symm
        · rintro a (rfl | ha)
          · exact hne
          · exact hne' a ha
        · rintro a (rfl | ha) b hb
          · exact hacc b hb
          · exact h3 a ha b (Or.inl hb)
      · rintro ⟨⟨hnot, hn⟩, hne', h3⟩
        refine ⟨hn, fun a ha => hne' a (Or.inr ha), ?_⟩
        rintro a ha b (hb | rfl)
        · exact h3 a (Or.inr ha) b hb
        · intro hbn
          exact hnot ⟨a, ha, hbn.symm⟩
    · rw [hs]
      show (Except.error Err.value = _) ↔ _
      constructor
      · intro h; cases h
      · rintro ⟨_, h2, h3⟩
        exfalso
        rcases hbad with h | ⟨b, hb, hbn⟩
        · exact h2 ax (by simp) h
        · exact h3 ax (by simp) b hb hbn

/-- `Axes.append` accepts a list of axes exactly when the names are distinct and non-empty;
duplicate (or empty) names are rejected with `ValueError` -/
theorem appendAll_ok_iff (axes : List Axis) :
    appendAll axes = .ok axes ↔ ((axes.map (·.name)).Nodup ∧ ∀ ax ∈ axes, ax.name ≠ "") := by
  have := appendAll_go axes []
  simp only [List.nil_append] at this
  unfold appendAll
  rw [this]
  simp

theorem appendAll_fold_result : ∀ (axes acc : List Axis),
    (axes.foldlM appendStep acc = .ok (acc ++ axes)) ∨ (axes.foldlM appendStep acc = .error .value)
  | [], acc => by left; simp [List.foldlM, pure, Except.pure]
  | ax :: rest, acc => by
    rw [List.foldlM_cons]
    rcases appendStep_cases acc ax with ⟨hs, _, _⟩ | ⟨hs, _⟩
    · rw [hs]
      show (rest.foldlM appendStep (acc ++ [ax]) = _) ∨ (rest.foldlM appendStep (acc ++ [ax]) = _)
      have := appendAll_fold_result rest (acc ++ [ax])
      simpa using this
    · rw [hs]; right; rfl

theorem appendAll_result (axes r : List Axis) (h : appendAll axes = .ok r) : r = axes := by
  unfold appendAll at h
  rcases appendAll_fold_result axes [] with h' | h'
  · rw [h'] at h; cases h; simp
  · rw [h'] at h; cases h

theorem appendAll_rejects_duplicates (axes : List Axis) (h : ¬ (axes.map (·.name)).Nodup) :
    appendAll axes = .error .value := by
  unfold appendAll
  rcases appendAll_fold_result axes [] with h' | h'
  · exfalso
    have : appendAll axes = .ok axes := by unfold appendAll; simpa using h'
    exact h ((appendAll_ok_iff axes).mp this).1
  · exact h'

/-- **all documented ways of specifying the same axes build the same axes**: label lists + dims,
(name, labels) pairs, Axis objects and a dict + dims (entries in any order `perm` of the
dimensions) -/
theorem initAxes_forms_agree (names : List String) (ls : List (List Label × Kind)) (shape : List Nat)
    (hlen : names.length = ls.length) :
    let axes := (names.zip ls).map (fun (d, l) => mkAxis d l)
    initAxes (.lists ls) (some names) shape = (if ls.isEmpty then .ok [] else appendAll axes) ∧
    initAxes (.pairs ((names.zip ls).map (fun (d, l) => (d, l.1, l.2)))) none shape = appendAll axes ∧
    initAxes (.objs axes) none shape = appendAll axes := by
  intro axes
  refine ⟨?_, ?_, ?_⟩
  · unfold initAxes
    by_cases he : ls.isEmpty = true
    · simp only [he, if_true]; rfl
    · simp only [he, Bool.false_eq_true, if_false]
      have : (names.length != ls.length) = false := by simp [hlen]
      simp only [this, Bool.false_eq_true, if_false]
      rfl
  · unfold initAxes
    simp only [List.map_map]
    congr 1
  · rfl

/-- every array the constructor returns is well-formed (for plain axes) ... -/
theorem construct_wf {α : Type} (vals : NDArr α) (vk : Kind) (arg : AxesArg) (dims : Option (List String))
    (a : DimArray α) (h : construct vals vk arg dims = .ok a)
    (hnames : ∀ axes, initAxes arg dims vals.shape = .ok axes →
      (axes.map (·.name)).Nodup ∧ ∀ ax ∈ axes, ax.name ≠ "") : a.WF := by
  unfold construct at h
  simp only [bind, Except.bind] at h
  cases hi : initAxes arg dims vals.shape with
  | error e => rw [hi] at h; cases h
  | ok axes =>
    rw [hi] at h
    simp only at h
    split at h
    · cases h
    · rename_i hs
      simp only [pure, Except.pure] at h
      cases h
      have hs' : axes.map (·.size) = vals.shape := by simpa using hs
      exact ⟨hs'.symm, (hnames axes hi).1, (hnames axes hi).2⟩

/-- ... and data whose shape disagrees with the axes is rejected -/
theorem construct_rejects_shape {α : Type} (vals : NDArr α) (vk : Kind) (arg : AxesArg)
    (dims : Option (List String)) (axes : List Axis) (hi : initAxes arg dims vals.shape = .ok axes)
    (hs : axes.map (·.size) ≠ vals.shape) : construct vals vk arg dims = .error .other := by
  unfold construct
  simp only [bind, Except.bind, hi]
  have : (axes.map (·.size) != vals.shape) = true := by simpa using hs
  simp [this]

/-! ### operations preserve well-formedness -/

theorem size_axisSelect (ax : Axis) (ps : List Nat) : (axisSelect ax ps).size = ps.length := by
  simp [axisSelect, Axis.size]

theorem takeAxes_names_sublist : ∀ (axes : List Axis) (ps : List PosIx),
    ((Spec.takeAxes axes ps).map (·.name)).Sublist (axes.map (·.name))
  | [], _ => by simp [Spec.takeAxes]
  | _ :: _, [] => by simp [Spec.takeAxes]
  | ax :: axes, .scalar _ :: ps => by
    simp only [Spec.takeAxes, List.map_cons]
    exact (takeAxes_names_sublist axes ps).cons _
  | ax :: axes, .list p :: ps => by
    simp only [Spec.takeAxes, List.map_cons]
    exact (takeAxes_names_sublist axes ps).cons₂ _

theorem takeAxes_sizes : ∀ (axes : List Axis) (ps : List PosIx), ps.length = axes.length →
    (Spec.takeAxes axes ps).map (·.size) = outerShape ps
  | [], [], _ => rfl
  | [], _ :: _, h => by simp at h
  | _ :: _, [], h => by simp at h
  | ax :: axes, .scalar _ :: ps, h => by
    simp only [Spec.takeAxes, outerShape]
    exact takeAxes_sizes axes ps (by simpa using h)
  | ax :: axes, .list p :: ps, h => by
    simp only [Spec.takeAxes, outerShape, List.map_cons, size_axisSelect]
    rw [takeAxes_sizes axes ps (by simpa using h)]

theorem takeAxes_mem_name (axes : List Axis) (ps : List PosIx) (x : Axis) (hx : x ∈ Spec.takeAxes axes ps) :
    x.name ∈ axes.map (·.name) := by
  have := (takeAxes_names_sublist axes ps).subset
  exact this (List.mem_map.mpr ⟨x, hx, rfl⟩)

theorem length_mapM_option {β γ : Type} (f : β → Option γ) : ∀ (l : List β) (r : List γ),
    l.mapM f = some r → r.length = l.length
  | [], r, h => by simp at h; subst h; rfl
  | x :: xs, r, h => by
    rw [List.mapM_cons] at h
    cases hx : f x with
    | none => simp [hx] at h
    | some y =>
      cases hxs : xs.mapM f with
      | none => simp [hx, hxs] at h
      | some ys =>
        simp [hx, hxs] at h
        subst h
        simp [length_mapM_option f xs ys hxs]

/-- label indexing returns a well-formed array (scalar-indexed dimensions dropped) -/
theorem take_wf {α : Type} (a : DimArray α) (ixs : List Ix) (r : DimArray α) (hwf : a.WF)
    (hr : Spec.take a ixs = .ok r) (hlen : ixs.length = a.axes.length) : r.WF := by
  unfold Spec.take at hr
  cases hS : (ixs.zip a.axes).mapM (fun (x : Ix × Axis) => Spec.positions x.2.labels x.1) with
  | none => rw [hS] at hr; cases hr
  | some ps =>
    rw [hS] at hr
    cases hr
    have hpl : ps.length = a.axes.length := by
      have := length_mapM_option _ _ _ hS
      simp [hlen] at this
      exact this
    refine ⟨?_, ?_, ?_⟩
    · simp only [NDArr.outer]
      exact (takeAxes_sizes a.axes ps hpl).symm
    · exact hwf.2.1.sublist (takeAxes_names_sublist a.axes ps)
    · intro x hx
      obtain ⟨y, hy, hxy⟩ := List.mem_map.mp (takeAxes_mem_name a.axes ps x hx)
      rw [← hxy]
      exact hwf.2.2 y hy

theorem size_axisTake (ax : Axis) (ps : List Nat) : (axisTake ax ps).size = ps.length := by
  simp [axisTake, Axis.size]

/-- positional take along one axis (the work-horse of reindexing and sorting) keeps the array
well-formed: same dimension names, the taken axis has one label per taken position -/
theorem takeAxisPos_wf {α : Type} (a : DimArray α) (pos : Nat) (ps : List Nat) (hwf : a.WF) :
    (takeAxisPos a pos ps).WF := by
  obtain ⟨hs, hn, hne⟩ := hwf
  refine ⟨?_, ?_, ?_⟩
  · simp only [takeAxisPos, NDArr.takeAxis, hs]
    apply List.ext_getElem
    · simp
    · intro i h1 h2
      simp only [List.getElem_set, List.getElem_map, List.getElem_mapIdx]
      by_cases hi : pos = i
      · subst hi; simp [size_axisTake]
      · have : (i == pos) = false := by simpa using (Ne.symm hi)
        simp [hi, this]
  · have : (takeAxisPos a pos ps).axes.map (·.name) = a.axes.map (·.name) := by
      simp only [takeAxisPos]
      apply List.ext_getElem
      · simp
      · intro i h1 h2
        simp only [List.getElem_map, List.getElem_mapIdx]
        split <;> simp [axisTake]
    rw [this]; exact hn
  · intro x hx
    simp only [takeAxisPos] at hx
    obtain ⟨i, hi, rfl⟩ := List.getElem_of_mem hx
    simp only [List.getElem_mapIdx]
    have hi' : i < a.axes.length := by simpa using hi
    split
    · simp only [axisTake]; exact hne _ (List.getElem_mem hi')
    · exact hne _ (List.getElem_mem hi')

/-- non-vacuity: distinct names are accepted, a duplicate is rejected -/
example : appendAll [mkAxis "x" ([.num 1], .i), mkAxis "y" ([], .f)] = .ok [mkAxis "x" ([.num 1], .i), mkAxis "y" ([], .f)]
    ∧ appendAll [mkAxis "x" ([.num 1], .i), mkAxis "x" ([], .f)] = .error .value := by
  constructor
  · rw [appendAll_ok_iff]; decide
  · apply appendAll_rejects_duplicates; decide


/-! ## the complete family: every mirror function that returns an array (or arrays) preserves well-formedness

`DimArray.WF` (Core/Basic) is the whole of C05's first sentence: the values have the shape the axes announce (one
axis per dimension, of the matching size), the dimension names are distinct and non-empty.  Each theorem below
says: if the inputs are well-formed and the call SUCCEEDS, the result is well-formed - for every argument, with no
bound on rank, sizes or labels.  The proofs are in `Proofs/C05WF.lean` (arrays) and `Proofs/C05WFDs.lean`
(Datasets); `WF` is split there into `ShapeOK` and `NamesOK`.

Where a hypothesis beyond `WF` appears it is because the MIRROR returns an ill-formed array without it; each such
case has a machine-checked counterexample below (`*_counterexample`) and is listed in the table at the end of the
file.  In dimarray every one of these results goes through `DimArray.__init__` -> `Axes.append` / `Axis.name`
setter / the shape check, which raise - so they are divergences of the mirror (it does not re-run the constructor's
checks inside `flatten`, `unflatten`, `newaxis`, `stack`, `repeat`; it does not store the tuple labels of a grouped
axis), not defects of the library. -/

section preservation
variable {α : Type}

/-! ### indexing and assignment -/

/-- `take` / `__getitem__` / `.loc` / `.iloc` / `.ix`, every spelling of the index (tuple, dict, `axis=`), label or
position mode, with or without tolerance and `keepdims` -/
theorem take_all_wf (a r : DimArray α) (ui : UserIndex) (cfg : IndexCfg) (hw : a.WF) (h : take a ui cfg = .ok r) :
    r.WF := C05.take_wf a r ui cfg hw h

theorem put_wf (a r : DimArray α) (ui : UserIndex) (rhs : RHS α) (rk : Kind) (cfg : IndexCfg) (cast : Bool)
    (hw : a.WF) (h : put a ui rhs rk cfg cast = .ok r) : r.WF := C05.put_wf a r ui rhs rk cfg cast hw h

theorem putBool_wf (a r : DimArray α) (mask : NDArr Bool) (v : α) (rk : Kind) (cast : Bool) (hw : a.WF)
    (h : putBool a mask v rk cast = .ok r) : r.WF := C05.putBool_wf a r mask v rk cast hw h

/-! ### reindexing, sorting, alignment -/

theorem reindexAxis_wf (a r : DimArray α) (axis : DimKey) (newL : List Label) (nk : Kind) (fill : α) (fk : Kind)
    (raiseErr : Bool) (method : Option Side) (hw : a.WF)
    (h : reindexAxis a axis newL nk fill fk raiseErr method = .ok r) : r.WF :=
  C05.reindexAxis_wf a r axis newL nk fill fk raiseErr method hw h

theorem reindexLike_wf (a r : DimArray α) (tmpl : List Axis) (fill : α) (fk : Kind) (raiseErr : Bool)
    (method : Option Side) (hw : a.WF) (h : reindexLike a tmpl fill fk raiseErr method = .ok r) : r.WF :=
  C05.reindexLike_wf a r tmpl fill fk raiseErr method hw h

theorem sortAxis_wf (a r : DimArray α) (axis : DimKey) (hw : a.WF) (h : sortAxis a axis = .ok r) : r.WF :=
  C05.sortAxis_wf a r axis hw h

/-- every output of `align` (any join, any axis, sorted or not, strict or not) -/
theorem align_wf (nan : α) (arrays rs : List (DimArray α)) (join : Join) (axis : Option String) (sort strict : Bool)
    (hw : ∀ a ∈ arrays, a.WF) (h : align nan arrays join axis sort strict = .ok rs) : ∀ r ∈ rs, r.WF :=
  C05.align_wf nan arrays rs join axis sort strict hw h

/-! ### arithmetic -/

theorem operation_wf (nan : α) (f : α → α → α) (a b r : DimArray α) (k1 k2 : Kind) (ha : a.WF) (hb : b.WF)
    (h : operation nan f a b = .ok (r, k1, k2)) : r.WF := C05.operation_wf nan f a b (r, k1, k2) ha hb h

theorem operationNd_wf (f : α → α → α) (a r : DimArray α) (nd : NDArr α) (flip : Bool) (hw : a.WF)
    (h : operationNd f a nd flip = .ok r) : r.WF := C05.operationNd_wf f a r nd flip hw h

/-! ### transpose family -/

theorem transpose_wf (a r : DimArray α) (ks : Option (List DimKey)) (hw : a.WF) (h : transpose a ks = .ok r) :
    r.WF := C05.transpose_wf a r ks hw h

theorem swapaxes_wf (a r : DimArray α) (k1 k2 : DimKey) (hw : a.WF) (h : swapaxes a k1 k2 = .ok r) : r.WF :=
  C05.swapaxes_wf a r k1 k2 hw h

theorem rollaxis_wf (a r : DimArray α) (k : DimKey) (start : Int) (hw : a.WF) (h : rollaxis a k start = .ok r) :
    r.WF := C05.rollaxis_wf a r k start hw h

/-! ### newaxis / squeeze / repeat -/

/-- `newaxis(name, values, pos)`.  Extra hypotheses: the name is not the empty string (the mirror does not run the
`Axis.name` setter: `newaxis_empty_name_counterexample`); the optional `values` are an axis without members (in
Python `values` is an array of labels, the mirror takes an `Axis`: `repeatAxis_grouped_counterexample`) -/
theorem newaxis_wf (a r : DimArray α) (name : String) (pos : Int) (vals : Option Axis) (hne : name ≠ "")
    (hpl : ∀ v, vals = some v → v.members = []) (hw : a.WF) (h : newaxis a name pos vals = .ok r) : r.WF :=
  C05.newaxis_wf a r name pos vals hne hpl hw h

theorem squeeze_wf (a r : DimArray α) (k : Option DimKey) (hw : a.WF) (h : squeeze a k = .ok r) : r.WF :=
  C05.squeeze_wf a r k hw h

/-- `repeat(values, axis)`; `newax` stands for the array of labels: no members -/
theorem repeatAxis_wf (a r : DimArray α) (newax : Axis) (k : DimKey) (hpl : newax.members = []) (hw : a.WF)
    (h : repeatAxis a newax k = .ok r) : r.WF := C05.repeatAxis_wf a r newax k hpl hw h

/-! ### flatten / unflatten / reshape -/

/-- `flatten(dims, insert)`: the shape always follows the axes (`C05.flatten_shapeOK`); the names are those of
`C05.flatten_dims`; the result is well-formed as soon as the joined name is not the name of a remaining dimension
(`flatten_name_clash_counterexample`; with comma-free names and at least two flattened dimensions it never is) -/
theorem flatten_wf (a r : DimArray α) (dims : List String) (insert : Option Nat) (hw : a.WF)
    (hfresh : ",".intercalate dims ∉ a.dims.filter (fun d => !dims.contains d))
    (h : flatten a dims insert = .ok r) : r.WF := C05.flatten_wf a r dims insert hw hfresh h

/-- `unflatten(axis)`: the shape always follows the axes; well-formed exactly when the listed names - the members'
in place of the group's - are distinct and non-empty (`unflattenAt_name_clash_counterexample`) -/
theorem unflattenAt_wf (a : DimArray α) (pos : Nat) (hw : a.WF)
    (hn : NamesOK (a.dims.take pos ++ (a.axes.getD pos default).members.map (·.name) ++ a.dims.drop (pos + 1))) :
    (unflattenAt a pos).WF := C05.unflattenAt_wf a pos hw.1 hn

/-- `unflatten()`: well-formed as soon as the ungrouped names (`C05.flatNames`: the members' names for a grouped
axis, the axis' own name otherwise) are distinct and non-empty; the result has no grouped axis left and lists
exactly those names -/
theorem unflattenAll_wf (a : DimArray α) (hw : a.WF) (hn : NamesOK (a.axes.flatMap C05.flatNames)) :
    (unflattenAll a).WF ∧ PlainAxes (unflattenAll a).axes ∧ (unflattenAll a).dims = a.axes.flatMap C05.flatNames :=
  C05.unflattenAll_wf a hw.1 hn

/-- the hypothesis of `unflattenAll_wf` holds for whatever `flatten` makes of a well-formed array without grouped
axes: flatten-then-unflatten stays well-formed -/
theorem flatten_unflattenAll_wf (a r : DimArray α) (dims : List String) (insert : Option Nat) (hw : a.WF)
    (hp : PlainAxes a.axes) (h : flatten a dims insert = .ok r) : (unflattenAll r).WF :=
  (C05.unflattenAll_wf r (C05.flatten_shapeOK a r dims insert h) (C05.flatten_flatNames a r dims insert hw hp h)).1

/-- `reshape(*newdims)`: a successful call returns exactly the requested names (`C05.reshape_dims`), which the
function checks to be distinct; they must not contain the empty string (`reshape_empty_name_counterexample`) -/
theorem reshape_wf (a r : DimArray α) (newdims : List String) (hw : a.WF) (hne : ∀ d ∈ newdims, d ≠ "")
    (h : reshape a newdims = .ok r) : r.WF := C05.reshape_wf a r newdims hw hne h

theorem alignDims_wf (arrays rs : List (DimArray α)) (hw : ∀ a ∈ arrays, a.WF) (h : alignDims arrays = .ok rs) :
    ∀ r ∈ rs, r.WF := C05.alignDims_wf arrays rs hw h

/-- `broadcast(other)`; the target's names are those of an array: non-empty -/
theorem broadcast_wf (a r : DimArray α) (target : List Axis) (hw : a.WF) (hne : ∀ t ∈ target, t.name ≠ "")
    (h : broadcast a target = .ok r) : r.WF := C05.broadcast_wf a r target hw hne h

theorem broadcastArrays_wf (arrays rs : List (DimArray α)) (hw : ∀ a ∈ arrays, a.WF)
    (h : broadcastArrays arrays = .ok rs) : ∀ r ∈ rs, r.WF := C05.broadcastArrays_wf arrays rs hw h

/-! ### stack / concatenate -/

/-- `stack(arrays, axis, keys, align)`.  The hypothesis on the name of the new dimension holds whenever `axis` is a
non-empty string (`stack_named_wf`) and for the default name `"unnamed"` when no input has it (`stack_default_wf`);
it fails for `axis=""` (`stack_empty_name_counterexample`) -/
theorem stack_wf [Inhabited α] (nan : α) (arrays : List (DimArray α)) (axis : Option String) (keys : List Label)
    (kk : Kind) (doAlign sort : Bool) (r : DimArray α) (hw : ∀ a ∈ arrays, a.WF)
    (hname : ∀ name, checkStackAxis axis (getDims (arrays.map (·.axes))) = .ok name →
      name ≠ "" ∧ name ∉ getDims (arrays.map (·.axes)))
    (h : stack nan arrays axis keys kk doAlign sort = .ok r) : r.WF :=
  C05.stack_wf nan arrays axis keys kk doAlign sort r hw hname h

theorem stack_named_wf [Inhabited α] (nan : α) (arrays : List (DimArray α)) (s : String) (keys : List Label)
    (kk : Kind) (doAlign sort : Bool) (r : DimArray α) (hw : ∀ a ∈ arrays, a.WF) (hs : s ≠ "")
    (h : stack nan arrays (some s) keys kk doAlign sort = .ok r) : r.WF :=
  stack_wf nan arrays (some s) keys kk doAlign sort r hw
    (fun name hn => by obtain ⟨rfl, hf⟩ := C05.checkStackAxis_some s _ name hn; exact ⟨hs, hf⟩) h

theorem stack_default_wf [Inhabited α] (nan : α) (arrays : List (DimArray α)) (keys : List Label)
    (kk : Kind) (doAlign sort : Bool) (r : DimArray α) (hw : ∀ a ∈ arrays, a.WF)
    (hf : "unnamed" ∉ getDims (arrays.map (·.axes)))
    (h : stack nan arrays none keys kk doAlign sort = .ok r) : r.WF :=
  stack_wf nan arrays none keys kk doAlign sort r hw
    (fun name hn => by rw [C05.checkStackAxis_none _ name hf hn]; exact ⟨by decide, hf⟩) h

/-- `concatenate(arrays, axis, align)` of arrays without grouped axes (the mirror does not store the tuple labels
of a grouped axis, so the joined axis would announce no label at all: `concatenate_grouped_counterexample`) -/
theorem concatenate_wf (nan : α) (arrays : List (DimArray α)) (axis : DimKey) (doAlign sort : Bool) (r : DimArray α)
    (hw : ∀ a ∈ arrays, a.WF) (hp : ∀ a ∈ arrays, PlainAxes a.axes)
    (h : concatenate nan arrays axis doAlign sort = .ok r) : r.WF :=
  C05.concatenate_wf nan arrays axis doAlign sort r hw hp h

/-! ### along-axis transforms -/

/-- reductions (array results), for `axis` a name, a position or a tuple: no extra hypothesis - the grouped axis a
tuple creates is removed again -/
theorem reduceAxis_wf (red : List α → α) (a r : DimArray α) (ax : AxisArg) (hw : a.WF)
    (h : reduceAxis red a ax = .ok (.inr r)) : r.WF := C05.reduceAxis_wf red a r ax hw h

theorem argAxis_wf (pick : List α → List Label → α) (a r : DimArray α) (ax : AxisArg) (hw : a.WF)
    (h : argAxis pick a ax = .ok (.inr r)) : r.WF := C05.argAxis_wf pick a r ax hw h

/-- cumulative transforms; for a tuple of axes the result keeps the grouped axis, whose joined name must be fresh
(as for `flatten`) -/
theorem cumAxis_wf (scan : List α → α) (a r : DimArray α) (ax : AxisArg) (hw : a.WF)
    (hg : ∀ ks names, ax = .many ks → ks.mapM (keyName a) = .ok names → C05.GroupNameFresh a names)
    (h : cumAxis scan a ax = .ok (.inr r)) : r.WF := C05.cumAxis_wf scan a r ax hw hg h

/-- `diff`: as `cumAxis_wf`, and the differenced axis is plain - or, for a grouped axis (a tuple of axes), the
scheme is forward / backward without `keepaxis` (`diffAxis_grouped_keepaxis_counterexample`: the mirror does not
store the labels of a grouped axis) -/
theorem diffAxis_wf (sub : α → α → α) (nan : α) (a r : DimArray α) (ax : AxisArg) (scheme : Scheme)
    (keepaxis : Bool) (n : Nat) (hw : a.WF)
    (hg : ∀ ks names, ax = .many ks → ks.mapM (keyName a) = .ok names → C05.GroupNameFresh a names)
    (hc : ∀ o pos, dealWithAxis a ax = .ok (o, some pos) →
      (o.axes.getD pos default).members = [] ∨ (keepaxis = false ∧ scheme ≠ .centered))
    (h : diffAxis sub nan a ax scheme keepaxis n = .ok r) : r.WF :=
  C05.diffAxis_wf sub nan a r ax scheme keepaxis n hw hg hc h

/-- the usual call: one axis, given by name or position, of an array without grouped axes -/
theorem diffAxis_one_wf (sub : α → α → α) (nan : α) (a r : DimArray α) (k : DimKey) (scheme : Scheme)
    (keepaxis : Bool) (n : Nat) (hw : a.WF) (hp : PlainAxes a.axes)
    (h : diffAxis sub nan a (.one k) scheme keepaxis n = .ok r) : r.WF := by
  refine diffAxis_wf sub nan a r (.one k) scheme keepaxis n hw (fun ks names hk => by cases hk) ?_ h
  intro o pos hd
  rcases C16.dealWithAxis_spec a o _ _ hd with ⟨rfl, hlt, _⟩ | ⟨_, _, hk, _, _⟩
  · left
    have := hlt pos rfl
    rw [C16.axis_getD_mem _ _ this]
    exact hp _ (List.getElem_mem this)
  · cases hk

/-! ### take_axis, compress_axis, missing values, interpolation -/

theorem takeAxis_wf (a r : DimArray α) (ix : List Label) (k : DimKey) (mode : Mode) (clip : Bool) (hw : a.WF)
    (h : takeAxis a ix k mode clip = .ok r) : r.WF := C05.takeAxis_wf a r ix k mode clip hw h

theorem compressAxis_wf (a r : DimArray α) (mask : List Bool) (k : DimKey) (hw : a.WF)
    (h : compressAxis a mask k = .ok r) : r.WF := C05.compressAxis_wf a r mask k hw h

theorem dropna_wf (isnan : α → Bool) (a r : DimArray α) (k : DimKey) (minvalid : Option Nat) (hw : a.WF)
    (h : dropna isnan a k minvalid = .ok r) : r.WF := C05.dropna_wf isnan a r k minvalid hw h

theorem fillna_wf (isnan : α → Bool) (a : DimArray α) (fill : α) (fk : Kind) (hw : a.WF) :
    (fillna isnan a fill fk).WF := hw

theorem setna_wf (hit : List Nat → Bool) (nan : α) (a : DimArray α) (hw : a.WF) : (setna hit nan a).WF := hw

theorem interpAxis_wf [Inhabited α] (lin : α → α → Rat → α) (a r : DimArray α) (k : DimKey) (newL : List Label)
    (nk : Kind) (left right : α) (hw : a.WF) (h : interpAxis lin a k newL nk left right = .ok r) : r.WF :=
  C05.interpAxis_wf lin a r k newL nk left right hw h

end preservation

/-! ### Datasets: every variable of the result is well-formed

`DSV.DsWF ds` : every variable of `ds` is well-formed.  Two families:
* the operations that work on the Dataset's own axes (`take`, `take_axis`, `sort_axis`, `reindex_axis`,
  `interp_axis`, reductions) are stated on a good Dataset (`GoodDs` of C14: shared own axes, distinct keys, plain
  axes) with well-formed variables, and return a good Dataset with well-formed variables - they compose;
* the operations that assemble a Dataset through `__setitem__` (`Dataset(dict)`, `copy`, arithmetic, `stack_ds`,
  `concatenate_ds`) only need well-formed variables without grouped axes, Dataset by Dataset (the inputs need not
  be related), and return `DSV.DsOK`: well-formed variables whose axes - and the Dataset's - have as many labels as
  their size. -/

namespace DSV
variable {α : Type}

theorem DsOK.dsWF {ds : Ds α} (h : DsOK ds) : DsWF ds := C05.DsOK.wf h

/-- `ds[k] = v` -/
theorem setItem_wf (ds out : Ds α) (k : String) (v : DimArray α) (hds : DsOK ds) (hv : v.WF)
    (hp : PlainAxes v.axes) (h : setItem ds k v = .ok out) : DsOK out :=
  C05.setItem_ok ds out k v hds (C05.varOK_of_plain hv hp) h

/-- `Dataset(dict)` -/
theorem fromVars_wf (nan : α) (vars : List (String × DimArray α)) (out : Ds α)
    (hin : ∀ kv ∈ vars, kv.2.WF ∧ PlainAxes kv.2.axes) (h : fromVars nan vars = .ok out) : DsOK out :=
  C05.fromVars_ok nan vars out hin h

theorem copyDs_wf (nan : α) (ds out : Ds α) (hin : ∀ kv ∈ ds.vars, kv.2.WF ∧ PlainAxes kv.2.axes)
    (h : copyDs nan ds = .ok out) : DsOK out := C05.copyDs_ok nan ds out hin h

theorem takeDs_wf (ds out : Ds α) (name : String) (ix : Ix) (cfg : IndexCfg) (hg : GoodDs ds) (hw : DsWF ds)
    (h : takeDs ds name ix cfg = .ok out) : GoodDs out ∧ DsWF out := C05.takeDs_good ds out name ix cfg hg hw h

theorem takeAxisPosDs_wf (ds out : Ds α) (name : String) (ps : List Nat) (hg : GoodDs ds) (hw : DsWF ds)
    (h : takeAxisPosDs ds name ps = .ok out) : GoodDs out ∧ DsWF out := C05.takeAxisPosDs_good ds out name ps hg hw h

theorem takeAxisLabel_wf (ds out : Ds α) (name : String) (labels : List Label) (clip : Bool) (hg : GoodDs ds)
    (hw : DsWF ds) (h : takeAxisLabel ds name labels clip = .ok out) : GoodDs out ∧ DsWF out :=
  C05.takeAxisLabel_good ds out name labels clip hg hw h

theorem sortAxisDs_wf (ds out : Ds α) (name : String) (hg : GoodDs ds) (hw : DsWF ds)
    (h : sortAxisDs ds name = .ok out) : GoodDs out ∧ DsWF out := C05.sortAxisDs_good ds out name hg hw h

theorem reindexAxisDs_wf (ds out : Ds α) (name : String) (newL : List Label) (newKind fillKind : Kind) (fill : α)
    (hg : GoodDs ds) (hw : DsWF ds) (h : reindexAxisDs ds name newL newKind fill fillKind = .ok out) :
    GoodDs out ∧ DsWF out := C05.reindexAxisDs_good ds out name newL newKind fillKind fill hg hw h

theorem reindexLikeDs_wf (nan : α) (ds out : Ds α) (tmpl : List Axis) (hg : GoodDs ds) (hw : DsWF ds)
    (h : reindexLikeDs nan ds tmpl = .ok out) : GoodDs out ∧ DsWF out := C05.reindexLikeDs_good nan ds out tmpl hg hw h

theorem reduceDs_wf (nan : α) (red : List α → α) (ds out : Ds α) (name : String) (hg : GoodDs ds) (hw : DsWF ds)
    (h : reduceDs nan red ds name = .ok out) : GoodDs out ∧ DsWF out := C05.reduceDs_good nan red ds out name hg hw h

theorem interpAxisDs_wf [Inhabited α] (lin : α → α → Rat → α) (ds out : Ds α) (name : String) (newL : List Label)
    (nk : Kind) (left right : α) (hg : GoodDs ds) (hw : DsWF ds)
    (h : interpAxisDs lin ds name newL nk left right = .ok out) : GoodDs out ∧ DsWF out :=
  C05.interpAxisDs_good lin ds out name newL nk left right hg hw h

/-- `Dataset op scalar` -/
theorem binaryOpDs_scalar_wf (nan : α) (f : α → α → α) (self out : Ds α) (c : α)
    (hin : ∀ kv ∈ self.vars, kv.2.WF ∧ PlainAxes kv.2.axes)
    (h : binaryOpDs nan f self (.scalar c) = .ok out) : DsOK out := C05.binaryOpDs_scalar_ok nan f self out c hin h

/-- `Dataset op Dataset` (variables: the inputs of the C04 end-to-end theorem - alignable, comma-free names) -/
theorem binaryOpDs_ds_wf (nan : α) (f : α → α → α) (self o out : Ds α)
    (hin1 : ∀ kv ∈ self.vars, kv.2.WF ∧ OpInput kv.2) (hin2 : ∀ kv ∈ o.vars, kv.2.WF ∧ OpInput kv.2)
    (h : binaryOpDs nan f self (.ds o) = .ok out) : DsOK out := C05.binaryOpDs_ds_ok nan f self o out hin1 hin2 h

/-- `stack_ds`; the new dimension's name must not be the empty string (as for `stack`) -/
theorem stackDs_wf [Inhabited α] (nan : α) (datasets : List (Ds α)) (axis : Option String) (keys : List Label)
    (kk : Kind) (out : Ds α) (hin : ∀ ds ∈ datasets, ∀ kv ∈ ds.vars, kv.2.WF ∧ PlainAxes kv.2.axes)
    (hname : ∀ name, checkStackAxis axis (getDims (datasets.map (·.axes))) = .ok name → name ≠ "")
    (h : stackDs nan datasets axis keys kk = .ok out) : DsOK out :=
  C05.stackDs_ok nan datasets axis keys kk out hin hname h

theorem concatenateDs_wf (nan : α) (datasets : List (Ds α)) (axis : DimKey) (out : Ds α)
    (hin : ∀ ds ∈ datasets, ∀ kv ∈ ds.vars, kv.2.WF ∧ PlainAxes kv.2.axes)
    (h : concatenateDs nan datasets axis = .ok out) : DsOK out := C05.concatenateDs_ok nan datasets axis out hin h

/-- the two families meet: a good Dataset with well-formed variables satisfies the hypothesis of the second -/
theorem good_inputs {ds : Ds α} (hg : GoodDs ds) (hw : DsWF ds) : ∀ kv ∈ ds.vars, kv.2.WF ∧ PlainAxes kv.2.axes :=
  fun kv hkv => ⟨hw kv hkv, C05.good_varPlain hg hkv⟩

end DSV


/-! ### machine-checked counterexamples: why the extra hypotheses are there

All of them are about the MIRROR.  dimarray builds every one of these results through `DimArray.__init__`
(`Axes.append`: duplicate name -> ValueError; `Axis.name` setter: empty name -> ValueError; the shape check), and a
grouped axis there has its tuple labels, so the library raises or returns a well-formed array where the mirror
returns an ill-formed one. -/

section counterexamples

def cxA : DimArray Nat :=
  { axes := [{ name := "x", labels := [.num 1, .num 2], kind := .i }]
    vals := { shape := [2], get := fun j => j.getD 0 0 } }

theorem cxA_wf : cxA.WF := ⟨rfl, by decide, by decide⟩

/-- `newaxis("")`: the mirror inserts an axis without a name (Python: `Axis([None], "")` raises ValueError) -/
theorem newaxis_empty_name_counterexample : cxA.WF ∧ ∃ r, newaxis cxA "" 0 none = .ok r ∧ ¬ r.WF := by
  refine ⟨cxA_wf, _, rfl, ?_⟩
  decide

def cxG : Axis :=
  { name := "g", labels := [], kind := .O, members := [{ name := "p", labels := [.num 1, .num 2], kind := .i }] }
def cxS : DimArray Nat :=
  { axes := [{ name := "x", labels := [.num 1], kind := .i }], vals := { shape := [1], get := fun _ => 0 } }

/-- `repeat` with an `Axis` that has members: the mirror repeats `labels.length = 0` times but the stored axis
announces size 2 (Python's `values` is an array of labels: there is nothing like it) -/
theorem repeatAxis_grouped_counterexample : cxS.WF ∧ ∃ r, repeatAxis cxS cxG (.pos 0) = .ok r ∧ ¬ r.WF := by
  refine ⟨⟨rfl, by decide, by decide⟩, _, rfl, ?_⟩
  decide

def cxF : DimArray Nat :=
  { axes := [{ name := "x", labels := [.num 1, .num 2], kind := .i },
             { name := "y", labels := [.num 1], kind := .i },
             { name := "x,y", labels := [.num 5], kind := .i }]
    vals := { shape := [2, 1, 1], get := fun j => j.getD 0 0 } }

/-- `flatten("x", "y")` of an array that already has a dimension called `"x,y"`: two dimensions of the same name
(Python: `Axes.append` raises ValueError) -/
theorem flatten_name_clash_counterexample :
    cxF.WF ∧ ∃ r, flatten cxF ["x", "y"] none = .ok r ∧ r.dims = ["x,y", "x,y"] ∧ ¬ r.WF := by
  refine ⟨⟨rfl, by decide, by decide⟩, _, rfl, ?_, ?_⟩ <;> decide

def cxU : DimArray Nat :=
  { axes := [{ name := "a,b", labels := [], kind := .O,
               members := [{ name := "a", labels := [.num 1, .num 2], kind := .i },
                           { name := "b", labels := [.num 1], kind := .i }] },
             { name := "a", labels := [.num 7], kind := .i }]
    vals := { shape := [2, 1], get := fun j => j.getD 0 0 } }

/-- `unflatten` of a group one of whose members is named like another dimension -/
theorem unflattenAt_name_clash_counterexample :
    cxU.WF ∧ (unflattenAt cxU 0).dims = ["a", "b", "a"] ∧ ¬ (unflattenAt cxU 0).WF := by
  refine ⟨⟨rfl, by decide, by decide⟩, rfl, ?_⟩
  decide

/-- `reshape("", "x")`: the new singleton dimension has no name (goes through `newaxis`) -/
theorem reshape_empty_name_counterexample :
    cxA.WF ∧ ∃ r, reshape cxA ["", "x"] = .ok r ∧ r.dims = ["", "x"] ∧ ¬ r.WF := by
  refine ⟨cxA_wf, ?_⟩
  obtain ⟨r, hr, _, hd, _⟩ := reshape_add_singleton cxA [] ["x"] "" cxA_wf (by decide) rfl (by decide) (by
    intro d hd
    have hc : ',' ∉ d.toList := by
      simp only [List.nil_append, List.cons_append, List.mem_cons, List.not_mem_nil, or_false] at hd
      rcases hd with rfl | rfl <;> decide
    exact ⟨splitOnComma_no_comma d hc, contains_comma_false d hc⟩)
  refine ⟨r, hr, hd, ?_⟩
  intro hw
  have hmem : "" ∈ r.dims := by rw [hd]; simp
  obtain ⟨ax, hax, hn⟩ := List.mem_map.mp hmem
  exact hw.2.2 ax hax hn

/-- `stack(axis="")` -/
theorem stack_empty_name_counterexample :
    cxA.WF ∧ ∃ r, stack 0 [cxA] (some "") [.num 0] .i false false = .ok r ∧ r.dims = ["", "x"] ∧ ¬ r.WF := by
  refine ⟨cxA_wf, _, rfl, rfl, ?_⟩
  decide

def cxD : DimArray Int :=
  { axes := [{ name := "x", labels := [.num 1, .num 2], kind := .i },
             { name := "y", labels := [.num 1, .num 2], kind := .i }]
    vals := { shape := [2, 2], get := fun j => 2 * j.getD 0 0 + j.getD 1 0 } }

/-- `diff(axis=("x","y"), keepaxis=True)`: the grouped axis keeps no labels in the mirror, so the kept axis announces
size 0 for 4 values (Python: the grouped axis carries its 4 tuple labels) -/
theorem diffAxis_grouped_keepaxis_counterexample :
    cxD.WF ∧ ∃ r, diffAxis (· - ·) 0 cxD (.many [.name "x", .name "y"]) .forward true 1 = .ok r ∧
      r.vals.shape = [4] ∧ r.axes.map (·.size) = [0] ∧ ¬ r.WF := by
  refine ⟨⟨rfl, by decide, by decide⟩, _, rfl, rfl, rfl, ?_⟩
  decide

def cxC : DimArray Nat :=
  { axes := [{ name := "a,b", labels := [], kind := .O,
               members := [{ name := "a", labels := [.num 1, .num 2], kind := .i },
                           { name := "b", labels := [.num 1], kind := .i }] }]
    vals := { shape := [2], get := fun j => j.getD 0 0 } }

/-- `concatenate` along a grouped axis: same cause -/
theorem concatenate_grouped_counterexample :
    cxC.WF ∧ ∃ r, concatenate 0 [cxC, cxC] (.pos 0) false false = .ok r ∧
      r.vals.shape = [4] ∧ r.axes.map (·.size) = [0] ∧ ¬ r.WF := by
  refine ⟨⟨rfl, by decide, by decide⟩, _, rfl, rfl, rfl, ?_⟩
  decide

end counterexamples

namespace DSV

def cxV : DimArray Nat :=
  { axes := [{ name := "x", labels := [.num 1, .num 2], kind := .i }, { name := "y", labels := [.num 1, .num 2], kind := .i }]
    vals := { shape := [2, 2], get := fun j => j.getD 0 0 } }
/-- a Dataset whose axis `y` (3 labels) is NOT the axis `y` of its variable (2 labels): impossible in dimarray
(C13), and not a `GoodDs` -/
def cxDs : Ds Nat :=
  { axes := [{ name := "x", labels := [.num 1, .num 2], kind := .i },
             { name := "y", labels := [.num 1, .num 2, .num 3], kind := .i }]
    vars := [("a", cxV)] }

/-- why the Dataset theorems ask for `GoodDs` and not only for well-formed variables: `reduce_axis` rebuilds every
variable over the DATASET's axes -/
theorem takeAxisPosDs_unshared_counterexample :
    DsWF cxDs ∧ ∃ out, takeAxisPosDs cxDs "x" [0] = .ok out ∧ ¬ DsWF out := by
  refine ⟨?_, _, rfl, ?_⟩
  · intro kv hkv
    simp only [cxDs, List.mem_singleton] at hkv
    subst hkv
    exact ⟨rfl, by decide, by decide⟩
  · intro h
    have := h ("a", _) (List.mem_singleton.mpr rfl)
    revert this
    decide

end DSV

/-! ### non-vacuity: successful calls on concrete well-formed inputs (`exC10`: x(2) × y(3) × z(1), Props/C10) -/

section examples

theorem exists_ok_and {β : Type} {x : Except Err β} {P : β → Prop} (h1 : ∃ r, x = .ok r)
    (h2 : ∀ r, x = .ok r → P r) : ∃ r, x = .ok r ∧ P r := by
  obtain ⟨r, hr⟩ := h1
  exact ⟨r, hr, h2 r hr⟩

example : ∃ r, take exC10 (.tuple [.scalar (.num 1), .slice none none none]) { indexing := some .position } = .ok r
    ∧ r.WF :=
  exists_ok_and ⟨_, rfl⟩ (fun r h => take_all_wf exC10 r _ _ exC10_wf h)

example : ∃ r, put exC10 (.dict [(.name "y", .scalar (.str "c"))]) (.scalar 0) .i {} true = .ok r ∧ r.WF :=
  exists_ok_and ⟨_, rfl⟩ (fun r h => put_wf exC10 r _ _ _ _ _ exC10_wf h)

example : ∃ r, sortAxis exC10 (.name "y") = .ok r ∧ r.WF :=
  exists_ok_and ⟨_, rfl⟩ (fun r h => sortAxis_wf exC10 r _ exC10_wf h)

example : ∃ r, reindexAxis exRxA (.name "x") [.num 2, .num 3, .num 4] .i 0 .f false none = .ok r ∧ r.WF :=
  exists_ok_and (reindexAxis_succeeds exRxA (.name "x") 0 [.num 2, .num 3, .num 4] .i .f 0 none
    exRxA_pos (Or.inl (by decide)))
    (fun r h => reindexAxis_wf exRxA r _ _ _ _ _ _ _ ⟨rfl, by decide, by decide⟩ h)

example : ∃ rs, align 0 [exC10, exC10] .outer none false false = .ok rs ∧ ∀ r ∈ rs, r.WF :=
  exists_ok_and ⟨_, rfl⟩ (fun rs h => align_wf 0 [exC10, exC10] rs _ _ _ _ (by simp [exC10_wf]) h)

example : ∃ r, transpose exC10 (some [.name "z", .pos 0, .name "y"]) = .ok r ∧ r.WF :=
  exists_ok_and ⟨_, rfl⟩ (fun r h => transpose_wf exC10 r _ exC10_wf h)

example : ∃ r, swapaxes exC10 (.name "z") (.pos 0) = .ok r ∧ r.WF :=
  exists_ok_and ⟨_, rfl⟩ (fun r h => swapaxes_wf exC10 r _ _ exC10_wf h)

example : ∃ r, rollaxis exC10 (.name "z") 0 = .ok r ∧ r.WF :=
  exists_ok_and ⟨_, rfl⟩ (fun r h => rollaxis_wf exC10 r _ _ exC10_wf h)

example : ∃ r, newaxis exC10 "n" 1 (some { name := "q", labels := [.num 1, .num 2], kind := .i }) = .ok r ∧ r.WF :=
  exists_ok_and ⟨_, rfl⟩ (fun r h => newaxis_wf exC10 r "n" 1 _ (by decide) (by intro v hv; cases hv; rfl) exC10_wf h)

example : ∃ r, squeeze exC10 none = .ok r ∧ r.WF :=
  exists_ok_and ⟨_, rfl⟩ (fun r h => squeeze_wf exC10 r _ exC10_wf h)

example : ∃ r, repeatAxis exC10 { name := "q", labels := [.num 1, .num 2], kind := .i } (.name "z") = .ok r ∧ r.WF :=
  exists_ok_and ⟨_, rfl⟩ (fun r h => repeatAxis_wf exC10 r _ _ rfl exC10_wf h)

/-- `flatten`: the freshness hypothesis holds (`"z,x"` is not the name of the remaining dimension `y`), and
flatten-then-unflatten is well-formed again -/
example : ∃ r, flatten exC10 ["z", "x"] none = .ok r ∧ r.WF ∧ (unflattenAll r).WF :=
  exists_ok_and ⟨_, rfl⟩ (fun r h => ⟨flatten_wf exC10 r ["z", "x"] none exC10_wf (by decide) h,
    flatten_unflattenAll_wf exC10 r ["z", "x"] none exC10_wf (by decide) h⟩)

example : ∃ r, stack 0 [exC10, exC10] (some "k") [.num 0, .num 1] .i false false = .ok r ∧ r.WF :=
  exists_ok_and ⟨_, rfl⟩
    (fun r h => stack_named_wf 0 [exC10, exC10] "k" _ _ false false r (by simp [exC10_wf]) (by decide) h)

example : ∃ r, concatenate 0 [exC10, exC10] (.name "y") false false = .ok r ∧ r.WF :=
  exists_ok_and ⟨_, rfl⟩ (fun r h => concatenate_wf 0 [exC10, exC10] _ false false r (by simp [exC10_wf])
    (by intro a ha; simp only [List.mem_cons, List.not_mem_nil, or_false, or_self] at ha; subst ha; decide) h)

/-- a reduction over a tuple of axes (the grouped axis is created and removed again) -/
example : ∃ r, reduceAxis (fun l => l.foldl (· + ·) 0) exC10 (.many [.name "x", .pos 2]) = .ok (.inr r) ∧ r.WF :=
  ⟨_, rfl, reduceAxis_wf (fun l => l.foldl (· + ·) 0) exC10 _ (.many [.name "x", .pos 2]) exC10_wf rfl⟩

example : ∃ r, cumAxis (fun l => l.foldl (· + ·) 0) exC10 (.one (.name "y")) = .ok (.inr r) ∧ r.WF :=
  ⟨_, rfl, cumAxis_wf (fun l => l.foldl (· + ·) 0) exC10 _ (.one (.name "y")) exC10_wf
    (fun ks names hk => by cases hk) rfl⟩

example : ∃ r, diffAxis (fun (a b : Nat) => a - b) 0 exC10 (.one (.name "y")) .backward true 2 = .ok r ∧ r.WF :=
  exists_ok_and ⟨_, rfl⟩ (fun r h => diffAxis_one_wf _ 0 exC10 r _ _ _ _ exC10_wf (by decide) h)

example : ∃ r, compressAxis exC10 [true, false, true] (.name "y") = .ok r ∧ r.WF :=
  exists_ok_and ⟨_, rfl⟩ (fun r h => compressAxis_wf exC10 r _ _ exC10_wf h)

example : ∃ r, takeAxis exC10 [.num 2, .num 0] (.name "y") .position false = .ok r ∧ r.WF :=
  exists_ok_and ⟨_, rfl⟩ (fun r h => takeAxis_wf exC10 r _ _ _ _ exC10_wf h)

/-- a cumulative transform over a tuple of axes: the result keeps the grouped axis `"x,z"`, whose name is fresh -/
example : ∃ r, cumAxis (fun l => l.foldl (· + ·) 0) exC10 (.many [.name "x", .name "z"]) = .ok (.inr r) ∧ r.WF :=
  ⟨_, rfl, cumAxis_wf (fun l => l.foldl (· + ·) 0) exC10 _ (.many [.name "x", .name "z"]) exC10_wf
    (fun ks names hk hn => by
      cases hk
      have e : [DimKey.name "x", DimKey.name "z"].mapM (keyName exC10) = .ok ["x", "z"] := rfl
      rw [e] at hn
      cases hn
      unfold C05.GroupNameFresh
      decide) rfl⟩

end examples

namespace DSV

theorem exDs_wf : DsWF exDs := by
  intro kv hkv
  simp only [exDs, List.mem_cons, List.not_mem_nil, or_false] at hkv
  rcases hkv with rfl | rfl
  · exact ⟨rfl, by decide, by decide⟩
  · exact ⟨rfl, by decide, by decide⟩

/-- the Dataset theorems compose: `take_axis` along `x`, then along `y`, on the concrete good Dataset of C14 -/
example : ∃ o1 o2, takeAxisPosDs exDs "x" [2, 0] = .ok o1 ∧ takeAxisPosDs o1 "y" [1] = .ok o2 ∧
    GoodDs o2 ∧ DsWF o2 := by
  obtain ⟨o2, h⟩ := okKeys_some (r := takeAxisPosDs exDs "x" [2, 0] >>= fun o1 => takeAxisPosDs o1 "y" [1])
    (ks := ["a", "b"]) (by decide)
  obtain ⟨o1, h1, h2⟩ := C16.bind_ok h
  obtain ⟨g1, w1⟩ := takeAxisPosDs_wf exDs o1 "x" [2, 0] exDs_good exDs_wf h1
  exact ⟨o1, o2, h1, h2, takeAxisPosDs_wf o1 o2 "y" [1] g1 w1 h2⟩

example : ∃ out, reduceDs 0 exSum exDs "x" = .ok out ∧ GoodDs out ∧ DsWF out := by
  obtain ⟨out, hout⟩ := reduceDs_ok 0 exSum exDs "x" exDs_good (by simp [exDs, Ds.dims, exX])
  exact ⟨out, hout, reduceDs_wf 0 exSum exDs out "x" exDs_good exDs_wf hout⟩

example : ∃ out, stackDs 0 [exDs, exDs4] (some "s") [.num 0, .num 1] .i = .ok out ∧ DsWF out := by
  obtain ⟨out, hout⟩ := okKeys_some (r := stackDs 0 [exDs, exDs4] (some "s") [.num 0, .num 1] .i)
    (ks := ["a", "b"]) (by decide)
  refine ⟨out, hout, (stackDs_wf 0 [exDs, exDs4] (some "s") _ _ out ?_ ?_ hout).dsWF⟩
  · intro ds hds kv hkv
    simp only [List.mem_cons, List.not_mem_nil, or_false] at hds
    rcases hds with rfl | rfl
    · exact good_inputs exDs_good exDs_wf kv hkv
    · simp only [exDs4, List.mem_cons, List.not_mem_nil, or_false] at hkv
      rcases hkv with rfl | rfl
      · exact ⟨⟨rfl, by decide, by decide⟩, by decide⟩
      · exact ⟨⟨rfl, by decide, by decide⟩, by decide⟩
  · intro name hn
    obtain ⟨rfl, _⟩ := C05.checkStackAxis_some "s" _ name hn
    decide

end DSV


/-!
### SUMMARY: function -> theorem -> hypotheses beyond "inputs well-formed, call succeeds"

(`WF` = `DimArray.WF`; "plain" = `PlainAxes`: no grouped axis; CX = machine-checked counterexample above.  Every
extra hypothesis marks a place where the MIRROR returns an ill-formed array - dimarray itself raises there, or
returns a well-formed array, because every result is re-built by `DimArray.__init__`.)

| mirror function (Lib)                | theorem                         | extra hypotheses                                                                 |
|--------------------------------------|---------------------------------|----------------------------------------------------------------------------------|
| `construct`                          | `construct_wf` (above)          | names accepted by `Axes.append`                                                  |
| `take` (tuple / dict / axis=, any cfg)| `take_all_wf`                  | none  (`take_wf` above is the same fact for the specification `Spec.take`)       |
| `takeAxisPos`                        | `takeAxisPos_wf` (above)        | none                                                                             |
| `put`, `putBool`                     | `put_wf`, `putBool_wf`          | none                                                                             |
| `reindexAxis`, `reindexLike`         | `reindexAxis_wf`, `reindexLike_wf` | none                                                                          |
| `align` (every output)               | `align_wf`                      | none                                                                             |
| `operation`, `operationNd`           | `operation_wf`, `operationNd_wf`| none                                                                             |
| `transpose`, `swapaxes`, `rollaxis`  | `transpose_wf`, `swapaxes_wf`, `rollaxis_wf` | none                                                                |
| `newaxis`                            | `newaxis_wf`                    | `name ≠ ""` (CX `newaxis_empty_name_counterexample`); `values` axis has no members |
| `squeeze`                            | `squeeze_wf`                    | none                                                                             |
| `repeatAxis`                         | `repeatAxis_wf`                 | `newax.members = []` (CX `repeatAxis_grouped_counterexample`)                    |
| `flatten`                            | `flatten_wf`                    | joined name not a remaining dimension (CX `flatten_name_clash_counterexample`)   |
| `unflattenAt`                        | `unflattenAt_wf`                | the listed names are distinct, non-empty (CX `unflattenAt_name_clash_counterexample`) |
| `unflattenAll`                       | `unflattenAll_wf`               | the ungrouped names are distinct, non-empty; holds after `flatten` of a plain array (`flatten_unflattenAll_wf`) |
| `reshape`                            | `reshape_wf`                    | no empty string among `newdims` (CX `reshape_empty_name_counterexample`)         |
| `alignDims` (every output)           | `alignDims_wf`                  | none                                                                             |
| `broadcast`                          | `broadcast_wf`                  | target names non-empty (they are the names of an array)                          |
| `broadcastArrays` (every output)     | `broadcastArrays_wf`            | none                                                                             |
| `stack`                              | `stack_wf`, `stack_named_wf`, `stack_default_wf` | new name non-empty and not a dimension of the inputs: automatic for `axis = some s`, `s ≠ ""`, and for the default `"unnamed"` when no input has it (CX `stack_empty_name_counterexample`; the fallback names `unnamed_i` are left to the hypothesis) |
| `concatenate`                        | `concatenate_wf`                | inputs plain (CX `concatenate_grouped_counterexample`)                           |
| `reduceAxis` (array result)          | `reduceAxis_wf`                 | none (name, position or tuple of axes)                                           |
| `argAxis` (array result)             | `argAxis_wf`                    | none                                                                             |
| `cumAxis` (array result)             | `cumAxis_wf`                    | for a tuple of axes: joined name fresh (as `flatten`)                            |
| `diffAxis`                           | `diffAxis_wf`, `diffAxis_one_wf`| as `cumAxis`; differenced axis plain, or forward/backward without keepaxis (CX `diffAxis_grouped_keepaxis_counterexample`) |
| `sortAxis`, `takeAxis`, `compressAxis`, `dropna` | `sortAxis_wf`, `takeAxis_wf`, `compressAxis_wf`, `dropna_wf` | none                                 |
| `fillna`, `setna`                    | `fillna_wf`, `setna_wf`         | none                                                                             |
| `interpAxis`                         | `interpAxis_wf`                 | none                                                                             |
| `DSV.setItem`                        | `DSV.setItem_wf`                | Dataset under construction `DsOK`; value well-formed and plain                   |
| `DSV.fromVars`, `DSV.copyDs`         | `DSV.fromVars_wf`, `DSV.copyDs_wf` | variables well-formed and plain                                               |
| `DSV.takeDs`, `takeAxisPosDs`, `takeAxisLabel`, `sortAxisDs`, `reindexAxisDs`, `reindexLikeDs`, `reduceDs`, `interpAxisDs` | `DSV.<fn>_wf` | `GoodDs ds` (C14: shared own axes) and `DsWF ds`; conclusion `GoodDs out ∧ DsWF out` (CX `DSV.takeAxisPosDs_unshared_counterexample`: well-formed variables alone are not enough) |
| `DSV.binaryOpDs` (scalar)            | `DSV.binaryOpDs_scalar_wf`      | variables well-formed and plain                                                  |
| `DSV.binaryOpDs` (Dataset)           | `DSV.binaryOpDs_ds_wf`          | variables well-formed and `OpInput` (C14: alignable, comma-free names)           |
| `DSV.stackDs`                        | `DSV.stackDs_wf`                | variables well-formed and plain; new name non-empty                              |
| `DSV.concatenateDs`                  | `DSV.concatenateDs_wf`          | variables well-formed and plain                                                  |
-/

end DimModel

/-! ### history independence: the cached `_monotonic` of Axis objects (Lib/AxisCache.lean) -/
namespace DimModel
namespace AxisCache
open Lib

/-- a constructed axis has no cached state -/
theorem coherent_init (L : List Label) (k : Kind) : (fresh L k).Coherent ∧ Coherent ([] : St) :=
  ⟨coh_fresh L k, fun _ h => by cases h⟩

/-- the flag copy of `Axis.__getitem__(slice)` is sound: any Python slice (any start / stop / non-zero step, negative
steps included) of a strictly monotonic label sequence is strictly monotonic -/
theorem slice_keeps_monotonic (L : List Label) (s e st : Option Int) (ps : List Nat)
    (h : slicePositions s e st L.length = .ok ps) (hm : isMonotonic L = true) :
    isMonotonic (sliceLabels L ps) = true :=
  sliceLabels_monotonic L s e st ps h hm

/-- every public Axis operation keeps every live object coherent (objects rewritten in place, new objects - slices,
copies, unions - and operands whose flag is filled as a side effect) -/
theorem coherent_step (s : St) (op : AOp) (hs : Coherent s) : Coherent (step s op).1 :=
  apply_coherent s (eff s op) hs (eff_coh s op hs)

/-- ... hence after any history -/
theorem coherent_run (ops : List AOp) : ∀ s : St, Coherent s → Coherent (run s ops).1 := by
  induction ops with
  | nil => intro s hs; exact hs
  | cons op ops ih => intro s hs; exact ih _ (coherent_step s op hs)

/-- the clause: after ANY history from the empty heap, every live object answers `is_monotonic()` like the freshly
constructed axis with the same labels, and its flag afterwards is the fresh one's -/
theorem query_history_independent (ops : List AOp) (a : CAxis) (ha : a ∈ (run [] ops).1) :
    a.isMono.1 = a.forget.isMono.1 ∧ a.isMono.2.forget = a.forget.isMono.2.forget := by
  have hc : a.Coherent := coherent_run ops [] (fun _ h => by cases h) a ha
  refine ⟨?_, ?_⟩
  · rw [isMono_fst a hc, isMono_fst a.forget (Or.inl rfl)]; rfl
  · rw [isMono_forget, isMono_forget]; rfl

/-- ... and `union` (the only other reader of the flag) of two live objects returns the same labels / the same operand
as on freshly constructed operands -/
theorem union_history_independent (ops : List AOp) (i j : Nat) (a b : CAxis)
    (ha : a ∈ (run [] ops).1) (hb : b ∈ (run [] ops).1) :
    (unionEff i j a b).new.map CAxis.forget = (unionEff i j a.forget b.forget).new.map CAxis.forget ∧
    (unionEff i j a b).res = (unionEff i j a.forget b.forget).res :=
  unionEff_answer i j a b (coherent_run ops [] (fun _ h => by cases h) a ha) (coherent_run ops [] (fun _ h => by cases h) b hb)

/-! #### full bisimulation (Proofs/C05Bisim.lean): the cached flags are unobservable -/

/-- erasing the flags gives a coherent heap, and is idempotent -/
theorem forgetSt_coherent (s : St) : Coherent (forgetSt s) ∧ forgetSt (forgetSt s) = forgetSt s :=
  ⟨forget_coherent s, forgetSt_idem s⟩

/-- ONE STEP: for every operation and every coherent heap, the operation returns the same result on the heap and on the
heap with all flags erased, and the two new heaps are equal up to the flags -/
theorem step_forget (s : St) (op : AOp) (hs : Coherent s) :
    (step s op).2 = (step (forgetSt s) op).2 ∧ forgetSt (step s op).1 = forgetSt (step (forgetSt s) op).1 :=
  step_forget' s op hs

/-- any history from two coherent heaps that agree up to the flags: same results, final heaps agree up to the flags -/
theorem run_bisim (ops : List AOp) (s t : St) (hs : Coherent s) (ht : Coherent t) (hst : forgetSt s = forgetSt t) :
    (run s ops).2 = (run t ops).2 ∧ forgetSt (run s ops).1 = forgetSt (run t ops).1 :=
  run_sim ops s t hs ht hst

/-- the heap with erased flags IS the heap of freshly constructed axes: `Axis(labels)` for every live object, in order,
from the empty heap -/
theorem forgetSt_is_fresh_heap (s : St) : (run [] (reconstruct s)).1 = forgetSt s := by
  rw [run_construct s []]; rfl

/-- THE CLAUSE for the plain-axis machine: after ANY history `ops1` from the empty heap, ANY continuation `ops2` returns
the same results as from the heap of freshly constructed axes with the same labels (built by public constructor calls
alone), and the heaps reached agree up to the cached flags -/
theorem run_history_independent (ops1 ops2 : List AOp) :
    (run (run [] ops1).1 ops2).2 = (run (run [] (reconstruct (run [] ops1).1)).1 ops2).2 ∧
    forgetSt (run (run [] ops1).1 ops2).1 = forgetSt (run (run [] (reconstruct (run [] ops1).1)).1 ops2).1 := by
  rw [forgetSt_is_fresh_heap]
  exact run_sim ops2 _ _ (coherent_run ops1 [] (fun _ h => by cases h)) (forget_coherent _) (forgetSt_idem _).symm

/-- coherence is needed: with a stale flag (what `sort` produced before 5b0fd27) `is_monotonic()` answers differently
from the erased heap -/
theorem step_forget_incoherent_counterexample :
    let s : St := [{ labels := [.num 1, .num 2, .num 2], kind := .i, mono := some true }]
    ¬ Coherent s ∧ (step s (.isMonotonic 0)).2 ≠ (step (forgetSt s) (.isMonotonic 0)).2 := by
  refine ⟨?_, by decide⟩
  intro h
  have := h _ (List.mem_singleton.mpr rfl)
  revert this
  decide

/-- non-trivial instance: a history that fills, copies and resets flags, then a continuation reading them through
`union` and `is_monotonic` -/
example :
    let ops1 : List AOp := [.construct [.num 1, .num 2, .num 3] .i, .construct [.num 5, .num 4] .i, .isMonotonic 0,
                            .getSlice 0 none none (some (-1)), .union 0 1, .setItem 1 0 (.num 9) .i]
    let ops2 : List AOp := [.union 0 1, .isMonotonic 2, .union 2 1, .labels 4]
    (run [] ops1).1.map (·.mono) = [some true, none, some true, none] ∧
    (run (run [] ops1).1 ops2).2 = (run (forgetSt (run [] ops1).1) ops2).2 := by decide

/-- why 5b0fd27 was needed: an in-place sort that SETS the flag is incoherent as soon as the sorted labels hold a
duplicate ([2, 1, 2] -> [1, 2, 2]), and `is_monotonic()` then differs from the fresh axis -/
theorem sort_sets_true_counterexample (a : CAxis) (h : sortBy Label.le a.labels = [.num 1, .num 2, .num 2]) :
    ¬ (sortSetsTrue a).Coherent ∧ (sortSetsTrue a).isMono.1 ≠ (sortSetsTrue a).forget.isMono.1 := by
  have hm : isMonotonic [Label.num 1, Label.num 2, Label.num 2] = false := by decide
  refine ⟨?_, ?_⟩
  · intro hc
    rcases hc with hc | hc
    · simp [sortSetsTrue] at hc
    · simp [sortSetsTrue, h, hm] at hc
  · simp [sortSetsTrue, CAxis.isMono, CAxis.forget, h, hm]

/-- the hypotheses are satisfiable by a non-trivial history: flag filled, copied to a reversed slice, reset by a relabelling -/
example : (run [] [.construct [.num 1, .num 2, .num 3] .i, .isMonotonic 0, .getSlice 0 none none (some (-1)),
                   .setItem 0 0 (.num 2) .i, .isMonotonic 0]).1.map (·.mono) = [some false, some true] := by decide

end AxisCache
end DimModel

/-! ### history independence: the cached labels / size / name of grouped axes (Lib/GroupedCache.lean) -/
namespace DimModel
namespace GroupedCache
open Lib

/-- every operation of a history is safe in the state it runs in -/
def safeRun : St → List GOp → Bool
  | _, [] => true
  | s, op :: ops => Safe s op && safeRun (step s op).1 ops

theorem grouped_coherent_init : Coherent ({} : St) := fun _ h => by cases h

/-- every operation other than (a) relabelling / renaming a plain axis that is a member of a live grouped axis and
(b) item assignment on the grouped axis keeps every grouped axis coherent: cached tuple labels, size and name are
unset or what a fresh `MultiAxis` of the members as they are now computes -/
theorem grouped_coherent_step (s : St) (op : GOp) (hs : Coherent s) (hsafe : Safe s op = true) : Coherent (step s op).1 :=
  step_coherent s op hs hsafe

theorem grouped_coherent_run (ops : List GOp) : ∀ s : St, Coherent s → safeRun s ops = true → Coherent (run s ops).1 := by
  induction ops with
  | nil => intro s hs _; exact hs
  | cons op ops ih =>
    intro s hs h
    simp only [safeRun, Bool.and_eq_true] at h
    exact ih _ (step_coherent s op hs h.1) h.2

/-- `a.flatten(dims)` groups COPIES: no axis that existed before becomes a member, so relabelling / renaming the
source array's axes afterwards stays a safe operation (the flattened array is not reached) -/
theorem flatten_isolated_from_source (s : St) (ms : List Nat) (p : Nat) (hp : p < s.plain.length) :
    isMember (step s (.flattenFrom ms)).1 p = isMember s p := by
  simp only [step]
  split
  · simp only [isMember, List.any_append, List.any_cons, List.any_nil, Bool.or_false]
    have : (List.range' s.plain.length ms.length).contains p = false := by
      simp only [List.contains_eq_mem, List.mem_range'_1, decide_eq_false_iff_not]; omega
    rw [this, Bool.or_false]
  · rfl

/-- what survives even the unsafe operations: relabelling / renaming ANY plain axis (members of live grouped axes included)
keeps every cached `_size` honest - no setter changes a length -/
theorem grouped_size_survives_member_mutation (s : St) (p : Nat) (pos : Int) (v : Label) (n : String) (hs : SizeCoherent s) :
    SizeCoherent (step s (.relabelMember p pos v)).1 ∧ SizeCoherent (step s (.renameMember p n)).1 :=
  ⟨relabel_size_coherent s p pos v hs, rename_size_coherent s p n hs⟩

/-- (a) is needed - the open defect: `g = MultiAxis(x, y); g.values; x[0] = 9; g.values` answers the OLD tuples, the same
history without the first read answers the new ones; the state after the relabelling is incoherent -/
theorem grouped_stale_after_member_relabel_counterexample :
    let pre : List GOp := [.mkPlain [.num 1, .num 2] "x", .mkPlain [.num 5, .num 6] "y", .group [0, 1]]
    let relabel : GOp := .relabelMember 0 0 (.num 9)
    (run {} (pre ++ [.readLabels 0, relabel, .readLabels 0])).2.getLast? ≠ (run {} (pre ++ [relabel, .readLabels 0])).2.getLast? ∧
    Coherent (run {} (pre ++ [.readLabels 0])).1 ∧ ¬ Coherent (run {} (pre ++ [.readLabels 0, relabel])).1 ∧
    (run {} (pre ++ [.readLabels 0, relabel, .readLabels 0, .unflatten 0])).2.getLast? =
      some (.members [([.num 9, .num 2], "x"), ([.num 5, .num 6], "y")]) := by decide

/-- the same through `flatten`: the members of the grouped axis of the flattened array (`b.axes[0].axes[0]`) -/
theorem flatten_stale_after_member_relabel_counterexample :
    let pre : List GOp := [.mkPlain [.num 1, .num 2] "x", .mkPlain [.num 5, .num 6] "y", .flattenFrom [0, 1]]
    (run {} (pre ++ [.readLabels 0, .relabelMember 2 0 (.num 9), .readLabels 0])).2.getLast? ≠
      (run {} (pre ++ [.relabelMember 2 0 (.num 9), .readLabels 0])).2.getLast? ∧
    -- relabelling the SOURCE axis (object 0) is harmless
    (run {} (pre ++ [.readLabels 0, .relabelMember 0 0 (.num 9), .readLabels 0])).2.getLast? =
      (run {} (pre ++ [.relabelMember 0 0 (.num 9), .readLabels 0])).2.getLast? := by decide

/-- the name is joined once: renaming a member leaves `g.name` stale although `unflatten` hands out the new name -/
theorem grouped_name_stale_after_member_rename_counterexample :
    let ops : List GOp := [.mkPlain [.num 1, .num 2] "x", .mkPlain [.num 5, .num 6] "y", .group [0, 1], .renameMember 0 "q"]
    (run {} (ops ++ [.readName 0])).2.getLast? = some (.name "x,y") ∧ ¬ Coherent (run {} ops).1 ∧
    freshName (run {} ops).1.plain [0, 1] = "q,y" := by decide

/-- no history dependence without a mutation (since the repair F73; before it `g.take(...)` and `g[pos] = t` raised
AttributeError until the labels had been read once - `run` of the first history ended in `.err .attribute`): the answers
are the same whether or not the labels were read before -/
theorem grouped_take_read_independent :
    let pre : List GOp := [.mkPlain [.num 1, .num 2] "x", .mkPlain [.num 5, .num 6] "y", .group [0, 1]]
    (run {} (pre ++ [.takeG 0 [0]])).2.getLast? = some (.tuples [[.num 1, .num 5]]) ∧
    (run {} (pre ++ [.readLabels 0, .takeG 0 [0]])).2.getLast? = some (.tuples [[.num 1, .num 5]]) ∧
    (run {} (pre ++ [.setItemG 0 0 [.num 7, .num 7]])).2.getLast? = some .unit ∧
    (run {} (pre ++ [.readLabels 0, .setItemG 0 0 [.num 7, .num 7]])).2.getLast? = some .unit := by decide

/-- for EVERY state and grouped axis: `take` answers the same with the cache empty as with the cache filled by a read -/
theorem grouped_take_fills (s : St) (g : Nat) (ps : List Int) :
    (step s (.takeG g ps)).2 = (step (step s (.readLabels g)).1 (.takeG g ps)).2 ∨ s.grouped[g]? = none := by
  cases h : s.grouped[g]? with
  | none => right; rfl
  | some x =>
    left
    have hlt : g < s.grouped.length := (List.getElem?_eq_some_iff.mp h).1
    have h' : (s.grouped.set g (fillVals s.plain x))[g]? = some (fillVals s.plain x) := by
      rw [List.getElem?_set_self hlt]
    have hid : fillVals s.plain (fillVals s.plain x) = fillVals s.plain x := by
      cases hv : x.vals <;> simp [fillVals, hv]
    simp only [step, h, h', hid]
    split <;> rfl

/-- (b) is needed: an accepted `g[pos] = t` rewrites the cached tuples only, the members keep their labels -/
theorem grouped_setitem_incoherent_counterexample :
    let ops : List GOp := [.mkPlain [.num 1, .num 2] "x", .mkPlain [.num 5, .num 6] "y", .group [0, 1], .readLabels 0,
                           .setItemG 0 0 [.num 7, .num 7]]
    ¬ Coherent (run {} ops).1 ∧
    (run {} (ops ++ [.unflatten 0])).2.getLast? = some (.members [([.num 1, .num 2], "x"), ([.num 5, .num 6], "y")]) := by decide

/-- the hypotheses are satisfiable by a non-trivial history: flatten, reads, copy, relabelling of the source, slices -/
example :
    let ops : List GOp := [.mkPlain [.num 1, .num 2] "x", .mkPlain [.str "a", .str "b", .str "c"] "y", .flattenFrom [1, 0],
                           .readLabels 0, .readSize 0, .relabelMember 0 1 (.num 7), .renameMember 1 "w", .copyG 0,
                           .sliceG 1 (some 1) none (some 2), .takeG 1 [-1], .group [0, 1], .readLabels 2]
    safeRun {} ops = true ∧ Coherent (run {} ops).1 ∧ (run {} ops).1.grouped.map (·.size) = [some 6, some 6, none] := by decide

end GroupedCache
end DimModel

/-
C05 - property theorems: every array the model's constructors and operations produce is
well-formed; all documented ways of specifying the same axes build the same axes; data whose
shape disagrees with the axes, and duplicate dimension names, are rejected.
-/
import DimModel.Lib.Init
import DimModel.Props.C01
import DimModel.Props.C07
namespace DimModel
open Lib

/-! ### constructors -/

theorem appendStep_ok (acc : List Axis) (ax : Axis) (h1 : ax.name ≠ "") (h2 : ∀ b ∈ acc, b.name ≠ ax.name) :
    appendStep acc ax = .ok (acc ++ [ax]) := by
  unfold appendStep
  have e1 : (ax.name == "") = false := by simpa using h1
  have e2 : acc.any (·.name == ax.name) = false := by
    rw [List.any_eq_false]; intro b hb; simpa using h2 b hb
  simp [e1, e2]

theorem appendStep_cases (acc : List Axis) (ax : Axis) :
    (appendStep acc ax = .ok (acc ++ [ax]) ∧ ax.name ≠ "" ∧ ∀ b ∈ acc, b.name ≠ ax.name) ∨
    (appendStep acc ax = .error .value ∧ (ax.name = "" ∨ ∃ b ∈ acc, b.name = ax.name)) := by
  by_cases h1 : ax.name = ""
  · right; exact ⟨by simp [appendStep, h1], Or.inl h1⟩
  · by_cases h2 : ∃ b ∈ acc, b.name = ax.name
    · right
      refine ⟨?_, Or.inr h2⟩
      obtain ⟨b, hb, hbn⟩ := h2
      have : acc.any (·.name == ax.name) = true := by
        rw [List.any_eq_true]; exact ⟨b, hb, by simpa using hbn⟩
      simp [appendStep, h1, this]
    · left
      have h2' : ∀ b ∈ acc, b.name ≠ ax.name := fun b hb hbn => h2 ⟨b, hb, hbn⟩
      exact ⟨appendStep_ok acc ax h1 h2', h1, h2'⟩

/-- the accumulator loop of `Axes.append` -/
theorem appendAll_go (axes acc : List Axis) :
    (axes.foldlM appendStep acc = .ok (acc ++ axes)) ↔
    ((axes.map (·.name)).Nodup ∧ (∀ ax ∈ axes, ax.name ≠ "") ∧ ∀ ax ∈ axes, ∀ b ∈ acc, b.name ≠ ax.name) := by
  induction axes generalizing acc with
  | nil => simp [List.foldlM, pure, Except.pure]
  | cons ax rest ih =>
    rw [List.foldlM_cons]
    rcases appendStep_cases acc ax with ⟨hs, hne, hacc⟩ | ⟨hs, hbad⟩
    · rw [hs]
      show (rest.foldlM appendStep (acc ++ [ax]) = _) ↔ _
      have := ih (acc ++ [ax])
      simp only [List.append_assoc, List.singleton_append] at this
      rw [this]
      simp only [List.map_cons, List.nodup_cons, List.mem_map, List.mem_cons, List.mem_append,
        List.mem_singleton, List.not_mem_nil, or_false]
      constructor
      · rintro ⟨hn, hne', h3⟩
        refine ⟨⟨?_, hn⟩, ?_, ?_⟩
        · rintro ⟨b, hb, hbn⟩
          exact h3 b hb ax (Or.inr rfl) hbn.symm
        · rintro a (rfl | ha)
          · exact hne
          · exact hne' a ha
        · rintro a (rfl | ha) b hb
          · exact hacc b hb
          · exact h3 a ha b (Or.inl hb)
      · rintro ⟨⟨hnot, hn⟩, hne', h3⟩
        refine ⟨hn, fun a ha => hne' a (Or.inr ha), ?_⟩
        rintro a ha b (hb | rfl)
        · exact h3 a (Or.inr ha) b hb
        · intro hbn
          exact hnot ⟨a, ha, hbn.symm⟩
    · rw [hs]
      show (Except.error Err.value = _) ↔ _
      constructor
      · intro h; cases h
      · rintro ⟨_, h2, h3⟩
        exfalso
        rcases hbad with h | ⟨b, hb, hbn⟩
        · exact h2 ax (by simp) h
        · exact h3 ax (by simp) b hb hbn

/-- `Axes.append` accepts a list of axes exactly when the names are distinct and non-empty;
duplicate (or empty) names are rejected with `ValueError` -/
theorem appendAll_ok_iff (axes : List Axis) :
    appendAll axes = .ok axes ↔ ((axes.map (·.name)).Nodup ∧ ∀ ax ∈ axes, ax.name ≠ "") := by
  have := appendAll_go axes []
  simp only [List.nil_append] at this
  unfold appendAll
  rw [this]
  simp

theorem appendAll_fold_result : ∀ (axes acc : List Axis),
    (axes.foldlM appendStep acc = .ok (acc ++ axes)) ∨ (axes.foldlM appendStep acc = .error .value)
  | [], acc => by left; simp [List.foldlM, pure, Except.pure]
  | ax :: rest, acc => by
    rw [List.foldlM_cons]
    rcases appendStep_cases acc ax with ⟨hs, _, _⟩ | ⟨hs, _⟩
    · rw [hs]
      show (rest.foldlM appendStep (acc ++ [ax]) = _) ∨ (rest.foldlM appendStep (acc ++ [ax]) = _)
      have := appendAll_fold_result rest (acc ++ [ax])
      simpa using this
    · rw [hs]; right; rfl

theorem appendAll_result (axes r : List Axis) (h : appendAll axes = .ok r) : r = axes := by
  unfold appendAll at h
  rcases appendAll_fold_result axes [] with h' | h'
  · rw [h'] at h; cases h; simp
  · rw [h'] at h; cases h

theorem appendAll_rejects_duplicates (axes : List Axis) (h : ¬ (axes.map (·.name)).Nodup) :
    appendAll axes = .error .value := by
  unfold appendAll
  rcases appendAll_fold_result axes [] with h' | h'
  · exfalso
    have : appendAll axes = .ok axes := by unfold appendAll; simpa using h'
    exact h ((appendAll_ok_iff axes).mp this).1
  · exact h'

/-- **all documented ways of specifying the same axes build the same axes**: label lists + dims,
(name, labels) pairs, Axis objects and a dict + dims (entries in any order `perm` of the
dimensions) -/
theorem initAxes_forms_agree (names : List String) (ls : List (List Label × Kind)) (shape : List Nat)
    (hlen : names.length = ls.length) :
    let axes := (names.zip ls).map (fun (d, l) => mkAxis d l)
    initAxes (.lists ls) (some names) shape = (if ls.isEmpty then .ok [] else appendAll axes) ∧
    initAxes (.pairs ((names.zip ls).map (fun (d, l) => (d, l.1, l.2)))) none shape = appendAll axes ∧
    initAxes (.objs axes) none shape = appendAll axes := by
  intro axes
  refine ⟨?_, ?_, ?_⟩
  · unfold initAxes
    by_cases he : ls.isEmpty = true
    · simp only [he, if_true]; rfl
    · simp only [he, Bool.false_eq_true, if_false]
      have : (names.length != ls.length) = false := by simp [hlen]
      simp only [this, Bool.false_eq_true, if_false]
      rfl
  · unfold initAxes
    simp only [List.map_map]
    congr 1
  · rfl

/-- every array the constructor returns is well-formed (for plain axes) ... -/
theorem construct_wf {α : Type} (vals : NDArr α) (vk : Kind) (arg : AxesArg) (dims : Option (List String))
    (a : DimArray α) (h : construct vals vk arg dims = .ok a)
    (hnames : ∀ axes, initAxes arg dims vals.shape = .ok axes →
      (axes.map (·.name)).Nodup ∧ ∀ ax ∈ axes, ax.name ≠ "") : a.WF := by
  unfold construct at h
  simp only [bind, Except.bind] at h
  cases hi : initAxes arg dims vals.shape with
  | error e => rw [hi] at h; cases h
  | ok axes =>
    rw [hi] at h
    simp only at h
    split at h
    · cases h
    · rename_i hs
      simp only [pure, Except.pure] at h
      cases h
      have hs' : axes.map (·.size) = vals.shape := by simpa using hs
      exact ⟨hs'.symm, (hnames axes hi).1, (hnames axes hi).2⟩

/-- ... and data whose shape disagrees with the axes is rejected -/
theorem construct_rejects_shape {α : Type} (vals : NDArr α) (vk : Kind) (arg : AxesArg)
    (dims : Option (List String)) (axes : List Axis) (hi : initAxes arg dims vals.shape = .ok axes)
    (hs : axes.map (·.size) ≠ vals.shape) : construct vals vk arg dims = .error .other := by
  unfold construct
  simp only [bind, Except.bind, hi]
  have : (axes.map (·.size) != vals.shape) = true := by simpa using hs
  simp [this]

/-! ### operations preserve well-formedness -/

theorem size_axisSelect (ax : Axis) (ps : List Nat) : (axisSelect ax ps).size = ps.length := by
  simp [axisSelect, Axis.size]

theorem takeAxes_names_sublist : ∀ (axes : List Axis) (ps : List PosIx),
    ((Spec.takeAxes axes ps).map (·.name)).Sublist (axes.map (·.name))
  | [], _ => by simp [Spec.takeAxes]
  | _ :: _, [] => by simp [Spec.takeAxes]
  | ax :: axes, .scalar _ :: ps => by
    simp only [Spec.takeAxes, List.map_cons]
    exact (takeAxes_names_sublist axes ps).cons _
  | ax :: axes, .list p :: ps => by
    simp only [Spec.takeAxes, List.map_cons]
    exact (takeAxes_names_sublist axes ps).cons₂ _

theorem takeAxes_sizes : ∀ (axes : List Axis) (ps : List PosIx), ps.length = axes.length →
    (Spec.takeAxes axes ps).map (·.size) = outerShape ps
  | [], [], _ => rfl
  | [], _ :: _, h => by simp at h
  | _ :: _, [], h => by simp at h
  | ax :: axes, .scalar _ :: ps, h => by
    simp only [Spec.takeAxes, outerShape]
    exact takeAxes_sizes axes ps (by simpa using h)
  | ax :: axes, .list p :: ps, h => by
    simp only [Spec.takeAxes, outerShape, List.map_cons, size_axisSelect]
    rw [takeAxes_sizes axes ps (by simpa using h)]

theorem takeAxes_mem_name (axes : List Axis) (ps : List PosIx) (x : Axis) (hx : x ∈ Spec.takeAxes axes ps) :
    x.name ∈ axes.map (·.name) := by
  have := (takeAxes_names_sublist axes ps).subset
  exact this (List.mem_map.mpr ⟨x, hx, rfl⟩)

theorem length_mapM_option {β γ : Type} (f : β → Option γ) : ∀ (l : List β) (r : List γ),
    l.mapM f = some r → r.length = l.length
  | [], r, h => by simp at h; subst h; rfl
  | x :: xs, r, h => by
    rw [List.mapM_cons] at h
    cases hx : f x with
    | none => simp [hx] at h
    | some y =>
      cases hxs : xs.mapM f with
      | none => simp [hx, hxs] at h
      | some ys =>
        simp [hx, hxs] at h
        subst h
        simp [length_mapM_option f xs ys hxs]

/-- label indexing returns a well-formed array (scalar-indexed dimensions dropped) -/
theorem take_wf {α : Type} (a : DimArray α) (ixs : List Ix) (r : DimArray α) (hwf : a.WF)
    (hr : Spec.take a ixs = .ok r) (hlen : ixs.length = a.axes.length) : r.WF := by
  unfold Spec.take at hr
  cases hS : (ixs.zip a.axes).mapM (fun (x : Ix × Axis) => Spec.positions x.2.labels x.1) with
  | none => rw [hS] at hr; cases hr
  | some ps =>
    rw [hS] at hr
    cases hr
    have hpl : ps.length = a.axes.length := by
      have := length_mapM_option _ _ _ hS
      simp [hlen] at this
      exact this
    refine ⟨?_, ?_, ?_⟩
    · simp only [NDArr.outer]
      exact (takeAxes_sizes a.axes ps hpl).symm
    · exact hwf.2.1.sublist (takeAxes_names_sublist a.axes ps)
    · intro x hx
      obtain ⟨y, hy, hxy⟩ := List.mem_map.mp (takeAxes_mem_name a.axes ps x hx)
      rw [← hxy]
      exact hwf.2.2 y hy

theorem size_axisTake (ax : Axis) (ps : List Nat) : (axisTake ax ps).size = ps.length := by
  simp [axisTake, Axis.size]

/-- positional take along one axis (the work-horse of reindexing and sorting) keeps the array
well-formed: same dimension names, the taken axis has one label per taken position -/
theorem takeAxisPos_wf {α : Type} (a : DimArray α) (pos : Nat) (ps : List Nat) (hwf : a.WF) :
    (takeAxisPos a pos ps).WF := by
  obtain ⟨hs, hn, hne⟩ := hwf
  refine ⟨?_, ?_, ?_⟩
  · simp only [takeAxisPos, NDArr.takeAxis, hs]
    apply List.ext_getElem
    · simp
    · intro i h1 h2
      simp only [List.getElem_set, List.getElem_map, List.getElem_mapIdx]
      by_cases hi : pos = i
      · subst hi; simp [size_axisTake]
      · have : (i == pos) = false := by simpa using (Ne.symm hi)
        simp [hi, this]
  · have : (takeAxisPos a pos ps).axes.map (·.name) = a.axes.map (·.name) := by
      simp only [takeAxisPos]
      apply List.ext_getElem
      · simp
      · intro i h1 h2
        simp only [List.getElem_map, List.getElem_mapIdx]
        split <;> simp [axisTake]
    rw [this]; exact hn
  · intro x hx
    simp only [takeAxisPos] at hx
    obtain ⟨i, hi, rfl⟩ := List.getElem_of_mem hx
    simp only [List.getElem_mapIdx]
    have hi' : i < a.axes.length := by simpa using hi
    split
    · simp only [axisTake]; exact hne _ (List.getElem_mem hi')
    · exact hne _ (List.getElem_mem hi')

/-- non-vacuity: distinct names are accepted, a duplicate is rejected -/
example : appendAll [mkAxis "x" ([.num 1], .i), mkAxis "y" ([], .f)] = .ok [mkAxis "x" ([.num 1], .i), mkAxis "y" ([], .f)]
    ∧ appendAll [mkAxis "x" ([.num 1], .i), mkAxis "x" ([], .f)] = .error .value := by
  constructor
  · rw [appendAll_ok_iff]; decide
  · apply appendAll_rejects_duplicates; decide

end DimModel

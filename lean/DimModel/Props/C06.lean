/-
C06 - property theorems: the common axis of an outer (inner) join is the set union (intersection)
of the inputs' labels, each label once; sorted inputs give a sorted result; the dtype-kind table
of the implementation (regenerated on every run) never loses information.
-/
import DimModel.Proofs.C06
import DimModel.Props.C02
import DimModel.Gen.TableC06
namespace DimModel
open Lib

theorem labels_beq {a b : List Label} : (a == b) = true ↔ a = b := by simp

theorem unionLabels_mem (cons : Bool) (a b : List Label) (v : Label) :
    v ∈ unionLabels cons a b ↔ v ∈ a ∨ v ∈ b := by
  unfold unionLabels
  split
  · split
    · rw [List.mem_reverse, mem_union1d]
    · rw [mem_union1d]
  · simp only [List.mem_append, List.mem_filter]
    constructor
    · rintro (h | ⟨h, _⟩)
      · exact Or.inl h
      · exact Or.inr h
    · rintro (h | h)
      · exact Or.inl h
      · by_cases hv : v ∈ a
        · exact Or.inl hv
        · exact Or.inr ⟨h, by simpa using hv⟩

theorem unionLabels_nodup (cons : Bool) (a b : List Label) (ha : a.Nodup) (hb : b.Nodup) :
    (unionLabels cons a b).Nodup := by
  unfold unionLabels
  split
  · split
    · exact (List.reverse_perm _).nodup_iff.mpr (nodup_union1d _ _ _)
    · exact nodup_union1d _ _ _
  · rw [List.nodup_append]
    refine ⟨ha, hb.sublist List.filter_sublist, ?_⟩
    intro x hx y hy hxy
    subst hxy
    have := (List.mem_filter.mp hy).2
    simp at this
    exact this hx

/-- outer join of two axes: a label is on the result iff it is on one of the operands -/
theorem union_mem (a b : Axis) (v : Label) :
    v ∈ (union a b).labels ↔ v ∈ a.labels ∨ v ∈ b.labels := by
  unfold union
  simp only
  by_cases h1 : (a.labels == b.labels) = true
  · have := labels_beq.mp h1
    simp [h1, this]
  · simp only [h1, if_false, Bool.false_eq_true]
    by_cases h2 : a.labels.isEmpty = true
    · have : a.labels = [] := List.isEmpty_iff.mp h2
      simp [h2, this]
    · simp only [h2, if_false, Bool.false_eq_true]
      by_cases h3 : b.labels.isEmpty = true
      · have : b.labels = [] := List.isEmpty_iff.mp h3
        simp [h3, this]
      · simp only [h3, if_false, Bool.false_eq_true]
        exact unionLabels_mem _ _ _ _

/-- ... and each label is there once -/
theorem union_nodup (a b : Axis) (ha : a.labels.Nodup) (hb : b.labels.Nodup) :
    (union a b).labels.Nodup := by
  unfold union
  simp only
  by_cases h1 : (a.labels == b.labels) = true
  · simp [h1, ha]
  · simp only [h1, if_false, Bool.false_eq_true]
    by_cases h2 : a.labels.isEmpty = true
    · simp [h2, hb]
    · simp only [h2, if_false, Bool.false_eq_true]
      by_cases h3 : b.labels.isEmpty = true
      · simp [h3, ha]
      · simp only [h3, if_false, Bool.false_eq_true]
        exact unionLabels_nodup _ _ _ ha hb

/-- inner join of two axes: a label is on the result iff it is on both operands -/
theorem intersection_mem (a b : Axis) (v : Label) :
    v ∈ (intersection a b).labels ↔ v ∈ a.labels ∧ v ∈ b.labels := by
  unfold intersection
  simp only
  by_cases h1 : (a.labels == b.labels) = true
  · have := labels_beq.mp h1
    simp [h1, this]
  · simp only [h1, if_false, Bool.false_eq_true]
    by_cases h2 : (a.labels.isEmpty || b.labels.isEmpty) = true
    · simp only [h2, if_true]
      rcases Bool.or_eq_true_iff.mp h2 with h | h
      · have : a.labels = [] := List.isEmpty_iff.mp h
        simp [this]
      · have : b.labels = [] := List.isEmpty_iff.mp h
        simp [this]
    · simp only [h2, if_false, Bool.false_eq_true]
      simp only [List.mem_filter, List.contains_iff_mem]
      constructor
      · rintro ⟨h1, h2, _⟩; exact ⟨h1, h2⟩
      · rintro ⟨h1, h2⟩; exact ⟨h1, h2, h1⟩

theorem intersection_nodup (a b : Axis) (ha : a.labels.Nodup) :
    (intersection a b).labels.Nodup := by
  unfold intersection
  simp only
  by_cases h1 : (a.labels == b.labels) = true
  · simp [h1, ha]
  · simp only [h1, if_false, Bool.false_eq_true]
    by_cases h2 : (a.labels.isEmpty || b.labels.isEmpty) = true
    · simp [h2]
    · simp only [h2, if_false, Bool.false_eq_true]
      exact ha.sublist List.filter_sublist

/-- the inner join keeps the order of the first operand -/
theorem intersection_sublist (a b : Axis) : (intersection a b).labels.Sublist a.labels := by
  unfold intersection
  simp only
  by_cases h1 : (a.labels == b.labels) = true
  · simp [h1]
  · simp only [h1, if_false, Bool.false_eq_true]
    by_cases h2 : (a.labels.isEmpty || b.labels.isEmpty) = true
    · simp [h2]
    · simp only [h2, if_false, Bool.false_eq_true]
      exact List.filter_sublist

/-- two strictly increasing axes of one kind family with at least two labels each: the union is
strictly increasing (sorted inputs give a result sorted in the same direction) -/
theorem union_sorted_increasing (a b : Axis) (ha : isIncreasing a.labels = true)
    (hb : isIncreasing b.labels = true) (hla : 2 ≤ a.labels.length) (hlb : 2 ≤ b.labels.length)
    (hc : (getCastKind a.kind b.kind).2 = true) (hne : a.labels ≠ b.labels) :
    (union a b).labels.Pairwise (fun x y => Label.lt x y = true) := by
  have hpw := union1d_pairwise Label.le Label.le_trans Label.le_total a.labels b.labels
  have hnd := nodup_union1d Label.le a.labels b.labels
  have hres : (union1d Label.le a.labels b.labels).Pairwise (fun x y => Label.lt x y = true) := by
    have := List.Pairwise.and hpw hnd
    exact this.imp (fun ⟨h1, h2⟩ => Label.lt_of_le_of_ne h1 h2)
  have hsa : slope a.labels = some true := by
    unfold slope
    have := increasing_head_le_last a.labels ha
    unfold headLeLast at this
    cases h1 : a.labels.head? <;> cases h2 : a.labels.getLast? <;> simp_all <;> omega
  have hsb : slope b.labels = some true := by
    unfold slope
    have := increasing_head_le_last b.labels hb
    unfold headLeLast at this
    cases h1 : b.labels.head? <;> cases h2 : b.labels.getLast? <;> simp_all <;> omega
  unfold union
  have h1 : (a.labels == b.labels) = false := by simpa using hne
  have h2 : a.labels.isEmpty = false := by cases h : a.labels <;> simp_all
  have h3 : b.labels.isEmpty = false := by cases h : b.labels <;> simp_all
  have hma : isMonotonic a.labels = true := by simp [isMonotonic, ha]
  have hmb : isMonotonic b.labels = true := by simp [isMonotonic, hb]
  simp only [h1, h2, h3, Bool.false_eq_true, if_false]
  unfold unionLabels
  simp only [hc, hma, hmb, hsa, hsb, sameSlope, decSlope, Bool.and_self, beq_self_eq_true, if_true]
  simpa using hres

theorem not_noneSingleton_of_not_mem (ax : Axis) (h : Label.none ∉ ax.labels) : isNoneSingleton ax = false := by
  unfold isNoneSingleton
  cases hb : (ax.labels == [Label.none])
  · rfl
  · have : ax.labels = [Label.none] := by simpa using hb
    rw [this] at h; simp at h

/-- the common axis of an outer join over any number of inputs carries exactly the labels that
occur on some input (no label invented, none lost) -/
theorem commonAxis_outer_mem : ∀ (axes : List Axis) (r : Axis),
    (∀ ax ∈ axes, Label.none ∉ ax.labels) → commonAxis .outer axes = some r →
    ∀ v, v ∈ r.labels ↔ ∃ ax ∈ axes, v ∈ ax.labels
  | [], r, _, h => by simp [commonAxis] at h
  | [ax], r, _, h => by
    simp only [commonAxis, Option.some.injEq] at h
    subst h; intro v; simp
  | ax0 :: ax1 :: rest, r, hns, h => by
    intro v
    simp only [commonAxis] at h
    cases hc : commonAxis .outer (ax1 :: rest) with
    | none =>
      rw [hc] at h
      simp only [Option.some.injEq] at h
      subst h
      exfalso
      cases rest with
      | nil => simp [commonAxis] at hc
      | cons x xs =>
        simp only [commonAxis] at hc
        split at hc
        · cases hc
        · split at hc <;> (try split at hc) <;> cases hc
    | some c =>
      rw [hc] at h
      have hns' : ∀ a ∈ ax1 :: rest, Label.none ∉ a.labels := fun a ha => hns a (by simp [ha])
      have ih := commonAxis_outer_mem (ax1 :: rest) c hns' hc
      have h0 : isNoneSingleton ax0 = false := not_noneSingleton_of_not_mem ax0 (hns ax0 (by simp))
      have h1 : isNoneSingleton c = false := by
        apply not_noneSingleton_of_not_mem
        intro hm
        obtain ⟨a, ha, hav⟩ := (ih Label.none).mp hm
        exact hns' a ha hav
      simp only [h0, h1, Bool.false_eq_true, if_false, Option.some.injEq] at h
      subst h
      rw [union_mem, ih]
      constructor
      · rintro (h | ⟨a, ha, hv⟩)
        · exact ⟨ax0, by simp, h⟩
        · exact ⟨a, by simp [ha], hv⟩
      · rintro ⟨a, ha, hv⟩
        rcases List.mem_cons.mp ha with rfl | ha'
        · exact Or.inl hv
        · exact Or.inr ⟨a, ha', hv⟩

/-- ... each label once -/
theorem commonAxis_outer_nodup : ∀ (axes : List Axis) (r : Axis),
    (∀ ax ∈ axes, ax.labels.Nodup) → commonAxis .outer axes = some r → r.labels.Nodup
  | [], r, _, h => by simp [commonAxis] at h
  | [ax], r, hn, h => by
    simp only [commonAxis, Option.some.injEq] at h
    subst h; exact hn _ (by simp)
  | ax0 :: ax1 :: rest, r, hn, h => by
    simp only [commonAxis] at h
    cases hc : commonAxis .outer (ax1 :: rest) with
    | none =>
      rw [hc] at h
      simp only [Option.some.injEq] at h
      subst h; exact hn _ (by simp)
    | some c =>
      rw [hc] at h
      have ih := commonAxis_outer_nodup (ax1 :: rest) c (fun a ha => hn a (by simp [ha])) hc
      simp only at h
      by_cases h0 : isNoneSingleton ax0 = true
      · simp only [h0, if_true, Option.some.injEq] at h
        subst h; exact ih
      · simp only [h0, if_false, Bool.false_eq_true] at h
        by_cases h1 : isNoneSingleton c = true
        · simp only [h1, if_true, Option.some.injEq] at h
          subst h; exact hn _ (by simp)
        · simp only [h1, if_false, Bool.false_eq_true, Option.some.injEq] at h
          subst h; exact union_nodup _ _ (hn _ (by simp)) ih

/-- the kind table of the implementation (regenerated from `_get_cast_kind` on every run) is the
one the model uses ... -/
theorem castKind_table_agrees :
    ∀ r ∈ Gen.castKindTable, getCastKind r.1 r.2.1 = (r.2.2.1, r.2.2.2) := by decide

/-- ... and it never loses information: equal kinds stay, int with float gives float, anything
with object gives object, and every other mixture is widened to object. -/
theorem castKind_table_lossless :
    ∀ r ∈ Gen.castKindTable,
      (r.1 = r.2.1 → r.2.2.1 = r.1) ∧
      ((r.1 = .O ∨ r.2.1 = .O) → r.2.2.1 = .O) ∧
      ((r.1 = .i ∧ r.2.1 = .f) ∨ (r.1 = .f ∧ r.2.1 = .i) → r.2.2.1 = .f) ∧
      (r.2.2.1 = r.1 ∨ r.2.2.1 = r.2.1 ∨ r.2.2.1 = .O) := by decide

theorem castKind_table_complete : Gen.castKindTable.length = 49 := by decide

/-- non-vacuity -/
example : isIncreasing [.num 1, .num 3] = true ∧ isIncreasing [.num 2, .num 3, .num 4] = true := by
  decide

end DimModel

/-
C06 - property theorems: the common axis of an outer (inner) join is the set union (intersection)
of the inputs' labels, each label once; sorted inputs give a sorted result; the dtype-kind table
of the implementation (regenerated on every run) never loses information.
End-to-end (round 2): `align` itself - `align_axis_spec`, `align_axis_labels` (one dimension), `align_all_spec`,
`align_all_labels` (all dimensions: the sequential re-indexing composes into the simultaneous one) and
`align_succeeds` (no failure on well-formed inputs), built on C07's `reindex_spec`.
-/
import DimModel.Proofs.C06
import DimModel.Props.C02
import DimModel.Props.C07
import DimModel.Gen.TableC06
namespace DimModel
open Lib

theorem labels_beq {a b : List Label} : (a == b) = true ↔ a = b := by simp

theorem unionLabels_mem (cons : Bool) (a b : List Label) (v : Label) :
    v ∈ unionLabels cons a b ↔ v ∈ a ∨ v ∈ b := by
  unfold unionLabels
  split
  · split
    · rw [List.mem_reverse, mem_union1d]
    · rw [mem_union1d]
  · simp only [List.mem_append, List.mem_filter]
    constructor
    · rintro (h | ⟨h, _⟩)
      · exact Or.inl h
      · exact Or.inr h
    · rintro (h | h)
      · exact Or.inl h
      · by_cases hv : v ∈ a
        · exact Or.inl hv
        · exact Or.inr ⟨h, by simpa using hv⟩

theorem unionLabels_nodup (cons : Bool) (a b : List Label) (ha : a.Nodup) (hb : b.Nodup) :
    (unionLabels cons a b).Nodup := by
  unfold unionLabels
  split
  · split
    · exact (List.reverse_perm _).nodup_iff.mpr (nodup_union1d _ _ _)
    · exact nodup_union1d _ _ _
  · rw [List.nodup_append]
    refine ⟨ha, hb.sublist List.filter_sublist, ?_⟩
    intro x hx y hy hxy
    subst hxy
    have := (List.mem_filter.mp hy).2
    simp at this
    exact this hx

/-- outer join of two axes: a label is on the result iff it is on one of the operands -/
theorem union_mem (a b : Axis) (v : Label) :
    v ∈ (union a b).labels ↔ v ∈ a.labels ∨ v ∈ b.labels := by
  unfold union
  simp only
  by_cases h1 : (a.labels == b.labels) = true
  · have := labels_beq.mp h1
    simp [h1, this]
  · simp only [h1, if_false, Bool.false_eq_true]
    by_cases h2 : a.labels.isEmpty = true
    · have : a.labels = [] := List.isEmpty_iff.mp h2
      simp [h2, this]
    · simp only [h2, if_false, Bool.false_eq_true]
      by_cases h3 : b.labels.isEmpty = true
      · have : b.labels = [] := List.isEmpty_iff.mp h3
        simp [h3, this]
      · simp only [h3, if_false, Bool.false_eq_true]
        exact unionLabels_mem _ _ _ _

/-- ... and each label is there once -/
theorem union_nodup (a b : Axis) (ha : a.labels.Nodup) (hb : b.labels.Nodup) :
    (union a b).labels.Nodup := by
  unfold union
  simp only
  by_cases h1 : (a.labels == b.labels) = true
  · simp [h1, ha]
  · simp only [h1, if_false, Bool.false_eq_true]
    by_cases h2 : a.labels.isEmpty = true
    · simp [h2, hb]
    · simp only [h2, if_false, Bool.false_eq_true]
      by_cases h3 : b.labels.isEmpty = true
      · simp [h3, ha]
      · simp only [h3, if_false, Bool.false_eq_true]
        exact unionLabels_nodup _ _ _ ha hb

/-- inner join of two axes: a label is on the result iff it is on both operands -/
theorem intersection_mem (a b : Axis) (v : Label) :
    v ∈ (intersection a b).labels ↔ v ∈ a.labels ∧ v ∈ b.labels := by
  unfold intersection
  simp only
  by_cases h1 : (a.labels == b.labels) = true
  · have := labels_beq.mp h1
    simp [h1, this]
  · simp only [h1, if_false, Bool.false_eq_true]
    by_cases h2 : (a.labels.isEmpty || b.labels.isEmpty) = true
    · simp only [h2, if_true]
      rcases Bool.or_eq_true_iff.mp h2 with h | h
      · have : a.labels = [] := List.isEmpty_iff.mp h
        simp [this]
      · have : b.labels = [] := List.isEmpty_iff.mp h
        simp [this]
    · simp only [h2, if_false, Bool.false_eq_true]
      simp only [List.mem_filter, List.contains_iff_mem]
      constructor
      · rintro ⟨h1, h2, _⟩; exact ⟨h1, h2⟩
      · rintro ⟨h1, h2⟩; exact ⟨h1, h2, h1⟩

theorem intersection_nodup (a b : Axis) (ha : a.labels.Nodup) :
    (intersection a b).labels.Nodup := by
  unfold intersection
  simp only
  by_cases h1 : (a.labels == b.labels) = true
  · simp [h1, ha]
  · simp only [h1, if_false, Bool.false_eq_true]
    by_cases h2 : (a.labels.isEmpty || b.labels.isEmpty) = true
    · simp [h2]
    · simp only [h2, if_false, Bool.false_eq_true]
      exact ha.sublist List.filter_sublist

/-- the inner join keeps the order of the first operand -/
theorem intersection_sublist (a b : Axis) : (intersection a b).labels.Sublist a.labels := by
  unfold intersection
  simp only
  by_cases h1 : (a.labels == b.labels) = true
  · simp [h1]
  · simp only [h1, if_false, Bool.false_eq_true]
    by_cases h2 : (a.labels.isEmpty || b.labels.isEmpty) = true
    · simp [h2]
    · simp only [h2, if_false, Bool.false_eq_true]
      exact List.filter_sublist

/-- two strictly increasing axes of one kind family with at least two labels each: the union is
strictly increasing (sorted inputs give a result sorted in the same direction) -/
theorem union_sorted_increasing (a b : Axis) (ha : isIncreasing a.labels = true)
    (hb : isIncreasing b.labels = true) (hla : 2 ≤ a.labels.length) (hlb : 2 ≤ b.labels.length)
    (hc : (getCastKind a.kind b.kind).2 = true) (hne : a.labels ≠ b.labels) :
    (union a b).labels.Pairwise (fun x y => Label.lt x y = true) := by
  have hpw := union1d_pairwise Label.le Label.le_trans Label.le_total a.labels b.labels
  have hnd := nodup_union1d Label.le a.labels b.labels
  have hres : (union1d Label.le a.labels b.labels).Pairwise (fun x y => Label.lt x y = true) := by
    have := List.Pairwise.and hpw hnd
    exact this.imp (fun ⟨h1, h2⟩ => Label.lt_of_le_of_ne h1 h2)
  have hsa : slope a.labels = some true := by
    unfold slope
    have := increasing_head_le_last a.labels ha
    unfold headLeLast at this
    cases h1 : a.labels.head? <;> cases h2 : a.labels.getLast? <;> simp_all <;> omega
  have hsb : slope b.labels = some true := by
    unfold slope
    have := increasing_head_le_last b.labels hb
    unfold headLeLast at this
    cases h1 : b.labels.head? <;> cases h2 : b.labels.getLast? <;> simp_all <;> omega
  unfold union
  have h1 : (a.labels == b.labels) = false := by simpa using hne
  have h2 : a.labels.isEmpty = false := by cases h : a.labels <;> simp_all
  have h3 : b.labels.isEmpty = false := by cases h : b.labels <;> simp_all
  have hma : isMonotonic a.labels = true := by simp [isMonotonic, ha]
  have hmb : isMonotonic b.labels = true := by simp [isMonotonic, hb]
  simp only [h1, h2, h3, Bool.false_eq_true, if_false]
  unfold unionLabels
  simp only [hc, hma, hmb, hsa, hsb, sameSlope, decSlope, Bool.and_self, beq_self_eq_true, if_true]
  simpa using hres

theorem not_noneSingleton_of_not_mem (ax : Axis) (h : Label.none ∉ ax.labels) : isNoneSingleton ax = false := by
  unfold isNoneSingleton
  cases hb : (ax.labels == [Label.none])
  · rfl
  · have : ax.labels = [Label.none] := by simpa using hb
    rw [this] at h; simp at h

/-- the common axis of an outer join over any number of inputs carries exactly the labels that
occur on some input (no label invented, none lost) -/
theorem commonAxis_outer_mem : ∀ (axes : List Axis) (r : Axis),
    (∀ ax ∈ axes, Label.none ∉ ax.labels) → commonAxis .outer axes = some r →
    ∀ v, v ∈ r.labels ↔ ∃ ax ∈ axes, v ∈ ax.labels
  | [], r, _, h => by simp [commonAxis] at h
  | [ax], r, _, h => by
    simp only [commonAxis, Option.some.injEq] at h
    subst h; intro v; simp
  | ax0 :: ax1 :: rest, r, hns, h => by
    intro v
    simp only [commonAxis] at h
    cases hc : commonAxis .outer (ax1 :: rest) with
    | none =>
      rw [hc] at h
      simp only [Option.some.injEq] at h
      subst h
      exfalso
      cases rest with
      | nil => simp [commonAxis] at hc
      | cons x xs =>
        simp only [commonAxis] at hc
        split at hc
        · cases hc
        · split at hc <;> (try split at hc) <;> cases hc
    | some c =>
      rw [hc] at h
      have hns' : ∀ a ∈ ax1 :: rest, Label.none ∉ a.labels := fun a ha => hns a (by simp [ha])
      have ih := commonAxis_outer_mem (ax1 :: rest) c hns' hc
      have h0 : isNoneSingleton ax0 = false := not_noneSingleton_of_not_mem ax0 (hns ax0 (by simp))
      have h1 : isNoneSingleton c = false := by
        apply not_noneSingleton_of_not_mem
        intro hm
        obtain ⟨a, ha, hav⟩ := (ih Label.none).mp hm
        exact hns' a ha hav
      simp only [h0, h1, Bool.false_eq_true, if_false, Option.some.injEq] at h
      subst h
      rw [union_mem, ih]
      constructor
      · rintro (h | ⟨a, ha, hv⟩)
        · exact ⟨ax0, by simp, h⟩
        · exact ⟨a, by simp [ha], hv⟩
      · rintro ⟨a, ha, hv⟩
        rcases List.mem_cons.mp ha with rfl | ha'
        · exact Or.inl hv
        · exact Or.inr ⟨a, ha', hv⟩

/-- ... each label once -/
theorem commonAxis_outer_nodup : ∀ (axes : List Axis) (r : Axis),
    (∀ ax ∈ axes, ax.labels.Nodup) → commonAxis .outer axes = some r → r.labels.Nodup
  | [], r, _, h => by simp [commonAxis] at h
  | [ax], r, hn, h => by
    simp only [commonAxis, Option.some.injEq] at h
    subst h; exact hn _ (by simp)
  | ax0 :: ax1 :: rest, r, hn, h => by
    simp only [commonAxis] at h
    cases hc : commonAxis .outer (ax1 :: rest) with
    | none =>
      rw [hc] at h
      simp only [Option.some.injEq] at h
      subst h; exact hn _ (by simp)
    | some c =>
      rw [hc] at h
      have ih := commonAxis_outer_nodup (ax1 :: rest) c (fun a ha => hn a (by simp [ha])) hc
      simp only at h
      by_cases h0 : isNoneSingleton ax0 = true
      · simp only [h0, if_true, Option.some.injEq] at h
        subst h; exact ih
      · simp only [h0, if_false, Bool.false_eq_true] at h
        by_cases h1 : isNoneSingleton c = true
        · simp only [h1, if_true, Option.some.injEq] at h
          subst h; exact hn _ (by simp)
        · simp only [h1, if_false, Bool.false_eq_true, Option.some.injEq] at h
          subst h; exact union_nodup _ _ (hn _ (by simp)) ih

theorem commonAxis_isSome (join : Join) : ∀ (ax : Axis) (rest : List Axis),
    ∃ r, commonAxis join (ax :: rest) = some r
  | ax, [] => ⟨ax, by simp [commonAxis]⟩
  | ax0, ax1 :: rest => by
    obtain ⟨c, hc⟩ := commonAxis_isSome join ax1 rest
    simp only [commonAxis, hc]
    split
    · exact ⟨_, rfl⟩
    · split
      · exact ⟨_, rfl⟩
      · cases join <;> exact ⟨_, rfl⟩

theorem union_name (a b : Axis) : (union a b).name = a.name ∨ (union a b).name = b.name := by
  unfold union
  simp only
  split
  · exact Or.inl rfl
  · split
    · exact Or.inr rfl
    · split
      · exact Or.inl rfl
      · exact Or.inl rfl

theorem intersection_name (a b : Axis) : (intersection a b).name = a.name := by
  unfold intersection
  simp only
  split
  · rfl
  · split <;> rfl

/-- the common axis of axes that all carry the name `d` carries the name `d` -/
theorem commonAxis_name (join : Join) (d : String) : ∀ (axes : List Axis) (r : Axis),
    (∀ ax ∈ axes, ax.name = d) → commonAxis join axes = some r → r.name = d
  | [], r, _, h => by simp [commonAxis] at h
  | [ax], r, hd, h => by
    simp only [commonAxis, Option.some.injEq] at h
    subst h; exact hd _ (by simp)
  | ax0 :: ax1 :: rest, r, hd, h => by
    obtain ⟨c, hc⟩ := commonAxis_isSome join ax1 rest
    have ih := commonAxis_name join d (ax1 :: rest) c (fun a ha => hd a (by simp [ha])) hc
    have h0 : ax0.name = d := hd _ (by simp)
    simp only [commonAxis, hc] at h
    split at h
    · cases h; exact ih
    · split at h
      · cases h; exact h0
      · cases join
        · simp only [Option.some.injEq] at h
          subst h
          rcases union_name ax0 c with hu | hu
          · rw [hu]; exact h0
          · rw [hu]; exact ih
        · simp only [Option.some.injEq] at h
          subst h
          rw [intersection_name]; exact h0

/-- the common axis of an inner join carries exactly the labels that occur on every input -/
theorem commonAxis_inner_mem : ∀ (axes : List Axis) (r : Axis),
    (∀ ax ∈ axes, Label.none ∉ ax.labels) → commonAxis .inner axes = some r →
    ∀ v, v ∈ r.labels ↔ ∀ ax ∈ axes, v ∈ ax.labels
  | [], r, _, h => by simp [commonAxis] at h
  | [ax], r, _, h => by
    simp only [commonAxis, Option.some.injEq] at h
    subst h; intro v; simp
  | ax0 :: ax1 :: rest, r, hns, h => by
    intro v
    obtain ⟨c, hc⟩ := commonAxis_isSome .inner ax1 rest
    have hns' : ∀ a ∈ ax1 :: rest, Label.none ∉ a.labels := fun a ha => hns a (by simp [ha])
    have ih := commonAxis_inner_mem (ax1 :: rest) c hns' hc
    have h0 : isNoneSingleton ax0 = false := not_noneSingleton_of_not_mem ax0 (hns ax0 (by simp))
    have h1 : isNoneSingleton c = false := by
      apply not_noneSingleton_of_not_mem
      intro hm
      exact hns' ax1 (by simp) ((ih Label.none).mp hm ax1 (by simp))
    simp only [commonAxis, hc, h0, h1, Bool.false_eq_true, if_false, Option.some.injEq] at h
    subst h
    rw [intersection_mem, ih]
    constructor
    · rintro ⟨h, hr⟩ a ha
      rcases List.mem_cons.mp ha with rfl | ha'
      · exact h
      · exact hr a ha'
    · intro hall
      exact ⟨hall ax0 (by simp), fun a ha => hall a (by simp [ha])⟩

/-- each label once, for either join -/
theorem commonAxis_nodup (join : Join) : ∀ (axes : List Axis) (r : Axis),
    (∀ ax ∈ axes, ax.labels.Nodup) → commonAxis join axes = some r → r.labels.Nodup
  | [], r, _, h => by simp [commonAxis] at h
  | [ax], r, hn, h => by
    simp only [commonAxis, Option.some.injEq] at h
    subst h; exact hn _ (by simp)
  | ax0 :: ax1 :: rest, r, hn, h => by
    obtain ⟨c, hc⟩ := commonAxis_isSome join ax1 rest
    have ih := commonAxis_nodup join (ax1 :: rest) c (fun a ha => hn a (by simp [ha])) hc
    simp only [commonAxis, hc] at h
    split at h
    · cases h; exact ih
    · split at h
      · cases h; exact hn _ (by simp)
      · cases join
        · simp only [Option.some.injEq] at h
          subst h; exact union_nodup _ _ (hn _ (by simp)) ih
        · simp only [Option.some.injEq] at h
          subst h; exact intersection_nodup _ _ (hn _ (by simp))

/-- the kind table of the implementation (regenerated from `_get_cast_kind` on every run) is the
one the model uses ... -/
theorem castKind_table_agrees :
    ∀ r ∈ Gen.castKindTable, getCastKind r.1 r.2.1 = (r.2.2.1, r.2.2.2) := by decide

/-- ... and it never loses information: equal kinds stay, int with float gives float, anything
with object gives object, and every other mixture is widened to object. -/
theorem castKind_table_lossless :
    ∀ r ∈ Gen.castKindTable,
      (r.1 = r.2.1 → r.2.2.1 = r.1) ∧
      ((r.1 = .O ∨ r.2.1 = .O) → r.2.2.1 = .O) ∧
      ((r.1 = .i ∧ r.2.1 = .f) ∨ (r.1 = .f ∧ r.2.1 = .i) → r.2.2.1 = .f) ∧
      (r.2.2.1 = r.1 ∨ r.2.2.1 = r.2.1 ∨ r.2.2.1 = .O) := by decide

theorem castKind_table_complete : Gen.castKindTable.length = 49 := by decide

/-- non-vacuity -/
example : isIncreasing [.num 1, .num 3] = true ∧ isIncreasing [.num 2, .num 3, .num 4] = true := by
  decide


/-! ### end-to-end (round 2): `align` itself, built from the common axes and `reindex_axis` -/

/-- one step of `align`: one array is re-indexed onto one common axis (when it has the dimension and its axis
differs) -/
def alignStep {α} (nan : α) (c : Axis) (o : DimArray α) : Except Err (DimArray α) :=
  match o.axes.find? (·.name == c.name) with
  | none => pure o
  | some oax =>
    if axisEq oax c then pure o
    else reindexAxis o (.name c.name) c.labels c.kind nan .f false none

theorem align_eq {α} (nan : α) (arrays : List (DimArray α)) (join : Join) (axis : Option String)
    (sort strict : Bool) :
    align nan arrays join axis sort strict =
      (getAlignedAxes (arrays.map (·.axes)) join axis sort strict >>= fun axes =>
        axes.foldlM (fun arrs ax => arrs.mapM (alignStep nan ax)) arrays) := rfl

theorem axisPos_name_ok (axes : List Axis) (d : String) (hd : d ∈ axes.map (·.name)) :
    axisPos axes (.name d) = .ok ((axes.map (·.name)).idxOf d) := by
  have := (findName_some axes d hd).1
  simp [axisPos, this]

theorem mapIdx_replace_names (l : List Axis) (pos : Nat) (g : Axis → Axis) (hg : ∀ x, (g x).name = x.name) :
    (l.mapIdx (fun i x => if i == pos then g x else x)).map (·.name) = l.map (·.name) := by
  apply List.ext_getElem?
  intro i
  simp only [List.getElem?_map, List.getElem?_mapIdx]
  cases l[i]? with
  | none => rfl
  | some x =>
    simp only [Option.map_some]
    split
    · rw [hg]
    · rfl

theorem mapIdx_const_names (l : List Axis) (pos : Nat) (y : Axis)
    (hy : y.name = (l.getD pos default).name) :
    (l.mapIdx (fun i x => if i == pos then y else x)).map (·.name) = l.map (·.name) := by
  apply List.ext_getElem?
  intro i
  simp only [List.getElem?_map, List.getElem?_mapIdx]
  cases h : l[i]? with
  | none => rfl
  | some x =>
    simp only [Option.map_some]
    split
    · rename_i hi
      have : i = pos := by simpa using hi
      subst this
      simp [hy, List.getD_eq_getElem?_getD, h]
    · rfl

/-- re-indexing keeps the dimension names -/
theorem reindex_dims {α : Type} (a : DimArray α) (axis : DimKey) (newL : List Label)
    (newKind fillKind : Kind) (fill : α) (raiseErr : Bool) (method : Option Side) (r : DimArray α)
    (hr : reindexAxis a axis newL newKind fill fillKind raiseErr method = .ok r) : r.dims = a.dims := by
  unfold reindexAxis at hr
  simp only [bind, Except.bind] at hr
  unfold DimArray.dims
  split at hr
  · cases hr
  · split at hr
    · cases hr
    · split at hr
      · split at hr
        · cases hr
        · simp only [pure, Except.pure] at hr
          cases hr
          exact mapIdx_const_names _ _ _ rfl
      · simp only [pure, Except.pure] at hr
        cases hr
        simp only [takeAxisPos]
        exact mapIdx_replace_names _ _ _ (fun x => rfl)

/-- value of an aligned array at index `j` of the new shape: the original value at the position of the same
labels, `nan` as soon as one coordinate's label is not on the original axis -/
def alignVals {α} (a : DimArray α) (newLabels : List (List Label)) (nan : α) : NDArr α :=
  { shape := newLabels.map (·.length)
    get := fun j =>
      let src := (List.range a.axes.length).map fun k =>
        let v := (newLabels.getD k []).getD (j.getD k 0) Label.none
        let L := (a.axes.getD k default).labels
        if v ∈ L then some (firstIdx L v) else none
      if src.all (·.isSome) then a.vals.get (src.map (·.getD 0)) else nan }

/-- the inputs the statement speaks about: distinct dimension names, unique labels, no `None` label, plain
(not grouped) axes, values of the shape the axes announce, no empty axis (re-indexing an EMPTY axis onto
labels is the open finding K05) -/
def AlignInput {α} (a : DimArray α) : Prop :=
  a.dims.Nodup ∧ a.vals.shape = a.axes.map (·.size) ∧
  ∀ ax ∈ a.axes, ax.labels.Nodup ∧ Label.none ∉ ax.labels ∧ ax.members = [] ∧ ax.labels ≠ []

/-- the source coordinates `alignVals` reads: per dimension, the position on the original axis of the label
found at the new coordinate (`none` when the original axis does not have it) -/
def alignSrc {α} (a : DimArray α) (newLabels : List (List Label)) (j : List Nat) : List (Option Nat) :=
  (List.range a.axes.length).map fun k =>
    let v := (newLabels.getD k []).getD (j.getD k 0) Label.none
    let L := (a.axes.getD k default).labels
    if v ∈ L then some (firstIdx L v) else none

theorem alignVals_get {α} (a : DimArray α) (nl : List (List Label)) (nan : α) (j : List Nat) :
    (alignVals a nl nan).get j =
      if (alignSrc a nl j).all (·.isSome) then a.vals.get ((alignSrc a nl j).map (·.getD 0)) else nan := rfl

/-- the values of `o` have the shape its axes announce and are the values of `a` moved to the coordinates of
the same labels, `nan` elsewhere -/
def ValsInv {α} (nan : α) (a o : DimArray α) : Prop :=
  o.vals.shape = o.axes.map (·.labels.length) ∧
  ∀ j, InRange (o.axes.map (·.labels.length)) j →
    o.vals.get j = (alignVals a (o.axes.map (·.labels)) nan).get j

theorem alignSrc_self {α} (a : DimArray α) (hn : ∀ ax ∈ a.axes, ax.labels.Nodup) (j : List Nat)
    (hj : InRange (a.axes.map (·.labels.length)) j) :
    alignSrc a (a.axes.map (·.labels)) j = j.map some := by
  obtain ⟨hl, hk⟩ := (inRange_iff_getD _ _).mp hj
  simp only [List.length_map] at hl hk
  apply List.ext_getElem
  · simp [alignSrc, hl]
  · intro k h1 h2
    have hk1 : k < a.axes.length := by simpa [alignSrc] using h1
    have hkj : k < j.length := by omega
    have hlt := hk k hk1
    have e1 : (a.axes.map (·.labels)).getD k [] = a.axes[k].labels := by
      simp [List.getD_eq_getElem?_getD, hk1]
    have e2 : a.axes.getD k default = a.axes[k] := by
      simp [List.getD_eq_getElem?_getD, hk1]
    have e3 : j.getD k 0 = j[k] := by
      simp [List.getD_eq_getElem?_getD, hkj]
    have e4 : (a.axes.map (·.labels.length)).getD k 0 = a.axes[k].labels.length := by
      simp [List.getD_eq_getElem?_getD, hk1]
    rw [e3, e4] at hlt
    have e5 : a.axes[k].labels.getD j[k] Label.none = a.axes[k].labels[j[k]] := by
      simp [List.getD_eq_getElem?_getD, hlt]
    simp only [alignSrc, List.getElem_map, List.getElem_range]
    rw [e1, e2, e3, e5]
    have hm : a.axes[k].labels[j[k]] ∈ a.axes[k].labels := List.getElem_mem hlt
    simp only [hm, if_true]
    rw [firstIdx_unique (hn _ (List.getElem_mem hk1)) hlt]

/-- an array is aligned with itself -/
theorem valsInv_self {α} (nan : α) (a : DimArray α) (hn : ∀ ax ∈ a.axes, ax.labels.Nodup)
    (hs : a.vals.shape = a.axes.map (·.labels.length)) : ValsInv nan a a := by
  refine ⟨hs, ?_⟩
  intro j hj
  rw [alignVals_get, alignSrc_self a hn j hj]
  simp [List.all_map, Function.comp_def]

theorem alignSrc_set_present {α} (a : DimArray α) (NL : List (List Label)) (newL : List Label) (pos : Nat)
    (j : List Nat) (hposN : pos < NL.length) (hposj : pos < j.length)
    (hNL : NL.getD pos [] = (a.axes.getD pos default).labels)
    (hv : newL.getD (j.getD pos 0) Label.none ∈ (a.axes.getD pos default).labels) :
    alignSrc a (NL.set pos newL) j =
      alignSrc a NL (j.set pos (firstIdx (a.axes.getD pos default).labels (newL.getD (j.getD pos 0) Label.none))) := by
  unfold alignSrc
  apply List.map_congr_left
  intro k _
  by_cases hkp : k = pos
  · subst hkp
    have e1 : (NL.set k newL).getD k [] = newL := by
      simp [List.getD_eq_getElem?_getD, List.getElem?_set_self hposN]
    have e2 : ∀ x, (j.set k x).getD k 0 = x := by
      intro x; simp [List.getD_eq_getElem?_getD, List.getElem?_set_self hposj]
    have hlt := firstIdx_lt_iff.mpr hv
    have e3 : (a.axes.getD k default).labels.getD
        (firstIdx (a.axes.getD k default).labels (newL.getD (j.getD k 0) Label.none)) Label.none
        = newL.getD (j.getD k 0) Label.none := by
      rw [List.getD_eq_getElem?_getD, List.getElem?_eq_getElem hlt]
      exact firstIdx_getElem hlt
    simp only [e1, e2, hNL, e3]
  · have e1 : (NL.set pos newL).getD k [] = NL.getD k [] := by
      simp [List.getD_eq_getElem?_getD, List.getElem?_set_ne (Ne.symm hkp)]
    have e2 : ∀ x, (j.set pos x).getD k 0 = j.getD k 0 := by
      intro x; simp [List.getD_eq_getElem?_getD, List.getElem?_set_ne (Ne.symm hkp)]
    simp only [e1, e2]

theorem alignSrc_set_absent {α} (a : DimArray α) (NL : List (List Label)) (newL : List Label) (pos : Nat)
    (j : List Nat) (hpos : pos < a.axes.length) (hposN : pos < NL.length)
    (hv : newL.getD (j.getD pos 0) Label.none ∉ (a.axes.getD pos default).labels) :
    (alignSrc a (NL.set pos newL) j).all (·.isSome) = false := by
  cases h : (alignSrc a (NL.set pos newL) j).all (·.isSome) with
  | false => rfl
  | true =>
    rw [List.all_eq_true] at h
    have e1 : (NL.set pos newL).getD pos [] = newL := by
      simp [List.getD_eq_getElem?_getD, List.getElem?_set_self hposN]
    have := h _ (List.mem_map.mpr ⟨pos, List.mem_range.mpr hpos, rfl⟩)
    simp only [e1, hv, if_false] at this
    cases this

/-- labels of all axes after re-indexing the axis named `d` onto `newL` -/
theorem reindex_all_labels {α : Type} (o r : DimArray α) (d : String) (newL : List Label)
    (kind fillKind : Kind) (fill : α) (hd : d ∈ o.axes.map (·.name))
    (hn : (o.axes.getD ((o.axes.map (·.name)).idxOf d) default).labels.Nodup)
    (hne : (o.axes.getD ((o.axes.map (·.name)).idxOf d) default).labels ≠ [])
    (hr : reindexAxis o (.name d) newL kind fill fillKind false none = .ok r) :
    r.axes.map (·.labels) = (o.axes.map (·.labels)).set ((o.axes.map (·.name)).idxOf d) newL := by
  have hpos := axisPos_name_ok o.axes d hd
  have hlt := (findName_some o.axes d hd).1
  generalize (o.axes.map (·.name)).idxOf d = pos at *
  have hdims := reindex_dims o _ _ _ _ _ _ _ r hr
  have hlen : r.axes.length = o.axes.length := by
    have := congrArg List.length hdims
    simpa [DimArray.dims] using this
  have hlab := reindex_labels o (.name d) pos newL kind fillKind fill r hpos hlt hn (Or.inl hne) hr
  apply List.ext_getElem?
  intro i
  by_cases hi : i = pos
  · subst hi
    have hlt' : i < r.axes.length := hlen ▸ hlt
    rw [List.getElem?_set_self (by simpa using hlt), List.getElem?_map, List.getElem?_eq_getElem hlt']
    simp only [Option.map_some]
    have : r.axes.getD i default = r.axes[i] := by simp [List.getD_eq_getElem?_getD, hlt']
    rw [← this, hlab]
  · rw [List.getElem?_set_ne (Ne.symm hi), List.getElem?_map, List.getElem?_map,
      reindex_other_axes o (.name d) pos newL kind fillKind fill false none r hpos hr i hi]

/-- shape of the values after re-indexing -/
theorem reindex_shape {α : Type} (a : DimArray α) (axis : DimKey) (pos : Nat) (newL : List Label)
    (newKind fillKind : Kind) (fill : α) (r : DimArray α)
    (hpos : axisPos a.axes axis = .ok pos)
    (hr : reindexAxis a axis newL newKind fill fillKind false none = .ok r) :
    r.vals.shape = a.vals.shape.set pos newL.length := by
  unfold reindexAxis at hr
  simp only [hpos, bind, Except.bind] at hr
  split at hr
  · cases hr
  · split at hr
    · simp only [Bool.false_eq_true, if_false, Option.isNone_none, if_true, pure, Except.pure] at hr
      cases hr
      simp [NDArr.putWhere, takeAxisPos, NDArr.takeAxis, locateMany_length]
    · simp only [pure, Except.pure] at hr
      cases hr
      simp [takeAxisPos, NDArr.takeAxis, locateMany_length]

/-- re-indexing an axis that is still the original one keeps the array aligned with the original -/
theorem valsInv_reindex {α : Type} (nan : α) (a o r : DimArray α) (d : String) (newL : List Label) (kind : Kind)
    (hlen : o.axes.length = a.axes.length) (hd : d ∈ o.axes.map (·.name))
    (hsame : (o.axes.getD ((o.axes.map (·.name)).idxOf d) default).labels
      = (a.axes.getD ((o.axes.map (·.name)).idxOf d) default).labels)
    (hn : (a.axes.getD ((o.axes.map (·.name)).idxOf d) default).labels.Nodup)
    (hne : (a.axes.getD ((o.axes.map (·.name)).idxOf d) default).labels ≠ [])
    (hv : ValsInv nan a o)
    (hr : reindexAxis o (.name d) newL kind nan .f false none = .ok r) : ValsInv nan a r := by
  have hpos := axisPos_name_ok o.axes d hd
  have hlt := (findName_some o.axes d hd).1
  have hlabs := reindex_all_labels o r d newL kind .f nan hd (hsame ▸ hn) (hsame ▸ hne) hr
  generalize (o.axes.map (·.name)).idxOf d = pos at *
  have hshape : r.axes.map (·.labels.length) = ((o.axes.map (·.labels)).set pos newL).map (·.length) := by
    rw [← hlabs, List.map_map]; rfl
  refine ⟨?_, ?_⟩
  · rw [reindex_shape o _ pos newL kind .f nan r hpos hr, hv.1, hshape, List.map_set, List.map_map]
    rfl
  intro j hj
  rw [hshape] at hj
  obtain ⟨hjl, hjk⟩ := (inRange_iff_getD _ _).mp hj
  simp only [List.length_map, List.length_set] at hjl hjk
  have hposj : pos < j.length := by omega
  have hposN : pos < (o.axes.map (·.labels)).length := by simpa using hlt
  have hjpos : j.getD pos 0 < newL.length := by
    have := hjk pos hlt
    have e : (((o.axes.map (·.labels)).set pos newL).map (·.length)).getD pos 0 = newL.length := by
      rw [List.getD_eq_getElem?_getD, List.getElem?_map, List.getElem?_set_self hposN]; rfl
    rw [e] at this
    simpa [List.getD_eq_getElem?_getD] using this
  have hNL : (o.axes.map (·.labels)).getD pos [] = (a.axes.getD pos default).labels := by
    rw [← hsame]
    simp [List.getD_eq_getElem?_getD, hlt]
  rw [reindex_spec o (.name d) pos newL kind .f nan r hpos (hsame ▸ hn) (Or.inl (hsame ▸ hne)) hr j hjpos]
  rw [hlabs, alignVals_get]
  unfold Spec.reindexVals
  simp only
  rw [hsame]
  by_cases hmem : newL.getD (j.getD pos 0) Label.none ∈ (a.axes.getD pos default).labels
  · simp only [hmem, if_true]
    rw [alignSrc_set_present a _ newL pos j hposN hposj hNL hmem, ← alignVals_get]
    apply hv.2
    rw [inRange_iff_getD]
    refine ⟨by simp [hjl], ?_⟩
    intro k hk
    simp only [List.length_map] at hk
    by_cases hkp : k = pos
    · subst hkp
      have h1 := firstIdx_lt_iff.mpr hmem
      have h2 : (o.axes.map (·.labels.length)).getD k 0 = (a.axes.getD k default).labels.length := by
        rw [← hsame]
        simp [List.getD_eq_getElem?_getD, hlt]
      rw [h2]
      simpa [List.getD_eq_getElem?_getD, List.getElem?_set_self hposj] using h1
    · have := hjk k hk
      have e2 : (j.set pos (firstIdx (a.axes.getD pos default).labels (newL.getD (j.getD pos 0) Label.none))).getD k 0
          = j.getD k 0 := by
        simp [List.getD_eq_getElem?_getD, List.getElem?_set_ne (Ne.symm hkp)]
      have e3 : (((o.axes.map (·.labels)).set pos newL).map (·.length)).getD k 0
          = (o.axes.map (·.labels.length)).getD k 0 := by
        rw [List.getD_eq_getElem?_getD, List.getD_eq_getElem?_getD, List.getElem?_map,
          List.getElem?_set_ne (Ne.symm hkp), List.getElem?_map, List.getElem?_map]
        cases o.axes[k]? <;> rfl
      rw [e2, ← e3]
      exact this
  · simp only [hmem, if_false]
    rw [alignSrc_set_absent a _ newL pos j (hlen ▸ hlt) hposN hmem]
    simp

/-- ONE STEP of `align` on one array `o` that descends from the original `a` and whose axis of the step's
dimension is still the original one -/
theorem alignStep_spec {α : Type} (nan : α) (a o r : DimArray α) (c : Axis)
    (hdims : o.dims = a.dims)
    (hsame : ∀ k, k < a.axes.length → (a.axes.getD k default).name = c.name →
      o.axes.getD k default = a.axes.getD k default)
    (hL : ∀ ax ∈ a.axes, ax.labels.Nodup ∧ ax.labels ≠ [])
    (hv : ValsInv nan a o)
    (hr : alignStep nan c o = .ok r) :
    r.dims = a.dims ∧ r.attrs = o.attrs ∧ ValsInv nan a r ∧
    (c.name ∉ a.dims → r = o) ∧
    (c.name ∈ a.dims →
      (r.axes.getD (a.dims.idxOf c.name) default).labels = c.labels ∧
      ∀ k, k ≠ a.dims.idxOf c.name → r.axes.getD k default = o.axes.getD k default) := by
  have hnames : o.axes.map (·.name) = a.axes.map (·.name) := hdims
  have hlen : o.axes.length = a.axes.length := by
    have := congrArg List.length hnames
    simpa using this
  unfold alignStep at hr
  by_cases hd : c.name ∈ a.dims
  · have hdo : c.name ∈ o.axes.map (·.name) := hnames ▸ hd
    obtain ⟨hlt, hfind, hname⟩ := findName_some o.axes c.name hdo
    have hlta : a.dims.idxOf c.name < a.axes.length := (findName_some a.axes c.name hd).1
    have hnamea : (a.axes.getD (a.dims.idxOf c.name) default).name = c.name :=
      (findName_some a.axes c.name hd).2.2
    have hposeq : (o.axes.map (·.name)).idxOf c.name = a.dims.idxOf c.name := by rw [hnames]; rfl
    rw [hfind] at hr
    simp only at hr
    have hs := hsame _ hlta hnamea
    have hmem : a.axes.getD (a.dims.idxOf c.name) default ∈ a.axes := by
      have : a.axes.getD (a.dims.idxOf c.name) default = a.axes[a.dims.idxOf c.name]'hlta := by
        rw [List.getD_eq_getElem?_getD, List.getElem?_eq_getElem hlta]; rfl
      rw [this]; exact List.getElem_mem hlta
    by_cases heq : axisEq (o.axes.getD ((o.axes.map (·.name)).idxOf c.name) default) c = true
    · simp only [heq, if_true, pure, Except.pure, Except.ok.injEq] at hr
      subst hr
      refine ⟨hdims, rfl, hv, fun h => absurd hd h, fun _ => ⟨?_, fun _ _ => rfl⟩⟩
      rw [← hposeq]
      unfold axisEq at heq
      simp only [Bool.and_eq_true, beq_iff_eq] at heq
      exact heq.1
    · simp only [heq, if_false, Bool.false_eq_true] at hr
      have hs' : (o.axes.getD ((o.axes.map (·.name)).idxOf c.name) default).labels
          = (a.axes.getD ((o.axes.map (·.name)).idxOf c.name) default).labels := by
        rw [hposeq, hs]
      have hn := (hL _ hmem).1
      have hne := (hL _ hmem).2
      rw [← hposeq] at hn hne
      have hpos := axisPos_name_ok o.axes c.name hdo
      refine ⟨(reindex_dims o _ _ _ _ _ _ _ r hr).trans hdims, reindex_attrs o _ _ _ _ _ _ _ r hr,
        valsInv_reindex nan a o r c.name c.labels c.kind hlen hdo hs' hn hne hv hr,
        fun h => absurd hd h, fun _ => ⟨?_, ?_⟩⟩
      · rw [← hposeq]
        exact reindex_labels o (.name c.name) _ c.labels c.kind .f nan r hpos hlt (hs' ▸ hn)
          (Or.inl (hs' ▸ hne)) hr
      · intro k hk
        rw [← hposeq] at hk
        have := reindex_other_axes o (.name c.name) _ c.labels c.kind .f nan false none r hpos hr k hk
        simp only [List.getD_eq_getElem?_getD, this]
  · have hdo : c.name ∉ o.axes.map (·.name) := hnames ▸ hd
    rw [(findName_none o.axes c.name).mpr hdo] at hr
    simp only [pure, Except.pure, Except.ok.injEq] at hr
    subst hr
    exact ⟨hdims, rfl, hv, fun _ => rfl, fun h => absurd h hd⟩

theorem idxOf_of_name (axes : List Axis) (hn : (axes.map (·.name)).Nodup) (k : Nat) (hk : k < axes.length) :
    (axes.map (·.name)).idxOf (axes.getD k default).name = k := by
  have hk' : k < (axes.map (·.name)).length := by simpa using hk
  have := idxOf_name_eq (axes.map (·.name)) hn k hk'
  have e : (axes.map (·.name))[k] = (axes.getD k default).name := by
    simp [List.getD_eq_getElem?_getD, hk]
  rw [e] at this
  exact this

theorem name_mem_dims {α} (a : DimArray α) (k : Nat) (hk : k < a.axes.length) :
    (a.axes.getD k default).name ∈ a.dims := by
  have : a.axes.getD k default = a.axes[k] := by simp [List.getD_eq_getElem?_getD, hk]
  rw [this]
  exact List.mem_map.mpr ⟨_, List.getElem_mem hk, rfl⟩

/-- THE SEQUENCE OF STEPS on one array: common axes of distinct names, applied one after the other to an array
whose axes of these names are still the original ones -/
theorem alignFold_spec {α : Type} (nan : α) (a : DimArray α) (hnd : a.dims.Nodup)
    (hL : ∀ ax ∈ a.axes, ax.labels.Nodup ∧ ax.labels ≠ []) :
    ∀ (cs : List Axis) (o out : DimArray α),
      (cs.map (·.name)).Nodup →
      o.dims = a.dims →
      (∀ c ∈ cs, ∀ k, k < a.axes.length → (a.axes.getD k default).name = c.name →
        o.axes.getD k default = a.axes.getD k default) →
      ValsInv nan a o →
      cs.foldlM (fun o c => alignStep nan c o) o = .ok out →
      out.dims = a.dims ∧ out.attrs = o.attrs ∧ ValsInv nan a out ∧
      ∀ k, k < a.axes.length →
        (∀ c ∈ cs, c.name = (a.axes.getD k default).name → (out.axes.getD k default).labels = c.labels) ∧
        ((∀ c ∈ cs, c.name ≠ (a.axes.getD k default).name) → out.axes.getD k default = o.axes.getD k default)
  | [], o, out, _, hdims, _, hv, h => by
    simp only [List.foldlM_nil, pure, Except.pure, Except.ok.injEq] at h
    subst h
    exact ⟨hdims, rfl, hv, fun k _ => ⟨fun c hc => absurd hc (by simp), fun _ => rfl⟩⟩
  | c :: cs, o, out, hcn, hdims, hsame, hv, h => by
    rw [List.foldlM_cons] at h
    cases h1 : alignStep nan c o with
    | error e => simp [h1, bind, Except.bind] at h
    | ok o1 =>
      simp only [h1, bind, Except.bind] at h
      simp only [List.map_cons, List.nodup_cons] at hcn
      obtain ⟨hd1, hat1, hv1, hno, hyes⟩ :=
        alignStep_spec nan a o o1 c hdims (hsame c (by simp)) hL hv h1
      -- the step touched at most the position of `c.name`
      have hkeep : ∀ k, k < a.axes.length → (a.axes.getD k default).name ≠ c.name →
          o1.axes.getD k default = o.axes.getD k default := by
        intro k hk hne
        by_cases hd : c.name ∈ a.dims
        · apply (hyes hd).2 k
          intro hke
          apply hne
          rw [hke]
          exact (findName_some a.axes c.name hd).2.2
        · rw [hno hd]
      have hsame1 : ∀ c' ∈ cs, ∀ k, k < a.axes.length → (a.axes.getD k default).name = c'.name →
          o1.axes.getD k default = a.axes.getD k default := by
        intro c' hc' k hk hname
        have hne : (a.axes.getD k default).name ≠ c.name := by
          intro he
          exact hcn.1 (List.mem_map.mpr ⟨c', hc', by rw [← hname, he]⟩)
        rw [hkeep k hk hne]
        exact hsame c' (by simp [hc']) k hk hname
      obtain ⟨hd2, hat2, hv2, hk2⟩ := alignFold_spec nan a hnd hL cs o1 out hcn.2 hd1 hsame1 hv1 h
      refine ⟨hd2, hat2.trans hat1, hv2, ?_⟩
      intro k hk
      obtain ⟨hk2a, hk2b⟩ := hk2 k hk
      refine ⟨?_, ?_⟩
      · intro c'' hc'' hname
        rcases List.mem_cons.mp hc'' with rfl | hc''
        · have hd : c''.name ∈ a.dims := hname ▸ name_mem_dims a k hk
          have hidx : a.dims.idxOf c''.name = k := by
            rw [hname]; exact idxOf_of_name a.axes hnd k hk
          have hothers : ∀ c' ∈ cs, c'.name ≠ (a.axes.getD k default).name := by
            intro c' hc' he
            exact hcn.1 (List.mem_map.mpr ⟨c', hc', by rw [he, hname]⟩)
          rw [hk2b hothers, ← hidx]
          exact (hyes hd).1
        · exact hk2a c'' hc'' hname
      · intro hall
        rw [hk2b (fun c' hc' => hall c' (by simp [hc']))]
        exact hkeep k hk (fun he => hall c (by simp) he.symm)

theorem zipIdx_map_fst_list {β : Type} (l : List β) (n : Nat) : (l.zipIdx n).map (·.1) = l := by
  induction l generalizing n with
  | nil => rfl
  | cons x xs ih => simp only [List.zipIdx_cons, List.map_cons, ih]

theorem sortBy_perm_list {β : Type} (le : β → β → Bool) (l : List β) : (sortBy le l).Perm l := by
  rw [sortBy_eq]
  have := (sortedPairs_perm le l).map (·.1)
  rwa [zipIdx_map_fst_list] at this

/-- the axes named `d` of well-formed arrays: exactly the axes of that name, each with unique labels and no
`None` label -/
theorem havingAxes_mem {α : Type} (arrays : List (DimArray α)) (hin : ∀ a ∈ arrays, a.dims.Nodup) (d : String)
    (ax : Axis) :
    ax ∈ havingAxes (arrays.map (·.axes)) d ↔ ∃ a ∈ arrays, ax ∈ a.axes ∧ ax.name = d := by
  unfold havingAxes
  simp only [List.mem_filterMap, List.mem_map]
  constructor
  · rintro ⟨axes, ⟨a, ha, rfl⟩, hf⟩
    obtain ⟨h1, h2⟩ := findName_mem _ _ _ hf
    exact ⟨a, ha, h1, h2⟩
  · rintro ⟨a, ha, hax, rfl⟩
    exact ⟨a.axes, ⟨a, ha, rfl⟩, findName_unique a.axes (hin a ha) ax hax⟩

/-- THE COMMON LABELS of one dimension: each label once; the union of the inputs' labels on that dimension for
the outer join, the intersection for the inner join; ascending when `sort` is asked -/
theorem commonLabels_spec {α : Type} (arrays : List (DimArray α)) (join : Join) (d : String) (sort : Bool)
    (hin : ∀ a ∈ arrays, AlignInput a) (ax : Axis)
    (hax : commonAxis join (havingAxes (arrays.map (·.axes)) d) = some ax) (v : Label) :
    (if sort then axisSort ax else ax).name = d ∧
    (if sort then axisSort ax else ax).labels.Nodup ∧
    (join = .outer → (v ∈ (if sort then axisSort ax else ax).labels ↔
      ∃ a ∈ arrays, ∃ x ∈ a.axes, x.name = d ∧ v ∈ x.labels)) ∧
    (join = .inner → (v ∈ (if sort then axisSort ax else ax).labels ↔
      ∀ a ∈ arrays, ∀ x ∈ a.axes, x.name = d → v ∈ x.labels)) ∧
    (sort = true → (if sort then axisSort ax else ax).labels.Pairwise (fun x y => Label.le x y = true)) := by
  have hmem := havingAxes_mem arrays (fun a ha => (hin a ha).1) d
  have hprop : ∀ x ∈ havingAxes (arrays.map (·.axes)) d, x.name = d ∧ x.labels.Nodup ∧ Label.none ∉ x.labels := by
    intro x hx
    obtain ⟨a, ha, hxa, hxd⟩ := (hmem x).mp hx
    have := (hin a ha).2.2 x hxa
    exact ⟨hxd, this.1, this.2.1⟩
  have hname := commonAxis_name join d _ ax (fun x hx => (hprop x hx).1) hax
  have hnd := commonAxis_nodup join _ ax (fun x hx => (hprop x hx).2.1) hax
  have hv : v ∈ (if sort then axisSort ax else ax).labels ↔ v ∈ ax.labels := by
    cases sort
    · simp
    · simp only [if_true, axisSort]; exact mem_sortBy Label.le
  refine ⟨?_, ?_, ?_, ?_, ?_⟩
  · cases sort
    · simpa using hname
    · simpa [axisSort] using hname
  · cases sort
    · simpa using hnd
    · simp only [if_true, axisSort]
      exact (sortBy_perm_list Label.le ax.labels).nodup_iff.mpr hnd
  · intro hj
    subst hj
    rw [hv, commonAxis_outer_mem _ ax (fun x hx => (hprop x hx).2.2) hax v]
    constructor
    · rintro ⟨x, hx, hvx⟩
      obtain ⟨a, ha, hxa, hxd⟩ := (hmem x).mp hx
      exact ⟨a, ha, x, hxa, hxd, hvx⟩
    · rintro ⟨a, ha, x, hxa, hxd, hvx⟩
      exact ⟨x, (hmem x).mpr ⟨a, ha, hxa, hxd⟩, hvx⟩
  · intro hj
    subst hj
    rw [hv, commonAxis_inner_mem _ ax (fun x hx => (hprop x hx).2.2) hax v]
    constructor
    · intro h a ha x hxa hxd
      exact h x ((hmem x).mpr ⟨a, ha, hxa, hxd⟩)
    · intro h x hx
      obtain ⟨a, ha, hxa, hxd⟩ := (hmem x).mp hx
      exact h a ha x hxa hxd
  · intro hs
    subst hs
    simp only [if_true, axisSort]
    exact sortBy_pairwise Label.le Label.le_trans Label.le_total ax.labels

/-- `mapM` succeeds when every step does -/
theorem exMapM_of_forall {ε β γ : Type} (f : β → Except ε γ) : ∀ l : List β,
    (∀ x ∈ l, ∃ b, f x = .ok b) → ∃ bs, l.mapM f = .ok bs
  | [], _ => ⟨[], by simp [pure, Except.pure]⟩
  | a :: l, h => by
    obtain ⟨b, hb⟩ := h a (by simp)
    obtain ⟨bs, hbs⟩ := exMapM_of_forall f l (fun x hx => h x (by simp [hx]))
    exact ⟨b :: bs, by simp [List.mapM_cons, hb, hbs, bind, Except.bind, pure, Except.pure]⟩

/-- a fold of element-wise `mapM`s succeeds when, for each element, the fold of its own steps does -/
theorem exFoldlM_mapM_of_forall {ε β γ : Type} (g : β → γ → Except ε γ) : ∀ (cs : List β) (arrs : List γ),
    (∀ a ∈ arrs, ∃ out, cs.foldlM (fun o c => g c o) a = .ok out) →
    ∃ outs, cs.foldlM (fun arrs c => arrs.mapM (g c)) arrs = .ok outs
  | [], arrs, _ => ⟨arrs, by simp [pure, Except.pure]⟩
  | c :: cs, arrs, h => by
    have hstep : ∀ a ∈ arrs, ∃ b, g c a = .ok b := by
      intro a ha
      obtain ⟨out, hout⟩ := h a ha
      rw [List.foldlM_cons] at hout
      cases h1 : g c a with
      | error e => simp [h1, bind, Except.bind] at hout
      | ok b => exact ⟨b, rfl⟩
    obtain ⟨arrs1, h1⟩ := exMapM_of_forall (g c) arrs hstep
    obtain ⟨hl1, hs1⟩ := exMapM_ok (g c) arrs arrs1 h1
    have hrest : ∀ a1 ∈ arrs1, ∃ out, cs.foldlM (fun o c => g c o) a1 = .ok out := by
      intro a1 ha1
      obtain ⟨i, hi, rfl⟩ := List.getElem_of_mem ha1
      have hi' : i < arrs.length := hl1 ▸ hi
      obtain ⟨out, hout⟩ := h arrs[i] (List.getElem_mem hi')
      rw [List.foldlM_cons, hs1 i hi' hi] at hout
      exact ⟨out, hout⟩
    obtain ⟨outs, houts⟩ := exFoldlM_mapM_of_forall g cs arrs1 hrest
    exact ⟨outs, by rw [List.foldlM_cons, h1]; exact houts⟩

theorem havingAxes_ne_nil (arrays : List (List Axis)) (d : String)
    (h : ∃ axes ∈ arrays, d ∈ axes.map (·.name)) : havingAxes arrays d ≠ [] := by
  obtain ⟨axes, ha, hd⟩ := h
  have hf := (findName_some axes d hd).2.1
  intro he
  have : axes.getD ((axes.map (·.name)).idxOf d) default ∈ havingAxes arrays d :=
    List.mem_filterMap.mpr ⟨axes, ha, hf⟩
  rw [he] at this
  simp at this

/-- `_get_aligned_axes` (not strict) succeeds when every requested dimension is on some array -/
theorem getAlignedAxes_succeeds (arrays : List (List Axis)) (join : Join) (axis : Option String) (sort : Bool)
    (h : ∀ d ∈ alignedDims arrays axis, ∃ axes ∈ arrays, d ∈ axes.map (·.name)) :
    ∃ commons, getAlignedAxes arrays join axis sort false = .ok commons := by
  unfold getAlignedAxes
  apply exMapM_of_forall _ (alignedDims arrays axis)
  intro d hd
  have hne := havingAxes_ne_nil arrays d (h d hd)
  unfold havingAxes at hne
  cases hh : arrays.filterMap (fun axes => axes.find? (·.name == d)) with
  | nil => exact absurd hh hne
  | cons x xs =>
    obtain ⟨r, hr⟩ := commonAxis_isSome join x xs
    exact ⟨if sort then axisSort r else r, by simp [hr, pure, Except.pure]⟩

theorem alignedDims_none_mem (arrays : List (List Axis)) (d : String) (hd : d ∈ alignedDims arrays none) :
    ∃ axes ∈ arrays, d ∈ axes.map (·.name) := by
  have : d ∈ getDims arrays := hd
  rw [getDims_mem] at this
  obtain ⟨axes, ha, ax, hax, hn⟩ := this
  exact ⟨axes, ha, List.mem_map.mpr ⟨ax, hax, hn⟩⟩

theorem reindex_ok {α : Type} (a : DimArray α) (axis : DimKey) (pos : Nat) (newL : List Label)
    (newKind fillKind : Kind) (fill : α) (hpos : axisPos a.axes axis = .ok pos)
    (hL : (a.axes.getD pos default).labels ≠ []) :
    ∃ r, reindexAxis a axis newL newKind fill fillKind false none = .ok r := by
  unfold reindexAxis
  simp only [hpos, bind, Except.bind]
  have hemp : ((a.axes.getD pos default).labels.isEmpty && !newL.isEmpty) = false := by
    cases hl : (a.axes.getD pos default).labels with
    | nil => exact absurd hl hL
    | cons _ _ => simp
  simp only [hemp, Bool.false_eq_true, if_false]
  split <;> exact ⟨_, rfl⟩

/-- one step of `align` cannot fail on an array whose axis of that dimension is a non-empty original one -/
theorem alignStep_ok {α : Type} (nan : α) (a o : DimArray α) (c : Axis)
    (hdims : o.dims = a.dims)
    (hsame : ∀ k, k < a.axes.length → (a.axes.getD k default).name = c.name →
      o.axes.getD k default = a.axes.getD k default)
    (hL : ∀ ax ∈ a.axes, ax.labels.Nodup ∧ ax.labels ≠ []) :
    ∃ r, alignStep nan c o = .ok r := by
  have hnames : o.axes.map (·.name) = a.axes.map (·.name) := hdims
  unfold alignStep
  by_cases hd : c.name ∈ a.dims
  · have hdo : c.name ∈ o.axes.map (·.name) := hnames ▸ hd
    obtain ⟨hlt, hfind, hname⟩ := findName_some o.axes c.name hdo
    have hlta : a.dims.idxOf c.name < a.axes.length := (findName_some a.axes c.name hd).1
    have hnamea : (a.axes.getD (a.dims.idxOf c.name) default).name = c.name :=
      (findName_some a.axes c.name hd).2.2
    have hposeq : (o.axes.map (·.name)).idxOf c.name = a.dims.idxOf c.name := by rw [hnames]; rfl
    rw [hfind]
    simp only
    split
    · exact ⟨o, rfl⟩
    · apply reindex_ok o _ _ _ _ _ _ (axisPos_name_ok o.axes c.name hdo)
      rw [hposeq, hsame _ hlta hnamea]
      apply (hL _ _).2
      have : a.axes.getD (a.dims.idxOf c.name) default = a.axes[a.dims.idxOf c.name]'hlta := by
        rw [List.getD_eq_getElem?_getD, List.getElem?_eq_getElem hlta]; rfl
      rw [this]; exact List.getElem_mem hlta
  · have hdo : c.name ∉ o.axes.map (·.name) := hnames ▸ hd
    rw [(findName_none o.axes c.name).mpr hdo]
    exact ⟨o, rfl⟩

/-- the sequence of steps on one array cannot fail -/
theorem alignFold_ok {α : Type} (nan : α) (a : DimArray α)
    (hL : ∀ ax ∈ a.axes, ax.labels.Nodup ∧ ax.labels ≠ []) :
    ∀ (cs : List Axis) (o : DimArray α),
      (cs.map (·.name)).Nodup →
      o.dims = a.dims →
      (∀ c ∈ cs, ∀ k, k < a.axes.length → (a.axes.getD k default).name = c.name →
        o.axes.getD k default = a.axes.getD k default) →
      ValsInv nan a o →
      ∃ out, cs.foldlM (fun o c => alignStep nan c o) o = .ok out
  | [], o, _, _, _, _ => ⟨o, rfl⟩
  | c :: cs, o, hcn, hdims, hsame, hv => by
    obtain ⟨o1, h1⟩ := alignStep_ok nan a o c hdims (hsame c (by simp)) hL
    simp only [List.map_cons, List.nodup_cons] at hcn
    obtain ⟨hd1, _, hv1, hno, hyes⟩ :=
      alignStep_spec nan a o o1 c hdims (hsame c (by simp)) hL hv h1
    have hsame1 : ∀ c' ∈ cs, ∀ k, k < a.axes.length → (a.axes.getD k default).name = c'.name →
        o1.axes.getD k default = a.axes.getD k default := by
      intro c' hc' k hk hname
      have hne : (a.axes.getD k default).name ≠ c.name := by
        intro he
        exact hcn.1 (List.mem_map.mpr ⟨c', hc', by rw [← hname, he]⟩)
      have hkeep : o1.axes.getD k default = o.axes.getD k default := by
        by_cases hd : c.name ∈ a.dims
        · apply (hyes hd).2 k
          intro hke
          apply hne
          rw [hke]
          exact (findName_some a.axes c.name hd).2.2
        · rw [hno hd]
      rw [hkeep]
      exact hsame c' (by simp [hc']) k hk hname
    obtain ⟨out, hout⟩ := alignFold_ok nan a hL cs o1 hcn.2 hd1 hsame1 hv1
    exact ⟨out, by rw [List.foldlM_cons, h1]; exact hout⟩

theorem alignInput_labels {α : Type} (a : DimArray α) (h : AlignInput a) :
    ∀ ax ∈ a.axes, ax.labels.Nodup ∧ ax.labels ≠ [] :=
  fun ax hax => ⟨(h.2.2 ax hax).1, (h.2.2 ax hax).2.2.2⟩

theorem alignInput_shape {α : Type} (a : DimArray α) (h : AlignInput a) :
    a.vals.shape = a.axes.map (·.labels.length) := by
  rw [h.2.1]
  apply List.map_congr_left
  intro ax hax
  simp [Axis.size, (h.2.2 ax hax).2.2.1]

theorem alignInput_valsInv {α : Type} (nan : α) (a : DimArray α) (h : AlignInput a) : ValsInv nan a a :=
  valsInv_self nan a (fun ax hax => (alignInput_labels a h ax hax).1) (alignInput_shape a h)

/-- ALIGN ALONG ONE DIMENSION (`axis=d`): every array that has `d` comes back with the common axis on `d`
(the others are returned as they are); its other axes, dims and metadata are untouched; each value sits at the
label it had, `nan` fills the labels it did not have.

Statement history: the round-2 draft is TRUE as it was written and is proved unchanged, with one clause ADDED
(a strengthening, it uses the shape hypothesis of `AlignInput`): the value array of the output has the shape its
axes announce (`outs[i].vals.shape = ...`), so that `InRange ... j` below ranges over exactly the cells of the
output.  Things the statement deliberately does not say, because the model (as the library) does not keep them:
the dtype kind of the re-indexed axis (`maybeCastKind`), and the identity of the `Axis` record on `d` when the
`axisEq` shortcut returns the array itself (only its labels equal the common labels). -/
theorem align_axis_spec {α : Type} (nan : α) (arrays outs : List (DimArray α)) (join : Join) (d : String) (sort : Bool)
    (hin : ∀ a ∈ arrays, AlignInput a)
    (h : align nan arrays join (some d) sort false = .ok outs) :
    outs.length = arrays.length ∧
    ∃ common : Axis,
      getAlignedAxes (arrays.map (·.axes)) join (some d) sort false = .ok [common] ∧
      ∀ i (hi : i < arrays.length) (ho : i < outs.length),
        (d ∉ arrays[i].dims → outs[i] = arrays[i]) ∧
        (d ∈ arrays[i].dims →
          let pos := arrays[i].dims.idxOf d
          outs[i].dims = arrays[i].dims ∧
          (outs[i].axes.getD pos default).labels = common.labels ∧
          (∀ k, k ≠ pos → outs[i].axes.getD k default = arrays[i].axes.getD k default) ∧
          outs[i].attrs = arrays[i].attrs ∧
          outs[i].vals.shape = outs[i].axes.map (·.labels.length) ∧
          ∀ j, InRange (outs[i].axes.map (·.labels.length)) j →
            outs[i].vals.get j = (alignVals arrays[i] (outs[i].axes.map (·.labels)) nan).get j) := by
  rw [align_eq] at h
  cases hg : getAlignedAxes (arrays.map (·.axes)) join (some d) sort false with
  | error e => simp [hg, bind, Except.bind] at h
  | ok commons =>
    simp only [hg, bind, Except.bind] at h
    obtain ⟨hcl, hcs⟩ := getAlignedAxes_ok _ join (some d) sort commons hg
    have hcl1 : commons.length = 1 := hcl
    match commons, hcl1 with
    | [common], _ =>
      obtain ⟨ax, hax, hcom⟩ := hcs 0 (by simp [alignedDims]) (by simp)
      have hd0 : (alignedDims (arrays.map (·.axes)) (some d))[0]'(by simp [alignedDims]) = d := rfl
      rw [hd0] at hax
      have hname : common.name = d := by
        have := (commonLabels_spec arrays join d sort hin ax hax Label.none).1
        simp only [List.getElem_cons_zero] at hcom
        rw [hcom]; exact this
      obtain ⟨hol, hos⟩ := exFoldlM_mapM_ok (alignStep nan) [common] arrays outs h
      refine ⟨hol, common, rfl, ?_⟩
      intro i hi ho
      have hfold := hos i hi ho
      have hstep : alignStep nan common arrays[i] = .ok outs[i] := by
        rw [List.foldlM_cons] at hfold
        cases h1 : alignStep nan common arrays[i] with
        | error e => simp [h1, bind, Except.bind] at hfold
        | ok o1 =>
          simp only [h1, bind, Except.bind, List.foldlM_nil, pure, Except.pure] at hfold
          exact hfold
      have hA := hin arrays[i] (List.getElem_mem hi)
      obtain ⟨hd1, hat1, hv1, hno, hyes⟩ := alignStep_spec nan arrays[i] arrays[i] outs[i] common rfl
        (fun _ _ _ => rfl) (alignInput_labels _ hA) (alignInput_valsInv nan _ hA) hstep
      rw [hname] at hno hyes
      refine ⟨hno, fun hd => ?_⟩
      intro pos
      exact ⟨hd1, (hyes hd).1, (hyes hd).2, hat1, hv1.1, hv1.2⟩

/-- ... and the common axis is named `d`, carries each label once; for the outer join its labels are exactly the
union of the inputs' labels on `d`, for the inner join exactly the labels every input that has `d` carries; with
`sort=True` they are ascending.

Statement changes with respect to the round-2 draft (all generalisations, the draft was true):
* the arguments `nan` and `outs` were not used by the statement and are dropped;
* `sort` was fixed to `false`; the statement holds for either value (sorting permutes the labels) and now says so,
  with the extra clause that `sort = true` gives ascending labels;
* the inner-join clause announced in the comment was missing from the statement and is added;
* `common.name = d` is added. -/
theorem align_axis_labels {α : Type} (arrays : List (DimArray α)) (join : Join) (d : String) (sort : Bool)
    (hin : ∀ a ∈ arrays, AlignInput a) (common : Axis)
    (hc : getAlignedAxes (arrays.map (·.axes)) join (some d) sort false = .ok [common]) (v : Label) :
    common.name = d ∧ common.labels.Nodup ∧
    (join = .outer → (v ∈ common.labels ↔ ∃ a ∈ arrays, ∃ ax ∈ a.axes, ax.name = d ∧ v ∈ ax.labels)) ∧
    (join = .inner → (v ∈ common.labels ↔ ∀ a ∈ arrays, ∀ ax ∈ a.axes, ax.name = d → v ∈ ax.labels)) ∧
    (sort = true → common.labels.Pairwise (fun x y => Label.le x y = true)) := by
  obtain ⟨_, hcs⟩ := getAlignedAxes_ok _ join (some d) sort [common] hc
  obtain ⟨ax, hax, hcom⟩ := hcs 0 (by simp [alignedDims]) (by simp)
  have hd0 : (alignedDims (arrays.map (·.axes)) (some d))[0]'(by simp [alignedDims]) = d := rfl
  rw [hd0] at hax
  simp only [List.getElem_cons_zero] at hcom
  rw [hcom]
  exact commonLabels_spec arrays join d sort hin ax hax v

/-- the common axes of `axis=None`: one per dimension name that occurs, in order of first appearance -/
theorem alignedAxes_all_names {α : Type} (arrays : List (DimArray α)) (join : Join) (sort : Bool)
    (hin : ∀ a ∈ arrays, AlignInput a) (commons : List Axis)
    (hg : getAlignedAxes (arrays.map (·.axes)) join none sort false = .ok commons) :
    commons.map (·.name) = getDims (arrays.map (·.axes)) := by
  obtain ⟨hcl, hcs⟩ := getAlignedAxes_ok _ join none sort commons hg
  have hcl' : commons.length = (getDims (arrays.map (·.axes))).length := hcl
  apply List.ext_getElem
  · simpa using hcl'
  · intro i h1 h2
    obtain ⟨ax, hax, hcom⟩ := hcs i h2 (by simpa using h1)
    have := (commonLabels_spec arrays join _ sort hin ax hax Label.none).1
    rw [List.getElem_map, hcom, this]
    rfl

/-- the common axes of `axis=None` (companion of `align_all_spec`, not in the round-2 draft): exactly one common
axis per dimension name that occurs on some input; each carries every label once, the union (outer) /
intersection (inner) of the labels of the inputs that have the dimension, ascending with `sort=True` -/
theorem align_all_labels {α : Type} (arrays : List (DimArray α)) (join : Join) (sort : Bool)
    (hin : ∀ a ∈ arrays, AlignInput a) (commons : List Axis)
    (hg : getAlignedAxes (arrays.map (·.axes)) join none sort false = .ok commons) :
    (commons.map (·.name)).Nodup ∧
    (∀ d, d ∈ commons.map (·.name) ↔ ∃ a ∈ arrays, d ∈ a.dims) ∧
    ∀ c ∈ commons, ∀ v : Label,
      c.labels.Nodup ∧
      (join = .outer → (v ∈ c.labels ↔ ∃ a ∈ arrays, ∃ ax ∈ a.axes, ax.name = c.name ∧ v ∈ ax.labels)) ∧
      (join = .inner → (v ∈ c.labels ↔ ∀ a ∈ arrays, ∀ ax ∈ a.axes, ax.name = c.name → v ∈ ax.labels)) ∧
      (sort = true → c.labels.Pairwise (fun x y => Label.le x y = true)) := by
  have hnames := alignedAxes_all_names arrays join sort hin commons hg
  refine ⟨hnames ▸ getDims_nodup _, ?_, ?_⟩
  · intro d
    rw [hnames, getDims_mem]
    simp only [List.mem_map, DimArray.dims]
    constructor
    · rintro ⟨axes, ⟨a, ha, rfl⟩, ax, hax, hd⟩
      exact ⟨a, ha, ax, hax, hd⟩
    · rintro ⟨a, ha, ax, hax, hd⟩
      exact ⟨a.axes, ⟨a, ha, rfl⟩, ax, hax, hd⟩
  · intro c hc v
    obtain ⟨hcl, hcs⟩ := getAlignedAxes_ok _ join none sort commons hg
    obtain ⟨i, hi, rfl⟩ := List.getElem_of_mem hc
    obtain ⟨ax, hax, hcom⟩ := hcs i (hcl ▸ hi) hi
    have hsp := commonLabels_spec arrays join _ sort hin ax hax v
    rw [← hcom] at hsp
    rw [hsp.1]
    exact hsp.2

/-- ALIGN ON ALL SHARED DIMENSIONS (`axis=None`): after the sequence of re-indexings (one per common
dimension) every output has, on each of its dimensions, the common axis of that dimension, keeps its dims and
metadata, and holds each original value at the coordinates of the same labels, `nan` elsewhere: the sequential
re-indexing composes into the simultaneous one (`alignVals` over all dimensions at once).

Statement history: the round-2 draft is TRUE as it was written and is proved in full (values clause included),
with one clause ADDED as in `align_axis_spec`: the value array of the output has the shape its axes announce.
What the common axes are is `align_all_labels`. -/
theorem align_all_spec {α : Type} (nan : α) (arrays outs : List (DimArray α)) (join : Join) (sort : Bool)
    (hin : ∀ a ∈ arrays, AlignInput a)
    (h : align nan arrays join none sort false = .ok outs) :
    outs.length = arrays.length ∧
    ∃ commons : List Axis,
      getAlignedAxes (arrays.map (·.axes)) join none sort false = .ok commons ∧
      ∀ i (hi : i < arrays.length) (ho : i < outs.length),
        outs[i].dims = arrays[i].dims ∧ outs[i].attrs = arrays[i].attrs ∧
        (∀ k, k < arrays[i].axes.length →
          ∃ c ∈ commons, c.name = (arrays[i].axes.getD k default).name ∧
            (outs[i].axes.getD k default).labels = c.labels) ∧
        outs[i].vals.shape = outs[i].axes.map (·.labels.length) ∧
        ∀ j, InRange (outs[i].axes.map (·.labels.length)) j →
          outs[i].vals.get j = (alignVals arrays[i] (outs[i].axes.map (·.labels)) nan).get j := by
  rw [align_eq] at h
  cases hg : getAlignedAxes (arrays.map (·.axes)) join none sort false with
  | error e => simp [hg, bind, Except.bind] at h
  | ok commons =>
    simp only [hg, bind, Except.bind] at h
    have hnames := alignedAxes_all_names arrays join sort hin commons hg
    have hcn : (commons.map (·.name)).Nodup := hnames ▸ getDims_nodup _
    obtain ⟨hol, hos⟩ := exFoldlM_mapM_ok (alignStep nan) commons arrays outs h
    refine ⟨hol, commons, rfl, ?_⟩
    intro i hi ho
    have hA := hin arrays[i] (List.getElem_mem hi)
    obtain ⟨hd2, hat2, hv2, hk2⟩ := alignFold_spec nan arrays[i] hA.1 (alignInput_labels _ hA) commons
      arrays[i] outs[i] hcn rfl (fun _ _ _ _ _ => rfl) (alignInput_valsInv nan _ hA) (hos i hi ho)
    refine ⟨hd2, hat2, ?_, hv2.1, hv2.2⟩
    intro k hk
    have hmem : (arrays[i].axes.getD k default).name ∈ getDims (arrays.map (·.axes)) := by
      rw [getDims_mem]
      refine ⟨arrays[i].axes, List.mem_map.mpr ⟨_, List.getElem_mem hi, rfl⟩, arrays[i].axes[k],
        List.getElem_mem hk, ?_⟩
      simp [List.getD_eq_getElem?_getD, hk]
    rw [← hnames] at hmem
    obtain ⟨c, hc, hcname⟩ := List.mem_map.mp hmem
    exact ⟨c, hc, hcname, (hk2 k hk).1 c hc hcname⟩

/-- `align` (not strict) CANNOT FAIL on well-formed inputs, provided the requested dimension (if one is given) is
on some array - so the theorems above are never vacuous (not in the round-2 draft) -/
theorem align_succeeds {α : Type} (nan : α) (arrays : List (DimArray α)) (join : Join) (axis : Option String)
    (sort : Bool) (hin : ∀ a ∈ arrays, AlignInput a)
    (hax : ∀ d, axis = some d → ∃ a ∈ arrays, d ∈ a.dims) :
    ∃ outs, align nan arrays join axis sort false = .ok outs := by
  have hdims : ∀ d ∈ alignedDims (arrays.map (·.axes)) axis,
      ∃ axes ∈ arrays.map (·.axes), d ∈ axes.map (·.name) := by
    cases axis with
    | none => exact alignedDims_none_mem _
    | some d0 =>
      intro d hd
      have : d = d0 := by simpa [alignedDims] using hd
      subst this
      obtain ⟨a, ha, hda⟩ := hax d rfl
      exact ⟨a.axes, List.mem_map.mpr ⟨a, ha, rfl⟩, hda⟩
  obtain ⟨commons, hg⟩ := getAlignedAxes_succeeds (arrays.map (·.axes)) join axis sort hdims
  have hcn : (commons.map (·.name)).Nodup := by
    cases axis with
    | none => exact (alignedAxes_all_names arrays join sort hin commons hg) ▸ getDims_nodup _
    | some d0 =>
      have hl : commons.length = 1 := (getAlignedAxes_ok _ join (some d0) sort commons hg).1
      match commons, hl with
      | [c], _ => simp
  rw [align_eq, hg]
  apply exFoldlM_mapM_of_forall (alignStep nan) commons arrays
  intro a ha
  have hA := hin a ha
  exact alignFold_ok nan a (alignInput_labels _ hA) commons a hcn rfl (fun _ _ _ _ _ => rfl)
    (alignInput_valsInv nan _ hA)

/-! non-vacuity: two small arrays with integer labels (`x` shuffled on the first, only the second has `y`).
`decide` cannot evaluate `align` itself (`locate_many` sorts with `mergeSort`, defined by well-founded recursion),
so success is obtained from `align_succeeds`; evaluated with `#eval`, the outer join on `x` gives the labels
`[3, 1, 2]` with values `[0, 1, nan]` and `[[nan], [10], [11]]`. -/
def exAlignA : DimArray Int :=
  { axes := [{ name := "x", labels := [.num 3, .num 1], kind := .i }], vals := ⟨[2], fun j => j.getD 0 0⟩ }
def exAlignB : DimArray Int :=
  { axes := [{ name := "x", labels := [.num 1, .num 2], kind := .i },
             { name := "y", labels := [.num 5], kind := .i }],
    vals := ⟨[2, 1], fun j => 10 + j.getD 0 0⟩ }

theorem exAlign_input : ∀ a ∈ [exAlignA, exAlignB], AlignInput a := by
  intro a ha
  simp only [List.mem_cons, List.not_mem_nil, or_false] at ha
  rcases ha with rfl | rfl
  · unfold AlignInput exAlignA; decide
  · unfold AlignInput exAlignB; decide

example : ∃ outs, align (-1) [exAlignA, exAlignB] .outer (some "x") false false = .ok outs :=
  align_succeeds (-1) _ .outer (some "x") false exAlign_input
    (fun d hd => ⟨exAlignA, by simp, by cases hd; decide⟩)

example : ∃ outs, align (-1) [exAlignA, exAlignB] .inner none true false = .ok outs :=
  align_succeeds (-1) _ .inner none true exAlign_input (fun d hd => by cases hd)

/-- the example through the theorems: the outer join on `x` succeeds, both outputs carry the same three labels on
`x`, namely 1, 2 and 3 (each once), and the second keeps its `y` axis -/
example : ∃ (outs : List (DimArray Int)) (common : Axis),
    align (-1) [exAlignA, exAlignB] .outer (some "x") false false = .ok outs ∧
    outs.length = 2 ∧
    (∀ v, v ∈ common.labels ↔ v = Label.num 3 ∨ v = Label.num 1 ∨ v = Label.num 2) ∧ common.labels.Nodup ∧
    ((outs.getD 0 default).axes.getD 0 default).labels = common.labels ∧
    ((outs.getD 1 default).axes.getD 0 default).labels = common.labels ∧
    (outs.getD 1 default).axes.getD 1 default = exAlignB.axes.getD 1 default := by
  obtain ⟨outs, h⟩ := align_succeeds (-1) [exAlignA, exAlignB] .outer (some "x") false exAlign_input
    (fun d hd => ⟨exAlignA, by simp, by cases hd; decide⟩)
  obtain ⟨hl, common, hc, hs⟩ := align_axis_spec (-1) _ outs .outer "x" false exAlign_input h
  have hl2 : outs.length = 2 := hl
  have hlab := fun v => align_axis_labels [exAlignA, exAlignB] .outer "x" false exAlign_input common hc v
  refine ⟨outs, common, h, hl2, ?_, (hlab Label.none).2.1, ?_, ?_, ?_⟩
  · intro v
    rw [(hlab v).2.2.1 rfl]
    constructor
    · rintro ⟨a, ha, ax, hax, hname, hv⟩
      simp only [List.mem_cons, List.not_mem_nil, or_false] at ha
      rcases ha with rfl | rfl
      · simp only [exAlignA, List.mem_cons, List.not_mem_nil, or_false] at hax
        subst hax
        simp only [List.mem_cons, List.not_mem_nil, or_false] at hv
        rcases hv with h | h <;> simp [h]
      · simp only [exAlignB, List.mem_cons, List.not_mem_nil, or_false] at hax
        rcases hax with rfl | rfl
        · simp only [List.mem_cons, List.not_mem_nil, or_false] at hv
          rcases hv with h | h <;> simp [h]
        · simp at hname
    · rintro (h | h | h)
      · exact ⟨exAlignA, by simp, { name := "x", labels := [.num 3, .num 1], kind := .i },
          by simp [exAlignA], rfl, by simp [h]⟩
      · exact ⟨exAlignA, by simp, { name := "x", labels := [.num 3, .num 1], kind := .i },
          by simp [exAlignA], rfl, by simp [h]⟩
      · exact ⟨exAlignB, by simp, { name := "x", labels := [.num 1, .num 2], kind := .i },
          by simp [exAlignB], rfl, by simp [h]⟩
  · have := ((hs 0 (by simp) (by omega)).2 (by decide)).2.1
    have e : List.idxOf "x" exAlignA.dims = 0 := by decide
    simp only [List.getElem_cons_zero, e] at this
    simpa [List.getD_eq_getElem?_getD, hl2] using this
  · have := ((hs 1 (by simp) (by omega)).2 (by decide)).2.1
    have e : List.idxOf "x" exAlignB.dims = 0 := by decide
    simp only [List.getElem_cons_succ, List.getElem_cons_zero, e] at this
    simpa [List.getD_eq_getElem?_getD, hl2] using this
  · have := ((hs 1 (by simp) (by omega)).2 (by decide)).2.2.1 1 (by decide)
    simpa [List.getD_eq_getElem?_getD, hl2] using this

/-! ### strict=True, and the fold over three or more arrays (statements the differential run alone decided before) -/

theorem exMapM_congr_mem {ε β γ : Type} (f g : β → Except ε γ) : ∀ l : List β,
    (∀ x ∈ l, f x = g x) → l.mapM f = l.mapM g
  | [], _ => rfl
  | x :: xs, h => by
    rw [List.mapM_cons, List.mapM_cons, h x List.mem_cons_self,
      exMapM_congr_mem f g xs (fun y hy => h y (List.mem_cons_of_mem _ hy))]

theorem exMapM_error_of {ε β γ : Type} (f : β → Except ε γ) (e : ε) : ∀ l : List β,
    (∃ x ∈ l, f x = .error e) → (∀ x ∈ l, f x = .error e ∨ ∃ y, f x = .ok y) → l.mapM f = .error e
  | [], h, _ => by obtain ⟨x, hx, _⟩ := h; cases hx
  | x :: xs, h, hall => by
    rw [List.mapM_cons]
    rcases hall x List.mem_cons_self with hx | ⟨y, hy⟩
    · rw [hx]; rfl
    · rw [hy]
      have hex : ∃ z ∈ xs, f z = .error e := by
        obtain ⟨z, hz, hfz⟩ := h
        rcases List.mem_cons.mp hz with rfl | hz'
        · rw [hy] at hfz; cases hfz
        · exact ⟨z, hz', hfz⟩
      rw [exMapM_error_of f e xs hex (fun z hz => hall z (List.mem_cons_of_mem _ hz))]
      rfl

/-- STRICT: what `strict=True` checks is that every array HAS every aligned dimension (not that the axes agree): when
they all do, the result is the one of `strict=False` - the same common axes, hence the same re-indexing; ... -/
theorem align_strict_spec (arrays : List (List Axis)) (join : Join) (axis : Option String) (sort : Bool)
    (h : ∀ d ∈ alignedDims arrays axis, (havingAxes arrays d).length = arrays.length) :
    getAlignedAxes arrays join axis sort true = getAlignedAxes arrays join axis sort false := by
  unfold getAlignedAxes
  apply exMapM_congr_mem _ _ (alignedDims arrays axis)
  intro d hd
  have := h d hd
  unfold havingAxes at this
  simp [this]

/-- ... and when some array lacks an aligned dimension the call is refused with ValueError -/
theorem align_strict_refuses (arrays : List (List Axis)) (join : Join) (axis : Option String) (sort : Bool)
    (h : ∃ d ∈ alignedDims arrays axis, (havingAxes arrays d).length ≠ arrays.length) :
    getAlignedAxes arrays join axis sort true = .error .value := by
  unfold getAlignedAxes
  apply exMapM_error_of _ _ (alignedDims arrays axis)
  · obtain ⟨d, hd, hne⟩ := h
    refine ⟨d, hd, ?_⟩
    unfold havingAxes at hne
    simp [hne]
  · intro d _
    by_cases hl : (arrays.filterMap (fun axes => axes.find? (·.name == d))).length = arrays.length
    · right
      have hne : arrays ≠ [] := by
        obtain ⟨d', _, hne'⟩ := h
        intro he; subst he; simp [havingAxes] at hne'
      cases hh : arrays.filterMap (fun axes => axes.find? (·.name == d)) with
      | nil => rw [hh] at hl; cases arrays <;> simp_all
      | cons x xs =>
        obtain ⟨r, hr⟩ := commonAxis_isSome join x xs
        exact ⟨if sort then axisSort r else r, by simp [hh] at hl; simp [hl, hr, pure, Except.pure]⟩
    · left; simp [hl]

/-- the hypothesis is satisfiable and the refusal occurs -/
example : ∀ d ∈ alignedDims [[({ name := "x", labels := [.num 1, .num 2], kind := .i } : Axis)], [{ name := "x", labels := [.num 2, .num 3], kind := .i }]] none,
    (havingAxes [[({ name := "x", labels := [.num 1, .num 2], kind := .i } : Axis)], [{ name := "x", labels := [.num 2, .num 3], kind := .i }]] d).length = 2 := by
  decide
example : (getAlignedAxes [[{ name := "x", labels := [.num 1], kind := .i }], [{ name := "y", labels := [.num 2], kind := .i }]]
    .outer none false true).toOption = none := by decide

/-- FOLD over any number of arrays: the common axis holds exactly the union (outer) / the intersection (inner) of all
label sets, each label once -/
theorem commonAxis_fold_labels (join : Join) (axes : List Axis) (r : Axis)
    (hns : ∀ ax ∈ axes, Label.none ∉ ax.labels) (hnd : ∀ ax ∈ axes, ax.labels.Nodup)
    (h : commonAxis join axes = some r) :
    r.labels.Nodup ∧
    ∀ v, v ∈ r.labels ↔ (match join with
      | .outer => ∃ ax ∈ axes, v ∈ ax.labels
      | .inner => ∀ ax ∈ axes, v ∈ ax.labels) := by
  refine ⟨commonAxis_nodup join axes r hnd h, ?_⟩
  cases join with
  | outer => exact commonAxis_outer_mem axes r hns h
  | inner => exact commonAxis_inner_mem axes r hns h

/-! ### the direction clause for the fold (and the open finding K06 as a proved counterexample) -/

/-- the two-array direction clause without the side condition `a.labels ≠ b.labels` (equal labels: `union` copies) -/
theorem union_sorted_increasing_gen (a b : Axis) (ha : isIncreasing a.labels = true)
    (hb : isIncreasing b.labels = true) (hla : 2 ≤ a.labels.length) (hlb : 2 ≤ b.labels.length)
    (hc : (getCastKind a.kind b.kind).2 = true) :
    (union a b).labels.Pairwise (fun x y => Label.lt x y = true) := by
  by_cases hne : a.labels = b.labels
  · have h1 : (a.labels == b.labels) = true := by simp [hne]
    unfold union
    simp only [h1, if_true]
    exact chainB_pairwise (fun a b => Label.lt a b) Label.lt_trans a.labels ha
  · exact union_sorted_increasing a b ha hb hla hlb hc hne

/-- two strictly DEcreasing axes of one kind family with at least two labels each: the union is strictly decreasing -/
theorem union_sorted_decreasing (a b : Axis) (ha : isDecreasing a.labels = true)
    (hb : isDecreasing b.labels = true) (hla : 2 ≤ a.labels.length) (hlb : 2 ≤ b.labels.length)
    (hc : (getCastKind a.kind b.kind).2 = true) :
    (union a b).labels.Pairwise (fun x y => Label.lt y x = true) := by
  by_cases hne : a.labels = b.labels
  · have h1 : (a.labels == b.labels) = true := by simp [hne]
    unfold union
    simp only [h1, if_true]
    exact chainB_pairwise (fun a b => Label.lt b a)
      (fun a b c hab hbc => Label.lt_trans c b a hbc hab) a.labels ha
  have hpw := union1d_pairwise Label.le Label.le_trans Label.le_total a.labels b.labels
  have hnd := nodup_union1d Label.le a.labels b.labels
  have hres : (union1d Label.le a.labels b.labels).Pairwise (fun x y => Label.lt x y = true) := by
    have := List.Pairwise.and hpw hnd
    exact this.imp (fun ⟨h1, h2⟩ => Label.lt_of_le_of_ne h1 h2)
  have hsa : slope a.labels = some false := by
    unfold slope
    have := decreasing_headLeLast a.labels ha hla
    unfold headLeLast at this
    cases h1 : a.labels.head? <;> cases h2 : a.labels.getLast? <;> simp_all <;> omega
  have hsb : slope b.labels = some false := by
    unfold slope
    have := decreasing_headLeLast b.labels hb hlb
    unfold headLeLast at this
    cases h1 : b.labels.head? <;> cases h2 : b.labels.getLast? <;> simp_all <;> omega
  unfold union
  have h1 : (a.labels == b.labels) = false := by simpa using hne
  have h2 : a.labels.isEmpty = false := by cases h : a.labels <;> simp_all
  have h3 : b.labels.isEmpty = false := by cases h : b.labels <;> simp_all
  have hma : isMonotonic a.labels = true := by simp [isMonotonic, ha]
  have hmb : isMonotonic b.labels = true := by simp [isMonotonic, hb]
  simp only [h1, h2, h3, Bool.false_eq_true, if_false]
  unfold unionLabels
  simp only [hc, hma, hmb, hsa, hsb, sameSlope, decSlope, Bool.and_self, beq_self_eq_true, if_true]
  exact List.pairwise_reverse.mpr hres

theorem union_kind (a b : Axis) : (union a b).kind = (getCastKind a.kind b.kind).1 := by
  unfold union
  simp only
  split
  · rfl
  · split
    · rfl
    · split <;> rfl

/-- the union is at least as long as a duplicate-free first operand needs: two labels stay two labels -/
theorem union_two_le (a b : Axis) (hla : 2 ≤ a.labels.length) (hnd : a.labels.Nodup) :
    2 ≤ (union a b).labels.length := by
  match hl : a.labels, hla, hnd with
  | x :: y :: rest, _, hnd =>
    have hx : x ∈ (union a b).labels := (union_mem a b x).mpr (Or.inl (by simp [hl]))
    have hy : y ∈ (union a b).labels := (union_mem a b y).mpr (Or.inl (by simp [hl]))
    have hxy : x ≠ y := by
      intro e; subst e; simp at hnd
    match hu : (union a b).labels, hx, hy with
    | [], hx, _ => simp at hx
    | [z], hx, hy =>
      simp only [List.mem_singleton] at hx hy
      exact absurd (hx.trans hy.symm) hxy
    | _ :: _ :: _, _, _ => simp

/-- a generic induction over `_common_axis` (outer): what holds for the inputs and is kept by `Axis.union` holds for the
common axis -/
theorem commonAxis_outer_induct (P : Axis → Prop) (hP : ∀ a b, P a → P b → P (union a b)) :
    ∀ (axes : List Axis) (r : Axis), (∀ ax ∈ axes, P ax) → commonAxis .outer axes = some r → P r
  | [], r, _, h => by simp [commonAxis] at h
  | [ax], r, hn, h => by
    simp only [commonAxis, Option.some.injEq] at h
    subst h; exact hn _ (by simp)
  | ax0 :: ax1 :: rest, r, hn, h => by
    simp only [commonAxis] at h
    cases hc : commonAxis .outer (ax1 :: rest) with
    | none =>
      rw [hc] at h
      simp only [Option.some.injEq] at h
      subst h; exact hn _ (by simp)
    | some c =>
      rw [hc] at h
      have ih := commonAxis_outer_induct P hP (ax1 :: rest) c (fun a ha => hn a (by simp [ha])) hc
      simp only at h
      by_cases h0 : isNoneSingleton ax0 = true
      · simp only [h0, if_true, Option.some.injEq] at h
        subst h; exact ih
      · simp only [h0, if_false, Bool.false_eq_true] at h
        by_cases h1 : isNoneSingleton c = true
        · simp only [h1, if_true, Option.some.injEq] at h
          subst h; exact hn _ (by simp)
        · simp only [h1, if_false, Bool.false_eq_true, Option.some.injEq] at h
          subst h; exact hP _ _ (hn _ (by simp)) ih

/-- a family of dtype kinds inside which `_get_cast_kind` is consistent and stays -/
def KindsClosed (K : Kind → Prop) : Prop :=
  ∀ k1 k2, K k1 → K k2 → (getCastKind k1 k2).2 = true ∧ K (getCastKind k1 k2).1

/-- one kind only -/
theorem kindsClosed_same (k : Kind) : KindsClosed (· = k) := by
  intro k1 k2 h1 h2; subst h1; subst h2; simp [getCastKind]
/-- the numeric family int / float -/
theorem kindsClosed_numeric : KindsClosed (fun k => k = .i ∨ k = .f) := by
  intro k1 k2 h1 h2
  rcases h1 with rfl | rfl <;> rcases h2 with rfl | rfl <;> simp [getCastKind]

/-- FOLD, direction clause: every input axis strictly increasing (resp. every one strictly decreasing) with at least
two labels, kinds of one consistent family: the common axis of the outer join over any number of arrays is strictly
increasing (resp. decreasing).  The length hypothesis is needed: `commonAxis_direction_counterexample`. -/
theorem commonAxis_fold_sorted (K : Kind → Prop) (hK : KindsClosed K) (axes : List Axis) (r : Axis)
    (hk : ∀ ax ∈ axes, K ax.kind) (hlen : ∀ ax ∈ axes, 2 ≤ ax.labels.length)
    (h : commonAxis .outer axes = some r) :
    ((∀ ax ∈ axes, isIncreasing ax.labels = true) → r.labels.Pairwise (fun x y => Label.lt x y = true)) ∧
    ((∀ ax ∈ axes, isDecreasing ax.labels = true) → r.labels.Pairwise (fun x y => Label.lt y x = true)) := by
  constructor
  · intro hinc
    have := commonAxis_outer_induct
      (fun a => K a.kind ∧ 2 ≤ a.labels.length ∧ a.labels.Pairwise (fun x y => Label.lt x y = true))
      (fun a b ⟨ka, la, pa⟩ ⟨kb, lb, pb⟩ => by
        have hnd : a.labels.Nodup := pa.imp (fun {x y} hxy e => by subst e; simp [Label.lt_irrefl] at hxy)
        refine ⟨union_kind a b ▸ (hK _ _ ka kb).2, union_two_le a b la hnd, ?_⟩
        exact union_sorted_increasing_gen a b (pairwise_chainB _ _ pa) (pairwise_chainB _ _ pb) la lb (hK _ _ ka kb).1)
      axes r
      (fun ax hax => ⟨hk ax hax, hlen ax hax,
        chainB_pairwise (fun a b => Label.lt a b) Label.lt_trans ax.labels (hinc ax hax)⟩) h
    exact this.2.2
  · intro hdec
    have := commonAxis_outer_induct
      (fun a => K a.kind ∧ 2 ≤ a.labels.length ∧ a.labels.Pairwise (fun x y => Label.lt y x = true))
      (fun a b ⟨ka, la, pa⟩ ⟨kb, lb, pb⟩ => by
        have hnd : a.labels.Nodup := pa.imp (fun {x y} hxy e => by subst e; simp [Label.lt_irrefl] at hxy)
        refine ⟨union_kind a b ▸ (hK _ _ ka kb).2, union_two_le a b la hnd, ?_⟩
        exact union_sorted_decreasing a b (pairwise_chainB (fun a b => Label.lt b a) _ pa)
          (pairwise_chainB (fun a b => Label.lt b a) _ pb) la lb (hK _ _ ka kb).1)
      axes r
      (fun ax hax => ⟨hk ax hax, hlen ax hax,
        chainB_pairwise (fun a b => Label.lt b a) (fun a b c hab hbc => Label.lt_trans c b a hbc hab)
          ax.labels (hdec ax hax)⟩) h
    exact this.2.2

/-- the hypotheses are satisfiable by a non-trivial input (three decreasing integer axes) -/
example : ∃ r, commonAxis .outer
      [{ name := "x", labels := [.num 9, .num 4], kind := .i }, { name := "x", labels := [.num 4, .num 0], kind := .i },
       { name := "x", labels := [.num 5, .num 4], kind := .i }] = some r ∧
    r.labels.Pairwise (fun x y => Label.lt y x = true) := by
  obtain ⟨r, hr⟩ := commonAxis_isSome .outer
    ({ name := "x", labels := [.num 9, .num 4], kind := .i } : Axis)
    [{ name := "x", labels := [.num 4, .num 0], kind := .i }, { name := "x", labels := [.num 5, .num 4], kind := .i }]
  refine ⟨r, hr, (commonAxis_fold_sorted (· = .i) (kindsClosed_same .i) _ r ?_ ?_ hr).2 ?_⟩
  · intro ax hax; simp at hax; rcases hax with rfl | rfl | rfl <;> rfl
  · intro ax hax; simp at hax; rcases hax with rfl | rfl | rfl <;> simp
  · intro ax hax; simp at hax; rcases hax with rfl | rfl | rfl <;> decide

/-- The direction clause does NOT extend to one-label axes in a fold (finding K06, open in the library): the axes
[9,4,0], [-2], [5] - every one sorted decreasing, two of them with ONE label, all of kind int - have the common axis
[9,4,0,-2,5], which is sorted in no direction: `_common_axis` unites the two single labels first (ascending, `np.union1d`)
and then concatenates, because the directions now differ. -/
theorem commonAxis_direction_counterexample :
    ∃ (axes : List Axis) (r : Axis),
      (∀ ax ∈ axes, isDecreasing ax.labels = true) ∧ (∀ ax ∈ axes, ax.kind = .i) ∧
      (∀ ax ∈ axes, ax.labels.Nodup ∧ Label.none ∉ ax.labels) ∧
      commonAxis .outer axes = some r ∧
      r.labels = [.num 9, .num 4, .num 0, .num (-2), .num 5] ∧ isMonotonic r.labels = false := by
  have hu : union1d Label.le [Label.num (-2)] [Label.num 5] = [Label.num (-2), Label.num 5] := by
    unfold union1d
    rw [sortBy_of_pairwise Label.le _ (by decide)]
    decide
  have hU : union ({ name := "x", labels := [.num (-2)], kind := .i } : Axis) { name := "x", labels := [.num 5], kind := .i }
      = { name := "x", labels := [.num (-2), .num 5], kind := .i } := by
    unfold union unionLabels
    rw [hu]
    decide
  refine ⟨[{ name := "x", labels := [.num 9, .num 4, .num 0], kind := .i },
           { name := "x", labels := [.num (-2)], kind := .i }, { name := "x", labels := [.num 5], kind := .i }],
    { name := "x", labels := [.num 9, .num 4, .num 0, .num (-2), .num 5], kind := .i }, ?_, ?_, ?_, ?_, rfl, by decide⟩
  · intro ax hax; simp at hax; rcases hax with rfl | rfl | rfl <;> decide
  · intro ax hax; simp at hax; rcases hax with rfl | rfl | rfl <;> rfl
  · intro ax hax; simp at hax; rcases hax with rfl | rfl | rfl <;> decide
  · simp only [commonAxis]
    rw [hU]
    decide

end DimModel

/-
C12 - property theorems: stack and concatenate join arrays without misaligning them.
-/
import DimModel.Lib.Join
namespace DimModel
open Lib

/-- the slice of a stacked array at position `k` of the new (first) dimension is exactly array `k` -/
theorem stackNew_get {α : Type} [Inhabited α] (as : List (NDArr α)) (k : Nat) (j : List Nat) :
    (NDArr.stackNew as).get (k :: j) = (as.getD k default).get j := rfl

theorem stackNew_shape {α : Type} [Inhabited α] (a : NDArr α) (as : List (NDArr α)) :
    (NDArr.stackNew (a :: as)).shape = (as.length + 1) :: a.shape := by
  simp [NDArr.stackNew]

/-- concatenation of two arrays along `axis`: positions below the first array's extent come from
the first array, the others from the second (shifted) -/
theorem concat2_get {α : Type} (a b : NDArr α) (axis : Nat) (j : List Nat) :
    (a.concat2 b axis).get j =
      if j.getD axis 0 < a.shape.getD axis 0 then a.get j
      else b.get (j.set axis (j.getD axis 0 - a.shape.getD axis 0)) := rfl

theorem concat2_shape {α : Type} (a b : NDArr α) (axis : Nat) :
    (a.concat2 b axis).shape = a.shape.set axis (a.shape.getD axis 0 + b.shape.getD axis 0) := rfl

end DimModel

/-! ### auxiliary lemmas (namespace `DimModel.C12`) and the theorems on `stack` / `concatenate` -/

namespace DimModel
open Lib
namespace C12

theorem mapM_ok_mem {ε α β : Type} (f : α → Except ε β) :
    ∀ (l : List α) (out : List β), l.mapM f = .ok out → ∀ o ∈ out, ∃ a ∈ l, f a = .ok o := by
  intro l
  induction l with
  | nil => intro out h o ho; simp [List.mapM_nil, pure, Except.pure] at h; subst h; simp at ho
  | cons a l ih =>
    intro out h o ho
    rw [List.mapM_cons] at h
    simp only [bind, Except.bind, pure, Except.pure] at h
    cases hfa : f a with
    | error e => simp [hfa] at h
    | ok b =>
      simp only [hfa] at h
      cases hl : l.mapM f with
      | error e => simp [hl] at h
      | ok bs =>
        simp only [hl] at h
        injection h with h
        subst h
        rcases List.mem_cons.1 ho with rfl | ho
        · exact ⟨a, List.mem_cons_self, hfa⟩
        · obtain ⟨a', ha', h'⟩ := ih bs hl o ho
          exact ⟨a', List.mem_cons_of_mem _ ha', h'⟩

theorem mapM_error_mem {ε α β : Type} (f : α → Except ε β) :
    ∀ (l : List α) (e : ε), l.mapM f = .error e → ∃ a ∈ l, f a = .error e := by
  intro l
  induction l with
  | nil => intro e h; simp [List.mapM_nil, pure, Except.pure] at h
  | cons a l ih =>
    intro e h
    rw [List.mapM_cons] at h
    simp only [bind, Except.bind, pure, Except.pure] at h
    cases hfa : f a with
    | error e' => simp only [hfa] at h; injection h with h; subst h; exact ⟨a, List.mem_cons_self, hfa⟩
    | ok b =>
      simp only [hfa] at h
      cases hl : l.mapM f with
      | error e' =>
        simp only [hl] at h; injection h with h; subst h
        obtain ⟨a', ha', h'⟩ := ih _ hl
        exact ⟨a', List.mem_cons_of_mem _ ha', h'⟩
      | ok bs => simp [hl] at h

private def posOf {α : Type} (a : DimArray α) (k : DimKey) : Except Err Int :=
  match k with
    | .name s =>
      let p := a.dims.idxOf s
      if p < a.dims.length then .ok (p : Int) else .error .value
    | .pos i => .ok i

theorem axesPositions_names {α : Type} (a : DimArray α) :
    ∀ (names : List String) (pi : List Int), axesPositions a (names.map DimKey.name) = .ok pi →
      pi = names.map (fun s => ((a.dims.idxOf s : Nat) : Int)) ∧ ∀ s ∈ names, a.dims.idxOf s < a.dims.length := by
  intro names
  have hdef : ∀ ks, axesPositions a ks = ks.mapM (posOf a) := fun _ => rfl
  simp only [hdef]
  induction names with
  | nil => intro pi h; simp [List.mapM_nil, pure, Except.pure] at h; subst h; simp
  | cons s names ih =>
    intro pi h
    rw [List.map_cons, List.mapM_cons] at h
    cases hl : List.mapM (posOf a) (names.map DimKey.name) with
    | error e =>
      rw [hl] at h
      simp only [bind, Except.bind] at h
      split at h <;> simp at h
    | ok bs =>
      rw [hl] at h
      simp only [bind, Except.bind, pure, Except.pure, posOf] at h
      by_cases hs : a.dims.idxOf s < a.dims.length
      · simp only [hs, if_true] at h
        injection h with h
        subst h
        obtain ⟨h1, h2⟩ := ih bs hl
        refine ⟨by simp [h1], ?_⟩
        intro s' hs'
        rcases List.mem_cons.1 hs' with rfl | hs'
        · exact hs
        · exact h2 _ hs'
      · simp [hs] at h

private def normOne (n : Nat) (i : Int) : Except Err Nat :=
    let j : Int := if i < 0 then i + (n : Int) else i
    if j < 0 || j ≥ (n : Int) then (.error .value : Except Err Nat)
    else .ok j.toNat

theorem mapM_normOne (n : Nat) : ∀ (l : List Nat), (∀ k ∈ l, k < n) →
    (l.map (fun (k : Nat) => (k : Int))).mapM (normOne n) = .ok l := by
  intro l
  induction l with
  | nil => intro _; rfl
  | cons k l ih =>
    intro hk
    rw [List.map_cons, List.mapM_cons, ih (fun k' hk' => hk k' (List.mem_cons_of_mem _ hk'))]
    have hkn : k < n := hk k List.mem_cons_self
    have h1 : ¬ ((k : Int) < 0) := by omega
    have h2 : ¬ ((k : Int) ≥ (n : Int)) := by omega
    simp [normOne, h1, h2, bind, Except.bind, pure, Except.pure]

theorem normPerm_nat (n : Nat) (l q : List Nat) (hl : ∀ k ∈ l, k < n)
    (h : normPerm n (l.map (fun (k : Nat) => (k : Int))) = .ok q) : q = l := by
  unfold normPerm at h
  have hdef : ∀ (p : List Int), p.mapM (fun (i : Int) =>
    let j : Int := if i < 0 then i + (n : Int) else i
    if j < 0 || j ≥ (n : Int) then (.error .value : Except Err Nat)
    else .ok j.toNat) = p.mapM (normOne n) := fun _ => rfl
  rw [hdef, mapM_normOne n l hl] at h
  simp only [bind, Except.bind, pure, Except.pure] at h
  split at h
  · simp at h
  · split at h
    · simp at h
    · injection h with h; exact h.symm

theorem transposeBy_dims_names {α : Type} (a : DimArray α) (names : List String)
    (h : ∀ s ∈ names, a.dims.idxOf s < a.dims.length) :
    (transposeBy a (names.map (fun s => a.dims.idxOf s))).dims = names := by
  simp only [transposeBy, DimArray.dims, List.map_map]
  conv => rhs; rw [← List.map_id names]
  apply List.map_congr_left
  intro s hs
  have := h s hs
  simp only [DimArray.dims, List.length_map] at this
  simp only [Function.comp, id]
  have h2 := List.getElem_idxOf (xs := a.axes.map (·.name)) (x := s) (by simpa using this)
  simp only [List.getD_eq_getElem?_getD, List.getElem?_eq_getElem this, Option.getD_some]
  rw [List.getElem_map] at h2
  exact h2

/-- transposing to a list of dimension names yields exactly those dims
(`hn` is not needed by the proof, it is kept as documentation of the intended use) -/
theorem _root_.DimModel.transpose_names_dims {α : Type} (a r : DimArray α) (names : List String) (hn : a.dims.Nodup)
    (h : transpose a (some (names.map DimKey.name)) = .ok r) (hne : names ≠ []) : r.dims = names := by
  unfold transpose at h
  have he : (names.map DimKey.name).isEmpty = false := by
    cases names with
    | nil => exact absurd rfl hne
    | cons s t => rfl
  simp only [he, bind, Except.bind, pure, Except.pure, Bool.and_false, Bool.false_eq_true, if_false] at h
  cases hp : axesPositions a (names.map DimKey.name) with
  | error e => simp [hp] at h
  | ok pi =>
    simp only [hp] at h
    obtain ⟨h1, h2⟩ := axesPositions_names a names pi hp
    cases hq : normPerm a.ndim pi with
    | error e => simp [hq] at h
    | ok q =>
      simp only [hq] at h
      injection h with h
      subst h
      have h1' : pi = (names.map (fun s => a.dims.idxOf s)).map (fun (k : Nat) => (k : Int)) := by
        rw [h1, List.map_map]; rfl
      rw [h1'] at hq
      have hq' := normPerm_nat a.ndim _ q (by
        intro k hk
        obtain ⟨s, hs, rfl⟩ := List.mem_map.1 hk
        have := h2 s hs
        simpa [DimArray.dims, DimArray.ndim] using this) hq
      subst hq'
      exact transposeBy_dims_names a names h2

/-- the per-array step of `reorderLikeFirst` -/
private def reorderOne {α : Type} (a0 a : DimArray α) : Except Err (DimArray α) :=
  if a.dims == a0.dims then pure a
  else match transpose a (some (a0.dims.map DimKey.name)) with
    | .ok r => pure r
    | .error _ => .error .value

theorem reorderLikeFirst_cons {α : Type} (a0 : DimArray α) (rest : List (DimArray α)) :
    reorderLikeFirst (a0 :: rest) = (a0 :: rest).mapM (reorderOne a0) := rfl

theorem reorderOne_same {α : Type} (a0 a : DimArray α) (h : a.dims = a0.dims) :
    reorderOne a0 a = .ok a := by
  simp [reorderOne, h, pure, Except.pure]

theorem reorderOne_dims {α : Type} (a0 a o : DimArray α) (hn : a.dims.Nodup) (hne : a0.dims ≠ [])
    (h : reorderOne a0 a = .ok o) : o.dims = a0.dims := by
  unfold reorderOne at h
  by_cases hd : a.dims = a0.dims
  · simp only [hd, beq_self_eq_true, if_true, pure, Except.pure] at h
    injection h with h; subst h; exact hd
  · have : (a.dims == a0.dims) = false := by simpa using hd
    simp only [this, Bool.false_eq_true, if_false] at h
    cases ht : transpose a (some (a0.dims.map DimKey.name)) with
    | error e => simp [ht] at h
    | ok r =>
      simp only [ht, pure, Except.pure] at h
      injection h with h; subst h
      exact transpose_names_dims a r a0.dims hn ht hne

theorem reorderOne_error {α : Type} (a0 a : DimArray α) (e : Err)
    (h : reorderOne a0 a = .error e) : e = .value := by
  unfold reorderOne at h
  split at h
  · simp [pure, Except.pure] at h
  · split at h
    · simp [pure, Except.pure] at h
    · injection h with h; exact h.symm

/-- inputs are matched by dimension name: after `reorderLikeFirst` every array lists the dimensions
of the first one (otherwise the join is refused) -/
theorem _root_.DimModel.reorderLikeFirst_dims {α : Type} (a0 : DimArray α) (rest out : List (DimArray α))
    (hn : ∀ a ∈ a0 :: rest, a.dims.Nodup) (hne : a0.dims ≠ [])
    (h : reorderLikeFirst (a0 :: rest) = .ok out) : ∀ o ∈ out, o.dims = a0.dims := by
  intro o ho
  rw [reorderLikeFirst_cons] at h
  obtain ⟨a, ha, hfa⟩ := mapM_ok_mem _ _ _ h o ho
  exact reorderOne_dims a0 a o (hn a ha) hne hfa

/-- `reorderLikeFirst` refuses (ValueError) rather than joining positionally: every error is a ValueError -/
theorem _root_.DimModel.reorderLikeFirst_error {α : Type} (a0 : DimArray α) (rest : List (DimArray α)) (e : Err)
    (h : reorderLikeFirst (a0 :: rest) = .error e) : e = .value := by
  rw [reorderLikeFirst_cons] at h
  obtain ⟨a, _, hfa⟩ := mapM_error_mem _ _ _ h
  exact reorderOne_error a0 a e hfa

/-- the first array is returned unchanged in first position -/
theorem reorderLikeFirst_head {α : Type} (a0 : DimArray α) (rest out : List (DimArray α))
    (h : reorderLikeFirst (a0 :: rest) = .ok out) : ∃ t, out = a0 :: t := by
  rw [reorderLikeFirst_cons, List.mapM_cons, reorderOne_same a0 a0 rfl] at h
  simp only [bind, Except.bind, pure, Except.pure] at h
  cases hl : rest.mapM (reorderOne a0) with
  | error e => simp [hl] at h
  | ok t =>
    simp only [hl] at h
    injection h with h
    exact ⟨t, h.symm⟩

/-- inversion of a successful `stack` without alignment -/
theorem stack_inv {α : Type} [Inhabited α] (nan : α) (arrays : List (DimArray α)) (axis : Option String)
    (keys : List Label) (kk : Kind) (r : DimArray α)
    (h : stack nan arrays axis keys kk false false = .ok r) :
    ∃ (name : String) (arrs : List (DimArray α)) (axes : List Axis),
      reorderLikeFirst arrays = .ok arrs ∧
      getAxesAligned (arrs.map (·.axes)) = .ok axes ∧
      (∀ x ∈ arrs, ∀ y ∈ x.axes, ∃ c, axes.find? (·.name == y.name) = some c ∧ c.labels = y.labels) ∧
      keys.length = arrs.length ∧
      r = { axes := { name := name, labels := keys, kind := kk } :: axes.map (fun ax => { ax with }),
            vals := NDArr.stackNew (arrs.map (·.vals)),
            vkind := (arrs.head?.map (·.vkind)).getD .f, attrs := [] } := by
  unfold stack at h
  simp only [bind, Except.bind, pure, Except.pure, Bool.false_eq_true, if_false] at h
  cases hname : checkStackAxis axis (getDims (arrays.map (·.axes))) with
  | error e => simp [hname] at h
  | ok name =>
    simp only [hname] at h
    cases harrs : reorderLikeFirst arrays with
    | error e => simp [harrs] at h
    | ok arrs =>
      simp only [harrs] at h
      split at h
      · simp at h
      · cases haxes : getAxesAligned (arrs.map (·.axes)) with
        | error e => simp [haxes] at h
        | ok axes =>
          simp only [haxes] at h
          split at h
          · simp at h
          · rename_i hchk
            split at h
            · simp at h
            · rename_i hlen
              injection h with h
              subst h
              refine ⟨name, arrs, axes, rfl, haxes, ?_, ?_, rfl⟩
              · intro x hx y hy
                cases hf : axes.find? (·.name == y.name) with
                | none =>
                  exfalso; apply hchk
                  rw [List.any_eq_true]
                  refine ⟨x, hx, ?_⟩
                  rw [List.any_eq_true]
                  exact ⟨y, hy, by simp only [hf]⟩
                | some c =>
                  refine ⟨c, rfl, ?_⟩
                  apply Classical.byContradiction
                  intro hne
                  apply hchk
                  rw [List.any_eq_true]
                  refine ⟨x, hx, ?_⟩
                  rw [List.any_eq_true]
                  exact ⟨y, hy, by simp only [hf]; simpa using hne⟩
              · simpa using hlen

/-- **stack**: when it succeeds the first dimension is the new axis labelled by the keys, the other
axes follow, metadata is dropped, and the slice at position `k` of the new dimension is exactly the
(aligned, name-ordered) array `k` -/
theorem _root_.DimModel.stack_spec {α : Type} [Inhabited α] (nan : α) (arrays : List (DimArray α)) (axis : Option String)
    (keys : List Label) (kk : Kind) (r : DimArray α)
    (h : stack nan arrays axis keys kk false false = .ok r) :
    ∃ (name : String) (arrs : List (DimArray α)),
      reorderLikeFirst arrays = .ok arrs ∧
      r.dims.head? = some name ∧
      (r.axes.head?.map (·.labels)) = some keys ∧
      r.attrs = [] ∧
      ∀ k j, r.vals.get (k :: j) = ((arrs.map DimArray.vals).getD k default).get j := by
  obtain ⟨name, arrs, axes, h1, _, _, _, rfl⟩ := stack_inv nan arrays axis keys kk r h
  exact ⟨name, arrs, h1, rfl, rfl, rfl, fun k j => rfl⟩

theorem reorderLikeFirst_pair_same {α : Type} (a b : DimArray α) (hd : a.dims = b.dims) :
    reorderLikeFirst [a, b] = .ok [a, b] := by
  rw [reorderLikeFirst_cons, List.mapM_cons, List.mapM_cons, List.mapM_nil,
    reorderOne_same a a rfl, reorderOne_same a b hd.symm]
  rfl

/-- **stack refuses misaligned inputs**: without `align`, if some input (listing its dimensions like
the first one) carries on some axis labels that differ from another input's labels on that
dimension, the result is an error - never a positional join.
(`hsz`, `hplain`, `hna` are not needed by the proof: the post-check of `stack` compares the labels of
every input axis with the common axis of the same name, whatever the sizes.) -/
theorem _root_.DimModel.stack_error_is_not_ok_of_label_mismatch {α : Type} [Inhabited α] (nan : α) (a b : DimArray α)
    (axis : Option String) (keys : List Label) (kk : Kind)
    (hd : a.dims = b.dims) (ax : Axis) (bx : Axis) (ha : ax ∈ a.axes) (hb : bx ∈ b.axes)
    (hname : ax.name = bx.name) (hsz : ax.size = bx.size) (hplain : ax.members = [] ∧ bx.members = [])
    (hna : a.dims.Nodup) (hl : ax.labels ≠ bx.labels) :
    ∀ r, stack nan [a, b] axis keys kk false false ≠ .ok r := by
  intro r h
  obtain ⟨name, arrs, axes, h1, _, hchk, _, _⟩ := stack_inv nan [a, b] axis keys kk r h
  rw [reorderLikeFirst_pair_same a b hd] at h1
  injection h1 with h1
  subst h1
  apply hl
  obtain ⟨c1, hc1, hl1⟩ := hchk a (by simp) ax ha
  obtain ⟨c2, hc2, hl2⟩ := hchk b (by simp) bx hb
  rw [hname, hc2] at hc1
  injection hc1 with hc1
  subst hc1
  rw [← hl1, ← hl2]

theorem getD_insert_mid {β : Type} (l : List β) (pos : Nat) (x d : β) (g : β → β) (hpos : pos ≤ l.length) :
    ((l.take pos ++ [x] ++ l.drop pos).map g).getD pos d = g x := by
  have hlen : (l.take pos).length = pos := by simp [List.length_take, Nat.min_eq_left hpos]
  rw [List.getD_eq_getElem?_getD, List.getElem?_map, List.append_assoc,
    List.getElem?_append_right (by omega), hlen]
  simp

theorem ok_of_ite_error {ε β : Type} {c : Prop} [Decidable c] {e : ε} {x : Except ε β} {r : β}
    (h : (if c then Except.error e else x) = .ok r) : x = .ok r := by
  by_cases hc : c
  · rw [if_pos hc] at h; cases h
  · rw [if_neg hc] at h; exact h

set_option hygiene false in
/-- the part of the proof of `concatenate_labels` after the position `pos` of the axis is known:
expects `h : (match reorderLikeFirst (a0 :: rest) with ...) = .ok r` and `hlt : pos < a0.axes.length` -/
local macro "concat_tail" p:term : tactic => `(tactic| (
  cases harrs : reorderLikeFirst (a0 :: rest) with
  | error e => simp [harrs] at h
  | ok arrs =>
    simp only [harrs] at h
    obtain ⟨t, rfl⟩ := reorderLikeFirst_head a0 rest arrs harrs
    simp only [List.headD_cons] at h
    replace h := ok_of_ite_error h
    replace h := ok_of_ite_error h
    generalize concatVals _ _ = cv at h
    cases cv with
    | none => simp at h
    | some v =>
      simp only at h
      injection h with h
      subst h
      refine ⟨$p, a0 :: t, rfl, ?_, rfl⟩
      simp only []
      rw [getD_insert_mid]
      rw [List.length_eraseIdx]
      split <;> omega))

/-- **concatenate**: the labels along the concatenation axis are the inputs' labels concatenated in
input order; metadata is dropped -/
theorem _root_.DimModel.concatenate_labels {α : Type} (nan : α) (arrays : List (DimArray α)) (axis : DimKey) (r : DimArray α)
    (h : concatenate nan arrays axis false false = .ok r) :
    ∃ (pos : Nat) (arrs : List (DimArray α)),
      reorderLikeFirst arrays = .ok arrs ∧
      (r.axes.getD pos default).labels = arrs.flatMap (fun a => (a.axes.getD pos default).labels) ∧
      r.attrs = [] := by
  unfold concatenate at h
  cases arrays with
  | nil => simp [bind, Except.bind] at h
  | cons a0 rest =>
    cases axis with
    | name s =>
      by_cases hp : a0.dims.idxOf s < a0.dims.length
      · have hlt : a0.dims.idxOf s < a0.axes.length := by simpa [DimArray.dims] using hp
        simp only [hp, if_true, bind, Except.bind, pure, Except.pure, Bool.false_eq_true, if_false] at h
        concat_tail (a0.dims.idxOf s)
      · simp [hp, bind, Except.bind, pure, Except.pure] at h
    | pos i =>
      by_cases hp : (i < 0 || i ≥ (a0.ndim : Int)) = true
      · simp [hp, bind, Except.bind, pure, Except.pure] at h
      · have hlt : i.toNat < a0.axes.length := by
          simp [DimArray.ndim] at hp
          omega
        simp only [hp, bind, Except.bind, pure, Except.pure, Bool.false_eq_true, if_false] at h
        concat_tail i.toNat

end C12
end DimModel

/-
C12 - property theorems: stack and concatenate join arrays without misaligning them.
-/
import DimModel.Lib.Join
import DimModel.Proofs.C12Join
namespace DimModel
open Lib

/-- the slice of a stacked array at position `k` of the new (first) dimension is exactly array `k` -/
theorem stackNew_get {α : Type} [Inhabited α] (as : List (NDArr α)) (k : Nat) (j : List Nat) :
    (NDArr.stackNew as).get (k :: j) = (as.getD k default).get j := rfl

theorem stackNew_shape {α : Type} [Inhabited α] (a : NDArr α) (as : List (NDArr α)) :
    (NDArr.stackNew (a :: as)).shape = (as.length + 1) :: a.shape := by
  simp [NDArr.stackNew]

/-- concatenation of two arrays along `axis`: positions below the first array's extent come from
the first array, the others from the second (shifted) -/
theorem concat2_get {α : Type} (a b : NDArr α) (axis : Nat) (j : List Nat) :
    (a.concat2 b axis).get j =
      if j.getD axis 0 < a.shape.getD axis 0 then a.get j
      else b.get (j.set axis (j.getD axis 0 - a.shape.getD axis 0)) := rfl

theorem concat2_shape {α : Type} (a b : NDArr α) (axis : Nat) :
    (a.concat2 b axis).shape = a.shape.set axis (a.shape.getD axis 0 + b.shape.getD axis 0) := rfl

end DimModel

/-! ### auxiliary lemmas (namespace `DimModel.C12`) and the theorems on `stack` / `concatenate` -/

namespace DimModel
open Lib
namespace C12

theorem mapM_ok_mem {ε α β : Type} (f : α → Except ε β) :
    ∀ (l : List α) (out : List β), l.mapM f = .ok out → ∀ o ∈ out, ∃ a ∈ l, f a = .ok o := by
  intro l
  induction l with
  | nil => intro out h o ho; simp [List.mapM_nil, pure, Except.pure] at h; subst h; simp at ho
  | cons a l ih =>
    intro out h o ho
    rw [List.mapM_cons] at h
    simp only [bind, Except.bind, pure, Except.pure] at h
    cases hfa : f a with
    | error e => simp [hfa] at h
    | ok b =>
      simp only [hfa] at h
      cases hl : l.mapM f with
      | error e => simp [hl] at h
      | ok bs =>
        simp only [hl] at h
        injection h with h
        subst h
        rcases List.mem_cons.1 ho with rfl | ho
        · exact ⟨a, List.mem_cons_self, hfa⟩
        · obtain ⟨a', ha', h'⟩ := ih bs hl o ho
          exact ⟨a', List.mem_cons_of_mem _ ha', h'⟩

theorem mapM_error_mem {ε α β : Type} (f : α → Except ε β) :
    ∀ (l : List α) (e : ε), l.mapM f = .error e → ∃ a ∈ l, f a = .error e := by
  intro l
  induction l with
  | nil => intro e h; simp [List.mapM_nil, pure, Except.pure] at h
  | cons a l ih =>
    intro e h
    rw [List.mapM_cons] at h
    simp only [bind, Except.bind, pure, Except.pure] at h
    cases hfa : f a with
    | error e' => simp only [hfa] at h; injection h with h; subst h; exact ⟨a, List.mem_cons_self, hfa⟩
    | ok b =>
      simp only [hfa] at h
      cases hl : l.mapM f with
      | error e' =>
        simp only [hl] at h; injection h with h; subst h
        obtain ⟨a', ha', h'⟩ := ih _ hl
        exact ⟨a', List.mem_cons_of_mem _ ha', h'⟩
      | ok bs => simp [hl] at h

private def posOf {α : Type} (a : DimArray α) (k : DimKey) : Except Err Int :=
  match k with
    | .name s =>
      let p := a.dims.idxOf s
      if p < a.dims.length then .ok (p : Int) else .error .value
    | .pos i => if i < -(a.ndim : Int) || i ≥ (a.ndim : Int) then .error .index else .ok i

theorem axesPositions_names {α : Type} (a : DimArray α) :
    ∀ (names : List String) (pi : List Int), axesPositions a (names.map DimKey.name) = .ok pi →
      pi = names.map (fun s => ((a.dims.idxOf s : Nat) : Int)) ∧ ∀ s ∈ names, a.dims.idxOf s < a.dims.length := by
  intro names
  have hdef : ∀ ks, axesPositions a ks = ks.mapM (posOf a) := fun _ => rfl
  simp only [hdef]
  induction names with
  | nil => intro pi h; simp [List.mapM_nil, pure, Except.pure] at h; subst h; simp
  | cons s names ih =>
    intro pi h
    rw [List.map_cons, List.mapM_cons] at h
    cases hl : List.mapM (posOf a) (names.map DimKey.name) with
    | error e =>
      rw [hl] at h
      simp only [bind, Except.bind] at h
      split at h <;> simp at h
    | ok bs =>
      rw [hl] at h
      simp only [bind, Except.bind, pure, Except.pure, posOf] at h
      by_cases hs : a.dims.idxOf s < a.dims.length
      · simp only [hs, if_true] at h
        injection h with h
        subst h
        obtain ⟨h1, h2⟩ := ih bs hl
        refine ⟨by simp [h1], ?_⟩
        intro s' hs'
        rcases List.mem_cons.1 hs' with rfl | hs'
        · exact hs
        · exact h2 _ hs'
      · simp [hs] at h

private def normOne (n : Nat) (i : Int) : Except Err Nat :=
    let j : Int := if i < 0 then i + (n : Int) else i
    if j < 0 || j ≥ (n : Int) then (.error .value : Except Err Nat)
    else .ok j.toNat

theorem mapM_normOne (n : Nat) : ∀ (l : List Nat), (∀ k ∈ l, k < n) →
    (l.map (fun (k : Nat) => (k : Int))).mapM (normOne n) = .ok l := by
  intro l
  induction l with
  | nil => intro _; rfl
  | cons k l ih =>
    intro hk
    rw [List.map_cons, List.mapM_cons, ih (fun k' hk' => hk k' (List.mem_cons_of_mem _ hk'))]
    have hkn : k < n := hk k List.mem_cons_self
    have h1 : ¬ ((k : Int) < 0) := by omega
    have h2 : ¬ ((k : Int) ≥ (n : Int)) := by omega
    simp [normOne, h1, h2, bind, Except.bind, pure, Except.pure]

theorem normPerm_nat (n : Nat) (l q : List Nat) (hl : ∀ k ∈ l, k < n)
    (h : normPerm n (l.map (fun (k : Nat) => (k : Int))) = .ok q) : q = l := by
  unfold normPerm at h
  have hdef : ∀ (p : List Int), p.mapM (fun (i : Int) =>
    let j : Int := if i < 0 then i + (n : Int) else i
    if j < 0 || j ≥ (n : Int) then (.error .value : Except Err Nat)
    else .ok j.toNat) = p.mapM (normOne n) := fun _ => rfl
  rw [hdef, mapM_normOne n l hl] at h
  simp only [bind, Except.bind, pure, Except.pure] at h
  split at h
  · simp at h
  · split at h
    · simp at h
    · injection h with h; exact h.symm

theorem transposeBy_dims_names {α : Type} (a : DimArray α) (names : List String)
    (h : ∀ s ∈ names, a.dims.idxOf s < a.dims.length) :
    (transposeBy a (names.map (fun s => a.dims.idxOf s))).dims = names := by
  simp only [transposeBy, DimArray.dims, List.map_map]
  conv => rhs; rw [← List.map_id names]
  apply List.map_congr_left
  intro s hs
  have := h s hs
  simp only [DimArray.dims, List.length_map] at this
  simp only [Function.comp, id]
  have h2 := List.getElem_idxOf (xs := a.axes.map (·.name)) (x := s) (by simpa using this)
  simp only [List.getD_eq_getElem?_getD, List.getElem?_eq_getElem this, Option.getD_some]
  rw [List.getElem_map] at h2
  exact h2

/-- transposing to a list of dimension names yields exactly those dims
(`hn` is not needed by the proof, it is kept as documentation of the intended use) -/
theorem _root_.DimModel.transpose_names_dims {α : Type} (a r : DimArray α) (names : List String) (hn : a.dims.Nodup)
    (h : transpose a (some (names.map DimKey.name)) = .ok r) (hne : names ≠ []) : r.dims = names := by
  unfold transpose at h
  have he : (names.map DimKey.name).isEmpty = false := by
    cases names with
    | nil => exact absurd rfl hne
    | cons s t => rfl
  simp only [he, bind, Except.bind, pure, Except.pure, Bool.and_false, Bool.false_eq_true, if_false] at h
  cases hp : axesPositions a (names.map DimKey.name) with
  | error e => simp [hp] at h
  | ok pi =>
    simp only [hp] at h
    obtain ⟨h1, h2⟩ := axesPositions_names a names pi hp
    cases hq : normPerm a.ndim pi with
    | error e => simp [hq] at h
    | ok q =>
      simp only [hq] at h
      injection h with h
      subst h
      have h1' : pi = (names.map (fun s => a.dims.idxOf s)).map (fun (k : Nat) => (k : Int)) := by
        rw [h1, List.map_map]; rfl
      rw [h1'] at hq
      have hq' := normPerm_nat a.ndim _ q (by
        intro k hk
        obtain ⟨s, hs, rfl⟩ := List.mem_map.1 hk
        have := h2 s hs
        simpa [DimArray.dims, DimArray.ndim] using this) hq
      subst hq'
      exact transposeBy_dims_names a names h2

/-- the per-array step of `reorderLikeFirst` -/
private def reorderOne {α : Type} (a0 a : DimArray α) : Except Err (DimArray α) :=
  if a.dims == a0.dims then pure a
  else match transpose a (some (a0.dims.map DimKey.name)) with
    | .ok r => pure r
    | .error _ => .error .value

theorem reorderLikeFirst_cons {α : Type} (a0 : DimArray α) (rest : List (DimArray α)) :
    reorderLikeFirst (a0 :: rest) = (a0 :: rest).mapM (reorderOne a0) := rfl

theorem reorderOne_same {α : Type} (a0 a : DimArray α) (h : a.dims = a0.dims) :
    reorderOne a0 a = .ok a := by
  simp [reorderOne, h, pure, Except.pure]

theorem reorderOne_dims {α : Type} (a0 a o : DimArray α) (hn : a.dims.Nodup) (hne : a0.dims ≠ [])
    (h : reorderOne a0 a = .ok o) : o.dims = a0.dims := by
  unfold reorderOne at h
  by_cases hd : a.dims = a0.dims
  · simp only [hd, beq_self_eq_true, if_true, pure, Except.pure] at h
    injection h with h; subst h; exact hd
  · have : (a.dims == a0.dims) = false := by simpa using hd
    simp only [this, Bool.false_eq_true, if_false] at h
    cases ht : transpose a (some (a0.dims.map DimKey.name)) with
    | error e => simp [ht] at h
    | ok r =>
      simp only [ht, pure, Except.pure] at h
      injection h with h; subst h
      exact transpose_names_dims a r a0.dims hn ht hne

theorem reorderOne_error {α : Type} (a0 a : DimArray α) (e : Err)
    (h : reorderOne a0 a = .error e) : e = .value := by
  unfold reorderOne at h
  split at h
  · simp [pure, Except.pure] at h
  · split at h
    · simp [pure, Except.pure] at h
    · injection h with h; exact h.symm

/-- inputs are matched by dimension name: after `reorderLikeFirst` every array lists the dimensions
of the first one (otherwise the join is refused) -/
theorem _root_.DimModel.reorderLikeFirst_dims {α : Type} (a0 : DimArray α) (rest out : List (DimArray α))
    (hn : ∀ a ∈ a0 :: rest, a.dims.Nodup) (hne : a0.dims ≠ [])
    (h : reorderLikeFirst (a0 :: rest) = .ok out) : ∀ o ∈ out, o.dims = a0.dims := by
  intro o ho
  rw [reorderLikeFirst_cons] at h
  obtain ⟨a, ha, hfa⟩ := mapM_ok_mem _ _ _ h o ho
  exact reorderOne_dims a0 a o (hn a ha) hne hfa

/-- `reorderLikeFirst` refuses (ValueError) rather than joining positionally: every error is a ValueError -/
theorem _root_.DimModel.reorderLikeFirst_error {α : Type} (a0 : DimArray α) (rest : List (DimArray α)) (e : Err)
    (h : reorderLikeFirst (a0 :: rest) = .error e) : e = .value := by
  rw [reorderLikeFirst_cons] at h
  obtain ⟨a, _, hfa⟩ := mapM_error_mem _ _ _ h
  exact reorderOne_error a0 a e hfa

/-- the first array is returned unchanged in first position -/
theorem reorderLikeFirst_head {α : Type} (a0 : DimArray α) (rest out : List (DimArray α))
    (h : reorderLikeFirst (a0 :: rest) = .ok out) : ∃ t, out = a0 :: t := by
  rw [reorderLikeFirst_cons, List.mapM_cons, reorderOne_same a0 a0 rfl] at h
  simp only [bind, Except.bind, pure, Except.pure] at h
  cases hl : rest.mapM (reorderOne a0) with
  | error e => simp [hl] at h
  | ok t =>
    simp only [hl] at h
    injection h with h
    exact ⟨t, h.symm⟩

/-- inversion of a successful `stack` without alignment -/
theorem stack_inv {α : Type} [Inhabited α] (nan : α) (arrays : List (DimArray α)) (axis : Option String)
    (keys : List Label) (kk : Kind) (r : DimArray α)
    (h : stack nan arrays axis keys kk false false = .ok r) :
    ∃ (name : String) (arrs : List (DimArray α)) (axes : List Axis),
      reorderLikeFirst arrays = .ok arrs ∧
      getAxesAligned (arrs.map (·.axes)) = .ok axes ∧
      (∀ x ∈ arrs, ∀ y ∈ x.axes, ∃ c, axes.find? (·.name == y.name) = some c ∧ c.labels = y.labels) ∧
      keys.length = arrs.length ∧
      r = { axes := { name := name, labels := keys, kind := kk } :: axes.map (fun ax => { ax with }),
            vals := NDArr.stackNew (arrs.map (·.vals)),
            vkind := (arrs.head?.map (·.vkind)).getD .f, attrs := [] } := by
  unfold stack at h
  simp only [bind, Except.bind, pure, Except.pure, Bool.false_eq_true, if_false] at h
  cases hname : checkStackAxis axis (getDims (arrays.map (·.axes))) with
  | error e => simp [hname] at h
  | ok name =>
    simp only [hname] at h
    cases harrs : reorderLikeFirst arrays with
    | error e => simp [harrs] at h
    | ok arrs =>
      simp only [harrs] at h
      split at h
      · simp at h
      · cases haxes : getAxesAligned (arrs.map (·.axes)) with
        | error e => simp [haxes] at h
        | ok axes =>
          simp only [haxes] at h
          split at h
          · simp at h
          · rename_i hchk
            split at h
            · simp at h
            · rename_i hlen
              injection h with h
              subst h
              refine ⟨name, arrs, axes, rfl, haxes, ?_, ?_, rfl⟩
              · intro x hx y hy
                cases hf : axes.find? (·.name == y.name) with
                | none =>
                  exfalso; apply hchk
                  rw [List.any_eq_true]
                  refine ⟨x, hx, ?_⟩
                  rw [List.any_eq_true]
                  exact ⟨y, hy, by simp only [hf]⟩
                | some c =>
                  refine ⟨c, rfl, ?_⟩
                  apply Classical.byContradiction
                  intro hne
                  apply hchk
                  rw [List.any_eq_true]
                  refine ⟨x, hx, ?_⟩
                  rw [List.any_eq_true]
                  exact ⟨y, hy, by simp only [hf]; simpa using hne⟩
              · simpa using hlen

/-- **stack**: when it succeeds the first dimension is the new axis labelled by the keys, the other
axes follow, metadata is dropped, and the slice at position `k` of the new dimension is exactly the
(aligned, name-ordered) array `k` -/
theorem _root_.DimModel.stack_spec {α : Type} [Inhabited α] (nan : α) (arrays : List (DimArray α)) (axis : Option String)
    (keys : List Label) (kk : Kind) (r : DimArray α)
    (h : stack nan arrays axis keys kk false false = .ok r) :
    ∃ (name : String) (arrs : List (DimArray α)),
      reorderLikeFirst arrays = .ok arrs ∧
      r.dims.head? = some name ∧
      (r.axes.head?.map (·.labels)) = some keys ∧
      r.attrs = [] ∧
      ∀ k j, r.vals.get (k :: j) = ((arrs.map DimArray.vals).getD k default).get j := by
  obtain ⟨name, arrs, axes, h1, _, _, _, rfl⟩ := stack_inv nan arrays axis keys kk r h
  exact ⟨name, arrs, h1, rfl, rfl, rfl, fun k j => rfl⟩

theorem reorderLikeFirst_pair_same {α : Type} (a b : DimArray α) (hd : a.dims = b.dims) :
    reorderLikeFirst [a, b] = .ok [a, b] := by
  rw [reorderLikeFirst_cons, List.mapM_cons, List.mapM_cons, List.mapM_nil,
    reorderOne_same a a rfl, reorderOne_same a b hd.symm]
  rfl

/-- **stack refuses misaligned inputs**: without `align`, if some input (listing its dimensions like
the first one) carries on some axis labels that differ from another input's labels on that
dimension, the result is an error - never a positional join.
(`hsz`, `hplain`, `hna` are not needed by the proof: the post-check of `stack` compares the labels of
every input axis with the common axis of the same name, whatever the sizes.) -/
theorem _root_.DimModel.stack_error_is_not_ok_of_label_mismatch {α : Type} [Inhabited α] (nan : α) (a b : DimArray α)
    (axis : Option String) (keys : List Label) (kk : Kind)
    (hd : a.dims = b.dims) (ax : Axis) (bx : Axis) (ha : ax ∈ a.axes) (hb : bx ∈ b.axes)
    (hname : ax.name = bx.name) (hsz : ax.size = bx.size) (hplain : ax.members = [] ∧ bx.members = [])
    (hna : a.dims.Nodup) (hl : ax.labels ≠ bx.labels) :
    ∀ r, stack nan [a, b] axis keys kk false false ≠ .ok r := by
  intro r h
  obtain ⟨name, arrs, axes, h1, _, hchk, _, _⟩ := stack_inv nan [a, b] axis keys kk r h
  rw [reorderLikeFirst_pair_same a b hd] at h1
  injection h1 with h1
  subst h1
  apply hl
  obtain ⟨c1, hc1, hl1⟩ := hchk a (by simp) ax ha
  obtain ⟨c2, hc2, hl2⟩ := hchk b (by simp) bx hb
  rw [hname, hc2] at hc1
  injection hc1 with hc1
  subst hc1
  rw [← hl1, ← hl2]

theorem getD_insert_mid {β : Type} (l : List β) (pos : Nat) (x d : β) (g : β → β) (hpos : pos ≤ l.length) :
    ((l.take pos ++ [x] ++ l.drop pos).map g).getD pos d = g x := by
  have hlen : (l.take pos).length = pos := by simp [List.length_take, Nat.min_eq_left hpos]
  rw [List.getD_eq_getElem?_getD, List.getElem?_map, List.append_assoc,
    List.getElem?_append_right (by omega), hlen]
  simp

theorem ok_of_ite_error {ε β : Type} {c : Prop} [Decidable c] {e : ε} {x : Except ε β} {r : β}
    (h : (if c then Except.error e else x) = .ok r) : x = .ok r := by
  by_cases hc : c
  · rw [if_pos hc] at h; cases h
  · rw [if_neg hc] at h; exact h

set_option hygiene false in
/-- the part of the proof of `concatenate_labels` after the position `pos` of the axis is known:
expects `h : (match reorderLikeFirst (a0 :: rest) with ...) = .ok r` and `hlt : pos < a0.axes.length` -/
local macro "concat_tail" p:term : tactic => `(tactic| (
  cases harrs : reorderLikeFirst (a0 :: rest) with
  | error e => simp [harrs] at h
  | ok arrs =>
    simp only [harrs] at h
    obtain ⟨t, rfl⟩ := reorderLikeFirst_head a0 rest arrs harrs
    simp only [List.headD_cons] at h
    replace h := ok_of_ite_error h
    replace h := ok_of_ite_error h
    generalize concatVals _ _ = cv at h
    cases cv with
    | none => simp at h
    | some v =>
      simp only at h
      injection h with h
      subst h
      refine ⟨$p, a0 :: t, rfl, ?_, rfl⟩
      simp only []
      rw [getD_insert_mid]
      rw [List.length_eraseIdx]
      split <;> omega))

/-- **concatenate**: the labels along the concatenation axis are the inputs' labels concatenated in
input order; metadata is dropped -/
theorem _root_.DimModel.concatenate_labels {α : Type} (nan : α) (arrays : List (DimArray α)) (axis : DimKey) (r : DimArray α)
    (h : concatenate nan arrays axis false false = .ok r) :
    ∃ (pos : Nat) (arrs : List (DimArray α)),
      reorderLikeFirst arrays = .ok arrs ∧
      (r.axes.getD pos default).labels = arrs.flatMap (fun a => (a.axes.getD pos default).labels) ∧
      r.attrs = [] := by
  unfold concatenate at h
  cases arrays with
  | nil => simp [bind, Except.bind] at h
  | cons a0 rest =>
    cases axis with
    | name s =>
      by_cases hp : a0.dims.idxOf s < a0.dims.length
      · have hlt : a0.dims.idxOf s < a0.axes.length := by simpa [DimArray.dims] using hp
        simp only [hp, if_true, bind, Except.bind, pure, Except.pure, Bool.false_eq_true, if_false] at h
        concat_tail (a0.dims.idxOf s)
      · simp [hp, bind, Except.bind, pure, Except.pure] at h
    | pos i0 =>
      -- a negative position counts from the end
      obtain ⟨i, hi⟩ : ∃ i, (if i0 < 0 then i0 + (a0.ndim : Int) else i0) = i := ⟨_, rfl⟩
      simp only [bind, Except.bind, pure, Except.pure] at h
      simp only [hi] at h
      by_cases hp : (i < 0 || i ≥ (a0.ndim : Int)) = true
      · simp [hp, bind, Except.bind, pure, Except.pure] at h
      · have hlt : i.toNat < a0.axes.length := by
          simp [DimArray.ndim] at hp
          omega
        simp only [hp, bind, Except.bind, pure, Except.pure, Bool.false_eq_true, if_false] at h
        concat_tail i.toNat

end C12
end DimModel

/-! ## End-to-end theorems on `Lib.concatenate` / `Lib.stack` (round 4)

Vocabulary (defined in `DimModel/Proofs/C12Join.lean`):
* `a.axisNamed s` - the axis of `a` named `s`;
* `JoinInput a` - `a.WF` and every axis is plain (not grouped);
* `DesignatesAxis a0 axis pos d` - `d` is the name of dimension `pos` of the first input and the `axis` argument is
  that name or that position;
* `joinOffset arrays d k` - number of labels the inputs before input `k` carry on `d`;
* `a.at c` (C10) - name-addressed access: the element at position `c s` along every dimension `s`, whatever the
  order in which `a` lists its dimensions;
* `AlignInput a`, `alignVals a newLabels nan` (C06) - the inputs of the `align` theorems, and the values of `a`
  re-indexed onto `newLabels` (original value at the position of the same labels, `nan` where a label is missing);
* `labelAt U c s` - the label found at coordinate `c s` of the label list `U s`.

Theorems: `concatenate_spec`, `joinOffset_cover`, `concatenate_refuses_mismatch`, `concatenate_ok_secondary`,
`stack_noalign_spec`, `stack_refuses_mismatch`, `stack_align_spec`, `stack_align_value`, `concatenate_align_spec`. -/

namespace DimModel
open Lib C12J

/-- **concatenate (align=False), any number of inputs**: for `n ≥ 1` well-formed inputs over the same set of
dimension names (listed in any order) whose secondary axes carry, name by name, the labels of the first input,
concatenation along `d` SUCCEEDS and
* the result lists the dimensions of the first input;
* its labels on `d` are the inputs' labels on `d`, concatenated in input order;
* every other axis is the first input's axis; metadata is dropped, the value kind is the first input's;
* the result is again a well-formed array with plain axes (so its in-range indices are those its labels announce);
* VALUES: for every input `k` and every coordinate assignment `c` whose coordinate on `d` is inside input `k`,
  the result at `c` shifted along `d` by the offset of input `k` (the total extent of inputs `0..k-1`) is input
  `k`'s element at `c` - both addressed BY DIMENSION NAME, so an input listing its dimensions in another order is
  read through its own names, never positionally.  (The equation does not need `c` to be in range on the other
  dimensions; `joinOffset_cover` shows that the blocks cover every position along `d`.) -/
theorem concatenate_spec {α : Type} (nan : α) (a0 : DimArray α) (rest : List (DimArray α)) (axis : DimKey)
    (pos : Nat) (d : String) (sort : Bool)
    (hin : ∀ a ∈ a0 :: rest, JoinInput a)
    (hperm : ∀ a ∈ rest, a.dims.Perm a0.dims)
    (hax : DesignatesAxis a0 axis pos d)
    (hsec : ∀ a ∈ rest, ∀ s ∈ a0.dims, s ≠ d → (a.axisNamed s).labels = (a0.axisNamed s).labels) :
    ∃ r, concatenate nan (a0 :: rest) axis false sort = .ok r ∧
      r.dims = a0.dims ∧
      (r.axisNamed d).labels = (a0 :: rest).flatMap (fun a => (a.axisNamed d).labels) ∧
      (∀ s ∈ a0.dims, s ≠ d → r.axisNamed s = a0.axisNamed s) ∧
      r.attrs = [] ∧ r.vkind = a0.vkind ∧
      JoinInput r ∧
      ∀ (k : Nat) (hk : k < (a0 :: rest).length) (c : String → Nat),
        c d < (((a0 :: rest)[k]).axisNamed d).labels.length →
        r.at (fun s => if s = d then joinOffset (a0 :: rest) d k + c d else c s) = ((a0 :: rest)[k]).at c := by
  have h0 := hin a0 List.mem_cons_self
  have hn0 : a0.dims.Nodup := h0.1.2.1
  obtain ⟨hposd, hd'⟩ := List.getElem?_eq_some_iff.mp hax.1
  have hpos : pos < a0.axes.length := by simpa [DimArray.dims] using hposd
  have hidx : a0.dims.idxOf d = pos := by rw [← hd']; exact idxOf_name_eq a0.dims hn0 pos hposd
  have hre := reorderLikeFirst_ok a0 rest hperm hn0
  have hj := joinable_all a0 rest pos d hin hperm hax.1 hsec
  have hnr : ∀ a ∈ rest, a.dims.Nodup := fun a ha => (hin a (List.mem_cons_of_mem _ ha)).1.2.1
  -- the labels on `d` of the reordered inputs are the labels on `d` of the inputs
  have hlab : ∀ l : List (DimArray α), (∀ a ∈ l, a.dims.Nodup) →
      (l.map (reorderTo a0)).map (fun a => (a.axes.getD pos default).labels) =
        l.map (fun a => (a.axisNamed d).labels) := by
    intro l hl
    rw [List.map_map]
    apply List.map_congr_left
    intro a ha
    simp only [Function.comp_apply, reorderTo_axisNamed_pos a0 a pos d (hl a ha) hax.1]
  have hlab0 : (a0.axes.getD pos default) = a0.axisNamed d := by
    rw [← hd', axisNamed_getElem a0 hn0 pos hposd]
  refine ⟨_, concatenate_ok_of_joinable nan a0 rest _ axis pos sort
    (joinAxis_of_designates a0 axis pos d hn0 hax) hre hn0 hj, ?_, ?_, ?_, rfl, rfl, ?_, ?_⟩
  · exact concatResult_dims _ _ _ _ hpos
  · have : ∀ r : DimArray α, r.dims = a0.dims → r.axisNamed d = r.axes.getD pos default := by
      intro r hr; simp only [DimArray.axisNamed, hr, hidx]
    rw [this _ (concatResult_dims _ _ _ _ hpos), concatResult_axis_pos _ _ _ _ hpos]
    simp only [List.flatMap_cons, hlab0]
    congr 1
    rw [List.flatMap_def, List.flatMap_def, hlab rest hnr]
  · intro s hs hsd
    simp only [DimArray.axisNamed, concatResult_dims _ _ _ _ hpos]
    apply concatResult_axis_other
    intro he
    apply hsd
    rw [← hd', ← List.getElem_idxOf (List.idxOf_lt_length_of_mem hs)]
    simp only [he]
  · exact concatResult_joinInput a0 _ pos hpos h0 hj
  · intro k hk c hq
    have hall : ∀ a ∈ a0 :: rest, a.dims.Nodup := fun a ha => (hin a ha).1.2.1
    have harrs : a0 :: rest.map (reorderTo a0) = (a0 :: rest).map (reorderTo a0) := by
      rw [List.map_cons, reorderTo_self]
    have hx : (a0 :: rest.map (reorderTo a0))[k]? = some (reorderTo a0 (a0 :: rest)[k]) := by
      rw [harrs, List.getElem?_map, List.getElem?_eq_getElem hk]; rfl
    have hmem : (a0 :: rest)[k] ∈ a0 :: rest := List.getElem_mem hk
    have hpk : ((a0 :: rest)[k]).dims.Perm a0.dims := by
      rcases List.mem_cons.mp hmem with h | h
      · rw [h]
      · exact hperm _ h
    have hxa := reorderTo_axisNamed_pos a0 (a0 :: rest)[k] pos d (hall _ hmem) hax.1
    have := concatResult_at a0 (rest.map (reorderTo a0)) pos d hn0 hax.1 hj k _ hx c (by rw [hxa]; exact hq)
    rw [reorderTo_at a0 _ hpk (hall _ hmem)
      (by rw [(hin _ hmem).1.1]; simp)] at this
    rw [← this]
    congr 2
    funext s
    congr 2
    unfold joinOffset
    rw [harrs, ← List.map_take, List.map_map]
    congr 1
    apply List.map_congr_left
    intro a ha
    simp only [Function.comp_apply, reorderTo_axisNamed_pos a0 a pos d (hall a (List.mem_of_mem_take ha)) hax.1]

/-- the blocks of `concatenate_spec` cover the joined axis: every position below the total extent is the offset of
some input plus a position inside that input -/
theorem joinOffset_cover : ∀ (lens : List Nat) (p : Nat), p < lens.sum →
    ∃ k q, ∃ hk : k < lens.length, q < lens[k] ∧ p = (lens.take k).sum + q
  | [], p, h => by simp at h
  | n :: lens, p, h => by
    by_cases hp : p < n
    · exact ⟨0, p, by simp, by simpa using hp, by simp⟩
    · have h' : p - n < lens.sum := by simp only [List.sum_cons] at h; omega
      obtain ⟨k, q, hk, hq, he⟩ := joinOffset_cover lens (p - n) h'
      refine ⟨k + 1, q, by simpa using hk, by simpa using hq, ?_⟩
      simp only [List.take_succ_cons, List.sum_cons]
      omega

/-- **concatenate (align=False) REFUSES inputs whose secondary axes differ**: if some input carries, on a dimension
`s` other than the concatenation dimension, labels that are not the first input's labels on `s` (other labels, or the
same labels in another order), the call raises ValueError - the values are never joined positionally -/
theorem concatenate_refuses_mismatch {α : Type} (nan : α) (a0 : DimArray α) (rest : List (DimArray α)) (axis : DimKey)
    (pos : Nat) (d : String) (sort : Bool)
    (hin : ∀ a ∈ a0 :: rest, JoinInput a)
    (hperm : ∀ a ∈ rest, a.dims.Perm a0.dims)
    (hax : DesignatesAxis a0 axis pos d)
    (b : DimArray α) (hb : b ∈ rest) (s : String) (hs : s ∈ a0.dims) (hsd : s ≠ d)
    (hne : (b.axisNamed s).labels ≠ (a0.axisNamed s).labels) :
    concatenate nan (a0 :: rest) axis false sort = .error .value := by
  have h0 := hin a0 List.mem_cons_self
  have hn0 : a0.dims.Nodup := h0.1.2.1
  have hnb : b.dims.Nodup := (hin b (List.mem_cons_of_mem _ hb)).1.2.1
  obtain ⟨hposd, hd'⟩ := List.getElem?_eq_some_iff.mp hax.1
  have hre := reorderLikeFirst_ok a0 rest hperm hn0
  rw [concatenate_noalign_eq nan a0 rest _ axis pos sort (joinAxis_of_designates a0 axis pos d hn0 hax) hre]
  split
  · rfl
  · have hk : a0.dims.idxOf s < a0.dims.length := List.idxOf_lt_length_of_mem hs
    have hks : a0.dims[a0.dims.idxOf s] = s := List.getElem_idxOf hk
    rw [labelCheck_true a0 pos _ hn0 (reorderTo a0 b)
      (List.mem_cons_of_mem _ (List.mem_map.mpr ⟨b, hb, rfl⟩)) (reorderTo_dims a0 b (hperm b hb) hnb)
      (a0.dims.idxOf s) (by simpa [DimArray.dims] using hk)
      (fun he => hsd (by rw [← hks, ← hd']; simp only [he]))]
    · rfl
    · rw [reorderTo_getD a0 b hnb _ hk, hks, ← axisNamed_getElem a0 hn0 _ hk, hks]
      exact hne

/-- ... and for ARBITRARY inputs (no well-formedness assumed): whenever `concatenate(..., align=False)` returns a
result, every (name-reordered) input carries, under the name of each secondary axis of the first input, exactly the
labels of that axis.  `C12J.JoinAxis a0 axis pos` says that `axis` is a name of `a0` found at `pos`, or the
non-negative in-range position `pos`. -/
theorem concatenate_ok_secondary {α : Type} (nan : α) (a0 : DimArray α) (rest : List (DimArray α)) (axis : DimKey)
    (pos : Nat) (sort : Bool) (r : DimArray α) (hpos : C12J.JoinAxis a0 axis pos)
    (h : concatenate nan (a0 :: rest) axis false sort = .ok r) :
    ∃ t, reorderLikeFirst (a0 :: rest) = .ok (a0 :: t) ∧
      ∀ a ∈ a0 :: t, ∀ ax ∈ a0.axes.eraseIdx pos,
        ∃ x, a.axes.find? (·.name == ax.name) = some x ∧ x.labels = ax.labels := by
  have hs : concatenate nan (a0 :: rest) axis false false = .ok r := by
    cases sort with
    | false => exact h
    | true => exact h
  obtain ⟨_, arrs, hre, _, _⟩ := concatenate_labels nan (a0 :: rest) axis r hs
  obtain ⟨t, rfl⟩ := C12.reorderLikeFirst_head a0 rest arrs hre
  refine ⟨t, hre, ?_⟩
  rw [concatenate_noalign_eq nan a0 rest t axis pos sort hpos hre] at h
  replace h := C12.ok_of_ite_error h
  split at h
  · cases h
  · rename_i hchk
    intro a ha ax hax
    cases hf : a.axes.find? (·.name == ax.name) with
    | none =>
      exfalso; apply hchk
      rw [List.any_eq_true]
      refine ⟨a, ha, ?_⟩
      rw [List.any_eq_true]
      exact ⟨ax, hax, by simp only [hf]⟩
    | some x =>
      refine ⟨x, rfl, ?_⟩
      apply Classical.byContradiction
      intro hne
      apply hchk
      rw [List.any_eq_true]
      refine ⟨a, ha, ?_⟩
      rw [List.any_eq_true]
      exact ⟨ax, hax, by simp only [hf]; simpa using hne⟩

/-! non-vacuity of `concatenate_spec` / `concatenate_refuses_mismatch`: two square arrays over `x`, `y` listing
their dimensions in opposite orders (a positional join would be shape-compatible), joined along `x` -/
def exCatA : DimArray Int :=
  { axes := [{ name := "x", labels := [.num 1, .num 2], kind := .i }, { name := "y", labels := [.num 10, .num 20], kind := .i }]
    vals := ⟨[2, 2], fun j => 2 * j.getD 0 0 + j.getD 1 0⟩ }
/-- dims `y, x`; same `y` labels as `exCatA` -/
def exCatB : DimArray Int :=
  { axes := [{ name := "y", labels := [.num 10, .num 20], kind := .i }, { name := "x", labels := [.num 3, .num 4], kind := .i }]
    vals := ⟨[2, 2], fun j => 100 + 2 * j.getD 0 0 + j.getD 1 0⟩ }
/-- dims `y, x`; the `y` labels of `exCatA` in the other order -/
def exCatC : DimArray Int :=
  { axes := [{ name := "y", labels := [.num 20, .num 10], kind := .i }, { name := "x", labels := [.num 3, .num 4], kind := .i }]
    vals := ⟨[2, 2], fun j => 100 + 2 * j.getD 0 0 + j.getD 1 0⟩ }

theorem exCat_input : ∀ a ∈ [exCatA, exCatB, exCatC], JoinInput a := by
  intro a ha
  simp only [List.mem_cons, List.not_mem_nil, or_false] at ha
  rcases ha with rfl | rfl | rfl
  · unfold JoinInput exCatA; decide
  · unfold JoinInput exCatB; decide
  · unfold JoinInput exCatC; decide

/-- `concatenate([A, B], axis='x')` succeeds, lists `x, y`, carries `1, 2, 3, 4` on `x`, and the element at
`x = 3rd position, y = 2nd position` is `B`'s element at `x = 1st, y = 2nd` (read through `B`'s own dimension order) -/
example : ∃ r, concatenate (0 : Int) [exCatA, exCatB] (.name "x") false false = .ok r ∧
    r.dims = ["x", "y"] ∧ (r.axisNamed "x").labels = [.num 1, .num 2, .num 3, .num 4] ∧
    r.at (fun s => if s = "x" then 2 + 0 else 1) = 102 := by
  obtain ⟨r, h, hd, hl, _, _, _, _, hv⟩ := concatenate_spec (0 : Int) exCatA [exCatB] (.name "x") 0 "x" false
    (fun a ha => exCat_input a (by simp only [List.mem_cons, List.not_mem_nil, or_false] at ha; rcases ha with rfl | rfl <;> simp))
    (by intro a ha; simp only [List.mem_cons, List.not_mem_nil, or_false] at ha; subst ha; decide)
    ⟨by decide, Or.inl rfl⟩
    (by intro a ha; simp only [List.mem_cons, List.not_mem_nil, or_false] at ha; subst ha; decide)
  refine ⟨r, h, hd, hl, ?_⟩
  have := hv 1 (by decide) (fun s => if s = "x" then 0 else 1) (by decide)
  have hf : (fun s : String => if s = "x" then joinOffset [exCatA, exCatB] "x" 1 + (if "x" = "x" then 0 else 1)
      else if s = "x" then 0 else 1) = (fun s => if s = "x" then 2 + 0 else 1) := by
    funext s
    by_cases hs : s = "x"
    · simp only [hs, if_true]; decide
    · simp only [hs, if_false]
  rw [hf] at this
  rw [this]
  decide

/-- `concatenate([A, C], axis='x')`: `C` carries the `y` labels in another order, the join is refused -/
example : concatenate (0 : Int) [exCatA, exCatC] (.name "x") false false = .error .value :=
  concatenate_refuses_mismatch (0 : Int) exCatA [exCatC] (.name "x") 0 "x" false
    (fun a ha => exCat_input a (by simp only [List.mem_cons, List.not_mem_nil, or_false] at ha; rcases ha with rfl | rfl <;> simp))
    (by intro a ha; simp only [List.mem_cons, List.not_mem_nil, or_false] at ha; subst ha; decide)
    ⟨by decide, Or.inl rfl⟩ exCatC (by simp) "y" (by decide) (by decide) (by decide)

/-- **stack (align=False), any number of inputs**: for `n ≥ 1` well-formed inputs over the same set of dimension
names (listed in any order) that carry, name by name, the labels of the first input, with a new axis name accepted by
`_check_stack_axis` and one key per input, `stack` SUCCEEDS; the result lists the new dimension first (labelled by the
keys), then the first input's axes unchanged; metadata is dropped; and slice `k` of the new dimension holds exactly
input `k`: `r[k, c] = arrays[k][c]` for every coordinate assignment `c`, the input being addressed BY DIMENSION NAME
(an input listing its dimensions in another order is read through its own names, never positionally) -/
theorem stack_noalign_spec {α : Type} [Inhabited α] (nan : α) (a0 : DimArray α) (rest : List (DimArray α))
    (axis : Option String) (keys : List Label) (kk : Kind) (sort : Bool) (name : String)
    (hin : ∀ a ∈ a0 :: rest, JoinInput a)
    (hperm : ∀ a ∈ rest, a.dims.Perm a0.dims)
    (hname : checkStackAxis axis a0.dims = .ok name)
    (hkeys : keys.length = (a0 :: rest).length)
    (hlab : ∀ a ∈ rest, ∀ s ∈ a0.dims, (a.axisNamed s).labels = (a0.axisNamed s).labels) :
    ∃ r, stack nan (a0 :: rest) axis keys kk false sort = .ok r ∧
      r.axes = { name := name, labels := keys, kind := kk } :: a0.axes ∧
      r.attrs = [] ∧ r.vkind = a0.vkind ∧
      r.vals.shape = r.axes.map (·.labels.length) ∧
      ∀ (k : Nat) (hk : k < (a0 :: rest).length) (c : String → Nat),
        r.vals.get (k :: a0.dims.map c) = ((a0 :: rest)[k]).at c := by
  have h0 := hin a0 List.mem_cons_self
  have hn0 : a0.dims.Nodup := h0.1.2.1
  have hpl : ∀ a ∈ a0 :: rest, Plain a := fun a ha => plain_of_joinInput a (hin a ha)
  have hst := stackable_all a0 rest hpl hperm hlab
  have hre := reorderLikeFirst_ok a0 rest hperm hn0
  refine ⟨_, stack_eq_of_stackable nan (a0 :: rest) (a0 :: rest) axis keys kk false sort name a0 _
    (by rw [getDims_of_perm a0 rest hn0 hperm]; exact hname) rfl hre hn0 hst (by simpa using hkeys),
    rfl, rfl, rfl, ?_, ?_⟩
  · simp only [stackResult, NDArr.stackNew, List.map_cons, List.head?_cons, Option.map_some, Option.getD_some,
      List.length_cons, List.length_map, plain_shape a0 (hpl a0 List.mem_cons_self)]
    simpa using hkeys.symm
  · intro k hk c
    apply stackResult_get name keys kk a0 rest _ k hk c
    intro o ho
    refine ⟨hpl o ho, ?_⟩
    rcases List.mem_cons.mp ho with rfl | ho
    · exact List.Perm.refl _
    · exact hperm o ho

/-- **stack (align=True), any number of inputs**: for `n ≥ 1` inputs (`AlignInput`, C06: distinct dimension names,
unique labels, no `None` label, plain non-empty axes, values of the announced shape) over the same set of dimension
names (listed in any order) whose same-named axes may carry DIFFERENT label sets, `stack(..., align=True)` SUCCEEDS:
* the result lists the new dimension first, labelled by the keys, then the dimensions of the first input;
* on each dimension `s` its labels are `U s`: every label once, exactly the UNION of the inputs' labels on `s` (outer
  join), ascending when `sort=True`;
* metadata is dropped; the values have the shape the labels announce;
* VALUES: slice `i` of the new dimension is input `i` re-indexed onto the union labels - for coordinates `c` inside
  `U`, `r[i, c]` is the aligned value of input `i` (`alignVals`, C06), read BY DIMENSION NAME: by `alignVals_by_name`
  it is input `i`'s element at the positions of the labels `U s [c s]` when input `i` carries all of them, and `nan`
  when it lacks one (`stack_align_value`). -/
theorem stack_align_spec {α : Type} [Inhabited α] (nan : α) (a0 : DimArray α) (rest : List (DimArray α))
    (axis : Option String) (keys : List Label) (kk : Kind) (sort : Bool) (name : String)
    (hin : ∀ a ∈ a0 :: rest, AlignInput a)
    (hperm : ∀ a ∈ rest, a.dims.Perm a0.dims)
    (hname : checkStackAxis axis a0.dims = .ok name)
    (hkeys : keys.length = (a0 :: rest).length) :
    ∃ (r : DimArray α) (U : String → List Label),
      stack nan (a0 :: rest) axis keys kk true sort = .ok r ∧
      r.dims = name :: a0.dims ∧
      r.axes.map (·.labels) = keys :: a0.dims.map U ∧
      (∀ s ∈ a0.dims, (U s).Nodup ∧ (∀ v, v ∈ U s ↔ ∃ a ∈ a0 :: rest, v ∈ (a.axisNamed s).labels) ∧
        (sort = true → (U s).Pairwise (fun x y => Label.le x y = true))) ∧
      r.attrs = [] ∧
      r.vals.shape = r.axes.map (·.labels.length) ∧
      ∀ (i : Nat) (hi : i < (a0 :: rest).length) (c : String → Nat), (∀ s ∈ a0.dims, c s < (U s).length) →
        r.vals.get (i :: a0.dims.map c) =
          (alignVals (a0 :: rest)[i] ((a0 :: rest)[i].dims.map U) nan).get ((a0 :: rest)[i].dims.map c) := by
  have hn0 : a0.dims.Nodup := (hin a0 List.mem_cons_self).1
  obtain ⟨o0, t, U, hal, htl, hout, hU⟩ := align_outer_same_dims nan a0 rest sort hin hperm
  have hlen : (o0 :: t).length = (a0 :: rest).length := by simp [htl]
  have hpall : ∀ a ∈ a0 :: rest, a.dims.Perm a0.dims := by
    intro a ha
    rcases List.mem_cons.mp ha with rfl | ha
    · exact List.Perm.refl _
    · exact hperm a ha
  -- facts on every aligned output
  have hoall : ∀ o ∈ o0 :: t, Plain o ∧ o.dims.Perm a0.dims ∧ ∀ s ∈ a0.dims, (o.axisNamed s).labels = U s := by
    intro o ho
    obtain ⟨i, hi, rfl⟩ := List.getElem_of_mem ho
    obtain ⟨hd, hpl, hl, _⟩ := hout i (hlen ▸ hi) hi
    exact ⟨hpl, hd ▸ hpall _ (List.getElem_mem _), hl⟩
  obtain ⟨hd0, hpl0, hl0, _⟩ := hout 0 (by simp) (by simp)
  simp only [List.getElem_cons_zero] at hd0 hpl0 hl0
  have hno0 : o0.dims.Nodup := hd0 ▸ hn0
  have hperm' : ∀ o ∈ t, o.dims.Perm o0.dims := fun o ho => hd0 ▸ (hoall o (List.mem_cons_of_mem _ ho)).2.1
  have hst := stackable_all o0 t (fun o ho => (hoall o ho).1) hperm'
    (fun o ho s hs => by
      rw [hd0] at hs
      rw [(hoall o (List.mem_cons_of_mem _ ho)).2.2 s hs, hl0 s hs])
  have hre := reorderLikeFirst_ok o0 t hperm' hno0
  have hlab0 : o0.axes.map (·.labels) = a0.dims.map U := by
    rw [axes_labels_by_name o0 hno0 U (fun s hs => hl0 s (hd0 ▸ hs)), hd0]
  refine ⟨_, U, stack_eq_of_stackable nan (a0 :: rest) (o0 :: t) axis keys kk true sort name o0 _
    (by rw [getDims_of_perm a0 rest hn0 hperm]; exact hname) hal hre hno0 hst (by simp [hkeys, htl]),
    ?_, ?_, hU, rfl, ?_, ?_⟩
  · simp only [stackResult, DimArray.dims, List.map_cons]
    exact congrArg _ hd0
  · simp only [stackResult, List.map_cons, hlab0]
  · simp only [stackResult, NDArr.stackNew, List.map_cons, List.head?_cons, Option.map_some, Option.getD_some,
      List.length_cons, List.length_map, plain_shape o0 hpl0]
    congr 1
    simp [hkeys, htl]
  · intro i hi c hc
    have hi' : i < (o0 :: t).length := hlen ▸ hi
    obtain ⟨hd, hpl, hl, hv⟩ := hout i hi hi'
    have hpi := hpall _ (List.getElem_mem hi)
    have hlabi : (o0 :: t)[i].axes.map (·.labels) = (a0 :: rest)[i].dims.map U := by
      rw [axes_labels_by_name _ hpl.nodup U (fun s hs => hl s (hpi.mem_iff.mp (hd ▸ hs))), hd]
    rw [← hd0, stackResult_get name keys kk o0 t
      (fun o ho => ⟨(hoall o ho).1, hd0 ▸ (hoall o ho).2.1⟩) i hi' c]
    unfold DimArray.at
    rw [hv, hlabi, hd]
    rw [show (o0 :: t)[i].axes.map (·.labels.length) = ((o0 :: t)[i].axes.map (·.labels)).map (·.length) by
      rw [List.map_map]; rfl, hlabi, hd, List.map_map]
    exact inRange_map _ _ _ (fun s hs => hc s (hpi.mem_iff.mp hs))

/-- the value clause of `stack_align_spec` in words of labels: with `v s` the label found at coordinate `c s` of the
union labels `U s`, slice `i` holds input `i`'s element at the positions of the labels `v s` when input `i` carries
all of them, and `nan` as soon as it lacks one -/
theorem stack_align_value {α : Type} (a : DimArray α) (hn : a.dims.Nodup) (U : String → List Label) (nan : α)
    (c : String → Nat) :
    (alignVals a (a.dims.map U) nan).get (a.dims.map c) =
      if ∀ s ∈ a.dims, labelAt U c s ∈ (a.axisNamed s).labels then
        a.at (fun s => firstIdx (a.axisNamed s).labels (labelAt U c s))
      else nan := alignVals_by_name a hn U nan c

/-- **concatenate (align=True), any number of inputs**: for `n ≥ 1` inputs (`AlignInput`, C06) over the same set of
dimension names (listed in any order) whose SECONDARY axes may carry different label sets,
`concatenate(..., axis=d, align=True)` SUCCEEDS:
* the result lists the dimensions of the first input;
* its labels on `d` are the inputs' labels on `d` concatenated in input order (the joined axis is NOT aligned);
* on every other dimension `s` its labels are `U s`: every label once, exactly the UNION of the inputs' labels on `s`
  (outer join), ascending when `sort=True`;
* metadata is dropped; the values have the shape the labels announce;
* VALUES: the block of input `k` along `d` (offset: the total extent of inputs `0..k-1`) is input `k` re-indexed onto
  the union labels of the secondary dimensions - for coordinates `c` inside input `k` on `d` and inside `U` elsewhere,
  the result at `c` shifted by the offset is the aligned value of input `k` (`alignVals`, C06, read BY DIMENSION NAME
  through `stack_align_value`: input `k`'s element at the positions of the labels when it carries all of them, `nan`
  otherwise; on `d` the label looked up is input `k`'s own label at `c d`). -/
theorem concatenate_align_spec {α : Type} (nan : α) (a0 : DimArray α) (rest : List (DimArray α)) (axis : DimKey)
    (pos : Nat) (d : String) (sort : Bool)
    (hin : ∀ a ∈ a0 :: rest, AlignInput a)
    (hperm : ∀ a ∈ rest, a.dims.Perm a0.dims)
    (hax : DesignatesAxis a0 axis pos d) :
    ∃ (r : DimArray α) (U : String → List Label),
      concatenate nan (a0 :: rest) axis true sort = .ok r ∧
      r.dims = a0.dims ∧
      (r.axisNamed d).labels = (a0 :: rest).flatMap (fun a => (a.axisNamed d).labels) ∧
      (∀ s ∈ a0.dims, s ≠ d → (r.axisNamed s).labels = U s ∧ (U s).Nodup ∧
        (∀ v, v ∈ U s ↔ ∃ a ∈ a0 :: rest, v ∈ (a.axisNamed s).labels) ∧
        (sort = true → (U s).Pairwise (fun x y => Label.le x y = true))) ∧
      r.attrs = [] ∧
      r.vals.shape = r.axes.map (·.labels.length) ∧
      ∀ (k : Nat) (hk : k < (a0 :: rest).length) (c : String → Nat),
        c d < (((a0 :: rest)[k]).axisNamed d).labels.length →
        (∀ s ∈ a0.dims, s ≠ d → c s < (U s).length) →
        r.at (fun s => if s = d then joinOffset (a0 :: rest) d k + c d else c s) =
          (alignVals (a0 :: rest)[k]
            ((a0 :: rest)[k].dims.map (fun s => if s = d then ((a0 :: rest)[k].axisNamed d).labels else U s))
            nan).get ((a0 :: rest)[k].dims.map c) := by
  have hn0 : a0.dims.Nodup := (hin a0 List.mem_cons_self).1
  obtain ⟨hposd, hd'⟩ := List.getElem?_eq_some_iff.mp hax.1
  have hpos : pos < a0.axes.length := by simpa [DimArray.dims] using hposd
  have hidx : a0.dims.idxOf d = pos := by rw [← hd']; exact idxOf_name_eq a0.dims hn0 pos hposd
  have hdim : a0.dims.getD pos "" = d := by simp [List.getD_eq_getElem?_getD, hax.1]
  obtain ⟨o0, t, U, hloop, htl, hout, hU⟩ := catAlign_outputs nan a0 rest d sort hin hperm
  have hlen : (o0 :: t).length = (a0 :: rest).length := by simp [htl]
  have hpall : ∀ a ∈ a0 :: rest, a.dims.Perm a0.dims := by
    intro a ha
    rcases List.mem_cons.mp ha with rfl | ha
    · exact List.Perm.refl _
    · exact hperm a ha
  have hoall : ∀ o ∈ o0 :: t, Plain o ∧ o.dims.Perm a0.dims ∧
      ∀ s ∈ a0.dims, s ≠ d → (o.axisNamed s).labels = U s := by
    intro o ho
    obtain ⟨i, hi, rfl⟩ := List.getElem_of_mem ho
    obtain ⟨hd, hpl, _, hl, _⟩ := hout i (hlen ▸ hi) hi
    exact ⟨hpl, hd ▸ hpall _ (List.getElem_mem _), hl⟩
  obtain ⟨hd0, hpl0, _, hl0, _⟩ := hout 0 (by simp) (by simp)
  simp only [List.getElem_cons_zero] at hd0 hpl0 hl0
  have hno0 : o0.dims.Nodup := hd0 ▸ hn0
  have hpos0 : pos < o0.axes.length := by
    have := congrArg List.length hd0
    simp only [DimArray.dims, List.length_map] at this
    omega
  have hd0' : o0.dims[pos]? = some d := hd0 ▸ hax.1
  have hperm' : ∀ o ∈ t, o.dims.Perm o0.dims := fun o ho => hd0 ▸ (hoall o (List.mem_cons_of_mem _ ho)).2.1
  have hre := reorderLikeFirst_ok o0 t hperm' hno0
  -- the reordered outputs agree with the first one on every secondary dimension
  have hj : ∀ x ∈ o0 :: t.map (reorderTo o0), Joinable o0 pos x := by
    intro x hx
    rcases List.mem_cons.mp hx with rfl | hx
    · exact ⟨rfl, plain_shape _ hpl0, fun _ _ _ => rfl⟩
    · obtain ⟨o, ho, rfl⟩ := List.mem_map.mp hx
      have hfo := hoall o (List.mem_cons_of_mem _ ho)
      apply joinable_reorderTo' o0 o pos hpl0 hfo.1 (hperm' o ho)
      intro k hk hkp
      have hk' : k < a0.dims.length := by rw [← hd0]; exact hk
      have hks : o0.dims[k] = a0.dims[k] := by simp only [hd0]
      have hne : a0.dims[k] ≠ d := fun he => hkp ((List.getElem_inj hn0).mp (he.trans hd'.symm))
      rw [hks, hfo.2.2 _ (List.getElem_mem _) hne, hl0 _ (List.getElem_mem _) hne]
  have hharr : o0 :: t.map (reorderTo o0) = (o0 :: t).map (reorderTo o0) := by
    rw [List.map_cons, reorderTo_self]
  -- the axis on `d` of reordered output `i` is input `i`'s axis on `d`
  have hdaxis : ∀ i (h1 : i < (o0 :: t).length) (h2 : i < (a0 :: rest).length),
      (reorderTo o0 (o0 :: t)[i]).axes.getD pos default = (a0 :: rest)[i].axisNamed d := by
    intro i h1 h2
    obtain ⟨_, hpl, hda, _, _⟩ := hout i h2 h1
    rw [reorderTo_axisNamed_pos o0 _ pos d hpl.nodup hd0', hda]
  have hlabs : (o0 :: t.map (reorderTo o0)).map (fun a => (a.axes.getD pos default).labels) =
      (a0 :: rest).map (fun a => (a.axisNamed d).labels) := by
    rw [hharr, List.map_map]
    apply map_eq_of_getElem _ _ _ _ hlen
    intro i h1 h2
    simp only [Function.comp_apply, hdaxis i h1 h2]
  have heq := concatenate_align_eq nan a0 rest _ o0 _ axis pos sort (joinAxis_of_designates a0 axis pos d hn0 hax)
    (hdim ▸ hloop) hre hd0
  rw [shapeCheck_false o0 pos _ (hj o0 List.mem_cons_self) hj] at heq
  have hrd := concatResult_dims o0 (o0 :: t.map (reorderTo o0)) pos
    ((((t.map (reorderTo o0)).map (·.vals))).foldl (fun acc x => acc.concat2 x pos) o0.vals) hpos0
  refine ⟨_, U, heq, hrd.trans hd0, ?_, ?_, rfl, concatResult_shape o0 _ pos hpos0 hj, ?_⟩
  · have e : ∀ r : DimArray α, r.dims = a0.dims → r.axisNamed d = r.axes.getD pos default := by
      intro r hr; simp only [DimArray.axisNamed, hr, hidx]
    rw [e _ (hrd.trans hd0), concatResult_axis_pos _ _ _ _ hpos0, List.flatMap_def, List.flatMap_def, hlabs]
  · intro s hs hsd
    refine ⟨?_, hU s hs hsd⟩
    rw [← hl0 s hs hsd]
    simp only [DimArray.axisNamed, hrd]
    rw [concatResult_axis_other]
    intro he
    apply hsd
    rw [← hd', ← List.getElem_idxOf (List.idxOf_lt_length_of_mem hs)]
    simp only [← he, hd0]
  · intro k hk c hq hc
    have hk' : k < (o0 :: t).length := hlen ▸ hk
    obtain ⟨hd, hpl, hda, hl, hv⟩ := hout k hk hk'
    have hpk := hpall _ (List.getElem_mem hk)
    have hx : (o0 :: t.map (reorderTo o0))[k]? = some (reorderTo o0 (o0 :: t)[k]) := by
      rw [hharr, List.getElem?_map, List.getElem?_eq_getElem hk']; rfl
    have hxa := hdaxis k hk' hk
    have := concatResult_at o0 (t.map (reorderTo o0)) pos d hno0 hd0' hj k _ hx c (by rw [hxa]; exact hq)
    rw [reorderTo_at o0 _ (hd0 ▸ hd ▸ hpk) hpl.nodup (by rw [hpl.shape]; simp)] at this
    have hoff : (((o0 :: t.map (reorderTo o0)).take k).map (fun a => (a.axes.getD pos default).labels.length)).sum =
        joinOffset (a0 :: rest) d k := by
      unfold joinOffset
      have h2 := congrArg (List.map List.length) hlabs
      simp only [List.map_map, Function.comp_def] at h2
      rw [List.map_take, List.map_take, h2]
    rw [hoff] at this
    rw [this]
    -- the aligned output, addressed by name
    let U' : String → List Label := fun s => if s = d then ((a0 :: rest)[k].axisNamed d).labels else U s
    have hlabk : (o0 :: t)[k].axes.map (·.labels) = (a0 :: rest)[k].dims.map U' := by
      rw [axes_labels_by_name _ hpl.nodup U' (fun s hs => by
        by_cases hsd : s = d
        · subst hsd; simp only [U', if_true, hda]
        · simp only [U', hsd, if_false]
          exact hl s (hpk.mem_iff.mp (hd ▸ hs)) hsd), hd]
    unfold DimArray.at
    rw [hv, hlabk, hd]
    rw [show (o0 :: t)[k].axes.map (·.labels.length) = ((o0 :: t)[k].axes.map (·.labels)).map (·.length) by
      rw [List.map_map]; rfl, hlabk, hd, List.map_map]
    apply inRange_map
    intro s hs
    by_cases hsd : s = d
    · subst hsd; simp only [Function.comp_apply, U', if_true]; exact hq
    · simp only [Function.comp_apply, U', hsd, if_false]
      exact hc s (hpk.mem_iff.mp hs) hsd

/-- **stack (align=False) REFUSES inputs whose same-named axes differ**, for any number of inputs listing the same
dimension names in any order: if some input carries on some dimension `s` labels that are not the first input's labels
on `s`, `stack` does not return a result (it raises) - never a positional join.  (Generalises
`stack_error_is_not_ok_of_label_mismatch` from two inputs in the same order to `n` inputs matched by name; only the
distinctness of the dimension names is needed.) -/
theorem stack_refuses_mismatch {α : Type} [Inhabited α] (nan : α) (a0 : DimArray α) (rest : List (DimArray α))
    (axis : Option String) (keys : List Label) (kk : Kind)
    (hnd : ∀ a ∈ a0 :: rest, a.dims.Nodup)
    (hperm : ∀ a ∈ rest, a.dims.Perm a0.dims)
    (b : DimArray α) (hb : b ∈ rest) (s : String) (hs : s ∈ a0.dims)
    (hne : (b.axisNamed s).labels ≠ (a0.axisNamed s).labels) :
    ∀ r, stack nan (a0 :: rest) axis keys kk false false ≠ .ok r := by
  intro r h
  have hn0 := hnd a0 List.mem_cons_self
  have hnb := hnd b (List.mem_cons_of_mem _ hb)
  obtain ⟨name, arrs, axes, h1, _, hchk, _, _⟩ := C12.stack_inv nan (a0 :: rest) axis keys kk r h
  rw [reorderLikeFirst_ok a0 rest hperm hn0] at h1
  injection h1 with h1
  subst h1
  obtain ⟨hm0, hname0⟩ := axisNamed_mem a0 s hs
  obtain ⟨c1, hc1, hl1⟩ := hchk a0 List.mem_cons_self _ hm0
  have hmb : b.axisNamed s ∈ (reorderTo a0 b).axes := by
    rw [reorderTo_axes a0 b hnb]
    exact List.mem_map.mpr ⟨s, hs, rfl⟩
  have hnameb : (b.axisNamed s).name = s := (axisNamed_mem b s ((hperm b hb).mem_iff.mpr hs)).2
  obtain ⟨c2, hc2, hl2⟩ := hchk (reorderTo a0 b) (List.mem_cons_of_mem _ (List.mem_map.mpr ⟨b, hb, rfl⟩)) _ hmb
  rw [hname0] at hc1
  rw [hnameb, hc1] at hc2
  injection hc2 with hc2
  subst hc2
  exact hne (hl2.symm.trans hl1)

/-! non-vacuity of `stack_noalign_spec`, `stack_align_spec`, `concatenate_align_spec` -/

/-- dims `y, x` (the opposite order of `exCatA`), other labels on both dimensions -/
def exStkB : DimArray Int :=
  { axes := [{ name := "y", labels := [.num 20, .num 30], kind := .i }, { name := "x", labels := [.num 2, .num 3], kind := .i }]
    vals := ⟨[2, 2], fun j => 100 + 2 * j.getD 0 0 + j.getD 1 0⟩ }

/-- dims `y, x` (the opposite order of `exCatA`), the labels of `exCatA` on both dimensions -/
def exStkD : DimArray Int :=
  { axes := [{ name := "y", labels := [.num 10, .num 20], kind := .i }, { name := "x", labels := [.num 1, .num 2], kind := .i }]
    vals := ⟨[2, 2], fun j => 100 + 2 * j.getD 0 0 + j.getD 1 0⟩ }

theorem exStkD_input : JoinInput exStkD := by unfold JoinInput exStkD; decide

theorem exStk_check : checkStackAxis (some "z") exCatA.dims = .ok "z" := by
  simp [checkStackAxis, exCatA, DimArray.dims]

theorem exStk_input : ∀ a ∈ [exCatA, exStkB], AlignInput a := by
  intro a ha
  simp only [List.mem_cons, List.not_mem_nil, or_false] at ha
  rcases ha with rfl | rfl
  · unfold AlignInput exCatA; decide
  · unfold AlignInput exStkB; decide

/-- `stack([A, B], axis='z', keys=['a','b'])` for `B` over the dims of `A` in the other order, same labels: slice 1 at
`x` = 1st position, `y` = 2nd position is `B`'s element there (`B` read as `[y, x]`) -/
example : ∃ r, stack (0 : Int) [exCatA, exStkD] (some "z") [.str "a", .str "b"] .U false false = .ok r ∧
    r.vals.get [1, 0, 1] = 102 := by
  obtain ⟨r, h, _, _, _, _, hv⟩ := stack_noalign_spec (0 : Int) exCatA [exStkD] (some "z") [.str "a", .str "b"] .U
    false "z"
    (by
      intro a ha
      simp only [List.mem_cons, List.not_mem_nil, or_false] at ha
      rcases ha with rfl | rfl
      · exact exCat_input _ (by simp)
      · exact exStkD_input)
    (by intro a ha; simp only [List.mem_cons, List.not_mem_nil, or_false] at ha; subst ha; decide)
    exStk_check rfl
    (by intro a ha; simp only [List.mem_cons, List.not_mem_nil, or_false] at ha; subst ha; decide)
  refine ⟨r, h, ?_⟩
  have := hv 1 (by decide) (fun s => if s = "x" then 0 else 1)
  have e : exCatA.dims.map (fun s => if s = "x" then 0 else 1) = [0, 1] := by decide
  rw [e] at this
  rw [this]
  decide

/-- `stack([A, B], axis='z', align=True)` for arrays with different labels on both dimensions: it succeeds, lists
`z, x, y`, and the `x` labels are the union `1, 2, 3` -/
example : ∃ (r : DimArray Int) (U : String → List Label),
    stack (0 : Int) [exCatA, exStkB] (some "z") [.str "a", .str "b"] .U true false = .ok r ∧
    r.dims = ["z", "x", "y"] ∧ r.axes.map (·.labels) = [.str "a", .str "b"] :: [U "x", U "y"] ∧
    (∀ v, v ∈ U "x" ↔ v = .num 1 ∨ v = .num 2 ∨ v = .num 3) := by
  obtain ⟨r, U, h, hd, hl, hU, _⟩ := stack_align_spec (0 : Int) exCatA [exStkB] (some "z") [.str "a", .str "b"] .U
    false "z" exStk_input
    (by intro a ha; simp only [List.mem_cons, List.not_mem_nil, or_false] at ha; subst ha; decide)
    exStk_check rfl
  refine ⟨r, U, h, hd, hl, ?_⟩
  intro v
  rw [(hU "x" (by decide)).2.1 v]
  constructor
  · rintro ⟨a, ha, hv⟩
    simp only [List.mem_cons, List.not_mem_nil, or_false] at ha
    rcases ha with rfl | rfl
    · have e : (exCatA.axisNamed "x").labels = [.num 1, .num 2] := by decide
      rw [e] at hv
      simp only [List.mem_cons, List.not_mem_nil, or_false] at hv
      rcases hv with h | h <;> simp [h]
    · have e : (exStkB.axisNamed "x").labels = [.num 2, .num 3] := by decide
      rw [e] at hv
      simp only [List.mem_cons, List.not_mem_nil, or_false] at hv
      rcases hv with h | h <;> simp [h]
  · rintro (h | h | h)
    · exact ⟨exCatA, by simp, by subst h; decide⟩
    · exact ⟨exCatA, by simp, by subst h; decide⟩
    · exact ⟨exStkB, by simp, by subst h; decide⟩

/-- `concatenate([A, B], axis='x', align=True)`: it succeeds, lists `x, y`, and carries on `x` the labels
`1, 2` of `A` followed by `2, 3` of `B` (the joined axis is not aligned) -/
example : ∃ (r : DimArray Int) (U : String → List Label),
    concatenate (0 : Int) [exCatA, exStkB] (.name "x") true false = .ok r ∧
    r.dims = ["x", "y"] ∧ (r.axisNamed "x").labels = [.num 1, .num 2, .num 2, .num 3] ∧
    (r.axisNamed "y").labels = U "y" ∧ (U "y").Nodup := by
  obtain ⟨r, U, h, hd, hl, hU, _⟩ := concatenate_align_spec (0 : Int) exCatA [exStkB] (.name "x") 0 "x" false
    exStk_input
    (by intro a ha; simp only [List.mem_cons, List.not_mem_nil, or_false] at ha; subst ha; decide)
    ⟨by decide, Or.inl rfl⟩
  exact ⟨r, U, h, hd, hl, (hU "y" (by decide) (by decide)).1, (hU "y" (by decide) (by decide)).2.1⟩

/-- `stack([A, C], axis='z')`: `C` lists `y, x` and carries the `y` labels in another order - refused -/
example : ∀ r, stack (0 : Int) [exCatA, exCatC] (some "z") [.str "a", .str "b"] .U false false ≠ .ok r :=
  stack_refuses_mismatch (0 : Int) exCatA [exCatC] (some "z") [.str "a", .str "b"] .U
    (by intro a ha; simp only [List.mem_cons, List.not_mem_nil, or_false] at ha; rcases ha with rfl | rfl <;> decide)
    (by intro a ha; simp only [List.mem_cons, List.not_mem_nil, or_false] at ha; subst ha; decide)
    exCatC (by simp) "y" (by decide) (by decide)

end DimModel

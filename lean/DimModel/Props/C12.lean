/-
C12 - property theorems: stack and concatenate join arrays without misaligning them.
-/
import DimModel.Lib.Join
namespace DimModel
open Lib

/-- the slice of a stacked array at position `k` of the new (first) dimension is exactly array `k` -/
theorem stackNew_get {α : Type} [Inhabited α] (as : List (NDArr α)) (k : Nat) (j : List Nat) :
    (NDArr.stackNew as).get (k :: j) = (as.getD k default).get j := rfl

theorem stackNew_shape {α : Type} [Inhabited α] (a : NDArr α) (as : List (NDArr α)) :
    (NDArr.stackNew (a :: as)).shape = (as.length + 1) :: a.shape := by
  simp [NDArr.stackNew]

/-- concatenation of two arrays along `axis`: positions below the first array's extent come from
the first array, the others from the second (shifted) -/
theorem concat2_get {α : Type} (a b : NDArr α) (axis : Nat) (j : List Nat) :
    (a.concat2 b axis).get j =
      if j.getD axis 0 < a.shape.getD axis 0 then a.get j
      else b.get (j.set axis (j.getD axis 0 - a.shape.getD axis 0)) := rfl

theorem concat2_shape {α : Type} (a b : NDArr α) (axis : Nat) :
    (a.concat2 b axis).shape = a.shape.set axis (a.shape.getD axis 0 + b.shape.getD axis 0) := rfl

end DimModel

/-
C16 - property theorems: attribute routing (over the table observed on the implementation on
every run) and metadata propagation rules of the modelled operations.
-/
import DimModel.Gen.TableC16
import DimModel.Props.C01
import DimModel.Props.C03
import DimModel.Props.C04
import DimModel.Props.C07
import DimModel.Props.C08
import DimModel.Props.C10
import DimModel.Props.C12
import DimModel.Props.C17
namespace DimModel
open Lib

/-! ### routing (table regenerated from the implementation) -/

/-- a public attribute that is not a class member reads and writes the attrs dictionary:
set always stores into attrs; get / del reach attrs when the entry exists, AttributeError otherwise -/
theorem route_public :
    ∀ r ∈ Gen.routingTable, (r.2.1 = "public" ∨ r.2.1 = "public2") →
      (r.2.2.2.1 = "set" → r.2.2.2.2 = "attrs") ∧
      (r.2.2.2.1 ≠ "set" → r.2.2.1 = true → r.2.2.2.2 = "attrs") ∧
      (r.2.2.2.1 ≠ "set" → r.2.2.1 = false → r.2.2.2.2 = "attrerr") := by decide +kernel

/-- a name equal to a dimension reads and writes that axis' labels (DimArray and Dataset) -/
theorem route_dim :
    ∀ r ∈ Gen.routingTable, r.2.1 = "dim" → (r.2.2.2.1 = "get" ∨ r.2.2.2.1 = "set") → r.2.2.2.2 = "labels" := by
  decide +kernel

/-- names starting with an underscore or naming class members (properties, methods, excluded
names) never enter attrs through attribute syntax ... -/
theorem route_private_never_enters :
    ∀ r ∈ Gen.routingTable,
      (r.2.1 = "underscore" ∨ r.2.1 = "member_ro" ∨ r.2.1 = "member_rw" ∨ r.2.1 = "member_fn" ∨ r.2.1 = "excluded") →
      r.2.2.2.1 = "set" → r.2.2.2.2 ≠ "attrs" := by decide +kernel

/-- ... and entries stored in attrs under such names are neither reachable nor deletable through
attribute syntax -/
theorem route_stored_private_unreachable :
    ∀ r ∈ Gen.routingTable,
      (r.2.1 = "underscore" ∨ r.2.1 = "member_ro" ∨ r.2.1 = "member_rw" ∨ r.2.1 = "member_fn" ∨ r.2.1 = "excluded") →
      r.2.2.1 = true → (r.2.2.2.1 = "get" ∨ r.2.2.2.1 = "del") → r.2.2.2.2 ≠ "attrs" := by decide +kernel

/-- the table covers the three classes, every name class, both "stored" states and the three operations -/
theorem routing_table_complete :
    ∀ c ∈ ["DimArray", "Dataset", "Axis"], ∀ n ∈ ["public", "underscore", "member_ro", "member_rw", "member_fn"],
      ∀ p ∈ [false, true], ∀ o ∈ ["get", "set", "del"],
        (Gen.routingTable.any fun r => r.1 == c && r.2.1 == n && r.2.2.1 == p && r.2.2.2.1 == o) = true := by decide +kernel

/-! ### propagation: metadata carried over -/

/-- indexing keeps the array's metadata -/
theorem attrs_kept_take {α : Type} (a r : DimArray α) (ixs : List Ix) (h : Spec.take a ixs = .ok r) :
    r.attrs = a.attrs := by
  unfold Spec.take at h
  split at h
  · cases h
  · cases h; rfl

/-- reindexing keeps it -/
theorem attrs_kept_reindex {α : Type} (a r : DimArray α) (axis : DimKey) (newL : List Label) (nk fk : Kind) (fill : α)
    (re : Bool) (m : Option Side) (h : reindexAxis a axis newL nk fill fk re m = .ok r) : r.attrs = a.attrs :=
  reindex_attrs a axis newL nk fk fill re m r h

/-- the reshaping family keeps it (transpose; newaxis / squeeze / repeat construct with `a.attrs` by definition) -/
theorem attrs_kept_transpose {α : Type} (a : DimArray α) (p : List Nat) : (transposeBy a p).attrs = a.attrs := rfl

/-- reductions and the other along-axis transforms keep it -/
theorem attrs_kept_reduce {α : Type} (red : List α → α) (a : DimArray α) (k : DimKey) (pos : Nat) (r : DimArray α)
    (hpos : dealWithAxis a (.one k) = .ok (a, some pos)) (hrank : a.ndim ≠ 1)
    (h : reduceAxis red a (.one k) = .ok (.inr r)) : r.attrs = a.attrs :=
  (reduce_axes_spec red a k pos r hpos hrank h).2.1

/-- assignment keeps it -/
theorem attrs_kept_put {α : Type} (a r : DimArray α) (ui : UserIndex) (rhs : RHS α) (rk : Kind) (cfg : IndexCfg) (cast : Bool)
    (h : put a ui rhs rk cfg cast = .ok r) : r.attrs = a.attrs :=
  (put_labels_unchanged a r ui rhs rk cfg cast h).2.1

/-- sorting / take_axis / fillna / setna keep it -/
theorem attrs_kept_takeAxis {α : Type} (a : DimArray α) (pos : Nat) (ps : List Nat) :
    (takeAxisPos a pos ps).attrs = a.attrs := rfl

theorem attrs_kept_fillna {α : Type} (isnan : α → Bool) (a : DimArray α) (fill : α) (fk : Kind) :
    (fillna isnan a fill fk).attrs = a.attrs := rfl

/-! ### propagation: metadata dropped -/

/-- arithmetic returns an array without the operands' metadata -/
theorem attrs_dropped_operation {α : Type} (nan : α) (f : α → α → α) (a b : DimArray α) (r : DimArray α × Kind × Kind)
    (h : operation nan f a b = .ok r) : r.1.attrs = [] := operation_attrs_dropped nan f a b r h

/-- stack returns an array without metadata -/
theorem attrs_dropped_stack {α : Type} [Inhabited α] (nan : α) (arrays : List (DimArray α)) (axis : Option String)
    (keys : List Label) (kk : Kind) (r : DimArray α) (h : stack nan arrays axis keys kk false false = .ok r) :
    r.attrs = [] := by
  obtain ⟨_, _, _, _, _, h4, _⟩ := stack_spec nan arrays axis keys kk r h
  exact h4

/-! ### axis metadata survives slicing / reindexing of that axis -/

theorem axis_attrs_kept_select (ax : Axis) (ps : List Nat) : (axisSelect ax ps).attrs = ax.attrs := rfl
theorem axis_attrs_kept_take (ax : Axis) (ps : List Nat) : (axisTake ax ps).attrs = ax.attrs := rfl

end DimModel

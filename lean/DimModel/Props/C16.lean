/-
C16 - property theorems: attribute routing (over the table observed on the implementation on
every run) and metadata propagation rules of the modelled operations.
-/
import DimModel.Gen.TableC16
import DimModel.Props.C01
import DimModel.Props.C03
import DimModel.Props.C04
import DimModel.Props.C07
import DimModel.Props.C08
import DimModel.Props.C10
import DimModel.Props.C12
import DimModel.Props.C17
import DimModel.Proofs.C16
import DimModel.Proofs.C16Ds
import DimModel.Proofs.C16Ds2
import DimModel.Proofs.C16More
namespace DimModel
open Lib

/-! ### routing (table regenerated from the implementation) -/

/-- a public attribute that is not a class member reads and writes the attrs dictionary:
set always stores into attrs; get / del reach attrs when the entry exists, AttributeError otherwise -/
theorem route_public :
    ∀ r ∈ Gen.routingTable, (r.2.1 = "public" ∨ r.2.1 = "public2") →
      (r.2.2.2.1 = "set" → r.2.2.2.2 = "attrs") ∧
      (r.2.2.2.1 ≠ "set" → r.2.2.1 = true → r.2.2.2.2 = "attrs") ∧
      (r.2.2.2.1 ≠ "set" → r.2.2.1 = false → r.2.2.2.2 = "attrerr") := by decide +kernel

/-- a name equal to a dimension reads and writes that axis' labels (DimArray and Dataset) -/
theorem route_dim :
    ∀ r ∈ Gen.routingTable, r.2.1 = "dim" → (r.2.2.2.1 = "get" ∨ r.2.2.2.1 = "set") → r.2.2.2.2 = "labels" := by
  decide +kernel

/-- names starting with an underscore or naming class members (properties, methods, excluded
names) never enter attrs through attribute syntax ... -/
theorem route_private_never_enters :
    ∀ r ∈ Gen.routingTable,
      (r.2.1 = "underscore" ∨ r.2.1 = "member_ro" ∨ r.2.1 = "member_rw" ∨ r.2.1 = "member_fn" ∨ r.2.1 = "excluded") →
      r.2.2.2.1 = "set" → r.2.2.2.2 ≠ "attrs" := by decide +kernel

/-- ... and entries stored in attrs under such names are neither reachable nor deletable through
attribute syntax -/
theorem route_stored_private_unreachable :
    ∀ r ∈ Gen.routingTable,
      (r.2.1 = "underscore" ∨ r.2.1 = "member_ro" ∨ r.2.1 = "member_rw" ∨ r.2.1 = "member_fn" ∨ r.2.1 = "excluded") →
      r.2.2.1 = true → (r.2.2.2.1 = "get" ∨ r.2.2.2.1 = "del") → r.2.2.2.2 ≠ "attrs" := by decide +kernel

/-- the table covers the three classes, every name class, both "stored" states and the three operations -/
theorem routing_table_complete :
    ∀ c ∈ ["DimArray", "Dataset", "Axis"], ∀ n ∈ ["public", "underscore", "member_ro", "member_rw", "member_fn"],
      ∀ p ∈ [false, true], ∀ o ∈ ["get", "set", "del"],
        (Gen.routingTable.any fun r => r.1 == c && r.2.1 == n && r.2.2.1 == p && r.2.2.2.1 == o) = true := by decide +kernel

/-! ### propagation: metadata carried over -/

/-- indexing keeps the array's metadata -/
theorem attrs_kept_take {α : Type} (a r : DimArray α) (ixs : List Ix) (h : Spec.take a ixs = .ok r) :
    r.attrs = a.attrs := by
  unfold Spec.take at h
  split at h
  · cases h
  · cases h; rfl

/-- reindexing keeps it -/
theorem attrs_kept_reindex {α : Type} (a r : DimArray α) (axis : DimKey) (newL : List Label) (nk fk : Kind) (fill : α)
    (re : Bool) (m : Option Side) (h : reindexAxis a axis newL nk fill fk re m = .ok r) : r.attrs = a.attrs :=
  reindex_attrs a axis newL nk fk fill re m r h

/-- the reshaping family keeps it (transpose; newaxis / squeeze / repeat construct with `a.attrs` by definition) -/
theorem attrs_kept_transpose {α : Type} (a : DimArray α) (p : List Nat) : (transposeBy a p).attrs = a.attrs := rfl

/-- reductions and the other along-axis transforms keep it -/
theorem attrs_kept_reduce {α : Type} (red : List α → α) (a : DimArray α) (k : DimKey) (pos : Nat) (r : DimArray α)
    (hpos : dealWithAxis a (.one k) = .ok (a, some pos)) (hrank : a.ndim ≠ 1)
    (h : reduceAxis red a (.one k) = .ok (.inr r)) : r.attrs = a.attrs :=
  (reduce_axes_spec red a k pos r hpos hrank h).2.1

/-- assignment keeps it -/
theorem attrs_kept_put {α : Type} (a r : DimArray α) (ui : UserIndex) (rhs : RHS α) (rk : Kind) (cfg : IndexCfg) (cast : Bool)
    (h : put a ui rhs rk cfg cast = .ok r) : r.attrs = a.attrs :=
  (put_labels_unchanged a r ui rhs rk cfg cast h).2.1

/-- sorting / take_axis / fillna / setna keep it -/
theorem attrs_kept_takeAxis {α : Type} (a : DimArray α) (pos : Nat) (ps : List Nat) :
    (takeAxisPos a pos ps).attrs = a.attrs := rfl

theorem attrs_kept_fillna {α : Type} (isnan : α → Bool) (a : DimArray α) (fill : α) (fk : Kind) :
    (fillna isnan a fill fk).attrs = a.attrs := rfl

/-! ### propagation: metadata dropped -/

/-- arithmetic returns an array without the operands' metadata -/
theorem attrs_dropped_operation {α : Type} (nan : α) (f : α → α → α) (a b : DimArray α) (r : DimArray α × Kind × Kind)
    (h : operation nan f a b = .ok r) : r.1.attrs = [] := operation_attrs_dropped nan f a b r h

/-- stack returns an array without metadata -/
theorem attrs_dropped_stack {α : Type} [Inhabited α] (nan : α) (arrays : List (DimArray α)) (axis : Option String)
    (keys : List Label) (kk : Kind) (r : DimArray α) (h : stack nan arrays axis keys kk false false = .ok r) :
    r.attrs = [] := by
  obtain ⟨_, _, _, _, _, h4, _⟩ := stack_spec nan arrays axis keys kk r h
  exact h4

/-! ### axis metadata survives slicing / reindexing of that axis -/

theorem axis_attrs_kept_select (ax : Axis) (ps : List Nat) : (axisSelect ax ps).attrs = ax.attrs := rfl
theorem axis_attrs_kept_take (ax : Axis) (ps : List Nat) : (axisTake ax ps).attrs = ax.attrs := rfl


/-! ## the complete propagation table: one pair of theorems per mirror function

Vocabulary (defined in `DimModel/Proofs/C16.lean`):
* `axisMeta axes` - the list of `(name, attrs)` pairs of the axes, in order;
* `AxisAttrsKept src dst` - every axis of `dst` that has the name of an axis of `src` has that axis' metadata;
  `AxisAttrsKeptExcept d src dst` - the same for every axis but the one called `d`;
* `metaAll axes` - every `(name, attrs)` pair found in `axes`: on an axis, or on a member of a grouped axis;
* `AxisLe x y` - `x` has the name and the metadata of `y` (and no member that `y` has not).
Every theorem speaks about an arbitrary successful call (`f … = .ok r`): no bound on rank, sizes or labels. -/

/-! ### indexing and assignment (`Lib/GetSet.lean`) -/

/-- `take` (every spelling of the index: tuple / dict / `axis=`, label or position mode, `keepdims`, `tol`)
keeps the array's metadata -/
theorem take_attrs {α : Type} (a r : DimArray α) (ui : UserIndex) (cfg : IndexCfg) (h : take a ui cfg = .ok r) :
    r.attrs = a.attrs := (C16.take_spec a r ui cfg h).1

/-- ... and the surviving axes keep their name and metadata, in order (the scalar-indexed ones are dropped) -/
theorem take_axis_attrs {α : Type} (a r : DimArray α) (ui : UserIndex) (cfg : IndexCfg) (h : take a ui cfg = .ok r) :
    (axisMeta r.axes).Sublist (axisMeta a.axes) ∧ ((a.axes.map (·.name)).Nodup → AxisAttrsKept a.axes r.axes) :=
  ⟨(C16.take_spec a r ui cfg h).2, C16.kept_of_sublist (C16.take_spec a r ui cfg h).2⟩

/-- `put` keeps the array's metadata ... -/
theorem put_attrs {α : Type} (a r : DimArray α) (ui : UserIndex) (rhs : RHS α) (rk : Kind) (cfg : IndexCfg) (cast : Bool)
    (h : put a ui rhs rk cfg cast = .ok r) : r.attrs = a.attrs := (C16.put_spec a r ui rhs rk cfg cast h).1

/-- ... and the very same axes -/
theorem put_axis_attrs {α : Type} (a r : DimArray α) (ui : UserIndex) (rhs : RHS α) (rk : Kind) (cfg : IndexCfg) (cast : Bool)
    (h : put a ui rhs rk cfg cast = .ok r) : r.axes = a.axes := (C16.put_spec a r ui rhs rk cfg cast h).2

theorem putBool_attrs {α : Type} (a r : DimArray α) (mask : NDArr Bool) (v : α) (rk : Kind) (cast : Bool)
    (h : putBool a mask v rk cast = .ok r) : r.attrs = a.attrs := (C16.putBool_spec a r mask v rk cast h).1

theorem putBool_axis_attrs {α : Type} (a r : DimArray α) (mask : NDArr Bool) (v : α) (rk : Kind) (cast : Bool)
    (h : putBool a mask v rk cast = .ok r) : r.axes = a.axes := (C16.putBool_spec a r mask v rk cast h).2

/-! ### positional take, reindexing, sorting (`Lib/Align.lean`) -/

theorem takeAxisPos_attrs {α : Type} (a : DimArray α) (pos : Nat) (ps : List Nat) :
    (takeAxisPos a pos ps).attrs = a.attrs := rfl

theorem takeAxisPos_axis_attrs {α : Type} (a : DimArray α) (pos : Nat) (ps : List Nat) :
    axisMeta (takeAxisPos a pos ps).axes = axisMeta a.axes ∧
      ((a.axes.map (·.name)).Nodup → AxisAttrsKept a.axes (takeAxisPos a pos ps).axes) :=
  ⟨C16.takeAxisPos_meta a pos ps, C16.kept_of_eq (C16.takeAxisPos_meta a pos ps)⟩

theorem reindexAxis_attrs {α : Type} (a r : DimArray α) (axis : DimKey) (newL : List Label) (nk : Kind) (fill : α)
    (fk : Kind) (re : Bool) (m : Option Side) (h : reindexAxis a axis newL nk fill fk re m = .ok r) :
    r.attrs = a.attrs := (C16.reindexAxis_spec a r axis newL nk fill fk re m h).1

/-- every axis - the reindexed one included, also when new labels had to be written into it - keeps its name
and metadata -/
theorem reindexAxis_axis_attrs {α : Type} (a r : DimArray α) (axis : DimKey) (newL : List Label) (nk : Kind) (fill : α)
    (fk : Kind) (re : Bool) (m : Option Side) (h : reindexAxis a axis newL nk fill fk re m = .ok r) :
    axisMeta r.axes = axisMeta a.axes ∧ ((a.axes.map (·.name)).Nodup → AxisAttrsKept a.axes r.axes) :=
  ⟨(C16.reindexAxis_spec a r axis newL nk fill fk re m h).2,
    C16.kept_of_eq (C16.reindexAxis_spec a r axis newL nk fill fk re m h).2⟩

theorem reindexLike_attrs {α : Type} (a r : DimArray α) (tmpl : List Axis) (fill : α) (fk : Kind) (re : Bool)
    (m : Option Side) (h : reindexLike a tmpl fill fk re m = .ok r) : r.attrs = a.attrs :=
  (C16.reindexLike_spec a r tmpl fill fk re m h).1

/-- the axes keep THEIR OWN metadata: nothing is taken from the template's axes -/
theorem reindexLike_axis_attrs {α : Type} (a r : DimArray α) (tmpl : List Axis) (fill : α) (fk : Kind) (re : Bool)
    (m : Option Side) (h : reindexLike a tmpl fill fk re m = .ok r) :
    axisMeta r.axes = axisMeta a.axes ∧ ((a.axes.map (·.name)).Nodup → AxisAttrsKept a.axes r.axes) :=
  ⟨(C16.reindexLike_spec a r tmpl fill fk re m h).2, C16.kept_of_eq (C16.reindexLike_spec a r tmpl fill fk re m h).2⟩

theorem sortAxis_attrs {α : Type} (a r : DimArray α) (axis : DimKey) (h : sortAxis a axis = .ok r) :
    r.attrs = a.attrs := (C16.sortAxis_spec a r axis h).1

theorem sortAxis_axis_attrs {α : Type} (a r : DimArray α) (axis : DimKey) (h : sortAxis a axis = .ok r) :
    axisMeta r.axes = axisMeta a.axes ∧ ((a.axes.map (·.name)).Nodup → AxisAttrsKept a.axes r.axes) :=
  ⟨(C16.sortAxis_spec a r axis h).2, C16.kept_of_eq (C16.sortAxis_spec a r axis h).2⟩

/-! ### merging axes and aligning arrays (`Lib/Axes.lean`) -/

/-- `Axis.union`: the name and metadata of `self` - except that an EMPTY `self` (joined with a different,
hence non-empty, `other`) returns `other` with `other`'s name and metadata -/
theorem union_axis_attrs (a b : Axis) :
    (union a b).name = (if a.labels ≠ b.labels ∧ a.labels = [] then b.name else a.name) ∧
    (union a b).attrs = (if a.labels ≠ b.labels ∧ a.labels = [] then b.attrs else a.attrs) := C16.union_attrs a b

/-- `Axis.intersection`: the metadata of `self` - except that the intersection with an empty axis (or of an
empty axis) is a fresh empty axis WITHOUT metadata -/
theorem intersection_axis_attrs (a b : Axis) :
    (intersection a b).name = a.name ∧
    (intersection a b).attrs = (if a.labels ≠ b.labels ∧ (a.labels = [] ∨ b.labels = []) then [] else a.attrs) :=
  C16.intersection_attrs a b

/-- the common axis of several axes carries the metadata of one of them, or none -/
theorem commonAxis_axis_attrs (join : Join) (l : List Axis) (c : Axis) (h : commonAxis join l = some c) :
    c.attrs = [] ∨ ∃ x ∈ l, c.attrs = x.attrs := C16.commonAxis_attrs join l c h

/-- `align` returns reindexed arrays: array by array, the array's metadata is KEPT ... -/
theorem align_attrs {α : Type} (nan : α) (arrays rs : List (DimArray α)) (join : Join) (axis : Option String)
    (sort strict : Bool) (h : align nan arrays join axis sort strict = .ok rs) :
    rs.map (·.attrs) = arrays.map (·.attrs) :=
  C16.Pointwise.map_eq (C16.align_spec nan arrays rs join axis sort strict h) _ (fun _ _ hxy => hxy.1)

/-- ... and every axis keeps ITS OWN name and metadata: the metadata of the common (union / intersection) axis
computed by `getAlignedAxes` is never used -/
theorem align_axis_attrs {α : Type} (nan : α) (arrays rs : List (DimArray α)) (join : Join) (axis : Option String)
    (sort strict : Bool) (h : align nan arrays join axis sort strict = .ok rs) :
    rs.map (fun o => axisMeta o.axes) = arrays.map (fun o => axisMeta o.axes) :=
  C16.Pointwise.map_eq (C16.align_spec nan arrays rs join axis sort strict h) _ (fun _ _ hxy => hxy.2.1)

/-! ### the reshaping family (`Lib/Reshape.lean`) -/

/-- (`transposeBy_attrs` is in `Props/C10.lean`.)  The axes are the very same `Axis` values, rearranged -/
theorem transposeBy_axis_attrs {α : Type} (a : DimArray α) (p : List Nat) (hp : IsPerm p a.axes.length) :
    (transposeBy a p).axes.Perm a.axes ∧ ((a.axes.map (·.name)).Nodup → AxisAttrsKept a.axes (transposeBy a p).axes) :=
  ⟨(C16.transposeBy_perm a p hp).2, C16.kept_of_mem fun _ hx => (C16.transposeBy_perm a p hp).2.mem_iff.mp hx⟩

theorem transpose_attrs {α : Type} (a r : DimArray α) (ks : Option (List DimKey)) (h : transpose a ks = .ok r) :
    r.attrs = a.attrs := (C16.transpose_spec a r ks h).1

theorem transpose_axis_attrs {α : Type} (a r : DimArray α) (ks : Option (List DimKey)) (h : transpose a ks = .ok r) :
    r.axes.Perm a.axes ∧ ((a.axes.map (·.name)).Nodup → AxisAttrsKept a.axes r.axes) :=
  ⟨(C16.transpose_spec a r ks h).2, C16.kept_of_mem fun _ hx => (C16.transpose_spec a r ks h).2.mem_iff.mp hx⟩

theorem swapaxes_attrs {α : Type} (a r : DimArray α) (k1 k2 : DimKey) (h : swapaxes a k1 k2 = .ok r) :
    r.attrs = a.attrs := (C16.swapaxes_spec a r k1 k2 h).1

theorem swapaxes_axis_attrs {α : Type} (a r : DimArray α) (k1 k2 : DimKey) (h : swapaxes a k1 k2 = .ok r) :
    r.axes.Perm a.axes ∧ ((a.axes.map (·.name)).Nodup → AxisAttrsKept a.axes r.axes) :=
  ⟨(C16.swapaxes_spec a r k1 k2 h).2, C16.kept_of_mem fun _ hx => (C16.swapaxes_spec a r k1 k2 h).2.mem_iff.mp hx⟩

theorem rollaxis_attrs {α : Type} (a r : DimArray α) (k : DimKey) (start : Int) (h : rollaxis a k start = .ok r) :
    r.attrs = a.attrs := (C16.rollaxis_spec a r k start h).1

theorem rollaxis_axis_attrs {α : Type} (a r : DimArray α) (k : DimKey) (start : Int) (h : rollaxis a k start = .ok r) :
    r.axes.Perm a.axes ∧ ((a.axes.map (·.name)).Nodup → AxisAttrsKept a.axes r.axes) :=
  ⟨(C16.rollaxis_spec a r k start h).2, C16.kept_of_mem fun _ hx => (C16.rollaxis_spec a r k start h).2.mem_iff.mp hx⟩

theorem repeatAxis_attrs {α : Type} (a r : DimArray α) (newax : Axis) (k : DimKey) (h : repeatAxis a newax k = .ok r) :
    r.attrs = a.attrs := (C16.repeatAxis_spec a r newax k h).1

/-- `repeat`: the repeated (singleton) axis is REPLACED by the axis given as `values` - under the old name but with
the metadata of the NEW axis (the metadata of the singleton axis is dropped); the other axes are untouched.
(Python: `newaxes[idx] = values` when `values` is an `Axis` - the library then also takes over the NAME of that
axis, which the mirror does not model: it always keeps the old name.) -/
theorem repeatAxis_axis_attrs {α : Type} (a r : DimArray α) (newax : Axis) (k : DimKey) (h : repeatAxis a newax k = .ok r) :
    ∃ pos, axisPos a.axes k = .ok pos ∧ pos < a.axes.length ∧
      r.axes = a.axes.set pos { newax with name := (a.axes.getD pos default).name } ∧
      ((a.axes.map (·.name)).Nodup → AxisAttrsKeptExcept (a.axes.getD pos default).name a.axes r.axes) := by
  obtain ⟨_, pos, h1, h2, h3⟩ := C16.repeatAxis_spec a r newax k h
  refine ⟨pos, h1, h2, h3, ?_⟩
  apply C16.keptExcept_of_set (pos := pos) (X := newax.attrs)
  rw [h3, C16.axisMeta_set]

theorem newaxis_attrs {α : Type} (a r : DimArray α) (name : String) (pos : Int) (vals : Option Axis)
    (h : newaxis a name pos vals = .ok r) : r.attrs = a.attrs := (C16.newaxis_spec a r name pos vals h).1

/-- `newaxis`: the axes of `a` are untouched; the inserted axis has a new name and no metadata - or, when `values`
is an axis, the metadata of that axis -/
theorem newaxis_axis_attrs {α : Type} (a r : DimArray α) (name : String) (pos : Int) (vals : Option Axis)
    (h : newaxis a name pos vals = .ok r) :
    name ∉ a.dims ∧ (∃ p, p ≤ a.axes.length ∧
      r.axes = a.axes.insertIdx p (match vals with
        | none => C16.freshAxis name
        | some v => { v with name := name })) ∧
    ((a.axes.map (·.name)).Nodup → AxisAttrsKept a.axes r.axes) := by
  obtain ⟨_, hn, p, hp, e⟩ := C16.newaxis_spec a r name pos vals h
  refine ⟨hn, ⟨p, hp, e⟩, ?_⟩
  intro hnd ax' hax' ax hax hname
  rw [e] at hax'
  rcases (List.mem_insertIdx hp).mp hax' with rfl | hin
  · exfalso
    apply hn
    have : ax.name = name := by rw [← hname]; cases vals <;> rfl
    rw [← this]; exact List.mem_map.mpr ⟨ax, hax, rfl⟩
  · rw [C16.name_inj hnd hin hax hname]

theorem squeeze_attrs {α : Type} (a r : DimArray α) (k : Option DimKey) (h : squeeze a k = .ok r) :
    r.attrs = a.attrs := (C16.squeeze_spec a r k h).1

theorem squeeze_axis_attrs {α : Type} (a r : DimArray α) (k : Option DimKey) (h : squeeze a k = .ok r) :
    r.axes.Sublist a.axes ∧ ((a.axes.map (·.name)).Nodup → AxisAttrsKept a.axes r.axes) :=
  ⟨(C16.squeeze_spec a r k h).2, C16.kept_of_mem fun _ hx => (C16.squeeze_spec a r k h).2.subset hx⟩

theorem unflattenAt_attrs {α : Type} (a : DimArray α) (pos : Nat) : (unflattenAt a pos).attrs = a.attrs := rfl

/-- `unflatten`: the members of the grouped axis come back with their own metadata; the metadata of the grouped
axis itself is dropped with it -/
theorem unflattenAt_axis_attrs {α : Type} (a : DimArray α) (pos : Nat) :
    axisMeta (unflattenAt a pos).axes =
      (axisMeta a.axes).take pos ++ (a.axes.getD pos default).members.map (fun m => (m.name, m.attrs)) ++
        (axisMeta a.axes).drop (pos + 1) := by
  simp [unflattenAt, axisMeta, List.map_take, List.map_drop, Axis0.toAxis]

theorem unflattenAll_attrs {α : Type} (a : DimArray α) : (unflattenAll a).attrs = a.attrs :=
  (C16.unflattenAll_spec a).1

theorem unflattenAll_axis_attrs {α : Type} (a : DimArray α) : ∀ x ∈ (unflattenAll a).axes, BaseAxis a.axes x :=
  (C16.unflattenAll_spec a).2

theorem flatten_attrs {α : Type} (a r : DimArray α) (dims : List String) (insert : Option Nat)
    (h : flatten a dims insert = .ok r) : r.attrs = a.attrs := (C16.flatten_spec a r dims insert h).1

/-- `flatten`: the axes that are not grouped are the very same axes; the grouped axis is new, WITHOUT metadata, and
its members are the grouped axes of `a` with their own metadata (`Axis.toAxis0` keeps `attrs`); no axis is lost -/
theorem flatten_axis_attrs {α : Type} (a r : DimArray α) (dims : List String) (insert : Option Nat)
    (h : flatten a dims insert = .ok r) :
    ∃ (ins : Nat) (members others : List Axis),
      r.axes = others.take ins ++ [multiAxis members] ++ others.drop ins ∧
      (multiAxis members).attrs = [] ∧ (multiAxis members).members = members.map Axis.toAxis0 ∧
      (∀ m ∈ members, m ∈ a.axes ∧ m.name ∈ dims) ∧ (∀ o ∈ others, o ∈ a.axes ∧ o.name ∉ dims) ∧
      (∀ ax ∈ a.axes, ax ∈ members ∨ ax ∈ others) := by
  obtain ⟨_, ins, members, others, _, h1, h2, h3, h4⟩ := C16.flatten_spec a r dims insert h
  exact ⟨ins, members, others, h1, rfl, rfl, h2, h3, h4⟩

theorem reshape_attrs {α : Type} (a r : DimArray α) (newdims : List String) (h : reshape a newdims = .ok r) :
    r.attrs = a.attrs := (C16.reshape_spec a r newdims h).1

/-- `reshape`, any input: no foreign metadata - every `(name, attrs)` pair of the result (axis or member of a
grouped axis) is empty metadata or a pair of `a` -/
theorem reshape_axis_attrs {α : Type} (a r : DimArray α) (newdims : List String) (h : reshape a newdims = .ok r) :
    ∀ p ∈ metaAll r.axes, p.2 = [] ∨ p ∈ metaAll a.axes := (C16.reshape_spec a r newdims h).2

/-- `reshape` of a plain array towards comma-free names (squeeze / transpose / insert singletons): the surviving
axes are the very same axes, the others are fresh `None` singletons -/
theorem reshape_plain_axis_attrs {α : Type} (a r : DimArray α) (hw : a.WF) (hpa : PlainAxes a.axes) (newdims : List String)
    (hnd : newdims.Nodup) (hpn : ∀ d ∈ newdims, PlainName d)
    (hfit : ∀ ax ∈ a.axes, ax.name ∉ newdims → ax.size = 1) (h : reshape a newdims = .ok r) :
    (∀ ax ∈ a.axes, ax.name ∈ newdims → ax ∈ r.axes) ∧ (∀ ax ∈ r.axes, ax ∈ a.axes ∨ ax = noneAxis ax.name) ∧
      AxisAttrsKept a.axes r.axes := C16.reshape_plain a r hw hpa newdims hnd hpn hfit h

theorem alignDims_attrs {α : Type} (arrays rs : List (DimArray α)) (h : alignDims arrays = .ok rs) :
    rs.map (·.attrs) = arrays.map (·.attrs) := (C16.alignDims_spec arrays rs h).1

theorem alignDims_axis_attrs {α : Type} (arrays rs : List (DimArray α)) (h : alignDims arrays = .ok rs) :
    ∀ r ∈ rs, ∃ a ∈ arrays, r.attrs = a.attrs ∧ ∀ p ∈ metaAll r.axes, p.2 = [] ∨ p ∈ metaAll a.axes :=
  (C16.alignDims_spec arrays rs h).2

theorem broadcast_attrs {α : Type} (a r : DimArray α) (target : List Axis) (h : broadcast a target = .ok r) :
    r.attrs = a.attrs := (C16.broadcast_spec a r target h).1

/-- `broadcast`, any input: every `(name, attrs)` pair of the result is empty or a pair of `a` - never one of the
target axes (a repeated axis is a fresh `Axis(values, name)` with the target's labels and NO metadata) -/
theorem broadcast_axis_attrs {α : Type} (a r : DimArray α) (target : List Axis) (h : broadcast a target = .ok r) :
    ∀ p ∈ metaAll r.axes, p.2 = [] ∨ p ∈ metaAll a.axes := (C16.broadcast_spec a r target h).2

/-- `broadcast` on plain arrays: an axis of `a` is kept as it is - unless it has one position and the target axis
has not: then it is replaced by a fresh axis with the target's name and labels (`Axis.bare`), WITHOUT metadata
(neither `a`'s singleton axis' nor the target's) -/
theorem broadcast_plain_axis_attrs {α : Type} (a r : DimArray α) (hw : a.WF) (hpa : PlainAxes a.axes) (target : List Axis)
    (hpt : PlainAxes target) (hnd : (target.map (·.name)).Nodup) (hpn : ∀ t ∈ target, PlainName t.name)
    (hfit : ∀ ax ∈ a.axes, ax.name ∉ target.map (·.name) → ax.size = 1) (h : broadcast a target = .ok r) :
    (∀ ax' ∈ r.axes, ∃ t ∈ target, ax' = bcastAxis a t) ∧
    ∀ ax' ∈ r.axes, ∀ ax ∈ a.axes, ax'.name = ax.name → ax' = ax ∨ (ax.size = 1 ∧ ∃ t ∈ target, ax' = t.bare) :=
  C16.broadcast_plain a r hw hpa target hpt hnd hpn hfit h

theorem broadcastArrays_attrs {α : Type} (arrays rs : List (DimArray α)) (h : broadcastArrays arrays = .ok rs) :
    ∀ r ∈ rs, ∃ a ∈ arrays, r.attrs = a.attrs := C16.broadcastArrays_spec arrays rs h

/-! ### binary operations (`Lib/Operation.lean`) : the ARRAY's metadata is dropped, the AXES' metadata is not -/

theorem operation_attrs {α : Type} (nan : α) (f : α → α → α) (a b : DimArray α) (r : DimArray α × Kind × Kind)
    (h : operation nan f a b = .ok r) : r.1.attrs = [] := (C16.operation_spec nan f a b r h).1

/-- the axes of `a op b` are axes of the aligned operands (`ax.copy()`): every `(name, attrs)` pair of the result
is empty or a pair of `a` or of `b` -/
theorem operation_axis_attrs {α : Type} (nan : α) (f : α → α → α) (a b : DimArray α) (r : DimArray α × Kind × Kind)
    (h : operation nan f a b = .ok r) :
    ∀ p ∈ metaAll r.1.axes, p.2 = [] ∨ p ∈ metaAll a.axes ∨ p ∈ metaAll b.axes := (C16.operation_spec nan f a b r h).2

theorem operationNd_attrs {α : Type} (f : α → α → α) (a r : DimArray α) (nd : NDArr α) (flip : Bool)
    (h : operationNd f a nd flip = .ok r) : r.attrs = [] := (C16.operationNd_spec f a r nd flip h).1

/-- with a scalar / ndarray operand the axes (and their metadata) are the DimArray's own -/
theorem operationNd_axis_attrs {α : Type} (f : α → α → α) (a r : DimArray α) (nd : NDArr α) (flip : Bool)
    (h : operationNd f a nd flip = .ok r) : r.axes = a.axes := (C16.operationNd_spec f a r nd flip h).2

/-! ### joining (`Lib/Join.lean`) -/

theorem stack_attrs {α : Type} [Inhabited α] (nan : α) (arrays : List (DimArray α)) (axis : Option String)
    (keys : List Label) (kk : Kind) (doAlign sort : Bool) (r : DimArray α)
    (h : stack nan arrays axis keys kk doAlign sort = .ok r) : r.attrs = [] :=
  (C16.stack_spec' nan arrays axis keys kk doAlign sort r h).1

/-- `stack`: the new axis has no metadata; every other axis has the name and the metadata of an axis of one of the
inputs -/
theorem stack_axis_attrs {α : Type} [Inhabited α] (nan : α) (arrays : List (DimArray α)) (axis : Option String)
    (keys : List Label) (kk : Kind) (doAlign sort : Bool) (r : DimArray α)
    (h : stack nan arrays axis keys kk doAlign sort = .ok r) :
    ∃ (name : String) (rest : List Axis), r.axes = { name := name, labels := keys, kind := kk } :: rest ∧
      ∀ x ∈ rest, ∃ a ∈ arrays, ∃ y ∈ a.axes, AxisLe x y :=
  (C16.stack_spec' nan arrays axis keys kk doAlign sort r h).2

theorem concatenate_attrs {α : Type} (nan : α) (arrays : List (DimArray α)) (axis : DimKey) (doAlign sort : Bool)
    (r : DimArray α) (h : concatenate nan arrays axis doAlign sort = .ok r) : r.attrs = [] :=
  (C16.concatenate_spec' nan arrays axis doAlign sort r h).1

/-- `concatenate`: the concatenated axis is new, WITHOUT metadata; the other axes have the name and metadata of the
FIRST array's axes -/
theorem concatenate_axis_attrs {α : Type} (nan : α) (arrays : List (DimArray α)) (axis : DimKey) (doAlign sort : Bool)
    (r : DimArray α) (h : concatenate nan arrays axis doAlign sort = .ok r) :
    ∃ (a0 : DimArray α) (rest : List (DimArray α)) (pos : Nat), arrays = a0 :: rest ∧ pos < a0.axes.length ∧
      axisMeta r.axes = (axisMeta a0.axes).set pos ((a0.axes.getD pos default).name, []) ∧
      ((a0.axes.map (·.name)).Nodup → AxisAttrsKeptExcept (a0.axes.getD pos default).name a0.axes r.axes) := by
  obtain ⟨_, a0, rest, pos, h1, h2, h3⟩ := C16.concatenate_spec' nan arrays axis doAlign sort r h
  exact ⟨a0, rest, pos, h1, h2, h3, C16.keptExcept_of_set h3⟩

/-! ### along-axis transforms (`Lib/Transform.lean`, `Lib/Missing.lean`) -/

/-- reductions, any `axis=` (one dimension, or several collapsed into one first) -/
theorem reduceAxis_attrs {α : Type} (red : List α → α) (a r : DimArray α) (ax : AxisArg)
    (h : reduceAxis red a ax = .ok (.inr r)) : r.attrs = a.attrs := (C16.reduceAxis_spec red a r ax h).1

/-- every remaining axis is the very same axis of `a` (for one dimension: all but the reduced one, in order) -/
theorem reduceAxis_axis_attrs {α : Type} (red : List α → α) (a r : DimArray α) (ax : AxisArg)
    (h : reduceAxis red a ax = .ok (.inr r)) :
    (∀ x ∈ r.axes, x ∈ a.axes) ∧ ((a.axes.map (·.name)).Nodup → AxisAttrsKept a.axes r.axes) ∧
    (∀ k, ax = .one k → ∃ pos, pos < a.axes.length ∧ r.axes = a.axes.eraseIdx pos) := by
  refine ⟨(C16.reduceAxis_spec red a r ax h).2, C16.kept_of_mem (C16.reduceAxis_spec red a r ax h).2, ?_⟩
  rintro k rfl
  exact C16.reduceAxis_one red a r k h

theorem argAxis_attrs {α : Type} (pick : List α → List Label → α) (a r : DimArray α) (ax : AxisArg)
    (h : argAxis pick a ax = .ok (.inr r)) : r.attrs = a.attrs := (C16.argAxis_spec pick a r ax h).1

theorem argAxis_axis_attrs {α : Type} (pick : List α → List Label → α) (a r : DimArray α) (ax : AxisArg)
    (h : argAxis pick a ax = .ok (.inr r)) :
    (∀ x ∈ r.axes, x ∈ a.axes) ∧ ((a.axes.map (·.name)).Nodup → AxisAttrsKept a.axes r.axes) ∧
    (∀ k, ax = .one k → ∃ pos, pos < a.axes.length ∧ r.axes = a.axes.eraseIdx pos) := by
  refine ⟨(C16.argAxis_spec pick a r ax h).2, C16.kept_of_mem (C16.argAxis_spec pick a r ax h).2, ?_⟩
  rintro k rfl
  exact C16.argAxis_one pick a r k h

theorem cumAxis_attrs {α : Type} (scan : List α → α) (a r : DimArray α) (ax : AxisArg)
    (h : cumAxis scan a ax = .ok (.inr r)) : r.attrs = a.attrs := (C16.cumAxis_spec scan a r ax h).1

/-- cumulative transforms return the axes of the (possibly flattened, see `flatten_axis_attrs`) array; along one
dimension they are the axes of `a` -/
theorem cumAxis_axis_attrs {α : Type} (scan : List α → α) (a r : DimArray α) (ax : AxisArg)
    (h : cumAxis scan a ax = .ok (.inr r)) :
    (∃ o pos, dealWithAxis a ax = .ok (o, some pos) ∧ r.axes = o.axes) ∧ (∀ k, ax = .one k → r.axes = a.axes) := by
  obtain ⟨_, o, pos, hd, e⟩ := C16.cumAxis_spec scan a r ax h
  refine ⟨⟨o, pos, hd, e⟩, ?_⟩
  rintro k rfl
  rcases C16.dealWithAxis_spec a o _ _ hd with ⟨rfl, _, _⟩ | ⟨_, _, hk, _, _⟩
  · exact e
  · cases hk

theorem diff1_attrs {α : Type} (sub : α → α → α) (nan : α) (o r : DimArray α) (pos : Nat) (scheme : Scheme)
    (keepaxis : Bool) (h : diff1 sub nan o pos scheme keepaxis = .ok r) : r.attrs = o.attrs :=
  (C16.diff1_spec sub nan o r pos scheme keepaxis h).1

/-- one differencing step: the differenced axis keeps its name, and its metadata for the forward / backward
schemes; the `centered` scheme builds a new axis WITHOUT metadata -/
theorem diff1_axis_attrs {α : Type} (sub : α → α → α) (nan : α) (o r : DimArray α) (pos : Nat) (scheme : Scheme)
    (keepaxis : Bool) (h : diff1 sub nan o pos scheme keepaxis = .ok r) :
    ∃ newax : Axis, r.axes = o.axes.set pos newax ∧ newax.name = (o.axes.getD pos default).name ∧
      newax.attrs = if scheme = .centered then [] else (o.axes.getD pos default).attrs :=
  (C16.diff1_spec sub nan o r pos scheme keepaxis h).2

theorem diffAxis_attrs {α : Type} (sub : α → α → α) (nan : α) (a r : DimArray α) (ax : AxisArg) (scheme : Scheme)
    (keepaxis : Bool) (n : Nat) (h : diffAxis sub nan a ax scheme keepaxis n = .ok r) : r.attrs = a.attrs :=
  (C16.diffAxis_spec sub nan a r ax scheme keepaxis n h).1

/-- `diff` (any order `n`): names and metadata of the axes of the (possibly flattened) array, except that the
`centered` scheme drops the metadata of the differenced axis -/
theorem diffAxis_axis_attrs {α : Type} (sub : α → α → α) (nan : α) (a r : DimArray α) (ax : AxisArg) (scheme : Scheme)
    (keepaxis : Bool) (n : Nat) (h : diffAxis sub nan a ax scheme keepaxis n = .ok r) :
    ∃ o pos, dealWithAxis a ax = .ok (o, some pos) ∧ pos < o.axes.length ∧
      axisMeta r.axes = if scheme = .centered
        then (axisMeta o.axes).set pos ((o.axes.getD pos default).name, []) else axisMeta o.axes :=
  (C16.diffAxis_spec sub nan a r ax scheme keepaxis n h).2

theorem compressAxis_attrs {α : Type} (a r : DimArray α) (mask : List Bool) (k : DimKey)
    (h : compressAxis a mask k = .ok r) : r.attrs = a.attrs := (C16.compressAxis_spec a r mask k h).1

theorem compressAxis_axis_attrs {α : Type} (a r : DimArray α) (mask : List Bool) (k : DimKey)
    (h : compressAxis a mask k = .ok r) :
    axisMeta r.axes = axisMeta a.axes ∧ ((a.axes.map (·.name)).Nodup → AxisAttrsKept a.axes r.axes) :=
  ⟨(C16.compressAxis_spec a r mask k h).2, C16.kept_of_eq (C16.compressAxis_spec a r mask k h).2⟩

/-- `take_axis`, by label or by position, `mode='raise'` or `'clip'` -/
theorem takeAxis_attrs {α : Type} (a r : DimArray α) (ix : List Label) (k : DimKey) (mode : Mode) (clip : Bool)
    (h : takeAxis a ix k mode clip = .ok r) : r.attrs = a.attrs := (C16.takeAxis_spec a r ix k mode clip h).1

theorem takeAxis_axis_attrs {α : Type} (a r : DimArray α) (ix : List Label) (k : DimKey) (mode : Mode) (clip : Bool)
    (h : takeAxis a ix k mode clip = .ok r) :
    axisMeta r.axes = axisMeta a.axes ∧ ((a.axes.map (·.name)).Nodup → AxisAttrsKept a.axes r.axes) :=
  ⟨(C16.takeAxis_spec a r ix k mode clip h).2, C16.kept_of_eq (C16.takeAxis_spec a r ix k mode clip h).2⟩

theorem dropna_attrs {α : Type} (isnan : α → Bool) (a r : DimArray α) (k : DimKey) (mv : Option Nat)
    (h : dropna isnan a k mv = .ok r) : r.attrs = a.attrs := (C16.dropna_spec isnan a r k mv h).1

theorem dropna_axis_attrs {α : Type} (isnan : α → Bool) (a r : DimArray α) (k : DimKey) (mv : Option Nat)
    (h : dropna isnan a k mv = .ok r) :
    axisMeta r.axes = axisMeta a.axes ∧ ((a.axes.map (·.name)).Nodup → AxisAttrsKept a.axes r.axes) :=
  ⟨(C16.dropna_spec isnan a r k mv h).2, C16.kept_of_eq (C16.dropna_spec isnan a r k mv h).2⟩

theorem fillna_attrs {α : Type} (isnan : α → Bool) (a : DimArray α) (fill : α) (fk : Kind) :
    (fillna isnan a fill fk).attrs = a.attrs := rfl
theorem fillna_axis_attrs {α : Type} (isnan : α → Bool) (a : DimArray α) (fill : α) (fk : Kind) :
    (fillna isnan a fill fk).axes = a.axes := rfl
theorem setna_attrs {α : Type} (hit : List Nat → Bool) (nan : α) (a : DimArray α) : (setna hit nan a).attrs = a.attrs := rfl
theorem setna_axis_attrs {α : Type} (hit : List Nat → Bool) (nan : α) (a : DimArray α) : (setna hit nan a).axes = a.axes := rfl

/-! ### interpolation (`Lib/Interp.lean`) -/

theorem interpAxis_attrs {α : Type} [Inhabited α] (lin : α → α → Rat → α) (a r : DimArray α) (k : DimKey)
    (newL : List Label) (nk : Kind) (left right : α) (h : interpAxis lin a k newL nk left right = .ok r) :
    r.attrs = a.attrs := (C16.interpAxis_spec lin a r k newL nk left right h).1

/-- `interp_axis`: the interpolated axis is a NEW axis (`Axis(values, name)`): it keeps the name and LOSES its
metadata; the other axes keep theirs -/
theorem interpAxis_axis_attrs {α : Type} [Inhabited α] (lin : α → α → Rat → α) (a r : DimArray α) (k : DimKey)
    (newL : List Label) (nk : Kind) (left right : α) (h : interpAxis lin a k newL nk left right = .ok r) :
    ∃ pos, pos < a.axes.length ∧ axisMeta r.axes = (axisMeta a.axes).set pos ((a.axes.getD pos default).name, []) ∧
      ((a.axes.map (·.name)).Nodup → AxisAttrsKeptExcept (a.axes.getD pos default).name a.axes r.axes) := by
  obtain ⟨_, pos, h1, h2⟩ := C16.interpAxis_spec lin a r k newL nk left right h
  exact ⟨pos, h1, h2, C16.keptExcept_of_set h2⟩


/-! ### Dataset operations (`Lib/DatasetOps.lean`): Dataset-level metadata, the variables' metadata, and the metadata
of the operated axis -/

open DSV in
/-- `Dataset.__setitem__` keeps the Dataset's metadata and stores the variable with its own -/
theorem setItem_attrs {α : Type} (ds r : Ds α) (k : String) (v : DimArray α) (h : setItem ds k v = .ok r) :
    r.attrs = ds.attrs ∧ ∀ kv ∈ r.vars, kv ∈ ds.vars ∨ (kv.1 = k ∧ kv.2.attrs = v.attrs) :=
  ⟨(C16.setItem_spec ds r k v h).1, (C16.setItem_spec ds r k v h).2.2.2⟩

open DSV in
/-- `Dataset(dict)` starts without metadata; every variable keeps its own (through the alignment) -/
theorem fromVars_attrs {α : Type} (nan : α) (vars : List (String × DimArray α)) (r : Ds α) (h : fromVars nan vars = .ok r) :
    r.attrs = [] ∧ ∀ kv ∈ r.vars, ∃ kv0 ∈ vars, kv.2.attrs = kv0.2.attrs := C16.fromVars_spec nan vars r h

open DSV in
/-- `Dataset.reduce_axis(..., keepattrs=True, newaxis=...)`: Dataset and variable metadata kept; the operated axis is
exactly the axis that was passed -/
theorem reduceAxisKeep_attrs {α : Type} (ds r : Ds α) (name : String) (newAxis : Axis) (f : Nat → DimArray α → NDArr α)
    (hname : newAxis.name = name) (h : reduceAxisKeep ds name newAxis f = .ok r) :
    r.attrs = ds.attrs ∧ (∀ e ∈ r.axes, e.name = name → e = newAxis) ∧ (∃ e ∈ r.axes, e = newAxis) ∧
    (∀ kv ∈ r.vars, ∃ kv0 ∈ ds.vars, kv.2.attrs = kv0.2.attrs) := C16.reduceAxisKeep_spec ds r name newAxis f hname h

open DSV in
/-- `Dataset.take_axis` (by position): Dataset and variable metadata kept, and the taken AXIS comes back WITH the
metadata of the Dataset's axis of that name (`self.axes[axis].take(indices)`, `Axis.take`), as in `DimArray.take_axis`
(`takeAxis_axis_attrs`) -/
theorem takeAxisPosDs_attrs {α : Type} (ds r : Ds α) (name : String) (ps : List Nat) (h : takeAxisPosDs ds name ps = .ok r) :
    r.attrs = ds.attrs ∧
    (∀ e ∈ r.axes, e.name = name → ∃ ax, ds.axes.find? (·.name == name) = some ax ∧ e.attrs = ax.attrs) ∧
    (∃ e ∈ r.axes, e.name = name) ∧
    (∀ kv ∈ r.vars, ∃ kv0 ∈ ds.vars, kv.2.attrs = kv0.2.attrs) :=
  have hs := C16.takeAxisPosDs_spec ds r name ps h
  ⟨hs.1, hs.2.1, hs.2.2.1, hs.2.2.2.2⟩

open DSV in
/-- ... and every axis of the result that has the name of an axis of the Dataset has that axis' metadata -/
theorem takeAxisPosDs_axis_attrs {α : Type} (ds r : Ds α) (name : String) (ps : List Nat)
    (h : takeAxisPosDs ds name ps = .ok r) : (ds.axes.map (·.name)).Nodup → AxisAttrsKept ds.axes r.axes :=
  C16.kept_of_known (C16.takeAxisPosDs_spec ds r name ps h).2.2.2.1

open DSV in
theorem takeAxisLabel_attrs {α : Type} (ds r : Ds α) (name : String) (labels : List Label) (clip : Bool)
    (h : takeAxisLabel ds name labels clip = .ok r) :
    r.attrs = ds.attrs ∧
    (∀ e ∈ r.axes, e.name = name → ∃ ax, ds.axes.find? (·.name == name) = some ax ∧ e.attrs = ax.attrs) ∧
    (∃ e ∈ r.axes, e.name = name) ∧
    (∀ kv ∈ r.vars, ∃ kv0 ∈ ds.vars, kv.2.attrs = kv0.2.attrs) :=
  have hs := C16.takeAxisLabel_spec ds r name labels clip h
  ⟨hs.1, hs.2.1, hs.2.2.1, hs.2.2.2.2⟩

open DSV in
theorem takeAxisLabel_axis_attrs {α : Type} (ds r : Ds α) (name : String) (labels : List Label) (clip : Bool)
    (h : takeAxisLabel ds name labels clip = .ok r) : (ds.axes.map (·.name)).Nodup → AxisAttrsKept ds.axes r.axes :=
  C16.kept_of_known (C16.takeAxisLabel_spec ds r name labels clip h).2.2.2.1

open DSV in
/-- `Dataset.sort_axis`: the sorted axis keeps its metadata -/
theorem sortAxisDs_attrs {α : Type} (ds r : Ds α) (name : String) (h : sortAxisDs ds name = .ok r) :
    r.attrs = ds.attrs ∧
    (∀ e ∈ r.axes, e.name = name → ∃ ax, ds.axes.find? (·.name == name) = some ax ∧ e.attrs = ax.attrs) ∧
    (∃ e ∈ r.axes, e.name = name) ∧
    (∀ kv ∈ r.vars, ∃ kv0 ∈ ds.vars, kv.2.attrs = kv0.2.attrs) :=
  have hs := C16.sortAxisDs_spec ds r name h
  ⟨hs.1, hs.2.1, hs.2.2.1, hs.2.2.2.2⟩

open DSV in
theorem sortAxisDs_axis_attrs {α : Type} (ds r : Ds α) (name : String) (h : sortAxisDs ds name = .ok r) :
    (ds.axes.map (·.name)).Nodup → AxisAttrsKept ds.axes r.axes :=
  C16.kept_of_known (C16.sortAxisDs_spec ds r name h).2.2.2.1

open DSV in
/-- `Dataset.reindex_axis`: the reindexed axis keeps its metadata, also when labels that did not match are written
into it (as `reindexAxis_axis_attrs`) -/
theorem reindexAxisDs_attrs {α : Type} (ds r : Ds α) (name : String) (newL : List Label) (nk : Kind) (fill : α) (fk : Kind)
    (h : reindexAxisDs ds name newL nk fill fk = .ok r) :
    r.attrs = ds.attrs ∧
    (∀ e ∈ r.axes, e.name = name → ∃ ax, ds.axes.find? (·.name == name) = some ax ∧ e.attrs = ax.attrs) ∧
    (∃ e ∈ r.axes, e.name = name) ∧
    (∀ kv ∈ r.vars, ∃ kv0 ∈ ds.vars, kv.2.attrs = kv0.2.attrs) :=
  have hs := C16.reindexAxisDs_spec ds r name newL nk fill fk h
  ⟨hs.1, hs.2.1, hs.2.2.1, hs.2.2.2.2⟩

open DSV in
theorem reindexAxisDs_axis_attrs {α : Type} (ds r : Ds α) (name : String) (newL : List Label) (nk : Kind) (fill : α)
    (fk : Kind) (h : reindexAxisDs ds name newL nk fill fk = .ok r) :
    (ds.axes.map (·.name)).Nodup → AxisAttrsKept ds.axes r.axes :=
  C16.kept_of_known (C16.reindexAxisDs_spec ds r name newL nk fill fk h).2.2.2.1

open DSV in
/-- `Dataset.mean / sum / ...` (`_apply_dimarray_axis` returns `Dataset(d)`): the Dataset's metadata is DROPPED -/
theorem applyAxis_attrs {α : Type} (nan : α) (ds r : Ds α) (name : String) (f : DimArray α → Except Err (DimArray α))
    (h : applyAxis nan ds name f = .ok r) : r.attrs = [] := C16.applyAxis_spec nan ds r name f h

open DSV in
/-- `Dataset.take`: Dataset and variable metadata kept -/
theorem takeDs_attrs {α : Type} (ds r : Ds α) (name : String) (ix : Ix) (cfg : IndexCfg) (h : takeDs ds name ix cfg = .ok r) :
    r.attrs = ds.attrs ∧ ∀ kv ∈ r.vars, ∃ kv0 ∈ ds.vars, kv.2.attrs = kv0.2.attrs := C16.takeDs_spec ds r name ix cfg h


/-! ### mirror functions added later (`Lib/Reduce`, `Lib/DatasetOps2`, `Lib/DatasetOps3`, `Lib/Missing2`) -/

/-- `_unary_op` (`-a`, `abs(a)`, `~a`): the array metadata is DROPPED (`_constructor(func(values), axes)`) ... -/
theorem unaryOp_attrs {α : Type} (u : α → α) (a : DimArray α) : (unaryOp u a).attrs = [] := rfl

/-- ... and the axes (with their metadata) are the array's own -/
theorem unaryOp_axis_attrs {α : Type} (u : α → α) (a : DimArray α) : (unaryOp u a).axes = a.axes := rfl

/-- the exception is needed: an array with metadata loses it -/
theorem unaryOp_attrs_counterexample : (unaryOp (fun x => x) exArr).attrs = [] ∧
    ¬ ∀ (a : DimArray Nat), (unaryOp (fun x => x) a).attrs = a.attrs := by
  refine ⟨rfl, fun h => ?_⟩
  have := h { exArr with attrs := [("title", 5)] }
  exact absurd this (by decide)

/-- reductions on concrete data (`a.sum(axis)`, `a.nanmean(axis)`, ... with NumPy's refusals): metadata kept -/
theorem reduceX_attrs (f : List XVal → Except Err XVal) (a r : DimArray XVal) (ax : AxisArg)
    (h : reduceX f a ax = .ok (.inr r)) : r.attrs = a.attrs :=
  reduceAxis_attrs (totalize f) a r ax (C16.reduceX_ok f a ax _ h)

theorem reduceX_axis_attrs (f : List XVal → Except Err XVal) (a r : DimArray XVal) (ax : AxisArg)
    (h : reduceX f a ax = .ok (.inr r)) :
    (∀ x ∈ r.axes, x ∈ a.axes) ∧ ((a.axes.map (·.name)).Nodup → AxisAttrsKept a.axes r.axes) ∧
    (∀ k, ax = .one k → ∃ pos, pos < a.axes.length ∧ r.axes = a.axes.eraseIdx pos) :=
  reduceAxis_axis_attrs (totalize f) a r ax (C16.reduceX_ok f a ax _ h)

/-- `sort_axis(axis, key=)`: array metadata kept, every axis keeps name and metadata -/
theorem sortAxisKey_attrs {α : Type} (a r : DimArray α) (axis : DimKey) (key : Label → Except Err Label)
    (h : sortAxisKey a axis key = .ok r) : r.attrs = a.attrs := by
  obtain ⟨pos, ps, rfl⟩ := C16.sortAxisKey_ok a r axis key h
  rfl

theorem sortAxisKey_axis_attrs {α : Type} (a r : DimArray α) (axis : DimKey) (key : Label → Except Err Label)
    (h : sortAxisKey a axis key = .ok r) :
    axisMeta r.axes = axisMeta a.axes ∧ ((a.axes.map (·.name)).Nodup → AxisAttrsKept a.axes r.axes) := by
  obtain ⟨pos, ps, rfl⟩ := C16.sortAxisKey_ok a r axis key h
  exact takeAxisPos_axis_attrs a pos ps

/-- `take_axis(indices, axis, indexing='position', mode=)`: array metadata kept, every axis keeps name and metadata -/
theorem takeAxisInts_attrs {α : Type} (a r : DimArray α) (k : DimKey) (is : List Int) (mode : TakeMode)
    (h : takeAxisInts a k is mode = .ok r) : r.attrs = a.attrs := by
  obtain ⟨pos, ps, rfl⟩ := C16.takeAxisInts_ok a r k is mode h
  rfl

theorem takeAxisInts_axis_attrs {α : Type} (a r : DimArray α) (k : DimKey) (is : List Int) (mode : TakeMode)
    (h : takeAxisInts a k is mode = .ok r) :
    axisMeta r.axes = axisMeta a.axes ∧ ((a.axes.map (·.name)).Nodup → AxisAttrsKept a.axes r.axes) := by
  obtain ⟨pos, ps, rfl⟩ := C16.takeAxisInts_ok a r k is mode h
  exact takeAxisPos_axis_attrs a pos ps

/-- N-d boolean `compress`: array metadata kept, whether the result is an array (rank 1) or has the axis of
label tuples (rank ≠ 1) -/
theorem compressNd_attrs {α : Type} (a : DimArray α) (mask : NDArr Bool) :
    (∀ r, compressNd a mask = .ok (.inl r) → r.attrs = a.attrs) ∧
    (∀ t, compressNd a mask = .ok (.inr t) → t.attrs = a.attrs) := by
  constructor
  · intro r h
    unfold compressNd at h
    split at h
    · cases h
    · split at h
      · cases h
      · split at h
        · cases hc : compressAxis a ((List.range (mask.shape.getD 0 0)).map fun i => mask.get [i]) (.pos 0) with
          | error e => rw [hc] at h; cases h
          | ok r' =>
            rw [hc] at h
            simp only [Except.map, Except.ok.injEq, Sum.inl.injEq] at h
            subst h
            exact compressAxis_attrs a r' _ _ hc
        · cases h
  · intro t h
    unfold compressNd at h
    split at h
    · cases h
    · split at h
      · cases h
      · split at h
        · cases hc : compressAxis a ((List.range (mask.shape.getD 0 0)).map fun i => mask.get [i]) (.pos 0) with
          | error e => rw [hc] at h; cases h
          | ok r' => rw [hc] at h; cases h
        · simp only [Except.ok.injEq, Sum.inr.injEq] at h
          subst h
          rfl

/-- N-d boolean `compress`, axes: rank 1 keeps the axis' name and metadata (`compress_axis`); for any other rank the
result has ONE fresh axis of label tuples named after all dimensions - the axis metadata of the input is DROPPED
(`TupleArr` has no field for it: `getaxes_broadcast` builds `Axis(tuples, ",".join(dims))`) -/
theorem compressNd_axis_attrs {α : Type} (a : DimArray α) (mask : NDArr Bool) :
    (∀ r, compressNd a mask = .ok (.inl r) →
      a.ndim = 1 ∧ axisMeta r.axes = axisMeta a.axes ∧ ((a.axes.map (·.name)).Nodup → AxisAttrsKept a.axes r.axes)) ∧
    (∀ t, compressNd a mask = .ok (.inr t) → a.ndim ≠ 1 ∧ t.name = ",".intercalate a.dims) := by
  constructor
  · intro r h
    unfold compressNd at h
    split at h
    · cases h
    · split at h
      · cases h
      · split at h
        · rename_i h1
          cases hc : compressAxis a ((List.range (mask.shape.getD 0 0)).map fun i => mask.get [i]) (.pos 0) with
          | error e => rw [hc] at h; cases h
          | ok r' =>
            rw [hc] at h
            simp only [Except.map, Except.ok.injEq, Sum.inl.injEq] at h
            subst h
            exact ⟨by simpa using h1, compressAxis_axis_attrs a r' _ _ hc⟩
        · cases h
  · intro t h
    unfold compressNd at h
    split at h
    · cases h
    · split at h
      · cases h
      · split at h
        · cases hc : compressAxis a ((List.range (mask.shape.getD 0 0)).map fun i => mask.get [i]) (.pos 0) with
          | error e => rw [hc] at h; cases h
          | ok r' => rw [hc] at h; cases h
        · rename_i h1
          simp only [Except.ok.injEq, Sum.inr.injEq] at h
          subst h
          exact ⟨by simpa using h1, rfl⟩

open DSV in
/-- `Dataset._unary_op` (`-ds`): a fresh Dataset - Dataset metadata DROPPED, every variable's metadata DROPPED -/
theorem unaryOpDs_attrs {α : Type} (u : α → α) (ds r : Ds α) (h : unaryOpDs u ds = .ok r) :
    r.attrs = [] ∧ ∀ kv ∈ r.vars, kv.2.attrs = [] := by
  have := C16.foldlM_setItem_noattrs (fun kv => .ok (unaryOp u kv.2)) (by intro kv v hv; cases hv; rfl) ds.vars {} r h
  refine ⟨this.1, fun kv hkv => ?_⟩
  rcases this.2 kv hkv with h0 | h0
  · cases h0
  · exact h0

open DSV in
/-- `Dataset._rbinary_op` (`3 - ds`): Dataset metadata DROPPED, every variable's metadata DROPPED -/
theorem rbinaryOpDs_attrs {α : Type} (f : α → α → α) (ds r : Ds α) (lhs : Operand α) (h : rbinaryOpDs f ds lhs = .ok r) :
    r.attrs = [] ∧ ∀ kv ∈ r.vars, kv.2.attrs = [] := by
  unfold rbinaryOpDs at h
  split at h
  · rename_i c
    have := C16.foldlM_setItem_noattrs (fun kv => operationNd f kv.2 { shape := [], get := fun _ => c } true)
      (by intro kv v hv; exact operationNd_attrs f kv.2 v _ true hv) ds.vars {} r h
    refine ⟨this.1, fun kv hkv => ?_⟩
    rcases this.2 kv hkv with h0 | h0
    · cases h0
    · exact h0
  · cases h

open DSV in
/-- `Dataset.take_axis(indices, axis, indexing='position', mode=)`: Dataset and variable metadata kept, the operated
axis keeps the Dataset axis' metadata -/
theorem takeAxisIntsDs_attrs {α : Type} (ds r : Ds α) (axis : DimKey) (is : List Int) (mode : TakeMode)
    (h : takeAxisIntsDs ds axis is mode = .ok r) :
    r.attrs = ds.attrs ∧ (∀ kv ∈ r.vars, ∃ kv0 ∈ ds.vars, kv.2.attrs = kv0.2.attrs) ∧
    ((ds.axes.map (·.name)).Nodup → AxisAttrsKept ds.axes r.axes) := by
  unfold takeAxisIntsDs at h
  simp only [bind, Except.bind] at h
  split at h
  · cases h
  · split at h
    · cases h
    · split at h
      · cases h
      · rename_i name _ _ _ ps _
        have hs := takeAxisPosDs_attrs ds r _ _ h
        exact ⟨hs.1, hs.2.2.2, takeAxisPosDs_axis_attrs ds r _ _ h⟩

/-! ### the remaining Dataset mirrors (helpers: `Proofs/C16Ds2.lean`) -/

open DSV in
/-- `stack_ds` (with or without `align=`): a fresh Dataset - Dataset metadata DROPPED (the inputs' are not consulted),
every variable's metadata DROPPED (`stack`); without alignment every axis has no metadata (the new axis) or the name
and metadata of an axis of a variable of one of the inputs -/
theorem stackDsA_attrs {α : Type} [Inhabited α] (nan : α) (datasets : List (Ds α)) (axis : Option String)
    (keys : List Label) (keyKind : Kind) (doAlign : Bool) (join : Join) (sort : Bool) (r : Ds α)
    (h : stackDsA nan datasets axis keys keyKind doAlign join sort = .ok r) :
    r.attrs = [] ∧ ∀ kv ∈ r.vars, kv.2.attrs = [] :=
  ⟨(C16.stackDsA_spec nan datasets axis keys keyKind doAlign join sort r h).1,
   (C16.stackDsA_spec nan datasets axis keys keyKind doAlign join sort r h).2.1⟩

open DSV in
theorem stackDsA_axis_attrs {α : Type} [Inhabited α] (nan : α) (datasets : List (Ds α)) (axis : Option String)
    (keys : List Label) (keyKind : Kind) (join : Join) (sort : Bool) (r : Ds α)
    (h : stackDsA nan datasets axis keys keyKind false join sort = .ok r) : ∀ e ∈ r.axes, C16.FromVarAxis datasets e :=
  (C16.stackDsA_spec nan datasets axis keys keyKind false join sort r h).2.2 rfl

open DSV in
/-- `concatenate_ds` (with or without `align=`): Dataset and variable metadata DROPPED; without alignment every axis
has no metadata (the concatenated one) or the name and metadata of an axis of a variable of one of the inputs -/
theorem concatenateDsA_attrs {α : Type} (nan : α) (datasets : List (Ds α)) (axis : DimKey) (doAlign : Bool) (join : Join)
    (sort : Bool) (r : Ds α) (h : concatenateDsA nan datasets axis doAlign join sort = .ok r) :
    r.attrs = [] ∧ ∀ kv ∈ r.vars, kv.2.attrs = [] :=
  ⟨(C16.concatenateDsA_spec nan datasets axis doAlign join sort r h).1,
   (C16.concatenateDsA_spec nan datasets axis doAlign join sort r h).2.1⟩

open DSV in
theorem concatenateDsA_axis_attrs {α : Type} (nan : α) (datasets : List (Ds α)) (axis : DimKey) (join : Join)
    (sort : Bool) (r : Ds α) (h : concatenateDsA nan datasets axis false join sort = .ok r) :
    ∀ e ∈ r.axes, C16.FromVarAxis datasets e :=
  (C16.concatenateDsA_spec nan datasets axis false join sort r h).2.2 rfl

open DSV in
/-- `Dataset.mean()` … without an axis: `Dataset(dict)` - Dataset metadata DROPPED; a variable keeps its own
(`DimArray.<reduction>` keeps it) or has none (scalar result wrapped by `DimArray(scalar)`) -/
theorem reduceAllDs_attrs {α : Type} (nan : α) (red : List α → α) (ds r : Ds α) (h : reduceAllDs nan red ds = .ok r) :
    r.attrs = [] ∧ ∀ kv ∈ r.vars, kv.2.attrs = [] ∨ ∃ kv0 ∈ ds.vars, kv.2.attrs = kv0.2.attrs :=
  C16.reduceAllDs_spec nan red ds r h

open DSV in
/-- `Dataset.mean(axis=name)` …: as `reduceAllDs`; variables without the dimension keep theirs -/
theorem reduceDs_attrs {α : Type} (nan : α) (red : List α → α) (ds r : Ds α) (name : String)
    (h : reduceDs nan red ds name = .ok r) :
    r.attrs = [] ∧ ∀ kv ∈ r.vars, kv.2.attrs = [] ∨ ∃ kv0 ∈ ds.vars, kv.2.attrs = kv0.2.attrs :=
  C16.reduceDs_spec nan red ds r name h

open DSV in
/-- `Dataset._binary_op` (`ds + 1`, `ds1 * ds2`): Dataset and variable metadata DROPPED -/
theorem binaryOpDs_attrs {α : Type} (nan : α) (f : α → α → α) (self r : Ds α) (rhs : Operand α)
    (h : binaryOpDs nan f self rhs = .ok r) : r.attrs = [] ∧ ∀ kv ∈ r.vars, kv.2.attrs = [] :=
  ⟨(C16.binaryOpDs_spec nan f self r rhs h).1, (C16.binaryOpDs_spec nan f self r rhs h).2.1⟩

open DSV in
/-- axis metadata is KEPT by Dataset arithmetic: every axis of the result has no metadata or the (name, metadata) pair
of an axis (or grouped-axis member) of a variable of one of the two operands -/
theorem binaryOpDs_axis_attrs {α : Type} (nan : α) (f : α → α → α) (self r : Ds α) (rhs : Operand α)
    (h : binaryOpDs nan f self rhs = .ok r) :
    ∀ e ∈ r.axes, e.attrs = [] ∨ ∃ ds, (ds = self ∨ rhs = .ds ds) ∧ ∃ kv ∈ ds.vars, (e.name, e.attrs) ∈ metaAll kv.2.axes :=
  (C16.binaryOpDs_spec nan f self r rhs h).2.2

open DSV in
theorem stackDs_attrs {α : Type} [Inhabited α] (nan : α) (datasets : List (Ds α)) (axis : Option String)
    (keys : List Label) (keyKind : Kind) (r : Ds α) (h : stackDs nan datasets axis keys keyKind = .ok r) :
    r.attrs = [] ∧ ∀ kv ∈ r.vars, kv.2.attrs = [] :=
  ⟨(C16.stackDs_spec nan datasets axis keys keyKind r h).1, (C16.stackDs_spec nan datasets axis keys keyKind r h).2.1⟩

open DSV in
theorem stackDs_axis_attrs {α : Type} [Inhabited α] (nan : α) (datasets : List (Ds α)) (axis : Option String)
    (keys : List Label) (keyKind : Kind) (r : Ds α) (h : stackDs nan datasets axis keys keyKind = .ok r) :
    ∀ e ∈ r.axes, C16.FromVarAxis datasets e := (C16.stackDs_spec nan datasets axis keys keyKind r h).2.2

open DSV in
theorem concatenateDs_attrs {α : Type} (nan : α) (datasets : List (Ds α)) (axis : DimKey) (r : Ds α)
    (h : concatenateDs nan datasets axis = .ok r) : r.attrs = [] ∧ ∀ kv ∈ r.vars, kv.2.attrs = [] :=
  ⟨(C16.concatenateDs_spec nan datasets axis r h).1, (C16.concatenateDs_spec nan datasets axis r h).2.1⟩

open DSV in
theorem concatenateDs_axis_attrs {α : Type} (nan : α) (datasets : List (Ds α)) (axis : DimKey) (r : Ds α)
    (h : concatenateDs nan datasets axis = .ok r) : ∀ e ∈ r.axes, C16.FromVarAxis datasets e :=
  (C16.concatenateDs_spec nan datasets axis r h).2.2

open DSV in
/-- `Dataset.reindex_like`: Dataset and variable metadata kept -/
theorem reindexLikeDs_attrs {α : Type} (nan : α) (ds r : Ds α) (tmpl : List Axis) (h : reindexLikeDs nan ds tmpl = .ok r) :
    r.attrs = ds.attrs ∧ ∀ kv ∈ r.vars, ∃ kv0 ∈ ds.vars, kv.2.attrs = kv0.2.attrs := C16.reindexLikeDs_spec nan ds r tmpl h

open DSV in
/-- `Dataset.copy()`: the Dataset metadata written onto the fresh Dataset (`Attrs.update [] ds.attrs`), the variables
keep theirs -/
theorem copyDs_attrs {α : Type} (nan : α) (ds r : Ds α) (h : copyDs nan ds = .ok r) :
    r.attrs = Attrs.update [] ds.attrs ∧ ∀ kv ∈ r.vars, ∃ kv0 ∈ ds.vars, kv.2.attrs = kv0.2.attrs :=
  C16.copyDs_spec nan ds r h

/-! ### wave 5: the remaining Dataset mirrors (helpers: Proofs/C16Ds2.lean) -/

open DSV in
/-- `Dataset.reindex_axis(values, axis, fill_value, raise_error, method)` in full: as `reindexAxisDs_attrs` - Dataset
and variable metadata kept, the reindexed axis keeps the Dataset axis' metadata, for every `raise_error` / `method` -/
theorem reindexAxisDsM_attrs {α : Type} (ds r : Ds α) (name : String) (newL : List Label) (nk : Kind) (fill : α) (fk : Kind)
    (raiseErr : Bool) (method : Option Side) (h : reindexAxisDsM ds name newL nk fill fk raiseErr method = .ok r) :
    r.attrs = ds.attrs ∧
    (∀ e ∈ r.axes, e.name = name → ∃ ax, ds.axes.find? (·.name == name) = some ax ∧ e.attrs = ax.attrs) ∧
    (∃ e ∈ r.axes, e.name = name) ∧
    (∀ kv ∈ r.vars, ∃ kv0 ∈ ds.vars, kv.2.attrs = kv0.2.attrs) :=
  have hs := C16.reindexAxisDsM_spec ds r name newL nk fill fk raiseErr method h
  ⟨hs.1, hs.2.1, hs.2.2.1, hs.2.2.2.2⟩

open DSV in
theorem reindexAxisDsM_axis_attrs {α : Type} (ds r : Ds α) (name : String) (newL : List Label) (nk : Kind) (fill : α)
    (fk : Kind) (raiseErr : Bool) (method : Option Side)
    (h : reindexAxisDsM ds name newL nk fill fk raiseErr method = .ok r) :
    (ds.axes.map (·.name)).Nodup → AxisAttrsKept ds.axes r.axes :=
  C16.kept_of_known (C16.reindexAxisDsM_spec ds r name newL nk fill fk raiseErr method h).2.2.2.1

open OnDisk DSV in
/-- `DatasetOnDisk.read(names, indices)`: the FILE's metadata becomes the Dataset's; every variable read carries the
metadata of a variable of the file -/
theorem readFile_attrs {α : Type} (d : α) (f : DiskDs α) (names : Option (List String)) (idx : Option FileIndex) (r : Ds α)
    (h : readFile d f names idx = .ok r) :
    r.attrs = f.attrs ∧ ∀ kv ∈ r.vars, ∃ kv0 ∈ f.vars, kv.2.attrs = kv0.2.attrs := C16.readFile_spec d f names idx r h

open OnDisk DSV in
/-- `_read_multinc` (`read_nc` of several files): the joined Dataset is fresh (`stack_ds` / `concatenate_ds`, then
possibly `reindex_axis`) - Dataset metadata DROPPED, every variable's metadata DROPPED -/
theorem readMulti_attrs {α : Type} [Inhabited α] (d nan : α) (files : List (DiskDs α)) (names : Option (List String))
    (idx : Option FileIndex) (o : MultiOpts) (defaultKeys : List Label) (r : Ds α)
    (h : readMulti d nan files names idx o defaultKeys = .ok r) : r.attrs = [] ∧ ∀ kv ∈ r.vars, kv.2.attrs = [] :=
  C16.readMulti_spec d nan files names idx o defaultKeys r h

open DSV in
/-- `Dataset.interp_axis`: Dataset and variable metadata kept; the interpolated axis exists in the result and comes
back WITHOUT metadata (as `interpAxis_axis_attrs`) -/
theorem interpAxisDs_attrs {α : Type} [Inhabited α] (lin : α → α → Rat → α) (ds r : Ds α) (name : String)
    (newL : List Label) (nk : Kind) (left right : α) (h : interpAxisDs lin ds name newL nk left right = .ok r) :
    r.attrs = ds.attrs ∧ (∀ kv ∈ r.vars, ∃ kv0 ∈ ds.vars, kv.2.attrs = kv0.2.attrs) ∧
    (∀ e ∈ r.axes, e.name = name → e.attrs = []) ∧ (∃ e ∈ r.axes, e.name = name) :=
  C16.interpAxisDs_spec lin ds r name newL nk left right h

/-- `interp_like`: the array's metadata kept -/
theorem interpLike_attrs {α : Type} [Inhabited α] (lin : α → α → Rat → α) (a r : DimArray α) (tmpl : List Axis)
    (left right : α) (h : interpLike lin a tmpl left right = .ok r) : r.attrs = a.attrs :=
  C16.interpLike_spec lin a r tmpl left right h

open DSV in
/-- `Dataset.interp_like`: Dataset and variable metadata kept -/
theorem interpLikeDs_attrs {α : Type} [Inhabited α] (lin : α → α → Rat → α) (ds r : Ds α) (tmpl : List Axis)
    (left right : α) (h : interpLikeDs lin ds tmpl left right = .ok r) :
    r.attrs = ds.attrs ∧ ∀ kv ∈ r.vars, ∃ kv0 ∈ ds.vars, kv.2.attrs = kv0.2.attrs :=
  C16.interpLikeDs_spec lin ds r tmpl left right h

open DSV in
/-- `Dataset.mean(axis=None)` …: every axis of the result carries the name and metadata of an axis of a variable of the
input (`Dataset(dict)` re-assembles the axes from the values) -/
theorem reduceAllDs_axis_attrs {α : Type} (nan : α) (red : List α → α) (ds r : Ds α)
    (h : reduceAllDs nan red ds = .ok r) : ∀ e ∈ r.axes, C16.VarAxisOf ds e := C16.reduceAllDs_axes nan red ds r h

open DSV in
theorem reduceDs_axis_attrs {α : Type} (nan : α) (red : List α → α) (ds r : Ds α) (name : String)
    (h : reduceDs nan red ds name = .ok r) : ∀ e ∈ r.axes, C16.VarAxisOf ds e := C16.reduceDs_axes nan red ds r name h

open DSV in
/-- `Dataset.copy()`: every axis of the copy carries the name and metadata of an axis of a variable of the input -/
theorem copyDs_axis_attrs {α : Type} (nan : α) (ds r : Ds α) (h : copyDs nan ds = .ok r) :
    ∀ e ∈ r.axes, C16.VarAxisOf ds e := C16.copyDs_axes nan ds r h

open DSV in
/-- `-ds`: every axis of the result IS an axis of a variable of the input (metadata included) -/
theorem unaryOpDs_axis_attrs {α : Type} (u : α → α) (ds r : Ds α) (h : unaryOpDs u ds = .ok r) :
    ∀ e ∈ r.axes, ∃ kv ∈ ds.vars, e ∈ kv.2.axes := C16.unaryOpDs_axes u ds r h

open DSV in
/-- `3 - ds`: every axis of the result IS an axis of a variable of the input (metadata included) -/
theorem rbinaryOpDs_axis_attrs {α : Type} (f : α → α → α) (ds r : Ds α) (lhs : Operand α)
    (h : rbinaryOpDs f ds lhs = .ok r) : ∀ e ∈ r.axes, ∃ kv ∈ ds.vars, e ∈ kv.2.axes := C16.rbinaryOpDs_axes f ds r lhs h

/-! ### non-vacuity: the success hypotheses on concrete arrays that carry array-level and axis-level metadata,
and the exact metadata of the results where an axis LOSES or CHANGES its metadata -/

/-- 3-d test array (x: 3 unsorted numeric labels, y: 2 numeric labels, z: 1 string label); every axis and the array
carry metadata -/
def exC16 : DimArray Int :=
  { axes := [{ name := "x", labels := [.num 3, .num 1, .num 2], kind := .i, attrs := [("units", 1)] },
             { name := "y", labels := [.num 10, .num 20], kind := .f, attrs := [("long_name", 2)] },
             { name := "z", labels := [.str "a"], kind := .U, attrs := [("note", 3)] }]
    vals := { shape := [3, 2, 1], get := fun j => (ravel [3, 2, 1] j : Nat) }
    attrs := [("title", 5)] }

/-- a second array over the same dimensions with other labels along `x` and other metadata -/
def exC16b : DimArray Int :=
  { axes := [{ name := "x", labels := [.num 4, .num 5], kind := .i, attrs := [("units", 7)] },
             { name := "y", labels := [.num 10, .num 20], kind := .f, attrs := [("long_name", 8)] },
             { name := "z", labels := [.str "a"], kind := .U }]
    vals := { shape := [2, 2, 1], get := fun j => (ravel [2, 2, 1] j : Nat) }
    attrs := [("title", 6)] }

theorem exC16_wf : exC16.WF := ⟨rfl, by decide, by decide⟩
theorem exC16_nodup : (exC16.axes.map (·.name)).Nodup := by decide

theorem ok_of_toBool {β : Type} {x : Except Err β} (h : x.toBool = true) : ∃ r, x = .ok r := by
  cases x with
  | error e => cases h
  | ok r => exact ⟨r, rfl⟩

/-- indexing by a dict, one scalar: `y` is dropped, `x` and `z` keep their metadata -/
example : ∃ r, take exC16 (.dict [(.name "y", .scalar (.num 20))]) {} = .ok r ∧ r.attrs = [("title", 5)] ∧
    AxisAttrsKept exC16.axes r.axes := by
  obtain ⟨r, h⟩ := ok_of_toBool (x := take exC16 (.dict [(.name "y", .scalar (.num 20))]) {}) (by decide)
  exact ⟨r, h, take_attrs _ _ _ _ h, (take_axis_attrs _ _ _ _ h).2 exC16_nodup⟩

/-- position mode with `keepdims` -/
example : ∃ r, take exC16 (.axisArg (.scalar (.num 1)) (.pos 0)) { indexing := some .position, keepdims := true } = .ok r ∧
    r.attrs = [("title", 5)] ∧ AxisAttrsKept exC16.axes r.axes := by
  obtain ⟨r, h⟩ := ok_of_toBool
    (x := take exC16 (.axisArg (.scalar (.num 1)) (.pos 0)) { indexing := some .position, keepdims := true }) (by decide)
  exact ⟨r, h, take_attrs _ _ _ _ h, (take_axis_attrs _ _ _ _ h).2 exC16_nodup⟩

example : ∃ r, put exC16 (.dict [(.name "x", .scalar (.num 1))]) (.scalar 0) .i {} false = .ok r ∧
    r.attrs = [("title", 5)] ∧ r.axes = exC16.axes := by
  obtain ⟨r, h⟩ := ok_of_toBool (x := put exC16 (.dict [(.name "x", .scalar (.num 1))]) (.scalar 0) .i {} false) (by decide)
  exact ⟨r, h, put_attrs _ _ _ _ _ _ _ h, put_axis_attrs _ _ _ _ _ _ _ h⟩

/-- reindexing `x` onto labels of which one is new: all three axes keep their metadata (success:
`reindexAxis_succeeds`, C07 - the kernel cannot evaluate the `mergeSort` inside `locate_many`) -/
example : ∃ r, reindexAxis exC16 (.name "x") [.num 1, .num 7] .i (-1) .i false none = .ok r ∧
    r.attrs = [("title", 5)] ∧
    axisMeta r.axes = [("x", [("units", 1)]), ("y", [("long_name", 2)]), ("z", [("note", 3)])] := by
  obtain ⟨r, h⟩ := reindexAxis_succeeds exC16 (.name "x") 0 [.num 1, .num 7] .i .i (-1) none rfl (Or.inl (by decide))
  exact ⟨r, h, reindexAxis_attrs _ _ _ _ _ _ _ _ _ h, (reindexAxis_axis_attrs _ _ _ _ _ _ _ _ _ h).1⟩

example : ∃ r, sortAxis exC16 (.name "x") = .ok r ∧ r.attrs = [("title", 5)] ∧ AxisAttrsKept exC16.axes r.axes := by
  obtain ⟨r, h⟩ := ok_of_toBool (x := sortAxis exC16 (.name "x")) (by decide)
  exact ⟨r, h, sortAxis_attrs _ _ _ h, (sortAxis_axis_attrs _ _ _ h).2 exC16_nodup⟩

example : ∃ r, transpose exC16 (some [.name "z", .pos 0, .pos (-2)]) = .ok r ∧ r.attrs = [("title", 5)] ∧
    r.axes.Perm exC16.axes := by
  obtain ⟨r, h⟩ := ok_of_toBool (x := transpose exC16 (some [.name "z", .pos 0, .pos (-2)])) (by decide)
  exact ⟨r, h, transpose_attrs _ _ _ h, (transpose_axis_attrs _ _ _ h).1⟩

example : ∃ r, swapaxes exC16 (.name "x") (.pos (-1)) = .ok r ∧ r.attrs = [("title", 5)] ∧ r.axes.Perm exC16.axes := by
  obtain ⟨r, h⟩ := ok_of_toBool (x := swapaxes exC16 (.name "x") (.pos (-1))) (by decide)
  exact ⟨r, h, swapaxes_attrs _ _ _ _ h, (swapaxes_axis_attrs _ _ _ _ h).1⟩

example : ∃ r, rollaxis exC16 (.name "z") 0 = .ok r ∧ r.attrs = [("title", 5)] ∧ r.axes.Perm exC16.axes := by
  obtain ⟨r, h⟩ := ok_of_toBool (x := rollaxis exC16 (.name "z") 0) (by decide)
  exact ⟨r, h, rollaxis_attrs _ _ _ _ h, (rollaxis_axis_attrs _ _ _ _ h).1⟩

example : ∃ r, newaxis exC16 "t" (-1) none = .ok r ∧ r.attrs = [("title", 5)] ∧ AxisAttrsKept exC16.axes r.axes := by
  obtain ⟨r, h⟩ := ok_of_toBool (x := newaxis exC16 "t" (-1) none) (by decide)
  exact ⟨r, h, newaxis_attrs _ _ _ _ _ h, (newaxis_axis_attrs _ _ _ _ _ h).2.2 exC16_nodup⟩

example : ∃ r, squeeze exC16 none = .ok r ∧ r.attrs = [("title", 5)] ∧ r.axes.Sublist exC16.axes := by
  obtain ⟨r, h⟩ := ok_of_toBool (x := squeeze exC16 none) (by decide)
  exact ⟨r, h, squeeze_attrs _ _ _ h, (squeeze_axis_attrs _ _ _ h).1⟩

example : ∃ r, flatten exC16 ["z", "x"] none = .ok r ∧ r.attrs = [("title", 5)] := by
  obtain ⟨r, h⟩ := ok_of_toBool (x := flatten exC16 ["z", "x"] none) (by decide)
  exact ⟨r, h, flatten_attrs _ _ _ _ h⟩

/-- the grouped axis has no metadata, its members have theirs -/
theorem flatten_example :
    ((flatten exC16 ["z", "x"] none).toOption.map fun r => metaAll r.axes) =
      some [("y", [("long_name", 2)]), ("z,x", []), ("z", [("note", 3)]), ("x", [("units", 1)])] := by decide

example : ∃ r, reduceAxis (fun l => l.sum) exC16 (.one (.pos (-2))) = .ok (.inr r) ∧ r.attrs = [("title", 5)] ∧
    AxisAttrsKept exC16.axes r.axes := by
  have : ∃ r, reduceAxis (fun l => l.sum) exC16 (.one (.pos (-2))) = .ok (.inr r) := ⟨_, rfl⟩
  obtain ⟨r, h⟩ := this
  exact ⟨r, h, reduceAxis_attrs _ _ _ _ h, (reduceAxis_axis_attrs _ _ _ _ h).2.1 exC16_nodup⟩

/-- reduction over two dimensions at once (collapsed into one grouped axis first) -/
example : ∃ r, reduceAxis (fun l => l.sum) exC16 (.many [.name "y", .name "x"]) = .ok (.inr r) ∧
    r.attrs = [("title", 5)] ∧ AxisAttrsKept exC16.axes r.axes := by
  have : ∃ r, reduceAxis (fun l => l.sum) exC16 (.many [.name "y", .name "x"]) = .ok (.inr r) := ⟨_, rfl⟩
  obtain ⟨r, h⟩ := this
  exact ⟨r, h, reduceAxis_attrs _ _ _ _ h, (reduceAxis_axis_attrs _ _ _ _ h).2.1 exC16_nodup⟩

example : ∃ r, cumAxis (fun l => l.sum) exC16 (.one (.name "y")) = .ok (.inr r) ∧ r.attrs = [("title", 5)] ∧
    r.axes = exC16.axes := by
  have : ∃ r, cumAxis (fun l => l.sum) exC16 (.one (.name "y")) = .ok (.inr r) := ⟨_, rfl⟩
  obtain ⟨r, h⟩ := this
  exact ⟨r, h, cumAxis_attrs _ _ _ _ h, (cumAxis_axis_attrs _ _ _ _ h).2 _ rfl⟩

example : ∃ r, diffAxis (· - ·) 0 exC16 (.one (.name "x")) .forward true 2 = .ok r ∧ r.attrs = [("title", 5)] := by
  obtain ⟨r, h⟩ := ok_of_toBool (x := diffAxis (· - ·) 0 exC16 (.one (.name "x")) .forward true 2) (by decide)
  exact ⟨r, h, diffAxis_attrs _ _ _ _ _ _ _ _ h⟩

example : ∃ r, takeAxis exC16 [.num (-1), .num 0] (.name "x") .position false = .ok r ∧ r.attrs = [("title", 5)] ∧
    AxisAttrsKept exC16.axes r.axes := by
  obtain ⟨r, h⟩ := ok_of_toBool (x := takeAxis exC16 [.num (-1), .num 0] (.name "x") .position false) (by decide)
  exact ⟨r, h, takeAxis_attrs _ _ _ _ _ _ h, (takeAxis_axis_attrs _ _ _ _ _ _ h).2 exC16_nodup⟩

example : ∃ r, takeAxis exC16 [.num 1, .num 9] (.name "x") .label true = .ok r ∧ r.attrs = [("title", 5)] ∧
    AxisAttrsKept exC16.axes r.axes := by
  obtain ⟨r, h⟩ := ok_of_toBool (x := takeAxis exC16 [.num 1, .num 9] (.name "x") .label true) (by decide)
  exact ⟨r, h, takeAxis_attrs _ _ _ _ _ _ h, (takeAxis_axis_attrs _ _ _ _ _ _ h).2 exC16_nodup⟩

example : ∃ r, compressAxis exC16 [true, false, true] (.name "x") = .ok r ∧ r.attrs = [("title", 5)] ∧
    AxisAttrsKept exC16.axes r.axes := by
  obtain ⟨r, h⟩ := ok_of_toBool (x := compressAxis exC16 [true, false, true] (.name "x")) (by decide)
  exact ⟨r, h, compressAxis_attrs _ _ _ _ h, (compressAxis_axis_attrs _ _ _ _ h).2 exC16_nodup⟩

example : ∃ r, dropna (· == 0) exC16 (.name "x") none = .ok r ∧ r.attrs = [("title", 5)] ∧
    AxisAttrsKept exC16.axes r.axes := by
  obtain ⟨r, h⟩ := ok_of_toBool (x := dropna (· == 0) exC16 (.name "x") none) (by decide)
  exact ⟨r, h, dropna_attrs _ _ _ _ _ h, (dropna_axis_attrs _ _ _ _ _ h).2 exC16_nodup⟩

/-- arithmetic: the array's metadata is dropped, no foreign axis metadata appears (success: C04) -/
example : ∃ r k1 k2, operation (-1) (· + ·) exC16 exC16b = .ok (r, k1, k2) ∧ r.attrs = [] ∧
    ∀ p ∈ metaAll r.axes, p.2 = [] ∨ p ∈ metaAll exC16.axes ∨ p ∈ metaAll exC16b.axes := by
  obtain ⟨r, k1, k2, h⟩ := operation_same_dims_succeeds (-1) (· + ·) exC16 exC16b
    (by unfold AlignInput exC16; decide) (by unfold AlignInput exC16b; decide) rfl
  exact ⟨r, k1, k2, h, operation_attrs _ _ _ _ _ h, operation_axis_attrs _ _ _ _ _ h⟩

/-! #### where an axis loses or changes its metadata (exact results, by evaluation) -/

/-- `interp_axis`: the interpolated axis `y` comes back WITHOUT its metadata; the array and the other axes keep theirs -/
theorem interpAxis_example :
    ((interpAxis (fun a b _ => a + b) exC16 (.name "y") [.num 15] .f 0 0).toOption.map fun r => (r.attrs, axisMeta r.axes)) =
      some ([("title", 5)], [("x", [("units", 1)]), ("y", []), ("z", [("note", 3)])]) := by decide

/-- hence the by-name rule is FALSE for `interp_axis` without the exception of the interpolated axis -/
theorem interpAxis_axis_attrs_counterexample :
    ∃ r, interpAxis (fun a b _ => a + b) exC16 (.name "y") [.num 15] .f 0 0 = .ok r ∧ ¬ AxisAttrsKept exC16.axes r.axes := by
  obtain ⟨r, h⟩ := ok_of_toBool (x := interpAxis (fun a b _ => a + b) exC16 (.name "y") [.num 15] .f 0 0) (by decide)
  refine ⟨r, h, ?_⟩
  have hm := interpAxis_example
  rw [h] at hm
  simp only [Except.toOption, Option.map_some, Option.some.injEq, Prod.mk.injEq] at hm
  intro hk
  have hy : ("y", ([] : Attrs)) ∈ axisMeta r.axes := by rw [hm.2]; decide
  obtain ⟨ax', hax', hn, ha⟩ := C16.mem_axisMeta.mp hy
  have := hk ax' hax' (exC16.axes.getD 1 default) (by decide) (by rw [hn]; rfl)
  rw [ha] at this
  exact absurd this (by decide)

/-- `repeat`: the repeated axis `z` carries the metadata of the axis given as `values`, not its own -/
theorem repeatAxis_example :
    ((repeatAxis exC16 { name := "w", labels := [.num 1, .num 2], kind := .i, attrs := [("new", 9)] } (.name "z")).toOption.map
        fun r => (r.attrs, axisMeta r.axes)) =
      some ([("title", 5)], [("x", [("units", 1)]), ("y", [("long_name", 2)]), ("z", [("new", 9)])]) := by decide

/-- `diff(scheme='centered')`: the differenced axis loses its metadata -/
theorem diffAxis_centered_example :
    ((diffAxis (· - ·) 0 exC16 (.one (.name "x")) .centered false 1).toOption.map fun r => (r.attrs, axisMeta r.axes)) =
      some ([("title", 5)], [("x", []), ("y", [("long_name", 2)]), ("z", [("note", 3)])]) := by decide

/-- `concatenate`: no array metadata; the concatenated axis has none, the others have the first array's -/
theorem concatenate_example :
    ((concatenate (-1) [exC16, exC16b] (.name "x") false false).toOption.map fun r => (r.attrs, axisMeta r.axes)) =
      some ([], [("x", []), ("y", [("long_name", 2)]), ("z", [("note", 3)])]) := by decide

/-- `stack`: no array metadata; the new axis has none, the others keep theirs -/
theorem stack_example :
    ((stack (-1) [exC16, exC16] none [.str "p", .str "q"] .U false false).toOption.map fun r => (r.attrs, axisMeta r.axes)) =
      some ([], [("unnamed", []), ("x", [("units", 1)]), ("y", [("long_name", 2)]), ("z", [("note", 3)])]) := by decide

/-- a broadcast target over the same dimensions whose `z` axis has two labels and its own metadata -/
def exC16Target : List Axis :=
  [exC16.axes.getD 0 default, exC16.axes.getD 1 default,
   { name := "z", labels := [.str "p", .str "q"], kind := .U, attrs := [("tgt", 4)] }]

/-- `broadcast`: the repeated axis `z` carries NO metadata - the Python code calls
`newobj.repeat(newaxis.values, axis=newaxis.name)` (core/reshape.py, `broadcast`), the labels only, so that the
repeated axis is a fresh `Axis(values, name)` (observed: `('z', {})`): neither the target's `("tgt", 4)` nor the
`("note", 3)` of `a`'s own singleton axis. -/
theorem broadcast_example :
    ((broadcast exC16 exC16Target).toOption.map fun r => (r.attrs, axisMeta r.axes)) =
      some ([("title", 5)], [("x", [("units", 1)]), ("y", [("long_name", 2)]), ("z", [])]) := by decide

/-- `Axis.intersection` with an empty axis forgets the metadata; `Axis.union` of an EMPTY axis with another one
returns the other one's -/
theorem intersection_empty_example :
    (intersection (exC16.axes.getD 0 default) { name := "x", labels := [], kind := .i }).attrs = [] := by decide
theorem union_empty_example :
    (union { name := "x", labels := [], kind := .i, attrs := [("mine", 1)] } (exC16.axes.getD 0 default)).attrs =
      [("units", 1)] := by decide

/-- a Dataset with Dataset-, variable- and axis-level metadata -/
def exC16Ds : DSV.Ds Nat :=
  { axes := [{ name := "x", labels := [.num 10, .num 20], kind := .i, attrs := [("units", 1)] }],
    vars := [("v", { axes := [{ name := "x", labels := [.num 10, .num 20], kind := .i, attrs := [("units", 1)] }],
                     vals := { shape := [2], get := fun j => 7 + j.getD 0 0 }, vkind := .i, attrs := [("vnote", 2)] })],
    attrs := [("title", 5)] }

/-- non-vacuity of `unaryOpDs_axis_attrs` / `copyDs_axis_attrs`: the operations succeed on `exC16Ds`; `-ds` drops the
Dataset and variable metadata and keeps the axis', `copy()` keeps everything -/
example : ((DSV.unaryOpDs (· + 1) exC16Ds).toOption.map fun r =>
      (r.attrs, axisMeta r.axes, r.vars.map fun kv => (kv.1, kv.2.attrs))) =
    some ([], [("x", [("units", 1)])], [("v", [])]) := by rfl
example : ((DSV.copyDs 0 exC16Ds).toOption.map fun r =>
      (r.attrs, axisMeta r.axes, r.vars.map fun kv => (kv.1, kv.2.attrs))) =
    some ([("title", 5)], [("x", [("units", 1)])], [("v", [("vnote", 2)])]) := by rfl

/-!
## Summary: metadata propagation of every modelled operation

`kept` = the result's array metadata equals the input's; `dropped` = it is `[]`.  Axis column: what happens to the
metadata of the axes (by name).  Every entry is a theorem of this file (or the one named).

| Lib function                       | array attrs | theorem                 | axis attrs                                                   | theorem                          |
|------------------------------------|-------------|-------------------------|--------------------------------------------------------------|----------------------------------|
| `take` (all index forms)           | kept        | `take_attrs`            | surviving axes keep theirs (sublist, in order)               | `take_axis_attrs`                |
| `put`                              | kept        | `put_attrs`             | same axes                                                    | `put_axis_attrs`                 |
| `putBool`                          | kept        | `putBool_attrs`         | same axes                                                    | `putBool_axis_attrs`             |
| `takeAxisPos`                      | kept        | `takeAxisPos_attrs`     | all kept                                                     | `takeAxisPos_axis_attrs`         |
| `reindexAxis`                      | kept        | `reindexAxis_attrs`     | all kept, the reindexed axis included                        | `reindexAxis_axis_attrs`         |
| `reindexLike`                      | kept        | `reindexLike_attrs`     | all kept (own metadata, never the template's)                | `reindexLike_axis_attrs`         |
| `sortAxis`                         | kept        | `sortAxis_attrs`        | all kept                                                     | `sortAxis_axis_attrs`            |
| `union` (Axis)                     | -           |                         | `self`'s; an empty `self` returns `other`'s                  | `union_axis_attrs`               |
| `intersection` (Axis)              | -           |                         | `self`'s; DROPPED when one of the two is empty               | `intersection_axis_attrs`        |
| `commonAxis`                       | -           |                         | one of the inputs', or none                                  | `commonAxis_axis_attrs`          |
| `align`                            | kept (each) | `align_attrs`           | every array keeps its own (the common axis' are not used)    | `align_axis_attrs`               |
| `transposeBy`                      | kept        | `transposeBy_attrs` C10 | same axes, permuted                                          | `transposeBy_axis_attrs`         |
| `transpose`                        | kept        | `transpose_attrs`       | same axes, permuted                                          | `transpose_axis_attrs`           |
| `swapaxes`                         | kept        | `swapaxes_attrs`        | same axes, permuted                                          | `swapaxes_axis_attrs`            |
| `rollaxis`                         | kept        | `rollaxis_attrs`        | same axes, permuted                                          | `rollaxis_axis_attrs`            |
| `repeatAxis`                       | kept        | `repeatAxis_attrs`      | repeated axis takes the NEW axis' metadata; others kept      | `repeatAxis_axis_attrs`          |
| `newaxis`                          | kept        | `newaxis_attrs`         | old axes kept; new axis: none (or that of `values`)          | `newaxis_axis_attrs`             |
| `squeeze`                          | kept        | `squeeze_attrs`         | remaining axes are the same axes                             | `squeeze_axis_attrs`             |
| `unflattenAt`                      | kept        | `unflattenAt_attrs`     | members come back with theirs; the group's own is dropped    | `unflattenAt_axis_attrs`         |
| `unflattenAll`                     | kept        | `unflattenAll_attrs`    | every axis is an axis of `a` or a member of a group of `a`   | `unflattenAll_axis_attrs`        |
| `flatten`                          | kept        | `flatten_attrs`         | others same; group: none; members keep theirs                | `flatten_axis_attrs`             |
| `reshape`                          | kept        | `reshape_attrs`         | no foreign metadata; plain case: surviving axes are the same | `reshape_axis_attrs`, `reshape_plain_axis_attrs` |
| `alignDims`                        | kept (each) | `alignDims_attrs`       | as `reshape`, array by array                                 | `alignDims_axis_attrs`           |
| `broadcast`                        | kept        | `broadcast_attrs`       | `a`'s or none; plain case: replaced (fresh axis, NO metadata) only if repeated, see `broadcast_example` | `broadcast_axis_attrs`, `broadcast_plain_axis_attrs` |
| `broadcastArrays`                  | kept (each) | `broadcastArrays_attrs` | (as `broadcast`)                                             |                                  |
| `operation` (DimArray, DimArray)   | DROPPED     | `operation_attrs`       | KEPT: pairs of `a` or `b` (or none), nothing foreign         | `operation_axis_attrs`           |
| `operationNd` (scalar / ndarray)   | DROPPED     | `operationNd_attrs`     | same axes                                                    | `operationNd_axis_attrs`         |
| `stack`                            | DROPPED     | `stack_attrs`           | new axis: none; the others: those of an input's axis         | `stack_axis_attrs`               |
| `concatenate`                      | DROPPED     | `concatenate_attrs`     | concatenated axis: DROPPED; the others: the first array's    | `concatenate_axis_attrs`         |
| `reduceAxis` (any `axis=`)         | kept        | `reduceAxis_attrs`      | remaining axes are the same axes                             | `reduceAxis_axis_attrs`          |
| `argAxis`                          | kept        | `argAxis_attrs`         | remaining axes are the same axes                             | `argAxis_axis_attrs`             |
| `cumAxis`                          | kept        | `cumAxis_attrs`         | same axes (of the flattened array for several dimensions)    | `cumAxis_axis_attrs`             |
| `diff1`, `diffAxis`                | kept        | `diffAxis_attrs`        | kept; `centered` scheme DROPS that of the differenced axis   | `diff1_axis_attrs`, `diffAxis_axis_attrs` |
| `compressAxis`                     | kept        | `compressAxis_attrs`    | all kept                                                     | `compressAxis_axis_attrs`        |
| `takeAxis` (label / position)      | kept        | `takeAxis_attrs`        | all kept                                                     | `takeAxis_axis_attrs`            |
| `dropna`                           | kept        | `dropna_attrs`          | all kept                                                     | `dropna_axis_attrs`              |
| `fillna`, `setna`                  | kept        | `fillna_attrs`, `setna_attrs` | same axes                                              | `fillna_axis_attrs`, `setna_axis_attrs` |
| `interpAxis`                       | kept        | `interpAxis_attrs`      | interpolated axis: DROPPED; others kept                      | `interpAxis_axis_attrs`, `interpAxis_axis_attrs_counterexample` |
| `DSV.setItem`                      | kept (Dataset), variable keeps its own | `setItem_attrs` |                                       |                                  |
| `DSV.fromVars` (`Dataset(dict)`)   | `[]` (new Dataset), variables keep theirs | `fromVars_attrs` |                                   |                                  |
| `DSV.reduceAxisKeep`               | kept (Dataset and variables) | `reduceAxisKeep_attrs` | operated axis = the axis passed in                   | `reduceAxisKeep_attrs`           |
| `DSV.takeAxisPosDs`, `takeAxisLabel` | kept (Dataset and variables) | `takeAxisPosDs_attrs`, `takeAxisLabel_attrs` | operated axis: KEPT (the Dataset axis'); all kept by name | same, `takeAxisPosDs_axis_attrs`, `takeAxisLabel_axis_attrs` |
| `DSV.sortAxisDs`                   | kept (Dataset and variables) | `sortAxisDs_attrs` | operated axis: KEPT; all kept by name                   | same, `sortAxisDs_axis_attrs`    |
| `DSV.reindexAxisDs`                | kept (Dataset and variables) | `reindexAxisDs_attrs` | operated axis: KEPT (also when new labels are written); all kept by name | same, `reindexAxisDs_axis_attrs` |
| `DSV.applyAxis` (`Dataset.mean` …) | Dataset metadata DROPPED | `applyAxis_attrs`  |                                                              |                                  |
| `DSV.takeDs`                       | kept (Dataset and variables) | `takeDs_attrs` |                                                              |                                  |
| `unaryOp` (`-a`, `abs(a)`)         | DROPPED     | `unaryOp_attrs`, `unaryOp_attrs_counterexample` | same axes                            | `unaryOp_axis_attrs`             |
| `reduceX` (reductions on concrete data, with refusals) | kept | `reduceX_attrs` | remaining axes are the same axes                          | `reduceX_axis_attrs`             |
| `sortAxisKey` (`sort_axis(key=)`)  | kept        | `sortAxisKey_attrs`     | all kept                                                     | `sortAxisKey_axis_attrs`         |
| `takeAxisInts` (`take_axis` by position, `mode=`) | kept | `takeAxisInts_attrs` | all kept                                                   | `takeAxisInts_axis_attrs`        |
| `compressNd`                       | kept        | `compressNd_attrs`      | rank 1: kept; any other rank: ONE fresh axis of label tuples, input axis metadata DROPPED | `compressNd_axis_attrs` |
| `DSV.unaryOpDs` (`-ds`)            | DROPPED (Dataset and variables) | `unaryOpDs_attrs` | KEPT: every axis IS an axis of a variable of the input | `unaryOpDs_axis_attrs`           |
| `DSV.rbinaryOpDs` (`3 - ds`)       | DROPPED (Dataset and variables) | `rbinaryOpDs_attrs` | KEPT: every axis IS an axis of a variable of the input | `rbinaryOpDs_axis_attrs`         |
| `DSV.takeAxisIntsDs`               | kept (Dataset and variables) | `takeAxisIntsDs_attrs` | all kept by name                                     | `takeAxisIntsDs_attrs`           |
| `DSV.stackDsA`, `DSV.stackDs` (`stack_ds`) | DROPPED (Dataset and variables) | `stackDsA_attrs`, `stackDs_attrs` | without `align=`: none (new axis) or the pair of an axis of a variable of an input | `stackDsA_axis_attrs`, `stackDs_axis_attrs` |
| `DSV.concatenateDsA`, `DSV.concatenateDs` (`concatenate_ds`) | DROPPED (Dataset and variables) | `concatenateDsA_attrs`, `concatenateDs_attrs` | without `align=`: none (concatenated axis) or the pair of an axis of a variable of an input | `concatenateDsA_axis_attrs`, `concatenateDs_axis_attrs` |
| `DSV.reduceAllDs`, `DSV.reduceDs` (`Dataset.mean` …) | Dataset DROPPED; variable: kept, or none (scalar result) | `reduceAllDs_attrs`, `reduceDs_attrs` | name and metadata of an axis of a variable of the input | `reduceAllDs_axis_attrs`, `reduceDs_axis_attrs` |
| `DSV.binaryOpDs` (`ds + 1`, `ds1 * ds2`) | DROPPED (Dataset and variables) | `binaryOpDs_attrs` | KEPT: none, or a pair of an axis of a variable of an operand | `binaryOpDs_axis_attrs`          |
| `DSV.reindexLikeDs`                | kept (Dataset and variables) | `reindexLikeDs_attrs` |                                                       |                                  |
| `DSV.copyDs`                       | Dataset: rewritten onto a fresh Dataset (`Attrs.update []`); variables kept | `copyDs_attrs` | name and metadata of an axis of a variable of the input | `copyDs_axis_attrs`              |
| `DSV.reindexAxisDsM` (`raise_error`, `method`) | kept (Dataset and variables) | `reindexAxisDsM_attrs` | operated axis: KEPT; all kept by name                | same, `reindexAxisDsM_axis_attrs` |
| `OnDisk.readFile`                  | the FILE's; variables: those of the file's variables | `readFile_attrs` |                                             |                                  |
| `OnDisk.readMulti`                 | DROPPED (Dataset and variables) | `readMulti_attrs` |                                                   |                                  |
| `DSV.interpAxisDs`                 | kept (Dataset and variables) | `interpAxisDs_attrs` | interpolated axis: DROPPED                               | `interpAxisDs_attrs`             |
| `interpLike`                       | kept        | `interpLike_attrs`      |                                                              |                                  |
| `DSV.interpLikeDs`                 | kept (Dataset and variables) | `interpLikeDs_attrs` |                                                        |                                  |

Mirror functions that return an array / Dataset and have NO pair yet (decided by the direct sweep of harness/props/c16.py only):
`DatasetCtor.construct` (a state machine over axis identities without a metadata field); no axis half yet: `stackDsA` /
`concatenateDsA` with `align=True` (the axes of the ALIGNED Datasets are not traced back to the inputs), `reindexLikeDs`
(needs "`reindex_axis` keeps the Dataset's dimensions", which holds for well-formed Datasets only), `readFile`, `readMulti`,
the axes other than the interpolated one of `interpAxisDs` / `interpLike` / `interpLikeDs`.  Operations of the sweep without
any mirror: broadcast (pointwise) indexing `take(..., broadcast=True)`, the `attrs` property setter / deleter,
`Axis.__getitem__` with ndarray / boolean keys.
-/

end DimModel

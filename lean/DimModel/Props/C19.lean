/-
C19 - property theorems: serialisation round trips (JSON, netCDF store).
-/
import DimModel.Lib.Serial
import DimModel.Proofs.C19
namespace DimModel
open Serial

/-! ### JSON -/

set_option linter.unusedVariables false in  -- `hsc` is not needed by the proof (kept: it is how `nest` is used)
/-- flattening the nested lists that `nest` builds gives the cells back -/
theorem flat_nest (s : List Nat) (l : List JVal) (hlen : l.length = prod s) (hsc : l.all isScalar = true) :
    flat s.length (nest s l) = l := by
  exact flat_nest_aux s l hlen

set_option linter.unusedVariables false in  -- `hsc` is not needed by the proof
/-- the shape inferred from the nested lists is the array's shape (when no zero-length dimension
hides the ones after it) -/
theorem inferShape_nest (s : List Nat) (l : List JVal) (hlen : l.length = prod s)
    (hz : s.dropLast.all (· != 0) = true) (hsc : l.all isScalar = true) :
    inferShape s.length (nest s l) = s := by
  exact inferShape_nest_aux s l hlen hz

/-- **JSON round trip**: `from_json(to_json(a))` restores values (NaN included), dims, labels and
metadata of every representable array -/
theorem json_roundtrip (a : JArr) (h : Representable a) : fromJson (toJson a) = some a := by
  obtain ⟨hlen, _, hd, hl, _, hz⟩ := h
  obtain ⟨shape, cells, dims, labels, metad⟩ := a
  simp only at hlen hd hl hz
  have e1 : ("values" == "dims") = false := by decide
  have e2 : ("values" == "labels") = false := by decide
  have e3 : ("values" == "meta") = false := by decide
  have e4 : ("dims" == "labels") = false := by decide
  have e5 : ("dims" == "meta") = false := by decide
  have e6 : ("labels" == "meta") = false := by decide
  have e7 : ("shape" == "meta") = false := by decide
  have e8 : ("ndim" == "meta") = false := by decide
  simp only [toJson, fromJson, field, List.find?_cons, e1, e2, e3, e4, e5, e6, e7, e8, BEq.rfl,
    Option.map_some]
  rw [filterMap_map_some JVal.str _ (fun _ => rfl), filterMap_map_some JVal.arr _ (fun _ => rfl)]
  simp only [List.length_map, hd, inferShape_nest_aux shape cells hlen hz,
    flat_nest_aux shape cells hlen, hl, bne_self_eq_false, Bool.or_self, Bool.false_eq_true, if_false]

/-! ### netCDF store -/

/-- writing a dataset into an empty store and reading it back restores the axes (names, labels, kind,
axis metadata, in order), the variables (keys, dimension names and order, values, kind, variable
metadata, in order) and the dataset metadata -/
theorem nc_roundtrip (ds : DsVal) (h : ds.WF) : readDs (writeDs NcStore.empty ds) = ds := by
  obtain ⟨hax, hkeys, hdisj, _⟩ := h
  obtain ⟨axes, vars, attrs⟩ := ds
  simp only at hax hkeys hdisj
  have hw : writeDs NcStore.empty ⟨axes, vars, attrs⟩ =
      { dims := axes.map axDim, vars := axes.map axVar ++ vars.map mkVar, attrs := attrs } := by
    simp only [writeDs]
    rw [foldl_appendAxis axes _ hax (by simp [NcStore.empty])]
    rw [foldl_writeVar vars _ hkeys]
    · simp [NcStore.empty]
    · intro v hv w hw
      simp only [NcStore.empty, List.nil_append, List.mem_map] at hw
      obtain ⟨ax, hmem, rfl⟩ := hw
      exact fun e => hdisj v hv ax hmem e.symm
  rw [hw]
  simp only [readDs]
  congr 1
  · apply filterMap_map_some'
    intro ax hmem
    simp only [axDim, List.find?_append, find_axVar axes hax ax hmem, Option.some_or, Option.map_some]
    rfl
  · rw [List.filter_append]
    have h1 : (axes.map axVar).filter (fun v => !(axes.map axDim).any (·.1 == v.name)) = [] := by
      simp only [List.filter_eq_nil_iff, List.mem_map]
      rintro _ ⟨ax, hmem, rfl⟩
      simp only [Bool.not_eq_true, Bool.not_eq_false', List.any_eq_true, List.mem_map]
      exact ⟨_, ⟨ax, hmem, rfl⟩, by simp [axDim, axVar]⟩
    have h2 : (vars.map mkVar).filter (fun v => !(axes.map axDim).any (·.1 == v.name)) = vars.map mkVar := by
      simp only [List.filter_eq_self, List.mem_map]
      rintro _ ⟨v, hmem, rfl⟩
      simp only [Bool.not_eq_true', List.any_eq_false, List.mem_map, beq_iff_eq]
      rintro _ ⟨ax, hm, rfl⟩
      exact fun e => hdisj v hmem ax hm e.symm
    rw [h1, h2, List.nil_append, List.map_map]
    conv => rhs; rw [← List.map_id vars]
    exact List.map_congr_left (fun v _ => rfl)

/-- appending a new variable (mode 'a') to a store keeps what was already there: every variable
that was in the store before is still there, unchanged -/
theorem nc_append_keeps (st : NcStore) (v : DsVar) (hnew : ¬ st.vars.any (·.name == v.key) = true) :
    ∀ w ∈ st.vars, w ∈ (writeVar st v).vars := by
  intro w hw
  simp only [writeVar, if_neg hnew, List.mem_append]
  exact Or.inl hw

/-- ... and the dimensions are untouched by writing a variable -/
theorem nc_writeVar_dims (st : NcStore) (v : DsVar) : (writeVar st v).dims = st.dims := by
  unfold writeVar
  split <;> rfl

/-- non-vacuity -/
example : Representable { shape := [2, 1], cells := [.num 1, .nan], dims := ["x", "y"],
                          labels := [[.str "a", .str "b"], [.num 5]], metad := [("units", .str "K")] } := by
  refine ⟨rfl, rfl, rfl, rfl, ?_, rfl⟩
  intro l hl
  simp only [List.mem_cons, List.not_mem_nil, or_false] at hl
  rcases hl with rfl | rfl <;> rfl

end DimModel

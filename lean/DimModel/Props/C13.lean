import DimModel.Lib.Dataset
namespace DimModel
end DimModel

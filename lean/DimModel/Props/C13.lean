/-
C13 - property theorems: a Dataset's variables always share the Dataset's axes, after any
sequence of mutations (invariant by induction over the operation list).

FINDING (K-C13): `inv_step` / `inv_reachable` as originally stated are FALSE for the model:
`renameAxis` / `setDims` / `renameViaVar` may give two dataset axes the same name, and a later
`setVar` that replaces a variable then leaves the variable's old axis object in `ds.axes` although
no variable uses it (its *name* is among the new value's dims, so it is not "obsolete", but the new
value was given the *first* axis of that name).  Concrete run from the empty dataset:
  setVar "j" [("x",[],i)]; setVar "k" [("y",[],i)]; renameAxis (name "y") "x"; setVar "k" [("x",[],i)]
ends in axes = [⟨0,"x"⟩, ⟨1,"x"⟩], vars = [("j",[0]), ("k",[0])]: axis 1 is neither direct nor used
(conjunct 3 of `Inv` fails).  See `inv_step_counterexample`, `inv_reachable_counterexample` below.
Every operation other than `setVar` preserves `Inv` unconditionally, and `setVar` does whenever the
dataset's axis names are pairwise distinct (`SetVarOK`, defined in DimModel/Proofs/C13.lean).
-/
import DimModel.Proofs.C13
namespace DimModel
open DS

/-- the empty dataset satisfies the invariant -/
theorem inv_init : Inv init := by
  refine ⟨?_, ?_, ?_, ?_, ?_⟩ <;> simp [init]

/- ORIGINAL STATEMENT (false, see the header and `inv_step_counterexample`):
theorem inv_step (s : State) (op : Op) (h : Inv s) : Inv (step s op).1
-/
/-- every mutation - including rejected ones - preserves the shared-axes invariant, provided a
`setVar` is only applied when the dataset's axis names are pairwise distinct
(`SetVarOK s op` is `NamesNodup s` for `op = .setVar ..` and `True` for the nine other operations) -/
theorem inv_step_partial (s : State) (op : Op) (h : Inv s) (hok : SetVarOK s op) : Inv (step s op).1 := by
  cases op with
  | setVar key axs =>
    rw [step_setVar]
    split
    · exact h
    · split
      · exact h
      · exact inv_setVarBody s key axs h (fun ax hm _ => findAxis_of_mem hok hm)
  | delVar key =>
    simp only [step]
    split
    · exact h
    · rename_i v hf; exact inv_delVar s key v h hf
  | renameAxis d new =>
    simp only [step]
    split
    · exact h
    · split
      · exact h
      · exact inv_modify s _ _ (fun _ => rfl) h
  | setDims names =>
    simp only [step]
    split
    · exact h
    · split
      · exact h
      · rename_i hlen _
        refine inv_of_shape h (map_zip_eq _ _ (fun _ _ => rfl) _ _ ?_) rfl rfl
        simpa using hlen
  | setLabel d i l lk =>
    simp only [step]
    split
    · exact h
    · split
      · split
        · exact h
        · exact inv_modify s _ _ (fun _ => rfl) h
      · split
        · exact h
        · exact inv_modify s _ _ (fun _ => rfl) h
  | setLabels d ls lk =>
    simp only [step]
    split
    · exact h
    · split
      · exact h
      · exact inv_modify s _ _ (fun _ => rfl) h
  | replaceAxis d ls lk =>
    simp only [step]
    split
    · exact h
    · split
      · exact h
      · rename_i p hp _
        exact inv_replaceAxis s p (axisIndex_lt hp) ls lk h
  | renameKey old new =>
    simp only [step]
    split
    · exact h
    · split
      · exact h
      · rename_i v hf hne
        exact inv_renameKey s old new v h hf (by simpa using hne) _ rfl
  | appendAxis name ls lk =>
    simp only [step]
    split
    · exact h
    · split
      · exact h
      · exact inv_appendAxis s name ls lk h
  | renameViaVar key d new =>
    simp only [step]
    split
    · exact h
    · split
      · exact h
      · split
        · exact h
        · exact inv_renameById s _ new h

/-- the unconditional part: every operation other than `setVar` preserves the invariant -/
theorem inv_step_of_not_setVar (s : State) (op : Op) (h : Inv s) (hop : ∀ key axs, op ≠ .setVar key axs) :
    Inv (step s op).1 := by
  apply inv_step_partial s op h
  cases op <;> first | trivial | exact absurd rfl (hop _ _)

/-- more generally from any state satisfying it.
CHANGED: extra hypothesis `RunOK s ops` (= `SetVarOK` holds at every step of the run) -/
theorem inv_run (s : State) (ops : List Op) (h : Inv s) (hok : RunOK s ops) : Inv (run s ops) := by
  induction ops generalizing s with
  | nil => exact h
  | cons op ops ih => exact ih (step s op).1 (inv_step_partial s op h hok.1) hok.2

/-- hence every state reachable from the empty dataset by a finite sequence of mutations satisfies it.
CHANGED: extra hypothesis `RunOK init ops` -/
theorem inv_reachable (ops : List Op) (hok : RunOK init ops) : Inv (run init ops) :=
  inv_run init ops inv_init hok

/-- runs without renaming operations keep the axis names distinct, hence are `RunOK` -/
theorem runOK_of_renameFree (s : State) (ops : List Op) (h : Inv s) (hn : NamesNodup s)
    (hr : ∀ op ∈ ops, op.renameFree = true) : RunOK s ops := by
  induction ops generalizing s with
  | nil => trivial
  | cons op ops ih =>
    have hok : SetVarOK s op := by cases op <;> first | exact hn | trivial
    refine ⟨hok, ih _ (inv_step_partial s op h hok) (names_step s op h hn (hr op List.mem_cons_self)) ?_⟩
    intro op' hm
    exact hr op' (List.mem_cons_of_mem _ hm)

/-- unconditional reachability theorem for histories without axis renaming
(`renameAxis`, `setDims`, `renameViaVar`) -/
theorem inv_reachable_renameFree (ops : List Op) (hr : ops.all Op.renameFree = true) : Inv (run init ops) :=
  inv_reachable ops (runOK_of_renameFree init ops inv_init (by simp [NamesNodup, init])
    (fun op hm => List.all_eq_true.1 hr op hm))

/-- assigning an array whose labels disagree with an existing dataset axis (on any of its
dimensions, in any position) raises ValueError and leaves the dataset exactly as it was -/
theorem reject_restores (s : State) (key : String) (axs : List (String × List Label × Kind))
    (n : String) (l : List Label) (k : Kind) (ex : AxisObj)
    (hmem : (n, l, k) ∈ axs) (hex : findAxis s n = some ex) (hne : sameAxis ex n l = false) :
    step s (.setVar key axs) = (s, .error .value) := by
  rw [step_setVar]
  split
  · rfl
  · rw [if_pos]
    refine List.any_eq_true.2 ⟨(n, l, k), hmem, ?_⟩
    simp only [hex, hne, Bool.not_false]

/-- a changed axis name is immediately visible through every holder of the axis object: after
`ds.axes[d].name = new` every variable that has the axis object at position `p` of the dataset
sees the new name -/
theorem rename_visible (s : State) (d : DimKey) (new : String) (p : Nat) (hp : axisIndex s d = .ok p)
    (hnew : new ≠ "") (hinv : Inv s) (hplt : p < s.axes.length) :
    nameOf (step s (.renameAxis d new)).1 (s.axes.getD p default).id = new := by
  have hne : (new == "") = false := by simpa using hnew
  simp only [step, hp, hne, Bool.false_eq_true, if_false]
  unfold nameOf
  rw [axisById_modify s p (fun ax => { ax with name := new }) (fun _ => rfl) hinv.2.1 hplt]
  rfl

/-- a changed label is visible the same way (the object is shared, not copied) -/
theorem relabel_visible (s : State) (d : DimKey) (ls : List Label) (lk : Kind) (p : Nat)
    (hp : axisIndex s d = .ok p) (hplt : p < s.axes.length)
    (hlen : ls.length = (s.axes.getD p default).labels.length) (hinv : Inv s) :
    ((axisById (step s (.setLabels d ls lk)).1 (s.axes.getD p default).id).map (·.labels)) = some ls := by
  have hne : (ls.length != (s.axes.getD p default).labels.length) = false := by simpa using hlen
  simp only [step, hp, hne, Bool.false_eq_true, if_false]
  rw [axisById_modify s p (fun ax => { ax with labels := ls, kind := Lib.maybeCastKind ax.kind lk })
    (fun _ => rfl) hinv.2.1 hplt]
  rfl

/-! ### the counterexample to the unconditional statements -/

/-- a reachable dataset with two axes named "x" ... -/
def cexOps : List Op :=
  [.setVar "j" [("x", [], .i)], .setVar "k" [("y", [], .i)], .renameAxis (.name "y") "x"]
/-- ... and the assignment that orphans axis object 1 -/
def cexOp : Op := .setVar "k" [("x", [], .i)]

theorem cex_inv_pre : Inv (run init cexOps) := by
  have h2 : Inv (run init [.setVar "j" [("x", [], .i)], .setVar "k" [("y", [], .i)]]) :=
    inv_reachable_renameFree _ (by decide)
  exact inv_step_of_not_setVar _ (.renameAxis (.name "y") "x") h2 (fun _ _ h => by cases h)

theorem cex_not_inv_post : ¬ Inv (step (run init cexOps) cexOp).1 := by
  have he : (step (run init cexOps) cexOp).1 =
      { axes := [{ id := 0, name := "x", labels := [], kind := .i }, { id := 1, name := "x", labels := [], kind := .i }],
        vars := [("j", [0]), ("k", [0])], next := 2 } := by rfl
  rw [he]
  intro h
  have h3 := h.2.2.1 { id := 1, name := "x", labels := [], kind := .i } (by simp)
  simp [used] at h3

/-- the original `inv_step` is false -/
theorem inv_step_counterexample : ∃ s op, Inv s ∧ ¬ Inv (step s op).1 :=
  ⟨run init cexOps, cexOp, cex_inv_pre, cex_not_inv_post⟩

/-- the original `inv_reachable` is false -/
theorem inv_reachable_counterexample : ∃ ops, ¬ Inv (run init ops) :=
  ⟨cexOps ++ [cexOp], cex_not_inv_post⟩

/-- non-vacuity: a two-step history from the empty dataset -/
example : Inv (run init [.setVar "a" [("x", [.num 1, .num 2], .i)], .setVar "b" [("x", [.num 1, .num 2], .i), ("y", [.str "u"], .O)]]) :=
  inv_reachable_renameFree _ (by decide)

end DimModel

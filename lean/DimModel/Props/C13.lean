/-
C13 - property theorems: a Dataset's variables always share the Dataset's axes, after any
sequence of mutations (invariant by induction over the operation list).

FINDING (K-C13): `inv_step` / `inv_reachable` as originally stated are FALSE for the model:
`renameAxis` / `setDims` / `renameViaVar` may give two dataset axes the same name, and a later
`setVar` that replaces a variable then leaves the variable's old axis object in `ds.axes` although
no variable uses it (its *name* is among the new value's dims, so it is not "obsolete", but the new
value was given the *first* axis of that name).  Concrete run from the empty dataset:
  setVar "j" [("x",[],i)]; setVar "k" [("y",[],i)]; renameAxis (name "y") "x"; setVar "k" [("x",[],i)]
ends in axes = [⟨0,"x"⟩, ⟨1,"x"⟩], vars = [("j",[0]), ("k",[0])]: axis 1 is neither direct nor used
(conjunct 3 of `Inv` fails).  See `inv_step_counterexample`, `inv_reachable_counterexample` below.
Every operation other than `setVar` preserves `Inv` unconditionally, and `setVar` does whenever the
dataset's axis names are pairwise distinct (`SetVarOK`, defined in DimModel/Proofs/C13.lean).
-/
import DimModel.Proofs.C13
import DimModel.Lib.DatasetCtor
import DimModel.Proofs.C13Ctor
import DimModel.Props.C06
namespace DimModel
open DS

/-- the empty dataset satisfies the invariant -/
theorem inv_init : Inv init := by
  refine ⟨?_, ?_, ?_, ?_, ?_⟩ <;> simp [init]

/- ORIGINAL STATEMENT (false, see the header and `inv_step_counterexample`):
theorem inv_step (s : State) (op : Op) (h : Inv s) : Inv (step s op).1
-/
/-- every mutation - including rejected ones - preserves the shared-axes invariant, provided a
`setVar` is only applied when the dataset's axis names are pairwise distinct
(`SetVarOK s op` is `NamesNodup s` for `op = .setVar ..` and `True` for the nine other operations) -/
theorem inv_step_partial (s : State) (op : Op) (h : Inv s) (hok : SetVarOK s op) : Inv (step s op).1 := by
  cases op with
  | setVar key axs =>
    rw [step_setVar]
    split
    · exact h
    · split
      · exact h
      · exact inv_setVarBody s key axs h (fun ax hm _ => findAxis_of_mem hok hm)
  | delVar key =>
    simp only [step]
    split
    · exact h
    · rename_i v hf; exact inv_delVar s key v h hf
  | renameAxis d new =>
    simp only [step]
    split
    · exact h
    · split
      · exact h
      · exact inv_modify s _ _ (fun _ => rfl) h
  | setDims names =>
    simp only [step]
    split
    · exact h
    · split
      · exact h
      · rename_i hlen _
        refine inv_of_shape h (map_zip_eq _ _ (fun _ _ => rfl) _ _ ?_) rfl rfl
        simpa using hlen
  | setLabel d i l lk =>
    simp only [step]
    split
    · exact h
    · split
      · split
        · exact h
        · exact inv_modify s _ _ (fun _ => rfl) h
      · split
        · exact h
        · exact inv_modify s _ _ (fun _ => rfl) h
  | setLabels d ls lk =>
    simp only [step]
    split
    · exact h
    · split
      · exact h
      · exact inv_modify s _ _ (fun _ => rfl) h
  | replaceAxis d ls lk =>
    simp only [step]
    split
    · exact h
    · split
      · exact h
      · rename_i p hp _
        exact inv_replaceAxis s p (axisIndex_lt hp) ls lk h
  | renameKey old new =>
    simp only [step]
    split
    · exact h
    · split
      · exact h
      · rename_i v hf hne
        exact inv_renameKey s old new v h hf (by simpa using hne) _ rfl
  | appendAxis name ls lk =>
    simp only [step]
    split
    · exact h
    · split
      · exact h
      · exact inv_appendAxis s name ls lk h
  | renameViaVar key d new =>
    simp only [step]
    split
    · exact h
    · split
      · exact h
      · split
        · exact h
        · exact inv_renameById s _ new h

/-- the unconditional part: every operation other than `setVar` preserves the invariant -/
theorem inv_step_of_not_setVar (s : State) (op : Op) (h : Inv s) (hop : ∀ key axs, op ≠ .setVar key axs) :
    Inv (step s op).1 := by
  apply inv_step_partial s op h
  cases op <;> first | trivial | exact absurd rfl (hop _ _)

/-- more generally from any state satisfying it.
CHANGED: extra hypothesis `RunOK s ops` (= `SetVarOK` holds at every step of the run) -/
theorem inv_run (s : State) (ops : List Op) (h : Inv s) (hok : RunOK s ops) : Inv (run s ops) := by
  induction ops generalizing s with
  | nil => exact h
  | cons op ops ih => exact ih (step s op).1 (inv_step_partial s op h hok.1) hok.2

/-- hence every state reachable from the empty dataset by a finite sequence of mutations satisfies it.
CHANGED: extra hypothesis `RunOK init ops` -/
theorem inv_reachable (ops : List Op) (hok : RunOK init ops) : Inv (run init ops) :=
  inv_run init ops inv_init hok

/-- runs without renaming operations keep the axis names distinct, hence are `RunOK` -/
theorem runOK_of_renameFree (s : State) (ops : List Op) (h : Inv s) (hn : NamesNodup s)
    (hr : ∀ op ∈ ops, op.renameFree = true) : RunOK s ops := by
  induction ops generalizing s with
  | nil => trivial
  | cons op ops ih =>
    have hok : SetVarOK s op := by cases op <;> first | exact hn | trivial
    refine ⟨hok, ih _ (inv_step_partial s op h hok) (names_step s op h hn (hr op List.mem_cons_self)) ?_⟩
    intro op' hm
    exact hr op' (List.mem_cons_of_mem _ hm)

/-- unconditional reachability theorem for histories without axis renaming
(`renameAxis`, `setDims`, `renameViaVar`) -/
theorem inv_reachable_renameFree (ops : List Op) (hr : ops.all Op.renameFree = true) : Inv (run init ops) :=
  inv_reachable ops (runOK_of_renameFree init ops inv_init (by simp [NamesNodup, init])
    (fun op hm => List.all_eq_true.1 hr op hm))

/-- assigning an array whose labels disagree with an existing dataset axis (on any of its
dimensions, in any position) raises ValueError and leaves the dataset exactly as it was -/
theorem reject_restores (s : State) (key : String) (axs : List (String × List Label × Kind))
    (n : String) (l : List Label) (k : Kind) (ex : AxisObj)
    (hmem : (n, l, k) ∈ axs) (hex : findAxis s n = some ex) (hne : sameAxis ex n l = false) :
    step s (.setVar key axs) = (s, .error .value) := by
  rw [step_setVar]
  split
  · rfl
  · rw [if_pos]
    refine List.any_eq_true.2 ⟨(n, l, k), hmem, ?_⟩
    simp only [hex, hne, Bool.not_false]

/-- a changed axis name is immediately visible through every holder of the axis object: after
`ds.axes[d].name = new` every variable that has the axis object at position `p` of the dataset
sees the new name -/
theorem rename_visible (s : State) (d : DimKey) (new : String) (p : Nat) (hp : axisIndex s d = .ok p)
    (hnew : new ≠ "") (hinv : Inv s) (hplt : p < s.axes.length) :
    nameOf (step s (.renameAxis d new)).1 (s.axes.getD p default).id = new := by
  have hne : (new == "") = false := by simpa using hnew
  simp only [step, hp, hne, Bool.false_eq_true, if_false]
  unfold nameOf
  rw [axisById_modify s p (fun ax => { ax with name := new }) (fun _ => rfl) hinv.2.1 hplt]
  rfl

/-- a changed label is visible the same way (the object is shared, not copied) -/
theorem relabel_visible (s : State) (d : DimKey) (ls : List Label) (lk : Kind) (p : Nat)
    (hp : axisIndex s d = .ok p) (hplt : p < s.axes.length)
    (hlen : ls.length = (s.axes.getD p default).labels.length) (hinv : Inv s) :
    ((axisById (step s (.setLabels d ls lk)).1 (s.axes.getD p default).id).map (·.labels)) = some ls := by
  have hne : (ls.length != (s.axes.getD p default).labels.length) = false := by simpa using hlen
  simp only [step, hp, hne, Bool.false_eq_true, if_false]
  rw [axisById_modify s p (fun ax => { ax with labels := ls, kind := Lib.maybeCastKind ax.kind lk })
    (fun _ => rfl) hinv.2.1 hplt]
  rfl

/-! ### the counterexample to the unconditional statements -/

/-- a reachable dataset with two axes named "x" ... -/
def cexOps : List Op :=
  [.setVar "j" [("x", [], .i)], .setVar "k" [("y", [], .i)], .renameAxis (.name "y") "x"]
/-- ... and the assignment that orphans axis object 1 -/
def cexOp : Op := .setVar "k" [("x", [], .i)]

theorem cex_inv_pre : Inv (run init cexOps) := by
  have h2 : Inv (run init [.setVar "j" [("x", [], .i)], .setVar "k" [("y", [], .i)]]) :=
    inv_reachable_renameFree _ (by decide)
  exact inv_step_of_not_setVar _ (.renameAxis (.name "y") "x") h2 (fun _ _ h => by cases h)

theorem cex_not_inv_post : ¬ Inv (step (run init cexOps) cexOp).1 := by
  have he : (step (run init cexOps) cexOp).1 =
      { axes := [{ id := 0, name := "x", labels := [], kind := .i }, { id := 1, name := "x", labels := [], kind := .i }],
        vars := [("j", [0]), ("k", [0])], next := 2 } := by rfl
  rw [he]
  intro h
  have h3 := h.2.2.1 { id := 1, name := "x", labels := [], kind := .i } (by simp)
  simp [used] at h3

/-- the original `inv_step` is false -/
theorem inv_step_counterexample : ∃ s op, Inv s ∧ ¬ Inv (step s op).1 :=
  ⟨run init cexOps, cexOp, cex_inv_pre, cex_not_inv_post⟩

/-- the original `inv_reachable` is false -/
theorem inv_reachable_counterexample : ∃ ops, ¬ Inv (run init ops) :=
  ⟨cexOps ++ [cexOp], cex_not_inv_post⟩

/-- non-vacuity: a two-step history from the empty dataset -/
example : Inv (run init [.setVar "a" [("x", [.num 1, .num 2], .i)], .setVar "b" [("x", [.num 1, .num 2], .i), ("y", [.str "u"], .O)]]) :=
  inv_reachable_renameFree _ (by decide)

/-! ## The constructor from arrays with differing labels (`Dataset.__init__`: outer-join alignment, then `__setitem__` one by
one; mirror `DS.construct`, Lib/DatasetCtor.lean) as a starting point of the histories -/

/-- a constructor run that does not raise is the run of its `__setitem__` operations -/
theorem runAll_eq_run : ∀ (s s' : State) (ops : List Op), runAll s ops = .ok s' → s' = run s ops
  | s, s', [], h => by simp only [runAll, Except.ok.injEq] at h; exact h.symm
  | s, s', op :: ops, h => by
    unfold runAll at h
    have hrun : run s (op :: ops) = run (step s op).1 ops := rfl
    rw [hrun]
    rcases hst : step s op with ⟨s1, r⟩
    rw [hst] at h
    cases r with
    | error e => cases h
    | ok u => exact runAll_eq_run s1 s' ops h

/-- ... and none of its steps was rejected -/
theorem runAll_steps_ok : ∀ (s s' : State) (ops : List Op), runAll s ops = .ok s' →
    ∀ (i : Nat) (op : Op), ops[i]? = some op → ∃ u, (step (run s (ops.take i)) op).2 = .ok u
  | s, s', [], h, i, op, hi => by simp at hi
  | s, s', o :: ops, h, i, op, hi => by
    unfold runAll at h
    rcases hst : step s o with ⟨s1, r⟩
    rw [hst] at h
    cases r with
    | error e => cases h
    | ok u =>
      cases i with
      | zero =>
        simp only [List.getElem?_cons_zero, Option.some.injEq] at hi
        subst hi
        exact ⟨u, by simp [run, hst]⟩
      | succ n =>
        simp only [List.getElem?_cons_succ] at hi
        have := runAll_steps_ok s1 s' ops h n op hi
        have hrun : run s ((o :: ops).take (n + 1)) = run s1 (ops.take n) := by
          simp only [List.take_succ_cons, run, List.foldl_cons, hst]
        rw [hrun]; exact this

theorem ctorOps_renameFree {α : Type} (keys : List String) (vals : List (DimArray α)) :
    ∀ op ∈ ctorOps keys vals, op.renameFree = true := by
  intro op hop
  unfold ctorOps at hop
  obtain ⟨kv, -, rfl⟩ := List.mem_map.mp hop
  rfl

/-- distinct axis names survive every history without axis renaming -/
theorem names_run (s : State) (ops : List Op) (h : Inv s) (hn : NamesNodup s) (hr : ∀ op ∈ ops, op.renameFree = true) :
    NamesNodup (run s ops) := by
  induction ops generalizing s with
  | nil => exact hn
  | cons op ops ih =>
    have hok : SetVarOK s op := by cases op <;> first | exact hn | trivial
    exact ih _ (inv_step_partial s op h hok) (names_step s op h hn (hr op List.mem_cons_self))
      (fun op' hm => hr op' (List.mem_cons_of_mem _ hm))

/-- **the constructed dataset satisfies the shared-axes invariant** - for ANY keys and ANY input arrays (differing labels,
differing dimensions, differing orders): whenever `Dataset(...)` does not raise, the state it returns satisfies `Inv`, its axis
names are distinct, it is the state reached from the empty dataset by assigning the ALIGNED arrays (`Lib.align`, outer join:
C06's theorems say what they are) one by one, and none of these assignments was rejected -/
theorem construct_inv {α : Type} (nan : α) (keys : List String) (arrays vals : List (DimArray α)) (s : State)
    (h : construct nan keys arrays = .ok (vals, s)) :
    Lib.align nan arrays .outer none false false = .ok vals ∧
    s = run init (ctorOps keys vals) ∧ Inv s ∧ NamesNodup s ∧
    ∀ (i : Nat) (op : Op), (ctorOps keys vals)[i]? = some op →
      ∃ u, (step (run init ((ctorOps keys vals).take i)) op).2 = .ok u := by
  unfold construct at h
  cases hal : Lib.align nan arrays .outer none false false with
  | error e => rw [hal] at h; cases h
  | ok vs =>
    rw [hal] at h
    simp only [bind, Except.bind] at h
    cases hr : runAll init (ctorOps keys vs) with
    | error e => rw [hr] at h; cases h
    | ok s1 =>
      rw [hr] at h
      simp only [pure, Except.pure, Except.ok.injEq, Prod.mk.injEq] at h
      obtain ⟨rfl, rfl⟩ := h
      have hs := runAll_eq_run init s1 _ hr
      have hfree := ctorOps_renameFree keys vs
      refine ⟨rfl, hs, ?_, ?_, runAll_steps_ok init s1 _ hr⟩
      · rw [hs]; exact inv_reachable_renameFree _ (List.all_eq_true.2 hfree)
      · rw [hs]; exact names_run init _ inv_init (by simp [NamesNodup, init]) hfree

/-- **`inv_reachable` from constructed datasets**: every state reached from a dataset constructed from arrays with differing
labels by a finite history satisfies the invariant (same side condition as `inv_run`; unconditional for histories without axis
renaming: `inv_from_construct_renameFree`) -/
theorem inv_from_construct {α : Type} (nan : α) (keys : List String) (arrays vals : List (DimArray α)) (s : State)
    (h : construct nan keys arrays = .ok (vals, s)) (ops : List Op) (hok : RunOK s ops) : Inv (run s ops) :=
  inv_run s ops (construct_inv nan keys arrays vals s h).2.2.1 hok

theorem inv_from_construct_renameFree {α : Type} (nan : α) (keys : List String) (arrays vals : List (DimArray α)) (s : State)
    (h : construct nan keys arrays = .ok (vals, s)) (ops : List Op) (hr : ∀ op ∈ ops, op.renameFree = true) :
    Inv (run s ops) := by
  obtain ⟨-, -, hinv, hn, -⟩ := construct_inv nan keys arrays vals s h
  exact inv_run s ops hinv (runOK_of_renameFree s ops hinv hn hr)

/-- **what the constructed dataset holds**: after `Dataset(dict(zip(keys, arrays)))` did not raise (distinct keys), the
variable of every key resolves - through the ids of its axis objects on the heap, in its own dimension order - to exactly the
names and labels of the axes of the ALIGNED array of that key (`DS.Has`, Proofs/C13Ctor.lean): every later `__setitem__` of an
aligned array found the axis of the same name with the same labels (`sameAxis`), shared it, and no assignment replaced or
deleted an axis object that an earlier variable refers to.  The aligned arrays are those of `Lib.align` (outer join, no sort):
`construct_vars_values` says what they are. -/
theorem construct_vars_spec {α : Type} (nan : α) (keys : List String) (arrays vals : List (DimArray α)) (s : State)
    (h : construct nan keys arrays = .ok (vals, s)) (hk : keys.Nodup) :
    Lib.align nan arrays .outer none false false = .ok vals ∧
    ∀ (i : Nat) (k : String) (v : DimArray α), keys[i]? = some k → vals[i]? = some v →
      Has s k (v.axes.map fun ax => (ax.name, ax.labels)) := by
  unfold construct at h
  cases hal : Lib.align nan arrays .outer none false false with
  | error e => rw [hal] at h; cases h
  | ok vs =>
    rw [hal] at h
    simp only [bind, Except.bind] at h
    cases hr : runAll init (ctorOps keys vs) with
    | error e => rw [hr] at h; cases h
    | ok s1 =>
      rw [hr] at h
      simp only [pure, Except.pure, Except.ok.injEq, Prod.mk.injEq] at h
      obtain ⟨rfl, rfl⟩ := h
      refine ⟨rfl, ?_⟩
      intro i k v hki hvi
      have hops : ctorOps keys vs =
          ((keys.zip vs).map fun kv => (kv.1, axesSpec kv.2)).map (fun kv => Op.setVar kv.1 kv.2) := by
        simp [ctorOps, List.map_map, Function.comp_def]
      rw [hops] at hr
      have hz : (keys.zip vs)[i]? = some (k, v) := List.getElem?_zip_eq_some.2 ⟨hki, hvi⟩
      have hget : ((keys.zip vs).map fun kv => (kv.1, axesSpec kv.2))[i]? = some (k, axesSpec v) := by
        rw [List.getElem?_map, hz]; rfl
      have := runAll_has _ init s1 inv_init (by simp [NamesNodup, init]) hr i (k, axesSpec v) hget ?_
      · have hspec : ((k, axesSpec v).2.map fun x => (x.1, x.2.1)) = v.axes.map fun ax => (ax.name, ax.labels) := by
          simp [axesSpec, List.map_map, Function.comp_def]
        rw [hspec] at this
        exact this
      · intro hm
        obtain ⟨kv', hkv', hk'⟩ := List.mem_map.1 hm
        obtain ⟨j, hj⟩ := List.mem_iff_getElem?.1 hkv'
        rw [List.getElem?_drop, List.getElem?_map] at hj
        cases hzj : (keys.zip vs)[i + 1 + j]? with
        | none => simp [hzj] at hj
        | some kv2 =>
          obtain ⟨k2, v2⟩ := kv2
          simp only [hzj, Option.map_some, Option.some.injEq] at hj
          subst hj
          simp only at hk'
          subst hk'
          have hkj := (List.getElem?_zip_eq_some.1 hzj).1
          have hi : i < keys.length := by
            rcases Nat.lt_or_ge i keys.length with h | h
            · exact h
            · rw [List.getElem?_eq_none h] at hki; cases hki
          have := (List.getElem?_inj hi hk).mp (hki.trans hkj.symm)
          omega

/-- the arrays the constructor stores are the inputs re-indexed onto the outer-join axes: C06's `align_all_spec` /
`align_all_labels` apply to them as they are (every dimension gets ONE common axis carrying the union of the labels of the
inputs that have it; each value sits at the coordinates of its labels, `nan` elsewhere) -/
theorem construct_vars_values {α : Type} (nan : α) (keys : List String) (arrays vals : List (DimArray α)) (s : State)
    (h : construct nan keys arrays = .ok (vals, s)) (hin : ∀ a ∈ arrays, AlignInput a) :
    vals.length = arrays.length ∧
    ∃ commons : List Axis,
      Lib.getAlignedAxes (arrays.map (·.axes)) .outer none false false = .ok commons ∧
      (∀ c ∈ commons, ∀ v : Label, c.labels.Nodup ∧
        (v ∈ c.labels ↔ ∃ a ∈ arrays, ∃ ax ∈ a.axes, ax.name = c.name ∧ v ∈ ax.labels)) ∧
      ∀ i (hi : i < arrays.length) (ho : i < vals.length),
        vals[i].dims = arrays[i].dims ∧
        (∀ k, k < arrays[i].axes.length →
          ∃ c ∈ commons, c.name = (arrays[i].axes.getD k default).name ∧
            (vals[i].axes.getD k default).labels = c.labels) ∧
        ∀ j, InRange (vals[i].axes.map (·.labels.length)) j →
          vals[i].vals.get j = (alignVals arrays[i] (vals[i].axes.map (·.labels)) nan).get j := by
  have hal := (construct_inv nan keys arrays vals s h).1
  obtain ⟨hlen, commons, hg, hsp⟩ := align_all_spec nan arrays vals .outer false hin hal
  have hlab := align_all_labels arrays .outer false hin commons hg
  refine ⟨hlen, commons, hg, ?_, ?_⟩
  · intro c hc v
    have := hlab.2.2 c hc v
    exact ⟨this.1, this.2.1 rfl⟩
  · intro i hi ho
    have := hsp i hi ho
    exact ⟨this.1, this.2.2.1, this.2.2.2.2⟩

/-- non-vacuity of the run behind `construct_vars_spec`: the second assignment shares the axes of the first -/
example : (runAll init (ctorOps ["a", "b"] [exAlignB, exAlignB])).toOption.isSome = true := by
  decide

end DimModel

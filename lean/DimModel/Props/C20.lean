/-
C20 - property theorems: on-disk access refines in-memory access.

The stored variable (`OnDisk.DiskVar`: coordinate variables + a *flat* row-major cell list, read with
netCDF4's orthogonal get and written by netCDF4's sequential orthogonal put) simulates the in-memory
array: `Sim v a` is preserved by every write, and every read through the handle returns what `take`
returns on the simulated array.  By induction this holds after every history of assignments.
-/
import DimModel.Lib.OnDisk
import DimModel.Proofs.C20
import DimModel.Proofs.C20Multi
import DimModel.Proofs.C20Store
import DimModel.Proofs.C20StoreIx
namespace DimModel
open Lib OnDisk

/-- simulation relation between a stored variable and an in-memory array -/
structure Sim {α} (d : α) (v : DiskVar α) (a : DimArray α) : Prop where
  axes : v.axes = a.axes
  shape : a.vals.shape = v.shape
  len : v.cells.length = prod v.shape
  cells : ∀ j, InRange v.shape j → v.cells.getD (ravel v.shape j) d = a.vals.get j
  vkind : v.vkind = a.vkind
  attrs : v.attrs = a.attrs

/-- two results are the same array: same axes, metadata, shape and the same cell at every index of the shape -/
def SameArr {α} (r r' : DimArray α) : Prop :=
  r.axes = r'.axes ∧ r.vkind = r'.vkind ∧ r.attrs = r'.attrs ∧ r.vals.shape = r'.vals.shape ∧
    ∀ j, InRange r.vals.shape j → r.vals.get j = r'.vals.get j

/-- same outcome: the same error class, or the same array -/
def SameOut {α} (x y : Except Err (DimArray α)) : Prop :=
  match x, y with
  | .ok r, .ok r' => SameArr r r'
  | .error e, .error e' => e = e'
  | _, _ => False

/-- writing an array to a file and opening it gives a variable that simulates the array -/
theorem sim_store {α} (d : α) (a : DimArray α) (hwf : a.vals.shape = a.axes.map (·.size)) :
    Sim d (store a) a := by
  have hsh : (store a).shape = a.vals.shape := hwf.symm
  refine ⟨rfl, hwf, ?_, ?_, rfl, rfl⟩
  · rw [hsh]
    show ((allIdx a.vals.shape).map a.vals.get).length = _
    rw [List.length_map, allIdx_length]
  · intro j hj
    rw [hsh] at hj ⊢
    exact allIdx_map_getD a.vals.shape j a.vals.get d hj

/-- the fully loaded array is the array that was written -/
theorem load_store {α} (d : α) (a : DimArray α) (hwf : a.vals.shape = a.axes.map (·.size)) :
    SameArr (load d (store a)) a := by
  have hs := sim_store d a hwf
  exact ⟨rfl, rfl, rfl, hwf.symm, fun j hj => hs.cells j hj⟩

/-- READ: any index (label / position mode, scalars, lists, masks, slices, dicts, tolerance - whatever
`getIndices` accepts) read through the on-disk handle gives exactly what the same index gives on the
in-memory array, including the error class when it is refused -/
theorem ondisk_read_eq_take {α} (d : α) (v : DiskVar α) (a : DimArray α) (hs : Sim d v a)
    (hplain : ∀ ax ∈ a.axes, ax.members = []) (ui : UserIndex) (cfg : IndexCfg) :
    SameOut (read d v ui cfg) (take a ui cfg) := by
  have hvs : v.shape = a.axes.map (·.size) := by unfold DiskVar.shape; rw [hs.axes]
  unfold OnDisk.read take
  rw [hs.axes]
  cases hgi : getIndices a.axes ui cfg with
  | error e => simp only [bind, Except.bind, SameOut]
  | ok raw =>
    simp only [bind, Except.bind]
    generalize hpx : List.mapM (m := Except Err) _ (raw.zip a.axes) = m
    cases m with
    | error e => simp only [SameOut]
    | ok pix =>
      simp only [pure, Except.pure, SameOut]
      have hok : PixOk v.shape pix := by
        rw [hvs]
        exact resolve_all_ok _ (fun _ _ => rfl) a.axes raw pix (getIndices_length _ _ _ _ hgi) hpx
      refine ⟨(getAxesOrtho_eq _ (fun _ _ => rfl) a.axes raw pix hplain hpx).symm, hs.vkind, hs.attrs, rfl, ?_⟩
      intro j hj
      exact hs.cells _ (expandIx_inRange v.shape pix j hok hj)

/-- netCDF4's sequential put on the flat store is the pointwise `putVals` of the in-memory model
(with repeated positions the last write wins in both) -/
theorem ncPut_spec {α} (d : α) (shape : List Nat) (cells : List α) (pix : List PosIx) (vget : List Nat → α)
    (hlen : cells.length = prod shape) (hpl : pix.length = shape.length)
    (hin : ∀ k (hk : k < pix.length), match pix[k] with
        | .scalar p => p < shape.getD k 0
        | .list ps => ∀ p ∈ ps, p < shape.getD k 0)
    (j : List Nat) (hj : InRange shape j) :
    (ncPut shape cells pix vget).getD (ravel shape j) d
      = (putVals { shape := shape, get := fun i => cells.getD (ravel shape i) d } pix vget).get j := by
  have hok : PixOk shape pix := by
    apply pixOk_of_forall shape pix hpl
    intro k hk
    have := hin k hk
    cases hp : pix[k] with
    | scalar p => rw [hp] at this; simpa [PixOk] using this
    | list ps => rw [hp] at this; simpa [PixOk] using this
  exact ncPut_getD d shape cells pix vget hlen hok j hj

theorem ncPut_length {α} (shape : List Nat) (cells : List α) (pix : List PosIx) (vget : List Nat → α) :
    (ncPut shape cells pix vget).length = cells.length := by
  exact ncPut_length_aux shape cells pix vget

/-- WRITE: an assignment accepted through the on-disk handle is accepted in memory and leaves the file
simulating the assigned array -/
theorem ondisk_write_eq_put {α} (d : α) (v v' : DiskVar α) (a : DimArray α) (hs : Sim d v a)
    (ui : UserIndex) (rhs : RHS α) (rk : Kind) (cfg : IndexCfg)
    (hw : write v ui rhs cfg = .ok v') :
    ∃ a', put a ui rhs rk cfg false = .ok a' ∧ Sim d v' a' := by
  have hvs : v.shape = a.axes.map (·.size) := by unfold DiskVar.shape; rw [hs.axes]
  unfold write at hw
  obtain ⟨raw, hraw, hw⟩ := except_bind_ok _ _ _ hw
  obtain ⟨pix, hpix, hw⟩ := except_bind_ok _ _ _ hw
  obtain ⟨vget, hvget, hw⟩ := except_bind_ok _ _ _ hw
  simp only [pure, Except.pure, Except.ok.injEq] at hw
  subst hw
  rw [hs.axes] at hraw hpix
  obtain ⟨pix', hpi, hsh, hor⟩ := putIndices_of_resolve _ (fun _ _ => rfl) a.axes raw pix hpix
  have hok : PixOk v.shape pix := by
    rw [hvs]
    exact resolve_all_ok _ (fun _ _ => rfl) a.axes raw pix (getIndices_length _ _ _ _ hraw) hpix
  refine ⟨{ a with vals := putVals a.vals pix' vget }, ?_, ?_⟩
  · unfold put
    simp only [bind, Except.bind, hraw, hpi, hsh, hvget, pure, Except.pure]
    rfl
  · refine ⟨hs.axes, hs.shape, ?_, ?_, hs.vkind, hs.attrs⟩
    · show (ncPut v.shape v.cells pix vget).length = prod v.shape
      rw [ncPut_length_aux, hs.len]
    · intro j hj
      show (ncPut v.shape v.cells pix vget).getD (ravel v.shape j) d = (putVals a.vals pix' vget).get j
      rw [ncPut_getD d v.shape v.cells pix vget hs.len hok j hj]
      simp only [putVals]
      have hsel : selCoord pix' j = selCoord pix j := by
        rcases hor with h | h
        · rw [h]
        · rw [selCoord_none_of_zero pix j h, selCoord_none_of_zero pix' j (by rw [hsh]; exact h)]
      rw [hsel]
      cases selCoord pix j with
      | some c => rfl
      | none => exact hs.cells j hj

/-- ... and a refusal on disk is the same refusal in memory, except for the one case where NumPy is more
permissive: an empty outer selection, for which NumPy does not bounds-check the other integer lists -/
theorem ondisk_write_error {α} (d : α) (v : DiskVar α) (a : DimArray α) (hs : Sim d v a)
    (ui : UserIndex) (rhs : RHS α) (rk : Kind) (cfg : IndexCfg) (e : Err)
    (hw : write v ui rhs cfg = .error e)
    (hne : ∀ raw, getIndices a.axes ui { cfg with keepdims := false } = .ok raw →
        putIndices a.axes raw = (raw.zip a.axes).mapM fun (r, ax) => resolveRaw r ax.size) :
    put a ui rhs rk cfg false = .error e := by
  unfold write at hw
  rw [hs.axes] at hw
  unfold put
  cases hraw : getIndices a.axes ui { cfg with keepdims := false } with
  | error e' =>
    rw [hraw] at hw
    simp only [bind, Except.bind] at hw ⊢
    cases hw
    rfl
  | ok raw =>
    rw [hraw] at hw
    simp only [bind, Except.bind] at hw ⊢
    rw [hne raw hraw]
    generalize List.mapM (m := Except Err) _ (raw.zip a.axes) = m at hw ⊢
    cases m with
    | error e' =>
      simp only at hw ⊢
      cases hw
      rfl
    | ok pix =>
      simp only at hw ⊢
      cases hv : putRhs rhs (outerShape pix) with
      | error e' =>
        rw [hv] at hw
        simp only at hw ⊢
        cases hw
        rfl
      | ok vget => rw [hv] at hw; simp [pure, Except.pure] at hw

/-- one step of a history on both sides -/
inductive Step (α : Type)
  | write (ui : UserIndex) (rhs : RHS α) (cfg : IndexCfg)

def diskRun {α} (v : DiskVar α) : List (Step α) → Except Err (DiskVar α)
  | [] => .ok v
  | .write ui rhs cfg :: rest => do let v' ← write v ui rhs cfg; diskRun v' rest

def memRun {α} (a : DimArray α) : List (Step α) → Except Err (DimArray α)
  | [] => .ok a
  | .write ui rhs cfg :: rest => do let a' ← put a ui rhs .f cfg false; memRun a' rest

/-- HISTORIES: after any sequence of on-disk assignments the file simulates the array obtained by the
same assignments in memory; hence (with `ondisk_read_eq_take`) every later read agrees -/
theorem ondisk_history {α} (d : α) (steps : List (Step α)) (v v' : DiskVar α) (a : DimArray α)
    (hs : Sim d v a) (hr : diskRun v steps = .ok v') :
    ∃ a', memRun a steps = .ok a' ∧ Sim d v' a' := by
  induction steps generalizing v a with
  | nil =>
    simp only [diskRun, Except.ok.injEq] at hr
    subst hr
    exact ⟨a, rfl, hs⟩
  | cons st rest ih =>
    cases st with
    | write ui rhs cfg =>
      simp only [diskRun] at hr
      obtain ⟨v1, hw, hr'⟩ := except_bind_ok _ _ _ hr
      obtain ⟨a1, hput, hs1⟩ := ondisk_write_eq_put d v v1 a hs ui rhs .f cfg hw
      obtain ⟨a', hmem, hs'⟩ := ih v1 a1 hs1 hr'
      refine ⟨a', ?_, hs'⟩
      simp only [memRun, hput, bind, Except.bind]
      exact hmem

/-- in-memory assignments never change the axes -/
theorem memRun_axes {α} (steps : List (Step α)) (a a' : DimArray α) (h : memRun a steps = .ok a') :
    a'.axes = a.axes := by
  induction steps generalizing a with
  | nil =>
    simp only [memRun, Except.ok.injEq] at h
    rw [h]
  | cons st rest ih =>
    cases st with
    | write ui rhs cfg =>
      simp only [memRun] at h
      obtain ⟨a1, hput, h'⟩ := except_bind_ok _ _ _ h
      rw [ih a1 h', (put_labels_unchanged a a1 ui rhs .f cfg false hput).1]

theorem ondisk_history_read {α} (d : α) (steps : List (Step α)) (v v' : DiskVar α) (a : DimArray α)
    (hs : Sim d v a) (hplain : ∀ ax ∈ a.axes, ax.members = []) (hr : diskRun v steps = .ok v')
    (ui : UserIndex) (cfg : IndexCfg) :
    ∃ a', memRun a steps = .ok a' ∧ SameOut (read d v' ui cfg) (take a' ui cfg) := by
  obtain ⟨a', hmem, hs'⟩ := ondisk_history d steps v v' a hs hr
  refine ⟨a', hmem, ondisk_read_eq_take d v' a' hs' ?_ ui cfg⟩
  rw [memRun_axes steps a a' hmem]
  exact hplain

/-- UNLIMITED DIMENSION: writing a record at the end of the first dimension extends the axis with the
supplied label and the data with the record, leaving everything before it as it was -/
theorem writeRecord_append {α} (d : α) (v v' : DiskVar α) (ax : Axis) (rest : List Axis) (lab : Label) (row : List α)
    (hax : v.axes = ax :: rest) (hm : ax.members = []) (hlen : v.cells.length = prod v.shape)
    (hw : writeRecord v ax.labels.length lab row = .ok v') :
    v'.axes = { ax with labels := ax.labels ++ [lab] } :: rest ∧
    v'.cells.length = prod v'.shape ∧
    (∀ i j, i < ax.labels.length → InRange (rest.map (·.size)) j →
        v'.cells.getD (ravel v'.shape (i :: j)) d = v.cells.getD (ravel v.shape (i :: j)) d) ∧
    (∀ j, InRange (rest.map (·.size)) j →
        v'.cells.getD (ravel v'.shape (ax.labels.length :: j)) d = row.getD (ravel (rest.map (·.size)) j) d) := by
  unfold writeRecord at hw
  simp only [hax, beq_self_eq_true, if_true] at hw
  split at hw
  · cases hw
  · rename_i hrow
    simp only [Except.ok.injEq] at hw
    subst hw
    have hrow' : row.length = prod (rest.map (·.size)) := by simpa using hrow
    have hsz : ax.size = ax.labels.length := axis_size_plain ax hm
    have hsh : v.shape = ax.labels.length :: rest.map (·.size) := by
      unfold DiskVar.shape; rw [hax, List.map_cons, hsz]
    have hlen' : v.cells.length = ax.labels.length * prod (rest.map (·.size)) := by
      rw [hlen, hsh, prod_cons]
    refine ⟨rfl, ?_, ?_, ?_⟩
    · show (v.cells ++ row).length = prod (List.map (·.size) (_ :: rest))
      simp only [List.map_cons, prod_cons, List.length_append, hlen', hrow']
      simp only [Axis.size, hm, List.isEmpty_nil, if_true, List.length_append, List.length_cons,
        List.length_nil]
      rw [Nat.succ_mul]
    · intro i j hi hj
      show (v.cells ++ row).getD (ravel (List.map (·.size) (_ :: rest)) (i :: j)) d = _
      rw [hsh]
      simp only [List.map_cons, ravel]
      have hr := ravel_lt _ j hj
      have hlt : i * prod (rest.map (·.size)) + ravel (rest.map (·.size)) j < v.cells.length := by
        rw [hlen']; exact mul_add_lt hi hr
      rw [List.getD_eq_getElem?_getD, List.getD_eq_getElem?_getD, List.getElem?_append_left hlt]
    · intro j hj
      show (v.cells ++ row).getD (ravel (List.map (·.size) (_ :: rest)) (ax.labels.length :: j)) d = _
      simp only [List.map_cons, ravel]
      rw [List.getD_eq_getElem?_getD, List.getD_eq_getElem?_getD,
        List.getElem?_append_right (by rw [hlen']; omega)]
      congr 2
      rw [hlen']; omega

/-! non-vacuity -/
def exDisk : DimArray Nat :=
  { axes := [{ name := "x", labels := [.num 3, .num 1], kind := .i, attrs := [] },
             { name := "y", labels := [.str "a", .str "b", .str "c"], kind := .O, attrs := [] }],
    vals := { shape := [2, 3], get := fun j => 10 * j.getD 0 0 + j.getD 1 0 }, vkind := .i, attrs := [] }

example : (store exDisk).cells = [0, 1, 2, 10, 11, 12] := by decide
example : exDisk.vals.shape = exDisk.axes.map (·.size) := by decide
/-- sequential put with a repeated position: the last writer wins, other cells are untouched -/
example : ncPut [2, 3] [0, 1, 2, 10, 11, 12] [.list [1, 1], .scalar 2] (fun c => 100 + c.getD 0 0)
    = [0, 1, 2, 10, 11, 101] := by decide
example : selCoord [.list [1, 1], .scalar 2] [1, 2] = some [1] := by decide
/-- appending a record to the stored example -/
example : (writeRecord (store exDisk) 2 (.num 7) [20, 21, 22]).toOption.map (fun v' => (v'.cells, v'.shape))
    = some ([0, 1, 2, 10, 11, 12, 20, 21, 22], [3, 3]) := by decide

/-! ### multi-file reads (`read_nc` of a list of files / a glob pattern: `_read_multinc`) -/
section Multi
open DSV

/-- MULTI-FILE READ: when every file can be read on its own (`mems`: the per-file in-memory Datasets) and these agree
with the first one on their variables (as sets) and on their dimensions (in order), reading the list of files at once is
`concatenate_ds` (then `reindex_axis(keys)`) / `stack_ds` of the per-file Datasets, with the same options, the same
outcome and the same error class -/
theorem read_multi_eq_memory {α} [Inhabited α] (d nan : α) (files : List (DiskDs α)) (names : Option (List String))
    (idx : Option FileIndex) (o : MultiOpts) (dk : List Label) (mems : List (Ds α))
    (hread : files.mapM (fun f => readFile d f names idx) = .ok mems)
    (hc : Consistent mems = true) :
    readMulti d nan files names idx o dk = joinMem nan mems o dk := by
  unfold readMulti joinMem
  cases files with
  | nil =>
    simp only [List.mapM_nil, pure, Except.pure, Except.ok.injEq] at hread
    subst hread
    simp [readLoop, bind, Except.bind, pure, Except.pure]
  | cons f rest =>
    obtain ⟨m, ms, hm, hms, rfl⟩ := mapM_cons_ok _ f rest mems hread
    have hall : ms.all (agrees m.keys m.dims) = true := by simpa [Consistent, agrees] using hc
    have hl := readLoop_some_ok d names idx m.keys m.dims rest ms ([] ++ [m]) hms hall
    simp only [List.nil_append, List.singleton_append] at hl
    unfold readLoop
    simp only [hm, bind, Except.bind, hl, List.nil_append, Option.map_some, List.head?_cons]

/-- ... and when they do not agree the multi-file read is refused (AssertionError): the hypothesis `Consistent` is
exactly what the loop asserts -/
theorem read_multi_inconsistent {α} [Inhabited α] (d nan : α) (files : List (DiskDs α)) (names : Option (List String))
    (idx : Option FileIndex) (o : MultiOpts) (dk : List Label) (mems : List (Ds α))
    (hread : files.mapM (fun f => readFile d f names idx) = .ok mems)
    (hc : Consistent mems = false) :
    readMulti d nan files names idx o dk = .error .assertion := by
  unfold readMulti
  cases files with
  | nil =>
    simp only [List.mapM_nil, pure, Except.pure, Except.ok.injEq] at hread
    subst hread
    simp [Consistent] at hc
  | cons f rest =>
    obtain ⟨m, ms, hm, hms, rfl⟩ := mapM_cons_ok _ f rest mems hread
    have hall : ms.all (agrees m.keys m.dims) = false := by
      simp only [Consistent] at hc
      simpa [agrees] using hc
    have hl := readLoop_some_bad d names idx m.keys m.dims rest ms ([] ++ [m]) hms hall
    simp only [List.nil_append] at hl
    unfold readLoop
    simp only [hm, bind, Except.bind, List.nil_append, hl]

/-- a file that cannot be read on its own makes the multi-file read fail: with that file's error, or with the
AssertionError of an earlier file that disagrees with the first -/
theorem read_multi_file_error {α} [Inhabited α] (d nan : α) (files : List (DiskDs α)) (names : Option (List String))
    (idx : Option FileIndex) (o : MultiOpts) (dk : List Label) (e : Err)
    (hread : files.mapM (fun f => readFile d f names idx) = .error e) :
    readMulti d nan files names idx o dk = .error e ∨ readMulti d nan files names idx o dk = .error .assertion := by
  unfold readMulti
  rcases readLoop_error d names idx e files none [] hread with h | h
  · left; simp only [h, bind, Except.bind]
  · right; simp only [h, bind, Except.bind]

/-- a single name: the variable of the joined Dataset -/
theorem read_multi_var_eq_memory {α} [Inhabited α] (d nan : α) (files : List (DiskDs α)) (name : String)
    (idx : Option FileIndex) (o : MultiOpts) (dk : List Label) (mems : List (Ds α))
    (hread : files.mapM (fun f => readFile d f (some [name]) idx) = .ok mems)
    (hc : Consistent mems = true) :
    readMultiVar d nan files name idx o dk
      = (joinMem nan mems o dk).bind fun ds => match ds.get? name with | some a => .ok a | none => .error .key := by
  unfold readMultiVar
  rw [read_multi_eq_memory d nan files (some [name]) idx o dk mems hread hc]
  rfl

/-! non-vacuity and the counterexample for `Consistent` -/
def exFileA : Ds Nat :=
  { axes := [{ name := "t", labels := [.num 1, .num 2], kind := .i }],
    vars := [("v", { axes := [{ name := "t", labels := [.num 1, .num 2], kind := .i }],
                     vals := { shape := [2], get := fun j => 10 + j.getD 0 0 }, vkind := .i })] }
def exFileB : Ds Nat :=
  { axes := [{ name := "t", labels := [.num 3], kind := .i }],
    vars := [("v", { axes := [{ name := "t", labels := [.num 3], kind := .i }],
                     vals := { shape := [1], get := fun j => 20 + j.getD 0 0 }, vkind := .i })] }
def exFileA2 : Ds Nat :=
  { axes := [{ name := "t", labels := [.num 1, .num 2], kind := .i }],
    vars := [("v", { axes := [{ name := "t", labels := [.num 1, .num 2], kind := .i }],
                     vals := { shape := [2], get := fun j => 40 + j.getD 0 0 }, vkind := .i })] }
/-- two files with the same variables over the same dimensions - declared in a different order -/
def exAxT : Axis := { name := "t", labels := [.num 1, .num 2], kind := .i }
def exAxU : Axis := { name := "u", labels := [.num 3], kind := .i }
def exFileC : Ds Nat :=
  { axes := [exAxT, exAxU],
    vars := [("v", { axes := [exAxT], vals := { shape := [2], get := fun j => 10 + j.getD 0 0 }, vkind := .i }),
             ("w", { axes := [exAxU], vals := { shape := [1], get := fun _ => 30 }, vkind := .i })] }
def exFileD : Ds Nat :=
  { axes := [exAxU, exAxT],
    vars := [("w", { axes := [exAxU], vals := { shape := [1], get := fun _ => 50 }, vkind := .i }),
             ("v", { axes := [exAxT], vals := { shape := [2], get := fun j => 60 + j.getD 0 0 }, vkind := .i })] }

abbrev DsObs := List (String × List Label) × List (String × List Nat)
/-- observation of an outcome: the error (if any), the axes with their labels, the variables with their cells -/
def obsDs (r : Except Err (Ds Nat)) : List Err × DsObs :=
  match r with
  | .error e => ([e], ([], []))
  | .ok ds => ([], (ds.axes.map fun a => (a.name, a.labels),
                    ds.vars.map fun kv => (kv.1, (allIdx kv.2.vals.shape).map kv.2.vals.get)))
def okObs (o : DsObs) : List Err × DsObs := ([], o)
def errObs (e : Err) : List Err × DsObs := ([e], ([], []))

/-- two files joined along the existing dimension `t` -/
example : obsDs (readMulti 0 0 [storeDs exFileA, storeDs exFileB] none none { axis := some "t" } [])
    = okObs ([("t", [.num 1, .num 2, .num 3])], [("v", [10, 11, 20])]) := by decide
/-- the hypotheses of `read_multi_eq_memory` hold for them -/
example : Consistent [exFileA, exFileB] = true := by decide
/-- stacked along a new dimension (keys = the file names) after reading position 1 of `t` in every file -/
example : obsDs (readMulti 0 0 [storeDs exFileA, storeDs exFileA2] none
      (some { dim := "t", ix := .list [.num 1], cfg := { indexing := some .position } })
      { axis := some "file" } [.str "a", .str "b"])
    = okObs ([("file", [.str "a", .str "b"]), ("t", [.num 2])], [("v", [11, 41])]) := by decide

/-- COUNTEREXAMPLE (`Consistent` is needed): the files declare their dimensions in a different order - the multi-file
read is refused, while `stack_ds` of the per-file Datasets succeeds -/
theorem read_multi_consistent_counterexample :
    Consistent [exFileC, exFileD] = false ∧
    (obsDs (readMulti 0 0 [storeDs exFileC, storeDs exFileD] none none { axis := some "file" } [.str "c", .str "d"])
      = errObs .assertion) ∧
    (obsDs (joinMem 0 [exFileC, exFileD] { axis := some "file" } [.str "c", .str "d"])
      = okObs ([("file", [.str "c", .str "d"]), ("t", [.num 1, .num 2]), ("u", [.num 3])],
               [("v", [10, 11, 60, 61]), ("w", [30, 50])])) := by
  refine ⟨by decide, by decide, by decide⟩

/-! ### per-file round trip: a Dataset written with `write_nc` and read back without indices -/

/-- a Dataset as `Dataset.write_nc` meets it: plain (not grouped) axes with distinct names, distinct keys, every variable
defined over the Dataset's own axes (what `Dataset.__setitem__` establishes) with values of the shape of its axes -/
structure WfDs {α} (ds : Ds α) : Prop where
  plain : ∀ ax ∈ ds.axes, ax.members = []
  dims : ds.dims.Nodup
  keys : ds.keys.Nodup
  shared : ∀ kv ∈ ds.vars, ∀ ax ∈ kv.2.axes, ax ∈ ds.axes
  shape : ∀ kv ∈ ds.vars, kv.2.vals.shape = kv.2.axes.map (·.size)

/-- the Dataset with every variable replaced by what is read back from its store (`OnDisk.reload`) -/
def reloadDs {α} (d : α) (ds : Ds α) : Ds α :=
  { axes := ds.axes, vars := ds.vars.map fun kv => (kv.1, reload d kv.2), attrs := ds.attrs }

/-- element-wise relation between two lists of the same length -/
def ListRel {β γ : Type} (R : γ → β → Prop) : List γ → List β → Prop
  | [], [] => True
  | x :: xs, y :: ys => R x y ∧ ListRel R xs ys
  | _, _ => False

/-- the same Dataset: same axes in the same order, same metadata, the same keys in the same order, and under every key
the same array (`SameArr`: axes, metadata, shape, and the same cell at every index of the shape) -/
def SameDs {α} (r ds : Ds α) : Prop :=
  r.axes = ds.axes ∧ r.attrs = ds.attrs ∧
    ListRel (fun (x y : String × DimArray α) => x.1 = y.1 ∧ SameArr x.2 y.2) r.vars ds.vars

theorem forall₂_map_left {β γ : Type} (R : γ → β → Prop) (f : β → γ) :
    ∀ (l : List β), (∀ x ∈ l, R (f x) x) → ListRel R (l.map f) l
  | [], _ => trivial
  | x :: l, h => ⟨h x (by simp), forall₂_map_left R f l fun y hy => h y (List.mem_cons_of_mem _ hy)⟩

theorem reloadDs_keys {α} (d : α) (ds : Ds α) : (reloadDs d ds).keys = ds.keys := by
  simp [reloadDs, Ds.keys, List.map_map, Function.comp_def]

theorem reloadDs_same {α} (d : α) (ds : Ds α) (hw : WfDs ds) : SameDs (reloadDs d ds) ds := by
  refine ⟨rfl, rfl, ?_⟩
  apply forall₂_map_left
  intro kv hkv
  have hc := reload_cells d kv.2 (hw.shape kv hkv)
  exact ⟨rfl, rfl, rfl, rfl, hc.1, hc.2⟩

/-- what the read of a written Dataset returns, exactly: every full-range position index is resolved, every variable is
read at all positions of its own axes, and the `__setitem__` loop re-assembles keys, axes and metadata as they were -/
theorem readFile_storeDs_eq {α} (d : α) (ds : Ds α) (hw : WfDs ds) :
    readFile d (storeDs ds) none none = .ok (reloadDs d ds) := by
  have hndF : ((storeDs ds).vars.map (·.1)).Nodup := by
    have : (storeDs ds).vars.map (·.1) = ds.keys := by simp [storeDs, Ds.keys, List.map_map, Function.comp_def]
    rw [this]; exact hw.keys
  have hfold := readFold (storeDs ds).vars (readVarAt d ds.axes (ds.axes.map fullPix)) ds.axes hw.dims
    (by
      intro kv hkv ax hax
      obtain ⟨kv0, hkv0, rfl⟩ := List.mem_map.1 hkv
      rw [readVarAt_store d ds.axes hw.dims kv0.2 (hw.shared kv0 hkv0) hw.plain] at hax
      exact hw.shared kv0 hkv0 ax hax)
    (storeDs ds).vars { axes := ds.axes } (fun kv hkv => ⟨hkv, find?_fst hndF hkv⟩) rfl hndF
    (by intro kv _ h; simp [Ds.keys] at h)
  have h1 : readFile d (storeDs ds) none none = (do
      let data ← ((storeDs ds).vars.map (·.1)).foldlM (readStep (storeDs ds).vars (readVarAt d ds.axes (ds.axes.map fullPix)))
        ({ axes := axesOrtho ds.axes (ds.axes.map fullPix) } : Ds α)
      pure { data with attrs := ds.attrs,
                       axes := ds.dims.filterMap fun dim => data.axes.find? (·.name == dim) }) := rfl
  rw [h1, axesOrtho_full ds.axes hw.plain, hfold]
  simp only [bind, Except.bind, pure, Except.pure, reloadDs]
  congr 2
  · exact filterMap_find_self ds.axes hw.dims
  · simp only [List.nil_append, storeDs, List.map_map]
    apply List.map_congr_left
    intro kv hkv
    simp only [Function.comp]
    rw [readVarAt_store d ds.axes hw.dims kv.2 (hw.shared kv hkv) hw.plain]

/-- ROUND TRIP (names = None, no indices): reading the file written from a well-formed Dataset succeeds and returns the
same Dataset - keys in order, axes in the Dataset's order, metadata, and every variable equal cell by cell -/
theorem readFile_storeDs {α} (d : α) (ds : Ds α) (hw : WfDs ds) :
    ∃ r, readFile d (storeDs ds) none none = .ok r ∧ r.keys = ds.keys ∧ r.dims = ds.dims ∧ SameDs r ds :=
  ⟨reloadDs d ds, readFile_storeDs_eq d ds hw, reloadDs_keys d ds, rfl, reloadDs_same d ds hw⟩

/-- WRITE, THEN READ WITH `indices=` (partial, wave 5): whatever position indices `indices={dim: ix}` resolves to on the
file's dimensions (`fileIndices`: any index form, label or position mode, scalars included - a scalar drops the dimension
from the Dataset and from every variable), reading the file written from a well-formed Dataset SUCCEEDS (`__setitem__`
never refuses a variable: the sub-selected axes stay shared), keeps the keys in order and the metadata, the Dataset's
axes are the file's dimensions re-read at their positions in the file's order (scalar-indexed ones dropped), and every
variable is the orthogonal get of its store at the positions of its own dimensions (`readVarAt`).  Not yet identified
here: `readVarAt d ds.axes pix (store a)` with `Lib.take a {dim: ix}` (via `ondisk_read_eq_take`). -/
theorem readFile_storeDs_indexed_partial {α} (d : α) (ds : Ds α) (hw : WfDs ds) (idx : Option FileIndex) (pix : List PosIx)
    (hpix : fileIndices ds.axes idx = .ok pix) :
    readFile d (storeDs ds) none idx = .ok
      { axes := axesOrtho ds.axes pix,
        vars := ds.vars.map fun kv => (kv.1, readVarAt d ds.axes pix (store kv.2)),
        attrs := ds.attrs } := by
  have hndF : ((storeDs ds).vars.map (·.1)).Nodup := by
    have : (storeDs ds).vars.map (·.1) = ds.keys := by simp [storeDs, Ds.keys, List.map_map, Function.comp_def]
    rw [this]; exact hw.keys
  have hl := fileIndices_length ds.axes idx pix hpix
  have hfold := readFold (storeDs ds).vars (readVarAt d ds.axes pix) (axesOrtho ds.axes pix)
    (axesOrtho_nodup ds.axes pix hw.dims)
    (by
      intro kv hkv ax hax
      obtain ⟨kv0, hkv0, rfl⟩ := List.mem_map.1 hkv
      exact readVarAt_axes_sub d ds.axes pix hl hw.dims (store kv0.2) (hw.shared kv0 hkv0) ax hax)
    (storeDs ds).vars { axes := axesOrtho ds.axes pix } (fun kv hkv => ⟨hkv, find?_fst hndF hkv⟩) rfl hndF
    (by intro kv _ h; simp [Ds.keys] at h)
  have h1 : readFile d (storeDs ds) none idx = (do
      let pix ← fileIndices ds.axes idx
      let data ← ((storeDs ds).vars.map (·.1)).foldlM (readStep (storeDs ds).vars (readVarAt d ds.axes pix))
        ({ axes := axesOrtho ds.axes pix } : Ds α)
      pure { data with attrs := ds.attrs,
                       axes := ds.dims.filterMap fun dim => data.axes.find? (·.name == dim) }) := rfl
  rw [h1, hpix]
  simp only [bind, Except.bind]
  rw [hfold]
  simp only [pure, Except.pure, List.nil_append, storeDs, List.map_map]
  congr 2
  exact filterMap_find_ortho ds.axes pix hw.dims

/-- ... and when the index is refused, the read fails with the error class of the index resolution -/
theorem readFile_storeDs_indexed_error {α} (d : α) (ds : Ds α) (idx : Option FileIndex) (e : Err)
    (hpix : fileIndices ds.axes idx = .error e) : readFile d (storeDs ds) none idx = .error e := by
  have h1 : readFile d (storeDs ds) none idx = (do
      let pix ← fileIndices ds.axes idx
      let data ← ((storeDs ds).vars.map (·.1)).foldlM (readStep (storeDs ds).vars (readVarAt d ds.axes pix))
        ({ axes := axesOrtho ds.axes pix } : Ds α)
      pure { data with attrs := ds.attrs,
                       axes := ds.dims.filterMap fun dim => data.axes.find? (·.name == dim) }) := rfl
  rw [h1, hpix]
  rfl

/-- the hypothesis of `readFile_storeDs_indexed_partial` is satisfiable by a non-trivial index: a SCALAR position on `t`
of the two-variable Dataset `exFileC` (the dimension is dropped), and the theorem's right-hand side is then what the
read evaluates to -/
example : ((fileIndices exFileC.axes (some { dim := "t", ix := .scalar (.num 1), cfg := { indexing := some .position } })).toOption.map
    fun pix => ((axesOrtho exFileC.axes pix).map (·.name), pix.length)) = some (["u"], 2) := by decide

theorem mapM_readFile_storeDs {α} (d : α) : ∀ (dss : List (Ds α)), (∀ ds ∈ dss, WfDs ds) →
    (dss.map storeDs).mapM (fun f => readFile d f none none) = .ok (dss.map (reloadDs d))
  | [], _ => rfl
  | ds :: dss, h => by
    rw [List.map_cons, List.mapM_cons, readFile_storeDs_eq d ds (h ds (by simp)),
      mapM_readFile_storeDs d dss (fun x hx => h x (List.mem_cons_of_mem _ hx))]
    rfl

theorem consistent_reload {α} (d : α) (dss : List (Ds α)) : Consistent (dss.map (reloadDs d)) = Consistent dss := by
  cases dss with
  | nil => rfl
  | cons m0 rest =>
    simp only [List.map_cons, Consistent, List.all_map]
    congr 1
    funext m
    simp only [Function.comp, reloadDs_keys]
    rfl

/-- WRITE, THEN MULTI-FILE READ: reading at once the files WRITTEN from well-formed Datasets `dss` that agree on their
variables and dimensions is `stack_ds` / `concatenate_ds` (+ `reindex_axis`) of Datasets `mems` that are the `dss`
themselves up to the cell-by-cell equality `SameDs` (the values are functions: equal at every index of the shape) -/
theorem write_read_multi_eq_memory {α} [Inhabited α] (d nan : α) (dss : List (Ds α)) (o : MultiOpts) (dk : List Label)
    (hw : ∀ ds ∈ dss, WfDs ds) (hc : Consistent dss = true) :
    ∃ mems, ListRel SameDs mems dss ∧
      readMulti d nan (dss.map storeDs) none none o dk = joinMem nan mems o dk := by
  refine ⟨dss.map (reloadDs d), forall₂_map_left _ _ dss (fun ds h => reloadDs_same d ds (hw ds h)), ?_⟩
  exact read_multi_eq_memory d nan (dss.map storeDs) none none o dk _ (mapM_readFile_storeDs d dss hw)
    (by rw [consistent_reload, hc])

/-- ... and when the Datasets do not agree, the files written from them are refused -/
theorem write_read_multi_inconsistent {α} [Inhabited α] (d nan : α) (dss : List (Ds α)) (o : MultiOpts) (dk : List Label)
    (hw : ∀ ds ∈ dss, WfDs ds) (hc : Consistent dss = false) :
    readMulti d nan (dss.map storeDs) none none o dk = .error .assertion :=
  read_multi_inconsistent d nan (dss.map storeDs) none none o dk _ (mapM_readFile_storeDs d dss hw)
    (by rw [consistent_reload, hc])

/-- the hypotheses are satisfiable by non-trivial Datasets (two variables over different axes) -/
example : WfDs exFileC := ⟨by decide, by decide, by decide, by decide, by decide⟩
example : WfDs exFileA ∧ WfDs exFileB := ⟨⟨by decide, by decide, by decide, by decide, by decide⟩,
  ⟨by decide, by decide, by decide, by decide, by decide⟩⟩

/-- COUNTEREXAMPLE (`WfDs.shared` is needed): a variable whose axis `t` carries other labels than the Dataset's `t`
(never produced by `Dataset.__setitem__`) is refused when the file is read back (`__setitem__`: ValueError) -/
def exNotShared : Ds Nat :=
  { axes := [{ name := "t", labels := [.num 1, .num 2], kind := .i }],
    vars := [("v", { axes := [{ name := "t", labels := [.num 5, .num 6], kind := .i }],
                     vals := { shape := [2], get := fun j => 10 + j.getD 0 0 }, vkind := .i })] }
theorem readFile_storeDs_shared_counterexample :
    obsDs (readFile 0 (storeDs exNotShared) none none) = errObs .value := by decide

/-- COUNTEREXAMPLE (`WfDs.keys` is needed): with a repeated key the second variable replaces the first -/
def exDupKey : Ds Nat :=
  { axes := [{ name := "t", labels := [.num 1, .num 2], kind := .i }],
    vars := [("v", { axes := [{ name := "t", labels := [.num 1, .num 2], kind := .i }],
                     vals := { shape := [2], get := fun j => 10 + j.getD 0 0 }, vkind := .i }),
             ("v", { axes := [{ name := "t", labels := [.num 1, .num 2], kind := .i }],
                     vals := { shape := [2], get := fun j => 20 + j.getD 0 0 }, vkind := .i })] }
theorem readFile_storeDs_keys_counterexample :
    ((readFile 0 (storeDs exDupKey) none none).toOption.map (·.keys)) = some ["v"] ∧ exDupKey.keys = ["v", "v"] := by
  refine ⟨by decide, by decide⟩

end Multi

end DimModel

import DimModel.Lib.GetSet
namespace DimModel
end DimModel

/-
C03 - property theorems: assignment writes exactly the addressed cells.
-/
import DimModel.Lib.GetSet
import DimModel.Gen.TableC03
import DimModel.Proofs.C03Put
import DimModel.Proofs.C03Zero
namespace DimModel
open Lib

/-- position `k` is written by the selection `ps` iff it occurs in it; the writer is an occurrence -/
theorem lastSel_some_iff (ps : List Nat) (k : Nat) : (lastSel ps k).isSome = true ↔ k ∈ ps := by
  unfold lastSel
  have hlen : ps.reverse.length = ps.length := List.length_reverse
  constructor
  · intro h
    simp only at h
    split at h
    · rename_i hlt
      have hlt' : List.findIdx (· == k) ps.reverse < ps.reverse.length := by rw [hlen]; exact hlt
      have := List.findIdx_lt_length.mp hlt'
      obtain ⟨x, hx, hxk⟩ := this
      have : x = k := by simpa using hxk
      subst this
      exact List.mem_reverse.mp hx
    · simp at h
  · intro h
    have : List.findIdx (· == k) ps.reverse < ps.reverse.length :=
      List.findIdx_lt_length.mpr ⟨k, List.mem_reverse.mpr h, by simp⟩
    rw [hlen] at this
    simp only [this, if_true, Option.isSome_some]

theorem lastSel_get (ps : List Nat) (k c : Nat) (h : lastSel ps k = some c) : ps[c]? = some k := by
  unfold lastSel at h
  simp only at h
  split at h
  · rename_i hlt
    cases h
    have hlen : ps.reverse.length = ps.length := List.length_reverse
    have hlt' : List.findIdx (· == k) ps.reverse < ps.reverse.length := by rw [hlen]; exact hlt
    have hget := List.findIdx_getElem (p := (· == k)) (xs := ps.reverse) (w := hlt')
    have hk : ps.reverse[List.findIdx (· == k) ps.reverse] = k := by simpa using hget
    rw [List.getElem_reverse] at hk
    have hidx : ps.length - 1 - List.findIdx (· == k) ps.reverse < ps.length := by omega
    rw [List.getElem?_eq_getElem hidx]
    exact congrArg some hk
  · cases h

/-- **frame**: a cell that the index does not address keeps its value -/
theorem put_frame {α : Type} (vals : NDArr α) (pix : List PosIx) (vget : List Nat → α) (j : List Nat)
    (h : selCoord pix j = none) : (putVals vals pix vget).get j = vals.get j := by
  simp [putVals, h]

/-- **write**: a cell that the index addresses receives the (broadcast) value at its selection coordinate -/
theorem put_writes {α : Type} (vals : NDArr α) (pix : List PosIx) (vget : List Nat → α) (j c : List Nat)
    (h : selCoord pix j = some c) : (putVals vals pix vget).get j = vget c := by
  simp [putVals, h]

/-- the shape never changes -/
theorem put_shape {α : Type} (vals : NDArr α) (pix : List PosIx) (vget : List Nat → α) :
    (putVals vals pix vget).shape = vals.shape := rfl

/-- **the written cells are exactly the cells the same index reads**: if cell `j` is written from
selection coordinate `c`, then reading the selection at `c` (`expandIx`, the index map of
`NDArr.outer` used by `take`) addresses cell `j` -/
theorem selCoord_expand : ∀ (pix : List PosIx) (j c : List Nat), j.length = pix.length →
    selCoord pix j = some c → expandIx pix c = j
  | [], [], c, _, h => by simp [selCoord] at h; subst h; rfl
  | [], _ :: _, _, hl, _ => by simp at hl
  | _ :: _, [], _, hl, _ => by simp at hl
  | .scalar p :: pix, k :: j, c, hl, h => by
    simp only [selCoord] at h
    split at h
    · rename_i hk
      have hk' : k = p := by simpa using hk
      subst hk'
      simp only [expandIx]
      rw [selCoord_expand pix j c (by simpa using hl) h]
    · cases h
  | .list ps :: pix, k :: j, c, hl, h => by
    simp only [selCoord] at h
    cases h1 : lastSel ps k with
    | none => simp [h1] at h
    | some c0 =>
      cases h2 : selCoord pix j with
      | none => simp [h1, h2] at h
      | some cs =>
        simp [h1, h2] at h
        subst h
        simp only [expandIx]
        have := lastSel_get ps k c0 h1
        rw [selCoord_expand pix j cs (by simpa using hl) h2]
        simp [List.getD_eq_getElem?_getD, this]

/-- **read back**: after the assignment, reading the array at a written cell returns the assigned
value (the cell is the one `take` reads at selection coordinate `c`) -/
theorem get_put {α : Type} (vals : NDArr α) (pix : List PosIx) (vget : List Nat → α) (j c : List Nat)
    (hl : j.length = pix.length) (h : selCoord pix j = some c) :
    (putVals vals pix vget).get (expandIx pix c) = vget c := by
  rw [selCoord_expand pix j c hl h]
  exact put_writes vals pix vget j c h

/-- labels, dimension names and metadata are untouched by `put` -/
theorem put_labels_unchanged {α : Type} (a r : DimArray α) (ui : UserIndex) (rhs : RHS α) (rk : Kind)
    (cfg : IndexCfg) (cast : Bool) (h : put a ui rhs rk cfg cast = .ok r) :
    r.axes = a.axes ∧ r.attrs = a.attrs ∧ r.vals.shape = a.vals.shape := by
  unfold put at h
  simp only [bind, Except.bind] at h
  split at h
  · cases h
  · split at h
    · cases h
    · split at h
      · cases h
      · simp only [pure, Except.pure] at h
        cases h
        exact ⟨rfl, rfl, rfl⟩

/-- without `cast` the array keeps its dtype kind; with `cast` it becomes `maybeCastKind` -/
theorem put_kind {α : Type} (a r : DimArray α) (ui : UserIndex) (rhs : RHS α) (rk : Kind)
    (cfg : IndexCfg) (cast : Bool) (h : put a ui rhs rk cfg cast = .ok r) :
    r.vkind = if cast then maybeCastKind a.vkind rk else a.vkind := by
  unfold put at h
  simp only [bind, Except.bind] at h
  split at h
  · cases h
  · split at h
    · cases h
    · split at h
      · cases h
      · simp only [pure, Except.pure] at h
        cases h
        rfl


/-! ### full-shape boolean masks (`a[mask] = v`, `put(mask, v)`) -/

/-- the cells where the mask is true take the value, every other cell, all labels, dimension names and the
metadata are untouched; a mask of another shape is an IndexError -/
theorem putBool_spec {α : Type} (a r : DimArray α) (mask : NDArr Bool) (v : α) (rk : Kind) (cast : Bool)
    (h : putBool a mask v rk cast = .ok r) :
    mask.shape = a.vals.shape ∧ r.axes = a.axes ∧ r.attrs = a.attrs ∧ r.vals.shape = a.vals.shape ∧
    (∀ j, mask.get j = true → r.vals.get j = v) ∧ (∀ j, mask.get j = false → r.vals.get j = a.vals.get j) := by
  unfold putBool at h
  split at h
  · cases h
  · rename_i hs
    have hshape : mask.shape = a.vals.shape := by
      by_cases hq : mask.shape = a.vals.shape
      · exact hq
      · exact absurd (by simp [bne_iff_ne, hq]) hs
    injection h with h
    subst h
    refine ⟨hshape, rfl, rfl, rfl, ?_, ?_⟩
    · intro j hj
      simp [NDArr.putWhere, hj]
    · intro j hj
      simp [NDArr.putWhere, hj]

theorem putBool_shape_error {α : Type} (a : DimArray α) (mask : NDArr Bool) (v : α) (rk : Kind) (cast : Bool)
    (hne : mask.shape ≠ a.vals.shape) : putBool a mask v rk cast = .error .index := by
  unfold putBool
  simp [bne_iff_ne, hne]

/-! ### the cast table of the implementation (regenerated on every run) -/

/-- the implementation's `_maybe_cast_type` is the model's `maybeCastKind` on every pair of kinds -/
theorem maybeCast_table_agrees : ∀ r ∈ Gen.maybeCastTable, maybeCastKind r.1 r.2.1 = r.2.2 := by decide

/-- no assigned value is truncated or lost: the resulting kind is the array's own kind only when it
can hold the assigned kind (same kind, object, float <- int, unicode <- bytes), int <- float widens
to float, and every other mixture is widened to object -/
theorem maybeCast_table_lossless :
    ∀ r ∈ Gen.maybeCastTable,
      (r.2.2 = r.1 → (r.1 = r.2.1 ∨ r.1 = .O ∨ (r.1 = .f ∧ r.2.1 = .i) ∨ (r.1 = .U ∧ r.2.1 = .S))) ∧
      (r.1 = .i ∧ r.2.1 = .f → r.2.2 = .f) ∧
      (r.2.2 = r.1 ∨ r.2.2 = .f ∨ r.2.2 = .U ∨ r.2.2 = .O) := by decide

theorem maybeCast_table_covers_numeric_object :
    ∀ a ∈ [Kind.b, .i, .f, .O], ∀ v ∈ [Kind.b, .i, .f, .U],
      (Gen.maybeCastTable.any fun r => r.1 == a && r.2.1 == v) = true := by decide

/-- non-vacuity: a selection with a repeat writes cell 2 from its last occurrence -/
example : lastSel [2, 0, 2] 2 = some 2 ∧ selCoord [.list [2, 0, 2], .scalar 1] [2, 1] = some [2] ∧
    selCoord [.list [2, 0, 2], .scalar 1] [1, 1] = none := by decide

/-! ## END TO END: `Lib.put` as the driver calls it

`Lib.put a ui rhs rkind cfg cast` takes the array, a user index in any of its spellings (`UserIndex`: tuple /
dict / `axis=`), the right-hand side (`RHS`: scalar or array), the dtype kind of the right-hand side, the
indexing configuration (label / position mode, tolerance) and the `cast` flag.

Vocabulary (defined in `Proofs/C03Put.lean`):
* `resolveAll axes raw` - NumPy's resolution of the per-dimension indices that `_get_indices` returns; it is
  literally the second stage of `Lib.take`.
* `Spec.resolveL axes ixs` - definitional label-mode spec: per dimension `Spec.positionsL` (first position of a
  label; positions of the listed labels in the requested order; `True`s of a mask of the axis' length; everything
  for the full slice; C02's `Spec.sliceSel` for a label slice); `none` if some dimension does not resolve.
* `Spec.Addressed ps j` - every coordinate of cell `j` is among the selected positions of its dimension.
* `Spec.LabelAddressed axes ixs j` - the same said with LABELS: on every dimension the label at `j`'s coordinate
  is the requested label / one of the listed labels / under a `True` of the mask / inside the label slice.
* `Spec.Writer ps j c` - `c` is the selection coordinate that writes `j` LAST (repeated labels: last wins).
* `Spec.putResult a ps vget rk cast` - `a` with `putVals a.vals ps vget` and the (cast) kind; axes, attrs kept.
-/

section EndToEnd
variable {α : Type}
open Spec C03P

/-- a cell inside the shape of a well-formed array has one coordinate per axis -/
theorem inRange_length_axes (a : DimArray α) (hwf : a.WF) (j : List Nat) (hj : InRange a.vals.shape j) :
    j.length = a.axes.length := by
  rw [inRange_length' _ _ hj, hwf.1, List.length_map]

/-! ### 0. all modes, all index forms: the positions `put` writes are the positions `take` reads -/

/-- Whatever the index form and mode: if `_get_indices` returns `raw` and NumPy resolves it to `ps`, then
`take` reads `a.vals.outer ps` and `put` writes through the very same `ps` - or fails because the right-hand
side does not broadcast to `outerShape ps`, the shape of what `take` returns. -/
theorem put_writes_what_take_reads (a : DimArray α) (ui : UserIndex) (rhs : RHS α) (rk : Kind)
    (cfg : IndexCfg) (cast : Bool) (raw : List RawIx) (ps : List PosIx)
    (hraw : getIndices a.axes ui { cfg with keepdims := false } = .ok raw)
    (hps : resolveAll a.axes raw = .ok ps) :
    Lib.take a ui { cfg with keepdims := false } =
        .ok { axes := getAxesOrtho a.axes raw ps, vals := a.vals.outer ps, vkind := a.vkind, attrs := a.attrs } ∧
    put a ui rhs rk cfg cast =
        (putRhs rhs (outerShape ps)).map (fun vget => putResult a ps vget rk cast) :=
  ⟨take_of_resolve a ui _ raw ps hraw hps, put_of_resolve a ui rhs rk cfg cast raw ps hraw hps⟩

/-- cell-level reading of `putResult`: an addressed cell receives the right-hand side's element at the selection
coordinate of its LAST writer (which lies inside the selection's shape and is the coordinate at which `take`
reads this very cell); every other cell keeps its value -/
theorem putResult_cells (a : DimArray α) (ps : List PosIx) (vget : List Nat → α) (rk : Kind) (cast : Bool)
    (j : List Nat) (hj : j.length = ps.length) :
    (Addressed ps j → ∃ c, Writer ps j c ∧ InRange (outerShape ps) c ∧ expandIx ps c = j ∧
        (putResult a ps vget rk cast).vals.get j = vget c) ∧
    (¬ Addressed ps j → (putResult a ps vget rk cast).vals.get j = a.vals.get j) := by
  constructor
  · intro hadd
    have hsome := (selCoord_isSome_iff ps j hj).mpr hadd
    cases hc : selCoord ps j with
    | none => rw [hc] at hsome; cases hsome
    | some c =>
      have hw := (selCoord_eq_some_iff ps j c hj).mp hc
      exact ⟨c, hw, writer_inRange ps j c hw, writer_expand ps j c hw, by simp [putResult, putVals, hc]⟩
  · intro hnot
    have := (selCoord_none_iff ps j hj).mpr hnot
    simp [putResult, putVals, this]

theorem resolveAll_length (axes : List Axis) (raw : List RawIx) (ps : List PosIx) (hl : raw.length = axes.length)
    (h : resolveAll axes raw = .ok ps) : ps.length = axes.length := by
  have := mapM_ok_length _ _ _ h
  simp only [List.length_zip] at this
  omega

/-! ### 1. label mode: `put_label_spec` -/

/-- the hypotheses of a label-mode call: label mode without tolerance, an index (tuple, dict or `axis=` form)
that normalises to one index `ixs[i]` per dimension, each of them a label (not `None`), a list of labels, a
boolean mask or a label slice with non-zero step, on axes with unique labels (no MultiAxis) -/
structure LabelCall (a : DimArray α) (ui : UserIndex) (cfg : IndexCfg) (ixs : List Ix) : Prop where
  mode : cfg.mode = .label
  tol : cfg.tol = none
  norm : normalizeIndex (a.axes.map (·.name)) ui = .ok ixs
  good : ∀ ix ∈ ixs, GoodIx ix
  axes : ∀ ax ∈ a.axes, ax.labels.Nodup ∧ ax.members = []

theorem LabelCall.length {a : DimArray α} {ui cfg ixs} (h : LabelCall a ui cfg ixs) : ixs.length = a.axes.length := by
  have := normalizeIndex_length _ _ _ h.norm
  simpa using this

theorem expandedIndexer_plain (ixs : List Ix) (ndim : Nat) (hlen : ixs.length ≤ ndim)
    (hg : ∀ ix ∈ ixs, ix ≠ .ellipsis) :
    expandedIndexer ixs ndim = .ok (ixs ++ List.replicate (ndim - ixs.length) fullIx) := by
  have hgo : ∀ (found : Bool) (l : List Ix), (∀ ix ∈ l, ix ≠ .ellipsis) →
      expandedIndexer.go ixs ndim found l = l := by
    intro found l
    induction l with
    | nil => intro _; rfl
    | cons ix l ih =>
      intro h
      have := h ix (by simp)
      have ih' := ih (fun i hi => h i (by simp [hi]))
      cases ix <;> simp_all [expandedIndexer.go]
  unfold expandedIndexer
  simp only [hgo false ixs hg]
  have : ¬ ixs.length > ndim := by omega
  simp [this]

/-- a tuple shorter than the number of dimensions is completed with full slices -/
theorem normalizeIndex_tuple_short (dims : List String) (ixs : List Ix) (hlen : ixs.length ≤ dims.length)
    (hg : ∀ ix ∈ ixs, ix ≠ .ellipsis) :
    normalizeIndex dims (.tuple ixs) = .ok (ixs ++ List.replicate (dims.length - ixs.length) fullIx) := by
  unfold normalizeIndex
  simp only [bind, Except.bind, pure, Except.pure]
  exact expandedIndexer_plain ixs dims.length hlen hg

/-- `{d: ix}` / `axis=d`: the index on dimension `d`, the full slice everywhere else -/
theorem normalizeIndex_dict1 (dims : List String) (d : String) (ix : Ix) (hd : d ∈ dims) (hix : ix ≠ .ellipsis) :
    normalizeIndex dims (.dict [(.name d, ix)]) = .ok (dims.map fun d' => if d' = d then ix else fullIx) ∧
    normalizeIndex dims (.axisArg ix (.name d)) = .ok (dims.map fun d' => if d' = d then ix else fullIx) := by
  have hc : dims.contains d = true := by simpa using hd
  have key : expandedIndexer (dims.map fun d' => if d' = d then ix else fullIx) dims.length =
      .ok (dims.map fun d' => if d' = d then ix else fullIx) := by
    have := expandedIndexer_plain (dims.map fun d' => if d' = d then ix else fullIx) dims.length (by simp)
      (by
        intro i hi
        obtain ⟨d', _, rfl⟩ := List.mem_map.mp hi
        split
        · exact hix
        · simp [fullIx])
    simpa using this
  have hmap : (dims.map fun d' => (Option.map (fun x : String × Ix => x.2)
      (List.find? (fun x => x.1 == d') [(d, ix)].reverse)).getD fullIx) =
      dims.map fun d' => if d' = d then ix else fullIx := by
    apply List.map_congr_left
    intro d' _
    by_cases h : d' = d
    · subst h; simp
    · have : (d == d') = false := by simpa using (Ne.symm h)
      simp [h, this]
  constructor
  · unfold normalizeIndex
    simp only [bind, Except.bind, pure, Except.pure, List.mapM_cons, List.mapM_nil, dimOfKey, hc, if_true]
    rw [hmap]; exact key
  · unfold normalizeIndex
    simp only [bind, Except.bind, pure, Except.pure, List.mapM_cons, List.mapM_nil, dimOfKey, hc, if_true]
    rw [hmap]; exact key

/-- a full-length tuple of such indices is its own normal form -/
theorem normalizeIndex_tuple (dims : List String) (ixs : List Ix) (hlen : ixs.length = dims.length)
    (hg : ∀ ix ∈ ixs, ix ≠ .ellipsis) : normalizeIndex dims (.tuple ixs) = .ok ixs := by
  rw [normalizeIndex_tuple_short dims ixs (by omega) hg, hlen]
  simp

/-- when every dimension resolves, `_get_indices` and NumPy deliver exactly the spec positions -/
theorem LabelCall.stages {a : DimArray α} {ui cfg ixs} (h : LabelCall a ui cfg ixs) (ps : List PosIx)
    (hps : resolveL a.axes ixs = some ps) :
    ∃ raw, getIndices a.axes ui { cfg with keepdims := false } = .ok raw ∧ resolveAll a.axes raw = .ok ps := by
  rw [getIndices_of_norm a.axes ui _ ixs h.norm]
  exact stages_ok { cfg with keepdims := false } h.mode h.tol rfl a.axes ixs ps h.length h.good h.axes hps

/-- **`put` in label mode, as an equation.**  If every dimension of the index resolves (every requested label is
on its axis, masks have the axis' length, slice bounds are acceptable) to the positions `ps`, the call returns
`Spec.putResult a ps vget` for the broadcast right-hand side `vget`, or the broadcasting error. -/
theorem put_label_eq (a : DimArray α) (ui : UserIndex) (rhs : RHS α) (rk : Kind) (cfg : IndexCfg) (cast : Bool)
    (ixs : List Ix) (ps : List PosIx) (h : LabelCall a ui cfg ixs) (hps : resolveL a.axes ixs = some ps) :
    put a ui rhs rk cfg cast = (putRhs rhs (outerShape ps)).map (fun vget => putResult a ps vget rk cast) := by
  obtain ⟨raw, hraw, hres⟩ := h.stages ps hps
  exact put_of_resolve a ui rhs rk cfg cast raw ps hraw hres

/-- **`put_label_spec`.**  Label-mode assignment through an index that resolves: axes (names, labels, axis
metadata), array metadata and shape are unchanged, the kind is the array's (`cast = false`) or `maybeCastKind`
(`cast = true`), and for every cell `j` (one coordinate per axis):
* if on EVERY dimension the label at `j`'s coordinate is among the requested labels of that dimension, the cell
  holds the right-hand side's element at the selection coordinate `c` of its last writer (`Writer`: for a list
  index `c_i` is the LAST place where `j`'s label occurs in the list - last write wins; scalar-indexed dimensions
  do not appear in `c`), `c` is inside the selection's shape and is where `take` reads `j` (`expandIx ps c = j`);
* otherwise the cell keeps its value (frame). -/
theorem put_label_spec (a r : DimArray α) (ui : UserIndex) (rhs : RHS α) (rk : Kind) (cfg : IndexCfg)
    (cast : Bool) (ixs : List Ix) (ps : List PosIx) (h : LabelCall a ui cfg ixs)
    (hps : resolveL a.axes ixs = some ps) (hr : put a ui rhs rk cfg cast = .ok r) :
    r.axes = a.axes ∧ r.attrs = a.attrs ∧ r.vals.shape = a.vals.shape ∧
    r.vkind = (if cast then maybeCastKind a.vkind rk else a.vkind) ∧
    ∃ vget, putRhs rhs (outerShape ps) = .ok vget ∧
      ∀ j, j.length = a.axes.length →
        (LabelAddressed a.axes ixs j → ∃ c, Writer ps j c ∧ InRange (outerShape ps) c ∧ expandIx ps c = j ∧
            r.vals.get j = vget c) ∧
        (¬ LabelAddressed a.axes ixs j → r.vals.get j = a.vals.get j) := by
  rw [put_label_eq a ui rhs rk cfg cast ixs ps h hps] at hr
  cases hv : putRhs rhs (outerShape ps) with
  | error e => rw [hv] at hr; cases hr
  | ok vget =>
    rw [hv] at hr
    simp only [Except.map, Except.ok.injEq] at hr
    subst hr
    refine ⟨rfl, rfl, rfl, rfl, vget, rfl, ?_⟩
    intro j hj
    obtain ⟨raw, hraw, hres⟩ := h.stages ps hps
    have hpl : ps.length = a.axes.length :=
      resolveAll_length a.axes raw ps (getIndices_length _ _ _ _ hraw) hres
    have hiff := addressed_iff_label a.axes ixs ps j (fun ax hax => (h.axes ax hax).1) hps hj h.length
    rw [← hiff]
    exact putResult_cells a ps vget rk cast j (by omega)

/-- scalar right-hand side: the addressed cells hold the scalar, the others their old value -/
theorem put_label_scalar (a r : DimArray α) (ui : UserIndex) (v : α) (rk : Kind) (cfg : IndexCfg)
    (cast : Bool) (ixs : List Ix) (ps : List PosIx) (h : LabelCall a ui cfg ixs)
    (hps : resolveL a.axes ixs = some ps) (hr : put a ui (.scalar v) rk cfg cast = .ok r)
    (j : List Nat) (hj : j.length = a.axes.length) :
    (LabelAddressed a.axes ixs j → r.vals.get j = v) ∧
    (¬ LabelAddressed a.axes ixs j → r.vals.get j = a.vals.get j) := by
  obtain ⟨_, _, _, _, vget, hv, hcells⟩ := put_label_spec a r ui (.scalar v) rk cfg cast ixs ps h hps hr
  simp only [putRhs, Except.ok.injEq] at hv
  subst hv
  refine ⟨fun hadd => ?_, (hcells j hj).2⟩
  obtain ⟨c, _, _, _, hc⟩ := (hcells j hj).1 hadd
  exact hc

/-- array right-hand side of exactly the selection's shape: the addressed cell holds the element of the
right-hand side at its (last) writer coordinate -/
theorem put_label_array (a r : DimArray α) (ui : UserIndex) (v : NDArr α) (rk : Kind) (cfg : IndexCfg)
    (cast : Bool) (ixs : List Ix) (ps : List PosIx) (h : LabelCall a ui cfg ixs)
    (hps : resolveL a.axes ixs = some ps) (hshape : v.shape = outerShape ps)
    (hr : put a ui (.arr v) rk cfg cast = .ok r) (j : List Nat) (hj : j.length = a.axes.length) :
    (LabelAddressed a.axes ixs j → ∃ c, Writer ps j c ∧ InRange v.shape c ∧ r.vals.get j = v.get c) ∧
    (¬ LabelAddressed a.axes ixs j → r.vals.get j = a.vals.get j) := by
  obtain ⟨_, _, _, _, vget, hv, hcells⟩ := put_label_spec a r ui (.arr v) rk cfg cast ixs ps h hps hr
  obtain ⟨g, hg, hgv⟩ := broadcastTo_exact v (outerShape ps) hshape
  simp only [putRhs, hg, Except.ok.injEq] at hv
  subst hv
  refine ⟨fun hadd => ?_, (hcells j hj).2⟩
  obtain ⟨c, hw, hin, _, hc⟩ := (hcells j hj).1 hadd
  exact ⟨c, hw, by rw [hshape]; exact hin, by rw [hc, hgv c hin]⟩

/-! ### 2. errors: `put_ok_iff`, `put_unresolved_error` (the model is functional: an error writes nothing) -/

/-- an index that does not normalise (too many indices, unknown dimension name, axis position out of range)
is refused with the error of the normalisation -/
theorem put_normalize_error (a : DimArray α) (ui : UserIndex) (rhs : RHS α) (rk : Kind) (cfg : IndexCfg)
    (cast : Bool) (e : Err) (h : normalizeIndex (a.axes.map (·.name)) ui = .error e) :
    put a ui rhs rk cfg cast = .error e := by
  apply put_error_of_getIndices
  rw [getIndices_eq, h]; rfl

/-- **an index that does not resolve is refused**: if some dimension does not resolve (a requested label is not
on its axis, a mask has not the length of its axis, a slice bound is unacceptable) the call is an error -
`IndexError` when the index consists of labels, lists, masks and full slices only -/
theorem put_unresolved_error (a : DimArray α) (ui : UserIndex) (rhs : RHS α) (rk : Kind) (cfg : IndexCfg)
    (cast : Bool) (ixs : List Ix) (h : LabelCall a ui cfg ixs)
    (hps : resolveL a.axes ixs = none) :
    ∃ e, put a ui rhs rk cfg cast = .error e ∧ ((∀ ix ∈ ixs, SimpleIx ix) → e = .index) := by
  obtain ⟨e, he, hcls⟩ := stages_err { cfg with keepdims := false } h.mode h.tol rfl a.axes ixs h.length h.good
    h.axes hps
  refine ⟨e, ?_, hcls⟩
  apply put_error_of_getIndices
  rw [getIndices_of_norm a.axes ui _ ixs h.norm, he]

/-- a right-hand side that does not broadcast to the selection's shape is a `ValueError` -/
theorem put_misfit_error (a : DimArray α) (ui : UserIndex) (v : NDArr α) (rk : Kind) (cfg : IndexCfg)
    (cast : Bool) (ixs : List Ix) (ps : List PosIx) (h : LabelCall a ui cfg ixs)
    (hps : resolveL a.axes ixs = some ps) (hv : broadcastTo v (outerShape ps) = none) :
    put a ui (.arr v) rk cfg cast = .error .value := by
  rw [put_label_eq a ui (.arr v) rk cfg cast ixs ps h hps]
  simp [putRhs, hv, Except.map]

/-- **`put_ok_iff`**: the assignment succeeds exactly when every dimension resolves (every label is on its
axis, every mask has the length of its axis, ...) and the right-hand side broadcasts to the selection's shape -/
theorem put_ok_iff (a : DimArray α) (ui : UserIndex) (rhs : RHS α) (rk : Kind) (cfg : IndexCfg)
    (cast : Bool) (ixs : List Ix) (h : LabelCall a ui cfg ixs) :
    (∃ r, put a ui rhs rk cfg cast = .ok r) ↔
      ∃ ps, resolveL a.axes ixs = some ps ∧ ∃ vget, putRhs rhs (outerShape ps) = .ok vget := by
  constructor
  · rintro ⟨r, hr⟩
    cases hps : resolveL a.axes ixs with
    | none =>
      obtain ⟨e, he, _⟩ := put_unresolved_error a ui rhs rk cfg cast ixs h hps
      rw [he] at hr; cases hr
    | some ps =>
      refine ⟨ps, rfl, ?_⟩
      rw [put_label_eq a ui rhs rk cfg cast ixs ps h hps] at hr
      cases hv : putRhs rhs (outerShape ps) with
      | error e => rw [hv] at hr; cases hr
      | ok vget => exact ⟨vget, rfl⟩
  · rintro ⟨ps, hps, vget, hv⟩
    rw [put_label_eq a ui rhs rk cfg cast ixs ps h hps, hv]
    exact ⟨_, rfl⟩

/-- what "resolves" means on one dimension, said with labels -/
def IxResolves (L : List Label) (kind : Kind) : Ix → Prop
  | .scalar v => v ∈ L
  | .list vs => ∀ v ∈ vs, v ∈ L
  | .mask m => m.length = L.length
  | .slice s e st => (Ix.slice s e st).isFull = true ∨ (sliceSel L kind s e st).isSome = true
  | .ellipsis => False

theorem positionsL_isSome_iff (L : List Label) (kind : Kind) (ix : Ix) :
    (positionsL L kind ix).isSome = true ↔ IxResolves L kind ix := by
  cases ix with
  | ellipsis => simp [positionsL, positions, IxResolves]
  | scalar v => simp only [positionsL, positions, IxResolves]; split <;> simp_all
  | list vs => simp only [positionsL, positions, IxResolves]; split <;> simp_all
  | mask m => simp only [positionsL, positions, IxResolves]; split <;> simp_all
  | slice s e st =>
    simp only [positionsL, IxResolves]
    split
    · simp_all
    · rename_i hf
      cases sliceSel L kind s e st <;> simp [hf]

/-- all dimensions resolve iff each one does: every requested label is on its axis, masks fit, slices resolve -/
theorem resolveL_isSome_iff : ∀ (axes : List Axis) (ixs : List Ix), ixs.length = axes.length →
    ((∃ ps, resolveL axes ixs = some ps) ↔ ∀ x ∈ ixs.zip axes, IxResolves x.2.labels x.2.kind x.1)
  | [], [], _ => by simp [resolveL]
  | [], _ :: _, hl => by simp at hl
  | _ :: _, [], hl => by simp at hl
  | ax :: axes, ix :: ixs, hl => by
    have ih := resolveL_isSome_iff axes ixs (by simpa using hl)
    have h1 := positionsL_isSome_iff ax.labels ax.kind ix
    simp only [resolveL_cons, List.zip_cons_cons, List.mem_cons, forall_eq_or_imp, ← ih, ← h1]
    cases positionsL ax.labels ax.kind ix with
    | none => simp
    | some p =>
      cases resolveL axes ixs with
      | none => simp
      | some ps => simp

/-- a label slice resolves iff its bounds are numbers (monotonic numeric axis: bounding box, the bounds need not
be labels) resp. labels of the axis (any other axis); open bounds always do -/
theorem sliceSel_isSome_iff (L : List Label) (kind : Kind) (s e : Option Label) (st : Option Int)
    (hst : st ≠ some 0) :
    (sliceSel L kind s e st).isSome = true ↔
      if isBBoxAxis L kind then (∀ v, s = some v → v.isNum = true) ∧ (∀ v, e = some v → v.isNum = true)
      else (∀ v, s = some v → v ∈ L) ∧ (∀ v, e = some v → v ∈ L) := by
  have h0 := step_getD_ne st hst
  unfold sliceSel
  simp only [h0, Bool.false_eq_true, if_false]
  by_cases hb : isBBoxAxis L kind = true
  · simp only [hb, if_true]
    cases s with
    | none =>
      cases e with
      | none => simp
      | some w => cases hw : w.isNum <;> simp [hw]
    | some v =>
      cases e with
      | none => cases hv : v.isNum <;> simp [hv]
      | some w => cases hv : v.isNum <;> cases hw : w.isNum <;> simp [hv, hw]
  · simp only [hb, Bool.false_eq_true, if_false]
    cases s with
    | none =>
      cases e with
      | none => simp
      | some w => by_cases hw : w ∈ L <;> simp [hw]
    | some v =>
      cases e with
      | none => by_cases hv : v ∈ L <;> simp [hv]
      | some w => by_cases hv : v ∈ L <;> by_cases hw : w ∈ L <;> simp [hv, hw]

/-! ### 3. read your writes: `take_put` -/

/-- all modes, all index forms: reading back through the same index (whose resolved positions `ps` carry no
repeat) returns an array with the axes and metadata `take` gives on the original array, holding the broadcast
right-hand side -/
theorem take_put_generic (a r : DimArray α) (ui : UserIndex) (rhs : RHS α) (rk : Kind) (cfg : IndexCfg)
    (cast : Bool) (raw : List RawIx) (ps : List PosIx) (hk : cfg.keepdims = false)
    (hraw : getIndices a.axes ui cfg = .ok raw) (hps : resolveAll a.axes raw = .ok ps) (hnr : NoRepeat ps)
    (hr : put a ui rhs rk cfg cast = .ok r) :
    ∃ t t0 vget, Lib.take r ui cfg = .ok t ∧ Lib.take a ui cfg = .ok t0 ∧
      putRhs rhs (outerShape ps) = .ok vget ∧
      t.axes = t0.axes ∧ t.attrs = t0.attrs ∧ t.vals.shape = t0.vals.shape ∧ t.vals.shape = outerShape ps ∧
      ∀ c, InRange (outerShape ps) c → t.vals.get c = vget c := by
  have hraw' : getIndices a.axes ui { cfg with keepdims := false } = .ok raw := by
    rw [cfg_keepdims_false cfg hk]; exact hraw
  rw [put_of_resolve a ui rhs rk cfg cast raw ps hraw' hps] at hr
  cases hv : putRhs rhs (outerShape ps) with
  | error e => rw [hv] at hr; cases hr
  | ok vget =>
    rw [hv] at hr
    simp only [Except.map, Except.ok.injEq] at hr
    subst hr
    refine ⟨_, _, vget, take_of_resolve (putResult a ps vget rk cast) ui cfg raw ps hraw hps,
      take_of_resolve a ui cfg raw ps hraw hps, rfl, rfl, rfl, rfl, rfl, ?_⟩
    intro c hc
    have hw := writer_of_noRepeat ps c hnr hc
    have hsel := (selCoord_eq_some_iff ps (expandIx ps c) c (expandIx_length ps c)).mpr hw
    simp [putResult, NDArr.outer, putVals, hsel]

/-- **`take_put`** (label mode): after a successful assignment through an index without repeated labels, reading
the same index back succeeds, has the axes / metadata / shape that reading the original array gives, and holds
the broadcast right-hand side at every coordinate of the selection -/
theorem take_put (a r : DimArray α) (ui : UserIndex) (rhs : RHS α) (rk : Kind) (cfg : IndexCfg)
    (cast : Bool) (ixs : List Ix) (ps : List PosIx) (h : LabelCall a ui cfg ixs) (hk : cfg.keepdims = false)
    (hps : resolveL a.axes ixs = some ps) (hnodup : ∀ ix ∈ ixs, ∀ vs, ix = .list vs → vs.Nodup)
    (hr : put a ui rhs rk cfg cast = .ok r) :
    ∃ t t0 vget, Lib.take r ui cfg = .ok t ∧ Lib.take a ui cfg = .ok t0 ∧
      putRhs rhs (outerShape ps) = .ok vget ∧
      t.axes = t0.axes ∧ t.attrs = t0.attrs ∧ t.vals.shape = t0.vals.shape ∧ t.vals.shape = outerShape ps ∧
      ∀ c, InRange (outerShape ps) c → t.vals.get c = vget c := by
  obtain ⟨raw, hraw, hres⟩ := h.stages ps hps
  rw [cfg_keepdims_false cfg hk] at hraw
  exact take_put_generic a r ui rhs rk cfg cast raw ps hk hraw hres
    (resolveL_noRepeat a.axes ixs ps (fun ax hax => (h.axes ax hax).1) hnodup h.length hps) hr

/-- reading back a scalar assignment returns the scalar everywhere -/
theorem take_put_scalar (a r : DimArray α) (ui : UserIndex) (v : α) (rk : Kind) (cfg : IndexCfg)
    (cast : Bool) (ixs : List Ix) (ps : List PosIx) (h : LabelCall a ui cfg ixs) (hk : cfg.keepdims = false)
    (hps : resolveL a.axes ixs = some ps) (hnodup : ∀ ix ∈ ixs, ∀ vs, ix = .list vs → vs.Nodup)
    (hr : put a ui (.scalar v) rk cfg cast = .ok r) :
    ∃ t, Lib.take r ui cfg = .ok t ∧ t.vals.shape = outerShape ps ∧ ∀ c, InRange t.vals.shape c → t.vals.get c = v := by
  obtain ⟨t, _, vget, ht, _, hv, _, _, _, hsh, hc⟩ :=
    take_put a r ui (.scalar v) rk cfg cast ixs ps h hk hps hnodup hr
  simp only [putRhs, Except.ok.injEq] at hv
  subst hv
  exact ⟨t, ht, hsh, fun c hc' => hc c (by rw [← hsh]; exact hc')⟩

/-- reading back an array assignment (right-hand side of the selection's shape) returns the right-hand side -/
theorem take_put_array (a r : DimArray α) (ui : UserIndex) (v : NDArr α) (rk : Kind) (cfg : IndexCfg)
    (cast : Bool) (ixs : List Ix) (ps : List PosIx) (h : LabelCall a ui cfg ixs) (hk : cfg.keepdims = false)
    (hps : resolveL a.axes ixs = some ps) (hnodup : ∀ ix ∈ ixs, ∀ vs, ix = .list vs → vs.Nodup)
    (hshape : v.shape = outerShape ps) (hr : put a ui (.arr v) rk cfg cast = .ok r) :
    ∃ t, Lib.take r ui cfg = .ok t ∧ t.vals.shape = v.shape ∧ ∀ c, InRange v.shape c → t.vals.get c = v.get c := by
  obtain ⟨t, _, vget, ht, _, hv, _, _, _, hsh, hc⟩ :=
    take_put a r ui (.arr v) rk cfg cast ixs ps h hk hps hnodup hr
  obtain ⟨g, hg, hgv⟩ := broadcastTo_exact v (outerShape ps) hshape
  simp only [putRhs, hg, Except.ok.injEq] at hv
  subst hv
  refine ⟨t, ht, by rw [hsh, hshape], fun c hc' => ?_⟩
  have hin : InRange (outerShape ps) c := by rw [← hshape]; exact hc'
  rw [hc c hin, hgv c hin]

end EndToEnd

section EndToEndMore
open Spec C03P

/-! ### 2b. errors in all modes and index forms -/


/-- the per-dimension index selects nothing (as NumPy sees it before any bounds check) -/
def rawSelectsNothing (r : RawIx) (n : Nat) : Bool :=
  match r with
  | .ints l => l.isEmpty
  | .mask m => !m.any id
  | .slice s e st => (match slicePositions s e st n with | .ok ps => ps.isEmpty | .error _ => false)
  | .int _ => false

/-- when no dimension selects nothing, `put` resolves its indices exactly like `take` -/
theorem putIndices_checked (axes : List Axis) (raw : List RawIx)
    (h : ∀ x ∈ raw.zip axes, rawSelectsNothing x.1 x.2.size = false) :
    putIndices axes raw = resolveAll axes raw := by
  unfold putIndices resolveAll
  simp only []
  generalize hb : List.any (arrayKeys axes raw) _ = b
  have hbf : b = false := by
    rw [← hb, List.any_eq_false]
    rintro ⟨r, ax⟩ hx
    have := h (r, ax) (arrayKeys_subset axes raw _ hx)
    cases r with
    | slice s e st =>
      simp only [rawSelectsNothing] at this
      cases hsp : slicePositions s e st ax.size with
      | error err => simp [hsp]
      | ok ps => rw [hsp] at this; simpa [hsp] using this
    | ints l => simpa [rawSelectsNothing] using this
    | mask m => simpa [rawSelectsNothing] using this
    | int i => simp
  rw [hbf]
  congr 1
  funext ⟨r, ax⟩
  cases r <;> simp

/-- all modes, all index forms - **errors**: an index `_get_indices` refuses is refused with the same error; an
index NumPy refuses when reading (position out of range, mask of another length, zero step) is refused with the
same error when writing, provided no dimension selects nothing; a right-hand side that does not broadcast is
refused.  In each case the result is the error (nothing is written: the model is functional). -/
theorem put_error_generic {α : Type} (a : DimArray α) (ui : UserIndex) (rhs : RHS α) (rk : Kind) (cfg : IndexCfg)
    (cast : Bool) (e : Err) :
    (getIndices a.axes ui { cfg with keepdims := false } = .error e → put a ui rhs rk cfg cast = .error e) ∧
    (∀ raw, getIndices a.axes ui { cfg with keepdims := false } = .ok raw →
      (∀ x ∈ raw.zip a.axes, rawSelectsNothing x.1 x.2.size = false) →
      resolveAll a.axes raw = .error e → put a ui rhs rk cfg cast = .error e) ∧
    (∀ raw ps, getIndices a.axes ui { cfg with keepdims := false } = .ok raw → resolveAll a.axes raw = .ok ps →
      putRhs rhs (outerShape ps) = .error e → put a ui rhs rk cfg cast = .error e) := by
  refine ⟨put_error_of_getIndices a ui rhs rk cfg cast e, ?_, ?_⟩
  · intro raw hraw hne hres
    unfold put
    simp only [hraw, bind, Except.bind, putIndices_checked a.axes raw hne, hres]
  · intro raw ps hraw hps hv
    rw [put_of_resolve a ui rhs rk cfg cast raw ps hraw hps, hv]
    rfl


/-- non-vacuity in POSITION mode: `a.ix[5, :] = 7` on the 2 x 3 example - `_get_indices` passes the integer on,
no dimension is empty, NumPy refuses position 5 on an axis of length 2, and so does the assignment -/
example : put exArr (.tuple [.scalar (.num 5), fullIx]) (.scalar 7) .i { indexing := some .position } false
    = .error .index := by
  refine (put_error_generic exArr _ _ _ _ _ _).2.1 [.int 5, .slice none none none] rfl ?_ rfl
  intro x hx
  simp [exArr] at hx
  rcases hx with rfl | rfl <;> rfl




/-! ### 2c. an index that selects nothing (zero-length axes, empty lists / slices, all-`False` masks) -/

/-- the emptiness test inside `putIndices` is `rawSelectsNothing` on the index arrays of the key -/
theorem putIndices_cases (axes : List Axis) (raw : List RawIx) (c : Bool)
    (h : (arrayKeys axes raw).any (fun x => rawSelectsNothing x.1 x.2.size) = c) :
    putIndices axes raw = if c then (raw.zip axes).mapM uncheckedRaw else resolveAll axes raw := by
  unfold putIndices resolveAll
  simp only []
  generalize hb : List.any (arrayKeys axes raw) _ = b
  have hbc : b = c := by
    rw [← hb, ← h]
    congr 1
  subst hbc
  cases b with
  | true =>
    simp only [if_true]
    congr 1
    funext ⟨r, ax⟩
    cases r <;> simp [uncheckedRaw]
  | false =>
    simp only [Bool.false_eq_true, if_false]
    congr 1
    funext ⟨r, ax⟩
    cases r <;> simp

/-- **`put_zero_length`** (all modes, all index forms).  `_get_indices` returned `raw`, and on some dimension
the index selects nothing - the dimension has length zero, the list is empty, the mask has no `True`, the slice
is empty.  Then
* **nothing is written**: if the assignment succeeds every cell, the axes, the metadata and the shape are what
  they were (only the dtype kind follows `cast`);
* it succeeds exactly when NumPy accepts the per-dimension indices (`putIndices`) and the right-hand side
  broadcasts to the shape of the (empty) selection;
* NumPy's acceptance: when every INDEX ARRAY of the key selects something (`arrayKeys`: integers and the full
  slices at the start / at the end of the key are not index arrays - so the empty dimension is one that
  `orthogonal_indexer` left as a slice), the positions are checked exactly as the read checks them
  (`resolveAll`: a position beyond its axis is an `IndexError`); when some index array selects nothing the
  positions inside lists and masks are not looked at (`uncheckedRaw`: only their length enters the shape),
  integers and slices are still checked. -/
theorem put_zero_length {α : Type} (a : DimArray α) (ui : UserIndex) (rhs : RHS α) (rk : Kind) (cfg : IndexCfg)
    (cast : Bool) (raw : List RawIx)
    (hraw : getIndices a.axes ui { cfg with keepdims := false } = .ok raw)
    (hempty : (raw.zip a.axes).any (fun x => rawSelectsNothing x.1 x.2.size) = true) :
    (∀ r, put a ui rhs rk cfg cast = .ok r →
      r.axes = a.axes ∧ r.attrs = a.attrs ∧ r.vals.shape = a.vals.shape ∧ (∀ j, r.vals.get j = a.vals.get j) ∧
      r.vkind = (if cast then maybeCastKind a.vkind rk else a.vkind)) ∧
    ((∃ r, put a ui rhs rk cfg cast = .ok r) ↔
      ∃ pix, putIndices a.axes raw = .ok pix ∧ 0 ∈ outerShape pix ∧ ∃ vget, putRhs rhs (outerShape pix) = .ok vget) ∧
    ((arrayKeys a.axes raw).any (fun x => rawSelectsNothing x.1 x.2.size) = false →
      putIndices a.axes raw = resolveAll a.axes raw) ∧
    ((arrayKeys a.axes raw).any (fun x => rawSelectsNothing x.1 x.2.size) = true →
      putIndices a.axes raw = (raw.zip a.axes).mapM uncheckedRaw) := by
  have hzero : ∀ pix, putIndices a.axes raw = .ok pix → 0 ∈ outerShape pix := by
    intro pix hpix
    unfold putIndices at hpix
    simp only [] at hpix
    generalize hb : List.any (arrayKeys a.axes raw) _ = b at hpix
    refine anyEmpty_zero_mem_put _ (fun x => rawSelectsNothing x.1 x.2.size) b ?_ ?_ ?_ ?_ ?_ ?_ ?_ _ pix hpix hempty
    · intro _ _; rfl
    · intro _ _; rfl
    · intro _ _ _ _; rfl
    · intro _ _; rfl
    · intro _ _; rfl
    · intro s e st ax ps hps; simp only [rawSelectsNothing, hps]
    · intro _ _; rfl
  refine ⟨?_, ?_, ?_, ?_⟩
  · intro r hr
    have hk := put_kind a r ui rhs rk cfg cast hr
    obtain ⟨h1, h2, h3⟩ := put_labels_unchanged a r ui rhs rk cfg cast hr
    refine ⟨h1, h2, h3, ?_, hk⟩
    intro j
    unfold put at hr
    simp only [hraw, bind, Except.bind] at hr
    cases hpix : putIndices a.axes raw with
    | error e => rw [hpix] at hr; cases hr
    | ok pix =>
      rw [hpix] at hr
      simp only at hr
      cases hv : putRhs rhs (outerShape pix) with
      | error e => rw [hv] at hr; cases hr
      | ok vget =>
        rw [hv] at hr
        simp only [pure, Except.pure, Except.ok.injEq] at hr
        subst hr
        simp [putVals, selCoord_none_of_zero pix j (hzero pix hpix)]
  · constructor
    · rintro ⟨r, hr⟩
      unfold put at hr
      simp only [hraw, bind, Except.bind] at hr
      cases hpix : putIndices a.axes raw with
      | error e => rw [hpix] at hr; cases hr
      | ok pix =>
        rw [hpix] at hr
        simp only at hr
        cases hv : putRhs rhs (outerShape pix) with
        | error e => rw [hv] at hr; cases hr
        | ok vget => exact ⟨pix, rfl, hzero pix hpix, vget, hv⟩
    · rintro ⟨pix, hpix, _, vget, hv⟩
      unfold put
      simp only [hraw, bind, Except.bind, hpix, hv]
      exact ⟨_, rfl⟩
  · intro h
    rw [putIndices_cases a.axes raw false h]; rfl
  · intro h
    rw [putIndices_cases a.axes raw true h]; rfl

/-- a 2 x 0 array (axes x = [b, a], y = []) and a 3 x 0 x 2 array -/
def c03exZero : DimArray Nat :=
  { axes := [{ name := "x", labels := [.str "b", .str "a"], kind := .O }, { name := "y", labels := [], kind := .i }]
    vals := { shape := [2, 0], get := fun _ => 0 } }

def c03exZero3 : DimArray Nat :=
  { axes := [{ name := "x", labels := [.num 1, .num 2, .num 3], kind := .i }, { name := "y", labels := [], kind := .i },
             { name := "z", labels := [.num 1, .num 2], kind := .i }]
    vals := { shape := [3, 0, 2], get := fun _ => 0 } }

/-- both branches are inhabited, and the hypothesis of the unchecked branch is needed (counterexample):
`a.ix[[5], :] = 7` on the 2 x 0 array is an `IndexError` (the empty dimension is a trailing full slice, which stays a
slice: position 5 is checked), although the selection is empty; `a.ix[[5], :, [1]] = 7` on the 3 x 0 x 2 array
succeeds (the full slice stands between two index arrays and becomes an empty index array: position 5 is not
looked at), and so does `a.ix[[5], 0:0] = 7` on the 2 x 3 example; an integer beyond its axis is refused in any case -/
theorem put_zero_length_counterexample :
    (match put c03exZero (.tuple [.list [.num 5], fullIx]) (.scalar 7) .i { indexing := some .position } false with
      | .error e => some e | .ok _ => none) = some Err.index ∧
    (put c03exZero3 (.tuple [.list [.num 5], fullIx, .list [.num 1]]) (.scalar 7) .i { indexing := some .position } false).toOption.isSome = true ∧
    (put exArr (.tuple [.list [.num 5], .slice (some (.num 0)) (some (.num 0)) none]) (.scalar 7) .i
      { indexing := some .position } false).toOption.isSome = true ∧
    (match put c03exZero3 (.tuple [.scalar (.num 5), fullIx, .list []]) (.scalar 7) .i { indexing := some .position } false with
      | .error e => some e | .ok _ => none) = some Err.index := by
  refine ⟨by decide, by decide, by decide, by decide⟩

/-! ### 4. kind / `cast`, end to end -/

/-- **the `cast` flag as mirrored** (any index form, any mode): it changes nothing but the kind of the result -
the same calls succeed, with the same error otherwise, the same cells are written with the same values
(the mirror's cells are symbolic: NumPy's coercion of an assigned value to the array's dtype - e.g. truncation
of a float written into an int array without `cast` - is applied by the harness from the result's kind);
with `cast` the kind is `maybeCastKind`, without it the array's own -/
theorem put_cast_only_kind {α : Type} (a : DimArray α) (ui : UserIndex) (rhs : RHS α) (rk : Kind) (cfg : IndexCfg) :
    put a ui rhs rk cfg true =
      (put a ui rhs rk cfg false).map (fun r => { r with vkind := maybeCastKind a.vkind rk }) ∧
    (∀ r, put a ui rhs rk cfg false = .ok r → r.vkind = a.vkind) := by
  constructor
  · unfold put
    simp only [bind, Except.bind, pure, Except.pure, Except.map]
    cases getIndices a.axes ui { cfg with keepdims := false } with
    | error e => rfl
    | ok raw =>
      simp only
      cases putIndices a.axes raw with
      | error e => rfl
      | ok pix =>
        simp only
        cases putRhs rhs (outerShape pix) <;> rfl
  · intro r hr
    have := put_kind a r ui rhs rk cfg false hr
    simpa using this

/-- `_maybe_cast_type` on ALL pairs of kinds: the array keeps its kind exactly when it can hold the assigned kind
(same kind, object, float <- int, unicode <- bytes); int <- float becomes float (no truncation), bytes <- unicode
becomes unicode, everything else object -/
theorem maybeCastKind_spec (a v : Kind) :
    (maybeCastKind a v = a ↔ (a = v ∨ a = .O ∨ (a = .f ∧ v = .i) ∨ (a = .U ∧ v = .S))) ∧
    (a = .i → v = .f → maybeCastKind a v = .f) ∧ (a = .S → v = .U → maybeCastKind a v = .U) ∧
    (maybeCastKind a v = a ∨ maybeCastKind a v = .f ∨ maybeCastKind a v = .U ∨ maybeCastKind a v = .O) := by
  cases a <;> cases v <;> decide



/-! ### non-vacuity: `exArr` (C01: axes x = [b, a], y = [3, 1, 2], cells 0..5), index `a["a", [2, 3, 2]]` -/

theorem c03exCall : LabelCall exArr (.tuple exIx) {} exIx where
  mode := rfl
  tol := rfl
  norm := rfl
  good := by intro ix hix; simp [exIx] at hix; rcases hix with rfl | rfl <;> simp [GoodIx]
  axes := by intro ax hax; simp [exArr] at hax; rcases hax with rfl | rfl <;> simp

/-- every requested label is present: the index resolves, label 2 (listed twice) to position 2 -/
theorem c03exRes : resolveL exArr.axes exIx = some [.scalar 1, .list [2, 0, 2]] := by decide

def c03exRhs : NDArr Nat := { shape := [3], get := fun c => 100 + c.getD 0 0 }

/-- the hypotheses of `put_label_spec` / `put_label_array` hold, and the call writes `rhs[1]` at label 3,
`rhs[2]` (the LAST of the two writers of label 2, not `rhs[0]`) at label 2, nothing else -/
example : (put exArr (.tuple exIx) (.arr c03exRhs) .i {} false).toOption.map (·.vals.toList)
    = some [0, 1, 2, 101, 4, 102] := by
  rw [put_label_eq exArr _ _ _ _ _ exIx _ c03exCall c03exRes]
  decide

/-- label-level addressing on the example: cell (a, 2) = [1, 2] is addressed, cell (b, 2) = [0, 2] and cell
(a, 1) = [1, 1] are not; the writer of [1, 2] is selection coordinate [2] -/
example : LabelAddressed exArr.axes exIx [1, 2] ∧ ¬ LabelAddressed exArr.axes exIx [0, 2] ∧
    ¬ LabelAddressed exArr.axes exIx [1, 1] ∧ Writer [.scalar 1, .list [2, 0, 2]] [1, 2] [2] := by
  refine ⟨?_, ?_, ?_, ?_⟩
  · simp [LabelAddressed, LabelSel, exArr, exIx]
  · simp [LabelAddressed, LabelSel, exArr, exIx]
  · simp [LabelAddressed, LabelSel, exArr, exIx]
  · simp only [Writer]
    refine ⟨by trivial, ⟨by trivial, ?_⟩, by trivial⟩
    intro c' hc'
    have : [2, 0, 2][c']? = none := by
      apply List.getElem?_eq_none
      simp; omega
    simp [this]

/-- `put_ok_iff` on the example: a right-hand side of shape [3] (or [1], or a scalar) fits, shape [2] does not -/
example : (∃ r, put exArr (.tuple exIx) (.arr c03exRhs) .i {} false = .ok r) ∧
    put exArr (.tuple exIx) (.arr { shape := [2], get := fun _ => 0 }) .i {} false = .error .value := by
  constructor
  · rw [put_ok_iff exArr _ _ _ _ _ exIx c03exCall]
    exact ⟨_, c03exRes, by simp [putRhs, c03exRhs, broadcastTo, outerShape]⟩
  · exact put_misfit_error exArr _ _ _ _ _ exIx _ c03exCall c03exRes (by simp [broadcastTo, outerShape])

/-- an absent label ("c" is not on axis x): the index does not resolve and the call is an `IndexError` -/
def c03exIxAbsent : List Ix := [.scalar (.str "c"), .list [.num 2]]

example : resolveL exArr.axes c03exIxAbsent = none ∧
    ∃ e, put exArr (.tuple c03exIxAbsent) (.scalar 7) .i {} false = .error e ∧ e = .index := by
  have hcall : LabelCall exArr (.tuple c03exIxAbsent) {} c03exIxAbsent :=
    { mode := rfl, tol := rfl, norm := rfl
      good := by intro ix hix; simp [c03exIxAbsent] at hix; rcases hix with rfl | rfl <;> simp [GoodIx]
      axes := c03exCall.axes }
  have hres : resolveL exArr.axes c03exIxAbsent = none := by decide
  obtain ⟨e, he, hc⟩ := put_unresolved_error exArr (.tuple c03exIxAbsent) (.scalar 7) .i {} false c03exIxAbsent hcall hres
  refine ⟨hres, e, he, hc ?_⟩
  intro ix hix; simp [c03exIxAbsent] at hix; rcases hix with rfl | rfl <;> simp [SimpleIx]

/-- `take_put` on an index without repeats, dict form `{"y": [2, 3]}` (a label slice would do as well): the
hypotheses hold and the read-back is the right-hand side -/
def c03exIxY : List Ix := [fullIx, .list [.num 2, .num 3]]

theorem c03exCallY : LabelCall exArr (.dict [(.name "y", .list [.num 2, .num 3])]) {} c03exIxY where
  mode := rfl
  tol := rfl
  norm := (normalizeIndex_dict1 ["x", "y"] "y" _ (by simp) (by simp)).1
  good := by intro ix hix; simp [c03exIxY, fullIx] at hix; rcases hix with rfl | rfl <;> simp [GoodIx]
  axes := c03exCall.axes

theorem c03exResY : resolveL exArr.axes c03exIxY = some [.list [0, 1], .list [2, 0]] := by decide

theorem c03exNodupY : ∀ ix ∈ c03exIxY, ∀ vs, ix = .list vs → vs.Nodup := by
  intro ix hix vs hvs
  simp [c03exIxY, fullIx] at hix
  rcases hix with rfl | rfl
  · cases hvs
  · cases hvs; decide

/-- any right-hand side of shape [2, 2] can be assigned through `{"y": [2, 3]}` and is read back unchanged -/
example (v : NDArr Nat) (hv : v.shape = [2, 2]) :
    ∃ r, put exArr (.dict [(.name "y", .list [.num 2, .num 3])]) (.arr v) .i {} false = .ok r ∧
      ∃ t, Lib.take r (.dict [(.name "y", .list [.num 2, .num 3])]) {} = .ok t ∧ t.vals.shape = v.shape ∧
        ∀ c, InRange v.shape c → t.vals.get c = v.get c := by
  have hsh : v.shape = outerShape [.list [0, 1], .list [2, 0]] := by simp [hv, outerShape]
  obtain ⟨g, hg, _⟩ := broadcastTo_exact v _ hsh
  obtain ⟨r, hr⟩ := (put_ok_iff exArr _ (.arr v) .i {} false c03exIxY c03exCallY).mpr
    ⟨_, c03exResY, g, by simp [putRhs, hg]⟩
  exact ⟨r, hr, take_put_array exArr r _ v .i {} false c03exIxY _ c03exCallY rfl c03exResY c03exNodupY hsh hr⟩

/-- a label slice on the numeric axis y = [3, 1, 2] (not monotonic: bounds must be labels, first to second
inclusive): `a[:, 3:1]` resolves to positions 0, 1 -/
example : GoodIx (.slice (some (.num 3)) (some (.num 1)) none) ∧
    resolveL exArr.axes [fullIx, .slice (some (.num 3)) (some (.num 1)) none] = some [.list [0, 1], .list [0, 1]] := by
  refine ⟨by simp [GoodIx], ?_⟩
  have hs : sliceSel [Label.num 3, Label.num 1, Label.num 2] Kind.i (some (Label.num 3)) (some (Label.num 1)) none
      = some [0, 1] := by
    have hmono : isBBoxAxis [Label.num 3, Label.num 1, Label.num 2] Kind.i = false := by decide
    have hpr : posRange 3 (some 0) (some 1) = [0, 1] := by decide
    have h3 : firstIdx [Label.num 3, Label.num 1, Label.num 2] (Label.num 3) = 0 := by decide
    have h1 : firstIdx [Label.num 3, Label.num 1, Label.num 2] (Label.num 1) = 1 := by decide
    have hm3 : Label.num 3 ∈ [Label.num 3, Label.num 1, Label.num 2] := by decide
    have hm1 : Label.num 1 ∈ [Label.num 3, Label.num 1, Label.num 2] := by decide
    simp [sliceSel, hmono, hm3, hm1, h3, h1, hpr, everyKth_cons, everyKth_nil]
  simp [resolveL, positionsL, exArr, fullIx, Ix.isFull, hs]
  decide

/-! ### a mask of the wrong length is refused by the assignment as it is by the read -/

/-- `a[[False, False], [True]] = 7` on the 2 x 3 example has a mask of length 1 on an axis of length 3: the index
does not resolve, READING it is an `IndexError` and so is the assignment - although the first dimension selects
nothing, so that NumPy itself would not have looked at the second index (`putIndices`): `_get_indices` checks the
length of every boolean index against its axis before anything is written. -/
theorem put_mask_length_checked_example :
    let ixs : List Ix := [.mask [false, false], .mask [true]]
    resolveL exArr.axes ixs = none ∧
    (match Lib.take exArr (.tuple ixs) {} with | .error e => some e | .ok _ => none) = some Err.index ∧
    (match put exArr (.tuple ixs) (.scalar 7) .i {} false with | .error e => some e | .ok _ => none) = some Err.index := by
  refine ⟨by decide, by decide, by decide⟩


end EndToEndMore

end DimModel

/-
C03 - property theorems: assignment writes exactly the addressed cells.
-/
import DimModel.Lib.GetSet
import DimModel.Gen.TableC03
namespace DimModel
open Lib

/-- position `k` is written by the selection `ps` iff it occurs in it; the writer is an occurrence -/
theorem lastSel_some_iff (ps : List Nat) (k : Nat) : (lastSel ps k).isSome = true ↔ k ∈ ps := by
  unfold lastSel
  have hlen : ps.reverse.length = ps.length := List.length_reverse
  constructor
  · intro h
    simp only at h
    split at h
    · rename_i hlt
      have hlt' : List.findIdx (· == k) ps.reverse < ps.reverse.length := by rw [hlen]; exact hlt
      have := List.findIdx_lt_length.mp hlt'
      obtain ⟨x, hx, hxk⟩ := this
      have : x = k := by simpa using hxk
      subst this
      exact List.mem_reverse.mp hx
    · simp at h
  · intro h
    have : List.findIdx (· == k) ps.reverse < ps.reverse.length :=
      List.findIdx_lt_length.mpr ⟨k, List.mem_reverse.mpr h, by simp⟩
    rw [hlen] at this
    simp only [this, if_true, Option.isSome_some]

theorem lastSel_get (ps : List Nat) (k c : Nat) (h : lastSel ps k = some c) : ps[c]? = some k := by
  unfold lastSel at h
  simp only at h
  split at h
  · rename_i hlt
    cases h
    have hlen : ps.reverse.length = ps.length := List.length_reverse
    have hlt' : List.findIdx (· == k) ps.reverse < ps.reverse.length := by rw [hlen]; exact hlt
    have hget := List.findIdx_getElem (p := (· == k)) (xs := ps.reverse) (w := hlt')
    have hk : ps.reverse[List.findIdx (· == k) ps.reverse] = k := by simpa using hget
    rw [List.getElem_reverse] at hk
    have hidx : ps.length - 1 - List.findIdx (· == k) ps.reverse < ps.length := by omega
    rw [List.getElem?_eq_getElem hidx]
    exact congrArg some hk
  · cases h

/-- **frame**: a cell that the index does not address keeps its value -/
theorem put_frame {α : Type} (vals : NDArr α) (pix : List PosIx) (vget : List Nat → α) (j : List Nat)
    (h : selCoord pix j = none) : (putVals vals pix vget).get j = vals.get j := by
  simp [putVals, h]

/-- **write**: a cell that the index addresses receives the (broadcast) value at its selection coordinate -/
theorem put_writes {α : Type} (vals : NDArr α) (pix : List PosIx) (vget : List Nat → α) (j c : List Nat)
    (h : selCoord pix j = some c) : (putVals vals pix vget).get j = vget c := by
  simp [putVals, h]

/-- the shape never changes -/
theorem put_shape {α : Type} (vals : NDArr α) (pix : List PosIx) (vget : List Nat → α) :
    (putVals vals pix vget).shape = vals.shape := rfl

/-- **the written cells are exactly the cells the same index reads**: if cell `j` is written from
selection coordinate `c`, then reading the selection at `c` (`expandIx`, the index map of
`NDArr.outer` used by `take`) addresses cell `j` -/
theorem selCoord_expand : ∀ (pix : List PosIx) (j c : List Nat), j.length = pix.length →
    selCoord pix j = some c → expandIx pix c = j
  | [], [], c, _, h => by simp [selCoord] at h; subst h; rfl
  | [], _ :: _, _, hl, _ => by simp at hl
  | _ :: _, [], _, hl, _ => by simp at hl
  | .scalar p :: pix, k :: j, c, hl, h => by
    simp only [selCoord] at h
    split at h
    · rename_i hk
      have hk' : k = p := by simpa using hk
      subst hk'
      simp only [expandIx]
      rw [selCoord_expand pix j c (by simpa using hl) h]
    · cases h
  | .list ps :: pix, k :: j, c, hl, h => by
    simp only [selCoord] at h
    cases h1 : lastSel ps k with
    | none => simp [h1] at h
    | some c0 =>
      cases h2 : selCoord pix j with
      | none => simp [h1, h2] at h
      | some cs =>
        simp [h1, h2] at h
        subst h
        simp only [expandIx]
        have := lastSel_get ps k c0 h1
        rw [selCoord_expand pix j cs (by simpa using hl) h2]
        simp [List.getD_eq_getElem?_getD, this]

/-- **read back**: after the assignment, reading the array at a written cell returns the assigned
value (the cell is the one `take` reads at selection coordinate `c`) -/
theorem get_put {α : Type} (vals : NDArr α) (pix : List PosIx) (vget : List Nat → α) (j c : List Nat)
    (hl : j.length = pix.length) (h : selCoord pix j = some c) :
    (putVals vals pix vget).get (expandIx pix c) = vget c := by
  rw [selCoord_expand pix j c hl h]
  exact put_writes vals pix vget j c h

/-- labels, dimension names and metadata are untouched by `put` -/
theorem put_labels_unchanged {α : Type} (a r : DimArray α) (ui : UserIndex) (rhs : RHS α) (rk : Kind)
    (cfg : IndexCfg) (cast : Bool) (h : put a ui rhs rk cfg cast = .ok r) :
    r.axes = a.axes ∧ r.attrs = a.attrs ∧ r.vals.shape = a.vals.shape := by
  unfold put at h
  simp only [bind, Except.bind] at h
  split at h
  · cases h
  · split at h
    · cases h
    · split at h
      · cases h
      · simp only [pure, Except.pure] at h
        cases h
        exact ⟨rfl, rfl, rfl⟩

/-- without `cast` the array keeps its dtype kind; with `cast` it becomes `maybeCastKind` -/
theorem put_kind {α : Type} (a r : DimArray α) (ui : UserIndex) (rhs : RHS α) (rk : Kind)
    (cfg : IndexCfg) (cast : Bool) (h : put a ui rhs rk cfg cast = .ok r) :
    r.vkind = if cast then maybeCastKind a.vkind rk else a.vkind := by
  unfold put at h
  simp only [bind, Except.bind] at h
  split at h
  · cases h
  · split at h
    · cases h
    · split at h
      · cases h
      · simp only [pure, Except.pure] at h
        cases h
        rfl


/-! ### full-shape boolean masks (`a[mask] = v`, `put(mask, v)`) -/

/-- the cells where the mask is true take the value, every other cell, all labels, dimension names and the
metadata are untouched; a mask of another shape is an IndexError -/
theorem putBool_spec {α : Type} (a r : DimArray α) (mask : NDArr Bool) (v : α) (rk : Kind) (cast : Bool)
    (h : putBool a mask v rk cast = .ok r) :
    mask.shape = a.vals.shape ∧ r.axes = a.axes ∧ r.attrs = a.attrs ∧ r.vals.shape = a.vals.shape ∧
    (∀ j, mask.get j = true → r.vals.get j = v) ∧ (∀ j, mask.get j = false → r.vals.get j = a.vals.get j) := by
  unfold putBool at h
  split at h
  · cases h
  · rename_i hs
    have hshape : mask.shape = a.vals.shape := by
      by_cases hq : mask.shape = a.vals.shape
      · exact hq
      · exact absurd (by simp [bne_iff_ne, hq]) hs
    injection h with h
    subst h
    refine ⟨hshape, rfl, rfl, rfl, ?_, ?_⟩
    · intro j hj
      simp [NDArr.putWhere, hj]
    · intro j hj
      simp [NDArr.putWhere, hj]

theorem putBool_shape_error {α : Type} (a : DimArray α) (mask : NDArr Bool) (v : α) (rk : Kind) (cast : Bool)
    (hne : mask.shape ≠ a.vals.shape) : putBool a mask v rk cast = .error .index := by
  unfold putBool
  simp [bne_iff_ne, hne]

/-! ### the cast table of the implementation (regenerated on every run) -/

/-- the implementation's `_maybe_cast_type` is the model's `maybeCastKind` on every pair of kinds -/
theorem maybeCast_table_agrees : ∀ r ∈ Gen.maybeCastTable, maybeCastKind r.1 r.2.1 = r.2.2 := by decide

/-- no assigned value is truncated or lost: the resulting kind is the array's own kind only when it
can hold the assigned kind (same kind, object, float <- int, unicode <- bytes), int <- float widens
to float, and every other mixture is widened to object -/
theorem maybeCast_table_lossless :
    ∀ r ∈ Gen.maybeCastTable,
      (r.2.2 = r.1 → (r.1 = r.2.1 ∨ r.1 = .O ∨ (r.1 = .f ∧ r.2.1 = .i) ∨ (r.1 = .U ∧ r.2.1 = .S))) ∧
      (r.1 = .i ∧ r.2.1 = .f → r.2.2 = .f) ∧
      (r.2.2 = r.1 ∨ r.2.2 = .f ∨ r.2.2 = .U ∨ r.2.2 = .O) := by decide

theorem maybeCast_table_covers_numeric_object :
    ∀ a ∈ [Kind.b, .i, .f, .O], ∀ v ∈ [Kind.b, .i, .f, .U],
      (Gen.maybeCastTable.any fun r => r.1 == a && r.2.1 == v) = true := by decide

/-- non-vacuity: a selection with a repeat writes cell 2 from its last occurrence -/
example : lastSel [2, 0, 2] 2 = some 2 ∧ selCoord [.list [2, 0, 2], .scalar 1] [2, 1] = some [2] ∧
    selCoord [.list [2, 0, 2], .scalar 1] [1, 1] = none := by decide

end DimModel
